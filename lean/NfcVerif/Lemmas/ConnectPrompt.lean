import NfcVerif.Lemmas.Connect
/-!
# connect() ends promptly once terminate() is true (C18)

`after log`: `none` while no `terminate()` poll has answered true, then the number of events
since the first true answer.  `Pre`: no true answer yet, the remaining stream is monotone (once
true it stays true).  `Post n`: `n` events since the first true answer, the remaining stream is
all true.  Every piece of the model is a `PSpec c`: it adds at most `c` events in `Post`, and from
`Pre` it ends in `Pre` or in `Post n` with `n ≤ c`.
-/
namespace NfcVerif.Clf

def pstep : Option Nat → Ev → Option Nat
  | none, .term true => some 0
  | none, _ => none
  | some n, _ => some (n + 1)

def after (l : List Ev) : Option Nat := l.foldl pstep none

def AllTrue (ts : List Bool) : Prop := ∀ b ∈ ts, b = true

/-- once `terminate()` is true it stays true -/
def Mono : List Bool → Prop
  | [] => True
  | true :: r => AllTrue r
  | false :: r => Mono r

theorem AllTrue.mono {ts : List Bool} (h : AllTrue ts) : Mono ts := by
  induction ts with
  | nil => trivial
  | cons b r ih =>
    have hb := h b (by simp)
    subst hb
    exact fun x hx => h x (by simp [hx])

theorem foldl_pstep_some (seg : List Ev) (n : Nat) : seg.foldl pstep (some n) = some (n + seg.length) := by
  induction seg generalizing n with
  | nil => rfl
  | cons e r ih => simp only [List.foldl_cons, pstep, ih, List.length_cons]; congr 1; omega

theorem foldl_pstep_none (seg : List Ev) (h : ∀ e ∈ seg, e ≠ .term true) : seg.foldl pstep none = none := by
  induction seg with
  | nil => rfl
  | cons e r ih =>
    have he := h e (by simp)
    have : pstep none e = none := by
      cases e with
      | term b => cases b with
        | true => exact absurd rfl he
        | false => rfl
      | _ => rfl
    simp only [List.foldl_cons, this]
    exact ih (fun x hx => h x (by simp [hx]))

def Pre (s : St) (ts : List Bool) : Prop := after s.log = none ∧ Mono ts
def Post (n : Nat) (s : St) (ts : List Bool) : Prop := after s.log = some n ∧ AllTrue ts

def PreSpec (c : Nat) (s : St) (ts : List Bool) (s' : St) (ts' : List Bool) : Prop :=
  Pre s ts → Pre s' ts' ∨ ∃ n, n ≤ c ∧ Post n s' ts'
def PostSpec (c : Nat) (s : St) (ts : List Bool) (s' : St) (ts' : List Bool) : Prop :=
  ∀ m, Post m s ts → ∃ n, n ≤ m + c ∧ Post n s' ts'
def PSpec (c : Nat) (s : St) (ts : List Bool) (s' : St) (ts' : List Bool) : Prop :=
  PreSpec c s ts s' ts' ∧ PostSpec c s ts s' ts'

theorem PSpec.refl (s : St) (ts : List Bool) : PSpec 0 s ts s ts :=
  ⟨fun h => Or.inl h, fun m h => ⟨m, by omega, h⟩⟩

theorem PreSpec.trans {c1 c2 : Nat} {s s1 s2 : St} {ts ts1 ts2 : List Bool}
    (h1 : PreSpec c1 s ts s1 ts1) (h2 : PSpec c2 s1 ts1 s2 ts2) : PreSpec (c1 + c2) s ts s2 ts2 := by
  intro hp
  rcases h1 hp with h | ⟨n, hn, h⟩
  · rcases h2.1 h with h' | ⟨n, hn, h'⟩
    · exact Or.inl h'
    · exact Or.inr ⟨n, by omega, h'⟩
  · obtain ⟨n', hn', h'⟩ := h2.2 n h
    exact Or.inr ⟨n', by omega, h'⟩

theorem PSpec.trans {c1 c2 : Nat} {s s1 s2 : St} {ts ts1 ts2 : List Bool}
    (h1 : PSpec c1 s ts s1 ts1) (h2 : PSpec c2 s1 ts1 s2 ts2) : PSpec (c1 + c2) s ts s2 ts2 := by
  refine ⟨PreSpec.trans h1.1 h2, ?_⟩
  intro m hm
  obtain ⟨n, hn, h⟩ := h1.2 m hm
  obtain ⟨n', hn', h'⟩ := h2.2 n h
  exact ⟨n', by omega, h'⟩

theorem PreSpec.mono {c c' : Nat} (hc : c ≤ c') {s s' : St} {ts ts' : List Bool}
    (h : PreSpec c s ts s' ts') : PreSpec c' s ts s' ts' := by
  intro hp
  rcases h hp with h | ⟨n, hn, h⟩
  · exact Or.inl h
  · exact Or.inr ⟨n, by omega, h⟩

theorem PSpec.mono {c c' : Nat} (hc : c ≤ c') {s s' : St} {ts ts' : List Bool}
    (h : PSpec c s ts s' ts') : PSpec c' s ts s' ts' := by
  refine ⟨PreSpec.mono hc h.1, ?_⟩
  intro m hm
  obtain ⟨n, hn, h'⟩ := h.2 m hm
  exact ⟨n, by omega, h'⟩

/-- `s'` extends the log of `s` by at most `k` events, none of them a true terminate() answer -/
def Seg (k : Nat) (s s' : St) : Prop :=
  ∃ seg, s'.log = s.log ++ seg ∧ (∀ e ∈ seg, e ≠ .term true) ∧ seg.length ≤ k

theorem Seg.refl (s : St) : Seg 0 s s := ⟨[], by simp, by simp, by simp⟩
theorem Seg.trans {k1 k2 : Nat} {a b c : St} (h1 : Seg k1 a b) (h2 : Seg k2 b c) : Seg (k1 + k2) a c := by
  obtain ⟨s1, l1, n1, b1⟩ := h1
  obtain ⟨s2, l2, n2, b2⟩ := h2
  refine ⟨s1 ++ s2, by rw [l2, l1, List.append_assoc], ?_, by simp; omega⟩
  intro e he
  rcases List.mem_append.mp he with h | h
  · exact n1 e h
  · exact n2 e h
theorem Seg.mono {k k' : Nat} (hk : k ≤ k') {a b : St} (h : Seg k a b) : Seg k' a b := by
  obtain ⟨s1, l1, n1, b1⟩ := h
  exact ⟨s1, l1, n1, by omega⟩

theorem Seg.pspec {k : Nat} {s s' : St} (h : Seg k s s') (ts : List Bool) : PSpec k s ts s' ts := by
  obtain ⟨seg, hl, hn, hk⟩ := h
  constructor
  · intro ⟨h1, h2⟩
    refine Or.inl ⟨?_, h2⟩
    unfold after at h1 ⊢
    rw [hl, List.foldl_append, h1]
    exact foldl_pstep_none seg hn
  · intro m ⟨h1, h2⟩
    refine ⟨m + seg.length, by omega, ?_, h2⟩
    unfold after at h1 ⊢
    rw [hl, List.foldl_append, h1]
    exact foldl_pstep_some seg m

/-- no true answer: `Pre` is kept -/
theorem Seg.keeps {k : Nat} {s s' : St} (h : Seg k s s') {ts : List Bool} (hp : Pre s ts) : Pre s' ts := by
  obtain ⟨seg, hl, hn, _⟩ := h
  obtain ⟨h1, h2⟩ := hp
  refine ⟨?_, h2⟩
  unfold after at h1 ⊢
  rw [hl, List.foldl_append, h1]
  exact foldl_pstep_none seg hn

theorem Seg.ask (s : St) (site : Site) : Seg 1 s (s.ask site).2 := by
  obtain ⟨a, ha⟩ := ask_spec s site
  rw [ha]
  exact ⟨[.call site a], rfl, by simp, by simp⟩

theorem Seg.emit (s : St) (e : Ev) (he : e ≠ .term true) : Seg 1 s (s.emit e) :=
  ⟨[e], rfl, by simpa using he, by simp⟩

theorem Seg.target (s : St) (t : Tgt) : Seg 0 s { s with target := t } := ⟨[], by simp, by simp, by simp⟩

theorem Seg.simpleCall (site : Site) (s : St) : Seg 1 s (simpleCall site s).2 := by
  obtain ⟨a, h1, _⟩ := simpleCall_spec site s
  rw [h1]
  exact ⟨[.call site a], rfl, by simp, by simp⟩

theorem Seg.exchange (s : St) : Seg 1 s (exchange s).2 := by
  have := (exchange_spec s).2
  cases ht : s.target with
  | none => rw [ht] at this; simp only at this; rw [this]; exact (Seg.refl s).mono (by omega)
  | remote id => rw [ht] at this; obtain ⟨a, ha⟩ := this; exact ⟨_, ha, by simp, by simp⟩
  | loc id => rw [ht] at this; obtain ⟨a, ha⟩ := this; exact ⟨_, ha, by simp, by simp⟩

theorem Seg.cb (c : Cb) (d : Val) (r : Role) (k : CbKind) (s : St) : Seg 1 s (c.run d r k s).2 := by
  obtain ⟨b, h⟩ := Cb.run_eq c d r k s
  rw [h]
  exact Seg.emit s _ (by simp)

theorem Seg.drvListen (site : Site) (s : St) : Seg 1 s (drvListen site s).2 := by
  obtain ⟨a, ha⟩ := ask_spec s site
  have h := Seg.ask s site
  rw [ha] at h
  unfold Clf.drvListen
  rw [ha]
  cases a <;> exact h

theorem Seg.listen (t : LtSpec) (s : St) : Seg 2 s (listen t s).2 := by
  unfold Clf.listen
  have h2 := (Seg.target s .none).trans (Seg.simpleCall .mute { s with target := .none })
  rcases hm : Clf.simpleCall .mute { s with target := .none } with ⟨r2, s2⟩
  rw [hm] at h2
  cases r2 with
  | error e => exact h2.mono (by omega)
  | ok u =>
    simp only
    have key : ∀ site, Seg 2 s (match Clf.drvListen site s2 with
        | (.ok (some (id, f)), s3) => ((.ok (some (id, f)) : Py (Option (Nat × Found))), { s3 with target := .loc id })
        | r => r).2 := by
      intro site
      have h3 := Seg.drvListen site s2
      rcases hd : Clf.drvListen site s2 with ⟨r3, s3⟩
      rw [hd] at h3
      cases r3 with
      | error e => exact (h2.trans h3).mono (by omega)
      | ok o => cases o with
        | none => exact (h2.trans h3).mono (by omega)
        | some x => exact ((h2.trans h3).trans (Seg.target _ _)).mono (by omega)
    cases t with
    | other => exact h2.mono (by omega)
    | dep =>
      have h3 := Seg.drvListen .listenDep s2
      rcases hd : Clf.drvListen .listenDep s2 with ⟨r3, s3⟩
      rw [hd] at h3
      cases r3 with
      | error e => exact (h2.trans h3).mono (by omega)
      | ok o => cases o with
        | none => exact (h2.trans h3).mono (by omega)
        | some x => simp only; split
                    · exact ((h2.trans h3).trans (Seg.target _ _)).mono (by omega)
                    · exact (h2.trans h3).mono (by omega)
    | a => exact key .listenA
    | b => exact key .listenB
    | f => exact key .listenF

/-- without a bound: driver calls and sleeps keep `Pre` -/
theorem NExt.pre {s s' : St} (h : NExt s s') (ts : List Bool) : PreSpec 0 s ts s' ts := by
  obtain ⟨seg, hl, hn⟩ := h
  intro ⟨h1, h2⟩
  refine Or.inl ⟨?_, h2⟩
  unfold after at h1 ⊢
  rw [hl, List.foldl_append, h1]
  exact foldl_pstep_none seg (by intro e he h; subst h; have := hn _ he; simp [Ev.neutral] at this)

theorem NExt.keeps {s s' : St} (h : NExt s s') {ts : List Bool} (hp : Pre s ts) : Pre s' ts := by
  obtain ⟨seg, hl, hn⟩ := h
  obtain ⟨h1, h2⟩ := hp
  refine ⟨?_, h2⟩
  unfold after at h1 ⊢
  rw [hl, List.foldl_append, h1]
  exact foldl_pstep_none seg (by intro e he h; subst h; have := hn _ he; simp [Ev.neutral] at this)

/-! ## polls of terminate() -/

theorem after_emit (s : St) (e : Ev) : after (s.emit e).log = pstep (after s.log) e := by
  simp [after, St.emit, List.foldl_append]

theorem PSpec.termFalse (s : St) (r : List Bool) : PSpec 1 s (false :: r) (s.emit (.term false)) r := by
  constructor
  · intro ⟨h1, h2⟩
    exact Or.inl ⟨by rw [after_emit, h1]; rfl, h2⟩
  · intro m ⟨_, h⟩; have := h false (by simp); cases this

theorem PSpec.termTrue (s : St) (r : List Bool) : PSpec 1 s (true :: r) (s.emit (.term true)) r := by
  constructor
  · intro ⟨h1, h2⟩
    exact Or.inr ⟨0, by omega, by rw [after_emit, h1]; rfl, h2⟩
  · intro m ⟨h1, h2⟩
    exact ⟨m + 1, by omega, by rw [after_emit, h1]; rfl, fun b hb => h2 b (by simp [hb])⟩

theorem PSpec.termNil (s : St) : PSpec 1 s [] (s.emit (.term true)) [] := by
  constructor
  · intro ⟨h1, _⟩
    exact Or.inr ⟨0, by omega, by rw [after_emit, h1]; rfl, by intro b hb; cases hb⟩
  · intro m ⟨h1, h2⟩
    exact ⟨m + 1, by omega, by rw [after_emit, h1]; rfl, h2⟩

theorem postVacuous (c : Nat) (s s' : St) (r ts' : List Bool) : PostSpec c s (false :: r) s' ts' := by
  intro m ⟨_, h⟩; have := h false (by simp); cases this

theorem presenceLoop_pspec (ts : List Bool) (s : St) :
    PSpec 1 s ts (presenceLoop ts s).2.1 (presenceLoop ts s).2.2 := by
  induction ts generalizing s with
  | nil => exact PSpec.termNil s
  | cons b rest ih =>
    cases b with
    | true => exact PSpec.termTrue s rest
    | false =>
      refine ⟨?_, postVacuous _ _ _ _ _⟩
      intro hp
      have hp0 : Pre (s.emit (.term false)) rest := by
        rcases (PSpec.termFalse s rest).1 hp with h | ⟨n, _, h⟩
        · exact h
        · have := h.1; rw [after_emit, hp.1] at this; cases this
      unfold presenceLoop
      have hx := Seg.exchange (s.emit (.term false))
      rcases hr : exchange (s.emit (.term false)) with ⟨r1, s1⟩
      rw [hr] at hx
      have hp1 : Pre s1 rest := hx.keeps hp0
      cases r1 with
      | error e => simp only; split <;> exact Or.inl hp1
      | ok o =>
        cases o with
        | none => exact Or.inl hp1
        | some x => exact (ih (s1.emit .sleep)).1 ((Seg.emit s1 .sleep (by simp)).keeps hp1)

theorem cardLoop_pspec (ts : List Bool) (s : St) :
    PSpec 1 s ts (cardLoop ts s).2.1 (cardLoop ts s).2.2 := by
  induction ts generalizing s with
  | nil => exact PSpec.termNil s
  | cons b rest ih =>
    cases b with
    | true => exact PSpec.termTrue s rest
    | false =>
      refine ⟨?_, postVacuous _ _ _ _ _⟩
      intro hp
      have hp0 : Pre (s.emit (.term false)) rest := by
        rcases (PSpec.termFalse s rest).1 hp with h | ⟨n, _, h⟩
        · exact h
        · have := h.1; rw [after_emit, hp.1] at this; cases this
      unfold cardLoop
      have hx := Seg.exchange (s.emit (.term false))
      rcases hr : exchange (s.emit (.term false)) with ⟨r1, s1⟩
      rw [hr] at hx
      have hp1 : Pre s1 rest := hx.keeps hp0
      cases r1 with
      | error e =>
        simp only
        split
        · exact Or.inl hp1
        · split
          · exact (ih s1).1 hp1
          · exact Or.inl hp1
      | ok o => exact (ih s1).1 hp1

theorem runPolls_pspec (n : Nat) (ts : List Bool) (s : St) :
    PSpec 1 s ts (runPolls n ts s).1 (runPolls n ts s).2 := by
  induction n generalizing ts s with
  | zero => exact (PSpec.refl s ts).mono (by omega)
  | succ k ih =>
    cases ts with
    | nil => exact PSpec.termNil s
    | cons b rest =>
      cases b with
      | true => exact PSpec.termTrue s rest
      | false =>
        refine ⟨?_, postVacuous _ _ _ _ _⟩
        intro hp
        have hp0 : Pre (s.emit (.term false)) rest := by
          rcases (PSpec.termFalse s rest).1 hp with h | ⟨n, _, h⟩
          · exact h
          · have := h.1; rw [after_emit, hp.1] at this; cases this
        exact (ih rest (s.emit (.term false))).1 hp0

/-! ## the steps -/

theorem rdwrStep_pre (o : RdwrOpts) (ts : List Bool) (s : St) :
    PreSpec 7 s ts (rdwrStep o ts s).2.1 (rdwrStep o ts s).2.2 := by
  unfold rdwrStep
  have hs := (NExt.sense o.targets o.iters s).pre ts
  rcases hr : sense o.targets o.iters s with ⟨r1, s1⟩
  rw [hr] at hs
  cases r1 with
  | error e => exact hs.mono (by omega)
  | ok o1 =>
    cases o1 with
    | none => exact hs.mono (by omega)
    | some x =>
      obtain ⟨id, f⟩ := x
      simp only
      have h2 := hs.trans ((Seg.cb o.discover (defaultDiscover f) .rdwr .discover s1).pspec ts)
      rcases hd : o.discover.run (defaultDiscover f) .rdwr .discover s1 with ⟨dv, s2⟩
      rw [hd] at h2
      simp only
      split
      · exact h2.mono (by omega)
      · -- nfc.tag.activate: driver calls only, terminate() is not asked
        have hT : HasT s2 := by
          obtain ⟨b, hb⟩ := Cb.run_eq o.discover (defaultDiscover f) .rdwr .discover s1
          rw [hd] at hb
          have : s2 = s1.emit (.cb .rdwr .discover dv.code b) := by
            have := congrArg Prod.snd hb; simpa using this
          rw [this]
          exact ⟨id, sense_some_target _ _ _ _ _ hr⟩
        have hact := (tagActivate_act f s2 hT).1
        rcases hta : tagActivate f s2 with ⟨a, s3⟩
        rw [hta] at hact
        have h3 : PreSpec 1 s ts s3 ts := by
          intro hp
          have hn0 := NExt.sense o.targets o.iters s
          rw [hr] at hn0
          have p1 : Pre s1 ts := hn0.keeps hp
          have p2 : Pre s2 ts := by
            have := (Seg.cb o.discover (defaultDiscover f) .rdwr .discover s1).keeps p1
            rw [hd] at this; exact this
          exact Or.inl (hact.keeps p2)
        cases a with
        | error e => exact h3.mono (by omega)
        | ok ot =>
        cases ot with
        | none => exact h3.mono (by omega)
        | some tt =>
          simp only
          have h4 := h3.trans ((Seg.cb o.connect .true_ .rdwr .connect s3).pspec ts)
          rcases hc : o.connect.run .true_ .rdwr .connect s3 with ⟨cv, s4⟩
          rw [hc] at h4
          simp only
          split
          · exact h4.mono (by omega)
          · have hled : Seg 1 s4 (if o.beep then simpleCall .ledOn s4 else (.ok (), s4)).2 := by
              split
              · exact Seg.simpleCall .ledOn s4
              · exact (Seg.refl s4).mono (by omega)
            have h5 := h4.trans (hled.pspec ts)
            rcases hl : (if o.beep then simpleCall .ledOn s4 else (.ok (), s4)) with ⟨r5, s5⟩
            rw [hl] at h5
            cases r5 with
            | error e => exact h5.mono (by omega)
            | ok u =>
              simp only
              have h6 := h5.trans (presenceLoop_pspec ts s5)
              rcases hpl : presenceLoop ts s5 with ⟨r6, s6, ts1⟩
              rw [hpl] at h6
              cases r6 with
              | error e => exact h6.mono (by omega)
              | ok u2 =>
                simp only
                have h7 := h6.trans ((Seg.simpleCall .ledOff s6).pspec ts1)
                rcases hlo : simpleCall .ledOff s6 with ⟨r7, s7⟩
                rw [hlo] at h7
                cases r7 with
                | error e => exact h7.mono (by omega)
                | ok u3 =>
                  simp only
                  have h8 := h7.trans ((Seg.cb o.release .true_ .rdwr .release s7).pspec ts1)
                  rcases hrel : o.release.run .true_ .rdwr .release s7 with ⟨rv, s8⟩
                  rw [hrel] at h8
                  exact h8.mono (by omega)

theorem llcpRole_pspec (o : LlcpOpts) (ini : Bool) (ts : List Bool) (s : St) :
    PSpec 5 s ts (llcpRole o ini ts s).2.1 (llcpRole o ini ts s).2.2 ∧
    ((llcpRole o ini ts s).1 = none → Seg 1 s (llcpRole o ini ts s).2.1 ∧ (llcpRole o ini ts s).2.2 = ts) := by
  unfold llcpRole
  have h1 := Seg.ask s (.llcActivate ini)
  rcases hask : s.ask (.llcActivate ini) with ⟨a, s1⟩
  rw [hask] at h1
  simp only
  cases a with
  | found f =>
    simp only
    have h2 := (h1.pspec ts).trans ((Seg.cb o.connect .true_ .llcp .connect s1).pspec ts)
    rcases hc : o.connect.run .true_ .llcp .connect s1 with ⟨cv, s2⟩
    rw [hc] at h2
    simp only
    split
    · exact ⟨h2.mono (by omega), by simp⟩
    · have h3 := h2.trans ((Seg.ask s2 .llcRun).pspec ts)
      rcases hask2 : s2.ask .llcRun with ⟨a2, s3⟩
      rw [hask2] at h3
      simp only
      have key : ∀ n, PSpec 5 s ts (o.release.run .true_ .llcp .release (runPolls n ts s3).1).2 (runPolls n ts s3).2 := by
        intro n
        exact ((h3.trans (runPolls_pspec n ts s3)).trans
          ((Seg.cb o.release .true_ .llcp .release (runPolls n ts s3).1).pspec _)).mono (by omega)
      cases a2 with
      | ioError => exact ⟨h3.mono (by omega), by simp⟩
      | kbd => exact ⟨h3.mono (by omega), by simp⟩
      | sysExit => exact ⟨h3.mono (by omega), by simp⟩
      | polls n => exact ⟨key n, by simp⟩
      | _ => exact ⟨key 0, by simp⟩
  | ioError => exact ⟨(h1.pspec ts).mono (by omega), by simp⟩
  | kbd => exact ⟨(h1.pspec ts).mono (by omega), by simp⟩
  | _ => exact ⟨(h1.pspec ts).mono (by omega), fun _ => ⟨h1, rfl⟩⟩

theorem llcpStep_pspec (o : LlcpOpts) (ts : List Bool) (s : St) :
    PSpec 6 s ts (llcpStep o ts s).2.1 (llcpStep o ts s).2.2 := by
  unfold llcpStep
  have first : PSpec 5 s ts (if o.role = .both ∨ o.role = .target then llcpRole o false ts s else (none, s, ts)).2.1
        (if o.role = .both ∨ o.role = .target then llcpRole o false ts s else (none, s, ts)).2.2 ∧
      ((if o.role = .both ∨ o.role = .target then llcpRole o false ts s else (none, s, ts)).1 = none →
        Seg 1 s (if o.role = .both ∨ o.role = .target then llcpRole o false ts s else (none, s, ts)).2.1 ∧
        (if o.role = .both ∨ o.role = .target then llcpRole o false ts s else (none, s, ts)).2.2 = ts) := by
    split
    · exact llcpRole_pspec o false ts s
    · exact ⟨(PSpec.refl s ts).mono (by omega), fun _ => ⟨(Seg.refl s).mono (by omega), rfl⟩⟩
  rcases h1 : (if o.role = .both ∨ o.role = .target then llcpRole o false ts s else (none, s, ts)) with ⟨r1, s1, ts1⟩
  rw [h1] at first
  obtain ⟨hp1, hn1⟩ := first
  cases r1 with
  | some r => exact hp1.mono (by omega)
  | none =>
    simp only
    obtain ⟨hseg, hts⟩ := hn1 rfl
    simp only at hseg hts
    subst hts
    have second : PSpec 5 s1 ts1 (if o.role = .both ∨ o.role = .initiator then llcpRole o true ts1 s1 else (none, s1, ts1)).2.1
          (if o.role = .both ∨ o.role = .initiator then llcpRole o true ts1 s1 else (none, s1, ts1)).2.2 := by
      split
      · exact (llcpRole_pspec o true ts1 s1).1
      · exact (PSpec.refl s1 ts1).mono (by omega)
    rcases h2 : (if o.role = .both ∨ o.role = .initiator then llcpRole o true ts1 s1 else (none, s1, ts1)) with ⟨r2, s2, ts2⟩
    rw [h2] at second
    have := ((hseg.pspec ts1).trans second).mono (show 1 + 5 ≤ 6 by omega)
    cases r2 with
    | some r => exact this
    | none => exact this

theorem cardStep_pspec (o : CardOpts) (ts : List Bool) (s : St) :
    PSpec 7 s ts (cardStep o ts s).2.1 (cardStep o ts s).2.2 := by
  unfold cardStep
  have hs := (Seg.listen o.target s).pspec ts
  rcases hr : listen o.target s with ⟨r1, s1⟩
  rw [hr] at hs
  cases r1 with
  | error e => simp only; split <;> exact hs.mono (by omega)
  | ok o1 =>
    cases o1 with
    | none => exact hs.mono (by omega)
    | some x =>
      simp only
      have h2 := hs.trans ((Seg.cb o.discover .true_ .card .discover s1).pspec ts)
      rcases hd : o.discover.run .true_ .card .discover s1 with ⟨dv, s2⟩
      rw [hd] at h2
      simp only
      split
      · exact h2.mono (by omega)
      · obtain ⟨id, f⟩ := x
        have h3 := h2.trans ((Seg.emit s2 (.call .emulate (.found f)) (by simp)).pspec ts)
        generalize hs3 : s2.emit (.call .emulate (.found f)) = s3 at *
        simp only
        split
        · exact h3.mono (by omega)
        · have h4 := h3.trans ((Seg.cb o.connect .true_ .card .connect s3).pspec ts)
          rcases hc : o.connect.run .true_ .card .connect s3 with ⟨cv, s4⟩
          rw [hc] at h4
          simp only
          split
          · exact h4.mono (by omega)
          · have h6 := h4.trans (cardLoop_pspec ts s4)
            rcases hpl : cardLoop ts s4 with ⟨r6, s6, ts1⟩
            rw [hpl] at h6
            cases r6 with
            | error e => exact h6.mono (by omega)
            | ok u2 =>
              simp only
              have h8 := h6.trans ((Seg.cb o.release .true_ .card .release s6).pspec ts1)
              rcases hrel : o.release.run .true_ .card .release s6 with ⟨rv, s8⟩
              rw [hrel] at h8
              exact h8.mono (by omega)

/-! ## the main loop -/

theorem tryStep_snd (f : Option (List Bool → St → StepOut)) (ts : List Bool) (s : St) :
    (tryStep f ts s).2 = (match f with | none => (s, ts) | some g => (g ts s).2) ∧
    (∀ r s1, (tryStep f ts s).1 = some (r, s1) → s1 = (tryStep f ts s).2.1) := by
  cases f with
  | none => simp [tryStep]
  | some g =>
    simp only [tryStep]
    rcases hg : g ts s with ⟨r, s1, ts1⟩
    cases r with
    | error e => simp
    | ok v => simp only; split <;> simp

theorem tryStep_pre {c : Nat} (f : Option (List Bool → St → StepOut))
    (hf : ∀ g, f = some g → ∀ ts s, PreSpec c s ts (g ts s).2.1 (g ts s).2.2) (ts : List Bool) (s : St) :
    PreSpec c s ts (tryStep f ts s).2.1 (tryStep f ts s).2.2 := by
  rw [(tryStep_snd f ts s).1]
  cases f with
  | none => exact (PSpec.refl s ts).1.mono (by omega)
  | some g => exact hf g rfl ts s

theorem tryStep_pspec {c : Nat} (f : Option (List Bool → St → StepOut))
    (hf : ∀ g, f = some g → ∀ ts s, PSpec c s ts (g ts s).2.1 (g ts s).2.2) (ts : List Bool) (s : St) :
    PSpec c s ts (tryStep f ts s).2.1 (tryStep f ts s).2.2 := by
  rw [(tryStep_snd f ts s).1]
  cases f with
  | none => exact (PSpec.refl s ts).mono (by omega)
  | some g => exact hf g rfl ts s

/-- how far the end is from the first true answer -/
def Final (c : Nat) (s' : St) : Prop := after s'.log = none ∨ ∃ n, n ≤ c ∧ after s'.log = some n

theorem Final.of_pre {c : Nat} {s s' : St} {ts ts' : List Bool} (h : PreSpec c s ts s' ts') (hp : Pre s ts) {c' : Nat}
    (hc : c ≤ c') : Final c' s' := by
  rcases h hp with h | ⟨n, hn, h⟩
  · exact Or.inl h.1
  · exact Or.inr ⟨n, by omega, h.1⟩

theorem mainLoop_prompt (l : Live) (k : Nat) (ts : List Bool) (s : St) (r : Py RetVal) (s' : St)
    (h : mainLoop l k ts s = some (r, s')) :
    (Pre s ts → Final 21 s') ∧ (∀ m, Post m s ts → after s'.log = some (m + 1)) := by
  induction k generalizing ts s with
  | zero => simp [mainLoop] at h
  | succ k ih =>
    unfold mainLoop at h
    cases ts with
    | nil =>
      simp [askTerm] at h; obtain ⟨_, h⟩ := h; subst h
      exact ⟨fun hp => Or.inr ⟨0, by omega, by rw [after_emit, hp.1]; rfl⟩,
             fun m hp => by rw [after_emit, hp.1]; rfl⟩
    | cons b rest =>
      cases b with
      | true =>
        simp [askTerm] at h; obtain ⟨_, h⟩ := h; subst h
        exact ⟨fun hp => Or.inr ⟨0, by omega, by rw [after_emit, hp.1]; rfl⟩,
               fun m hp => by rw [after_emit, hp.1]; rfl⟩
      | false =>
        refine ⟨?_, fun m hp => by have := hp.2 false (by simp); cases this⟩
        intro hp
        simp only [askTerm] at h
        have hp0 : Pre (s.emit (.term false)) rest := by
          rcases (PSpec.termFalse s rest).1 hp with h' | ⟨n, _, h'⟩
          · exact h'
          · have := h'.1; rw [after_emit, hp.1] at this; cases this
        have A1 := tryStep_pre (c := 7) (l.rdwr.map rdwrStep)
          (by intro g hg; cases hr : l.rdwr with
              | none => simp [hr] at hg
              | some o => simp [hr] at hg; subst hg; exact rdwrStep_pre o)
          rest (s.emit (.term false))
        have S1 := (tryStep_snd (l.rdwr.map rdwrStep) rest (s.emit (.term false))).2
        rcases h1 : tryStep (l.rdwr.map rdwrStep) rest (s.emit (.term false)) with ⟨r1, s1, ts1⟩
        rw [h1] at h A1 S1
        cases r1 with
        | some x =>
          obtain ⟨rx, sx⟩ := x
          simp only at h; cases h
          have := S1 r s' rfl
          simp only at this; subst this
          exact Final.of_pre A1 hp0 (by omega)
        | none =>
          simp only at h
          have A2 := PreSpec.trans A1 (tryStep_pspec (c := 6) (l.llcp.map llcpStep)
            (by intro g hg; cases hr : l.llcp with
                | none => simp [hr] at hg
                | some o => simp [hr] at hg; subst hg; exact llcpStep_pspec o)
            ts1 s1)
          have S2 := (tryStep_snd (l.llcp.map llcpStep) ts1 s1).2
          rcases h2 : tryStep (l.llcp.map llcpStep) ts1 s1 with ⟨r2, s2, ts2⟩
          rw [h2] at h A2 S2
          cases r2 with
          | some x =>
            obtain ⟨rx, sx⟩ := x
            simp only at h; cases h
            have := S2 r s' rfl
            simp only at this; subst this
            exact Final.of_pre A2 hp0 (by omega)
          | none =>
            simp only at h
            have A3 := PreSpec.trans A2 (tryStep_pspec (c := 7) (l.card.map cardStep)
              (by intro g hg; cases hr : l.card with
                  | none => simp [hr] at hg
                  | some o => simp [hr] at hg; subst hg; exact cardStep_pspec o)
              ts2 s2)
            have S3 := (tryStep_snd (l.card.map cardStep) ts2 s2).2
            rcases h3 : tryStep (l.card.map cardStep) ts2 s2 with ⟨r3, s3, ts3⟩
            rw [h3] at h A3 S3
            cases r3 with
            | some x =>
              obtain ⟨rx, sx⟩ := x
              simp only at h; cases h
              have := S3 r s' rfl
              simp only at this; subst this
              exact Final.of_pre A3 hp0 (by omega)
            | none =>
              simp only at h
              obtain ⟨ihA, ihB⟩ := ih ts3 s3 h
              rcases A3 hp0 with hp3 | ⟨n, hn, hp3⟩
              · exact ihA hp3
              · exact Or.inr ⟨n + 1, by omega, ihB n hp3⟩

theorem Seg.startupEvent (r : Role) (su : Option (StartRes × Nat)) (s : St) : Seg 1 s (startupEvent r su s) := by
  cases su with
  | none => exact Seg.emit s _ (by simp)
  | some x => obtain ⟨a, b⟩ := x; exact Seg.emit s _ (by simp)

theorem Seg.startupRest (o : Opts) (ll : Option LlcpOpts) (s1 : St) : Seg 2 s1 (startupRest o ll s1).2 := by
  unfold Clf.startupRest
  cases o.rdwr with
  | none =>
    simp only
    cases o.card with
    | none => exact (Seg.refl s1).mono (by omega)
    | some c => exact (Seg.startupEvent .card c.startup s1).mono (by omega)
  | some r =>
    simp only
    split
    · exact (Seg.startupEvent .rdwr r.startup s1).mono (by omega)
    · cases o.card with
      | none => exact (Seg.startupEvent .rdwr r.startup s1).mono (by omega)
      | some c => exact (Seg.startupEvent .rdwr r.startup s1).trans (Seg.startupEvent .card c.startup _)

theorem Seg.startupPhase (o : Opts) (s : St) : Seg 3 s (startupPhase o s).2 := by
  unfold Clf.startupPhase
  cases o.llcp with
  | none => exact (Seg.startupRest o _ s).mono (by omega)
  | some l => exact ((Seg.startupEvent .llcp l.startup s).trans (Seg.startupRest o _ _)).mono (by omega)

/-- connect() ends at most 21 events after the first true answer of terminate() -/
theorem connect_prompt (o : Opts) (env : List Ans) (ts : List Bool) (hm : Mono ts) :
    Final 21 (connect o env ts).2 := by
  have h0 : Pre (St.init env) ts := ⟨rfl, hm⟩
  have hs0 := (Seg.startupPhase o (St.init env)).keeps h0
  unfold connect
  rcases hs : startupPhase o (St.init env) with ⟨r0, s0⟩
  rw [hs] at hs0
  cases r0 with
  | error e => exact Or.inl hs0.1
  | ok l =>
    simp only
    split
    · exact Or.inl hs0.1
    · cases hml : mainLoop l (ts.length + 1) ts s0 with
      | none => exact Or.inl hs0.1
      | some x =>
        obtain ⟨r, s'⟩ := x
        have := (mainLoop_prompt l _ ts s0 r s' hml).1 hs0
        cases r with
        | ok v => exact this
        | error e => simp only; split <;> exact this
end NfcVerif.Clf
