import NfcVerif.Lemmas.SnepChannel
import NfcVerif.Model.Handover
/-! Proofs about the handover client/server model (C06). -/
namespace NfcVerif.Handover
open NfcVerif NfcVerif.Chan

/-- `complete` accepts `m` and no proper non-empty prefix of `m` (what a strict NDEF
decode does for a well-formed message: the ME flag ends it) -/
def PrefixFree (complete : Bytes → Bool) (m : Bytes) : Prop :=
  m ≠ [] ∧ complete m = true ∧ ∀ k, 0 < k → k < m.length → complete (m.take k) = false

/-- the server collects the queued request fragments and answers once, at the last one -/
theorem srv_collect (cfg : HCfg) (msg : Bytes) (hpf : PrefixFree cfg.complete msg) :
    ∀ (fs : List Bytes) (buf : Bytes) (c : HC) (q lc ls : List Bytes) (dl : List Bytes),
      fs ≠ [] → (∀ f ∈ fs, f ≠ []) → buf ++ fs.flatten = msg →
      pump (proto cfg) fs.length
        { cst := c, sst := .collecting buf, c2s := fs, s2c := q, logC := lc, logS := ls, dl := dl } =
      { cst := c, sst := .collecting (if cfg.reset then [] else msg), c2s := [],
        s2c := q ++ chunks cfg.smiu (cfg.handler msg), logC := lc,
        logS := ls ++ chunks cfg.smiu (cfg.handler msg), dl := dl ++ [msg] } := by
  intro fs
  induction fs with
  | nil => intro _ _ _ _ _ _ h; exact absurd rfl h
  | cons f rest ih =>
    intro buf c q lc ls dl _ hne htot
    have hf : f ≠ [] := hne f (by simp)
    cases rest with
    | nil =>
      simp only [List.flatten_cons, List.flatten_nil, List.append_nil] at htot
      simp only [List.length_cons, List.length_nil, pump, step, proto, swait, srvOnRecv, htot]
      simp [hpf.1, hpf.2.1]
    | cons g rest =>
      have hg : g ≠ [] := hne g (by simp)
      have hgl : 0 < g.length := List.length_pos_iff.mpr hg
      have hfl : 0 < f.length := List.length_pos_iff.mpr hf
      have hlen : msg.length = buf.length + f.length + (g.length + rest.flatten.length) := by
        rw [← htot]; simp [List.length_append]; omega
      have htake : msg.take (buf ++ f).length = buf ++ f := by
        rw [← htot]; simp only [List.flatten_cons, ← List.append_assoc]
        rw [List.append_assoc (buf ++ f)]
        exact List.take_left' rfl
      have hnc : cfg.complete (buf ++ f) = false := by
        rw [← htake]; apply hpf.2.2 <;> simp [List.length_append] <;> omega
      have hnn : buf ++ f ≠ [] := by simp [hf]
      have := ih (buf ++ f) c (q ++ []) lc (ls ++ []) (dl ++ []) (by simp)
        (fun x hx => hne x (List.mem_cons_of_mem _ hx))
        (by rw [← htot]; simp [List.append_assoc])
      rw [List.length_cons]
      simp only [pump]
      conv => lhs; arg 3; simp only [step, proto, swait, srvOnRecv, hnn, hnc, if_false, if_true]
      rw [this]
      simp

/-- the client collects the response fragments until the decoder accepts -/
theorem cli_collect (cfg : HCfg) (rsp : Bytes) (hpf : PrefixFree cfg.complete rsp) :
    ∀ (fs : List Bytes) (buf : Bytes) (st : HS) (lc ls : List Bytes) (dl : List Bytes),
      fs ≠ [] → (∀ f ∈ fs, f ≠ []) → buf ++ fs.flatten = rsp →
      pump (proto cfg) fs.length
        { cst := .collecting buf, sst := st, c2s := [], s2c := fs, logC := lc, logS := ls, dl := dl } =
      { cst := .done (some rsp), sst := st, c2s := [], s2c := [], logC := lc, logS := ls, dl := dl } := by
  intro fs
  induction fs with
  | nil => intro _ _ _ _ _ h; exact absurd rfl h
  | cons f rest ih =>
    intro buf st lc ls dl _ hne htot
    have hf : f ≠ [] := hne f (by simp)
    cases rest with
    | nil =>
      simp only [List.flatten_cons, List.flatten_nil, List.append_nil] at htot
      simp only [List.length_cons, List.length_nil, pump, step, proto, cwait, cliOnRecv, htot]
      simp [hpf.2.1]
    | cons g rest =>
      have hg : g ≠ [] := hne g (by simp)
      have hgl : 0 < g.length := List.length_pos_iff.mpr hg
      have hfl : 0 < f.length := List.length_pos_iff.mpr hf
      have hlen : rsp.length = buf.length + f.length + (g.length + rest.flatten.length) := by
        rw [← htot]; simp [List.length_append]; omega
      have htake : rsp.take (buf ++ f).length = buf ++ f := by
        rw [← htot]; simp only [List.flatten_cons, ← List.append_assoc]
        rw [List.append_assoc (buf ++ f)]
        exact List.take_left' rfl
      have hnc : cfg.complete (buf ++ f) = false := by
        rw [← htake]; apply hpf.2.2 <;> simp [List.length_append] <;> omega
      have := ih (buf ++ f) st (lc ++ []) ls dl (by simp)
        (fun x hx => hne x (List.mem_cons_of_mem _ hx))
        (by rw [← htot]; simp [List.append_assoc])
      rw [List.length_cons]
      simp only [pump]
      conv => lhs; arg 3; simp only [step, proto, cwait, cliOnRecv, hnc, List.nil_append]
      simp only [List.append_nil] at this
      simpa using this


theorem req_run (cfg : HCfg) (cmiu : Nat) (msg : Bytes) (c0 : HC) (lc ls dl0 : List Bytes)
    (hc : 0 < cmiu) (hs : 0 < cfg.smiu) (hreset : cfg.reset = true)
    (hm : PrefixFree cfg.complete msg) (hr : PrefixFree cfg.complete (cfg.handler msg)) :
    ∃ N, ∀ fuel, N ≤ fuel →
      runReq cfg cmiu fuel { cst := c0, sst := .collecting [], c2s := [], s2c := [], logC := lc, logS := ls, dl := dl0 } msg =
      { cst := .done (some (cfg.handler msg)), sst := .collecting [], c2s := [], s2c := [],
        logC := lc ++ chunks cmiu msg, logS := ls ++ chunks cfg.smiu (cfg.handler msg), dl := dl0 ++ [msg] } := by
  have h1 := srv_collect cfg msg hm (chunks cmiu msg) [] (.collecting []) [] (lc ++ chunks cmiu msg) ls dl0
    (chunks_ne_nil _ _ hm.1) (fun f hf => (chunks_bound cmiu hc msg f hf).2) (by simp [chunks_flatten cmiu hc])
  have h2 := cli_collect cfg (cfg.handler msg) hr (chunks cfg.smiu (cfg.handler msg)) []
    (.collecting []) (lc ++ chunks cmiu msg) (ls ++ chunks cfg.smiu (cfg.handler msg)) (dl0 ++ [msg])
    (chunks_ne_nil _ _ hr.1) (fun f hf => (chunks_bound cfg.smiu hs _ f hf).2) (by simp [chunks_flatten cfg.smiu hs])
  refine ⟨(chunks cmiu msg).length + (chunks cfg.smiu (cfg.handler msg)).length, pump_stable _ _ _ _ ?_ (by simp [quiet])⟩
  simp only [runReq, startReq, List.nil_append]
  rw [pump_add, h1]
  simp only [hreset, if_true, List.nil_append]
  exact h2

theorem reqs_run (cfg : HCfg) (cmiu : Nat) (hc : 0 < cmiu) (hs : 0 < cfg.smiu) (hreset : cfg.reset = true) :
    ∀ (msgs : List Bytes) (n : HNet), n.sst = .collecting [] → n.c2s = [] → n.s2c = [] →
      (∀ m ∈ msgs, PrefixFree cfg.complete m ∧ PrefixFree cfg.complete (cfg.handler m)) →
      ∃ N, ∀ fuel, N ≤ fuel →
        (runReqs cfg cmiu fuel n msgs).1 = msgs.map (fun m => some (cfg.handler m)) ∧
        (runReqs cfg cmiu fuel n msgs).2.dl = n.dl ++ msgs ∧
        (runReqs cfg cmiu fuel n msgs).2.sst = .collecting [] ∧
        (runReqs cfg cmiu fuel n msgs).2.c2s = [] ∧ (runReqs cfg cmiu fuel n msgs).2.s2c = [] := by
  intro msgs
  induction msgs with
  | nil => intro n h1 h2 h3 _; exact ⟨0, fun _ _ => by simp [runReqs, h1, h2, h3]⟩
  | cons m rest ih =>
    intro n h1 h2 h3 hall
    obtain ⟨c0, st, q1, q2, lc, ls, dl0⟩ := n
    simp only at h1 h2 h3
    subst h1 h2 h3
    obtain ⟨hm, hr⟩ := hall m (by simp)
    obtain ⟨N1, hN1⟩ := req_run cfg cmiu m c0 lc ls dl0 hc hs hreset hm hr
    obtain ⟨N2, hN2⟩ := ih
      { cst := .idle, sst := .collecting [], c2s := [], s2c := [],
        logC := lc ++ chunks cmiu m, logS := ls ++ chunks cfg.smiu (cfg.handler m), dl := dl0 ++ [m] }
      rfl rfl rfl (fun x hx => hall x (List.mem_cons_of_mem _ hx))
    refine ⟨max N1 N2, fun fuel hf => ?_⟩
    have h1 := hN1 fuel (by omega)
    have h2 := hN2 fuel (by omega)
    simp only [List.map_cons, runReqs, h1, result]
    simp only [List.append_assoc, List.singleton_append] at h2 ⊢
    exact ⟨by rw [h2.1], h2.2⟩

end NfcVerif.Handover
