import NfcVerif.Lemmas.Sap
/-!
# C17: abstract specification of the address tables and the simulation theorem

`SpecSide` is the abstract state of one controller: number of sockets, their
kinds, the per-socket binding, the partial map address ⇀ sockets and the map
name ⇀ address.  `Spec.step` is the transition function of the specification,
`absP` the abstraction function.  Everything else of the concrete state (socket
state machines, queues, SAP send lists, service discovery transactions, the
PDUs in flight) is abstracted away.
-/
namespace NfcVerif.Sap
open NfcVerif

structure SpecSide where
  n : Nat
  kind : Nat → Kind
  bound : Nat → Option Nat
  owner : Nat → Option (List Nat)
  names : List (Bytes × Nat)

structure SpecState where
  a : SpecSide
  b : SpecSide

def absS (c : Llc) : SpecSide :=
  { n := c.n, kind := fun id => (c.sock id).kind, bound := fun id => (c.sock id).addr,
    owner := fun a => (c.sap a).map (·.socks), names := c.snl }

def absP (p : Pair) : SpecState := ⟨absS p.a, absS p.b⟩

def SpecState.get (σ : SpecState) (x : Side) : SpecSide := if x then σ.b else σ.a
def SpecState.set (σ : SpecState) (x : Side) (s : SpecSide) : SpecState :=
  if x then { σ with b := s } else { σ with a := s }

namespace SpecSide

def freeIn (s : SpecSide) (lo cnt : Nat) : Option Nat :=
  (List.range' lo cnt).find? (fun a => (s.owner a).isNone)

def bindAt (s : SpecSide) (id a : Nat) : SpecSide :=
  { s with bound := upd s.bound id (some a), owner := upd s.owner a (some [id]) }

/-- the allocation rule as a function (lowest free address of the class); `Except errno` -/
def bind (s : SpecSide) (id : Nat) (arg : BindArg) : Except Nat SpecSide :=
  if (s.bound id).isSome then .error EINVAL else
  match arg with
  | .none =>
    match s.freeIn 32 32 with
    | none => .error EAGAIN
    | some a => .ok (s.bindAt id a)
  | .addr a =>
    if a < 0 ∨ a > 63 then .error EFAULT else
    if 32 ≤ a ∨ s.kind id = .raw then
      if (s.owner a.toNat).isNone then .ok (s.bindAt id a.toNat) else .error EADDRINUSE
    else .error EACCES
  | .name nm =>
    if validName nm = false then .error EFAULT else
    if (s.names.lookup nm).isSome then .error EADDRINUSE else
    match wks nm with
    | some a =>
      if (s.owner a).isSome then .error EADDRINUSE
      else .ok { s.bindAt id a with names := s.names ++ [(nm, a)] }
    | none =>
      match s.freeIn 16 16 with
      | none => .error EADDRNOTAVAIL
      | some a => .ok { s.bindAt id a with names := s.names ++ [(nm, a)] }

/-- the implicit anonymous bind of listen/connect/sendto on an unbound socket;
when it is refused the table is unchanged -/
def implicitBind (s : SpecSide) (id : Nat) : SpecSide :=
  if (s.bound id).isSome then s else
  match s.bind id .none with
  | .ok s' => s'
  | .error _ => s

def newSocket (s : SpecSide) (k : Kind) : SpecSide :=
  { s with n := s.n + 1, kind := upd s.kind s.n k, bound := upd s.bound s.n none }

/-- a new data link connection socket joins the address of the listening socket -/
def accept (s : SpecSide) (id : Nat) : SpecSide :=
  match s.bound id with
  | none => s
  | some a =>
    let s1 := { s with n := s.n + 1, kind := upd s.kind s.n .dlc, bound := upd s.bound s.n (some a) }
    match s.owner a with
    | none => s1
    | some l => { s1 with owner := upd s.owner a (some (s.n :: l)) }

/-- the socket leaves its address; the last one frees the address and its names -/
def close (s : SpecSide) (id : Nat) : SpecSide :=
  match s.bound id with
  | none => s
  | some a =>
    match s.owner a with
    | none => s
    | some l =>
      if l.erase id = [] then
        { s with owner := upd s.owner a none, names := s.names.filter (fun q => q.2 != a) }
      else { s with owner := upd s.owner a (some (l.erase id)) }

end SpecSide

namespace Spec

/-- effect of an operation on the table of the acting controller.  Only `accept`
needs to look at the outcome: whether a connection request was pending is not part
of the abstract state. -/
def sideStep (s : SpecSide) (op : Op) (out : Py Out) : SpecSide :=
  match op with
  | .socket _ k => s.newSocket k
  | .bind _ id arg => match s.bind id arg with
    | .ok s' => s'
    | .error _ => s
  | .listen _ id _ => if s.kind id = .dlc then s.implicitBind id else s
  | .connect _ id _ => s.implicitBind id
  | .accept _ id => match out with
    | .ok (.sock ..) => s.accept id
    | .error .attr => s.accept id
    | _ => s
  | .sendto _ id _ _ => if s.kind id = .ldl then s.implicitBind id else s
  | .sendpdu _ id _ _ _ => s.implicitBind id
  | .recvfrom .. => s
  | .resolve .. => s
  | .close _ id => s.close id
  | .xfer _ => s
  | .resolveMany .. => s
  | .sendsnl _ id _ _ => s.implicitBind id

/-- transition function of the specification -/
def step (σ : SpecState) (op : Op) (out : Py Out) : SpecState :=
  σ.set op.side (sideStep (σ.get op.side) op out)

def errno : Except Nat SpecSide → Py Out → Prop
  | .error n, out => out = .error (.llcp n)
  | .ok _, _ => True

/-- what the specification says about the outcome of an operation -/
def valid (s : SpecSide) (op : Op) (out : Py Out) : Prop :=
  match op with
  | .socket _ _ => out = .ok (.num s.n)
  | .bind _ id arg => match s.bind id arg with
    | .ok s' => out = .ok (.addr (s'.bound id))
    | .error n => out = .error (.llcp n)
  | .close .. => out = .ok .unit
  | .listen _ id _ =>
    if s.kind id ≠ .dlc then out = .error (.llcp EOPNOTSUPP)
    else (s.bound id = none → errno (s.bind id .none) out)
  | .connect _ id _ => s.bound id = none → errno (s.bind id .none) out
  | .sendto _ id _ _ =>
    if s.kind id = .raw then out = .error .type_
    else if s.kind id = .ldl then (s.bound id = none → errno (s.bind id .none) out) else True
  | .sendpdu _ id _ _ _ => s.bound id = none → errno (s.bind id .none) out
  | .accept _ id => ∀ nid a pr, out = .ok (.sock nid a pr) → nid = s.n ∧ a = s.bound id ∧ a.isSome
  | .sendsnl _ id _ _ => s.bound id = none → errno (s.bind id .none) out
  | .recvfrom .. | .resolve .. | .xfer _ | .resolveMany .. => True

end Spec

/-! ## the link and the non-table parts of operations leave the abstraction alone -/

theorem absS_eq {c c' : Llc} (hn : c'.n = c.n) (hk : ∀ id, (c'.sock id).kind = (c.sock id).kind)
    (h : SameTable c c') : absS c' = absS c := by
  simp only [absS, hn, h.2.2.2]
  congr 1
  · funext id; exact hk id
  · funext id; exact h.1 id
  · funext a; exact h.2.2.1 a

/-- same number of sockets, same kinds -/
def SameKN (c c' : Llc) : Prop := c'.n = c.n ∧ ∀ id, (c'.sock id).kind = (c.sock id).kind

theorem SameKN.refl (c : Llc) : SameKN c c := ⟨rfl, fun _ => rfl⟩
theorem SameKN.trans {c1 c2 c3 : Llc} (h1 : SameKN c1 c2) (h2 : SameKN c2 c3) : SameKN c1 c3 :=
  ⟨h2.1.trans h1.1, fun id => (h2.2 id).trans (h1.2 id)⟩

theorem kn_setSock (c : Llc) (id : Nat) (s : Sock) (h : s.kind = (c.sock id).kind) : SameKN c (setSock c id s) := by
  refine ⟨rfl, fun j => ?_⟩
  simp only [setSock, upd]
  split
  · subst_vars; exact h
  · rfl

theorem sockEnqueue_kind {s s' : Sock} {p : Pdu} (h : sockEnqueue s p = some s') : s'.kind = s.kind := by
  unfold sockEnqueue at h
  repeat' split at h
  all_goals first | (cases h; done) | (cases h; simp [appendRecv, baseClose]; try (split <;> rfl)) | skip

theorem sapEnqueue_kn {c c' : Llc} {a : Nat} {e : SapEntry} {p : Pdu}
    (h : sapEnqueue c a e p = .ok c') : SameKN c c' := by
  unfold sapEnqueue at h
  repeat' split at h
  all_goals first | (cases h; done) | skip
  · rename_i s' hq
    cases h
    exact kn_setSock _ _ _ (sockEnqueue_kind hq)
  · cases h; exact ⟨rfl, fun _ => rfl⟩
  · cases h; exact ⟨rfl, fun _ => rfl⟩
  · cases h; exact SameKN.refl _

theorem dispatch_kn {c c' : Llc} {p : Pdu} (h : dispatch c p = .ok c') : SameKN c c' := by
  unfold dispatch at h
  repeat' split at h
  all_goals first | (cases h; exact ⟨rfl, fun _ => rfl⟩) | exact sapEnqueue_kn h

theorem sockDequeue_kind {s s' : Sock} {p : Pdu} (h : sockDequeue s = some (p, s')) : s'.kind = s.kind := by
  unfold sockDequeue at h
  repeat' split at h
  all_goals first | (cases h; done) | (cases h; simp [baseClose]) | skip

theorem socksDequeue_kn {c c' : Llc} {p : Pdu} : ∀ {l : List Nat}, socksDequeue c l = some (p, c') → SameKN c c'
  | [], h => by simp [socksDequeue] at h
  | id :: t, h => by
    unfold socksDequeue at h
    split at h
    · rename_i q s' hq
      cases h
      exact kn_setSock _ _ _ (sockDequeue_kind hq)
    · exact socksDequeue_kn h

theorem sapDequeue_kn {c c' : Llc} {a : Nat} {e : SapEntry} {p : Pdu}
    (h : sapDequeue c a e = some (p, c')) : SameKN c c' := by
  unfold sapDequeue at h
  split at h
  · cases h; rename_i hq; exact socksDequeue_kn hq
  · split at h
    · cases h
    · cases h; exact ⟨rfl, fun _ => rfl⟩

theorem collectFrom_kn {c c' : Llc} {p : Pdu} : ∀ {l : List Nat}, collectFrom c l = some (p, c') → SameKN c c'
  | [], h => by simp [collectFrom] at h
  | a :: t, h => by
    unfold collectFrom at h
    repeat' split at h
    all_goals first | (cases h; exact ⟨rfl, fun _ => rfl⟩) | exact collectFrom_kn h | skip
    · cases h; rename_i hq; exact sapDequeue_kn hq

/-- both controllers keep their abstract state -/
def PFrame (p p' : Pair) : Prop := absS p'.a = absS p.a ∧ absS p'.b = absS p.b

theorem PFrame.refl (p : Pair) : PFrame p p := ⟨rfl, rfl⟩
theorem PFrame.trans {p1 p2 p3 : Pair} (h1 : PFrame p1 p2) (h2 : PFrame p2 p3) : PFrame p1 p3 :=
  ⟨h2.1.trans h1.1, h2.2.trans h1.2⟩
theorem PFrame.get {p p' : Pair} (h : PFrame p p') (x : Side) : absS (p'.get x) = absS (p.get x) := by
  cases x <;> simp [Pair.get] <;> first | exact h.1 | exact h.2

theorem pframe_set (p : Pair) (x : Side) (c : Llc) (h : absS c = absS (p.get x)) : PFrame p (p.set x c) := by
  cases x <;> simp only [Pair.get, Pair.set] at * <;> exact ⟨by first | exact h | rfl, by first | exact h | rfl⟩

theorem absS_setSock (c : Llc) (id : Nat) (s : Sock) (ha : s.addr = (c.sock id).addr)
    (hk : s.kind = (c.sock id).kind) : absS (setSock c id s) = absS c :=
  absS_eq rfl (kn_setSock c id s hk).2 (same_setSock c id s ha)

theorem pframe_setSock (p : Pair) (x : Side) (id : Nat) (s : Sock) (ha : s.addr = ((p.get x).sock id).addr)
    (hk : s.kind = ((p.get x).sock id).kind) : PFrame p (p.set x (setSock (p.get x) id s)) :=
  pframe_set p x _ (absS_setSock _ _ _ ha hk)

theorem xfer_frame {p p' : Pair} {x : Side} {m : Bool} (h : xfer p x = .ok (p', m)) : PFrame p p' := by
  unfold xfer at h
  split at h
  · cases h; exact .refl _
  · rename_i pdu cx hc
    simp only [Py.bind_eq_ok] at h
    obtain ⟨cy, hd, h⟩ := h
    cases h
    have k1 := collectFrom_kn hc
    have k2 := dispatch_kn hd
    have h1 := pframe_set p x cx (absS_eq k1.1 k1.2 (collect_same hc))
    have h2 := pframe_set (p.set x cx) (!x) cy (absS_eq k2.1 k2.2 (dispatch_same hd))
    exact ⟨(h1.trans h2).1, (h1.trans h2).2⟩

theorem pump_frame : ∀ (k : Nat) {p p' : Pair}, pump k p = .ok p' → PFrame p p'
  | 0, p, p', h => by cases h; exact .refl _
  | k + 1, p, p', h => by
    unfold pump at h
    simp only [Py.bind_eq_ok] at h
    obtain ⟨r1, h1, r2, h2, h⟩ := h
    have s1 := xfer_frame (p' := r1.1) (m := r1.2) h1
    have s2 := xfer_frame (p' := r2.1) (m := r2.2) h2
    split at h
    · cases h; exact s1.trans s2
    · exact (s1.trans s2).trans (pump_frame k h)

theorem popOrPump_frame {p : Pair} {x : Side} {id : Nat} {r : Pair × Option Pdu}
    (h : popOrPump p x id = .ok r) : PFrame p r.1 := by
  unfold popOrPump at h
  split at h
  · cases h; exact pframe_setSock _ _ _ _ rfl rfl
  · simp only [Py.bind_eq_ok] at h
    obtain ⟨p1, hp, h⟩ := h
    have s1 := pump_frame _ hp
    split at h
    · cases h; exact s1.trans (pframe_setSock _ _ _ _ rfl rfl)
    · cases h; exact s1

theorem sockClose_frame {p p' : Pair} {x : Side} {id : Nat} (h : sockClose p x id = .ok p') : PFrame p p' := by
  unfold sockClose at h
  simp only at h
  repeat' split at h
  all_goals first | (cases h; done) | (cases h; exact pframe_setSock _ _ _ _ rfl rfl) | skip
  simp only [Py.bind_eq_ok] at h
  obtain ⟨r1, hpop, h⟩ := h
  cases h
  have s0 := popOrPump_frame hpop
  exact ((pframe_set _ _ _ (absS_setSock _ _ _ (by rfl) (by rfl))).trans s0).trans (pframe_setSock _ _ _ _ rfl rfl)

theorem absS_bindAt (c : Llc) (id a : Nat) : absS (bindAt c id a) = (absS c).bindAt id a := by
  simp only [absS, bindAt, SpecSide.bindAt]
  congr 1
  · funext j; simp only [upd]; split <;> simp_all
  · funext j; simp only [upd]; split <;> simp_all
  · funext b; simp only [upd]; split <;> simp

theorem absS_freeIn (c : Llc) (lo cnt : Nat) : (absS c).freeIn lo cnt = freeIn c lo cnt := by
  simp [SpecSide.freeIn, freeIn, absS]

def errnoOf : Exc → Nat
  | .llcp n => n
  | _ => 0

/-- the concrete `bind` computes the abstract allocation function -/
theorem absS_bind (c : Llc) (id : Nat) (arg : BindArg) :
    (absS c).bind id arg = match bind c id arg with
      | .ok c' => .ok (absS c')
      | .error e => .error (errnoOf e) := by
  unfold SpecSide.bind bind
  simp only [absS_freeIn]
  have hb : (absS c).bound id = (c.sock id).addr := rfl
  have hk : (absS c).kind id = (c.sock id).kind := rfl
  have hn : (absS c).names = c.snl := rfl
  have ho : ∀ a, ((absS c).owner a).isNone = (c.sap a).isNone := by intro a; simp [absS]
  have ho' : ∀ a, ((absS c).owner a).isSome = (c.sap a).isSome := by intro a; simp [absS]
  simp only [hb, hk, hn, ho, ho']
  cases hu : (c.sock id).addr with
  | some a0 => simp [errnoOf]
  | none =>
  simp only [Option.isSome_none, Bool.false_eq_true, ↓reduceIte]
  cases arg with
  | none =>
    simp only
    cases hf : freeIn c 32 32 with
    | none => simp [errnoOf]
    | some a => simp [absS_bindAt]
  | addr a =>
    simp only
    by_cases h0 : a < 0 ∨ a > 63
    · simp [h0, errnoOf]
    · simp only [h0, ↓reduceIte]
      by_cases h1 : 32 ≤ a ∨ (c.sock id).kind = .raw
      · simp only [h1, ↓reduceIte]
        cases hs : c.sap a.toNat with
        | none => simp [absS_bindAt]
        | some e => simp [errnoOf]
      · simp [h1, errnoOf]
  | name nm =>
    simp only
    cases hv : validName nm with
    | false => simp [errnoOf]
    | true =>
      simp only [Bool.true_eq_false, ↓reduceIte]
      cases hl : c.snl.lookup nm with
      | some a0 => simp [errnoOf]
      | none =>
        simp only [Option.isSome_none, Bool.false_eq_true, ↓reduceIte]
        cases hw : wks nm with
        | some a =>
          simp only
          cases hs : c.sap a with
          | some e => simp [errnoOf]
          | none =>
            simp only [Option.isSome_none, Bool.false_eq_true, ↓reduceIte, Py.pure_eq]
            congr 1
            simp only [← absS_bindAt]; rfl
        | none =>
          simp only
          cases hf : freeIn c 16 16 with
          | none => simp [errnoOf]
          | some a =>
            simp only [Py.pure_eq]
            congr 1
            simp only [← absS_bindAt]; rfl

theorem bind_err_llcp {c : Llc} {id : Nat} {arg : BindArg} {e : Exc} (h : bind c id arg = .error e) :
    e = .llcp (errnoOf e) := by
  unfold bind at h
  repeat' split at h
  all_goals first | (cases h; rfl) | (cases h; done)

theorem get_set_other (p : Pair) (x : Side) (c : Llc) : (p.set x c).get (!x) = p.get (!x) := by cases x <;> rfl

theorem absS_bindIfUnbound_ok {c c' : Llc} {id : Nat} (h : bindIfUnbound c id = .ok c') :
    absS c' = (absS c).implicitBind id := by
  unfold bindIfUnbound at h
  unfold SpecSide.implicitBind
  have hb : (absS c).bound id = (c.sock id).addr := rfl
  rw [hb]
  split at h
  · cases h; rename_i hs; simp [hs]
  · rename_i hs
    simp only [hs, Bool.false_eq_true, ↓reduceIte]
    rw [absS_bind, h]

theorem absS_bindIfUnbound_err {c : Llc} {id : Nat} {e : Exc} (h : bindIfUnbound c id = .error e) :
    (absS c).implicitBind id = absS c ∧ (absS c).bind id .none = .error (errnoOf e) ∧ e = .llcp (errnoOf e) := by
  unfold bindIfUnbound at h
  split at h
  · cases h
  · rename_i hs
    have hb : (absS c).bound id = (c.sock id).addr := rfl
    have h2 : (absS c).bind id .none = .error (errnoOf e) := by rw [absS_bind, h]
    refine ⟨?_, h2, bind_err_llcp h⟩
    unfold SpecSide.implicitBind
    rw [hb]
    simp only [hs, Bool.false_eq_true, ↓reduceIte, h2]

/-- implicit bind followed by a continuation that leaves the tables alone -/
theorem sim_withBound {p : Pair} {x : Side} {id : Nat} {k : Pair → Step} {r : Pair × Py Out}
    (h : withBound p x id k = .ok r) (hk : ∀ p1, k p1 = .ok r → PFrame p1 r.1) :
    absS (r.1.get x) = (absS (p.get x)).implicitBind id ∧ absS (r.1.get (!x)) = absS (p.get (!x)) ∧
    ((absS (p.get x)).bound id = none → Spec.errno ((absS (p.get x)).bind id .none) r.2) := by
  unfold withBound at h
  split at h
  · rename_i c hb
    have f := hk _ h
    refine ⟨?_, ?_, ?_⟩
    · rw [f.get x, get_set, absS_bindIfUnbound_ok hb]
    · rw [f.get (!x), get_set_other]
    · unfold bindIfUnbound at hb
      split at hb
      · rename_i hs
        intro hn
        have hb' : (absS (p.get x)).bound id = ((p.get x).sock id).addr := rfl
        rw [hb'] at hn; simp [hn] at hs
      · intro _; rw [absS_bind, hb]; simp [Spec.errno]
  · rename_i e hb
    cases h
    obtain ⟨h1, h2, h3⟩ := absS_bindIfUnbound_err hb
    refine ⟨h1.symm, rfl, fun _ => ?_⟩
    rw [h2]; simp only [Spec.errno]; rw [← h3]

/-- what the simulation theorem says for one operation -/
def Sim (p : Pair) (op : Op) (r : Pair × Py Out) : Prop :=
  absS (r.1.get op.side) = Spec.sideStep (absS (p.get op.side)) op r.2 ∧
  absS (r.1.get (!op.side)) = absS (p.get (!op.side)) ∧
  Spec.valid (absS (p.get op.side)) op r.2

theorem sim_of_frame {p : Pair} {op : Op} {r : Pair × Py Out} (f : PFrame p r.1)
    (hs : Spec.sideStep (absS (p.get op.side)) op r.2 = absS (p.get op.side))
    (hv : Spec.valid (absS (p.get op.side)) op r.2) : Sim p op r :=
  ⟨(f.get _).trans hs.symm, f.get _, hv⟩

theorem sim_listen {p : Pair} {x : Side} {id bl : Nat} {r : Pair × Py Out}
    (h : apiListen p x id bl = .ok r) : Sim p (.listen x id bl) r := by
  unfold apiListen at h
  have hkind : (absS (p.get x)).kind id = ((p.get x).sock id).kind := rfl
  split at h
  · rename_i hk
    cases h
    refine sim_of_frame (.refl _) ?_ ?_
    · simp only [Spec.sideStep, Op.side, hkind]; rw [if_neg hk]
    · simp only [Spec.valid, Op.side, hkind]; rw [if_pos hk]; trivial
  · rename_i hk
    have hk : ((p.get x).sock id).kind = .dlc := by simpa using hk
    obtain ⟨h1, h2, h3⟩ := sim_withBound h (fun p1 hk => by
      dsimp only at hk
      repeat' split at hk
      all_goals first | (cases hk; exact .refl _) | (cases hk; exact pframe_setSock _ _ _ _ rfl rfl))
    refine ⟨?_, h2, ?_⟩
    · simp only [Spec.sideStep, Op.side, hkind, hk, ↓reduceIte]; exact h1
    · simp only [Spec.valid, Op.side, hkind, hk, ne_eq, not_true_eq_false, ↓reduceIte]; exact h3

theorem sim_sendto {p : Pair} {x : Side} {id : Nat} {m : Bytes} {d : Nat} {r : Pair × Py Out}
    (h : apiSendto p x id m d = .ok r) : Sim p (.sendto x id m d) r := by
  unfold apiSendto at h
  have hkind : (absS (p.get x)).kind id = ((p.get x).sock id).kind := rfl
  split at h
  · rename_i hk
    cases h
    refine sim_of_frame (.refl _) ?_ ?_
    · simp [Spec.sideStep, Op.side, hkind, hk]
    · simp [Spec.valid, Op.side, hkind, hk]
  · rename_i hk
    obtain ⟨h1, h2, h3⟩ := sim_withBound h (fun p1 hk => by
      dsimp only at hk
      repeat' split at hk
      all_goals first | (cases hk; done) | (cases hk; exact .refl _) | (cases hk; exact pframe_setSock _ _ _ _ rfl rfl))
    refine ⟨?_, h2, ?_⟩
    · simp only [Spec.sideStep, Op.side, hkind, hk, ↓reduceIte]; exact h1
    · simp only [Spec.valid, Op.side, hkind, hk]; simpa using h3
  · rename_i hk
    have f : PFrame p r.1 := by
      repeat' split at h
      all_goals first | (cases h; done) | (cases h; exact .refl _)
    refine sim_of_frame f ?_ ?_
    · simp [Spec.sideStep, Op.side, hkind, hk]
    · simp [Spec.valid, Op.side, hkind, hk]

theorem sim_sendpdu {p : Pair} {x : Side} {id : Nat} {d s : Nat} {m : Bytes} {r : Pair × Py Out}
    (h : apiSendPdu p x id (.ui d s m) = .ok r) : Sim p (.sendpdu x id d s m) r := by
  unfold apiSendPdu at h
  split at h
  · cases h
  · obtain ⟨h1, h2, h3⟩ := sim_withBound h (fun p1 hk => by
      dsimp only at hk
      repeat' split at hk
      all_goals first | (cases hk; done) | (cases hk; exact .refl _) | (cases hk; exact pframe_setSock _ _ _ _ rfl rfl))
    exact ⟨h1, h2, h3⟩

theorem sim_sendsnl {p : Pair} {x : Side} {id : Nat} {rq : List (Nat × Bytes)} {rs : List (Nat × Nat)}
    {r : Pair × Py Out}
    (h : apiSendPdu p x id (.snl rq rs) = .ok r) : Sim p (.sendsnl x id rq rs) r := by
  unfold apiSendPdu at h
  split at h
  · cases h
  · obtain ⟨h1, h2, h3⟩ := sim_withBound h (fun p1 hk => by
      dsimp only at hk
      repeat' split at hk
      all_goals first | (cases hk; done) | (cases hk; exact .refl _) | (cases hk; exact pframe_setSock _ _ _ _ rfl rfl))
    exact ⟨h1, h2, h3⟩

theorem sim_connect {p : Pair} {x : Side} {id : Nat} {d : Dest} {r : Pair × Py Out}
    (h : apiConnect p x id d = .ok r) : Sim p (.connect x id d) r := by
  unfold apiConnect at h
  obtain ⟨h1, h2, h3⟩ := sim_withBound h (fun p1 hk => by
    simp only at hk
    split at hk
    · cases hk; exact .refl _
    · repeat' split at hk
      all_goals first | (cases hk; done) | (cases hk; exact .refl _) | (cases hk; exact pframe_setSock _ _ _ _ rfl rfl)
    · repeat' split at hk
      all_goals first | (cases hk; done) | (cases hk; exact .refl _) | skip
      all_goals
        simp only [Py.bind_eq_ok] at hk
        obtain ⟨r1, hpop, hk⟩ := hk
        have s0 := popOrPump_frame hpop
        have s1 : PFrame p1 r1.1 := (pframe_set _ _ _ (absS_setSock _ _ _ (by rfl) (by rfl))).trans s0
        repeat' split at hk
        all_goals first | (cases hk; exact s1) | (cases hk; exact s1.trans (pframe_setSock _ _ _ _ rfl rfl)))
  exact ⟨h1, h2, h3⟩

theorem absS_newSocket (c : Llc) (k : Kind) : absS (newSocket c k).1 = (absS c).newSocket k := by
  simp only [absS, newSocket, SpecSide.newSocket]
  congr 1
  · funext j; simp only [upd]; split <;> simp_all
  · funext j; simp only [upd]; split <;> simp_all

theorem sim_socket {p : Pair} {x : Side} {k : Kind} {r : Pair × Py Out}
    (h : apiSocket p x k = .ok r) : Sim p (.socket x k) r := by
  cases h
  refine ⟨?_, ?_, ?_⟩
  · simp only [Op.side, get_set, Spec.sideStep]; exact absS_newSocket _ k
  · simp only [Op.side, get_set_other]
  · simp [Spec.valid, newSocket, absS, Op.side]

theorem sim_bind {p : Pair} {x : Side} {id : Nat} {arg : BindArg} {r : Pair × Py Out}
    (h : apiBind p x id arg = .ok r) : Sim p (.bind x id arg) r := by
  unfold apiBind at h
  have hb := absS_bind (p.get x) id arg
  split at h
  · rename_i c hc
    cases h
    rw [hc] at hb
    refine ⟨?_, ?_, ?_⟩
    · simp only [Op.side, get_set, Spec.sideStep, hb]
    · simp only [Op.side, get_set_other]
    · simp only [Spec.valid, Op.side, hb]; rfl
  · rename_i e hc
    cases h
    rw [hc] at hb
    refine ⟨?_, rfl, ?_⟩
    · simp only [Op.side, Spec.sideStep, hb]
    · simp only [Spec.valid, Op.side, hb]; rw [← bind_err_llcp hc]

theorem sim_recvfrom {p : Pair} {x : Side} {id : Nat} {r : Pair × Py Out}
    (h : apiRecvfrom p x id = .ok r) : Sim p (.recvfrom x id) r := by
  refine sim_of_frame ?_ rfl trivial
  unfold apiRecvfrom at h
  simp only at h
  repeat' split at h
  all_goals first | (cases h; exact .refl _) | skip
  all_goals
    simp only [Py.bind_eq_ok] at h
    obtain ⟨r1, hpop, h⟩ := h
    have hr1 := popOrPump_frame hpop
    repeat' split at h
    all_goals first | (cases h; exact hr1) | (cases h; exact hr1.trans (pframe_setSock _ _ _ _ rfl rfl))

theorem sim_resolve {p : Pair} {x : Side} {nm : Bytes} {r : Pair × Py Out}
    (h : apiResolve p x nm = .ok r) : Sim p (.resolve x nm) r := by
  refine sim_of_frame ?_ rfl trivial
  unfold apiResolve at h
  simp only at h
  repeat' split at h
  all_goals first | (cases h; exact .refl _) | skip
  simp only [Py.bind_eq_ok] at h
  obtain ⟨p1, hpump, h⟩ := h
  have s1 : PFrame p p1 := (pframe_set _ _ _ (by rfl)).trans (pump_frame _ hpump)
  repeat' split at h
  all_goals first | (cases h; done) | (cases h; exact s1)

theorem sim_resolveMany {p : Pair} {x : Side} {nms : List Bytes} {r : Pair × Py Out}
    (h : apiResolveMany p x nms = .ok r) : Sim p (.resolveMany x nms) r := by
  refine sim_of_frame ?_ rfl trivial
  unfold apiResolveMany at h
  simp only at h
  split at h
  · cases h
  · simp only [Py.bind_eq_ok] at h
    obtain ⟨p1, hpump, h⟩ := h
    have s1 : PFrame p p1 := by
      split at hpump
      · cases hpump; exact .refl _
      · exact (pframe_set _ _ _ (by rfl)).trans (pump_frame _ hpump)
    split at h
    · cases h; exact s1
    · cases h

theorem sim_xfer {p : Pair} {x : Side} {r : Pair × Py Out}
    (h : apiXfer p x = .ok r) : Sim p (.xfer x) r := by
  refine sim_of_frame ?_ rfl trivial
  simp only [apiXfer, Py.bind_eq_ok] at h
  obtain ⟨r1, hx, h⟩ := h
  cases h
  exact xfer_frame (p' := r1.1) (m := r1.2) hx

theorem absS_removeSocket (c : Llc) (id a : Nat) (e : SapEntry) (ha : (c.sock id).addr = some a)
    (hs : c.sap a = some e) : absS (removeSocket c id a e (c.sock id)) = (absS c).close id := by
  have hb : (absS c).bound id = some a := ha
  have ho : (absS c).owner a = some e.socks := by simp [absS, hs]
  have hself : ∀ j, (setSock c id (c.sock id)).sock j = c.sock j := by
    intro j; simp only [setSock, upd]; split <;> simp_all
  simp only [SpecSide.close, hb, ho, removeSocket]
  split
  · simp only [absS]
    congr 1
    · funext j; rw [hself]
    · funext j; rw [hself]
    · funext b; simp only [upd, setSock]; split <;> simp
  · simp only [absS]
    congr 1
    · funext j; rw [hself]
    · funext j; rw [hself]
    · funext b; simp only [upd, setSock]; split <;> simp

theorem sim_close {p : Pair} {x : Side} {id : Nat} {r : Pair × Py Out}
    (h : apiClose p x id = .ok r) : Sim p (.close x id) r := by
  unfold apiClose at h
  have hb : (absS (p.get x)).bound id = ((p.get x).sock id).addr := rfl
  split at h
  · rename_i hn
    simp only [Py.bind_eq_ok] at h
    obtain ⟨p1, hc, h⟩ := h
    cases h
    refine sim_of_frame (sockClose_frame hc) ?_ rfl
    simp only [Spec.sideStep, Op.side, SpecSide.close, hb, hn]
  · rename_i a haddr
    split at h
    · rename_i hsn
      simp only [Py.bind_eq_ok] at h
      obtain ⟨p1, hc, h⟩ := h
      cases h
      refine sim_of_frame (sockClose_frame hc) ?_ rfl
      have ho : (absS (p.get x)).owner a = none := by simp [absS, hsn]
      simp only [Spec.sideStep, Op.side, SpecSide.close, hb, haddr, ho]
    · simp only [Py.bind_eq_ok] at h
      obtain ⟨p1, hc, h⟩ := h
      have f := sockClose_frame hc
      have ha1 : ((p1.get x).sock id).addr = some a := by
        have := congrArg (fun s => s.bound id) (f.get x); simp only [absS] at this; rw [this]; exact haddr
      split at h
      · -- unreachable: the SAP cannot disappear while the link runs
        rename_i _ _ hs0 _ hs1
        exfalso
        have := congrArg (fun s => s.owner a) (f.get x)
        simp only [absS] at this
        rw [hs1, hs0] at this
        simp at this
      · rename_i e1 hs1
        cases h
        refine ⟨?_, ?_, rfl⟩
        · simp only [Op.side, get_set, Spec.sideStep]
          rw [absS_removeSocket _ _ _ _ ha1 hs1, f.get x]
        · simp only [Op.side, get_set_other]; exact f.get _

theorem absS_accept (c : Llc) (id a : Nat) (s' child : Sock) (ha : (c.sock id).addr = some a)
    (hs' : s'.addr = some a) (hk' : s'.kind = (c.sock id).kind) (hc : child.addr = some a) (hck : child.kind = .dlc) :
    (∀ e, c.sap a = some e →
      absS { c with n := c.n + 1, sock := upd (upd c.sock id s') c.n child,
                    sap := upd c.sap a (some { e with socks := c.n :: e.socks }) } = (absS c).accept id) ∧
    (c.sap a = none →
      absS { c with n := c.n + 1, sock := upd (upd c.sock id s') c.n child } = (absS c).accept id) := by
  have hb : (absS c).bound id = some a := ha
  have hkind : ∀ j, (upd (upd c.sock id s') c.n child j).kind = upd (fun j => (c.sock j).kind) c.n .dlc j := by
    intro j; simp only [upd]; split
    · exact hck
    · split
      · subst_vars; exact hk'
      · rfl
  have haddr : ∀ j, (upd (upd c.sock id s') c.n child j).addr = upd (fun j => (c.sock j).addr) c.n (some a) j := by
    intro j; simp only [upd]; split
    · exact hc
    · split
      · subst_vars; rw [hs', ha]
      · rfl
  constructor
  · intro e hs
    have ho : (absS c).owner a = some e.socks := by simp [absS, hs]
    simp only [SpecSide.accept, hb, ho]
    simp only [absS]
    congr 1
    · funext j; exact hkind j
    · funext j; exact haddr j
    · funext b; simp only [upd]; split <;> simp
  · intro hs
    have ho : (absS c).owner a = none := by simp [absS, hs]
    simp only [SpecSide.accept, hb, ho]
    simp only [absS]
    congr 1
    · funext j; exact hkind j
    · funext j; exact haddr j

theorem sim_accept {p : Pair} {x : Side} {id : Nat} {r : Pair × Py Out}
    (h : apiAccept p x id = .ok r) : Sim p (.accept x id) r := by
  unfold apiAccept at h
  simp only at h
  have novalid : ∀ e : Exc, Spec.valid (absS (p.get x)) (.accept x id) (.error e) := by
    intro e nid a pr hh; cases hh
  repeat' split at h
  all_goals first | (cases h; exact sim_of_frame (.refl _) rfl (novalid _)) | skip
  simp only [Py.bind_eq_ok] at h
  obtain ⟨r1, hpop, h⟩ := h
  have s0 := popOrPump_frame hpop
  have f : PFrame p r1.1 := (pframe_set _ _ _ (absS_setSock _ _ _ (by rfl) (by rfl))).trans s0
  repeat' split at h
  all_goals first | (cases h; done) | (cases h; exact sim_of_frame f rfl (novalid _)) | skip
  · rename_i a haddr _ hsap
    cases h
    have hsap : (r1.1.get x).sap a = none := hsap
    refine ⟨?_, ?_, novalid _⟩
    · simp only [Op.side, get_set, Spec.sideStep]
      rw [← f.get x]
      exact (absS_accept (r1.1.get x) id a _ _ haddr (by exact haddr) (by rfl) (by rfl) (by rfl)).2 hsap
    · simp only [Op.side, get_set_other]; exact f.get _
  · rename_i a haddr _ e hsap
    cases h
    have hsap : (r1.1.get x).sap a = some e := hsap
    refine ⟨?_, ?_, ?_⟩
    · simp only [Op.side, get_set, Spec.sideStep]
      rw [← f.get x]
      exact (absS_accept (r1.1.get x) id a _ _ haddr (by exact haddr) (by rfl) (by rfl) (by rfl)).1 e hsap
    · simp only [Op.side, get_set_other]; exact f.get _
    · intro nid a' pr hh
      cases hh
      have hn : (absS (p.get x)).n = (r1.1.get x).n := by rw [← f.get x]; rfl
      have hb : (absS (p.get x)).bound id = some a := by rw [← f.get x]; exact haddr
      exact ⟨hn.symm, hb.symm, rfl⟩

/-- one operation: the abstraction of the new state is the specification step of the
abstraction of the old state, and the outcome is one the specification allows -/
theorem sim_applyOp {p : Pair} {op : Op} {r : Pair × Py Out} (h : applyOp p op = .ok r) : Sim p op r := by
  cases op with
  | socket x k => exact sim_socket h
  | bind x id arg => exact sim_bind h
  | listen x id bl => exact sim_listen h
  | connect x id d => exact sim_connect h
  | accept x id => exact sim_accept h
  | sendto x id m d => exact sim_sendto h
  | sendpdu x id d s m => exact sim_sendpdu h
  | recvfrom x id => exact sim_recvfrom h
  | resolve x nm => exact sim_resolve h
  | close x id => exact sim_close h
  | xfer x => exact sim_xfer h
  | resolveMany x nms => exact sim_resolveMany h
  | sendsnl x id rq rs => exact sim_sendsnl h

theorem absP_get (p : Pair) (x : Side) : (absP p).get x = absS (p.get x) := by cases x <;> rfl

theorem simulation_step {p : Pair} {op : Op} {r : Pair × Py Out} (h : apply p op = .ok r) :
    absP r.1 = Spec.step (absP p) op r.2 ∧ Spec.valid ((absP p).get op.side) op r.2 := by
  unfold apply at h
  split at h
  · obtain ⟨h1, h2, h3⟩ := sim_applyOp h
    refine ⟨?_, by rw [absP_get]; exact h3⟩
    unfold Spec.step
    rw [absP_get, ← h1]
    cases hx : op.side <;> simp only [hx, Bool.not_true, Bool.not_false] at h1 h2 ⊢
    · simp only [absP, SpecState.set, Pair.get] at h2 ⊢; simp at h2; simp [h2]
    · simp only [absP, SpecState.set, Pair.get] at h2 ⊢; simp at h2; simp [h2]
  · cases h
/-! ## histories -/

/-- the observable trace (operation, outcome) of a history -/
def trace (p : Pair) : List Op → List (Op × Py Out)
  | [] => []
  | op :: t =>
    match apply p op with
    | .ok (p1, o) => (op, o) :: trace p1 t
    | .error _ => []

namespace Spec
/-- run the specification over a trace -/
def run (σ : SpecState) : List (Op × Py Out) → SpecState
  | [] => σ
  | (op, o) :: t => run (step σ op o) t

/-- every outcome of the trace is one the specification allows -/
def accepts (σ : SpecState) : List (Op × Py Out) → Prop
  | [] => True
  | (op, o) :: t => valid (σ.get op.side) op o ∧ accepts (step σ op o) t

def init : SpecState := absP Pair.init
end Spec

/-- simulation over whole histories: the abstraction of the state reached by the
concrete controllers is the state the specification reaches on the observed trace,
and the specification accepts that trace -/
theorem simulation : ∀ (ops : List Op) (p : Pair),
    absP (Sap.run p ops) = Spec.run (absP p) (trace p ops) ∧ Spec.accepts (absP p) (trace p ops)
  | [], p => ⟨rfl, trivial⟩
  | op :: t, p => by
    unfold Sap.run trace
    cases h : apply p op with
    | error e => exact ⟨rfl, trivial⟩
    | ok r =>
      obtain ⟨p1, o⟩ := r
      obtain ⟨h1, h2⟩ := simulation_step h
      obtain ⟨ih1, ih2⟩ := simulation t p1
      simp only [Spec.run, Spec.accepts]
      rw [← h1]
      exact ⟨ih1, h2, ih2⟩

/-! ## the specification keeps its own invariant -/

/-- a concrete state whose abstraction is `s` -/
def conc (s : SpecSide) : Llc :=
  { n := s.n
    sock := fun id => { kind := s.kind id, st := .closed, addr := s.bound id }
    sap := fun a => (s.owner a).map (fun l => { socks := l })
    snl := s.names
    sd := {} }

theorem absS_conc (s : SpecSide) : absS (conc s) = s := by
  cases s
  simp only [absS, conc]
  congr 1
  funext a
  simp [Option.map_map, Function.comp_def]

/-- invariant of the abstract table (same statement as `Inv`, read on the abstraction) -/
def SpecInv (s : SpecSide) : Prop := Inv (conc s)

theorem inv_abs_iff (c : Llc) : SpecInv (absS c) ↔ Inv c := by
  have key : ∀ c1 c2 : Llc, absS c1 = absS c2 → Inv c1 → Inv c2 := by
    intro c1 c2 he hi
    have hn : c2.n = c1.n := (congrArg SpecSide.n he).symm
    have hb : ∀ id, (c2.sock id).addr = (c1.sock id).addr := fun id => (congrFun (congrArg SpecSide.bound he) id).symm
    have ho : ∀ a, (c2.sap a).map (·.socks) = (c1.sap a).map (·.socks) := fun a => (congrFun (congrArg SpecSide.owner he) a).symm
    have hs : c2.snl = c1.snl := (congrArg SpecSide.names he).symm
    exact hi.same ⟨hb, by omega, ho, hs⟩
  unfold SpecInv
  constructor
  · exact key _ _ (absS_conc _)
  · exact key _ _ (absS_conc _).symm

theorem specInv_bind {c : Llc} (hi : Inv c) {id : Nat} {arg : BindArg} (hid : id < c.n) :
    SpecInv (match (absS c).bind id arg with | .ok s' => s' | .error _ => absS c) := by
  rw [absS_bind]
  cases h : bind c id arg with
  | ok c' => exact (inv_abs_iff c').mpr (inv_bind hi hid h)
  | error e => exact (inv_abs_iff c).mpr hi

theorem specInv_implicitBind {c : Llc} (hi : Inv c) {id : Nat} (hid : id < c.n) :
    SpecInv ((absS c).implicitBind id) := by
  unfold SpecSide.implicitBind
  split
  · exact (inv_abs_iff c).mpr hi
  · exact specInv_bind hi hid

theorem specInv_accept {c : Llc} (hi : Inv c) {id : Nat} (hid : id < c.n) : SpecInv ((absS c).accept id) := by
  cases ha : (c.sock id).addr with
  | none =>
    have hb : (absS c).bound id = none := ha
    simp only [SpecSide.accept, hb]; exact (inv_abs_iff c).mpr hi
  | some a =>
    have h := absS_accept c id a (c.sock id) { kind := .dlc, st := .established, addr := some a } ha ha rfl rfl rfl
    cases hs : c.sap a with
    | none =>
      rw [← h.2 hs]
      exact (inv_abs_iff _).mpr (inv_orphan hi hid rfl rfl (hi.noRes id a ha))
    | some e =>
      rw [← h.1 e hs]
      exact (inv_abs_iff _).mpr (inv_accept hi hid hs ha ha rfl)

theorem specInv_close {c : Llc} (hi : Inv c) {id : Nat} : SpecInv ((absS c).close id) := by
  cases ha : (c.sock id).addr with
  | none =>
    have hb : (absS c).bound id = none := ha
    simp only [SpecSide.close, hb]; exact (inv_abs_iff c).mpr hi
  | some a =>
    cases hs : c.sap a with
    | none =>
      have hb : (absS c).bound id = some a := ha
      have ho : (absS c).owner a = none := by simp [absS, hs]
      simp only [SpecSide.close, hb, ho]; exact (inv_abs_iff c).mpr hi
    | some e =>
      rw [← absS_removeSocket c id a e ha hs]
      exact (inv_abs_iff _).mpr (inv_removeSocket hi hs ha rfl)

/-- every step of the specification keeps the invariant of the abstract table -/
theorem specInv_sideStep {s : SpecSide} (hi : SpecInv s) (op : Op) (out : Py Out)
    (hw : ∀ id, op.sock? = some id → id < s.n) : SpecInv (Spec.sideStep s op out) := by
  obtain ⟨c, rfl⟩ : ∃ c, s = absS c := ⟨conc s, (absS_conc s).symm⟩
  have hc : Inv c := (inv_abs_iff c).mp hi
  cases op with
  | socket x k =>
    simp only [Spec.sideStep]; rw [← absS_newSocket]
    exact (inv_abs_iff _).mpr (hc.same (same_newSocket c hc k))
  | bind x id arg => exact specInv_bind hc (hw id rfl)
  | listen x id bl =>
    simp only [Spec.sideStep]; split
    · exact specInv_implicitBind hc (hw id rfl)
    · exact hi
  | connect x id d => exact specInv_implicitBind hc (hw id rfl)
  | accept x id =>
    simp only [Spec.sideStep]
    split
    · exact specInv_accept hc (hw id rfl)
    · exact specInv_accept hc (hw id rfl)
    · exact hi
  | sendto x id m d =>
    simp only [Spec.sideStep]; split
    · exact specInv_implicitBind hc (hw id rfl)
    · exact hi
  | sendpdu x id d s m => exact specInv_implicitBind hc (hw id rfl)
  | recvfrom x id => exact hi
  | resolve x nm => exact hi
  | close x id => exact specInv_close hc
  | xfer x => exact hi
  | resolveMany x nms => exact hi
  | sendsnl x id rq rs => exact specInv_implicitBind hc (hw id rfl)

theorem specInv_init : SpecInv Spec.init.a ∧ SpecInv Spec.init.b :=
  ⟨(inv_abs_iff _).mpr init_inv, (inv_abs_iff _).mpr init_inv⟩

/-- the invariant holds along the specification run of every trace the concrete
controllers can produce -/
theorem specInv_trace : ∀ (ops : List Op) (p : Pair), SpecInv (absP p).a ∧ SpecInv (absP p).b →
    SpecInv (Spec.run (absP p) (trace p ops)).a ∧ SpecInv (Spec.run (absP p) (trace p ops)).b
  | [], p, h => h
  | op :: t, p, h => by
    unfold trace
    cases ha : apply p op with
    | error e => exact h
    | ok r =>
      obtain ⟨p1, o⟩ := r
      simp only [Spec.run]
      obtain ⟨h1, _⟩ := simulation_step ha
      rw [← h1]
      refine specInv_trace t p1 ?_
      rw [h1]
      have hw : op.wf p = true := by
        unfold apply at ha; split at ha
        · assumption
        · cases ha
      have hw' : ∀ id, op.sock? = some id → id < ((absP p).get op.side).n := by
        intro id hid
        simp only [Op.wf, hid] at hw
        rw [absP_get]; exact of_decide_eq_true hw
      have hs := specInv_sideStep (s := (absP p).get op.side) (by cases op.side <;> simp [SpecState.get] <;> first | exact h.1 | exact h.2) op o hw'
      unfold Spec.step
      cases hx : op.side <;> simp only [hx, SpecState.set] at hs ⊢
      · exact ⟨hs, h.2⟩
      · exact ⟨h.1, hs⟩

theorem specInv_reach (ops : List Op) (x : Side) : SpecInv ((absP (Sap.run Pair.init ops)).get x) := by
  have h := specInv_trace ops Pair.init specInv_init
  rw [← (simulation ops Pair.init).1] at h
  cases x <;> simp [SpecState.get] <;> first | exact h.1 | exact h.2

/-- consequences of the invariant in the vocabulary of the specification -/
theorem SpecInv.unique {s : SpecSide} (hi : SpecInv s) {a b id : Nat} {l l' : List Nat}
    (h1 : s.owner a = some l) (h2 : s.owner b = some l') (m1 : id ∈ l) (m2 : id ∈ l') :
    a = b ∧ l.Nodup ∧ s.bound id = some a ∧ id < s.n := by
  have e1 : (conc s).sap a = some { socks := l } := by simp [conc, h1]
  have e2 : (conc s).sap b = some { socks := l' } := by simp [conc, h2]
  have q1 := hi.addrOf a _ id e1 m1
  have q2 := hi.addrOf b _ id e2 m2
  have : some a = some b := q1.1.symm.trans q2.1
  exact ⟨Option.some.inj this, hi.nodup a _ e1, q1.1, q1.2⟩

theorem SpecInv.name_live {s : SpecSide} (hi : SpecInv s) {nm : Bytes} {a : Nat} (h : s.names.lookup nm = some a) :
    (nm = nameSdp ∧ a = 1) ∨ (2 ≤ a ∧ ∃ l, s.owner a = some l ∧ l ≠ [] ∧ ∀ j ∈ l, s.bound j = some a) := by
  rcases Sap.name_live hi (c := conc s) h with h1 | ⟨h1, e, h2, h3, h4⟩
  · exact .inl h1
  · refine .inr ⟨h1, e.socks, ?_, h3, h4⟩
    simp only [conc] at h2
    cases ho : s.owner a with
    | none => simp [ho] at h2
    | some l => simp [ho] at h2; rw [← h2]

theorem SpecInv.names_injective {s : SpecSide} (hi : SpecInv s) :
    (s.names.map Prod.fst).Nodup ∧ (s.names.map Prod.snd).Nodup := ⟨hi.nameKeys, hi.nameVals⟩

/-- the table part of the abstract state, as used by the allocation rule -/
def SpecSide.tbl (s : SpecSide) : Abs := ⟨s.owner, s.names⟩

theorem abs_conc (s : SpecSide) : abs (conc s) = s.tbl := by
  simp only [abs, conc, SpecSide.tbl]
  congr 1
  funext a
  simp [Option.map_map, Function.comp_def]

/-- the allocation function of the specification satisfies the declarative rule of
the statement (`BindOk`: address class and freeness; `BindErr`: the errno table) -/
theorem spec_bind_rule (s : SpecSide) (id : Nat) (arg : BindArg) (hu : s.bound id = none) :
    (∃ s' a, s.bind id arg = .ok s' ∧ BindOk s.tbl (s.kind id) arg a ∧ s'.bound id = some a ∧
        s'.tbl = s.tbl.bound id a arg) ∨
    (∃ n, s.bind id arg = .error n ∧ BindErr s.tbl (s.kind id) arg n) := by
  have hb := absS_bind (conc s) id arg
  rw [absS_conc] at hb
  rcases bind_sound (conc s) id arg hu with ⟨c', a, h1, h2, h3, h4⟩ | ⟨n, h1, h2⟩
  · rw [h1] at hb
    rw [abs_conc] at h2 h4
    exact .inl ⟨absS c', a, hb, h2, h3, h4⟩
  · rw [h1] at hb
    rw [abs_conc] at h2
    exact .inr ⟨n, hb, h2⟩

theorem spec_close_last (s : SpecSide) (id a : Nat) (hb : s.bound id = some a) (ho : s.owner a = some [id]) :
    (s.close id).owner a = none ∧ (∀ nm, (s.close id).names.lookup nm ≠ some a) ∧
    (∀ b, b ≠ a → (s.close id).owner b = s.owner b) ∧ (s.close id).bound = s.bound := by
  simp only [SpecSide.close, hb, ho, List.erase_cons_head, ↓reduceIte]
  refine ⟨by simp [upd], ?_, ?_, trivial⟩
  · intro nm hl
    have := lookup_mem hl
    simp at this
  · intro b hne; simp [upd, hne]
end NfcVerif.Sap
