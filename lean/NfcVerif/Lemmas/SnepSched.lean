import NfcVerif.Lemmas.SnepChannel
import NfcVerif.Model.SnepSched
/-!
Proofs about arbitrary interleavings (`runSched`) and the windowed link (`WNet`), property C06.

* the two kinds of moves commute and do not disable each other, hence every interleaving that
  comes to rest ends in the same state, after the same number of deliveries (`exec_confluent`),
  and that state is the one the fixed-order `pump` reaches (`sched_confluent`);
* with acknowledgements on consumption the windowed link never discards a message, never blocks
  for ever, and its application-level behaviour is an interleaving of the plain network
  (`NoLoss`, `wnet_refines`, `wnet_progress`).
-/
namespace NfcVerif.Chan
open NfcVerif

variable {C S D : Type}

/-! ## moves -/

theorem stepS_of_not_en (p : Proto C S D) (n : Net C S D) (h : ¬ En p .srv n) : stepS p n = n := by
  simp only [En, ne_eq, Decidable.not_not] at h
  simp [stepS, h]

theorem stepC_of_not_en (p : Proto C S D) (n : Net C S D) (h : ¬ En p .cli n) : stepC p n = n := by
  unfold stepC
  cases hq : n.s2c with
  | nil => rfl
  | cons m q =>
    by_cases hw : p.cwait n.cst = true
    · exact absurd ⟨by rw [hq]; simp, hw⟩ h
    · simp [hw]

theorem stepW_of_not_en (p : Proto C S D) (w : Who) (n : Net C S D) (h : ¬ En p w n) : stepW p w n = n := by
  cases w
  · exact stepS_of_not_en p n h
  · exact stepC_of_not_en p n h

theorem quiet_iff (p : Proto C S D) (n : Net C S D) : quiet p n ↔ ¬ En p .srv n ∧ ¬ En p .cli n := by
  simp only [quiet, En, ne_eq, Decidable.not_not, not_and, Bool.not_eq_true]
  constructor
  · rintro ⟨h1, h2⟩
    refine ⟨h1, fun hne => ?_⟩
    rcases h2 with h2 | h2
    · exact absurd h2 hne
    · exact h2
  · rintro ⟨h1, h2⟩
    refine ⟨h1, ?_⟩
    by_cases hs : n.s2c = []
    · exact Or.inl hs
    · exact Or.inr (h2 hs)

theorem step_eq (p : Proto C S D) (n : Net C S D) :
    step p n = if n.c2s ≠ [] then stepS p n else stepC p n := by
  obtain ⟨cst, sst, c2s, s2c, logC, logS, dl⟩ := n
  cases c2s with
  | nil => cases s2c <;> simp [step, stepC]
  | cons m q => simp [step, stepS]

/-- the two moves commute when both are enabled -/
theorem stepS_stepC_comm (p : Proto C S D) (n : Net C S D) (hs : En p .srv n) (hc : En p .cli n) :
    stepS p (stepC p n) = stepC p (stepS p n) := by
  obtain ⟨cst, sst, c2s, s2c, logC, logS, dl⟩ := n
  simp only [En, ne_eq] at hs hc
  obtain ⟨hc1, hc2⟩ := hc
  cases c2s with
  | nil => exact absurd rfl hs
  | cons m q =>
    cases s2c with
    | nil => exact absurd rfl hc1
    | cons m' q' =>
      by_cases hw : p.swait sst = true
      · simp [stepS, stepC, hc2, hw]
      · simp [stepS, stepC, hc2, hw]

theorem en_srv_stepC (p : Proto C S D) (n : Net C S D) (hs : En p .srv n) : En p .srv (stepC p n) := by
  simp only [En, ne_eq] at hs ⊢
  unfold stepC
  cases hq : n.s2c with
  | nil => simpa using hs
  | cons m q =>
    by_cases hw : p.cwait n.cst = true
    · simp [hw, hs]
    · simp [hw, hs]

theorem en_cli_stepS (p : Proto C S D) (n : Net C S D) (hc : En p .cli n) : En p .cli (stepS p n) := by
  simp only [En, ne_eq] at hc ⊢
  obtain ⟨hc1, hc2⟩ := hc
  unfold stepS
  cases hq : n.c2s with
  | nil => exact ⟨hc1, hc2⟩
  | cons m q =>
    by_cases hw : p.swait n.sst = true
    · simp [hw, hc1, hc2]
    · simp [hw, hc1, hc2]

theorem stepW_comm (p : Proto C S D) (n : Net C S D) (a b : Who) (hab : a ≠ b) (ha : En p a n) (hb : En p b n) :
    stepW p a (stepW p b n) = stepW p b (stepW p a n) := by
  cases a <;> cases b
  · exact absurd rfl hab
  · exact stepS_stepC_comm p n ha hb
  · exact (stepS_stepC_comm p n hb ha).symm
  · exact absurd rfl hab

theorem en_persist (p : Proto C S D) (n : Net C S D) (a b : Who) (hab : a ≠ b) (ha : En p a n) :
    En p a (stepW p b n) := by
  cases a <;> cases b
  · exact absurd rfl hab
  · exact en_srv_stepC p n ha
  · exact en_cli_stepS p n ha
  · exact absurd rfl hab

/-! ## executions made of enabled moves only -/

inductive Exec (p : Proto C S D) : Net C S D → List Who → Net C S D → Prop
  | nil (n) : Exec p n [] n
  | cons {n m} (w : Who) (s : List Who) : En p w n → Exec p (stepW p w n) s m → Exec p n (w :: s) m

/-- an enabled move that has not been made yet can be made first -/
theorem exec_front (p : Proto C S D) {n m : Net C S D} {s : List Who} (h : Exec p n s m) (hq : quiet p m)
    (w : Who) (hw : En p w n) : ∃ s', Exec p (stepW p w n) s' m ∧ s'.length + 1 = s.length := by
  induction h with
  | nil n =>
    rw [quiet_iff] at hq
    cases w
    · exact absurd hw hq.1
    · exact absurd hw hq.2
  | @cons n m w' s hen hrest ih =>
    by_cases hww : w' = w
    · subst hww
      exact ⟨s, hrest, rfl⟩
    · have hne : w ≠ w' := fun h => hww h.symm
      obtain ⟨s'', hs'', hl⟩ := ih hq (en_persist p n w w' hne hw)
      rw [stepW_comm p n w w' hne hw hen] at hs''
      exact ⟨w' :: s'', Exec.cons w' s'' (en_persist p n w' w hww hen) hs'', by simp; omega⟩

/-- **confluence**: all interleavings that come to rest end in the same state after the same
number of deliveries -/
theorem exec_confluent (p : Proto C S D) {n m1 : Net C S D} {s1 : List Who} (h1 : Exec p n s1 m1)
    (hq1 : quiet p m1) : ∀ {s2 : List Who} {m2 : Net C S D}, Exec p n s2 m2 → quiet p m2 →
      m1 = m2 ∧ s1.length = s2.length := by
  induction h1 with
  | nil n =>
    intro s2 m2 h2 _
    cases h2 with
    | nil => exact ⟨rfl, rfl⟩
    | cons w s hen _ =>
      rw [quiet_iff] at hq1
      cases w
      · exact absurd hen hq1.1
      · exact absurd hen hq1.2
  | @cons n m w s hen _ ih =>
    intro s2 m2 h2 hq2
    obtain ⟨s2', h2', hl⟩ := exec_front p h2 hq2 w hen
    obtain ⟨he, hlen⟩ := ih hq1 h2' hq2
    exact ⟨he, by simp; omega⟩

/-- a schedule with skipped choices is an execution of its effective moves -/
theorem runSched_exec (p : Proto C S D) : ∀ (sch : List Who) (n : Net C S D),
    ∃ s, Exec p n s (runSched p sch n) ∧ s.length ≤ sch.length := by
  intro sch
  induction sch with
  | nil => intro n; exact ⟨[], Exec.nil n, by simp⟩
  | cons w rest ih =>
    intro n
    by_cases hen : En p w n
    · obtain ⟨s, hs, hl⟩ := ih (stepW p w n)
      exact ⟨w :: s, Exec.cons w s hen hs, by simp; omega⟩
    · obtain ⟨s, hs, hl⟩ := ih n
      refine ⟨s, ?_, by simp; omega⟩
      simp only [runSched, stepW_of_not_en p w n hen]
      exact hs

/-- the fixed-order pump is one of the interleavings -/
theorem pump_exec (p : Proto C S D) : ∀ (k : Nat) (n : Net C S D),
    ∃ s, Exec p n s (pump p k n) ∧ s.length ≤ k := by
  intro k
  induction k with
  | zero => intro n; exact ⟨[], Exec.nil n, by simp⟩
  | succ k ih =>
    intro n
    simp only [pump]
    by_cases hs : En p .srv n
    · have : step p n = stepW p .srv n := by
        rw [step_eq]; simp only [En] at hs; simp [hs, stepW]
      obtain ⟨s, h, hl⟩ := ih (step p n)
      rw [this] at h ⊢
      exact ⟨.srv :: s, Exec.cons .srv s hs h, by simp; omega⟩
    · by_cases hc : En p .cli n
      · have : step p n = stepW p .cli n := by
          rw [step_eq]; simp only [En, ne_eq, Decidable.not_not] at hs; simp [hs, stepW]
        obtain ⟨s, h, hl⟩ := ih (step p n)
        rw [this] at h ⊢
        exact ⟨.cli :: s, Exec.cons .cli s hc h, by simp; omega⟩
      · have hq : quiet p n := (quiet_iff p n).mpr ⟨hs, hc⟩
        rw [step_quiet p n hq]
        obtain ⟨s, h, hl⟩ := ih n
        exact ⟨s, h, by omega⟩

/-- **schedule independence**: whatever the interleaving, once nothing can be delivered any more
the network is in the state the fixed-order pump reaches -/
theorem sched_confluent (p : Proto C S D) (n : Net C S D) (sch : List Who) (k : Nat)
    (h1 : quiet p (runSched p sch n)) (h2 : quiet p (pump p k n)) : runSched p sch n = pump p k n := by
  obtain ⟨s1, e1, _⟩ := runSched_exec p sch n
  obtain ⟨s2, e2, _⟩ := pump_exec p k n
  exact (exec_confluent p e1 h1 e2 h2).1

/-- an interleaving that has not come to rest can always be continued, and every continuation
to rest has the same total number of deliveries: no interleaving loses or repeats a delivery -/
theorem exec_extend (p : Proto C S D) {n m q : Net C S D} {s s0 : List Who} (h : Exec p n s m)
    (h0 : Exec p n s0 q) (hq : quiet p q) : ∃ s', Exec p m s' q ∧ s.length + s'.length = s0.length := by
  induction h generalizing s0 with
  | nil n => exact ⟨s0, h0, by simp⟩
  | @cons n m w s hen _ ih =>
    obtain ⟨s0', h0', hl⟩ := exec_front p h0 hq w hen
    obtain ⟨s', hs', hl'⟩ := ih h0'
    exact ⟨s', hs', by simp; omega⟩

/-! ## the windowed link -/

theorem runSched_append (p : Proto C S D) (a b : List Who) (n : Net C S D) :
    runSched p (a ++ b) n = runSched p b (runSched p a n) := by
  induction a generalizing n with
  | nil => rfl
  | cons w a ih => simp only [List.cons_append, runSched]; exact ih _

/-- invariant of one direction when acknowledgements follow consumption: nothing was discarded,
every transmitted message is in the receive queue, consumed but not yet acknowledged, or
acknowledged, and at most `rw` messages are unacknowledged -/
def Dir.NoLoss (rw : Nat) (d : Dir) : Prop :=
  d.lost = [] ∧ d.inq.length + d.confs + d.acked = d.vs ∧ d.vs ≤ d.acked + rw

theorem Dir.noLoss_init (rw : Nat) (q : List Bytes) : Dir.NoLoss rw { out := q } := by
  simp [Dir.NoLoss]

theorem Dir.noLoss_out (rw : Nat) (d : Dir) (q : List Bytes) (h : d.NoLoss rw) :
    Dir.NoLoss rw { d with out := q } := h

/-- transmission keeps the invariant and the stream: with the window respected the receive queue has room -/
theorem Dir.noLoss_xmit (rw : Nat) (d : Dir) (h : d.NoLoss rw) :
    (d.xmit .onConsume rw).NoLoss rw ∧
    (d.xmit .onConsume rw).inq ++ (d.xmit .onConsume rw).out = d.inq ++ d.out := by
  obtain ⟨h1, h2, h3⟩ := h
  unfold Dir.xmit
  cases ho : d.out with
  | nil => exact ⟨⟨h1, h2, h3⟩, by simp [ho]⟩
  | cons m q =>
    by_cases hw : d.vs - d.acked < rw
    · have hroom : d.inq.length < rw := by omega
      simp only [hw, hroom, if_true, reduceCtorEq, if_false]
      refine ⟨⟨h1, ?_, ?_⟩, by simp⟩
      · simp only [List.length_append, List.length_singleton]; omega
      · show d.vs + 1 ≤ d.acked + rw; omega
    · simp only [hw, if_false]
      exact ⟨⟨h1, h2, h3⟩, by simp [ho]⟩

theorem Dir.noLoss_ack (rw : Nat) (d : Dir) (h : d.NoLoss rw) :
    (d.ack .onConsume).NoLoss rw ∧ (d.ack .onConsume).inq = d.inq ∧ (d.ack .onConsume).out = d.out := by
  obtain ⟨h1, h2, h3⟩ := h
  by_cases hc : d.confs = 0
  · have : d.ack .onConsume = d := by simp [Dir.ack, hc]
    rw [this]; exact ⟨⟨h1, h2, h3⟩, rfl, rfl⟩
  · have : d.ack .onConsume = { d with acked := d.acked + d.confs, confs := 0 } := by simp [Dir.ack, hc]
    rw [this]
    refine ⟨⟨h1, ?_, ?_⟩, rfl, rfl⟩
    · show d.inq.length + 0 + (d.acked + d.confs) = d.vs; omega
    · show d.vs ≤ d.acked + d.confs + rw; omega

theorem Dir.noLoss_take (rw : Nat) (d d' : Dir) (m : Bytes) (h : d.NoLoss rw)
    (ht : d.take .onConsume = some (m, d')) :
    d'.NoLoss rw ∧ d.inq = m :: d'.inq ∧ d'.out = d.out := by
  obtain ⟨h1, h2, h3⟩ := h
  unfold Dir.take at ht
  cases hi : d.inq with
  | nil => simp [hi] at ht
  | cons a q =>
    simp only [hi, reduceCtorEq, if_false, Option.some.injEq, Prod.mk.injEq] at ht
    obtain ⟨rfl, rfl⟩ := ht
    refine ⟨⟨h1, ?_, h3⟩, rfl, rfl⟩
    show q.length + (d.confs + 1) + d.acked = d.vs
    rw [hi] at h2; simp only [List.length_cons] at h2; omega

theorem Dir.take_none (mode : AckMode) (d : Dir) : d.take mode = none ↔ d.inq = [] := by
  unfold Dir.take
  cases d.inq <;> simp

def WInv (k : Win) (w : WNet C S D) : Prop := w.c2s.NoLoss k.rwS ∧ w.s2c.NoLoss k.rwC

/-- one step of the windowed network is a skipped or an application move of the plain network,
and nothing is discarded -/
theorem wstep_abs (p : Proto C S D) (k : Win) (hk : k.mode = .onConsume) (s : WStep) (w : WNet C S D)
    (hi : WInv k w) :
    WInv k (wstep p k s w) ∧ (wstep p k s w).abs = runSched p (appTrace p k [s] w) w.abs := by
  obtain ⟨hi1, hi2⟩ := hi
  cases s with
  | xmit to =>
    cases to
    · obtain ⟨a, b⟩ := Dir.noLoss_xmit k.rwS w.c2s hi1
      simp only [wstep, hk, appTrace, runSched]
      exact ⟨⟨a, hi2⟩, by simp only [WNet.abs, b]⟩
    · obtain ⟨a, b⟩ := Dir.noLoss_xmit k.rwC w.s2c hi2
      simp only [wstep, hk, appTrace, runSched]
      exact ⟨⟨hi1, a⟩, by simp only [WNet.abs, b]⟩
  | ack by_ =>
    cases by_
    · obtain ⟨a, b, c⟩ := Dir.noLoss_ack k.rwS w.c2s hi1
      simp only [wstep, hk, appTrace, runSched]
      exact ⟨⟨a, hi2⟩, by simp only [WNet.abs, b, c]⟩
    · obtain ⟨a, b, c⟩ := Dir.noLoss_ack k.rwC w.s2c hi2
      simp only [wstep, hk, appTrace, runSched]
      exact ⟨⟨hi1, a⟩, by simp only [WNet.abs, b, c]⟩
  | app who =>
    cases who
    · -- the server application
      cases ht : w.c2s.take .onConsume with
      | none =>
        have hin : w.c2s.inq = [] := (Dir.take_none _ _).mp ht
        simp only [wstep, hk, ht, appTrace, hin, if_true, List.append_nil, runSched]
        exact ⟨⟨hi1, hi2⟩, trivial⟩
      | some md =>
        obtain ⟨m, d⟩ := md
        obtain ⟨a, b, c⟩ := Dir.noLoss_take k.rwS w.c2s d m hi1 ht
        have hne : w.c2s.inq ≠ [] := by rw [b]; simp
        simp only [wstep, hk, ht, appTrace, hne, if_false, List.append_nil, runSched, stepW]
        by_cases hw : p.swait w.sst = true
        · simp only [hw, if_true]
          refine ⟨⟨a, Dir.noLoss_out _ _ _ hi2⟩, ?_⟩
          simp [WNet.abs, stepS, b, c, hw, List.append_assoc]
        · simp only [hw]
          refine ⟨⟨a, hi2⟩, ?_⟩
          simp [WNet.abs, stepS, b, c, hw]
    · -- the client application
      by_cases hw : p.cwait w.cst = true
      · cases ht : w.s2c.take .onConsume with
        | none =>
          have hin : w.s2c.inq = [] := (Dir.take_none _ _).mp ht
          simp only [wstep, hk, hw, if_true, ht, appTrace, hin, List.append_nil, runSched]
          exact ⟨⟨hi1, hi2⟩, trivial⟩
        | some md =>
          obtain ⟨m, d⟩ := md
          obtain ⟨a, b, c⟩ := Dir.noLoss_take k.rwC w.s2c d m hi2 ht
          have hne : w.s2c.inq ≠ [] := by rw [b]; simp
          simp only [wstep, hk, hw, if_true, ht, appTrace, hne, if_false, List.append_nil, runSched, stepW]
          refine ⟨⟨Dir.noLoss_out _ _ _ hi1, a⟩, ?_⟩
          simp [WNet.abs, stepC, b, c, hw, List.append_assoc]
      · have hw' : p.cwait w.cst = false := by simpa using hw
        have hst : stepC p w.abs = w.abs := by
          apply stepC_of_not_en
          simp only [En, WNet.abs]
          exact fun h => hw h.2
        have hws : wstep p k (.app .cli) w = w := by simp [wstep, hw']
        rw [hws]
        refine ⟨⟨hi1, hi2⟩, ?_⟩
        simp only [appTrace, List.append_nil]
        split
        · rfl
        · simp only [runSched, stepW, hst]

theorem appTrace_cons (p : Proto C S D) (k : Win) (s : WStep) (ss : List WStep) (w : WNet C S D) :
    appTrace p k (s :: ss) w = appTrace p k [s] w ++ appTrace p k ss (wstep p k s w) := by
  cases s with
  | xmit to => simp [appTrace]
  | ack b => simp [appTrace]
  | app who => cases who <;> simp [appTrace]

/-- **refinement**: with acknowledgements on consumption every schedule of the windowed network
is, for the applications, an interleaving of the plain network, and no message is discarded -/
theorem wnet_refines (p : Proto C S D) (k : Win) (hk : k.mode = .onConsume) :
    ∀ (ss : List WStep) (w : WNet C S D), WInv k w →
      WInv k (runW p k ss w) ∧ (runW p k ss w).abs = runSched p (appTrace p k ss w) w.abs := by
  intro ss
  induction ss with
  | nil => intro w hi; exact ⟨hi, rfl⟩
  | cons s ss ih =>
    intro w hi
    obtain ⟨h1, h2⟩ := wstep_abs p k hk s w hi
    obtain ⟨h3, h4⟩ := ih (wstep p k s w) h1
    refine ⟨h3, ?_⟩
    simp only [runW]
    rw [h4, h2, appTrace_cons p k s ss w, runSched_append]

theorem onLink_inv (k : Win) (n : Net C S D) : WInv k n.onLink :=
  ⟨Dir.noLoss_init _ _, Dir.noLoss_init _ _⟩

theorem onLink_abs (n : Net C S D) : n.onLink.abs = n := by
  obtain ⟨cst, sst, c2s, s2c, logC, logS, dl⟩ := n
  simp [Net.onLink, WNet.abs]

/-- a step of the windowed network that changes something -/
def WEn (p : Proto C S D) (k : Win) : WStep → WNet C S D → Prop
  | .xmit .srv, w => w.c2s.out ≠ [] ∧ w.c2s.vs - w.c2s.acked < k.rwS
  | .xmit .cli, w => w.s2c.out ≠ [] ∧ w.s2c.vs - w.s2c.acked < k.rwC
  | .ack .srv, w => w.c2s.confs ≠ 0
  | .ack .cli, w => w.s2c.confs ≠ 0
  | .app .srv, w => w.c2s.inq ≠ []
  | .app .cli, w => w.s2c.inq ≠ [] ∧ p.cwait w.cst = true

theorem dir_progress (rw : Nat) (hrw : 0 < rw) (d : Dir) (h : d.NoLoss rw) (hne : d.inq ++ d.out ≠ []) :
    d.inq ≠ [] ∨ (d.out ≠ [] ∧ d.vs - d.acked < rw) ∨ d.confs ≠ 0 := by
  obtain ⟨_, h2, h3⟩ := h
  by_cases hi : d.inq = []
  · right
    have ho : d.out ≠ [] := by simpa [hi] using hne
    by_cases hw : d.vs - d.acked < rw
    · exact Or.inl ⟨ho, hw⟩
    · right
      rw [hi] at h2; simp only [List.length_nil] at h2
      omega
  · exact Or.inl hi

/-- **no deadlock by flow control**: as long as a message is under way that its receiver is
waiting for, some step of the windowed network is enabled (receive windows of at least 1) -/
theorem wnet_progress (p : Proto C S D) (k : Win) (hS : 0 < k.rwS) (hC : 0 < k.rwC) (w : WNet C S D)
    (hi : WInv k w) (hq : ¬ quiet p w.abs) : ∃ s, WEn p k s w := by
  rw [quiet_iff] at hq
  by_cases hs : En p .srv w.abs
  · rcases dir_progress k.rwS hS w.c2s hi.1 hs with h | h | h
    · exact ⟨.app .srv, h⟩
    · exact ⟨.xmit .srv, h⟩
    · exact ⟨.ack .srv, h⟩
  · have hc : En p .cli w.abs := by
      by_cases hc : En p .cli w.abs
      · exact hc
      · exact absurd ⟨hs, hc⟩ hq
    obtain ⟨hc1, hc2⟩ := hc
    rcases dir_progress k.rwC hC w.s2c hi.2 hc1 with h | h | h
    · exact ⟨.app .cli, h, hc2⟩
    · exact ⟨.xmit .cli, h⟩
    · exact ⟨.ack .cli, h⟩

/-- **the windowed link is transparent**: for receive windows of any size, every schedule of link
and application steps that leaves nothing deliverable ends, for the applications, in the state of
the fixed-order pump on the ideal channel - and nothing was discarded on the way -/
theorem windowed_confluent (p : Proto C S D) (k : Win) (hk : k.mode = .onConsume) (n : Net C S D)
    (ss : List WStep) (fuel : Nat)
    (h1 : quiet p (runW p k ss n.onLink).abs) (h2 : quiet p (pump p fuel n)) :
    (runW p k ss n.onLink).abs = pump p fuel n ∧
    (runW p k ss n.onLink).c2s.lost = [] ∧ (runW p k ss n.onLink).s2c.lost = [] := by
  obtain ⟨hi, ha⟩ := wnet_refines p k hk ss n.onLink (onLink_inv k n)
  rw [onLink_abs] at ha
  refine ⟨?_, hi.1.1, hi.2.1⟩
  rw [ha] at h1 ⊢
  exact sched_confluent p n _ fuel h1 h2

end NfcVerif.Chan
