import NfcVerif.Lemmas.Mac
import NfcVerif.Model.Auth
/-!
# Reader model against the tag of the manuals: evaluation lemmas and main facts
-/
namespace NfcVerif.Auth
open NfcVerif NfcVerif.Mac

theorem clampBound_neg (n k : Nat) (i : Int) (hi : i = -((k : Nat) : Int)) (hk : 0 < k) (hkn : k ≤ n) :
    clampBound n i = n - k := by
  unfold clampBound
  have h1 : i < 0 := by omega
  simp only [h1, if_true]
  have h2 : ¬ (i + (n : Int) < 0) := by omega
  have h3 : ¬ (i + (n : Int) > n) := by omega
  simp only [h2, h3, if_false]
  omega

theorem clampBound_zero (n : Nat) : clampBound n 0 = 0 := by
  simp [clampBound]; omega

theorem slice_body (x m p : Bytes) (hm : m.length = 8) (hp : p.length = 8) :
    slice (x ++ (m ++ p)) 0 (-16) = x ∧ slice (x ++ (m ++ p)) (-16) (-8) = m := by
  have hlen : (x ++ (m ++ p)).length = x.length + 16 := by simp [hm, hp]
  have c16 : clampBound (x ++ (m ++ p)).length (-16) = x.length := by
    rw [clampBound_neg _ 16 (-16) (by simp) (by omega) (by omega)]; omega
  have c8 : clampBound (x ++ (m ++ p)).length (-8) = x.length + 8 := by
    rw [clampBound_neg _ 8 (-8) (by simp) (by omega) (by omega)]; omega
  constructor
  · unfold slice
    rw [clampBound_zero, c16]
    simp
  · unfold slice
    rw [c16, c8]
    simp [hm]

theorem idx_nat {α} (l : List α) (i : Nat) (h : i < l.length) : idx l (i : Int) = .ok l[i] := by
  unfold idx
  have h1 : ¬ ((i : Int) < 0) := by omega
  have h3 : ¬ ((i : Int) ≥ (l.length : Int)) := by omega
  simp only [h1, h3, if_false, or_self, Int.toNat_natCast, List.getElem?_eq_getElem h]

theorem clampBound_nat (n i : Nat) (h : i ≤ n) : clampBound n (i : Int) = i := by
  unfold clampBound
  have h1 : ¬ ((i : Int) < 0) := by omega
  have h3 : ¬ ((i : Int) > (n : Int)) := by omega
  simp only [h1, h3, if_false, Int.toNat_natCast]

theorem slice_nat {α} (l : List α) (a b : Nat) (ha : a ≤ l.length) (hb : b ≤ l.length) :
    slice l (a : Int) (b : Int) = (l.drop a).take (b - a) := by
  unfold slice
  rw [clampBound_nat _ a ha, clampBound_nat _ b hb]

theorem t3Response_frame (idm : Bytes) (code : Nat) (body : Bytes) (hidm : idm.length = 8) :
    t3Response idm code (rspFrame idm code body) = .ok body := by
  match idm, hidm with
  | [i0, i1, i2, i3, i4, i5, i6, i7], _ =>
    have hl : (rspFrame [i0, i1, i2, i3, i4, i5, i6, i7] code body).length = 12 + body.length := by
      simp [rspFrame]; omega
    unfold t3Response
    rw [if_neg (by omega)]
    rw [show (0 : Int) = ((0 : Nat) : Int) from rfl, idx_nat _ 0 (by omega)]
    rw [show (1 : Int) = ((1 : Nat) : Int) from rfl, idx_nat _ 1 (by omega)]
    rw [show (10 : Int) = ((10 : Nat) : Int) from rfl, idx_nat _ 10 (by omega)]
    rw [show (2 : Int) = ((2 : Nat) : Int) from rfl, slice_nat _ 2 10 (by omega) (by omega)]
    simp [rspFrame]
    omega

/-! ## frames -/

theorem blockList_length (blocks : List Nat) : (blockList blocks).length = 2 * blocks.length := by
  induction blocks with
  | nil => rfl
  | cons b t ih => simp [blockList, List.flatMap_cons] at ih ⊢; omega

theorem readCmd_ok (idm : Bytes) (blocks : List Nat) (hidm : idm.length = 8) (hb : blocks.length ≤ 100) :
    ∃ c, readCmd idm blocks = .ok c := by
  unfold readCmd t3Command
  have : ¬ (2 + idm.length + ([1, 0x0B, 0x00, blocks.length] ++ blockList blocks).length > 255) := by
    simp [blockList_length, hidm]; omega
  simp only [this, if_false]
  exact ⟨_, rfl⟩

theorem writeCmd_ok (idm : Bytes) (blocks : List Nat) (data : Bytes) (hidm : idm.length = 8)
    (h : 2 * blocks.length + data.length ≤ 200) :
    writeCmd idm blocks data = .ok ([2 + idm.length + ([1, 0x09, 0x00, blocks.length] ++ blockList blocks ++ data).length, 8]
      ++ idm ++ ([1, 0x09, 0x00, blocks.length] ++ blockList blocks ++ data)) := by
  unfold writeCmd t3Command
  have : ¬ (2 + idm.length + ([1, 0x09, 0x00, blocks.length] ++ blockList blocks ++ data).length > 255) := by
    simp [blockList_length, hidm]; omega
  simp only [this, if_false]

theorem readRsp_frame (idm body : Bytes) (blocks : List Nat) (nb : Nat) (hidm : idm.length = 8)
    (hb : body.length = blocks.length * 16) :
    readRsp idm blocks (rspFrame idm 6 ([nb] ++ body)) = .ok body := by
  unfold readRsp
  rw [t3Response_frame idm 6 _ hidm]
  simp [hb]; omega

theorem writeRsp_ok (idm : Bytes) (hidm : idm.length = 8) : writeRsp idm (writeOk idm) = .ok () := by
  have : writeOk idm = rspFrame idm 8 [] := by simp [writeOk, rspFrame]
  unfold writeRsp
  rw [this, t3Response_frame idm 8 _ hidm]
  rfl

/-! ## read_with_mac -/

theorem readWithMac_some (C : Cipher) (idm : Bytes) (s : Session) (blocks : List Nat) (rsp d : Bytes)
    (h : readWithMac C idm (some s) blocks rsp = .ok (some d)) :
    ∃ data, readRsp idm (blocks ++ [0x81]) rsp = .ok data ∧ d = slice data 0 (-16)
      ∧ generateMac C d s.sk s.iv false = .ok (slice data (-16) (-8)) := by
  simp only [readWithMac] at h
  rcases Py.bind_eq_ok.mp h with ⟨c, _, h⟩
  rcases Py.bind_eq_ok.mp h with ⟨data, hdata, h⟩
  rcases Py.bind_eq_ok.mp h with ⟨m, hm, h⟩
  split at h
  · cases h
  · rename_i hne
    have hd : slice data 0 (-16) = d := by injection h with h; injection h
    have heq : slice data (-16) (-8) = m := Classical.not_not.mp hne
    exact ⟨data, hdata, hd.symm, by rw [← hd, hm, heq]⟩

/-- evaluation of `read_with_mac` on a well-formed frame carrying data `x`, MAC field `m`, padding `p` -/
theorem readWithMac_eval (C : Cipher) (idm : Bytes) (s : Session) (blocks : List Nat) (nb : Nat) (x m p mm : Bytes)
    (hidm : idm.length = 8) (hblk : blocks.length ≤ 99) (hx : x.length = blocks.length * 16)
    (hm : m.length = 8) (hp : p.length = 8) (hg : generateMac C x s.sk s.iv false = .ok mm) :
    readWithMac C idm (some s) blocks (rspFrame idm 6 ([nb] ++ (x ++ (m ++ p))))
      = .ok (if m = mm then some x else none) := by
  obtain ⟨c, hc⟩ := readCmd_ok idm (blocks ++ [0x81]) hidm (by simp; omega)
  have hr := readRsp_frame idm (x ++ (m ++ p)) (blocks ++ [0x81]) nb hidm (by simp [hx, hm, hp]; omega)
  obtain ⟨s1, s2⟩ := slice_body x m p hm hp
  simp only [readWithMac, hc, hr, Py.bind_ok, s1, s2, hg]
  by_cases h : m = mm <;> simp [h]

/-! ## the tag of the manual computes the reader's MAC -/

theorem chain_eq_cbcLast (E : Bytes → Bytes) (x : Bytes) (ws : List Bytes) : LiteTag.chain E x ws = cbcLast E x ws := by
  induction ws generalizing x with
  | nil => rfl
  | cons w rest ih => simp only [LiteTag.chain, cbcLast, xorB_comm x w, ih]

theorem revHalves_length (x : Bytes) (h : x.length = 16) : (revHalves x).length = 16 := by
  simp [revHalves, h]

theorem word_revHalves_0 (x : Bytes) (h : x.length = 16) : word (revHalves x) 0 = x.take 8 := by
  unfold word revHalves
  simp only [Nat.mul_zero, List.drop_zero]
  rw [List.take_append_of_le_length (by simp [h]), List.take_of_length_le (by simp [h]), List.reverse_reverse]

theorem word_revHalves_1 (x : Bytes) (h : x.length = 16) : word (revHalves x) 1 = x.drop 8 := by
  unfold word revHalves
  simp only [Nat.mul_one]
  have h8 : ((x.take 8).reverse).length = 8 := by simp [h]
  rw [List.drop_append_of_le_length (by omega), List.drop_of_length_le (by omega), List.nil_append,
    List.take_of_length_le (by simp [h]), List.reverse_reverse, List.take_of_length_le (by simp [h])]

theorem chunks8_16 (x : Bytes) (h : x.length = 16) : chunks8 x = [x.take 8, x.drop 8] := by
  simp [chunks8, h, chunksAux, List.take_of_length_le (show (x.drop 8).length ≤ 8 by simp [h])]

theorem liteKey_length (pw key : Bytes) (h : liteKey pw = .ok key) : key.length = 16 := by
  unfold liteKey at h
  split at h
  · cases h
  · rename_i hc
    injection h with h
    subst h
    split
    · simp [zeros]
    · rename_i hne
      have : ¬ pw.length < 16 := fun hl => hc ⟨hne, hl⟩
      simp; omega

theorem sessionKey_16 (C : Cipher) (key rc : Bytes) (h : rc.length = 16) :
    sessionKey C key rc = .ok (C key (rc.take 8) ++ C key (xorB (rc.drop 8) (C key (rc.take 8)))) := by
  unfold sessionKey
  have : ¬ (rc.length % 8 ≠ 0) := by omega
  simp only [this, if_false, chunks8_16 rc h, cbcAll]
  have : xorB (rc.take 8) (List.replicate 8 0) = rc.take 8 := by
    have := xorB_zeros (rc.take 8)
    rwa [show (rc.take 8).length = 8 by simp [h]] at this
  simp only [List.replicate] at this
  simp [this]

/-- session key words of the tag that stores `revHalves key` and was given the challenge `revHalves rc` -/
theorem tag_sk (C : Cipher) (key rc wc : Bytes) (hk : key.length = 16) (hrc : rc.length = 16) :
    LiteTag.sk1 C ⟨revHalves key, revHalves rc, wc⟩ = C key (rc.take 8)
    ∧ LiteTag.sk2 C ⟨revHalves key, revHalves rc, wc⟩ = C key (xorB (rc.drop 8) (C key (rc.take 8))) := by
  simp only [LiteTag.sk1, LiteTag.sk2, word_revHalves_0 _ hk, word_revHalves_1 _ hk, word_revHalves_0 _ hrc,
    word_revHalves_1 _ hrc, List.take_append_drop, and_self]

theorem tag_mac_eq (C : Cipher) (key rc wc sk : Bytes) (hk : key.length = 16) (hrc : rc.length = 16)
    (hsk : sessionKey C key rc = .ok sk) (groups : List Bytes) (hne : groups ≠ []) :
    LiteTag.mac C ⟨revHalves key, revHalves rc, wc⟩ groups = macBlocks C sk (rc.take 8) groups := by
  rw [sessionKey_16 C key rc hrc] at hsk
  injection hsk with hsk
  obtain ⟨h1, h2⟩ := tag_sk C key rc wc hk hrc
  simp only [LiteTag.mac, macBlocks, hne, if_false, chain_eq_cbcLast, h1, h2, hsk, word_revHalves_0 _ hrc]

theorem readFrame_eq (C : Cipher) (t : LiteTag) (idm : Bytes) (n : Nat) (data : Bytes) :
    LiteTag.readFrame C t idm n data
      = rspFrame idm 6 ([n] ++ (data ++ (LiteTag.mac C t (chunks8 data) ++ zeros 8))) := by
  simp only [LiteTag.readFrame, rspFrame, List.append_assoc, List.cons_append, List.nil_append, List.length_cons,
    List.length_append, List.cons.injEq, and_true, true_and]
  omega

theorem isBytes_take {l : Bytes} (h : IsBytes l) (n : Nat) : IsBytes (l.take n) :=
  fun x hx => h x (List.mem_of_mem_take hx)
theorem isBytes_drop {l : Bytes} (h : IsBytes l) (n : Nat) : IsBytes (l.drop n) :=
  fun x hx => h x (List.mem_of_mem_drop hx)

theorem macBlocks_block (C : Cipher) (hC : BlockCipher C) (key iv : Bytes) (groups : List Bytes)
    (hiv : Block iv) (hg : ∀ g ∈ groups, Block g) (hne : groups ≠ []) : Block (macBlocks C key iv groups) := by
  simp only [macBlocks, hne, if_false]
  apply reverse_block
  apply cbcLast_block (hC key).1 _ _ hiv
  intro g hg'
  rw [List.mem_map] at hg'
  obtain ⟨a, ha, rfl⟩ := hg'
  exact reverse_block (hg a ha)

theorem chunks8_ne_nil (d : Bytes) (h : 8 ≤ d.length) : chunks8 d ≠ [] := by
  unfold chunks8
  have : d.length / 8 = (d.length / 8 - 1) + 1 := by omega
  rw [this]
  simp [chunksAux]

/-- FeliCa Lite internal authentication succeeds against the tag of the manual that stores the
key in the layout `revHalves key` and received the challenge block the reader wrote -/
theorem lite_auth_complete (C : Cipher) (hC : BlockCipher C) (idm pw key rc idBlock wc : Bytes)
    (hidm : idm.length = 8) (hkey : liteKey pw = .ok key) (hrc : rc.length = 16) (hrcB : IsBytes rc)
    (hid : idBlock.length = 16) (hidB : IsBytes idBlock) :
    ∃ sk, sessionKey C key rc = .ok sk ∧ sk.length = 16 ∧
      liteAuthenticate C idm pw rc (writeOk idm)
        (LiteTag.readFrame C ⟨revHalves key, revHalves rc, wc⟩ idm 2 idBlock) = .ok (true, some ⟨sk, rc.take 8⟩) := by
  have hk := liteKey_length pw key hkey
  have hsk := sessionKey_16 C key rc hrc
  have hiv : Block (rc.take 8) := ⟨by simp [hrc], isBytes_take hrcB 8⟩
  have hsk1 : Block (C key (rc.take 8)) := (hC key).1 _ hiv
  have hr2 : Block (rc.drop 8) := ⟨by simp [hrc], isBytes_drop hrcB 8⟩
  have hsk2 : Block (C key (xorB (rc.drop 8) (C key (rc.take 8)))) := (hC key).1 _ (xorB_block hr2 hsk1)
  refine ⟨_, hsk, by simp [hsk1.1, hsk2.1], ?_⟩
  have hskl : (C key (rc.take 8) ++ C key (xorB (rc.drop 8) (C key (rc.take 8)))).length = 16 := by
    simp [hsk1.1, hsk2.1]
  have hne := chunks8_ne_nil idBlock (by omega)
  have hmac := tag_mac_eq C key rc wc _ hk hrc hsk (chunks8 idBlock) hne
  have hmb := macBlocks_block C hC (C key (rc.take 8) ++ C key (xorB (rc.drop 8) (C key (rc.take 8)))) (rc.take 8)
    (chunks8 idBlock) hiv (chunks8_blocks idBlock hidB) hne
  have hg := generateMac_ok C idBlock _ (rc.take 8) false (by omega) hskl hiv.1
  obtain ⟨c1, hc1⟩ : ∃ c, liteChallengeCmd idm rc = .ok c := by
    unfold liteChallengeCmd
    rw [writeCmd_ok idm [0x80] _ hidm (by simp [revHalves_length rc hrc])]
    exact ⟨_, rfl⟩
  obtain ⟨c2, hc2⟩ := readCmd_ok idm [0x82, 0x81] hidm (by simp)
  have hr := readRsp_frame idm (idBlock ++ (macBlocks C (C key (rc.take 8) ++ C key (xorB (rc.drop 8) (C key (rc.take 8))))
      (rc.take 8) (chunks8 idBlock) ++ zeros 8)) [0x82, 0x81] 2 hidm (by simp [hid, hmb.1, zeros])
  obtain ⟨s1, s2⟩ := slice_body idBlock _ (zeros 8) hmb.1 (by simp [zeros])
  simp only [liteAuthenticate, hkey, hc1, writeRsp_ok idm hidm, hsk, hc2, readFrame_eq, hmac, hr, Py.bind_ok, s1, s2, hg,
    Bool.false_eq_true, if_false, if_true]

/-! ## provisioning -/

theorem writeCmd_data (idm : Bytes) (b : Nat) (data c : Bytes) (hidm : idm.length = 8) (hd : data.length = 16)
    (h : writeCmd idm [b] data = .ok c) : c.drop 16 = data := by
  rw [writeCmd_ok idm [b] data hidm (by simp [hd])] at h
  injection h with h
  subst h
  match idm, hidm with
  | [i0, i1, i2, i3, i4, i5, i6, i7], _ => simp [blockList]

theorem protect_key_block (idm pw key pc : Bytes) (hidm : idm.length = 8) (hkey : liteKey pw = .ok key)
    (h : liteProtectKeyCmd idm pw = .ok pc) : pc.drop 16 = revHalves key := by
  simp only [liteProtectKeyCmd, hkey, Py.bind_ok] at h
  exact writeCmd_data idm 0x87 _ pc hidm (revHalves_length key (liteKey_length pw key hkey)) h

theorem challenge_block (idm rc cc : Bytes) (hidm : idm.length = 8) (hrc : rc.length = 16)
    (h : liteChallengeCmd idm rc = .ok cc) : cc.drop 16 = revHalves rc :=
  writeCmd_data idm 0x80 _ cc hidm (revHalves_length rc hrc) h

/-! ## soundness direction that is a fact about the code -/

theorem lite_auth_true (C : Cipher) (idm pw rc rsp1 rsp2 : Bytes) (s : Option Session)
    (h : liteAuthenticate C idm pw rc rsp1 rsp2 = .ok (true, s)) :
    ∃ key sk data, liteKey pw = .ok key ∧ sessionKey C key rc = .ok sk
      ∧ readRsp idm [0x82, 0x81] rsp2 = .ok data
      ∧ generateMac C (slice data 0 (-16)) sk (rc.take 8) false = .ok (slice data (-16) (-8))
      ∧ s = some ⟨sk, rc.take 8⟩ := by
  simp only [liteAuthenticate] at h
  rcases Py.bind_eq_ok.mp h with ⟨key, hkey, h⟩
  rcases Py.bind_eq_ok.mp h with ⟨_, _, h⟩
  rcases Py.bind_eq_ok.mp h with ⟨_, _, h⟩
  rcases Py.bind_eq_ok.mp h with ⟨sk, hsk, h⟩
  rcases Py.bind_eq_ok.mp h with ⟨_, _, h⟩
  rcases Py.bind_eq_ok.mp h with ⟨data, hdata, h⟩
  rcases Py.bind_eq_ok.mp h with ⟨m, hm, h⟩
  split at h
  · rename_i heq
    injection h with h
    injection h with _ h2
    exact ⟨key, sk, data, hkey, hsk, hdata, by rw [hm, heq], h2.symm⟩
  · injection h with h
    injection h with h1 _
    cases h1

/-! ## NTAG21x -/

theorem ntagKey_length (pw key : Bytes) (h : ntagKey pw = .ok key) : key.length = 6 := by
  unfold ntagKey at h
  split at h
  · cases h
  · rename_i hc
    injection h with h
    subst h
    split
    · rfl
    · rename_i hne
      have : ¬ pw.length < 6 := fun hl => hc ⟨hne, hl⟩
      simp; omega

theorem ntag_response_exact (pw key r : Bytes) (hk : ntagKey pw = .ok key) :
    ntagAuthenticate pw (.ok r) = .ok true ↔ r = (key.drop 4).take 2 := by
  simp [ntagAuthenticate, hk]

theorem ntag_error_false (pw key : Bytes) (n : Int) (hk : ntagKey pw = .ok key) :
    ntagAuthenticate pw (.error (.tagCmd n)) = .ok false := by
  simp [ntagAuthenticate, hk]

theorem ntag_exact (pw key : Bytes) (t : NtagTag) (hk : ntagKey pw = .ok key)
    :
    ntagAuthenticate pw (.ok (t.respond (ntagAuthCmd key))) = .ok true ↔ (t.pwd = key.take 4 ∧ t.pack = key.drop 4) := by
  have hl := ntagKey_length pw key hk
  have hd : (key.drop 4).take 2 = key.drop 4 := List.take_of_length_le (by simp [hl])
  rw [ntag_response_exact pw key _ hk, hd]
  unfold NtagTag.respond ntagAuthCmd
  by_cases h : key.take 4 = t.pwd
  · simp [h]
  · have h' : ¬ ([0x1B] ++ key.take 4 = [0x1B] ++ t.pwd) := by simpa using h
    simp only [h', if_false]
    constructor
    · intro h2
      have := congrArg List.length h2
      simp [hl] at this
    · intro h2
      exact absurd h2.1.symm h

theorem ntag_protect_tag (pw key cfg : Bytes) (rp : Bool) (pf : Nat) (pages : List Bytes) (hk : ntagKey pw = .ok key)
    (h : ntagProtectPages pw rp pf cfg = .ok pages) :
    NtagTag.ofPages pages = ⟨key.take 4, key.drop 4⟩ := by
  have hl := ntagKey_length pw key hk
  unfold ntagProtectPages at h
  simp only [hk, Py.bind_ok] at h
  split at h
  · cases h
  · rename_i hc
    have hc : cfg.length = 16 := Classical.not_not.mp hc
    injection h with h
    subst h
    match key, hl with
    | [k0, k1, k2, k3, k4, k5], _ =>
      match cfg, hc with
      | [c0, c1, c2, c3, c4, c5, c6, c7, c8, c9, c10, c11, c12, c13, c14, c15], _ =>
        simp [NtagTag.ofPages, sliceN]

/-! ## Lite-S: the MAC_A the reader sends is the MAC_A of the manual -/

theorem lite_s_write_mac (C : Cipher) (hC : BlockCipher C) (idm key rc wblock data : Bytes) (block : Nat) (sk : Bytes)
    (hidm : idm.length = 8) (hk : key.length = 16) (hrc : rc.length = 16) (hrcB : IsBytes rc)
    (hsk : sessionKey C key rc = .ok sk) (hw : wblock.length = 16) (hd : data.length = 16) (hb : block ≤ 255)
    (hwB : IsBytes wblock) (hdB : IsBytes data) :
    ∃ cmd, writeWithMacCmd C idm (some ⟨sk, rc.take 8⟩) data block (rspFrame idm 6 ([1] ++ wblock)) = .ok cmd
      ∧ cmd.drop 18 = data ++ (LiteTag.macA C ⟨revHalves key, revHalves rc, wblock⟩ block data ++ wblock.take 3 ++ zeros 5) := by
  rw [sessionKey_16 C key rc hrc] at hsk
  injection hsk with hsk
  have hiv : Block (rc.take 8) := ⟨by simp [hrc], isBytes_take hrcB 8⟩
  have hsk1 : Block (C key (rc.take 8)) := (hC key).1 _ hiv
  have hr2 : Block (rc.drop 8) := ⟨by simp [hrc], isBytes_drop hrcB 8⟩
  have hsk2 : Block (C key (xorB (rc.drop 8) (C key (rc.take 8)))) := (hC key).1 _ (xorB_block hr2 hsk1)
  obtain ⟨h1, h2⟩ := tag_sk C key rc wblock hk hrc
  obtain ⟨c0, hc0⟩ := readCmd_ok idm [0x90] hidm (by simp)
  have hr := readRsp_frame idm wblock [0x90] 1 hidm (by simp [hw])
  have hdrop : sk.drop 8 = C key (xorB (rc.drop 8) (C key (rc.take 8))) := by
    rw [← hsk, List.drop_append_of_le_length (by simp [hsk1.1]), List.drop_of_length_le (by simp [hsk1.1]), List.nil_append]
  have htake : sk.take 8 = C key (rc.take 8) := by
    rw [← hsk, List.take_append_of_le_length (by simp [hsk1.1]), List.take_of_length_le (by simp [hsk1.1])]
  have hhead : (wblock.take 3 ++ [0, block, 0, 0x91, 0]).length = 8 := by simp [hw]
  have hchunks : chunks8 (wblock.take 3 ++ [0, block, 0, 0x91, 0] ++ data)
      = [wblock.take 3 ++ [0, block, 0, 0x91, 0]] ++ chunks8 data := by
    rw [chunks8_append _ data (by rw [hhead]), chunks8_block _ hhead]
  have hg := generateMac_ok C (wblock.take 3 ++ [0, block, 0, 0x91, 0] ++ data) (sk.drop 8 ++ sk.take 8) (rc.take 8) false
    (by simp [hw, hd]) (by rw [hdrop, htake]; simp [hsk1.1, hsk2.1]) hiv.1
  have hnb : ¬ (block > 255) := by omega
  have hdl : ¬ (data.length ≠ 16) := by simp [hd]
  have hslice : sliceN (wblock.take 3 ++ [0, block, 0, 0x91, 0] ++ data) 8 24 = data := by
    unfold sliceN
    rw [List.drop_append_of_le_length (by omega), List.drop_of_length_le (by omega), List.nil_append,
      List.take_of_length_le (by simp [hd])]
  have hheadB : Block (wblock.take 3 ++ [0, block, 0, 0x91, 0]) := by
    refine ⟨hhead, isBytes_append (isBytes_take hwB 3) ?_⟩
    intro x hx
    simp only [List.mem_cons, List.not_mem_nil, or_false] at hx
    rcases hx with rfl | rfl | rfl | rfl | rfl <;> omega
  have hgroups : ∀ g ∈ [wblock.take 3 ++ [0, block, 0, 0x91, 0]] ++ chunks8 data, Block g := by
    intro g hg
    rcases List.mem_append.mp hg with h | h
    · simp only [List.mem_singleton] at h; subst h; exact hheadB
    · exact chunks8_blocks data hdB g h
  have hmb := macBlocks_block C hC (sk.drop 8 ++ sk.take 8) (rc.take 8) _ hiv hgroups (by simp)
  have hmacA : LiteTag.macA C ⟨revHalves key, revHalves rc, wblock⟩ block data
      = macBlocks C (sk.drop 8 ++ sk.take 8) (rc.take 8) ([wblock.take 3 ++ [0, block, 0, 0x91, 0]] ++ chunks8 data) := by
    simp only [LiteTag.macA, macBlocks, chain_eq_cbcLast, h1, h2, hdrop, htake, word_revHalves_0 _ hrc]
    simp
  rw [hchunks] at hg
  simp only [Bool.false_eq_true, if_false] at hg
  rw [hmacA]
  generalize macBlocks C (sk.drop 8 ++ sk.take 8) (rc.take 8) ([wblock.take 3 ++ [0, block, 0, 0x91, 0]] ++ chunks8 data) = mm at *
  have hwc := writeCmd_ok idm [block, 0x91] (data ++ (mm ++ wblock.take 3 ++ zeros 5)) hidm
      (by simp [hd, hw, zeros, hmb.1])
  simp only [writeWithMacCmd, hdl, if_false, hc0, hr, Py.bind_ok, hnb, hg, hslice, hwc]
  refine ⟨_, rfl, ?_⟩
  match idm, hidm with
  | [i0, i1, i2, i3, i4, i5, i6, i7], _ => simp [blockList]

end NfcVerif.Auth
