import NfcVerif.Model.PeerSnep
/-!
# C07: the SNEP server and the SNEP client response path are total on the peer's octets
-/
namespace NfcVerif.PeerSnep
open NfcVerif
open NfcVerif.Snep (contRsp contReq rejectRsp unsupRsp)

/-- the contract of the application side: response codes are octets, a response message fits the
32 bit length field, and decoder / callbacks / encoder raise nothing but the exceptions
`process_snep_request` handles (`ndef.DecodeError`, `ValueError`, `ndef.EncodeError`) -/
def AppOk (app : App) : Prop :=
  (∀ o, match app.get o with
    | .ok (.inl c) => c < 256
    | .ok (.inr d) => d.length < 2 ^ 32
    | .error (.py e) => e = .value
    | .error _ => True) ∧
  (∀ o, match app.put o with
    | .ok c => c < 256
    | .error (.py e) => e = .value
    | .error _ => True)

theorem unpackL_slice (data : Bytes) (h : data.length ≥ 10) :
    unpackL (sliceN data 6 10) = .ok (beNat (sliceN data 6 10)) := by
  unfold unpackL
  rw [if_pos]
  simp only [sliceN, List.length_take, List.length_drop]
  omega

theorem packResponse_ok (c : Nat) (d : Bytes) (hc : c < 256) (hd : d.length < 2 ^ 32) :
    packResponse c d = .ok ([0x10, c] ++ toBE 4 d.length ++ d) := by
  unfold packResponse packBBL
  rw [if_neg (by omega)]
  rfl

theorem toBE_length (k n : Nat) : (toBE k n).length = k := by
  induction k generalizing n with
  | zero => rfl
  | succ k ih => simp [toBE, ih]

/-- what the `try` body can end with, given the application contract -/
theorem requestBody_cases (app : App) (h : AppOk app) (data : Bytes) (hd : 2 ≤ data.length) :
    (∃ c d, requestBody app data = .ok (c, d) ∧ c < 256 ∧ d.length < 2 ^ 32) ∨
    requestBody app data = .error .ndefDecode ∨ requestBody app data = .error .ndefEncode ∨
    requestBody app data = .error (.py .value) := by
  unfold requestBody
  have h1 : ∃ code, idxN data 1 = .ok code := by
    match data, hd with
    | _ :: b :: _, _ => exact ⟨b, by simp⟩
  obtain ⟨code, hcode⟩ := h1
  simp only [hcode]
  split
  · rename_i hc
    rw [unpackL_slice data hc.2]
    simp only
    have hg := h.1 (data.drop 10)
    cases hr : app.get (data.drop 10) with
    | error x =>
      rw [hr] at hg
      cases x with
      | py e => simp only at hg; subst hg; exact Or.inr (Or.inr (Or.inr rfl))
      | ndefDecode => exact Or.inr (Or.inl rfl)
      | ndefEncode => exact Or.inr (Or.inr (Or.inl rfl))
    | ok r =>
      rw [hr] at hg
      cases r with
      | inl c =>
        simp only at hg
        left
        simp only [Nat.not_lt_zero, if_false]
        exact ⟨c, [], rfl, hg, by simp⟩
      | inr d =>
        simp only at hg
        left
        simp only
        split
        · exact ⟨0xC1, [], rfl, by decide, by simp⟩
        · exact ⟨0x81, d, rfl, by decide, hg⟩
  · split
    · have hp := h.2 (data.drop 6)
      cases hr : app.put (data.drop 6) with
      | error x =>
        rw [hr] at hp
        cases x with
        | py e => simp only at hp; subst hp; exact Or.inr (Or.inr (Or.inr rfl))
        | ndefDecode => exact Or.inr (Or.inl rfl)
        | ndefEncode => exact Or.inr (Or.inr (Or.inl rfl))
      | ok c =>
        rw [hr] at hp
        simp only at hp
        left
        exact ⟨c, [], rfl, hp, by simp⟩
    · left; exact ⟨0xC2, [], rfl, by decide, by simp⟩

/-- `process_snep_request` on ANY message of at least two octets (what `_serve` hands over has at
least six): a response with a complete header, no exception -/
theorem processRequest_total (app : App) (h : AppOk app) (data : Bytes) (hd : 2 ≤ data.length) :
    ∃ r, processRequest app data = .ok r ∧ 6 ≤ r.length ∧ r.take 1 = [0x10] := by
  unfold processRequest
  rcases requestBody_cases app h data hd with ⟨c, d, hb, hc, hl⟩ | hb | hb | hb
  · rw [hb]; simp only
    rw [packResponse_ok c d hc hl]
    refine ⟨_, rfl, ?_, rfl⟩
    simp [toBE_length]
  · rw [hb]; simp only
    rw [packResponse_ok 0xC2 [] (by decide) (by simp)]
    exact ⟨_, rfl, by simp [toBE_length], rfl⟩
  · rw [hb]; simp only
    rw [packResponse_ok 0xC0 [] (by decide) (by simp)]
    exact ⟨_, rfl, by simp [toBE_length], rfl⟩
  · rw [hb]; simp only
    rw [packResponse_ok 0xC2 [] (by decide) (by simp)]
    exact ⟨_, rfl, by simp [toBE_length], rfl⟩

/-- without the length guarantee of `_serve`: the only exception is the `IndexError` of `request_data[1]` -/
theorem processRequest_safe (app : App) (h : AppOk app) (data : Bytes) :
    Safe (fun e => e = .index) (processRequest app data) := by
  intro e he
  by_cases hd : 2 ≤ data.length
  · obtain ⟨r, hr, _⟩ := processRequest_total app h data hd
    rw [hr] at he; cases he
  · have h1 : idxN data 1 = .error .index := by
      match data, hd with
      | [], _ => rfl
      | [_], _ => rfl
      | _ :: _ :: _, hd => simp at hd
    unfold processRequest requestBody at he
    simp only [h1] at he
    cases he; rfl

theorem reasm_len (length : Nat) (data : Bytes) (inbox : List Bytes) :
    (reasm length data inbox).2.length ≤ inbox.length ∧ data.length ≤ (reasm length data inbox).1.length := by
  induction inbox generalizing data with
  | nil => simp [reasm]
  | cons m rest ih =>
    unfold reasm
    split
    · obtain ⟨h1, h2⟩ := ih (data ++ m)
      simp only [List.length_cons, List.length_append] at h2 ⊢
      omega
    · simp

theorem unpackFromBxL_ok (m : Bytes) (h : ¬ m.length < 6) : ∃ vl, unpackFromBxL m = .ok vl := by
  unfold unpackFromBxL
  rw [if_neg h]
  match m, h with
  | a :: _, _ => exact ⟨_, rfl⟩

/-- `_serve` on ANY sequence of fragments from the peer: the thread ends orderly (every request got its
answer, no exception), and `inbox.length + 1` turns of the receive loop suffice -/
theorem serve_total (cfg : Cfg) (h : AppOk cfg.app) (fuel : Nat) (inbox sent : List Bytes) (hf : inbox.length < fuel) :
    ∃ out, serve cfg fuel inbox sent = .ok out := by
  induction fuel generalizing inbox sent with
  | zero => omega
  | succ fuel ih =>
    match inbox with
    | [] => exact ⟨sent, by simp [serve]⟩
    | m :: rest =>
      unfold serve
      split
      · exact ⟨sent, rfl⟩
      · rename_i hm
        obtain ⟨vl, hvl⟩ := unpackFromBxL_ok m hm
        simp only [hvl, Py.bind_ok]
        simp only [List.length_cons] at hf
        split
        · exact ih rest _ (by omega)
        split
        · exact ih rest _ (by omega)
        · -- the request is complete (or the connection ended): it is processed and answered
          have hdr : (if decide (m.length - 6 < vl.2) = true then reasm vl.2 m rest else (m, rest)).2.length ≤ rest.length ∧
              m.length ≤ (if decide (m.length - 6 < vl.2) = true then reasm vl.2 m rest else (m, rest)).1.length := by
            split
            · exact reasm_len _ _ _
            · simp
          generalize (if decide (m.length - 6 < vl.2) = true then reasm vl.2 m rest else (m, rest)) = dr at hdr
          obtain ⟨resp, hresp, _⟩ := processRequest_total cfg.app h dr.1 (by omega)
          simp only [hresp, Py.bind_ok]
          split
          · exact ih dr.2 _ (by omega)
          · split
            · rename_i hnil
              exact ih [] _ (by simp only [List.length_nil]; omega)
            · rename_i c rest2 hcons
              have : rest2.length < fuel := by
                have := hdr.1
                rw [hcons] at this
                simp only [List.length_cons] at this
                omega
              split
              · exact ih rest2 _ this
              · exact ih rest2 _ this

/-! ## client -/

theorem cliReasm_len (length : Nat) (data : Bytes) (inbox : List Bytes) (r : Bytes)
    (h : cliReasm length data inbox = some r) : data.length ≤ r.length := by
  induction inbox generalizing data with
  | nil =>
    unfold cliReasm at h
    split at h
    · cases h
    · cases h; exact Nat.le_refl _
  | cons m rest ih =>
    unfold cliReasm at h
    split at h
    · have := ih _ h
      simp only [List.length_append] at this
      omega
    · cases h; exact Nat.le_refl _

theorem recvResponse_total (acc : Nat) (inbox : List Bytes) :
    ∃ r, recvResponse acc inbox = .ok r ∧ ∀ resp, r.1 = some resp → 6 ≤ resp.length := by
  unfold recvResponse
  match inbox with
  | [] => exact ⟨_, rfl, fun _ h => by cases h⟩
  | m :: rest =>
    simp only
    split
    · exact ⟨_, rfl, fun _ h => by cases h⟩
    · rename_i hm
      have h6 : (m.take 6).length = 6 := by simp only [List.length_take]; omega
      have : ∃ hh, unpackBBL (m.take 6) = .ok hh := by
        unfold unpackBBL
        rw [if_neg (by omega)]
        match hq : m.take 6, h6 with
        | a :: b :: _, _ => exact ⟨_, rfl⟩
      obtain ⟨hh, hhh⟩ := this
      simp only [hhh, Py.bind_ok]
      split
      · exact ⟨_, rfl, fun _ h => by cases h⟩
      · split
        · refine ⟨_, rfl, ?_⟩
          intro resp hr
          have := cliReasm_len _ _ _ _ hr
          omega
        · refine ⟨_, rfl, ?_⟩
          intro resp hr
          cases hr; omega

theorem idxN1_ok (resp : Bytes) (h : 6 ≤ resp.length) : ∃ st, idxN resp 1 = .ok st := by
  match resp, h with
  | _ :: b :: _, _ => exact ⟨b, by simp⟩

/-- `get_octets` after the request was sent, on ANY fragments from the server: data, `None` or `SnepError` -/
theorem getOctets_total (acc : Nat) (inbox : List Bytes) : ∃ r, getOctets acc inbox = .ok r := by
  unfold getOctets
  obtain ⟨r, hr, hl⟩ := recvResponse_total acc inbox
  simp only [hr, Py.bind_ok]
  cases h1 : r.1 with
  | none => exact ⟨_, rfl⟩
  | some resp =>
    obtain ⟨st, hst⟩ := idxN1_ok resp (hl resp h1)
    simp only [hst, Py.bind_ok]
    split <;> exact ⟨_, rfl⟩

theorem putOctets_total (inbox : List Bytes) : ∃ r, putOctets inbox = .ok r := by
  unfold putOctets
  obtain ⟨r, hr, hl⟩ := recvResponse_total 0 inbox
  simp only [hr, Py.bind_ok]
  cases h1 : r.1 with
  | none => exact ⟨_, rfl⟩
  | some resp =>
    obtain ⟨st, hst⟩ := idxN1_ok resp (hl resp h1)
    simp only [hst, Py.bind_ok]
    split <;> exact ⟨_, rfl⟩

/-! ## connection with the SNEP model of property C06 -/

/-- the application side of C06's model (`valid` = the decoder does not raise) seen as an `App` -/
def ofHandlers (h : Snep.Handlers) : App where
  get o := if h.valid o = false then .error .ndefDecode else .ok (h.get o)
  put o := if h.valid o = false then .error .ndefDecode else .ok (h.put o)

/-- C06's handlers within the field ranges -/
def HandlersOk (h : Snep.Handlers) : Prop :=
  (∀ o, h.put o < 256) ∧ (∀ o, match h.get o with | .inl c => c < 256 | .inr d => d.length < 2 ^ 32)

/-- `process` of C06's server model is this `process_snep_request`: the `struct` calls that model leaves
out cannot raise -/
theorem processRequest_is_c06 (h : Snep.Handlers) (hb : HandlersOk h) (data : Bytes) :
    processRequest (ofHandlers h) data = (Snep.process h data >>= fun r => .ok r.1) := by
  unfold processRequest requestBody Snep.process
  cases h1 : idxN data 1 with
  | error e =>
    simp only [Py.bind_error]
    unfold idxN at h1
    split at h1
    · cases h1
    · cases h1; rfl
  | ok code =>
    simp only [Py.bind_ok]
    by_cases hc : code = 1 ∧ data.length ≥ 10
    · rw [if_pos hc, if_pos hc, unpackL_slice data hc.2]
      simp only [ofHandlers]
      by_cases hv : h.valid (data.drop 10) = false
      · rw [if_pos hv, if_pos hv]
        simp only [Py.bind_ok]
        rw [packResponse_ok 0xC2 [] (by decide) (by simp)]
        simp [Snep.hdr]
      · rw [if_neg hv, if_neg hv]
        have hg := hb.2 (data.drop 10)
        have hacc : beNat (sliceN data 6 10) = beNat ((data.drop 6).take 4) := by simp [sliceN]
        cases hr : h.get (data.drop 10) with
        | inl c =>
          rw [hr] at hg
          simp only at hg
          simp only [Nat.not_lt_zero, if_false, List.length_nil, Py.bind_ok]
          rw [packResponse_ok c [] hg (by simp)]
          simp [Snep.hdr]
        | inr d =>
          rw [hr] at hg
          simp only at hg
          simp only [Py.bind_ok, hacc]
          split
          · rw [packResponse_ok 0xC1 [] (by decide) (by simp)]
            simp [Snep.hdr]
          · rw [packResponse_ok 0x81 d (by decide) hg]
            simp [Snep.hdr]
    · rw [if_neg hc, if_neg hc]
      by_cases h2 : code = 2
      · rw [if_pos h2, if_pos h2]
        simp only [ofHandlers]
        by_cases hv : h.valid (data.drop 6) = false
        · rw [if_pos hv, if_pos hv]
          simp only [Py.bind_ok]
          rw [packResponse_ok 0xC2 [] (by decide) (by simp)]
          simp [Snep.hdr]
        · rw [if_neg hv, if_neg hv]
          simp only [Py.bind_ok]
          rw [packResponse_ok _ [] (hb.1 _) (by simp)]
          simp [Snep.hdr]
      · rw [if_neg h2, if_neg h2]
        simp only [Py.bind_ok]
        rw [packResponse_ok 0xC2 [] (by decide) (by simp)]
        simp [Snep.hdr]

end NfcVerif.PeerSnep
