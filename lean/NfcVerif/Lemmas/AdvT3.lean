import NfcVerif.Lemmas.AdvT12
import NfcVerif.Lemmas.AdvT34
/-!
# C08 lemmas: the Type 3 NDEF reader against every tag
-/
namespace NfcVerif.Adv

theorem checkRsp3_spec (code : Nat) (sendIdm : Bool) (idm rsp : Bytes) :
    (∀ e, checkRsp3 code sendIdm idm rsp = .error e → isTagCmd e = true) ∧
    (∀ d, checkRsp3 code sendIdm idm rsp = .ok d → ∃ k, d = rsp.drop k) := by
  unfold checkRsp3
  split
  · rename_i r0 r1 rest
    by_cases h1 : (sendIdm = true ∧ (r0 :: r1 :: rest).length < 12) ∨ r0 ≠ (r0 :: r1 :: rest).length
    · rw [if_pos h1]; exact ⟨(by intro e h; cases h; rfl), (by intro d h; cases h)⟩
    · rw [if_neg h1]
      by_cases h2 : r1 ≠ code + 1
      · rw [if_pos h2]; exact ⟨(by intro e h; cases h; rfl), (by intro d h; cases h)⟩
      · rw [if_neg h2]
        by_cases h3 : sendIdm = true ∧ sliceN (r0 :: r1 :: rest) 2 10 ≠ idm
        · rw [if_pos h3]; exact ⟨(by intro e h; cases h; rfl), (by intro d h; cases h)⟩
        · rw [if_neg h3]
          by_cases h4 : ¬ sendIdm = true
          · rw [if_pos h4]; exact ⟨(by intro e h; cases h), (by intro d h; cases h; exact ⟨2, rfl⟩)⟩
          · rw [if_neg h4]
            have hs : sendIdm = true := by simpa using h4
            have h12 : 12 ≤ (r0 :: r1 :: rest).length := by
              apply Nat.le_of_not_lt; intro hlt; exact h1 (Or.inl ⟨hs, hlt⟩)
            have h10 : (r0 :: r1 :: rest)[10]? = some ((r0 :: r1 :: rest)[10]'(by omega)) := List.getElem?_eq_getElem (by omega)
            have h11 : (r0 :: r1 :: rest)[11]? = some ((r0 :: r1 :: rest)[11]'(by omega)) := List.getElem?_eq_getElem (by omega)
            rw [h10, h11]
            simp only
            split
            · exact ⟨(by intro e h; cases h; rfl), (by intro d h; cases h)⟩
            · exact ⟨(by intro e h; cases h), (by intro d h; cases h; exact ⟨12, rfl⟩)⟩
  · exact ⟨(by intro e h; cases h; rfl), (by intro d h; cases h)⟩

theorem sendCmd3_spec {t : Tag} (hT : TagBytes t) (code : Nat) (data : Bytes) (sendIdm : Bool) (s : S3)
    (hl : 2 + (if sendIdm then s.idm else []).length + data.length < 256) (hc : code < 256) :
    (sendCmd3 t code data sendIdm s).2.w.n ≤ s.w.n + 3 ∧
    (sendCmd3 t code data sendIdm s).2.idm = s.idm ∧ (sendCmd3 t code data sendIdm s).2.pmm = s.pmm ∧
    (sendCmd3 t code data sendIdm s).2.sys = s.sys ∧
    (∀ e, (sendCmd3 t code data sendIdm s).1 = .error e → isTagCmd e = true) ∧
    (∀ d, (sendCmd3 t code data sendIdm s).1 = .ok d → IsBytes d) := by
  unfold sendCmd3
  rw [if_neg (by omega)]
  generalize hcmd : ([2 + (if sendIdm then s.idm else []).length + data.length, code] ++ (if sendIdm then s.idm else []) ++ data) = cmd
  have hn := trx_n t 3 s.w cmd
  have hb := trx_bytes hT 3 s.w cmd
  refine ⟨hn.2, rfl, rfl, rfl, ?_, ?_⟩
  · intro e he
    simp only at he
    cases hq : (trx t 3 s.w cmd).1 with
    | none => rw [hq] at he; cases he; rfl
    | some rsp => rw [hq] at he; exact (checkRsp3_spec code sendIdm s.idm rsp).1 e he
  · intro d hd
    simp only at hd
    cases hq : (trx t 3 s.w cmd).1 with
    | none => rw [hq] at hd; cases hd
    | some rsp =>
      rw [hq] at hd
      obtain ⟨k, hk⟩ := (checkRsp3_spec code sendIdm s.idm rsp).2 d hd
      rw [hk]; exact IsBytes.drop (hb rsp hq) k

theorem blockCodes_ok : ∀ (bl : List Nat), (∀ b ∈ bl, b < 65536) →
    ∃ bc, blockCodes bl = .ok bc ∧ bc.length ≤ 3 * bl.length := by
  intro bl
  induction bl with
  | nil => intro _; exact ⟨[], rfl, by simp⟩
  | cons b bs ih =>
    intro h
    obtain ⟨bc, hbc, hl⟩ := ih (fun x hx => h x (List.mem_cons_of_mem _ hx))
    have hb := h b (by simp)
    unfold blockCodes
    by_cases h1 : b < 256
    · simp only [blockCode, if_pos h1, hbc]
      exact ⟨_, rfl, by simp; omega⟩
    · simp only [blockCode, if_neg h1, if_pos hb, hbc]
      exact ⟨_, rfl, by simp; omega⟩

/-- identity of the tag as the reader holds it: IDm and PMm of 8 octets -/
def I3 (s : S3) : Prop := s.idm.length = 8 ∧ s.pmm.length = 8

theorem read3_spec {t : Tag} (hT : TagBytes t) (bl : List Nat) (s : S3) (hI : I3 s) (hn : bl.length ≤ 15)
    (hb : ∀ b ∈ bl, b < 65536) :
    (read3 t bl s).2.w.n ≤ s.w.n + 3 ∧ I3 (read3 t bl s).2 ∧ (read3 t bl s).2.sys = s.sys ∧
    (∀ e, (read3 t bl s).1 = .error e → isTagCmd e = true) ∧
    (∀ d, (read3 t bl s).1 = .ok d → d.length = bl.length * 16 ∧ IsBytes d) := by
  unfold read3
  obtain ⟨p5, hp5, -⟩ := idxN_lt s.pmm 5 (by rw [hI.2]; omega)
  rw [hp5]
  simp only
  rw [if_neg (by omega)]
  obtain ⟨bc, hbc, hlen⟩ := blockCodes_ok bl hb
  rw [hbc]
  simp only
  have hs := sendCmd3_spec hT 6 ([1, 0x0B, 0x00, bl.length] ++ bc) true s
    (by simp only [if_true, hI.1, List.length_append, List.length_cons, List.length_nil]; omega) (by omega)
  rcases hr : sendCmd3 t 6 ([1, 0x0B, 0x00, bl.length] ++ bc) true s with ⟨r, s'⟩
  rw [hr] at hs
  simp only at hs
  obtain ⟨h1, h2, h3, h4, h5, h6⟩ := hs
  have hI' : I3 s' := by unfold I3; rw [h2, h3]; exact hI
  cases r with
  | error e => exact ⟨h1, hI', h4, by intro e' he; simp at he; subst he; exact h5 e rfl, by simp⟩
  | ok d =>
    simp only
    split
    · exact ⟨h1, hI', h4, by intro e' he; simp at he; subst he; rfl, by simp⟩
    · rename_i hl
      refine ⟨h1, hI', h4, by simp, ?_⟩
      intro d' hd; simp at hd; subst hd
      have hl' : d.length = 1 + bl.length * 16 := by simpa using hl
      exact ⟨by simp; omega, fun b hb => h6 d rfl b (List.mem_of_mem_tail hb)⟩

theorem blockLoop3_spec {t : Tag} (hT : TagBytes t) (last nbr : Nat) (hl : last ≤ 65536) (h1 : 1 ≤ nbr) (h15 : nbr ≤ 15) :
    ∀ (fuel i : Nat) (acc : List Bytes) (s : S3), I3 s → last < i + fuel → 0 < fuel →
      (blockLoop3 t last nbr fuel i acc s).2.w.n ≤ s.w.n + 3 * (last - i) ∧
      I3 (blockLoop3 t last nbr fuel i acc s).2 ∧ (blockLoop3 t last nbr fuel i acc s).2.sys = s.sys ∧
      ((blockLoop3 t last nbr fuel i acc s).1 = .ok none ∨ ∃ d, (blockLoop3 t last nbr fuel i acc s).1 = .ok (some d)) := by
  intro fuel
  induction fuel with
  | zero => intro i acc s _ _ h; omega
  | succ f ih =>
    intro i acc s hI hf _
    unfold blockLoop3
    split
    · exact ⟨by simp, hI, rfl, Or.inr ⟨_, rfl⟩⟩
    · rename_i hlt
      have hr := read3_spec hT (List.range' i (min (i + nbr) last - i)) s hI (by simp; omega)
        (by intro b hb; simp only [List.mem_range'_1] at hb; omega)
      rcases hq : read3 t (List.range' i (min (i + nbr) last - i)) s with ⟨r, s'⟩
      rw [hq] at hr
      simp only at hr
      cases r with
      | error e =>
        simp only [hr.2.2.2.1 e rfl, if_true]
        exact ⟨by omega, hr.2.1, hr.2.2.1, by simp⟩
      | ok d =>
        simp only
        have := ih (i + nbr) (d :: acc) s' hr.2.1 (by omega) (by omega)
        exact ⟨by omega, this.2.1, by rw [this.2.2.1]; exact hr.2.2.1, this.2.2.2⟩

/-- `polling(system_code, request_code)`: at most 3 interactions, only command errors, and the tuple has the
shape that belongs to the request code: `(idm, pmm)` of 8 octets each for request code 0 -/
theorem pollingTuple_spec {t : Tag} (hT : TagBytes t) (sys rc : Nat) (s : S3) (hs : sys < 65536)
    (hrc : rc = 0 ∨ rc = 1 ∨ rc = 2) :
    (pollingTuple t sys rc s).2.w.n ≤ s.w.n + 3 ∧
    (pollingTuple t sys rc s).2.idm = s.idm ∧ (pollingTuple t sys rc s).2.pmm = s.pmm ∧
    (pollingTuple t sys rc s).2.sys = s.sys ∧
    (∀ e, (pollingTuple t sys rc s).1 = .error e → isTagCmd e = true) ∧
    (∀ tup, (pollingTuple t sys rc s).1 = .ok tup →
      (rc = 0 → ∃ a b, tup = [a, b] ∧ a.length = 8 ∧ b.length = 8) ∧
      (rc ≠ 0 → ∃ a b c, tup = [a, b, c])) := by
  unfold pollingTuple
  rw [if_neg (by omega), if_neg (by omega)]
  have hc := sendCmd3_spec hT 0 [sys / 256, sys % 256, rc, 0] false s (by simp) (by omega)
  rcases hr : sendCmd3 t 0 [sys / 256, sys % 256, rc, 0] false s with ⟨r, s'⟩
  rw [hr] at hc
  simp only at hc
  obtain ⟨h1, h2, h3, h4, h5, -⟩ := hc
  cases r with
  | error e => exact ⟨h1, h2, h3, h4, by intro e' he; simp at he; subst he; exact h5 e rfl, by simp⟩
  | ok d =>
    simp only
    by_cases hl : d.length ≠ (if rc = 0 then 16 else 18)
    · rw [if_pos hl]
      exact ⟨h1, h2, h3, h4, by intro e' he; simp at he; subst he; rfl, by simp⟩
    · rw [if_neg hl]
      have hl' : d.length = (if rc = 0 then 16 else 18) := by simpa using hl
      by_cases h16 : d.length = 16
      · rw [if_pos h16]
        refine ⟨h1, h2, h3, h4, by simp, ?_⟩
        intro tup htup
        simp at htup
        subst htup
        refine ⟨fun _ => ⟨_, _, rfl, by simp; omega, by simp; omega⟩, ?_⟩
        intro hne
        rw [if_neg hne] at hl'
        omega
      · rw [if_neg h16]
        refine ⟨h1, h2, h3, h4, by simp, ?_⟩
        intro tup htup
        simp at htup
        subst htup
        refine ⟨?_, fun _ => ⟨_, _, _, rfl⟩⟩
        intro h0
        rw [if_pos h0] at hl'
        omega

theorem polling3_spec {t : Tag} (hT : TagBytes t) (s : S3) :
    (polling3 t s).2.w.n ≤ s.w.n + 3 ∧ (∀ e, (polling3 t s).1 = .error e → isTagCmd e = true) ∧
    ((polling3 t s).1 = .ok () → I3 (polling3 t s).2) ∧
    ((polling3 t s).1 ≠ .ok () → (polling3 t s).2.idm = s.idm ∧ (polling3 t s).2.pmm = s.pmm ∧ (polling3 t s).2.sys = s.sys) ∧
    ((polling3 t s).1 = .ok () → (polling3 t s).2.sys = 0x12FC) := by
  unfold polling3
  have hp := pollingTuple_spec hT 0x12FC 0 s (by omega) (Or.inl rfl)
  rcases hr : pollingTuple t 0x12FC 0 s with ⟨r, s'⟩
  rw [hr] at hp
  simp only at hp
  cases r with
  | error e =>
    exact ⟨hp.1, by intro e' he; simp at he; subst he; exact hp.2.2.2.2.1 e rfl, by simp,
      fun _ => ⟨hp.2.1, hp.2.2.1, hp.2.2.2.1⟩, by simp⟩
  | ok tup =>
    obtain ⟨a, b, hab, ha, hb⟩ := (hp.2.2.2.2.2 tup rfl).1 trivial
    subst hab
    simp only [unpack2]
    exact ⟨hp.1, by simp, fun _ => ⟨ha, hb⟩, by simp, by simp⟩

/-- Type 3: for every tag `_read_ndef_data` needs at most 6 + 3·65536 interactions, never raises, and
returns `None` or an object with `length ≤ capacity` whose octets are blocks 1.. of the data area -/
theorem readNdef3_safe {t : Tag} (hT : TagBytes t) (s : S3) (hI : I3 s) :
    (readNdef3 t s).2.w.n ≤ s.w.n + 6 + 3 * 65536 ∧
    ((readNdef3 t s).1 = .ok none ∨ ∃ d, (readNdef3 t s).1 = .ok (some d) ∧ SafeNdef d ∧ d.lo = 16) ∧
    I3 (readNdef3 t s).2 ∧ ((readNdef3 t s).2.sys = s.sys ∨ (readNdef3 t s).2.sys = 0x12FC) := by
  unfold readNdef3
  -- polling
  have hp : ∀ (x : Py Unit × S3), x = (if s.sys ≠ 0x12FC then polling3 t s else (.ok (), s)) →
      x.2.w.n ≤ s.w.n + 3 ∧ (∀ e, x.1 = .error e → isTagCmd e = true) ∧ I3 x.2 ∧
      (x.2.sys = s.sys ∨ x.2.sys = 0x12FC) := by
    intro x hx
    subst hx
    split
    · have := polling3_spec hT s
      refine ⟨this.1, this.2.1, ?_, ?_⟩
      · by_cases hok : (polling3 t s).1 = .ok ()
        · exact this.2.2.1 hok
        · obtain ⟨h1, h2, -⟩ := this.2.2.2.1 hok
          unfold I3; rw [h1, h2]; exact hI
      · by_cases hok : (polling3 t s).1 = .ok ()
        · exact Or.inr (this.2.2.2.2 hok)
        · exact Or.inl (this.2.2.2.1 hok).2.2
    · exact ⟨by simp, by simp, hI, Or.inl rfl⟩
  generalize (if s.sys ≠ 0x12FC then polling3 t s else (Except.ok (), s) : Py Unit × S3) = x at hp
  have hp := hp x rfl
  obtain ⟨r, s1⟩ := x
  simp only at hp
  cases r with
  | error e =>
    simp only [hp.2.1 e rfl, if_true]
    exact ⟨by omega, by simp, hp.2.2.1, hp.2.2.2⟩
  | ok u =>
    simp only
    have hI1 := hp.2.2.1
    have hr := read3_spec hT [0] s1 hI1 (by simp) (by simp)
    rcases hq : read3 t [0] s1 with ⟨r2, s2⟩
    rw [hq] at hr
    simp only at hr
    have hsys2 : s2.sys = s.sys ∨ s2.sys = 0x12FC := by rw [hr.2.2.1]; exact hp.2.2.2
    cases r2 with
    | error e =>
      simp only [hr.2.2.2.1 e rfl, if_true]
      exact ⟨by omega, by simp, hr.2.1, hsys2⟩
    | ok d =>
      simp only
      have hd := hr.2.2.2.2 d rfl
      have hdl : d.length = 16 := by simpa using hd.1
      match d, hdl with
      | [a0, a1, a2, a3, a4, a5, a6, a7, a8, a9, a10, a11, a12, a13, c0, c1], _ =>
        have hb := hd.2
        have h3 : a3 < 256 := hb a3 (by simp)
        have h4 : a4 < 256 := hb a4 (by simp)
        have hn2 : s2.w.n ≤ s.w.n + 6 := by have := hp.1; have := hr.1; omega
        have hI2 := hr.2.1
        clear hb hd
        by_cases hsum : a0 + a1 + a2 + a3 + a4 + a5 + a6 + a7 + a8 + a9 + a10 + a11 + a12 + a13 ≠ c0 * 256 + c1
        · simp only [parseAttr, if_pos hsum]
          exact ⟨by omega, by simp, hI2, hsys2⟩
        · simp only [parseAttr, if_neg hsum]
          clear hsum
          split
          · exact ⟨by simp only; omega, by simp, hI2, hsys2⟩
          · split
            · exact ⟨by simp only; omega, by simp, hI2, hsys2⟩
            · rename_i hln
              split
              · exact ⟨by simp only; omega, by simp, hI2, hsys2⟩
              · rename_i hnbr
                have hlast : 1 + ((a11 * 256 + a12) * 256 + a13 + 15) / 16 ≤ 65536 := by omega
                have hB := blockLoop3_spec hT (1 + ((a11 * 256 + a12) * 256 + a13 + 15) / 16) (min a1 15) hlast
                  (by omega) (by omega) (1 + ((a11 * 256 + a12) * 256 + a13 + 15) / 16) 1 [] s2 hr.2.1 (by omega) (by omega)
                rcases hq3 : blockLoop3 t (1 + ((a11 * 256 + a12) * 256 + a13 + 15) / 16) (min a1 15)
                    (1 + ((a11 * 256 + a12) * 256 + a13 + 15) / 16) 1 [] s2 with ⟨r3, s3⟩
                rw [hq3] at hB
                simp only at hB
                have hsys3 : s3.sys = s.sys ∨ s3.sys = 0x12FC := by rw [hB.2.2.1]; exact hsys2
                have hI3' := hB.2.1
                rcases hB.2.2.2 with h | ⟨data, h⟩
                · subst h; exact ⟨by simp only; omega, by simp, hI3', hsys3⟩
                · subst h
                  simp only
                  refine ⟨by omega, Or.inr ⟨_, rfl, ⟨?_, rfl, by simp, ?_⟩, rfl⟩, hI3', hsys3⟩
                  · simp only [List.length_take]; omega
                  · intro a ha
                    simp only [List.mem_range'_1, List.length_take] at ha
                    simp only
                    omega
end NfcVerif.Adv
