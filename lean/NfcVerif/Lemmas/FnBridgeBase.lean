import NfcVerif.PyFn
/-!
Lemmas about the prelude `PyFn.lean` used by the bridge theorems `Props/FnBridge*.lean`:
the Python integer operators on non-negative arguments are the `Nat` operators, byte-string
indexing/slicing in terms of `List` functions.
-/
namespace NfcVerif.PyFn
open NfcVerif

/-! ## integer operators on naturals -/
theorem band_ofNat (a b : Nat) : band (a : Int) (b : Int) = ((a &&& b : Nat) : Int) := rfl
theorem bor_ofNat (a b : Nat) : bor (a : Int) (b : Int) = ((a ||| b : Nat) : Int) := rfl
theorem bxor_ofNat (a b : Nat) : bxor (a : Int) (b : Int) = ((a ^^^ b : Nat) : Int) := rfl
theorem shr_ofNat (a n : Nat) : shr (a : Int) (n : Int) = ((a >>> n : Nat) : Int) := by
  simp [shr]
theorem shl_ofNat (a n : Nat) : shl (a : Int) (n : Int) = ((a <<< n : Nat) : Int) := by
  simp [shl, Nat.shiftLeft_eq]
theorem pow_ofNat (a n : Nat) : pow (a : Int) (n : Int) = ((a ^ n : Nat) : Int) := by
  simp [pow]
theorem bnot_ofNat (n : Nat) : bnot (n : Int) = Int.negSucc n := by
  unfold bnot; omega

theorem ldiff_mask (k n : Nat) : ldiff (2 ^ k - 1) n = 2 ^ k - 1 - n % 2 ^ k := by
  apply Nat.eq_of_testBit_eq
  intro i
  have hlt : n % 2 ^ k < 2 ^ k := Nat.mod_lt _ (Nat.two_pow_pos k)
  have e : 2 ^ k - 1 - n % 2 ^ k = 2 ^ k - (n % 2 ^ k + 1) := by omega
  rw [e, Nat.testBit_two_pow_sub_succ hlt]
  unfold ldiff
  rw [Nat.testBit_bitwise (by rfl), Nat.testBit_two_pow_sub_one, Nat.testBit_mod_two_pow]
  by_cases h : i < k <;> simp [h]

/-- `~n & (2^k - 1)` -/
theorem band_bnot_mask (k n : Nat) :
    band (bnot (n : Int)) ((2 ^ k - 1 : Nat) : Int) = ((2 ^ k - 1 - n % 2 ^ k : Nat) : Int) := by
  rw [bnot_ofNat]
  show Int.ofNat (ldiff (2 ^ k - 1) n) = _
  rw [ldiff_mask]; rfl

/-! ## comparisons between a cast natural and an integer literal -/
theorem cast_eq_lit (a n : Nat) : ((a : Int) = (no_index (OfNat.ofNat n) : Int)) ↔ a = OfNat.ofNat n := by
  show (a : Int) = ((n : Nat) : Int) ↔ a = n; omega
theorem lit_eq_cast (a n : Nat) : ((no_index (OfNat.ofNat n) : Int) = (a : Int)) ↔ OfNat.ofNat n = a := by
  show ((n : Nat) : Int) = (a : Int) ↔ n = a; omega
theorem cast_lt_lit (a n : Nat) : ((a : Int) < (no_index (OfNat.ofNat n) : Int)) ↔ a < OfNat.ofNat n := by
  show (a : Int) < ((n : Nat) : Int) ↔ a < n; omega
theorem lit_lt_cast (a n : Nat) : ((no_index (OfNat.ofNat n) : Int) < (a : Int)) ↔ OfNat.ofNat n < a := by
  show ((n : Nat) : Int) < (a : Int) ↔ n < a; omega
theorem cast_le_lit (a n : Nat) : ((a : Int) ≤ (no_index (OfNat.ofNat n) : Int)) ↔ a ≤ OfNat.ofNat n := by
  show (a : Int) ≤ ((n : Nat) : Int) ↔ a ≤ n; omega
theorem lit_le_cast (a n : Nat) : ((no_index (OfNat.ofNat n) : Int) ≤ (a : Int)) ↔ OfNat.ofNat n ≤ a := by
  show ((n : Nat) : Int) ≤ (a : Int) ↔ n ≤ a; omega

/-! ## byte strings -/
theorem len_eq {α} (l : List α) : len l = (l.length : Int) := rfl

theorem isBytes_cons {a : Nat} {l : Bytes} : IsBytes (a :: l) ↔ a < 256 ∧ IsBytes l := by
  simp [IsBytes]
theorem isBytes_append {a b : Bytes} : IsBytes (a ++ b) ↔ IsBytes a ∧ IsBytes b := by
  simp only [IsBytes, List.mem_append]
  constructor
  · intro h; exact ⟨fun x hx => h x (Or.inl hx), fun x hx => h x (Or.inr hx)⟩
  · rintro ⟨h1, h2⟩ x (hx | hx); exact h1 x hx; exact h2 x hx
theorem isBytes_take {l : Bytes} (h : IsBytes l) (n : Nat) : IsBytes (l.take n) :=
  fun b hb => h b (List.mem_of_mem_take hb)
theorem isBytes_drop {l : Bytes} (h : IsBytes l) (n : Nat) : IsBytes (l.drop n) :=
  fun b hb => h b (List.mem_of_mem_drop hb)

/-- `data[i]` for a natural index -/
theorem getB_ofNat (l : Bytes) (i : Nat) :
    getB l (i : Int) = match l[i]? with | some b => .ok (b : Int) | none => .error .index := by
  unfold getB idx
  have h0 : ¬ ((i : Int) < 0) := by omega
  simp only [h0, if_false, false_or]
  by_cases h : i < l.length
  · have h1 : ¬ ((i : Int) ≥ (l.length : Int)) := by omega
    rw [if_neg h1, Int.toNat_natCast, List.getElem?_eq_getElem h]
  · have h1 : ((i : Int) ≥ (l.length : Int)) := by omega
    rw [if_pos h1, List.getElem?_eq_none (by omega)]

/-- `data[-k]` -/
theorem getB_neg (l : Bytes) (k : Nat) (hk : 0 < k) :
    getB l (-(k : Int)) = if k ≤ l.length then
      (match l[l.length - k]? with | some b => .ok (b : Int) | none => .error .index) else .error .index := by
  unfold getB idx
  have h0 : (-(k : Int) < 0) := by omega
  simp only [h0, if_true]
  by_cases h : k ≤ l.length
  · have h1 : ¬ (-(k : Int) + (l.length : Int) < 0 ∨ -(k : Int) + (l.length : Int) ≥ (l.length : Int)) := by omega
    have h2 : (-(k : Int) + (l.length : Int)).toNat = l.length - k := by omega
    have h3 : l.length - k < l.length := by omega
    rw [if_neg h1, h2, if_pos h, List.getElem?_eq_getElem h3]
  · have h1 : (-(k : Int) + (l.length : Int) < 0 ∨ -(k : Int) + (l.length : Int) ≥ (l.length : Int)) := by omega
    rw [if_pos h1, if_neg h]

theorem getB_nil (i : Int) : getB [] i = .error .index := by
  unfold getB idx; simp

theorem getB_zero (a : Nat) (l : Bytes) : getB (a :: l) 0 = .ok (a : Int) := by
  have := getB_ofNat (a :: l) 0; simpa using this
theorem getB_succ (a : Nat) (l : Bytes) (n : Nat) : getB (a :: l) ((n + 1 : Nat) : Int) = getB l (n : Int) := by
  rw [getB_ofNat, getB_ofNat]; simp
theorem getB_one (a : Nat) (l : Bytes) : getB (a :: l) 1 = getB l 0 := getB_succ a l 0
theorem getB_two (a : Nat) (l : Bytes) : getB (a :: l) 2 = getB l 1 := getB_succ a l 1
theorem getB_three (a : Nat) (l : Bytes) : getB (a :: l) 3 = getB l 2 := getB_succ a l 2

theorem clampBound_ofNat (n i : Nat) : clampBound n (i : Int) = min i n := by
  unfold clampBound
  have h0 : ¬ ((i : Int) < 0) := by omega
  simp only [h0, if_false]
  by_cases h : i ≤ n
  · have : ¬ ((i : Int) > (n : Int)) := by omega
    simp [this]; omega
  · have : ((i : Int) > (n : Int)) := by omega
    simp [this]; omega

theorem sliceTo_ofNat {α} (l : List α) (i : Nat) : sliceTo l (i : Int) = l.take i := by
  unfold sliceTo; rw [clampBound_ofNat]
  by_cases h : i ≤ l.length
  · rw [Nat.min_eq_left h]
  · rw [Nat.min_eq_right (by omega), List.take_of_length_le (Nat.le_refl _), List.take_of_length_le (by omega)]

theorem sliceFrom_ofNat {α} (l : List α) (i : Nat) : sliceFrom l (i : Int) = l.drop i := by
  unfold sliceFrom; rw [clampBound_ofNat]
  by_cases h : i ≤ l.length
  · rw [Nat.min_eq_left h]
  · rw [Nat.min_eq_right (by omega), List.drop_of_length_le (Nat.le_refl _), List.drop_of_length_le (by omega)]

theorem sliceTo_len {α} (l : List α) : sliceTo l (len l) = l := by
  rw [len_eq, sliceTo_ofNat, List.take_length]

/-- `data[:len(data)-k]` -/
theorem sliceTo_len_sub {α} (l : List α) (k : Nat) (h : k ≤ l.length) :
    sliceTo l (len l - (k : Int)) = l.take (l.length - k) := by
  have : len l - (k : Int) = ((l.length - k : Nat) : Int) := by rw [len_eq]; omega
  rw [this, sliceTo_ofNat]

theorem mkBytes_two (a b : Nat) (ha : a < 256) (hb : b < 256) :
    mkBytes [(a : Int), (b : Int)] = .ok [a, b] := by
  have h1 : ¬ ((a : Int) < 0 ∨ (a : Int) > 255) := by omega
  have h2 : ¬ ((b : Int) < 0 ∨ (b : Int) > 255) := by omega
  simp [mkBytes, h1, h2]

theorem pack_B (n : Nat) : PyFn.pack [.B] [(n : Int)] = if n > 255 then .error .struct else .ok [n] := by
  unfold PyFn.pack PyFn.packField
  by_cases h : n > 255
  · have : ((n : Int) < 0 ∨ (n : Int) ≥ 256 ^ Fmt.B.size) := by simp [Fmt.size]; omega
    simp [this, h]
  · have : ¬ ((n : Int) < 0 ∨ (n : Int) ≥ 256 ^ Fmt.B.size) := by simp [Fmt.size]; omega
    simp [this, h, PyFn.pack]

theorem ints_cons (a : Nat) (l : Bytes) : ints (a :: l) = (a : Int) :: ints l := rfl
theorem ints_nil : ints [] = [] := rfl

/-! ## struct -/
/-- octet `i` of a byte string, 0 behind its end (only used under a length guard) -/
def at0 (d : Bytes) (i : Nat) : Nat := (d[i]?).getD 0
theorem at0_lt {d : Bytes} {i : Nat} (h : i < d.length) : at0 d i = d[i] := by
  simp [at0, List.getElem?_eq_getElem h]
theorem at0_ge {d : Bytes} {i : Nat} (h : d.length ≤ i) : at0 d i = 0 := by
  simp [at0, List.getElem?_eq_none h]
theorem at0_cons_zero (a : Nat) (l : Bytes) : at0 (a :: l) 0 = a := rfl
theorem at0_cons_succ (a : Nat) (l : Bytes) (i : Nat) : at0 (a :: l) (i + 1) = at0 l i := by simp [at0]
theorem at0_lt_256 {d : Bytes} (h : IsBytes d) (i : Nat) : at0 d i < 256 := by
  by_cases hi : i < d.length
  · rw [at0_lt hi]; exact h _ (List.getElem_mem hi)
  · rw [at0_ge (by omega)]; omega

theorem needFrom_nat (d : Bytes) (off k : Nat) :
    needFrom d (off : Int) (k : Int) = if off + k ≤ d.length then .ok (off : Int) else .error .struct := by
  unfold needFrom len
  have h0 : ¬ ((off : Int) < 0) := by omega
  simp only [h0, if_false, false_or]
  split <;> split <;> first | rfl | (exfalso; omega)

theorem needExact_nat (d : Bytes) (k : Nat) :
    needExact d (k : Int) = if d.length = k then .ok () else .error .struct := by
  unfold needExact len
  split <;> split <;> first | rfl | (exfalso; omega)

theorem ube_one (d : Bytes) (off : Nat) : ube d (off : Int) 1 = ((at0 d off : Nat) : Int) := by
  unfold ube
  rw [Int.toNat_natCast]
  congr 1
  by_cases h : off < d.length
  · rw [at0_lt h]
    have : (d.drop off).take 1 = [d[off]] := by
      rw [List.drop_eq_getElem_cons h, List.take_succ_cons, List.take_zero]
    rw [this]; simp [beNat]
  · rw [List.drop_of_length_le (by omega), at0_ge (by omega)]; rfl

/-- under the guard `off + 2 ≤ length` -/
theorem ube_two (d : Bytes) (off : Nat) (h : off + 2 ≤ d.length) :
    ube d (off : Int) 2 = ((at0 d off * 256 + at0 d (off + 1) : Nat) : Int) := by
  unfold ube
  rw [Int.toNat_natCast]
  congr 1
  have h0 : off < d.length := by omega
  have h1 : off + 1 < d.length := by omega
  rw [at0_lt h0, at0_lt h1]
  have : (d.drop off).take 2 = [d[off], d[off + 1]] := by
    rw [List.drop_eq_getElem_cons h0, List.drop_eq_getElem_cons h1, List.take_succ_cons, List.take_succ_cons, List.take_zero]
  rw [this]; simp [beNat]

theorem sub_nat (d : Bytes) (off n : Nat) : PyFn.sub d (off : Int) (n : Int) = (d.drop off).take n := by
  unfold PyFn.sub; simp

theorem unpackB_eq (d : Bytes) (off : Nat) :
    unpackB d off = if off + 1 ≤ d.length then .ok (at0 d off) else .error .struct := by
  unfold unpackB at0
  by_cases h : off < d.length
  · simp [List.getElem?_eq_getElem h, show off + 1 ≤ d.length from h]
  · simp [List.getElem?_eq_none (by omega : d.length ≤ off), show ¬ off + 1 ≤ d.length by omega]

theorem unpackBB_eq (d : Bytes) (off : Nat) :
    unpackBB d off = if off + 2 ≤ d.length then .ok (at0 d off, at0 d (off + 1)) else .error .struct := by
  unfold unpackBB at0
  by_cases h : off + 1 < d.length
  · have h0 : off < d.length := by omega
    simp [List.getElem?_eq_getElem h, List.getElem?_eq_getElem h0, show off + 2 ≤ d.length from h]
  · have : ¬ off + 2 ≤ d.length := by omega
    simp only [this, if_false]
    rw [List.getElem?_eq_none (by omega : d.length ≤ off + 1)]
    split <;> simp_all

theorem unpackH_eq (d : Bytes) (off : Nat) :
    unpackH d off = if off + 2 ≤ d.length then .ok (at0 d off * 256 + at0 d (off + 1)) else .error .struct := by
  unfold unpackH at0
  by_cases h : off + 1 < d.length
  · have h0 : off < d.length := by omega
    simp [List.getElem?_eq_getElem h, List.getElem?_eq_getElem h0, show off + 2 ≤ d.length from h]
  · have : ¬ off + 2 ≤ d.length := by omega
    simp only [this, if_false]
    rw [List.getElem?_eq_none (by omega : d.length ≤ off + 1)]
    split <;> simp_all

/-! ## masks and shifts by literals -/
theorem and1 (x : Nat) : x &&& 1 = x % 2 := Nat.and_two_pow_sub_one_eq_mod x 1
theorem and3 (x : Nat) : x &&& 3 = x % 4 := Nat.and_two_pow_sub_one_eq_mod x 2
theorem and7 (x : Nat) : x &&& 7 = x % 8 := Nat.and_two_pow_sub_one_eq_mod x 3
theorem and15 (x : Nat) : x &&& 15 = x % 16 := Nat.and_two_pow_sub_one_eq_mod x 4
theorem and31 (x : Nat) : x &&& 31 = x % 32 := Nat.and_two_pow_sub_one_eq_mod x 5
theorem and63 (x : Nat) : x &&& 63 = x % 64 := Nat.and_two_pow_sub_one_eq_mod x 6
theorem and127 (x : Nat) : x &&& 127 = x % 128 := Nat.and_two_pow_sub_one_eq_mod x 7
theorem and255 (x : Nat) : x &&& 255 = x % 256 := Nat.and_two_pow_sub_one_eq_mod x 8
theorem and2047 (x : Nat) : x &&& 2047 = x % 2048 := Nat.and_two_pow_sub_one_eq_mod x 11
theorem and65535 (x : Nat) : x &&& 65535 = x % 65536 := Nat.and_two_pow_sub_one_eq_mod x 16

theorem and_high (x k m : Nat) (hx : x < 2 ^ (k + m)) : x &&& ((2 ^ m - 1) <<< k) = (x >>> k) <<< k := by
  apply Nat.eq_of_testBit_eq
  intro i
  rw [Nat.testBit_and, Nat.testBit_shiftLeft, Nat.testBit_shiftLeft, Nat.testBit_two_pow_sub_one, Nat.testBit_shiftRight]
  by_cases h1 : i ≥ k
  · have e : k + (i - k) = i := by omega
    simp only [h1, decide_true, Bool.true_and, e]
    by_cases h2 : i - k < m
    · simp [h2]
    · have : x.testBit i = false := Nat.testBit_lt_two_pow (Nat.lt_of_lt_of_le hx (Nat.pow_le_pow_right (by omega) (by omega)))
      simp [h2, this]
  · simp [h1]

/-- `v & HIGH != 0 ? v & LOW : v` is `v % 2^k` when `v < 2^(k+m)`, `HIGH = (2^m-1) << k`, `LOW = 2^k-1` -/
theorem mask_reserved (x k m : Nat) (hx : x < 2 ^ (k + m)) :
    (if x &&& ((2 ^ m - 1) <<< k) ≠ 0 then x &&& (2 ^ k - 1) else x) = x % 2 ^ k := by
  rw [and_high x k m hx, Nat.and_two_pow_sub_one_eq_mod, Nat.shiftRight_eq_div_pow, Nat.shiftLeft_eq]
  have hp : 0 < 2 ^ k := Nat.two_pow_pos k
  split
  · rfl
  · rename_i h
    have : x / 2 ^ k = 0 := by
      rcases Nat.eq_zero_or_pos (x / 2 ^ k) with h0 | h0
      · exact h0
      · exfalso; apply h; exact Nat.ne_of_gt (Nat.mul_pos h0 hp)
    have := (Nat.div_eq_zero_iff_lt hp).mp this
    exact (Nat.mod_eq_of_lt this).symm

theorem lit_cast (n : Nat) : (no_index (OfNat.ofNat n) : Int) = ((OfNat.ofNat n : Nat) : Int) := rfl

/-- push the comparisons of the generated code (on `Int`) down to `Nat`: integer literals become casts
of natural literals, casts are pulled out of sums and products, comparisons of casts are dropped -/
macro "py_cast" : tactic => `(tactic| simp only [len_eq, lit_cast, ← Int.natCast_add, ← Int.natCast_mul, Int.ofNat_lt,
  Int.ofNat_le, Int.natCast_inj, ge_iff_le, gt_iff_lt, ne_eq, Py.bind_ok, Py.bind_error])

/-- finishing tactic for goals that are equalities of `if` chains over arithmetic conditions:
split every `if`/`match`, close contradictory branches with `omega`, the others by `rfl`/`simp` -/
syntax "py_fin" ("[" Lean.Parser.Tactic.simpLemma,* "]")? : tactic
macro_rules
  | `(tactic| py_fin) => `(tactic| py_fin [])
  | `(tactic| py_fin [$ts,*]) => `(tactic| (
      try py_cast
      repeat' split
      all_goals first | rfl | (exfalso; omega) | (simp [$ts,*, *]; done) | (subst_vars; simp [$ts,*]; done) | (simp [$ts,*, *] <;> omega) | (simp_all [$ts,*]; done) | skip))

/-- rewrite the integer operators of the generated code on cast naturals into `Nat` arithmetic -/
macro "py_bits" : tactic => `(tactic| simp only [lit_cast, ← Int.natCast_add, ← Int.natCast_mul, needFrom_nat, needExact_nat,
  ube_one, sub_nat, shr_ofNat, shl_ofNat, band_ofNat, bor_ofNat, bxor_ofNat, pow_ofNat, Nat.shiftRight_eq_div_pow,
  Nat.shiftLeft_eq, and1, and3, and7, and15, and31, and63, and127, and255, and2047, and65535, Int.ofNat_lt, Int.ofNat_le,
  Int.natCast_inj, ge_iff_le, gt_iff_lt, ne_eq, len_eq, Py.bind_ok, Py.bind_error, Py.pure_eq, Py.throw_eq])

end NfcVerif.PyFn
