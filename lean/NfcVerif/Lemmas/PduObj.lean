import NfcVerif.Model.PduObj
import NfcVerif.Lemmas.PduRound
/-!
# PDU objects: histories of assignments and observations (C11)

* observers leave the fields alone, so the state after a history is the state after its mutations (`final_filter`);
* the reply at any point of a history is `reply` at the fields of that point (`run_at`);
* an in-range assignment / append keeps a PDU valid (`assignS_valid`, `apply_valid`, `final_valid`);
* hence the round trip, the length and `==` hold at every point of every history whose fields are valid
  (`history_roundtrip`);
* `==` (comparison of encodings) is field equality on valid PDUs (`pduEq_iff`);
* the PAX property setters produce valid parameters and the getters read back what was set (`pax_*`).
-/
namespace NfcVerif.Pdu
open NfcVerif

namespace Obj

/-! ## histories -/

theorem apply_observer (p : Pdu) (o : Op) (h : o.mutates = false) : apply p o = p := by
  cases o <;> simp [Op.mutates] at h <;> rfl

theorem final_nil (p : Pdu) : final p [] = p := rfl

theorem final_cons (p : Pdu) (o : Op) (os : List Op) : final p (o :: os) = final (apply p o) os := rfl

theorem final_append (p : Pdu) (a b : List Op) : final p (a ++ b) = final (final p a) b := by
  simp [final, List.foldl_append]

/-- the fields after a history are the fields after the assignments / appends of that history alone:
`encode`, `len`, `encode_header`, `==`, `str`, property and field reads have no influence -/
theorem final_filter (p : Pdu) (ops : List Op) : final p ops = final p (ops.filter Op.mutates) := by
  induction ops generalizing p with
  | nil => rfl
  | cons o os ih =>
    cases hm : o.mutates with
    | true => simp only [List.filter_cons, hm, if_true, final_cons]; exact ih _
    | false =>
      simp only [List.filter_cons, hm, final_cons, apply_observer p o hm]
      exact ih p

theorem run_append (p : Pdu) (a b : List Op) : run p (a ++ b) = run p a ++ run (final p a) b := by
  induction a generalizing p with
  | nil => rfl
  | cons o os ih => simp only [List.cons_append, run, final_cons, ih]

theorem run_length (p : Pdu) (ops : List Op) : (run p ops).length = ops.length := by
  induction ops generalizing p with
  | nil => rfl
  | cons o os ih => simp [run, ih]

/-- what an operation returns after a history `pre` is `reply` at the fields after `pre` -/
theorem run_at (p : Pdu) (pre : List Op) (o : Op) (post : List Op) :
    (run p (pre ++ o :: post))[pre.length]? = some (reply (final p pre) o) := by
  rw [run_append]
  have h : pre.length = (run p pre).length := (run_length p pre).symm
  rw [h, List.getElem?_append_right (Nat.le_refl _)]
  simp [run]

/-! ## `==` -/

theorem pduEq_of_encode {p q : Pdu} {a b : Bytes} (hp : Impl.encode p = .ok a) (hq : Impl.encode q = .ok b) :
    pduEq p q = .ok (a == b) := by
  simp [pduEq, hp, hq]

/-- on valid PDUs the library's `==` (equal encodings) is equality of the field values, and it does not raise -/
theorem pduEq_iff (p q : Pdu) (hp : Valid p) (hq : Valid q) :
    ∃ r, pduEq p q = .ok r ∧ (r = true ↔ p = q) := by
  obtain ⟨a, ea, da⟩ := Impl.roundtrip p hp
  obtain ⟨b, eb, db⟩ := Impl.roundtrip q hq
  refine ⟨a == b, pduEq_of_encode ea eb, ?_⟩
  constructor
  · intro h
    have hab : a = b := by simpa using h
    subst hab
    rw [da] at db
    cases db
    rfl
  · intro h
    subst h
    rw [ea] at eb
    cases eb
    simp

/-- the encoder is injective on valid PDUs -/
theorem encode_injective (p q : Pdu) (hp : Valid p) (hq : Valid q) (h : Impl.encode p = Impl.encode q) : p = q := by
  obtain ⟨a, ea, da⟩ := Impl.roundtrip p hp
  obtain ⟨b, eb, db⟩ := Impl.roundtrip q hq
  rw [ea, eb] at h
  cases h
  rw [da] at db
  cases db
  rfl

/-! ## the round trip at any point of a history -/

/-- At the fields `q` reached by any history: if `q` is valid then `encode` succeeds, decoding the encoding
gives `q`, `len` is the length of the encoding and `q == q` holds. -/
theorem reply_roundtrip (q : Pdu) (hv : Valid q) :
    ∃ b, reply q .enc = .bytes (.ok b) ∧ Impl.decode b = .ok q ∧ reply q .len = .nat b.length ∧
      reply q (.eq q) = .bool (.ok true) := by
  obtain ⟨b, he, hd⟩ := Impl.roundtrip q hv
  refine ⟨b, by simp [reply, he], hd, by simp [reply, Impl.len_eq he], ?_⟩
  simp [reply, pduEq_of_encode he he]

theorem history_roundtrip (p : Pdu) (pre post : List Op) (hv : Valid (final p pre)) :
    ∃ b, (run p (pre ++ .enc :: .len :: post))[pre.length]? = some (.bytes (.ok b)) ∧
      (run p (pre ++ .enc :: .len :: post))[pre.length + 1]? = some (.nat b.length) ∧
      Impl.decode b = .ok (final p pre) ∧
      final p pre = final p (pre.filter Op.mutates) := by
  obtain ⟨b, h1, h2, h3, _⟩ := reply_roundtrip (final p pre) hv
  refine ⟨b, ?_, ?_, h2, final_filter p pre⟩
  · rw [run_at, h1]
  · have := run_at p (pre ++ [.enc]) .len post
    simp only [List.append_assoc, List.cons_append, List.nil_append, List.length_append, List.length_cons,
      List.length_nil, Nat.zero_add] at this
    rw [this, final_append]
    simp only [final, List.foldl_cons, List.foldl_nil]
    rw [apply_observer _ .enc rfl]
    exact congrArg some h3

/-! ## assignments that keep a PDU valid -/

/-- the value is in the range of the attribute (independent of the class) -/
def AsgOk : Asg → Prop
  | .n .dsap v | .n .ssap v => v ≤ 63
  | .n .ns v | .n .nr v | .n .rw v | .n .rejFlags v | .n .rejPtype v | .n .vs v | .n .vr v | .n .vsa v
  | .n .vra v => v ≤ 15
  | .n .miu v => 128 ≤ v ∧ v ≤ 128 + 0x7FF
  | .n .reason v => v ≤ 255
  | .n .wks _ | .n .lto _ | .n .lsc _ | .n .dpc _ => True       -- the PAX setters mask the value
  | .n .ptype v => v = 11 ∨ v = 15
  | .o .version v | .o .lto v => ∀ x, v = some x → x ≤ 255
  | .o .miux v => ∀ x, v = some x → x ≤ 0x7FF
  | .o .wks v => ∀ x, v = some x → x ≤ 0xFFFF
  | .o .opt v => ∀ x, v = some x → x ≤ 7
  | .b _ _ => True
  | .ob _ v => ∀ x, v = some x → x ≠ [] ∧ x.length ≤ 255
  | .version _ _ => True
  | .sdreq l => ∀ x ∈ l, x.1 ≤ 255 ∧ x.2.length ≤ 254
  | .sdres l => ∀ x ∈ l, x.1 ≤ 255 ∧ x.2 ≤ 255
  | .sdreqAppend x => x.1 ≤ 255 ∧ x.2.length ≤ 254
  | .sdresAppend x => x.1 ≤ 255 ∧ x.2 ≤ 255

/-- classes whose SAPs are not fixed by the format -/
def freeSap : SPdu → Bool
  | .symm .. | .pax .. | .snl .. | .dps .. => false
  | _ => true

/-- an assignment to `dsap` / `ssap` of SYMM, PAX, SNL, DPS must keep the fixed value -/
def SapOk : Asg → SPdu → Prop
  | .n .dsap v, p => freeSap p = true ∨ v = p.dsap
  | .n .ssap v, p => freeSap p = true ∨ v = p.ssap
  | _, _ => True

theorem assignS_valid (a : Asg) (p : SPdu) (hv : ValidS p) (ha : AsgOk a) (hs : SapOk a p) :
    ValidS (assignS a p) := by
  cases a with
  | n att v =>
    cases att <;> cases p <;>
      simp only [assignS, assignN, setDsap, setSsap, ValidS, AsgOk, SapOk, freeSap, SPdu.dsap, SPdu.ssap,
        Bool.false_eq_true, false_or, true_or] at hv ha hs ⊢ <;>
      first
        | exact hv
        | grind
        | skip
    all_goals
      (rename_i opt
       cases opt <;> simp only [Option.getD_none, Option.getD_some] at hv ⊢ <;> grind)
  | o att v =>
    cases att <;> cases p <;> simp only [assignS, assignO, ValidS, AsgOk] at * <;>
      first
        | exact hv
        | (obtain ⟨h1, h2, h3, h4, h5, h6, h7⟩ := hv; exact ⟨h1, h2, by assumption, by assumption, by assumption, by assumption, by assumption⟩)
  | b att v =>
    cases att <;> cases p <;> simp only [assignS, assignB, ValidS] at * <;> exact hv
  | ob att v =>
    cases att <;> cases p <;> simp only [assignS, assignOB, ValidS, AsgOk] at * <;>
      first
        | exact hv
        | (obtain ⟨h1, h2, h3, h4, h5, h6⟩ := hv; exact ⟨h1, h2, h3, h4, h5, ha⟩)
        | (obtain ⟨h1, h2, h3, h4⟩ := hv; first | exact ⟨h1, h2, ha, h4⟩ | exact ⟨h1, h2, h3, ha⟩)
  | version a b =>
    cases p <;> simp only [assignS, ValidS] at * <;>
      first
        | exact hv
        | (obtain ⟨h1, h2, h3, h4, h5, h6, h7⟩ := hv
           exact ⟨h1, h2, by intro x hx; cases hx; omega, h4, h5, h6, h7⟩)
  | sdreq l =>
    cases p <;> simp only [assignS, ValidS, AsgOk] at * <;>
      first
        | exact hv
        | (obtain ⟨h1, h2, h3, h4⟩ := hv; exact ⟨h1, h2, ha, h4⟩)
  | sdres l =>
    cases p <;> simp only [assignS, ValidS, AsgOk] at * <;>
      first
        | exact hv
        | (obtain ⟨h1, h2, h3, h4⟩ := hv; exact ⟨h1, h2, h3, ha⟩)
  | sdreqAppend x =>
    cases p <;> simp only [assignS, ValidS, AsgOk] at * <;>
      first
        | exact hv
        | (obtain ⟨h1, h2, h3, h4⟩ := hv
           refine ⟨h1, h2, ?_, h4⟩
           intro y hy
           rcases List.mem_append.mp hy with h | h
           · exact h3 y h
           · simp only [List.mem_singleton] at h; subst h; exact ha)
  | sdresAppend x =>
    cases p <;> simp only [assignS, ValidS, AsgOk] at * <;>
      first
        | exact hv
        | (obtain ⟨h1, h2, h3, h4⟩ := hv
           refine ⟨h1, h2, h3, ?_⟩
           intro y hy
           rcases List.mem_append.mp hy with h | h
           · exact h4 y h
           · simp only [List.mem_singleton] at h; subst h; exact ha)

/-! ## operations that keep an object valid -/

/-- the operation is in range at the fields `p`: an in-range assignment (fixed SAPs kept), the append of a valid
PDU of at most 65535 octets, an in-range assignment to an aggregated PDU that keeps it within 65535 octets;
every observer -/
def OpOk (p : Pdu) : Op → Prop
  | .set a => match p with
    | .simple q => AsgOk a ∧ SapOk a q
    | .agf _ _ _ => match a with
      | .n .dsap v => v = 0
      | .n .ssap v => v = 0
      | _ => True
  | .append q => ValidS q ∧ Impl.lenS q ≤ 65535
  | .setItem i a => match p with
    | .agf _ _ items => ∀ q, items[i]? = some q → AsgOk a ∧ SapOk a q ∧ Impl.lenS (assignS a q) ≤ 65535
    | _ => True
  | _ => True

theorem mem_setAt (i : Nat) (a : Asg) (items : List SPdu) (x : SPdu) (h : x ∈ setAt i a items) :
    x ∈ items ∨ ∃ q, items[i]? = some q ∧ x = assignS a q := by
  induction items generalizing i with
  | nil => simp [setAt] at h
  | cons q qs ih =>
    cases i with
    | zero =>
      simp only [setAt, List.mem_cons] at h
      rcases h with h | h
      · exact .inr ⟨q, by simp, h⟩
      · exact .inl (List.mem_cons_of_mem _ h)
    | succ i =>
      simp only [setAt, List.mem_cons] at h
      rcases h with h | h
      · exact .inl (by simp [h])
      · rcases ih i h with h' | ⟨q', h1, h2⟩
        · exact .inl (List.mem_cons_of_mem _ h')
        · exact .inr ⟨q', by simpa using h1, h2⟩

theorem apply_valid (p : Pdu) (o : Op) (hv : Valid p) (ho : OpOk p o) : Valid (apply p o) := by
  cases o with
  | set a =>
    cases p with
    | simple q => exact assignS_valid a q hv ho.1 ho.2
    | agf d s items =>
      obtain ⟨h1, h2, h3⟩ := hv
      cases a with
      | n att v =>
        cases att <;> simp only [apply, OpOk, Valid] at ho ⊢ <;> first | exact ⟨ho, h2, h3⟩ | exact ⟨h1, ho, h3⟩ | exact ⟨h1, h2, h3⟩
      | _ => exact ⟨h1, h2, h3⟩
  | append q =>
    cases p with
    | simple q' => exact hv
    | agf d s items =>
      obtain ⟨h1, h2, h3⟩ := hv
      refine ⟨h1, h2, ?_⟩
      intro x hx
      rcases List.mem_append.mp hx with h | h
      · exact h3 x h
      · simp only [List.mem_singleton] at h; subst h; exact ho
  | setItem i a =>
    cases p with
    | simple q' => exact hv
    | agf d s items =>
      obtain ⟨h1, h2, h3⟩ := hv
      refine ⟨h1, h2, ?_⟩
      intro x hx
      rcases mem_setAt i a items x hx with h | ⟨q, hq, hx'⟩
      · exact h3 x h
      · obtain ⟨c1, c2, c3⟩ := ho q hq
        subst hx'
        exact ⟨assignS_valid a q (h3 q (List.mem_of_getElem? hq)).1 c1 c2, c3⟩
  | enc => exact hv
  | len => exact hv
  | hdr => exact hv
  | eq q => exact hv
  | get g => exact hv
  | state => exact hv
  | str => exact hv

/-- every operation of the history is in range at the fields it meets -/
def HistOk : Pdu → List Op → Prop
  | _, [] => True
  | p, o :: os => OpOk p o ∧ HistOk (apply p o) os

theorem final_valid (p : Pdu) (ops : List Op) (hv : Valid p) (hh : HistOk p ops) : Valid (final p ops) := by
  induction ops generalizing p with
  | nil => exact hv
  | cons o os ih => exact ih _ (apply_valid p o hv hh.1) hh.2

/-- a valid object stays valid under in-range operations, so after such a history - with any observations in
between - `encode` succeeds, decoding it returns the current fields, and `len` is the length of the encoding -/
theorem valid_history_roundtrip (p : Pdu) (pre post : List Op) (hv : Valid p) (hh : HistOk p pre) :
    ∃ b, (run p (pre ++ .enc :: .len :: post))[pre.length]? = some (.bytes (.ok b)) ∧
      (run p (pre ++ .enc :: .len :: post))[pre.length + 1]? = some (.nat b.length) ∧
      Impl.decode b = .ok (final p pre) ∧ Valid (final p pre) := by
  have hf := final_valid p pre hv hh
  obtain ⟨b, h1, h2, h3, _⟩ := history_roundtrip p pre post hf
  exact ⟨b, h1, h2, h3, hf⟩

/-! ## the PAX properties -/

/-- what the getters return after the setters (`p` any PAX PDU, any numbers assigned):
`lsc`/`dpc` share the OPT octet without disturbing each other, `lto` is stored in units of 10 ms modulo 256,
`wks` modulo 2^16, `miu` not below 128, `version` as two nibbles -/
theorem pax_set_get (d s : Nat) (a b c e f : Option Nat) (v x y : Nat) :
    paxGet .lsc (assignS (.n .lsc v) (.pax d s a b c e f)) = some (v % 4, 0) ∧
    paxGet .dpc (assignS (.n .lsc v) (.pax d s a b c e f)) = paxGet .dpc (.pax d s a b c e f) ∧
    paxGet .dpc (assignS (.n .dpc v) (.pax d s a b c e f)) = some (if v ≠ 0 then 1 else 0, 0) ∧
    paxGet .lsc (assignS (.n .dpc v) (.pax d s a b c e f)) = paxGet .lsc (.pax d s a b c e f) ∧
    paxGet .lto (assignS (.n .lto v) (.pax d s a b c e f)) = some (v / 10 % 256 * 10, 0) ∧
    paxGet .wks (assignS (.n .wks v) (.pax d s a b c e f)) = some (v % 65536, 0) ∧
    paxGet .miu (assignS (.n .miu v) (.pax d s a b c e f)) = some (max v 128, 0) ∧
    paxGet .version (assignS (.version x y) (.pax d s a b c e f)) = some (x % 16, y % 16) := by
  refine ⟨?_, ?_, ?_, ?_, ?_, ?_, ?_, ?_⟩
  · simp only [assignS, assignN, paxGet]; congr 2; omega
  · cases f <;> simp only [assignS, assignN, paxGet, Option.getD_none, Option.getD_some] <;> congr 2 <;> omega
  · simp only [assignS, assignN, paxGet]; congr 2; split <;> omega
  · cases f <;> simp only [assignS, assignN, paxGet, Option.getD_none, Option.getD_some] <;> congr 2 <;> split <;> omega
  · simp only [assignS, assignN, paxGet, Option.getD_some]
  · simp only [assignS, assignN, paxGet, Option.getD_some]
  · simp only [assignS, assignN, paxGet]; congr 2; omega
  · simp only [assignS, paxGet]; congr 2 <;> omega

/-- a link timeout given in milliseconds as a multiple of 10 up to 2550 is read back unchanged -/
theorem pax_lto_exact (d s : Nat) (a b c e f : Option Nat) (k : Nat) (hk : k ≤ 255) :
    paxGet .lto (assignS (.n .lto (10 * k)) (.pax d s a b c e f)) = some (10 * k, 0) := by
  simp only [assignS, assignN, paxGet, Option.getD_some]; congr 2; omega

/-- the property setters produce valid parameters for every number assigned (MIU up to 2175), so a PAX PDU filled
through them round-trips; this is `assignS_valid` for the PAX properties -/
theorem pax_setters_valid (p : SPdu) (hv : ValidS p) (v x y : Nat) :
    ValidS (assignS (.n .lsc v) p) ∧ ValidS (assignS (.n .dpc v) p) ∧ ValidS (assignS (.n .lto v) p) ∧
    ValidS (assignS (.n .wks v) p) ∧ ValidS (assignS (.version x y) p) :=
  ⟨assignS_valid _ p hv trivial trivial, assignS_valid _ p hv trivial trivial, assignS_valid _ p hv trivial trivial,
   assignS_valid _ p hv trivial trivial, assignS_valid _ p hv trivial trivial⟩

/-! ## `FrameReject.from_pdu` -/

/-- a subset of the flag letters "SRIW", each at most once (`tco` passes "W", "I" or "S") -/
def flagList (s r i w : Bool) : List Nat :=
  (if s then [0] else []) ++ (if r then [1] else []) ++ (if i then [2] else []) ++ (if w then [3] else [])

/-- the FRMR PDU built from a valid rejected PDU, any subset of the flags and counters modulo 16 is valid
(so it round-trips) -/
theorem frmrFromPdu_valid (p : SPdu) (hv : ValidS p) (s r i w : Bool) (vs vsa vr vra : Nat)
    (h1 : vs ≤ 15) (h2 : vsa ≤ 15) (h3 : vr ≤ 15) (h4 : vra ≤ 15) :
    ValidS (frmrFromPdu p (flagList s r i w) vs vsa vr vra) := by
  cases s <;> cases r <;> cases i <;> cases w <;> cases p <;>
    simp [frmrFromPdu, flagList, ValidS, SPdu.ssap, SPdu.dsap, SPdu.ptype] at hv ⊢ <;> omega

end Obj
end NfcVerif.Pdu
