import NfcVerif.Lemmas.AuthHist
/-!
# The reader methods against the stateful card: mutual authentication succeeds in EVERY card state

`Card.command` evaluated on the command frames the reader model sends, and the five exchanges of
`FelicaLiteS.authenticate` against a card that holds the key - whatever its write counter, its
challenge block, its external authentication status and its other blocks are, i.e. at every point
of every history.
-/
namespace NfcVerif.AuthCard
open NfcVerif NfcVerif.Mac NfcVerif.Auth NfcVerif.AuthHist NfcVerif.AuthHist.RW

theorem parseBlocks_blockList (blocks : List Nat) (rest : Bytes) :
    Card.parseBlocks blocks.length (blockList blocks ++ rest) = some (blocks, rest) := by
  induction blocks with
  | nil => rfl
  | cons b t ih =>
    simp only [blockList, List.flatMap_cons, List.length_cons] at ih ⊢
    simp only [List.cons_append, List.nil_append, Card.parseBlocks]
    simp [ih]

/-- a well-formed read command for `blocks` arrives at the card -/
theorem command_read (C : Cipher) (c : Card) (blocks : List Nat) (cmd : Bytes) (hidm : c.idm.length = 8)
    (h : readCmd c.idm blocks = .ok cmd) :
    c.command C cmd = (some (c.read C [0x0B, 0] blocks []), c) := by
  unfold readCmd t3Command at h
  simp only at h
  split at h
  · cases h
  · injection h with h
    subst h
    match hi : c.idm, hidm with
    | [i0, i1, i2, i3, i4, i5, i6, i7], _ =>
      have hp := parseBlocks_blockList blocks []
      simp only [List.append_nil] at hp
      simp [Card.command, hi, hp, blockList_length]
      rw [if_pos (by omega), if_neg (by omega)]

/-- a well-formed write command arrives at the card -/
theorem command_write (C : Cipher) (c : Card) (blocks : List Nat) (data cmd : Bytes) (hidm : c.idm.length = 8)
    (h : writeCmd c.idm blocks data = .ok cmd) :
    c.command C cmd = c.write C [0x09, 0] blocks data := by
  unfold writeCmd t3Command at h
  simp only at h
  split at h
  · cases h
  · injection h with h
    subst h
    match hi : c.idm, hidm with
    | [i0, i1, i2, i3, i4, i5, i6, i7], _ =>
      have hp := parseBlocks_blockList blocks data
      simp [Card.command, hi, hp, blockList_length]
      rw [if_pos (by omega), if_neg (by omega)]

/-- a Lite-S card that holds the key `key` (in the layout `protect` writes) and has the blocks a
mutual authentication touches; nothing is said about WCNT's value, RC, STATE, MC or the user blocks -/
structure Holds (c : Card) (idm key : Bytes) : Prop where
  liteS : c.liteS = true
  idm_eq : c.idm = idm
  idm_len : idm.length = 8
  key_len : key.length = 16
  ck : c.mem 0x87 = some (revHalves key)
  idb : ∃ b, c.mem 0x82 = some b ∧ b.length = 16 ∧ IsBytes b
  wb : ∃ b, c.mem 0x90 = some b ∧ b.length = 16 ∧ IsBytes b
  rcp : (c.mem 0x80).isSome = true
  stp : (c.mem 0x92).isSome = true

theorem blk_of_mem {c : Card} {n : Nat} {b : Bytes} (h : c.mem n = some b) : c.blk n = b := by
  simp [Card.blk, h]

theorem set_mem_same (c : Card) (n : Nat) (v : Bytes) : (c.set n v).mem n = some v := by simp [Card.set]
theorem set_mem_other (c : Card) (n k : Nat) (v : Bytes) (h : k ≠ n) : (c.set n v).mem k = c.mem k := by
  simp [Card.set, h]

/-- the WCNT block after one more accepted write -/
def bumped (c : Card) : Bytes :=
  [min (c.wcntVal + 1) 0xFFFFFF % 256, min (c.wcntVal + 1) 0xFFFFFF / 256 % 256, min (c.wcntVal + 1) 0xFFFFFF / 65536 % 256]
    ++ (c.blk 0x90).drop 3

theorem bump_eq (c : Card) (h : c.liteS = true) : c.bump = c.set 0x90 (bumped c) := by
  simp [Card.bump, h, bumped]

theorem bumped_wf (c : Card) (b : Bytes) (hm : c.mem 0x90 = some b) (hl : b.length = 16) (hb : IsBytes b) :
    (bumped c).length = 16 ∧ IsBytes (bumped c) := by
  unfold bumped
  rw [blk_of_mem hm]
  refine ⟨by simp [hl], ?_⟩
  intro v hv
  rcases List.mem_append.mp hv with h | h
  · simp only [List.mem_cons, List.not_mem_nil, or_false] at h
    rcases h with rfl | rfl | rfl <;> omega
  · exact hb v (List.mem_of_mem_drop h)

/-- the card after the challenge block was written -/
def afterRc (c : Card) (rcb : Bytes) : Card :=
  ({ (c.set 0x80 rcb) with rcWritten := true, extAuth := false } : Card).bump

theorem write_rc (c : Card) (idm key rcb : Bytes) (h : Holds c idm key) :
    c.writePlain 0x80 rcb = (some (writeOk idm), afterRc c rcb) := by
  have hp : c.present 0x80 = true := by simpa [Card.present] using h.rcp
  simp [Card.writePlain, hp, afterRc, Card.okRsp, writeOk, h.idm_eq]

theorem afterRc_holds (c : Card) (idm key rcb : Bytes) (h : Holds c idm key) :
    Holds (afterRc c rcb) idm key ∧ (afterRc c rcb).mem 0x80 = some rcb ∧ (afterRc c rcb).rcWritten = true
      ∧ (afterRc c rcb).mem 0x82 = c.mem 0x82 := by
  obtain ⟨wb, hwb, hwl, hwB⟩ := h.wb
  have hl : ({ (c.set 0x80 rcb) with rcWritten := true, extAuth := false } : Card).liteS = true := h.liteS
  have hwb' : ({ (c.set 0x80 rcb) with rcWritten := true, extAuth := false } : Card).mem 0x90 = some wb := by
    show (c.set 0x80 rcb).mem 0x90 = some wb
    rw [set_mem_other _ _ _ _ (by decide)]; exact hwb
  unfold afterRc
  rw [bump_eq _ hl]
  obtain ⟨bl, bB⟩ := bumped_wf _ wb hwb' hwl hwB
  refine ⟨⟨h.liteS, h.idm_eq, h.idm_len, h.key_len, ?_, ?_, ⟨_, set_mem_same _ _ _, bl, bB⟩, ?_, ?_⟩, ?_, rfl, ?_⟩
  · rw [set_mem_other _ _ _ _ (by decide)]
    show (c.set 0x80 rcb).mem 0x87 = _
    rw [set_mem_other _ _ _ _ (by decide)]; exact h.ck
  · obtain ⟨b, hb, hbl, hbB⟩ := h.idb
    refine ⟨b, ?_, hbl, hbB⟩
    rw [set_mem_other _ _ _ _ (by decide)]
    show (c.set 0x80 rcb).mem 0x82 = _
    rw [set_mem_other _ _ _ _ (by decide)]; exact hb
  · rw [set_mem_other _ _ _ _ (by decide)]
    show ((c.set 0x80 rcb).mem 0x80).isSome = true
    rw [set_mem_same]; rfl
  · rw [set_mem_other _ _ _ _ (by decide)]
    show ((c.set 0x80 rcb).mem 0x92).isSome = true
    rw [set_mem_other _ _ _ _ (by decide)]; exact h.stp
  · rw [set_mem_other _ _ _ _ (by decide)]
    show (c.set 0x80 rcb).mem 0x80 = _
    rw [set_mem_same]
  · rw [set_mem_other _ _ _ _ (by decide)]
    show (c.set 0x80 rcb).mem 0x82 = _
    rw [set_mem_other _ _ _ _ (by decide)]

/-! ## the card's answers to the reads of an authentication -/

/-- block `n` (a system block other than MAC / MAC_A) read together with the MAC block -/
theorem read_n_mac (C : Cipher) (c : Card) (n : Nat) (hn : 15 ≤ n) (hn1 : n ≠ 0x81) (hn2 : n ≠ 0x91)
    (hp : c.present n = true) :
    c.read C [0x0B, 0] [n, 0x81] [] = LiteTag.readFrame C c.tag c.idm 2 (c.readBlock C n []) := by
  have hlt : ¬ n < 15 := by omega
  simp [Card.read, Card.readLoop, Card.readable, hp, hn1, hn2, hlt, LiteTag.readFrame, Card.readBlock]

theorem read_wcnt (C : Cipher) (c : Card) (b : Bytes) (hm : c.mem 0x90 = some b) (hl : b.length = 16) :
    c.read C [0x0B, 0] [0x90] [] = rspFrame c.idm 6 ([1] ++ b) := by
  have hp : c.present 0x90 = true := by simp [Card.present, hm]
  simp [Card.read, Card.readLoop, Card.readable, hp, Card.readBlock, blk_of_mem hm, rspFrame, hl]

/-! ## the MAC'ed write of the STATE block -/

theorem macA_block (C : Cipher) (hC : BlockCipher C) (t : LiteTag) (block : Nat) (data : Bytes)
    (hiv : Block (word t.rc 0)) (hw : IsBytes t.wcnt) (hwl : 3 ≤ t.wcnt.length) (hb : block ≤ 255)
    (hdB : IsBytes data) :
    Block (LiteTag.macA C t block data) := by
  unfold LiteTag.macA
  apply reverse_block
  rw [chain_eq_cbcLast]
  apply cbcLast_block (hC _).1 _ _ hiv
  intro g hg
  rw [List.mem_map] at hg
  obtain ⟨a, ha, rfl⟩ := hg
  apply reverse_block
  rcases List.mem_append.mp ha with h | h
  · simp only [List.mem_singleton] at h
    subst h
    refine ⟨by simp; omega, isBytes_append (isBytes_take hw 3) ?_⟩
    intro v hv
    simp only [List.mem_cons, List.not_mem_nil, or_false] at hv
    rcases hv with rfl | rfl | rfl | rfl | rfl <;> omega
  · exact chunks8_blocks data hdB a h

/-- the card after the MAC'ed write of 01h to STATE was accepted -/
def afterState (c : Card) : Card := ({ c with extAuth := true } : Card).bump

theorem write_state (C : Cipher) (hC : BlockCipher C) (c : Card) (idm key rc wb : Bytes) (h : Holds c idm key)
    (hrcw : c.rcWritten = true) (hrcm : c.mem 0x80 = some (revHalves rc)) (hrc : rc.length = 16) (hrcB : IsBytes rc)
    (hwb : c.mem 0x90 = some wb) (hwl : wb.length = 16) (hwB : IsBytes wb) :
    c.writeMac C 0x92 (([1] ++ zeros 15) ++ (LiteTag.macA C ⟨revHalves key, revHalves rc, wb⟩ 0x92 ([1] ++ zeros 15) ++ wb.take 3 ++ zeros 5))
      = (some (writeOk idm), afterState c) := by
  have htag : c.tag = ⟨revHalves key, revHalves rc, wb⟩ := by
    simp [Card.tag, blk_of_mem h.ck, blk_of_mem hrcm, blk_of_mem hwb]
  have hiv : Block (word (revHalves rc) 0) := by
    rw [word_revHalves_0 _ hrc]; exact ⟨by simp [hrc], isBytes_take hrcB 8⟩
  have hmB := macA_block C hC ⟨revHalves key, revHalves rc, wb⟩ 0x92 ([1] ++ zeros 15) hiv hwB (by simp [hwl]) (by decide)
    (by decide)
  have hp : c.present 0x92 = true := by simpa [Card.present] using h.stp
  have hwc : c.wcnt = wb.take 3 := by simp [Card.wcnt, blk_of_mem hwb]
  have hd : ([1] ++ zeros 15 : Bytes).length = 16 := by simp [zeros]
  have hd1 : ([1] ++ zeros 15 : Bytes).take 1 = [1] := rfl
  unfold Card.writeMac
  simp only [htag, hwc, hrcw, hp]
  generalize hM : LiteTag.macA C ⟨revHalves key, revHalves rc, wb⟩ 0x92 ([1] ++ zeros 15) = M at hmB ⊢
  generalize ([1] ++ zeros 15 : Bytes) = d at hd hd1 hM ⊢
  have hml : M.length = 8 := hmB.1
  have hd16 : (d ++ (M ++ wb.take 3 ++ zeros 5)).take 16 = d := by
    rw [List.take_append_of_le_length (by omega), List.take_of_length_le (by omega)]
  have hmaca : ((d ++ (M ++ wb.take 3 ++ zeros 5)).drop 16).take 16 = M ++ wb.take 3 ++ zeros 5 := by
    rw [List.drop_append_of_le_length (by omega), List.drop_of_length_le (by omega), List.nil_append,
      List.take_of_length_le (by simp [hml, hwl, zeros])]
  have hw3 : ((M ++ wb.take 3 ++ zeros 5).drop 8).take 3 = wb.take 3 := by
    rw [List.append_assoc, List.drop_append_of_le_length (by omega), List.drop_of_length_le (by omega), List.nil_append,
      List.take_append_of_le_length (by simp [hwl]), List.take_of_length_le (by simp [hwl])]
  have hm8 : (M ++ wb.take 3 ++ zeros 5).take 8 = M := by
    rw [List.append_assoc, List.take_append_of_le_length (by omega), List.take_of_length_le (by omega)]
  simp only [hd16, hmaca, hw3, hm8, hM, hd1]
  simp [afterState, Card.okRsp, writeOk, h.idm_eq, hrcw]

/-! ## the reader methods against the card -/

theorem sendRecv_answered {σ : Type} (x : Air σ) (cmd r : Bytes) (s : St σ) (w' : σ) (h : x s.w cmd = (some r, w')) :
    sendRecv x cmd s = (.ok r, { s with w := w', tr := s.tr ++ [(cmd, some r)] }) := by
  unfold RW.sendRecv
  rw [bind_apply, exch_eq, h]
  rfl

theorem write_one (C : Cipher) (c : Card) (n : Nat) (data : Bytes) (hd : data.length = 16) :
    c.write C [0x09, 0] [n] data = c.writePlain n data := by
  simp [Card.write, hd]

theorem write_two (C : Cipher) (c : Card) (n : Nat) (data : Bytes) (hd : data.length = 32) (hl : c.liteS = true) :
    c.write C [0x09, 0] [n, 0x91] data = c.writeMac C n data := by
  simp [Card.write, hd, hl]

theorem holds_tag (c : Card) (idm key rc wb : Bytes) (h : Holds c idm key) (hrcm : c.mem 0x80 = some (revHalves rc))
    (hwb : c.mem 0x90 = some wb) : c.tag = ⟨revHalves key, revHalves rc, wb⟩ := by
  simp [Card.tag, blk_of_mem h.ck, blk_of_mem hrcm, blk_of_mem hwb]

/-- internal authentication against the card that holds the key: True, in every state of card and
tag object; the card ends with the new challenge and one more write counted -/
theorem authLite_card (C : Cipher) (hC : BlockCipher C) (forget : Bool) (c : Card) (idm pw key rc : Bytes) (rd : Reader)
    (tr : List (Bytes × Option Bytes)) (h : Holds c idm key) (hkey : liteKey pw = .ok key)
    (hrc : rc.length = 16) (hrcB : IsBytes rc) :
    ∃ sk, sessionKey C key rc = .ok sk ∧ sk.length = 16 ∧
      ∃ tr', authLite C forget (honest C) idm pw rc ⟨rd, c, tr⟩
        = (.ok true, ⟨⟨some ⟨sk, rc.take 8⟩, true⟩, afterRc c (revHalves rc), tr'⟩) := by
  obtain ⟨h1, hrcm, hrcw, h82⟩ := afterRc_holds c idm key (revHalves rc) h
  obtain ⟨idb, hidb, hidl, hidB⟩ := h.idb
  obtain ⟨wb1, hwb1, hwl1, hwB1⟩ := h1.wb
  obtain ⟨cc, hcc⟩ : ∃ cc, writeCmd idm [0x80] (revHalves rc) = .ok cc :=
    ⟨_, writeCmd_ok idm [0x80] (revHalves rc) h.idm_len (by simp [revHalves_length rc hrc])⟩
  obtain ⟨c2, hc2⟩ := readCmd_ok idm [0x82, 0x81] h.idm_len (by simp)
  obtain ⟨sk, hsk, hskl, hla⟩ := lite_auth_complete C hC idm pw key rc idb wb1 h.idm_len hkey hrc hrcB hidl hidB
  refine ⟨sk, hsk, hskl, ?_⟩
  -- the card's answers
  have ha1 : honest C c cc = (some (writeOk idm), afterRc c (revHalves rc)) := by
    show c.command C cc = _
    rw [command_write C c [0x80] (revHalves rc) _ (by rw [h.idm_eq]; exact h.idm_len) (by rw [h.idm_eq]; exact hcc),
      write_one C c 0x80 _ (revHalves_length rc hrc), write_rc c idm key _ h]
  have hp82 : (afterRc c (revHalves rc)).present 0x82 = true := by
    simp [Card.present, h82, hidb]
  have ha2 : honest C (afterRc c (revHalves rc)) c2
      = (some (LiteTag.readFrame C ⟨revHalves key, revHalves rc, wb1⟩ idm 2 idb), afterRc c (revHalves rc)) := by
    show (afterRc c (revHalves rc)).command C c2 = _
    rw [command_read C _ [0x82, 0x81] c2 (by rw [h1.idm_eq]; exact h.idm_len) (by rw [h1.idm_eq]; exact hc2),
      read_n_mac C _ 0x82 (by decide) (by decide) (by decide) hp82, holds_tag _ idm key rc wb1 h1 hrcm hwb1, h1.idm_eq]
    simp [Card.readBlock, blk_of_mem (h82.trans hidb)]
  unfold authLite liteChallengeCmd
  rw [bind_of_ok (lift_ok.mpr ⟨hkey, rfl⟩), bind_of_ok (setAuthed_apply false _)]
  have hforget : ∃ rd3 : Reader, ((if forget = true then setSess none else pure ()) : RW Card Unit)
      { rd := { sess := rd.sess, authed := false }, w := c, tr := tr } = (.ok (), ⟨rd3, c, tr⟩) := by
    cases forget
    · exact ⟨_, rfl⟩
    · exact ⟨_, rfl⟩
  obtain ⟨rd3, hf⟩ := hforget
  rw [bind_of_ok hf, bind_of_ok (lift_ok.mpr ⟨hcc, rfl⟩), bind_of_ok (sendRecv_answered _ _ _ _ _ ha1),
    bind_of_ok (lift_ok.mpr ⟨writeRsp_ok idm h.idm_len, rfl⟩), bind_of_ok (lift_ok.mpr ⟨hsk, rfl⟩),
    bind_of_ok (lift_ok.mpr ⟨hc2, rfl⟩), bind_of_ok (sendRecv_answered _ _ _ _ _ ha2),
    bind_of_ok (lift_ok.mpr ⟨hla, rfl⟩)]
  exact ⟨_, rfl⟩

theorem writeWithMacCmd_is_writeCmd (C : Cipher) (idm : Bytes) (s : Option Session) (data : Bytes) (block : Nat) (rspW cmd : Bytes)
    (h : writeWithMacCmd C idm s data block rspW = .ok cmd) :
    ∃ X, writeCmd idm [block, 0x91] X = .ok cmd := by
  unfold writeWithMacCmd at h
  split at h
  · cases h
  · split at h
    · cases h
    · rcases Py.bind_eq_ok.mp h with ⟨_, _, h⟩
      rcases Py.bind_eq_ok.mp h with ⟨w, _, h⟩
      simp only at h
      split at h
      · cases h
      · rcases Py.bind_eq_ok.mp h with ⟨m, _, h⟩
        exact ⟨_, h⟩

theorem writeCmd_data2 (idm : Bytes) (b1 b2 : Nat) (X c : Bytes) (hidm : idm.length = 8)
    (h : writeCmd idm [b1, b2] X = .ok c) : c.drop 18 = X := by
  unfold writeCmd t3Command at h
  simp only at h
  split at h
  · cases h
  · injection h with h
    subst h
    match idm, hidm with
    | [i0, i1, i2, i3, i4, i5, i6, i7], _ => simp [blockList]

/-- the MAC'ed write of 01h to STATE against the card that holds the key, in a session on the
card's current challenge: accepted - WCNT is whatever the card says it is -/
theorem writeMac_card (C : Cipher) (hC : BlockCipher C) (c : Card) (idm key rc sk : Bytes) (rd : Reader)
    (tr : List (Bytes × Option Bytes)) (h : Holds c idm key) (hrcw : c.rcWritten = true)
    (hrcm : c.mem 0x80 = some (revHalves rc)) (hrc : rc.length = 16) (hrcB : IsBytes rc)
    (hsk : sessionKey C key rc = .ok sk) (hsess : rd.sess = some ⟨sk, rc.take 8⟩) :
    ∃ tr', writeMac C (honest C) idm ([1] ++ zeros 15) 0x92 ⟨rd, c, tr⟩ = (.ok (), ⟨rd, afterState c, tr'⟩) := by
  obtain ⟨wb, hwb, hwl, hwB⟩ := h.wb
  obtain ⟨c3, hc3⟩ := readCmd_ok idm [0x90] h.idm_len (by simp)
  obtain ⟨c4, hc4, hdrop⟩ := lite_s_write_mac C hC idm key rc wb ([1] ++ zeros 15) 0x92 sk h.idm_len h.key_len hrc hrcB hsk
    hwl (by simp [zeros]) (by decide) hwB (by decide)
  obtain ⟨X, hX⟩ := writeWithMacCmd_is_writeCmd C idm _ _ _ _ _ hc4
  have hml := (macA_block C hC ⟨revHalves key, revHalves rc, wb⟩ 0x92 ([1] ++ zeros 15)
    (by rw [word_revHalves_0 _ hrc]; exact ⟨by simp [hrc], isBytes_take hrcB 8⟩) hwB (by simp [hwl]) (by decide) (by decide)).1
  have hz15 : (zeros 15).length = 15 := by simp [zeros]
  have hz5 : (zeros 5).length = 5 := by simp [zeros]
  have hXl : (([1] ++ zeros 15) ++ (LiteTag.macA C ⟨revHalves key, revHalves rc, wb⟩ 0x92 ([1] ++ zeros 15) ++ wb.take 3 ++ zeros 5)).length = 32 := by
    simp only [List.length_append, hml, List.length_take, hwl, hz15, hz5, List.length_cons, List.length_nil]
    omega
  have hXeq : X = ([1] ++ zeros 15) ++ (LiteTag.macA C ⟨revHalves key, revHalves rc, wb⟩ 0x92 ([1] ++ zeros 15) ++ wb.take 3 ++ zeros 5) := by
    rw [← writeCmd_data2 idm 0x92 0x91 X c4 h.idm_len hX, hdrop]
  have ha3 : honest C c c3 = (some (rspFrame idm 6 ([1] ++ wb)), c) := by
    show c.command C c3 = _
    rw [command_read C c [0x90] c3 (by rw [h.idm_eq]; exact h.idm_len) (by rw [h.idm_eq]; exact hc3),
      read_wcnt C c wb hwb hwl, h.idm_eq]
  have ha4 : honest C c c4 = (some (writeOk idm), afterState c) := by
    show c.command C c4 = _
    rw [command_write C c [0x92, 0x91] X c4 (by rw [h.idm_eq]; exact h.idm_len) (by rw [h.idm_eq]; exact hX),
      write_two C c 0x92 X (by rw [hXeq]; exact hXl) h.liteS, hXeq,
      write_state C hC c idm key rc wb h hrcw hrcm hrc hrcB hwb hwl hwB]
  unfold writeMac
  rw [if_neg (by simp [zeros])]
  rw [bind_of_ok (getRd_apply _)]
  simp only [hsess]
  rw [bind_of_ok (lift_ok.mpr ⟨hc3, rfl⟩), bind_of_ok (sendRecv_answered _ _ _ _ _ ha3),
    bind_of_ok (lift_ok.mpr ⟨hc4, rfl⟩), bind_of_ok (sendRecv_answered _ _ _ _ _ ha4)]
  exact ⟨_, by rw [lift_apply, writeRsp_ok idm h.idm_len]⟩

theorem afterState_holds (c : Card) (idm key : Bytes) (h : Holds c idm key) :
    Holds (afterState c) idm key ∧ (afterState c).mem 0x80 = c.mem 0x80 ∧ (afterState c).extAuth = true
      ∧ (afterState c).rcWritten = c.rcWritten := by
  obtain ⟨wb, hwb, hwl, hwB⟩ := h.wb
  have hl : ({ c with extAuth := true } : Card).liteS = true := h.liteS
  have hwb' : ({ c with extAuth := true } : Card).mem 0x90 = some wb := hwb
  unfold afterState
  rw [bump_eq _ hl]
  obtain ⟨bl, bB⟩ := bumped_wf _ wb hwb' hwl hwB
  refine ⟨⟨h.liteS, h.idm_eq, h.idm_len, h.key_len, ?_, ?_, ⟨_, set_mem_same _ _ _, bl, bB⟩, ?_, ?_⟩, ?_, rfl, rfl⟩
  · rw [set_mem_other _ _ _ _ (by decide)]; exact h.ck
  · obtain ⟨b, hb, hbl, hbB⟩ := h.idb
    exact ⟨b, by rw [set_mem_other _ _ _ _ (by decide)]; exact hb, hbl, hbB⟩
  · rw [set_mem_other _ _ _ _ (by decide)]; exact h.rcp
  · rw [set_mem_other _ _ _ _ (by decide)]; exact h.stp
  · rw [set_mem_other _ _ _ _ (by decide)]

/-- the MAC'ed read of STATE against the card that holds the key and is externally authenticated,
in a session on the card's current challenge: the state block with EXT_AUTH = 1 is returned -/
theorem readMac_card (C : Cipher) (hC : BlockCipher C) (c : Card) (idm key rc sk : Bytes) (rd : Reader)
    (tr : List (Bytes × Option Bytes)) (h : Holds c idm key) (hext : c.extAuth = true)
    (hrcm : c.mem 0x80 = some (revHalves rc)) (hrc : rc.length = 16) (hrcB : IsBytes rc)
    (hsk : sessionKey C key rc = .ok sk) (hskl : sk.length = 16) (hsess : rd.sess = some ⟨sk, rc.take 8⟩) :
    ∃ tr', readMac C (honest C) idm [0x92] ⟨rd, c, tr⟩ = (.ok (some ([1] ++ zeros 15)), ⟨rd, c, tr'⟩) := by
  obtain ⟨wb, hwb, hwl, hwB⟩ := h.wb
  obtain ⟨c5, hc5⟩ := readCmd_ok idm ([0x92] ++ [0x81]) h.idm_len (by simp)
  have hp : c.present 0x92 = true := by simpa [Card.present] using h.stp
  have hdB : IsBytes ([1] ++ zeros 15 : Bytes) := by decide
  have hdl : ([1] ++ zeros 15 : Bytes).length = 16 := by simp [zeros]
  have hiv : Block (rc.take 8) := ⟨by simp [hrc], isBytes_take hrcB 8⟩
  have hne := chunks8_ne_nil ([1] ++ zeros 15) (by omega)
  have hmac := tag_mac_eq C key rc wb sk h.key_len hrc hsk (chunks8 ([1] ++ zeros 15)) hne
  have hmb := macBlocks_block C hC sk (rc.take 8) (chunks8 ([1] ++ zeros 15)) hiv (chunks8_blocks _ hdB) hne
  have hg := generateMac_ok C ([1] ++ zeros 15) sk (rc.take 8) false (by omega) hskl hiv.1
  have ha5 : honest C c c5 = (some (LiteTag.readFrame C ⟨revHalves key, revHalves rc, wb⟩ idm 2 ([1] ++ zeros 15)), c) := by
    show c.command C c5 = _
    rw [command_read C c [0x92, 0x81] c5 (by rw [h.idm_eq]; exact h.idm_len) (by rw [h.idm_eq]; exact hc5),
      read_n_mac C c 0x92 (by decide) (by decide) (by decide) hp, holds_tag c idm key rc wb h hrcm hwb, h.idm_eq]
    simp [Card.readBlock, hext]
  have hv : readWithMac C idm (some ⟨sk, rc.take 8⟩) [0x92]
      (LiteTag.readFrame C ⟨revHalves key, revHalves rc, wb⟩ idm 2 ([1] ++ zeros 15)) = .ok (some ([1] ++ zeros 15)) := by
    rw [readFrame_eq, hmac,
      readWithMac_eval C idm ⟨sk, rc.take 8⟩ [0x92] 2 ([1] ++ zeros 15) _ (zeros 8) _ h.idm_len (by simp) (by simp [zeros])
        hmb.1 (by simp [zeros]) hg]
    simp
  unfold readMac
  rw [bind_of_ok (getRd_apply _)]
  simp only [hsess]
  rw [bind_of_ok (lift_ok.mpr ⟨hc5, rfl⟩), bind_of_ok (sendRecv_answered _ _ _ _ _ ha5)]
  exact ⟨_, by rw [lift_apply, hv]⟩

/-- the card after one complete mutual authentication with challenge `rc` -/
def afterAuth (c : Card) (rc : Bytes) : Card := afterState (afterRc c (revHalves rc))

/-- `FelicaLiteS.authenticate(pw)` against the card that holds the key of `pw`: True - in EVERY
state of the card (any write counter, any earlier challenge, authenticated before or not, any
content of the other blocks) and EVERY state of the tag object.  The card holds the key afterwards
as before, so the statement applies again to whatever call comes next. -/
theorem authLiteS_card (C : Cipher) (hC : BlockCipher C) (forget : Bool) (c : Card) (idm pw key rc : Bytes) (rd : Reader)
    (tr : List (Bytes × Option Bytes)) (h : Holds c idm key) (hkey : liteKey pw = .ok key)
    (hrc : rc.length = 16) (hrcB : IsBytes rc) :
    (∃ sk tr', sessionKey C key rc = .ok sk ∧
      authLiteS C forget (honest C) idm pw rc ⟨rd, c, tr⟩
        = (.ok true, ⟨⟨some ⟨sk, rc.take 8⟩, true⟩, afterAuth c rc, tr'⟩))
    ∧ Holds (afterAuth c rc) idm key ∧ (afterAuth c rc).extAuth = true := by
  obtain ⟨h1, hrcm1, hrcw1, _⟩ := afterRc_holds c idm key (revHalves rc) h
  obtain ⟨h2, hrcm2, hext2, _⟩ := afterState_holds (afterRc c (revHalves rc)) idm key h1
  refine ⟨?_, h2, hext2⟩
  obtain ⟨sk, hsk, hskl, tr1, ha⟩ := authLite_card C hC forget c idm pw key rc rd tr h hkey hrc hrcB
  obtain ⟨tr2, hw⟩ := writeMac_card C hC (afterRc c (revHalves rc)) idm key rc sk ⟨some ⟨sk, rc.take 8⟩, false⟩ tr1 h1 hrcw1 hrcm1
    hrc hrcB hsk rfl
  obtain ⟨tr3, hr⟩ := readMac_card C hC (afterAuth c rc) idm key rc sk ⟨some ⟨sk, rc.take 8⟩, false⟩ tr2 h2 hext2
    (hrcm2.trans hrcm1) hrc hrcB hsk hskl rfl
  refine ⟨sk, tr3, hsk, ?_⟩
  unfold afterAuth at hr ⊢
  unfold authLiteS extAuthS
  rw [bind_of_ok ha]
  simp only [Bool.not_true, Bool.false_eq_true, if_false]
  rw [bind_of_ok (setAuthed_apply false _), bind_of_ok hw, bind_of_ok hr]
  rfl

/-- every session of a history of authentications succeeds: the n-th `authenticate` meets a card
whose write counter was advanced by all the writes before it (two per session) -/
theorem sessions_card (C : Cipher) (hC : BlockCipher C) (forget : Bool) (idm key : Bytes)
    (calls : List (Bytes × Bytes))
    (hcalls : ∀ p ∈ calls, liteKey p.1 = .ok key ∧ p.2.length = 16 ∧ IsBytes p.2) :
    ∀ (c : Card) (rd : Reader) (tr : List (Bytes × Option Bytes)), Holds c idm key →
      (run C forget (honest C) idm true (calls.map fun p => Op.auth p.1 p.2) ⟨rd, c, tr⟩).1
        = calls.map fun _ => .ok (.bool true) := by
  induction calls with
  | nil => intro c rd tr _; rfl
  | cons p rest ih =>
    intro c rd tr h
    obtain ⟨hk, hl, hB⟩ := hcalls p (List.mem_cons_self ..)
    obtain ⟨⟨sk, tr', _, ha⟩, h', _⟩ := authLiteS_card C hC forget c idm p.1 key p.2 rd tr h hk hl hB
    have hstep : step C forget (honest C) idm true (Op.auth p.1 p.2) ⟨rd, c, tr⟩
        = (.ok (.bool true), ⟨⟨some ⟨sk, p.2.take 8⟩, true⟩, afterAuth c p.2, tr'⟩) := by
      simp only [step, if_true]
      rw [bind_of_ok ha]
      rfl
    simp only [List.map_cons, run_cons, hstep]
    rw [ih (fun q hq => hcalls q (List.mem_cons_of_mem _ hq)) _ _ _ h']

/-! ## `write_with_mac` of a user block between two authentications -/

/-- the card after a MAC'ed write of user block `n` was accepted -/
def afterWrite (c : Card) (n : Nat) (data : Bytes) : Card := (c.set n data).bump

theorem write_user (C : Cipher) (hC : BlockCipher C) (c : Card) (idm key rc wb data : Bytes) (n : Nat) (h : Holds c idm key)
    (hn : n < 14) (hpn : c.present n = true) (hrw : c.mcBit 0 n = true) (hext : c.extAuth = true)
    (hrcw : c.rcWritten = true) (hrcm : c.mem 0x80 = some (revHalves rc)) (hrc : rc.length = 16) (hrcB : IsBytes rc)
    (hwb : c.mem 0x90 = some wb) (hwl : wb.length = 16) (hwB : IsBytes wb) (hd : data.length = 16) (hdB : IsBytes data) :
    c.writeMac C n (data ++ (LiteTag.macA C ⟨revHalves key, revHalves rc, wb⟩ n data ++ wb.take 3 ++ zeros 5))
      = (some (writeOk idm), afterWrite c n data) := by
  have htag := holds_tag c idm key rc wb h hrcm hwb
  have hiv : Block (word (revHalves rc) 0) := by
    rw [word_revHalves_0 _ hrc]; exact ⟨by simp [hrc], isBytes_take hrcB 8⟩
  have hmB := macA_block C hC ⟨revHalves key, revHalves rc, wb⟩ n data hiv hwB (by simp [hwl]) (by omega) hdB
  have hwc : c.wcnt = wb.take 3 := by simp [Card.wcnt, blk_of_mem hwb]
  have h80 : ¬ n = 0x80 := by omega
  have h90 : ¬ n = 0x90 := by omega
  have h92 : ¬ n = 0x92 := by omega
  have h82 : ¬ (0x82 ≤ n) := by omega
  have h15 : n < 15 := by omega
  unfold Card.writeMac
  simp only [htag, hwc, hrcw, hpn]
  generalize hM : LiteTag.macA C ⟨revHalves key, revHalves rc, wb⟩ n data = M at hmB ⊢
  have hml : M.length = 8 := hmB.1
  have hd16 : (data ++ (M ++ wb.take 3 ++ zeros 5)).take 16 = data := by
    rw [List.take_append_of_le_length (by omega), List.take_of_length_le (by omega)]
  have hmaca : ((data ++ (M ++ wb.take 3 ++ zeros 5)).drop 16).take 16 = M ++ wb.take 3 ++ zeros 5 := by
    rw [List.drop_append_of_le_length (by omega), List.drop_of_length_le (by omega), List.nil_append,
      List.take_of_length_le (by simp [hml, hwl, zeros])]
  have hw3 : ((M ++ wb.take 3 ++ zeros 5).drop 8).take 3 = wb.take 3 := by
    rw [List.append_assoc, List.drop_append_of_le_length (by omega), List.drop_of_length_le (by omega), List.nil_append,
      List.take_append_of_le_length (by simp [hwl]), List.take_of_length_le (by simp [hwl])]
  have hm8 : (M ++ wb.take 3 ++ zeros 5).take 8 = M := by
    rw [List.append_assoc, List.take_append_of_le_length (by omega), List.take_of_length_le (by omega)]
  simp only [hd16, hmaca, hw3, hm8, hM]
  simp [afterWrite, Card.okRsp, writeOk, h.idm_eq, h80, h90, h92, h82, h15, hrw, hext]

theorem afterWrite_holds (c : Card) (idm key data : Bytes) (n : Nat) (h : Holds c idm key) (hn : n < 14) :
    Holds (afterWrite c n data) idm key ∧ (afterWrite c n data).mem 0x80 = c.mem 0x80
      ∧ (afterWrite c n data).extAuth = c.extAuth ∧ (afterWrite c n data).rcWritten = c.rcWritten
      ∧ (afterWrite c n data).mem 0x88 = c.mem 0x88 ∧ (afterWrite c n data).mem n = some data := by
  obtain ⟨wb, hwb, hwl, hwB⟩ := h.wb
  have hl : (c.set n data).liteS = true := h.liteS
  have hwb' : (c.set n data).mem 0x90 = some wb := by rw [set_mem_other _ _ _ _ (by omega)]; exact hwb
  unfold afterWrite
  rw [bump_eq _ hl]
  obtain ⟨bl, bB⟩ := bumped_wf _ wb hwb' hwl hwB
  refine ⟨⟨h.liteS, h.idm_eq, h.idm_len, h.key_len, ?_, ?_, ⟨_, set_mem_same _ _ _, bl, bB⟩, ?_, ?_⟩, ?_, rfl, rfl, ?_, ?_⟩
  · rw [set_mem_other _ _ _ _ (by decide), set_mem_other _ _ _ _ (by omega)]; exact h.ck
  · obtain ⟨b, hb, hbl, hbB⟩ := h.idb
    exact ⟨b, by rw [set_mem_other _ _ _ _ (by decide), set_mem_other _ _ _ _ (by omega)]; exact hb, hbl, hbB⟩
  · rw [set_mem_other _ _ _ _ (by decide), set_mem_other _ _ _ _ (by omega)]; exact h.rcp
  · rw [set_mem_other _ _ _ _ (by decide), set_mem_other _ _ _ _ (by omega)]; exact h.stp
  · rw [set_mem_other _ _ _ _ (by decide), set_mem_other _ _ _ _ (by omega)]
  · rw [set_mem_other _ _ _ _ (by decide), set_mem_other _ _ _ _ (by omega)]
  · rw [set_mem_other _ _ _ _ (by omega), set_mem_same]

/-- `write_with_mac(data, n)` in a mutually authenticated session on the card's current challenge:
accepted whatever the write counter is, the block holds `data` afterwards -/
theorem writeMac_user_card (C : Cipher) (hC : BlockCipher C) (c : Card) (idm key rc sk data : Bytes) (n : Nat) (rd : Reader)
    (tr : List (Bytes × Option Bytes)) (h : Holds c idm key) (hn : n < 14) (hpn : c.present n = true)
    (hrw : c.mcBit 0 n = true) (hext : c.extAuth = true) (hrcw : c.rcWritten = true)
    (hrcm : c.mem 0x80 = some (revHalves rc)) (hrc : rc.length = 16) (hrcB : IsBytes rc)
    (hsk : sessionKey C key rc = .ok sk) (hsess : rd.sess = some ⟨sk, rc.take 8⟩) (hd : data.length = 16) (hdB : IsBytes data) :
    ∃ tr', writeMac C (honest C) idm data n ⟨rd, c, tr⟩ = (.ok (), ⟨rd, afterWrite c n data, tr'⟩) := by
  obtain ⟨wb, hwb, hwl, hwB⟩ := h.wb
  obtain ⟨c3, hc3⟩ := readCmd_ok idm [0x90] h.idm_len (by simp)
  obtain ⟨c4, hc4, hdrop⟩ := lite_s_write_mac C hC idm key rc wb data n sk h.idm_len h.key_len hrc hrcB hsk
    hwl hd (by omega) hwB hdB
  obtain ⟨X, hX⟩ := writeWithMacCmd_is_writeCmd C idm _ _ _ _ _ hc4
  have hml := (macA_block C hC ⟨revHalves key, revHalves rc, wb⟩ n data
    (by rw [word_revHalves_0 _ hrc]; exact ⟨by simp [hrc], isBytes_take hrcB 8⟩) hwB (by simp [hwl]) (by omega) hdB).1
  have hz5 : (zeros 5).length = 5 := by simp [zeros]
  have hXl : (data ++ (LiteTag.macA C ⟨revHalves key, revHalves rc, wb⟩ n data ++ wb.take 3 ++ zeros 5)).length = 32 := by
    simp only [List.length_append, hml, List.length_take, hwl, hd, hz5]
    omega
  have hXeq : X = data ++ (LiteTag.macA C ⟨revHalves key, revHalves rc, wb⟩ n data ++ wb.take 3 ++ zeros 5) := by
    rw [← writeCmd_data2 idm n 0x91 X c4 h.idm_len hX, hdrop]
  have ha3 : honest C c c3 = (some (rspFrame idm 6 ([1] ++ wb)), c) := by
    show c.command C c3 = _
    rw [command_read C c [0x90] c3 (by rw [h.idm_eq]; exact h.idm_len) (by rw [h.idm_eq]; exact hc3),
      read_wcnt C c wb hwb hwl, h.idm_eq]
  have ha4 : honest C c c4 = (some (writeOk idm), afterWrite c n data) := by
    show c.command C c4 = _
    rw [command_write C c [n, 0x91] X c4 (by rw [h.idm_eq]; exact h.idm_len) (by rw [h.idm_eq]; exact hX),
      write_two C c n X (by rw [hXeq]; exact hXl) h.liteS, hXeq,
      write_user C hC c idm key rc wb data n h hn hpn hrw hext hrcw hrcm hrc hrcB hwb hwl hwB hd hdB]
  unfold writeMac
  rw [if_neg (by simp [hd])]
  rw [bind_of_ok (getRd_apply _)]
  simp only [hsess]
  rw [bind_of_ok (lift_ok.mpr ⟨hc3, rfl⟩), bind_of_ok (sendRecv_answered _ _ _ _ _ ha3),
    bind_of_ok (lift_ok.mpr ⟨hc4, rfl⟩), bind_of_ok (sendRecv_answered _ _ _ _ _ ha4)]
  exact ⟨_, by rw [lift_apply, writeRsp_ok idm h.idm_len]⟩

theorem afterAuth_mem (c : Card) (rc : Bytes) (k : Nat) (h : c.liteS = true) (h80 : k ≠ 0x80) (h90 : k ≠ 0x90) :
    (afterAuth c rc).mem k = c.mem k := by
  have h1 : ({ (c.set 0x80 (revHalves rc)) with rcWritten := true, extAuth := false } : Card).liteS = true := h
  have e1 : (afterRc c (revHalves rc)).mem k = c.mem k := by
    unfold afterRc
    rw [bump_eq _ h1, set_mem_other _ _ _ _ h90]
    show (c.set 0x80 (revHalves rc)).mem k = _
    rw [set_mem_other _ _ _ _ h80]
  have h2 : ({ afterRc c (revHalves rc) with extAuth := true } : Card).liteS = true := by
    show (afterRc c (revHalves rc)).liteS = true
    unfold afterRc; rw [bump_eq _ h1]; exact h
  unfold afterAuth afterState
  rw [bump_eq _ h2, set_mem_other _ _ _ _ h90]
  exact e1

theorem mcBit_congr (c c' : Card) (o n : Nat) (h : c'.mem 0x88 = c.mem 0x88) : c'.mcBit o n = c.mcBit o n := by
  unfold Card.mcBit Card.mcField Card.blk
  rw [h]

/-- authenticate, `write_with_mac`, authenticate again (the C20-r2m3 history): against the card
that holds the key all three calls succeed, for every initial write counter - the counter the
second and third call see was advanced by the calls before them. -/
theorem auth_write_auth_card (C : Cipher) (hC : BlockCipher C) (forget : Bool) (c : Card) (idm pw key rc1 rc2 data : Bytes)
    (n : Nat) (rd : Reader) (tr : List (Bytes × Option Bytes)) (h : Holds c idm key) (hkey : liteKey pw = .ok key)
    (hrc1 : rc1.length = 16) (hrc1B : IsBytes rc1) (hrc2 : rc2.length = 16) (hrc2B : IsBytes rc2)
    (hn : n < 14) (hpn : c.present n = true) (hrw : c.mcBit 0 n = true) (hd : data.length = 16) (hdB : IsBytes data) :
    let r := run C forget (honest C) idm true [.auth pw rc1, .writeMac data n, .auth pw rc2] ⟨rd, c, tr⟩
    r.1 = [.ok (.bool true), .ok .unit, .ok (.bool true)] ∧ r.2.w.mem n = some data ∧ r.2.rd.authed = true := by
  obtain ⟨⟨sk, tr1, hsk, ha⟩, h1, hext1⟩ := authLiteS_card C hC forget c idm pw key rc1 rd tr h hkey hrc1 hrc1B
  have hrcm1 : (afterAuth c rc1).mem 0x80 = some (revHalves rc1) := by
    obtain ⟨hh1, hrcm, _, _⟩ := afterRc_holds c idm key (revHalves rc1) h
    obtain ⟨_, hrcm2, _, _⟩ := afterState_holds (afterRc c (revHalves rc1)) idm key hh1
    exact hrcm2.trans hrcm
  have hrcw1 : (afterAuth c rc1).rcWritten = true := by
    obtain ⟨hh1, _, hrcw, _⟩ := afterRc_holds c idm key (revHalves rc1) h
    obtain ⟨_, _, _, hw⟩ := afterState_holds (afterRc c (revHalves rc1)) idm key hh1
    exact hw.trans hrcw
  have hpn1 : (afterAuth c rc1).present n = true := by
    simp only [Card.present, afterAuth_mem c rc1 n h.liteS (by omega) (by omega)]; exact hpn
  have hrw1 : (afterAuth c rc1).mcBit 0 n = true := by
    rw [mcBit_congr c (afterAuth c rc1) 0 n (afterAuth_mem c rc1 0x88 h.liteS (by decide) (by decide))]; exact hrw
  obtain ⟨tr2, hw⟩ := writeMac_user_card C hC (afterAuth c rc1) idm key rc1 sk data n ⟨some ⟨sk, rc1.take 8⟩, true⟩ tr1 h1 hn hpn1
    hrw1 hext1 hrcw1 hrcm1 hrc1 hrc1B hsk rfl hd hdB
  obtain ⟨h2, _, _, _, _, hmem⟩ := afterWrite_holds (afterAuth c rc1) idm key data n h1 hn
  obtain ⟨⟨sk2, tr3, _, ha2⟩, _, _⟩ := authLiteS_card C hC forget (afterWrite (afterAuth c rc1) n data) idm pw key rc2
    ⟨some ⟨sk, rc1.take 8⟩, true⟩ tr2 h2 hkey hrc2 hrc2B
  have hs1 : step C forget (honest C) idm true (Op.auth pw rc1) ⟨rd, c, tr⟩
      = (.ok (.bool true), ⟨⟨some ⟨sk, rc1.take 8⟩, true⟩, afterAuth c rc1, tr1⟩) := by
    simp only [step, if_true]; rw [bind_of_ok ha]; rfl
  have hs2 : step C forget (honest C) idm true (Op.writeMac data n) ⟨⟨some ⟨sk, rc1.take 8⟩, true⟩, afterAuth c rc1, tr1⟩
      = (.ok .unit, ⟨⟨some ⟨sk, rc1.take 8⟩, true⟩, afterWrite (afterAuth c rc1) n data, tr2⟩) := by
    simp only [step, if_true]; rw [bind_of_ok hw]; rfl
  have hs3 : step C forget (honest C) idm true (Op.auth pw rc2) ⟨⟨some ⟨sk, rc1.take 8⟩, true⟩, afterWrite (afterAuth c rc1) n data, tr2⟩
      = (.ok (.bool true), ⟨⟨some ⟨sk2, rc2.take 8⟩, true⟩, afterAuth (afterWrite (afterAuth c rc1) n data) rc2, tr3⟩) := by
    simp only [step, if_true]; rw [bind_of_ok ha2]; rfl
  simp only [run_cons, run_nil, hs1, hs2, hs3, true_and, and_true]
  rw [afterAuth_mem _ rc2 n h2.liteS (by omega) (by omega)]
  exact hmem

/-! ## `protect(pw)` then `authenticate(pw)` against the card -/

/-- the card after a plain write of block `n` was accepted -/
def afterPlain (c : Card) (n : Nat) (data : Bytes) : Card := (c.set n data).bump

theorem afterPlain_mem (c : Card) (n k : Nat) (data : Bytes) (hl : c.liteS = true) (hk : k ≠ n) (h90 : k ≠ 0x90) :
    (afterPlain c n data).mem k = c.mem k := by
  have h1 : (c.set n data).liteS = true := hl
  unfold afterPlain
  rw [bump_eq _ h1, set_mem_other _ _ _ _ h90, set_mem_other _ _ _ _ hk]

theorem afterPlain_mem_same (c : Card) (n : Nat) (data : Bytes) (hl : c.liteS = true) (h90 : n ≠ 0x90) :
    (afterPlain c n data).mem n = some data := by
  have h1 : (c.set n data).liteS = true := hl
  unfold afterPlain
  rw [bump_eq _ h1, set_mem_other _ _ _ _ h90, set_mem_same]

theorem afterPlain_wb (c : Card) (n : Nat) (data wb : Bytes) (hl : c.liteS = true) (h90 : n ≠ 0x90)
    (hwb : c.mem 0x90 = some wb) (hwl : wb.length = 16) (hwB : IsBytes wb) :
    ∃ b, (afterPlain c n data).mem 0x90 = some b ∧ b.length = 16 ∧ IsBytes b := by
  have h1 : (c.set n data).liteS = true := hl
  have hwb' : (c.set n data).mem 0x90 = some wb := by rw [set_mem_other _ _ _ _ (Ne.symm h90)]; exact hwb
  obtain ⟨bl, bB⟩ := bumped_wf _ wb hwb' hwl hwB
  unfold afterPlain
  rw [bump_eq _ h1]
  exact ⟨_, set_mem_same _ _ _, bl, bB⟩

theorem afterPlain_fields (c : Card) (n : Nat) (data : Bytes) (hl : c.liteS = true) :
    (afterPlain c n data).liteS = true ∧ (afterPlain c n data).idm = c.idm := by
  have h1 : (c.set n data).liteS = true := hl
  unfold afterPlain
  rw [bump_eq _ h1]
  exact ⟨hl, rfl⟩

/-- a system block other than MAC, CK, MAC_A, STATE read on its own -/
theorem read_single (C : Cipher) (c : Card) (n : Nat) (b : Bytes) (hm : c.mem n = some b) (hl : b.length = 16)
    (hn : 15 ≤ n) (h81 : n ≠ 0x81) (h87 : n ≠ 0x87) (h91 : n ≠ 0x91) (h92 : n ≠ 0x92) :
    c.read C [0x0B, 0] [n] [] = rspFrame c.idm 6 ([1] ++ b) := by
  have hp : c.present n = true := by simp [Card.present, hm]
  have hlt : ¬ n < 15 := by omega
  simp [Card.read, Card.readLoop, Card.readable, hp, Card.readBlock, blk_of_mem hm, rspFrame, hl, h81, h87, h91, h92, hlt]

theorem readPlain_card (C : Cipher) (c : Card) (idm : Bytes) (n : Nat) (b : Bytes) (rd : Reader) (tr : List (Bytes × Option Bytes))
    (hidm : c.idm = idm) (hil : idm.length = 8) (hm : c.mem n = some b) (hl : b.length = 16)
    (hn : 15 ≤ n) (h81 : n ≠ 0x81) (h87 : n ≠ 0x87) (h91 : n ≠ 0x91) (h92 : n ≠ 0x92) :
    ∃ tr', readPlain (honest C) idm [n] ⟨rd, c, tr⟩ = (.ok b, ⟨rd, c, tr'⟩) := by
  obtain ⟨c0, hc0⟩ := readCmd_ok idm [n] hil (by simp)
  have ha : honest C c c0 = (some (rspFrame idm 6 ([1] ++ b)), c) := by
    show c.command C c0 = _
    rw [command_read C c [n] c0 (by rw [hidm]; exact hil) (by rw [hidm]; exact hc0),
      read_single C c n b hm hl hn h81 h87 h91 h92, hidm]
  unfold readPlain
  rw [bind_of_ok (lift_ok.mpr ⟨hc0, rfl⟩), bind_of_ok (sendRecv_answered _ _ _ _ _ ha)]
  exact ⟨_, by rw [lift_apply, readRsp_frame idm b [n] 1 hil (by simp [hl])]⟩

/-- a plain write of a system block while the system blocks are not locked -/
theorem writePlain_card (C : Cipher) (c : Card) (idm : Bytes) (n : Nat) (data : Bytes) (rd : Reader) (tr : List (Bytes × Option Bytes))
    (hidm : c.idm = idm) (hil : idm.length = 8) (hp : c.present n = true) (hn : 0x82 ≤ n) (hn8 : n ≤ 0x88)
    (hul : c.systemLocked = false) (hd : data.length = 16) :
    ∃ tr', writePlain (honest C) idm data n ⟨rd, c, tr⟩ = (.ok (), ⟨rd, afterPlain c n data, tr'⟩) := by
  obtain ⟨cc, hcc⟩ : ∃ cc, writeCmd idm [n] data = .ok cc := ⟨_, writeCmd_ok idm [n] data hil (by simp [hd])⟩
  have h90 : ¬ n = 0x90 := by omega
  have h92 : ¬ n = 0x92 := by omega
  have h80 : ¬ n = 0x80 := by omega
  have h15 : ¬ n < 15 := by omega
  have ha : honest C c cc = (some (writeOk idm), afterPlain c n data) := by
    show c.command C cc = _
    rw [command_write C c [n] data cc (by rw [hidm]; exact hil) (by rw [hidm]; exact hcc), write_one C c n data hd]
    simp [Card.writePlain, hp, h90, h92, h80, h15, hul, afterPlain, Card.okRsp, writeOk, hidm]
  unfold writePlain writeBlocks
  rw [if_neg (by simp [hd])]
  rw [bind_of_ok (lift_ok.mpr ⟨hcc, rfl⟩), bind_of_ok (sendRecv_answered _ _ _ _ _ ha)]
  exact ⟨_, by rw [lift_apply, writeRsp_ok idm hil]⟩

theorem holds_afterPlain (c : Card) (idm key data : Bytes) (n : Nat) (h : Holds c idm key)
    (h87 : n ≠ 0x87) (h82 : n ≠ 0x82) (h90 : n ≠ 0x90) (h80 : n ≠ 0x80) (h92 : n ≠ 0x92) :
    Holds (afterPlain c n data) idm key := by
  obtain ⟨wb, hwb, hwl, hwB⟩ := h.wb
  obtain ⟨hl, hi⟩ := afterPlain_fields c n data h.liteS
  refine ⟨hl, hi.trans h.idm_eq, h.idm_len, h.key_len, ?_, ?_, afterPlain_wb c n data wb h.liteS h90 hwb hwl hwB, ?_, ?_⟩
  · rw [afterPlain_mem c n _ data h.liteS (Ne.symm h87) (by decide)]; exact h.ck
  · obtain ⟨b, hb, hbl, hbB⟩ := h.idb
    exact ⟨b, by rw [afterPlain_mem c n _ data h.liteS (Ne.symm h82) (by decide)]; exact hb, hbl, hbB⟩
  · rw [afterPlain_mem c n _ data h.liteS (Ne.symm h80) (by decide)]; exact h.rcp
  · rw [afterPlain_mem c n _ data h.liteS (Ne.symm h92) (by decide)]; exact h.stp

/-- a Lite-S card whose system blocks are not locked yet (as it leaves the factory, or with any
key whatever), with the blocks `protect` and `authenticate` touch -/
structure Unlocked (c : Card) (idm : Bytes) : Prop where
  liteS : c.liteS = true
  idm_eq : c.idm = idm
  idm_len : idm.length = 8
  mc : ∃ m0 m1 m3 m4 m5 rest, c.mem 0x88 = some ([m0, m1, 0xFF, m3, m4, m5] ++ rest) ∧ rest.length = 10
  ckv : ∃ v0 v1 rest, c.mem 0x86 = some ([v0, v1] ++ rest) ∧ rest.length = 14
  ckp : (c.mem 0x87).isSome = true
  idb : ∃ b, c.mem 0x82 = some b ∧ b.length = 16 ∧ IsBytes b
  wb : ∃ b, c.mem 0x90 = some b ∧ b.length = 16 ∧ IsBytes b
  rcp : (c.mem 0x80).isSome = true
  stp : (c.mem 0x92).isSome = true

theorem keyOf_length (p : Bytes) (h : p = [] ∨ 16 ≤ p.length) : (keyOf p).length = 16 := by
  unfold keyOf
  split
  · simp [zeros]
  · rcases h with h | h
    · contradiction
    · simp; omega

theorem liteKey_keyOf (p : Bytes) (h : p = [] ∨ 16 ≤ p.length) : liteKey p = .ok (keyOf p) := by
  unfold liteKey keyOf
  have : ¬ (p ≠ [] ∧ p.length < 16) := by
    rcases h with h | h
    · simp [h]
    · intro hc; omega
  rw [if_neg this]

theorem liteKey_of_key (k : Bytes) (h : k.length = 16) : liteKey k = .ok k := by
  unfold liteKey
  have h1 : ¬ (k ≠ [] ∧ k.length < 16) := by intro hc; omega
  have h2 : k ≠ [] := by intro hc; rw [hc] at h; cases h
  rw [if_neg h1, if_neg h2, List.take_of_length_le (by omega)]

theorem setSlice_length (b v : Bytes) (i : Nat) (h : i + v.length ≤ b.length) : (setSlice b i v).length = b.length := by
  simp [setSlice]; omega

theorem set_length' (b : Bytes) (i v : Nat) : (b.set i v).length = b.length := by simp

theorem systemLocked_false (c : Card) (m0 m1 m3 : Nat) (rest : Bytes) (h : c.mem 0x88 = some ([m0, m1, 0xFF, m3] ++ rest)) :
    c.systemLocked = false := by
  simp [Card.systemLocked, blk_of_mem h]

/-- `FelicaLiteS.protect(pw)` then `authenticate(pw)` on one tag object against the stateful card,
through all their commands: on a card whose system blocks are not locked yet - whatever key it
holds, whatever its write counter is - `protect` (reads MC and CKV, writes CKV and the key,
authenticates mutually with the new key, writes MC) returns True and the `authenticate` that
follows, with its own challenge, returns True. -/
theorem protect_then_auth_card (C : Cipher) (hC : BlockCipher C) (forget : Bool) (c : Card) (idm p rc0 rc1 : Bytes)
    (rp : Bool) (pf : Nat) (rd : Reader) (tr : List (Bytes × Option Bytes)) (h : Unlocked c idm)
    (hp : p = [] ∨ 16 ≤ p.length)
    (hrc0 : rc0.length = 16) (hrc0B : IsBytes rc0) (hrc1 : rc1.length = 16) (hrc1B : IsBytes rc1) :
    (run C forget (honest C) idm true [.protect (some p) rp pf rc0, .auth p rc1] ⟨rd, c, tr⟩).1
      = [.ok (.bool true), .ok (.bool true)] := by
  obtain ⟨m0, m1, m3, m4, m5, mrest, hmc, hmrl⟩ := h.mc
  obtain ⟨v0, v1, vrest, hckv, hvrl⟩ := h.ckv
  obtain ⟨wb, hwb, hwl, hwB⟩ := h.wb
  obtain ⟨idb, hidb, hidl, hidB⟩ := h.idb
  have hkl := keyOf_length p hp
  have hul : c.systemLocked = false := systemLocked_false c m0 m1 m3 ([m4, m5] ++ mrest) (by simpa using hmc)
  -- 1. read MC, read CKV
  obtain ⟨tr1, hr1⟩ := readPlain_card C c idm 0x88 _ rd tr h.idm_eq h.idm_len hmc (by simp [hmrl]) (by decide) (by decide)
    (by decide) (by decide) (by decide)
  obtain ⟨tr2, hr2⟩ := readPlain_card C c idm 0x86 _ rd tr1 h.idm_eq h.idm_len hckv (by simp [hvrl]) (by decide) (by decide)
    (by decide) (by decide) (by decide)
  -- 2. write CKV
  have hp86 : c.present 0x86 = true := by simp [Card.present, hckv]
  obtain ⟨tr3, hw3⟩ := writePlain_card C c idm 0x86 (le16 (min (v0 + 256 * v1 + 1) 0xFFFF) ++ zeros 14) rd tr2 h.idm_eq h.idm_len hp86
    (by decide) (by decide) hul (by simp [le16, zeros])
  generalize hd86 : le16 (min (v0 + 256 * v1 + 1) 0xFFFF) ++ zeros 14 = d86 at hw3
  -- 3. write the key
  obtain ⟨hl1, hi1⟩ := afterPlain_fields c 0x86 d86 h.liteS
  have hp87 : (afterPlain c 0x86 d86).present 0x87 = true := by
    simp only [Card.present, afterPlain_mem c 0x86 0x87 d86 h.liteS (by decide) (by decide)]; exact h.ckp
  have hmc1 : (afterPlain c 0x86 d86).mem 0x88 = some ([m0, m1, 0xFF, m3, m4, m5] ++ mrest) := by
    rw [afterPlain_mem c 0x86 0x88 d86 h.liteS (by decide) (by decide)]; exact hmc
  have hul1 : (afterPlain c 0x86 d86).systemLocked = false :=
    systemLocked_false _ m0 m1 m3 ([m4, m5] ++ mrest) (by simpa using hmc1)
  obtain ⟨tr4, hw4⟩ := writePlain_card C (afterPlain c 0x86 d86) idm 0x87 (revHalves (keyOf p)) rd tr3 (hi1.trans h.idm_eq) h.idm_len hp87
    (by decide) (by decide) hul1 (revHalves_length _ hkl)
  -- the card now holds the new key
  obtain ⟨wb1, hwb1, hwl1, hwB1⟩ := afterPlain_wb c 0x86 d86 wb h.liteS (by decide) hwb hwl hwB
  obtain ⟨hl2, hi2⟩ := afterPlain_fields (afterPlain c 0x86 d86) 0x87 (revHalves (keyOf p)) hl1
  have hH : Holds (afterPlain (afterPlain c 0x86 d86) 0x87 (revHalves (keyOf p))) idm (keyOf p) := by
    refine ⟨hl2, hi2.trans (hi1.trans h.idm_eq), h.idm_len, hkl, afterPlain_mem_same _ _ _ hl1 (by decide), ?_,
      afterPlain_wb _ 0x87 _ wb1 hl1 (by decide) hwb1 hwl1 hwB1, ?_, ?_⟩
    · refine ⟨idb, ?_, hidl, hidB⟩
      rw [afterPlain_mem _ 0x87 0x82 _ hl1 (by decide) (by decide), afterPlain_mem c 0x86 0x82 d86 h.liteS (by decide) (by decide)]
      exact hidb
    · rw [afterPlain_mem _ 0x87 0x80 _ hl1 (by decide) (by decide), afterPlain_mem c 0x86 0x80 d86 h.liteS (by decide) (by decide)]
      exact h.rcp
    · rw [afterPlain_mem _ 0x87 0x92 _ hl1 (by decide) (by decide), afterPlain_mem c 0x86 0x92 d86 h.liteS (by decide) (by decide)]
      exact h.stp
  generalize hc2 : afterPlain (afterPlain c 0x86 d86) 0x87 (revHalves (keyOf p)) = c2 at hw4 hH
  have hmc2 : c2.mem 0x88 = some ([m0, m1, 0xFF, m3, m4, m5] ++ mrest) := by
    rw [← hc2, afterPlain_mem _ 0x87 0x88 _ hl1 (by decide) (by decide)]; exact hmc1
  -- 4. mutual authentication with the new key
  obtain ⟨⟨sk, tr5, _, ha5⟩, hH3, _⟩ := authLiteS_card C hC forget c2 idm (keyOf p) (keyOf p) rc0 rd tr4 hH (liteKey_of_key _ hkl) hrc0 hrc0B
  have hmc3 : (afterAuth c2 rc0).mem 0x88 = some ([m0, m1, 0xFF, m3, m4, m5] ++ mrest) := by
    rw [afterAuth_mem c2 rc0 0x88 hH.liteS (by decide) (by decide)]; exact hmc2
  have hul3 : (afterAuth c2 rc0).systemLocked = false :=
    systemLocked_false _ m0 m1 m3 ([m4, m5] ++ mrest) (by simpa using hmc3)
  have hp88 : (afterAuth c2 rc0).present 0x88 = true := by simp [Card.present, hmc3]
  -- 5. write MC
  have hmcl : ([m0, m1, 0xFF, m3, m4, m5] ++ mrest).length = 16 := by simp [hmrl]
  generalize hmcv : [m0, m1, 0xFF, m3, m4, m5] ++ mrest = mc at *
  have hle : ∀ v : Nat, (le16 v).length = 2 := fun v => rfl
  obtain ⟨mcF, hmcF, hmcFl⟩ : ∃ mcF : Bytes, mcF = (((if pf < 14 then setSlice (setSlice (if rp = true ∧ pf < 14 then setSlice mc 6 (le16 (2 ^ 14 - 2 ^ pf)) else mc) 8 (le16 (2 ^ 14 - 2 ^ pf))) 10 (le16 (2 ^ 14 - 2 ^ pf))
      else (if rp = true ∧ pf < 14 then setSlice mc 6 (le16 (2 ^ 14 - 2 ^ pf)) else mc)).set 2 0).set 5 1) ∧ mcF.length = 16 := by
    refine ⟨_, rfl, ?_⟩
    have h6 : (if rp = true ∧ pf < 14 then setSlice mc 6 (le16 (2 ^ 14 - 2 ^ pf)) else mc).length = 16 := by
      split
      · rw [setSlice_length _ _ _ (by rw [hle, hmcl]; omega)]; exact hmcl
      · exact hmcl
    rw [set_length', set_length']
    split
    · rw [setSlice_length _ _ _ (by rw [hle, setSlice_length _ _ _ (by rw [hle, h6]; omega), h6]; omega),
        setSlice_length _ _ _ (by rw [hle, h6]; omega), h6]
    · exact h6
  obtain ⟨tr6, hw6⟩ := writePlain_card C (afterAuth c2 rc0) idm 0x88 mcF ⟨some ⟨sk, rc0.take 8⟩, true⟩ tr5 hH3.idm_eq h.idm_len hp88
    (by decide) (by decide) hul3 hmcFl
  have hH4 : Holds (afterPlain (afterAuth c2 rc0) 0x88 mcF) idm (keyOf p) :=
    holds_afterPlain _ idm _ mcF 0x88 hH3 (by decide) (by decide) (by decide) (by decide) (by decide)
  -- 6. the authenticate that follows
  obtain ⟨⟨sk7, tr7, _, ha7⟩, _, _⟩ := authLiteS_card C hC forget (afterPlain (afterAuth c2 rc0) 0x88 mcF) idm p (keyOf p) rc1
    ⟨some ⟨sk, rc0.take 8⟩, true⟩ tr6 hH4 (liteKey_keyOf p hp) hrc1 hrc1B
  -- assemble
  have hpw : pwCheck (some p) = .ok () := by
    unfold pwCheck
    have : ¬ (p ≠ [] ∧ p.length < 16) := by
      rcases hp with hp | hp
      · simp [hp]
      · intro hc; omega
    simp only [this, if_false]
  have hidx2 : idx mc 2 = .ok 0xFF := by rw [← hmcv]; rfl
  have hidx5 : idx mc 5 = .ok m5 := by rw [← hmcv]; rfl
  have hprot : protectLiteS C forget (honest C) idm (some p) rp pf rc0 ⟨rd, c, tr⟩
      = (.ok true, ⟨⟨some ⟨sk, rc0.take 8⟩, true⟩, afterPlain (afterAuth c2 rc0) 0x88 mcF, tr6⟩) := by
    have hi0 : idx ([v0, v1] ++ vrest) 0 = .ok v0 := rfl
    have hi1' : idx ([v0, v1] ++ vrest) 1 = .ok v1 := rfl
    unfold protectLiteS protectLiteSA protectLiteSB
    simp only [bind_apply, lift_apply, pure_apply, getRd_apply, hpw, hr1, hidx2, hidx5, ne_eq, not_true_eq_false, false_and,
      if_false, hr2, hi0, hi1', hd86, hw3, hw4, ha5, Bool.not_true, Bool.false_eq_true, ← hmcF, hw6]
  have hs1 : step C forget (honest C) idm true (.protect (some p) rp pf rc0) ⟨rd, c, tr⟩
      = (.ok (.bool true), ⟨⟨some ⟨sk, rc0.take 8⟩, true⟩, afterPlain (afterAuth c2 rc0) 0x88 mcF, tr6⟩) := by
    simp only [step, if_true]; rw [bind_of_ok hprot]; rfl
  have hs2 : step C forget (honest C) idm true (.auth p rc1) ⟨⟨some ⟨sk, rc0.take 8⟩, true⟩, afterPlain (afterAuth c2 rc0) 0x88 mcF, tr6⟩
      = (.ok (.bool true), ⟨⟨some ⟨sk7, rc1.take 8⟩, true⟩, afterAuth (afterPlain (afterAuth c2 rc0) 0x88 mcF) rc1, tr7⟩) := by
    simp only [step, if_true]; rw [bind_of_ok ha7]; rfl
  simp only [run_cons, run_nil, hs1, hs2]

end NfcVerif.AuthCard
