import NfcVerif.Model.Connect
import NfcVerif.Lemmas.Sense
/-!
# Lemmas about the model of `connect()` (C18)

The callback discipline is a monitor automaton `step` over the event log; `mon log` is the
state the history ends in (`none`: the history is illegal).  Every piece of the model is shown
to move the monitor as the documentation prescribes; `connect_spec` is the master statement.
-/
namespace NfcVerif.Clf

/-! ## The callback discipline as a monitor over the event log -/

def codeTruthy (c : Nat) : Bool := c == 2 || c == 4 || c == 6

theorem codeTruthy_code (v : Val) : codeTruthy v.code = v.truthy := by cases v <;> rfl

/-- order of the on-startup calls: llcp, rdwr, card -/
def rank : Role → Nat | .llcp => 0 | .rdwr => 1 | .card => 2

/-- monitor states -/
inductive Q
  | su (k : Nat)              -- option preparation: roles of rank < k are done
  | idle (tt : Bool)          -- no activation open; tt: the last callback/terminate event was a true terminate()
  | disc (r : Role)           -- on-discover of r returned a true value
  | conn (r : Role)           -- on-connect of r returned a true value, on-release is owed
  | finObj (r : Role)         -- on-connect of r returned a false value: nothing may follow
  | finRel (r : Role) (c : Nat)  -- on-release of r returned the true value with code c: nothing may follow
  deriving DecidableEq, Repr

def Q.idleLike : Q → Bool
  | .su _ | .idle _ | .disc _ => true
  | _ => false

/-- transitions outside an activation; `d`: role whose on-discover just returned true -/
def stepIdle (d : Option Role) : Ev → Option Q
  | .term b => some (.idle b)
  | .cb r .discover c _ => if r = .llcp then none else some (if codeTruthy c then .disc r else .idle false)
  | .cb r .connect c _ =>
    if r = .llcp ∨ d = some r then some (if codeTruthy c then .conn r else .finObj r) else none
  | _ => none

def step : Q → Ev → Option Q
  | q, .call _ _ => some q
  | q, .sleep => some q
  | .su k, .cb r .startup _ _ => if k ≤ rank r then some (.su (rank r + 1)) else none
  | .su _, e => stepIdle none e
  | .idle _, e => stepIdle none e
  | .disc r, e => stepIdle (some r) e
  | .conn r, .term _ => some (.conn r)
  | .conn r, .cb r' .release c _ => if r = r' then some (if codeTruthy c then .finRel r c else .idle false) else none
  | _, _ => none

def runFrom : Q → List Ev → Option Q
  | q, [] => some q
  | q, e :: l => (step q e).bind (fun q' => runFrom q' l)

/-- the log is a legal history: on-startup first (llcp, rdwr, card), then activations
discover → connect → release, release only (and immediately) after a true on-connect of the same
role, nothing after the activation that ends connect() -/
def mon (l : List Ev) : Option Q := runFrom (.su 0) l

theorem runFrom_append (q : Q) (a b : List Ev) : runFrom q (a ++ b) = (runFrom q a).bind (fun q' => runFrom q' b) := by
  induction a generalizing q with
  | nil => simp [runFrom]
  | cons e r ih =>
    simp only [List.cons_append, runFrom]
    cases step q e with
    | none => simp
    | some q' => simp [ih]

def Ev.neutral : Ev → Bool
  | .call _ _ | .sleep => true
  | _ => false

theorem step_neutral (q : Q) (e : Ev) (h : e.neutral = true) : step q e = some q := by
  cases e <;> simp [Ev.neutral] at h <;> cases q <;> simp [step]

theorem runFrom_neutral (q : Q) (l : List Ev) (h : ∀ e ∈ l, e.neutral = true) : runFrom q l = some q := by
  induction l with
  | nil => rfl
  | cons e r ih =>
    simp only [runFrom, step_neutral q e (h e (by simp))]
    exact ih (fun e he => h e (by simp [he]))

/-- `s'` extends the log of `s` by driver/collaborator calls and sleeps only -/
def NExt (s s' : St) : Prop := ∃ seg, s'.log = s.log ++ seg ∧ ∀ e ∈ seg, e.neutral = true

theorem NExt.refl (s : St) : NExt s s := ⟨[], by simp, by simp⟩
theorem NExt.trans {a b c : St} (h1 : NExt a b) (h2 : NExt b c) : NExt a c := by
  obtain ⟨s1, l1, n1⟩ := h1
  obtain ⟨s2, l2, n2⟩ := h2
  refine ⟨s1 ++ s2, by rw [l2, l1, List.append_assoc], ?_⟩
  intro e he
  rcases List.mem_append.mp he with h | h
  · exact n1 e h
  · exact n2 e h
theorem NExt.mon {s s' : St} (h : NExt s s') : mon s'.log = mon s.log := by
  obtain ⟨seg, hl, hn⟩ := h
  unfold Clf.mon
  rw [hl, runFrom_append]
  cases hq : runFrom (.su 0) s.log with
  | none => rfl
  | some q => simp [runFrom_neutral q seg hn]
theorem NExt.of_log {s s' : St} (h : s'.log = s.log) : NExt s s' := ⟨[], by simp [h], by simp⟩

theorem mon_emit (s : St) (e : Ev) : mon (s.emit e).log = (mon s.log).bind (fun q => step q e) := by
  unfold Clf.mon St.emit
  simp only [runFrom_append]
  cases runFrom (.su 0) s.log with
  | none => rfl
  | some q => simp [runFrom]

theorem NExt.ask (s : St) (site : Site) : NExt s (s.ask site).2 := by
  obtain ⟨a, ha⟩ := ask_spec s site
  rw [ha]; exact ⟨[.call site a], rfl, by simp [Ev.neutral]⟩

theorem NExt.emit_sleep (s : St) : NExt s (s.emit .sleep) := ⟨[.sleep], rfl, by simp [Ev.neutral]⟩

theorem NExt.simpleCall (site : Site) (s : St) : NExt s (simpleCall site s).2 := by
  obtain ⟨a, h1, _⟩ := simpleCall_spec site s
  rw [h1]; exact ⟨[.call site a], rfl, by simp [Ev.neutral]⟩

theorem NExt.exchange (s : St) : NExt s (exchange s).2 := by
  have := (exchange_spec s).2
  cases ht : s.target with
  | none => rw [ht] at this; simp only at this; rw [this]; exact NExt.refl s
  | remote id => rw [ht] at this; obtain ⟨a, ha⟩ := this; exact ⟨_, ha, by simp [Ev.neutral]⟩
  | loc id => rw [ht] at this; obtain ⟨a, ha⟩ := this; exact ⟨_, ha, by simp [Ev.neutral]⟩

theorem NExt.target {s : St} (t : Tgt) : NExt s { s with target := t } := NExt.of_log rfl

theorem NExt.drvSense (site : Site) (s : St) : NExt s (drvSense site s).2 := by
  obtain ⟨a, ha⟩ := ask_spec s site
  have h := NExt.ask s site
  rw [ha] at h
  unfold Clf.drvSense
  rw [ha]
  cases a <;> exact h

theorem NExt.drvListen (site : Site) (s : St) : NExt s (drvListen site s).2 := by
  obtain ⟨a, ha⟩ := ask_spec s site
  have h := NExt.ask s site
  rw [ha] at h
  unfold Clf.drvListen
  rw [ha]
  cases a <;> exact h

theorem NExt.senseOne (t : TgtSpec) (s : St) : NExt s (senseOne t s).2 := by
  cases t with
  | dep n =>
    simp only [Clf.senseOne]
    split; exact NExt.refl s
    split; exact NExt.refl s
    exact NExt.drvSense _ s
  | a n =>
    simp only [Clf.senseOne]
    split; exact NExt.refl s
    have h := NExt.drvSense .senseA s
    rcases hr : Clf.drvSense .senseA s with ⟨r1, s1⟩
    rw [hr] at h
    cases r1 with
    | error e => exact h
    | ok o => cases o with
      | none => exact h
      | some x => simp only; split <;> exact h
  | b => exact NExt.drvSense _ s
  | f => exact NExt.drvSense _ s
  | unknown => exact NExt.refl s
  | notTarget => exact NExt.refl s

theorem NExt.senseTargets (single : Bool) (tl : List TgtSpec) (s : St) : NExt s (senseTargets single tl s).2 := by
  induction tl generalizing s with
  | nil => exact NExt.refl s
  | cons t rest ih =>
    have h := NExt.senseOne t s
    unfold Clf.senseTargets
    rcases hr : Clf.senseOne t s with ⟨r1, s1⟩
    rw [hr] at h
    cases r1 with
    | error e =>
      simp only
      split
      · split
        · exact h
        · exact h.trans (ih s1)
      · split
        · exact h.trans (ih s1)
        · exact h
    | ok o => cases o with
      | none => exact h.trans (ih s1)
      | some x => exact h.trans (NExt.target _)

theorem NExt.senseIters (tl : List TgtSpec) (single : Bool) (k : Nat) (s : St) : NExt s (senseIters tl single k s).2 := by
  induction k generalizing s with
  | zero => exact NExt.refl s
  | succ k ih =>
    have h := NExt.senseTargets single tl s
    unfold Clf.senseIters
    rcases hr : Clf.senseTargets single tl s with ⟨r1, s1⟩
    rw [hr] at h
    cases r1 with
    | error e => exact h
    | ok o => cases o with
      | some x => exact h
      | none =>
        simp only
        by_cases hemp : tl.isEmpty = true
        · simp only [hemp, if_true]
          split
          · exact h.trans (ih _)
          · exact (h.trans (NExt.emit_sleep _)).trans (ih _)
        · simp only [hemp]
          have h2 := NExt.simpleCall .mute s1
          rcases hm : Clf.simpleCall .mute s1 with ⟨r2, s2⟩
          rw [hm] at h2
          cases r2 with
          | error e => exact h.trans h2
          | ok u =>
            show NExt s (Clf.senseIters tl single k (if k = 0 then s2 else s2.emit .sleep)).2
            split
            · exact (h.trans h2).trans (ih _)
            · exact ((h.trans h2).trans (NExt.emit_sleep _)).trans (ih _)

theorem NExt.sense (tl : List TgtSpec) (iters : Int) (s : St) : NExt s (sense tl iters s).2 := by
  unfold Clf.sense
  split
  · exact NExt.refl s
  · have h2 := NExt.simpleCall .mute { s with target := .none }
    rcases hm : Clf.simpleCall .mute { s with target := .none } with ⟨r2, s2⟩
    rw [hm] at h2
    cases r2 with
    | error e => exact (NExt.target _).trans h2
    | ok u => exact ((NExt.target _).trans h2).trans (NExt.senseIters _ _ _ _)

theorem NExt.listen (t : LtSpec) (s : St) : NExt s (listen t s).2 := by
  unfold Clf.listen
  have h2 := (NExt.target (s := s) .none).trans (NExt.simpleCall .mute { s with target := .none })
  rcases hm : Clf.simpleCall .mute { s with target := .none } with ⟨r2, s2⟩
  rw [hm] at h2
  cases r2 with
  | error e => exact h2
  | ok u =>
    simp only
    cases t with
    | other => exact h2
    | dep =>
      have h3 := NExt.drvListen .listenDep s2
      rcases hd : Clf.drvListen .listenDep s2 with ⟨r3, s3⟩
      rw [hd] at h3
      cases r3 with
      | error e => exact h2.trans h3
      | ok o => cases o with
        | none => exact h2.trans h3
        | some x => simp only; split
                    · exact (h2.trans h3).trans (NExt.target _)
                    · exact h2.trans h3
    | a =>
      have h3 := NExt.drvListen .listenA s2
      rcases hd : Clf.drvListen .listenA s2 with ⟨r3, s3⟩
      rw [hd] at h3
      cases r3 with
      | error e => exact h2.trans h3
      | ok o => cases o with
        | none => exact h2.trans h3
        | some x => exact (h2.trans h3).trans (NExt.target _)
    | b =>
      have h3 := NExt.drvListen .listenB s2
      rcases hd : Clf.drvListen .listenB s2 with ⟨r3, s3⟩
      rw [hd] at h3
      cases r3 with
      | error e => exact h2.trans h3
      | ok o => cases o with
        | none => exact h2.trans h3
        | some x => exact (h2.trans h3).trans (NExt.target _)
    | f =>
      have h3 := NExt.drvListen .listenF s2
      rcases hd : Clf.drvListen .listenF s2 with ⟨r3, s3⟩
      rw [hd] at h3
      cases r3 with
      | error e => exact h2.trans h3
      | ok o => cases o with
        | none => exact h2.trans h3
        | some x => exact (h2.trans h3).trans (NExt.target _)

/-! ## monitor transitions of the single events -/

theorem mon_discover {s : St} {q : Q} (h : mon s.log = some q) (hq : q.idleLike = true) (r : Role) (hr : r ≠ .llcp)
    (c : Nat) (b : Bool) :
    mon (s.emit (.cb r .discover c b)).log = some (if codeTruthy c then .disc r else .idle false) := by
  rw [mon_emit, h]
  cases q <;> simp [Q.idleLike] at hq <;> simp [step, stepIdle, hr]

theorem mon_connect_disc {s : St} {r : Role} (h : mon s.log = some (.disc r)) (c : Nat) (b : Bool) :
    mon (s.emit (.cb r .connect c b)).log = some (if codeTruthy c then .conn r else .finObj r) := by
  rw [mon_emit, h]; simp [step, stepIdle]

theorem mon_connect_llcp {s : St} {q : Q} (h : mon s.log = some q) (hq : q.idleLike = true) (c : Nat) (b : Bool) :
    mon (s.emit (.cb .llcp .connect c b)).log = some (if codeTruthy c then .conn .llcp else .finObj .llcp) := by
  rw [mon_emit, h]
  cases q <;> simp [Q.idleLike] at hq <;> simp [step, stepIdle]

theorem mon_release {s : St} {r : Role} (h : mon s.log = some (.conn r)) (c : Nat) (b : Bool) :
    mon (s.emit (.cb r .release c b)).log = some (if codeTruthy c then .finRel r c else .idle false) := by
  rw [mon_emit, h]; simp [step]

theorem mon_term_idle {s : St} {q : Q} (h : mon s.log = some q) (hq : q.idleLike = true) (b : Bool) :
    mon (s.emit (.term b)).log = some (.idle b) := by
  rw [mon_emit, h]
  cases q <;> simp [Q.idleLike] at hq <;> simp [step, stepIdle]

theorem mon_term_conn {s : St} {r : Role} (h : mon s.log = some (.conn r)) (b : Bool) :
    mon (s.emit (.term b)).log = some (.conn r) := by
  rw [mon_emit, h]; simp [step]

theorem Cb.run_eq (c : Cb) (d : Val) (r : Role) (k : CbKind) (s : St) :
    ∃ b, c.run d r k s = ((c.run d r k s).1, s.emit (.cb r k (c.run d r k s).1.code b)) := by
  cases c <;> simp [Cb.run]

/-! ## the loops keep the activation open -/

theorem presenceLoop_mon (ts : List Bool) (s : St) (r : Role) (h : mon s.log = some (.conn r)) :
    mon (presenceLoop ts s).2.1.log = some (.conn r) ∧ (presenceLoop ts s).2.2.length ≤ ts.length := by
  induction ts generalizing s with
  | nil => exact ⟨mon_term_conn h true, by simp [presenceLoop]⟩
  | cons b rest ih =>
    cases b with
    | true => exact ⟨mon_term_conn h true, by simp [presenceLoop]⟩
    | false =>
      unfold presenceLoop
      have h1 := mon_term_conn h false
      have hx := NExt.exchange (s.emit (.term false))
      rcases hr : exchange (s.emit (.term false)) with ⟨r1, s1⟩
      rw [hr] at hx
      have h2 : mon s1.log = some (.conn r) := by rw [hx.mon]; exact h1
      cases r1 with
      | error e =>
        simp only
        split <;> exact ⟨h2, by simp⟩
      | ok o =>
        cases o with
        | none => exact ⟨h2, by simp⟩
        | some x =>
          simp only
          have h3 : mon (s1.emit .sleep).log = some (.conn r) := by rw [(NExt.emit_sleep s1).mon]; exact h2
          have := ih (s1.emit .sleep) h3
          exact ⟨this.1, by have := this.2; simp only [List.length_cons]; omega⟩

theorem cardLoop_mon (ts : List Bool) (s : St) (r : Role) (h : mon s.log = some (.conn r)) :
    mon (cardLoop ts s).2.1.log = some (.conn r) ∧ (cardLoop ts s).2.2.length ≤ ts.length := by
  induction ts generalizing s with
  | nil => exact ⟨mon_term_conn h true, by simp [cardLoop]⟩
  | cons b rest ih =>
    cases b with
    | true => exact ⟨mon_term_conn h true, by simp [cardLoop]⟩
    | false =>
      unfold cardLoop
      have h1 := mon_term_conn h false
      have hx := NExt.exchange (s.emit (.term false))
      rcases hr : exchange (s.emit (.term false)) with ⟨r1, s1⟩
      rw [hr] at hx
      have h2 : mon s1.log = some (.conn r) := by rw [hx.mon]; exact h1
      have hrec := ih s1 h2
      cases r1 with
      | error e =>
        simp only
        split
        · exact ⟨h2, by simp⟩
        · split
          · exact ⟨hrec.1, by have := hrec.2; simp only [List.length_cons]; omega⟩
          · exact ⟨h2, by simp⟩
      | ok o => exact ⟨hrec.1, by have := hrec.2; simp only [List.length_cons]; omega⟩

theorem runPolls_mon (n : Nat) (ts : List Bool) (s : St) (r : Role) (h : mon s.log = some (.conn r)) :
    mon (runPolls n ts s).1.log = some (.conn r) ∧ (runPolls n ts s).2.length ≤ ts.length := by
  induction n generalizing ts s with
  | zero => exact ⟨h, by simp [runPolls]⟩
  | succ k ih =>
    cases ts with
    | nil => exact ⟨mon_term_conn h true, by simp [runPolls]⟩
    | cons b rest =>
      cases b with
      | true => exact ⟨mon_term_conn h true, by simp [runPolls]⟩
      | false =>
        have := ih rest (s.emit (.term false)) (mon_term_conn h false)
        exact ⟨this.1, by have := this.2; simp only [runPolls, List.length_cons] at *; omega⟩

/-- what a `_xxx_connect` step leaves behind -/
def StepPost (r : Py RetVal) (q' : Q) : Prop :=
  match r with
  | .ok .none => q'.idleLike = true
  | .ok (.obj ro) => q' = .finObj ro
  | .ok (.val ro v) => q' = (if v.truthy then .finRel ro v.code else .idle false)
  | .error _ => True

def StepSpec (ts : List Bool) (s : St) (out : StepOut) : Prop :=
  ∀ q, mon s.log = some q → q.idleLike = true →
    ∃ q', mon out.2.1.log = some q' ∧ StepPost out.1 q' ∧ out.2.2.length ≤ ts.length

theorem rdwrStep_spec (o : RdwrOpts) (ts : List Bool) (s : St) : StepSpec ts s (rdwrStep o ts s) := by
  intro q hq hidle
  unfold rdwrStep
  have hs := NExt.sense o.targets o.iters s
  rcases hr : sense o.targets o.iters s with ⟨r1, s1⟩
  rw [hr] at hs
  have h1 : mon s1.log = some q := by rw [hs.mon]; exact hq
  cases r1 with
  | error e => exact ⟨q, h1, trivial, Nat.le_refl _⟩
  | ok o1 =>
    cases o1 with
    | none => exact ⟨q, h1, hidle, Nat.le_refl _⟩
    | some x =>
      obtain ⟨id, f⟩ := x
      simp only
      obtain ⟨b1, hd⟩ := Cb.run_eq o.discover (defaultDiscover f) .rdwr .discover s1
      rw [hd]
      simp only
      generalize (o.discover.run (defaultDiscover f) .rdwr .discover s1).1 = dv at *
      have h2 := mon_discover h1 hidle .rdwr (by decide) dv.code b1
      rw [codeTruthy_code] at h2
      cases hdv : dv.truthy with
      | false =>
        simp only [hdv] at h2 ⊢
        exact ⟨_, h2, rfl, Nat.le_refl _⟩
      | true =>
        simp only [hdv] at h2 ⊢
        simp only [Bool.not_true, Bool.false_eq_true, if_false]
        have ha := NExt.ask (s1.emit (.cb .rdwr .discover dv.code b1)) .activate
        rcases hask : (s1.emit (.cb .rdwr .discover dv.code b1)).ask .activate with ⟨a, s3⟩
        rw [hask] at ha
        have h3 : mon s3.log = some (.disc .rdwr) := by rw [ha.mon]; exact h2
        simp only
        cases a with
        | found f2 =>
          simp only
          obtain ⟨b2, hc⟩ := Cb.run_eq o.connect .true_ .rdwr .connect s3
          rw [hc]
          simp only
          generalize (o.connect.run .true_ .rdwr .connect s3).1 = cv at *
          have h4 := mon_connect_disc h3 cv.code b2
          rw [codeTruthy_code] at h4
          cases hcv : cv.truthy with
          | false =>
            simp only [hcv] at h4 ⊢
            exact ⟨_, h4, rfl, Nat.le_refl _⟩
          | true =>
            simp only [hcv] at h4 ⊢
            simp only [Bool.not_true, Bool.false_eq_true, if_false]
            -- LED on (optional)
            have h5 : ∀ r5 s5, (if o.beep then simpleCall .ledOn (s3.emit (.cb .rdwr .connect cv.code b2)) else (.ok (), s3.emit (.cb .rdwr .connect cv.code b2))) = (r5, s5) →
                mon s5.log = some (.conn .rdwr) := by
              intro r5 s5 h
              split at h
              · have := NExt.simpleCall .ledOn (s3.emit (.cb .rdwr .connect cv.code b2))
                rw [h] at this; rw [this.mon]; exact h4
              · cases h; exact h4
            rcases hled : (if o.beep then simpleCall .ledOn (s3.emit (.cb .rdwr .connect cv.code b2)) else (.ok (), s3.emit (.cb .rdwr .connect cv.code b2))) with ⟨r5, s5⟩
            have h5' := h5 r5 s5 hled
            cases r5 with
            | error e => exact ⟨_, h5', trivial, Nat.le_refl _⟩
            | ok u =>
              simp only
              have hp := presenceLoop_mon ts s5 .rdwr h5'
              rcases hpl : presenceLoop ts s5 with ⟨r6, s6, ts1⟩
              rw [hpl] at hp
              simp only at hp
              cases r6 with
              | error e => exact ⟨_, hp.1, trivial, hp.2⟩
              | ok u2 =>
                simp only
                have hoff := NExt.simpleCall .ledOff s6
                rcases hlo : simpleCall .ledOff s6 with ⟨r7, s7⟩
                rw [hlo] at hoff
                have h7 : mon s7.log = some (.conn .rdwr) := by rw [hoff.mon]; exact hp.1
                cases r7 with
                | error e => exact ⟨_, h7, trivial, hp.2⟩
                | ok u3 =>
                  simp only
                  obtain ⟨b3, hrel⟩ := Cb.run_eq o.release .true_ .rdwr .release s7
                  rw [hrel]
                  simp only
                  generalize (o.release.run .true_ .rdwr .release s7).1 = rv at *
                  have h8 := mon_release h7 rv.code b3
                  rw [codeTruthy_code] at h8
                  exact ⟨_, h8, rfl, hp.2⟩
        | ioError => exact ⟨_, h3, trivial, Nat.le_refl _⟩
        | kbd => exact ⟨_, h3, trivial, Nat.le_refl _⟩
        | _ => exact ⟨_, h3, rfl, Nat.le_refl _⟩

theorem llcpRole_spec (o : LlcpOpts) (ini : Bool) (ts : List Bool) (s : St) :
    ∀ q, mon s.log = some q → q.idleLike = true →
      ∃ q', mon (llcpRole o ini ts s).2.1.log = some q' ∧ (llcpRole o ini ts s).2.2.length ≤ ts.length ∧
        (match (llcpRole o ini ts s).1 with
         | none => q' = q
         | some r => StepPost r q') := by
  intro q hq hidle
  unfold llcpRole
  have ha := NExt.ask s (.llcActivate ini)
  rcases hask : s.ask (.llcActivate ini) with ⟨a, s1⟩
  rw [hask] at ha
  have h1 : mon s1.log = some q := by rw [ha.mon]; exact hq
  simp only
  cases a with
  | found f =>
    simp only
    obtain ⟨b2, hc⟩ := Cb.run_eq o.connect .true_ .llcp .connect s1
    rw [hc]
    simp only
    generalize (o.connect.run .true_ .llcp .connect s1).1 = cv at *
    have h2 := mon_connect_llcp h1 hidle cv.code b2
    rw [codeTruthy_code] at h2
    cases hcv : cv.truthy with
    | false =>
      simp only [hcv] at h2 ⊢
      exact ⟨_, h2, Nat.le_refl _, rfl⟩
    | true =>
      simp only [hcv] at h2 ⊢
      simp only [Bool.not_true, Bool.false_eq_true, if_false]
      have hb := NExt.ask (s1.emit (.cb .llcp .connect cv.code b2)) .llcRun
      rcases hask2 : (s1.emit (.cb .llcp .connect cv.code b2)).ask .llcRun with ⟨a2, s3⟩
      rw [hask2] at hb
      have h3 : mon s3.log = some (.conn .llcp) := by rw [hb.mon]; exact h2
      simp only
      have key : ∀ n, ∃ q', mon ((o.release.run .true_ .llcp .release (runPolls n ts s3).1).2).log = some q' ∧
          (runPolls n ts s3).2.length ≤ ts.length ∧
          StepPost (.ok (.val .llcp (o.release.run .true_ .llcp .release (runPolls n ts s3).1).1)) q' := by
        intro n
        have hp := runPolls_mon n ts s3 .llcp h3
        obtain ⟨b3, hrel⟩ := Cb.run_eq o.release .true_ .llcp .release (runPolls n ts s3).1
        rw [hrel]
        simp only
        generalize (o.release.run .true_ .llcp .release (runPolls n ts s3).1).1 = rv at *
        have h8 := mon_release hp.1 rv.code b3
        rw [codeTruthy_code] at h8
        exact ⟨_, h8, hp.2, rfl⟩
      cases a2 with
      | ioError => exact ⟨_, h3, Nat.le_refl _, trivial⟩
      | kbd => exact ⟨_, h3, Nat.le_refl _, trivial⟩
      | sysExit => exact ⟨_, h3, Nat.le_refl _, trivial⟩
      | polls n => exact key n
      | _ => exact key 0
  | ioError => exact ⟨_, h1, Nat.le_refl _, trivial⟩
  | kbd => exact ⟨_, h1, Nat.le_refl _, trivial⟩
  | _ => exact ⟨_, h1, Nat.le_refl _, rfl⟩

theorem llcpStep_spec (o : LlcpOpts) (ts : List Bool) (s : St) : StepSpec ts s (llcpStep o ts s) := by
  intro q hq hidle
  unfold llcpStep
  have first : ∃ q1, mon (if o.role = .both ∨ o.role = .target then llcpRole o false ts s else (none, s, ts)).2.1.log = some q1 ∧
      (if o.role = .both ∨ o.role = .target then llcpRole o false ts s else (none, s, ts)).2.2.length ≤ ts.length ∧
      (match (if o.role = .both ∨ o.role = .target then llcpRole o false ts s else (none, s, ts)).1 with
         | none => q1 = q
         | some r => StepPost r q1) := by
    split
    · exact llcpRole_spec o false ts s q hq hidle
    · exact ⟨q, hq, Nat.le_refl _, rfl⟩
  rcases h1 : (if o.role = .both ∨ o.role = .target then llcpRole o false ts s else (none, s, ts)) with ⟨r1, s1, ts1⟩
  rw [h1] at first
  obtain ⟨q1, hm1, hl1, hp1⟩ := first
  simp only at hm1 hl1 hp1
  cases r1 with
  | some r => exact ⟨q1, hm1, hp1, hl1⟩
  | none =>
    simp only at hp1
    subst hp1
    simp only
    have second : ∃ q2, mon (if o.role = .both ∨ o.role = .initiator then llcpRole o true ts1 s1 else (none, s1, ts1)).2.1.log = some q2 ∧
        (if o.role = .both ∨ o.role = .initiator then llcpRole o true ts1 s1 else (none, s1, ts1)).2.2.length ≤ ts1.length ∧
        (match (if o.role = .both ∨ o.role = .initiator then llcpRole o true ts1 s1 else (none, s1, ts1)).1 with
           | none => q2 = q1
           | some r => StepPost r q2) := by
      split
      · exact llcpRole_spec o true ts1 s1 q1 hm1 hidle
      · exact ⟨q1, hm1, Nat.le_refl _, rfl⟩
    rcases h2 : (if o.role = .both ∨ o.role = .initiator then llcpRole o true ts1 s1 else (none, s1, ts1)) with ⟨r2, s2, ts2⟩
    rw [h2] at second
    obtain ⟨q2, hm2, hl2, hp2⟩ := second
    simp only at hm2 hl2 hp2
    cases r2 with
    | some r => exact ⟨q2, hm2, hp2, by simp only; omega⟩
    | none =>
      simp only at hp2
      subst hp2
      exact ⟨q2, hm2, hidle, by simp only; omega⟩

theorem cardStep_spec (o : CardOpts) (ts : List Bool) (s : St) : StepSpec ts s (cardStep o ts s) := by
  intro q hq hidle
  unfold cardStep
  have hs := NExt.listen o.target s
  rcases hr : listen o.target s with ⟨r1, s1⟩
  rw [hr] at hs
  have h1 : mon s1.log = some q := by rw [hs.mon]; exact hq
  cases r1 with
  | error e =>
    by_cases hce : isCommErr e = true
    · simp only [hce, if_true]; exact ⟨q, h1, hidle, Nat.le_refl _⟩
    · simp only [hce]; exact ⟨q, h1, trivial, Nat.le_refl _⟩
  | ok o1 =>
    cases o1 with
    | none => exact ⟨q, h1, hidle, Nat.le_refl _⟩
    | some x =>
      simp only
      obtain ⟨b1, hd⟩ := Cb.run_eq o.discover .true_ .card .discover s1
      rw [hd]
      simp only
      generalize (o.discover.run .true_ .card .discover s1).1 = dv at *
      have h2 := mon_discover h1 hidle .card (by decide) dv.code b1
      rw [codeTruthy_code] at h2
      cases hdv : dv.truthy with
      | false =>
        simp only [hdv] at h2 ⊢
        exact ⟨_, h2, rfl, Nat.le_refl _⟩
      | true =>
        simp only [hdv] at h2 ⊢
        simp only [Bool.not_true, Bool.false_eq_true, if_false]
        have ha := NExt.ask (s1.emit (.cb .card .discover dv.code b1)) .emulate
        rcases hask : (s1.emit (.cb .card .discover dv.code b1)).ask .emulate with ⟨a, s3⟩
        rw [hask] at ha
        have h3 : mon s3.log = some (.disc .card) := by rw [ha.mon]; exact h2
        simp only
        cases a with
        | found f2 =>
          simp only
          obtain ⟨b2, hc⟩ := Cb.run_eq o.connect .true_ .card .connect s3
          rw [hc]
          simp only
          generalize (o.connect.run .true_ .card .connect s3).1 = cv at *
          have h4 := mon_connect_disc h3 cv.code b2
          rw [codeTruthy_code] at h4
          cases hcv : cv.truthy with
          | false =>
            simp only [hcv] at h4 ⊢
            exact ⟨_, h4, rfl, Nat.le_refl _⟩
          | true =>
            simp only [hcv] at h4 ⊢
            simp only [Bool.not_true, Bool.false_eq_true, if_false]
            have hp := cardLoop_mon ts (s3.emit (.cb .card .connect cv.code b2)) .card h4
            rcases hpl : cardLoop ts (s3.emit (.cb .card .connect cv.code b2)) with ⟨r6, s6, ts1⟩
            rw [hpl] at hp
            simp only at hp
            cases r6 with
            | error e => exact ⟨_, hp.1, trivial, hp.2⟩
            | ok u2 =>
              simp only
              obtain ⟨b3, hrel⟩ := Cb.run_eq o.release .true_ .card .release s6
              rw [hrel]
              simp only
              generalize (o.release.run .true_ .card .release s6).1 = rv at *
              have h8 := mon_release hp.1 rv.code b3
              rw [codeTruthy_code] at h8
              exact ⟨_, h8, rfl, hp.2⟩
        | ioError => exact ⟨_, h3, trivial, Nat.le_refl _⟩
        | kbd => exact ⟨_, h3, trivial, Nat.le_refl _⟩
        | _ => exact ⟨_, h3, rfl, Nat.le_refl _⟩

/-- what connect()'s main loop leaves behind -/
def MainPost (r : Py RetVal) (q' : Q) : Prop :=
  match r with
  | .ok .none => q' = .idle true
  | .ok (.obj ro) => q' = .finObj ro
  | .ok (.val ro v) => v.truthy = true ∧ q' = .finRel ro v.code
  | .error _ => True

theorem tryStep_spec (f : Option (List Bool → St → StepOut)) (hf : ∀ g, f = some g → ∀ ts s, StepSpec ts s (g ts s))
    (ts : List Bool) (s : St) (q : Q) (hq : mon s.log = some q) (hidle : q.idleLike = true) :
    ∃ q', mon (tryStep f ts s).2.1.log = some q' ∧ (tryStep f ts s).2.2.length ≤ ts.length ∧
      (match (tryStep f ts s).1 with
       | none => q'.idleLike = true
       | some (r, s1) => s1 = (tryStep f ts s).2.1 ∧ MainPost r q') := by
  cases f with
  | none => exact ⟨q, hq, Nat.le_refl _, hidle⟩
  | some g =>
    obtain ⟨q', h1, h2, h3⟩ := hf g rfl ts s q hq hidle
    simp only [tryStep]
    rcases hg : g ts s with ⟨r, s1, ts1⟩
    rw [hg] at h1 h2 h3
    simp only at h1 h2 h3
    cases r with
    | error e => exact ⟨q', h1, h3, rfl, trivial⟩
    | ok v =>
      cases v with
      | none => exact ⟨q', h1, h3, h2⟩
      | obj ro => exact ⟨q', h1, h3, rfl, h2⟩
      | val ro v =>
        simp only [RetVal.truthy]
        by_cases hv : v.truthy = true
        · simp only [hv, if_true]
          simp only [StepPost, hv, if_true] at h2
          exact ⟨q', h1, h3, trivial, hv, h2⟩
        · simp only [hv]
          simp only [StepPost, hv] at h2
          exact ⟨q', h1, h3, by rw [h2]; rfl⟩

theorem mainLoop_spec (l : Live) (k : Nat) (ts : List Bool) (s : St) (q : Q) (hk : ts.length < k)
    (hq : mon s.log = some q) (hidle : q.idleLike = true) :
    ∃ r s', mainLoop l k ts s = some (r, s') ∧ ∃ q', mon s'.log = some q' ∧ MainPost r q' := by
  induction k generalizing ts s q with
  | zero => omega
  | succ k ih =>
    unfold mainLoop
    cases ts with
    | nil => exact ⟨_, _, rfl, _, mon_term_idle hq hidle true, rfl⟩
    | cons b rest =>
      cases b with
      | true => exact ⟨_, _, rfl, _, mon_term_idle hq hidle true, rfl⟩
      | false =>
        simp only [askTerm]
        have h0 := mon_term_idle hq hidle false
        have hlen : rest.length < k := by simp only [List.length_cons] at hk; omega
        obtain ⟨q1, hm1, hl1, hp1⟩ := tryStep_spec (l.rdwr.map rdwrStep)
          (by intro g hg; cases hr : l.rdwr with
              | none => simp [hr] at hg
              | some o => simp [hr] at hg; subst hg; exact rdwrStep_spec o)
          rest (s.emit (.term false)) _ h0 rfl
        rcases h1 : tryStep (l.rdwr.map rdwrStep) rest (s.emit (.term false)) with ⟨r1, s1, ts1⟩
        rw [h1] at hm1 hl1 hp1
        simp only at hm1 hl1 hp1
        cases r1 with
        | some x => obtain ⟨r, sx⟩ := x; obtain ⟨hsx, hmp⟩ := hp1; subst hsx; exact ⟨_, _, rfl, q1, hm1, hmp⟩
        | none =>
          simp only
          obtain ⟨q2, hm2, hl2, hp2⟩ := tryStep_spec (l.llcp.map llcpStep)
            (by intro g hg; cases hr : l.llcp with
                | none => simp [hr] at hg
                | some o => simp [hr] at hg; subst hg; exact llcpStep_spec o)
            ts1 s1 q1 hm1 hp1
          rcases h2 : tryStep (l.llcp.map llcpStep) ts1 s1 with ⟨r2, s2, ts2⟩
          rw [h2] at hm2 hl2 hp2
          simp only at hm2 hl2 hp2
          cases r2 with
          | some x => obtain ⟨r, sx⟩ := x; obtain ⟨hsx, hmp⟩ := hp2; subst hsx; exact ⟨_, _, rfl, q2, hm2, hmp⟩
          | none =>
            simp only
            obtain ⟨q3, hm3, hl3, hp3⟩ := tryStep_spec (l.card.map cardStep)
              (by intro g hg; cases hr : l.card with
                  | none => simp [hr] at hg
                  | some o => simp [hr] at hg; subst hg; exact cardStep_spec o)
              ts2 s2 q2 hm2 hp2
            rcases h3 : tryStep (l.card.map cardStep) ts2 s2 with ⟨r3, s3, ts3⟩
            rw [h3] at hm3 hl3 hp3
            simp only at hm3 hl3 hp3
            cases r3 with
            | some x => obtain ⟨r, sx⟩ := x; obtain ⟨hsx, hmp⟩ := hp3; subst hsx; exact ⟨_, _, rfl, q3, hm3, hmp⟩
            | none =>
              simp only
              exact ih ts3 s3 q3 (by omega) hm3 hp3

theorem mon_startupEvent {s : St} {k : Nat} (h : mon s.log = some (.su k)) (r : Role) (hk : k ≤ rank r)
    (su : Option (StartRes × Nat)) : mon (startupEvent r su s).log = some (.su (rank r + 1)) := by
  cases su with
  | none => simp only [startupEvent]; rw [mon_emit, h]; simp [step, hk]
  | some x => obtain ⟨a, b⟩ := x; simp only [startupEvent]; rw [mon_emit, h]; simp [step, hk]

theorem startupRest_mon (o : Opts) (ll : Option LlcpOpts) (s1 : St) (k1 : Nat) (hk1 : k1 ≤ 1)
    (h1 : mon s1.log = some (.su k1)) :
    (∃ k, mon (startupRest o ll s1).2.log = some (.su k)) ∧ ∀ e, (startupRest o ll s1).1 = .error e → e = .type_ := by
  unfold startupRest
  cases o.rdwr with
  | none =>
    simp only
    cases o.card with
    | none => exact ⟨⟨k1, h1⟩, by simp⟩
    | some c => exact ⟨⟨3, mon_startupEvent h1 .card (by simp [rank]; omega) _⟩, by simp⟩
  | some r =>
    simp only
    have h2 := mon_startupEvent h1 .rdwr (by simp [rank]; omega) r.startup
    split
    · exact ⟨⟨2, h2⟩, by simp⟩
    · cases o.card with
      | none => exact ⟨⟨2, h2⟩, by simp⟩
      | some c => exact ⟨⟨3, mon_startupEvent h2 .card (by simp [rank]) _⟩, by simp⟩

theorem startupPhase_mon (o : Opts) (env : List Ans) :
    (∃ k, mon (startupPhase o (St.init env)).2.log = some (.su k)) ∧
    ∀ e, (startupPhase o (St.init env)).1 = .error e → e = .type_ := by
  have h0 : mon (St.init env).log = some (.su 0) := rfl
  unfold startupPhase
  cases o.llcp with
  | none => exact startupRest_mon o _ _ 0 (by omega) h0
  | some l => exact startupRest_mon o _ _ 1 (by omega) (mon_startupEvent h0 .llcp (by simp [rank]) _)

/-- the master statement about `connect`: the log is a legal history and the outcome
matches the state the history ends in -/
theorem connect_spec (o : Opts) (env : List Ans) (ts : List Bool) :
    ∃ q, mon (connect o env ts).2.log = some q ∧
      (match (connect o env ts).1 with
       | .ret .none => q = .idle true ∨ ∃ k, q = .su k
       | .ret (.obj r) => q = .finObj r
       | .ret (.val r v) => v.truthy = true ∧ q = .finRel r v.code
       | .caught e => isCaught e = true
       | .raised e => isCaught e = false) := by
  obtain ⟨⟨k, hk⟩, herr⟩ := startupPhase_mon o env
  unfold connect
  rcases hs : startupPhase o (St.init env) with ⟨r0, s0⟩
  rw [hs] at hk herr
  simp only at hk herr
  cases r0 with
  | error e =>
    refine ⟨_, hk, ?_⟩
    simp only
    have := herr e rfl
    subst this; simp [isCaught]
  | ok l =>
    simp only
    split
    · exact ⟨_, hk, Or.inr ⟨k, rfl⟩⟩
    · obtain ⟨r, s', hm, q', hq', hp⟩ := mainLoop_spec l (ts.length + 1) ts s0 (.su k) (by omega) hk rfl
      rw [hm]
      cases r with
      | error e =>
        simp only
        cases hc : isCaught e with
        | true => exact ⟨q', hq', hc⟩
        | false => exact ⟨q', hq', hc⟩
      | ok v =>
        refine ⟨q', hq', ?_⟩
        cases v with
        | none => exact Or.inl hp
        | obj r => exact hp
        | val r v => exact hp

/-! ## on-release is owed exactly once per true on-connect: a property of the monitor alone -/

def isConnTrue (r : Role) : Ev → Bool
  | .cb r' .connect c _ => r' == r && codeTruthy c
  | _ => false

def isRelease (r : Role) : Ev → Bool
  | .cb r' .release _ _ => r' == r
  | _ => false

/-- 1 while an on-release of role r is owed -/
def owed (r : Role) : Q → Nat
  | .conn r' => if r' = r then 1 else 0
  | _ => 0

theorem step_counts (r : Role) (q q' : Q) (e : Ev) (h : step q e = some q') :
    (if isConnTrue r e then 1 else 0) + owed r q = (if isRelease r e then 1 else 0) + owed r q' := by
  cases e with
  | call s a => cases q <;> simp [step] at h <;> subst h <;> simp [isConnTrue, isRelease]
  | sleep => cases q <;> simp [step] at h <;> subst h <;> simp [isConnTrue, isRelease]
  | term b =>
    cases q <;> simp [step, stepIdle] at h <;> subst h <;> simp [isConnTrue, isRelease, owed]
  | cb r' k c d =>
    cases hct : codeTruthy c <;> cases k <;> cases q <;> simp [step, stepIdle, hct] at h <;>
      (first | (obtain ⟨hc, rfl⟩ := h) | subst h) <;>
      cases r <;> cases r' <;> simp_all [isConnTrue, isRelease, owed]

theorem runFrom_counts (r : Role) (l : List Ev) (q q' : Q) (h : runFrom q l = some q') :
    l.countP (isConnTrue r) + owed r q = l.countP (isRelease r) + owed r q' := by
  induction l generalizing q with
  | nil => simp [runFrom] at h; subst h; simp
  | cons e rest ih =>
    simp only [runFrom] at h
    cases hs : step q e with
    | none => simp [hs] at h
    | some q1 =>
      simp only [hs, Option.bind_some] at h
      have h1 := step_counts r q q1 e hs
      have h2 := ih q1 h
      simp only [List.countP_cons]
      by_cases hc : isConnTrue r e = true <;> by_cases hr : isRelease r e = true <;>
        simp only [hc, hr, if_true, if_false, Bool.false_eq_true] at h1 ⊢ <;> omega
end NfcVerif.Clf
