import NfcVerif.Model.Connect
import NfcVerif.Lemmas.Sense
/-!
# Lemmas about the model of `connect()` (C18)

The callback discipline is a monitor automaton `step` over the event log; `mon log` is the
state the history ends in (`none`: the history is illegal).  Every piece of the model is shown
to move the monitor as the documentation prescribes; `connect_spec` is the master statement.
-/
namespace NfcVerif.Clf

/-! ## The callback discipline as a monitor over the event log -/

def codeTruthy (c : Nat) : Bool := c == 2 || c == 4 || c == 6

theorem codeTruthy_code (v : Val) : codeTruthy v.code = v.truthy := by cases v <;> rfl

/-- order of the on-startup calls: llcp, rdwr, card -/
def rank : Role → Nat | .llcp => 0 | .rdwr => 1 | .card => 2

/-- monitor states -/
inductive Q
  | su (k : Nat)              -- option preparation: roles of rank < k are done
  | idle (tt : Bool)          -- no activation open; tt: the last callback/terminate event was a true terminate()
  | disc (r : Role)           -- on-discover of r returned a true value
  | conn (r : Role)           -- on-connect of r returned a true value, on-release is owed
  | finObj (r : Role)         -- on-connect of r returned a false value: nothing may follow
  | finRel (r : Role) (c : Nat)  -- on-release of r returned the true value with code c: nothing may follow
  deriving DecidableEq, Repr

def Q.idleLike : Q → Bool
  | .su _ | .idle _ | .disc _ => true
  | _ => false

/-- transitions outside an activation; `d`: role whose on-discover just returned true -/
def stepIdle (d : Option Role) : Ev → Option Q
  | .term b => some (.idle b)
  | .cb r .discover c _ => if r = .llcp then none else some (if codeTruthy c then .disc r else .idle false)
  | .cb r .connect c _ =>
    if r = .llcp ∨ d = some r then some (if codeTruthy c then .conn r else .finObj r) else none
  | _ => none

def step : Q → Ev → Option Q
  | q, .call _ _ => some q
  | q, .sleep => some q
  | .su k, .cb r .startup _ _ => if k ≤ rank r then some (.su (rank r + 1)) else none
  | .su _, e => stepIdle none e
  | .idle _, e => stepIdle none e
  | .disc r, e => stepIdle (some r) e
  | .conn r, .term _ => some (.conn r)
  | .conn r, .cb r' .release c _ => if r = r' then some (if codeTruthy c then .finRel r c else .idle false) else none
  | _, _ => none

def runFrom : Q → List Ev → Option Q
  | q, [] => some q
  | q, e :: l => (step q e).bind (fun q' => runFrom q' l)

/-- the log is a legal history: on-startup first (llcp, rdwr, card), then activations
discover → connect → release, release only (and immediately) after a true on-connect of the same
role, nothing after the activation that ends connect() -/
def mon (l : List Ev) : Option Q := runFrom (.su 0) l

theorem runFrom_append (q : Q) (a b : List Ev) : runFrom q (a ++ b) = (runFrom q a).bind (fun q' => runFrom q' b) := by
  induction a generalizing q with
  | nil => simp [runFrom]
  | cons e r ih =>
    simp only [List.cons_append, runFrom]
    cases step q e with
    | none => simp
    | some q' => simp [ih]

def Ev.neutral : Ev → Bool
  | .call _ _ | .sleep => true
  | _ => false

theorem step_neutral (q : Q) (e : Ev) (h : e.neutral = true) : step q e = some q := by
  cases e <;> simp [Ev.neutral] at h <;> cases q <;> simp [step]

theorem runFrom_neutral (q : Q) (l : List Ev) (h : ∀ e ∈ l, e.neutral = true) : runFrom q l = some q := by
  induction l with
  | nil => rfl
  | cons e r ih =>
    simp only [runFrom, step_neutral q e (h e (by simp))]
    exact ih (fun e he => h e (by simp [he]))

/-- `s'` extends the log of `s` by driver/collaborator calls and sleeps only -/
def NExt (s s' : St) : Prop := ∃ seg, s'.log = s.log ++ seg ∧ ∀ e ∈ seg, e.neutral = true

theorem NExt.refl (s : St) : NExt s s := ⟨[], by simp, by simp⟩
theorem NExt.trans {a b c : St} (h1 : NExt a b) (h2 : NExt b c) : NExt a c := by
  obtain ⟨s1, l1, n1⟩ := h1
  obtain ⟨s2, l2, n2⟩ := h2
  refine ⟨s1 ++ s2, by rw [l2, l1, List.append_assoc], ?_⟩
  intro e he
  rcases List.mem_append.mp he with h | h
  · exact n1 e h
  · exact n2 e h
theorem NExt.mon {s s' : St} (h : NExt s s') : mon s'.log = mon s.log := by
  obtain ⟨seg, hl, hn⟩ := h
  unfold Clf.mon
  rw [hl, runFrom_append]
  cases hq : runFrom (.su 0) s.log with
  | none => rfl
  | some q => simp [runFrom_neutral q seg hn]
theorem NExt.of_log {s s' : St} (h : s'.log = s.log) : NExt s s' := ⟨[], by simp [h], by simp⟩

theorem mon_emit (s : St) (e : Ev) : mon (s.emit e).log = (mon s.log).bind (fun q => step q e) := by
  unfold Clf.mon St.emit
  simp only [runFrom_append]
  cases runFrom (.su 0) s.log with
  | none => rfl
  | some q => simp [runFrom]

theorem NExt.ask (s : St) (site : Site) : NExt s (s.ask site).2 := by
  obtain ⟨a, ha⟩ := ask_spec s site
  rw [ha]; exact ⟨[.call site a], rfl, by simp [Ev.neutral]⟩

theorem NExt.emit_sleep (s : St) : NExt s (s.emit .sleep) := ⟨[.sleep], rfl, by simp [Ev.neutral]⟩

theorem NExt.simpleCall (site : Site) (s : St) : NExt s (simpleCall site s).2 := by
  obtain ⟨a, h1, _⟩ := simpleCall_spec site s
  rw [h1]; exact ⟨[.call site a], rfl, by simp [Ev.neutral]⟩

theorem NExt.exchange (s : St) : NExt s (exchange s).2 := by
  have := (exchange_spec s).2
  cases ht : s.target with
  | none => rw [ht] at this; simp only at this; rw [this]; exact NExt.refl s
  | remote id => rw [ht] at this; obtain ⟨a, ha⟩ := this; exact ⟨_, ha, by simp [Ev.neutral]⟩
  | loc id => rw [ht] at this; obtain ⟨a, ha⟩ := this; exact ⟨_, ha, by simp [Ev.neutral]⟩

theorem NExt.target {s : St} (t : Tgt) : NExt s { s with target := t } := NExt.of_log rfl

theorem NExt.drvSense (site : Site) (s : St) : NExt s (drvSense site s).2 := by
  obtain ⟨a, ha⟩ := ask_spec s site
  have h := NExt.ask s site
  rw [ha] at h
  unfold Clf.drvSense
  rw [ha]
  cases a <;> exact h

theorem NExt.drvListen (site : Site) (s : St) : NExt s (drvListen site s).2 := by
  obtain ⟨a, ha⟩ := ask_spec s site
  have h := NExt.ask s site
  rw [ha] at h
  unfold Clf.drvListen
  rw [ha]
  cases a <;> exact h

theorem NExt.senseOne (t : TgtSpec) (s : St) : NExt s (senseOne t s).2 := by
  cases t with
  | dep n =>
    simp only [Clf.senseOne]
    split; exact NExt.refl s
    split; exact NExt.refl s
    exact NExt.drvSense _ s
  | a n =>
    simp only [Clf.senseOne]
    split; exact NExt.refl s
    have h := NExt.drvSense .senseA s
    rcases hr : Clf.drvSense .senseA s with ⟨r1, s1⟩
    rw [hr] at h
    cases r1 with
    | error e => exact h
    | ok o => cases o with
      | none => exact h
      | some x => simp only; split <;> exact h
  | b => exact NExt.drvSense _ s
  | f => exact NExt.drvSense _ s
  | unknown => exact NExt.refl s
  | notTarget => exact NExt.refl s

theorem NExt.senseTargets (single : Bool) (tl : List TgtSpec) (s : St) : NExt s (senseTargets single tl s).2 := by
  induction tl generalizing s with
  | nil => exact NExt.refl s
  | cons t rest ih =>
    have h := NExt.senseOne t s
    unfold Clf.senseTargets
    rcases hr : Clf.senseOne t s with ⟨r1, s1⟩
    rw [hr] at h
    cases r1 with
    | error e =>
      simp only
      split
      · split
        · exact h
        · exact h.trans (ih s1)
      · split
        · exact h.trans (ih s1)
        · exact h
    | ok o => cases o with
      | none => exact h.trans (ih s1)
      | some x => exact h.trans (NExt.target _)

theorem NExt.senseIters (tl : List TgtSpec) (single : Bool) (k : Nat) (s : St) : NExt s (senseIters tl single k s).2 := by
  induction k generalizing s with
  | zero => exact NExt.refl s
  | succ k ih =>
    have h := NExt.senseTargets single tl s
    unfold Clf.senseIters
    rcases hr : Clf.senseTargets single tl s with ⟨r1, s1⟩
    rw [hr] at h
    cases r1 with
    | error e => exact h
    | ok o => cases o with
      | some x => exact h
      | none =>
        simp only
        by_cases hemp : tl.isEmpty = true
        · simp only [hemp, if_true]
          split
          · exact h.trans (ih _)
          · exact (h.trans (NExt.emit_sleep _)).trans (ih _)
        · simp only [hemp]
          have h2 := NExt.simpleCall .mute s1
          rcases hm : Clf.simpleCall .mute s1 with ⟨r2, s2⟩
          rw [hm] at h2
          cases r2 with
          | error e => exact h.trans h2
          | ok u =>
            show NExt s (Clf.senseIters tl single k (if k = 0 then s2 else s2.emit .sleep)).2
            split
            · exact (h.trans h2).trans (ih _)
            · exact ((h.trans h2).trans (NExt.emit_sleep _)).trans (ih _)

theorem NExt.sense (tl : List TgtSpec) (iters : Int) (s : St) : NExt s (sense tl iters s).2 := by
  unfold Clf.sense
  split
  · exact NExt.refl s
  · have h2 := NExt.simpleCall .mute { s with target := .none }
    rcases hm : Clf.simpleCall .mute { s with target := .none } with ⟨r2, s2⟩
    rw [hm] at h2
    cases r2 with
    | error e => exact (NExt.target _).trans h2
    | ok u => exact ((NExt.target _).trans h2).trans (NExt.senseIters _ _ _ _)

theorem NExt.listen (t : LtSpec) (s : St) : NExt s (listen t s).2 := by
  unfold Clf.listen
  have h2 := (NExt.target (s := s) .none).trans (NExt.simpleCall .mute { s with target := .none })
  rcases hm : Clf.simpleCall .mute { s with target := .none } with ⟨r2, s2⟩
  rw [hm] at h2
  cases r2 with
  | error e => exact h2
  | ok u =>
    simp only
    cases t with
    | other => exact h2
    | dep =>
      have h3 := NExt.drvListen .listenDep s2
      rcases hd : Clf.drvListen .listenDep s2 with ⟨r3, s3⟩
      rw [hd] at h3
      cases r3 with
      | error e => exact h2.trans h3
      | ok o => cases o with
        | none => exact h2.trans h3
        | some x => simp only; split
                    · exact (h2.trans h3).trans (NExt.target _)
                    · exact h2.trans h3
    | a =>
      have h3 := NExt.drvListen .listenA s2
      rcases hd : Clf.drvListen .listenA s2 with ⟨r3, s3⟩
      rw [hd] at h3
      cases r3 with
      | error e => exact h2.trans h3
      | ok o => cases o with
        | none => exact h2.trans h3
        | some x => exact (h2.trans h3).trans (NExt.target _)
    | b =>
      have h3 := NExt.drvListen .listenB s2
      rcases hd : Clf.drvListen .listenB s2 with ⟨r3, s3⟩
      rw [hd] at h3
      cases r3 with
      | error e => exact h2.trans h3
      | ok o => cases o with
        | none => exact h2.trans h3
        | some x => exact (h2.trans h3).trans (NExt.target _)
    | f =>
      have h3 := NExt.drvListen .listenF s2
      rcases hd : Clf.drvListen .listenF s2 with ⟨r3, s3⟩
      rw [hd] at h3
      cases r3 with
      | error e => exact h2.trans h3
      | ok o => cases o with
        | none => exact h2.trans h3
        | some x => exact (h2.trans h3).trans (NExt.target _)

/-! ## `nfc.tag.activate`: only driver/collaborator calls; which exceptions leave it -/

/-- the frontend holds a remote target (the one `sense()` just returned) -/
def HasT (s : St) : Prop := ∃ id, s.target = .remote id

/-- exceptions of the local device and of a single-target `sense()`: all end connect() with False -/
def DevErr (e : Exc) : Prop := e = .io 5 ∨ e = .keyboardInterrupt ∨ e = .unsupportedTarget

/-- the piece only appends driver/collaborator calls and sleeps; what it raises is a device error
or (when `c`) a CommunicationError -/
def ActPost {α : Type} (c : Bool) (s : St) (r : R α) : Prop :=
  NExt s r.2 ∧ ∀ e, r.1 = .error e → DevErr e ∨ (c = true ∧ isCommErr e = true)

theorem xchgAnswer_ne_none (a : Ans) (s : St) : (xchgAnswer a s).1 ≠ .ok none := by
  cases a <;> simp [xchgAnswer]

theorem exchange_act (s : St) (h : HasT s) :
    ActPost true s (exchange s) ∧ HasT (exchange s).2 ∧ (exchange s).1 ≠ .ok none := by
  obtain ⟨id, hid⟩ := h
  refine ⟨⟨NExt.exchange s, ?_⟩, ⟨id, by rw [(exchange_spec s).1, hid]⟩, ?_⟩
  · intro e he
    rcases exchange_err s e he with h1 | h1 | h1
    · exact Or.inl (Or.inl h1)
    · exact Or.inl (Or.inr (Or.inl h1))
    · exact Or.inr ⟨rfl, h1⟩
  · unfold exchange
    simp only [hid]
    exact xchgAnswer_ne_none _ _

theorem senseOne_a7_err (s : St) (e : Exc) (h : (senseOne (.a 7) s).1 = .error e) :
    DevErr e ∨ isCommErr e = true := by
  obtain ⟨a, ha⟩ := ask_spec s .senseA
  have h7 : ¬ (7 ≠ 0 ∧ 7 ≠ 4 ∧ 7 ≠ 7 ∧ 7 ≠ 10) := by omega
  simp only [senseOne, h7, if_false, drvSense, ha] at h
  cases a <;> simp at h <;> try (subst h; simp [DevErr, isCommErr])
  rename_i f
  split at h
  · cases h
  · rename_i e' hc
    cases h
    have := checkTta_err _ _ hc
    subst this
    simp [isCommErr]

theorem sense_a7_err (s : St) (e : Exc) (h : (sense [.a 7] 1 s).1 = .error e) : DevErr e := by
  have hdev : ∀ e, (e = .io 5 ∨ e = .keyboardInterrupt) → DevErr e := by
    intro e h; rcases h with h | h
    · exact Or.inl h
    · exact Or.inr (Or.inl h)
  unfold sense at h
  simp only [List.any_cons, List.any_nil, Bool.or_false] at h
  have hnt : (TgtSpec.a 7 == TgtSpec.notTarget) = false := by decide
  simp only [hnt, Bool.false_eq_true, if_false] at h
  have hm := simpleCall_err .mute { s with target := .none }
  rcases hsc : simpleCall .mute { s with target := .none } with ⟨r2, s2⟩
  rw [hsc] at h hm
  cases r2 with
  | error e2 => simp only at h; cases h; exact hdev _ (hm e rfl)
  | ok u =>
    simp only at h
    have h1 : (max 1 (1 : Int)).toNat = 1 := by decide
    rw [h1] at h
    unfold senseIters at h
    unfold senseTargets at h
    have ho := senseOne_a7_err s2
    rcases hso : senseOne (.a 7) s2 with ⟨r3, s3⟩
    rw [hso] at h ho
    cases r3 with
    | error e3 =>
      simp only at h
      have hcase := ho e3 rfl
      by_cases hte : isTargetErr e3 = true
      · simp only [hte, if_true, List.length_cons, List.length_nil] at h
        simp at h
        subst h
        rcases hcase with hd | hc
        · exact hd
        · cases e3 <;> simp [isTargetErr, isCommErr] at hte hc
      · simp only [hte] at h
        by_cases hce : isCommErr e3 = true
        · simp only [hce, if_true, senseTargets] at h
          simp only [List.isEmpty_cons, Bool.false_eq_true, if_false] at h
          have hm2 := simpleCall_err .mute s3
          rcases hsc2 : simpleCall .mute s3 with ⟨r4, s4⟩
          rw [hsc2] at h hm2
          cases r4 with
          | error e4 => simp only at h; cases h; exact hdev _ (hm2 e rfl)
          | ok u2 => simp [senseIters] at h
        · simp only [hce] at h
          simp at h
          subst h
          rcases hcase with hd | hc
          · exact hd
          · exact absurd hc hce
    | ok o =>
      cases o with
      | some x => simp at h
      | none =>
        simp only [senseTargets] at h
        simp only [List.isEmpty_cons, Bool.false_eq_true, if_false] at h
        have hm2 := simpleCall_err .mute s3
        rcases hsc2 : simpleCall .mute s3 with ⟨r4, s4⟩
        rw [hsc2] at h hm2
        cases r4 with
        | error e4 => simp only at h; cases h; exact hdev _ (hm2 e rfl)
        | ok u2 => simp [senseIters] at h

theorem sense_some_target (tl : List TgtSpec) (iters : Int) (s s1 : St) (x : Nat × Found)
    (h : sense tl iters s = (.ok (some x), s1)) : s1.target = .remote x.1 := by
  by_cases hnt : tl.any (· == .notTarget) = true
  · simp [sense, hnt] at h
  · have hnt' : tl.any (· == .notTarget) = false := by
      cases hb : tl.any (· == .notTarget) with
      | true => exact absurd hb hnt
      | false => rfl
    obtain ⟨⟨seg, _, _, _, _, h5, _⟩, _⟩ := sense_spec tl iters s hnt'
    rw [h] at h5
    obtain ⟨_, _, _, _, _, _, _, htg⟩ := h5 x rfl
    exact htg

theorem reSense_act (s : St) :
    ActPost false s (reSense s) ∧ ((reSense s).1 = .ok true → HasT (reSense s).2) := by
  have hn := NExt.sense [.a 7] 1 s
  have he := sense_a7_err s
  have hsp := sense_spec [.a 7] 1 s (by decide)
  unfold reSense
  rcases hr : sense [.a 7] 1 s with ⟨r1, s1⟩
  rw [hr] at hn he hsp
  cases r1 with
  | error e => exact ⟨⟨hn, by intro e' h'; cases h'; exact Or.inl (he e rfl)⟩, by simp⟩
  | ok o =>
    cases o with
    | none => exact ⟨⟨hn, by simp⟩, by simp⟩
    | some x =>
      refine ⟨⟨hn, by simp⟩, fun _ => ?_⟩
      obtain ⟨⟨seg, _, _, _, _, h5, _⟩, _⟩ := hsp
      obtain ⟨_, _, _, _, _, _, _, htg⟩ := h5 x rfl
      exact ⟨x.1, htg⟩

theorem ActPost.weaken {α : Type} {s : St} {r : R α} (h : ActPost false s r) : ActPost true s r :=
  ⟨h.1, fun e he => by rcases h.2 e he with h1 | ⟨h1, _⟩; exact Or.inl h1; cases h1⟩

theorem stillThere_act (s : St) (k : St → R Bool) (c : Bool)
    (hk : ∀ s1, HasT s1 → ActPost c s1 (k s1)) : ActPost c s (stillThere s k) := by
  obtain ⟨⟨hn, he⟩, ht⟩ := reSense_act s
  unfold stillThere
  rcases hr : reSense s with ⟨r1, s1⟩
  rw [hr] at hn he ht
  cases r1 with
  | error e =>
    refine ⟨hn, ?_⟩
    intro e' h'; cases h'
    rcases he e rfl with h1 | ⟨h1, _⟩
    · exact Or.inl h1
    · cases h1
  | ok b =>
    cases b with
    | false => exact ⟨hn, by simp⟩
    | true =>
      obtain ⟨hn2, he2⟩ := hk s1 (ht rfl)
      exact ⟨hn.trans hn2, he2⟩

theorem ActPost.done {α : Type} (c : Bool) (s : St) (v : α) : ActPost c s ((.ok v, s) : R α) :=
  ⟨NExt.refl s, by simp⟩

theorem nxpVersion_act (s : St) (h : HasT s) : ActPost false s (nxpVersion s) := by
  obtain ⟨⟨hn, he⟩, ht, hnn⟩ := exchange_act s h
  unfold nxpVersion
  rcases hr : exchange s with ⟨r1, s1⟩
  rw [hr] at hn he ht hnn
  have still : ActPost false s (stillThere s1 (fun s2 => (.ok true, s2))) := by
    have := stillThere_act s1 (fun s2 => ((.ok true, s2) : R Bool)) false (fun s2 _ => ActPost.done false s2 true)
    exact ⟨hn.trans this.1, this.2⟩
  cases r1 with
  | ok o =>
    cases o with
    | none => exact absurd rfl hnn
    | some d =>
      simp only
      split
      · exact ⟨hn, by simp⟩
      · split
        · exact still
        · exact ⟨hn, by simp⟩
  | error e =>
    simp only
    split
    · exact still
    · split
      · exact ⟨hn, by simp⟩
      · rename_i h1 h2
        refine ⟨hn, ?_⟩
        intro e' h'; cases h'
        rcases he e rfl with h3 | ⟨_, h3⟩
        · exact Or.inl h3
        · exact absurd h3 h2

theorem nxpActivate_act (s : St) (h : HasT s) : ActPost false s (nxpActivate s) := by
  obtain ⟨⟨hn, he⟩, ht, hnn⟩ := exchange_act s h
  unfold nxpActivate
  rcases hr : exchange s with ⟨r1, s1⟩
  rw [hr] at hn he ht hnn
  cases r1 with
  | ok o =>
    cases o with
    | none => exact absurd rfl hnn
    | some d =>
      simp only
      have := stillThere_act s1 (fun s2 => if d.head? = some 0xAF then ((.ok true, s2) : R Bool) else nxpVersion s2) false
        (by intro s2 h2; split
            · exact ActPost.done false s2 true
            · exact nxpVersion_act s2 h2)
      exact ⟨hn.trans this.1, this.2⟩
  | error e =>
    simp only
    split
    · have := stillThere_act s1 nxpVersion false (fun s2 h2 => nxpVersion_act s2 h2)
      exact ⟨hn.trans this.1, this.2⟩
    · split
      · exact ⟨hn, by simp⟩
      · rename_i h1 h2
        refine ⟨hn, ?_⟩
        intro e' h'; cases h'
        rcases he e rfl with h3 | ⟨_, h3⟩
        · exact Or.inl h3
        · exact absurd h3 h2

theorem tt2Activate_act (f : Found) (s : St) (h : HasT s) : ActPost false s (tt2Activate f s) := by
  unfold tt2Activate
  split
  · obtain ⟨hn, he⟩ := nxpActivate_act s h
    rcases hr : nxpActivate s with ⟨r1, s1⟩
    rw [hr] at hn he
    cases r1 with
    | error e => exact ⟨hn, by intro e' h'; cases h'; exact he e rfl⟩
    | ok b =>
      cases b with
      | true => exact ⟨hn, by simp⟩
      | false =>
        simp only
        obtain ⟨⟨hn2, he2⟩, _⟩ := reSense_act s1
        rcases hr2 : reSense s1 with ⟨r2, s2⟩
        rw [hr2] at hn2 he2
        cases r2 with
        | error e => exact ⟨hn.trans hn2, by intro e' h'; cases h'; exact he2 e rfl⟩
        | ok b2 => cases b2 <;> exact ⟨hn.trans hn2, by simp⟩
  · exact ActPost.done false s _

theorem tt4Activate_act (t : TagType) (s : St) (h : HasT s) : ActPost true s (tt4Activate t s) := by
  obtain ⟨⟨hn, he⟩, ht, hnn⟩ := exchange_act s h
  unfold tt4Activate
  rcases hr : exchange s with ⟨r1, s1⟩
  rw [hr] at hn he ht hnn
  cases r1 with
  | ok o =>
    cases o with
    | none => exact absurd rfl hnn
    | some d => exact ⟨hn, by simp⟩
  | error e => exact ⟨hn, by intro e' h'; cases h'; exact he e rfl⟩

theorem activateBody_act (f : Found) (s : St) (h : HasT s) : ActPost true s (activateBody f s) := by
  unfold activateBody
  split
  · split
    · split <;> exact ActPost.done true s _
    · split
      · exact (tt2Activate_act f s h).weaken
      · split
        · exact tt4Activate_act .tt4a s h
        · exact ActPost.done true s _
  · split
    · exact tt4Activate_act .tt4b s h
    · split
      · split <;> exact ActPost.done true s _
      · exact ActPost.done true s _

/-- `nfc.tag.activate` appends only the `act` event and driver calls; it raises only device errors
(IOError, KeyboardInterrupt, the UnsupportedTargetError of a nested single-target `sense()`): every
CommunicationError of every activation command is absorbed, and (after the repairs fixes/C18/0003,
0004) no target data makes it raise anything else. -/
theorem tagActivate_act (f : Found) (s : St) (h : HasT s) :
    NExt s (tagActivate f s).2 ∧ ∀ e, (tagActivate f s).1 = .error e → DevErr e := by
  have hem : NExt s (s.emit (.call .activate (.found f))) := ⟨[_], rfl, by simp [Ev.neutral]⟩
  have hT : HasT (s.emit (.call .activate (.found f))) := h
  obtain ⟨hn, he⟩ := activateBody_act f (s.emit (.call .activate (.found f))) hT
  unfold tagActivate
  rcases hr : activateBody f (s.emit (.call .activate (.found f))) with ⟨r1, s1⟩
  rw [hr] at hn he
  cases r1 with
  | ok v => exact ⟨hem.trans hn, by simp⟩
  | error e =>
    simp only
    by_cases hc : isCommErr e = true
    · simp only [hc, if_true]
      exact ⟨hem.trans hn, by simp⟩
    · simp only [hc]
      refine ⟨hem.trans hn, ?_⟩
      intro e' h'
      cases h'
      rcases he e rfl with h1 | ⟨_, h1⟩
      · exact h1
      · exact absurd h1 hc

/-! ## monitor transitions of the single events -/

theorem mon_discover {s : St} {q : Q} (h : mon s.log = some q) (hq : q.idleLike = true) (r : Role) (hr : r ≠ .llcp)
    (c : Nat) (b : Bool) :
    mon (s.emit (.cb r .discover c b)).log = some (if codeTruthy c then .disc r else .idle false) := by
  rw [mon_emit, h]
  cases q <;> simp [Q.idleLike] at hq <;> simp [step, stepIdle, hr]

theorem mon_connect_disc {s : St} {r : Role} (h : mon s.log = some (.disc r)) (c : Nat) (b : Bool) :
    mon (s.emit (.cb r .connect c b)).log = some (if codeTruthy c then .conn r else .finObj r) := by
  rw [mon_emit, h]; simp [step, stepIdle]

theorem mon_connect_llcp {s : St} {q : Q} (h : mon s.log = some q) (hq : q.idleLike = true) (c : Nat) (b : Bool) :
    mon (s.emit (.cb .llcp .connect c b)).log = some (if codeTruthy c then .conn .llcp else .finObj .llcp) := by
  rw [mon_emit, h]
  cases q <;> simp [Q.idleLike] at hq <;> simp [step, stepIdle]

theorem mon_release {s : St} {r : Role} (h : mon s.log = some (.conn r)) (c : Nat) (b : Bool) :
    mon (s.emit (.cb r .release c b)).log = some (if codeTruthy c then .finRel r c else .idle false) := by
  rw [mon_emit, h]; simp [step]

theorem mon_term_idle {s : St} {q : Q} (h : mon s.log = some q) (hq : q.idleLike = true) (b : Bool) :
    mon (s.emit (.term b)).log = some (.idle b) := by
  rw [mon_emit, h]
  cases q <;> simp [Q.idleLike] at hq <;> simp [step, stepIdle]

theorem mon_term_conn {s : St} {r : Role} (h : mon s.log = some (.conn r)) (b : Bool) :
    mon (s.emit (.term b)).log = some (.conn r) := by
  rw [mon_emit, h]; simp [step]

theorem Cb.run_eq (c : Cb) (d : Val) (r : Role) (k : CbKind) (s : St) :
    ∃ b, c.run d r k s = ((c.run d r k s).1, s.emit (.cb r k (c.run d r k s).1.code b)) := by
  cases c <;> simp [Cb.run]

/-! ## the loops keep the activation open -/

theorem presenceLoop_mon (ts : List Bool) (s : St) (r : Role) (h : mon s.log = some (.conn r)) :
    mon (presenceLoop ts s).2.1.log = some (.conn r) ∧ (presenceLoop ts s).2.2.length ≤ ts.length := by
  induction ts generalizing s with
  | nil => exact ⟨mon_term_conn h true, by simp [presenceLoop]⟩
  | cons b rest ih =>
    cases b with
    | true => exact ⟨mon_term_conn h true, by simp [presenceLoop]⟩
    | false =>
      unfold presenceLoop
      have h1 := mon_term_conn h false
      have hx := NExt.exchange (s.emit (.term false))
      rcases hr : exchange (s.emit (.term false)) with ⟨r1, s1⟩
      rw [hr] at hx
      have h2 : mon s1.log = some (.conn r) := by rw [hx.mon]; exact h1
      cases r1 with
      | error e =>
        simp only
        split <;> exact ⟨h2, by simp⟩
      | ok o =>
        cases o with
        | none => exact ⟨h2, by simp⟩
        | some x =>
          simp only
          have h3 : mon (s1.emit .sleep).log = some (.conn r) := by rw [(NExt.emit_sleep s1).mon]; exact h2
          have := ih (s1.emit .sleep) h3
          exact ⟨this.1, by have := this.2; simp only [List.length_cons]; omega⟩

theorem cardLoop_mon (ts : List Bool) (s : St) (r : Role) (h : mon s.log = some (.conn r)) :
    mon (cardLoop ts s).2.1.log = some (.conn r) ∧ (cardLoop ts s).2.2.length ≤ ts.length := by
  induction ts generalizing s with
  | nil => exact ⟨mon_term_conn h true, by simp [cardLoop]⟩
  | cons b rest ih =>
    cases b with
    | true => exact ⟨mon_term_conn h true, by simp [cardLoop]⟩
    | false =>
      unfold cardLoop
      have h1 := mon_term_conn h false
      have hx := NExt.exchange (s.emit (.term false))
      rcases hr : exchange (s.emit (.term false)) with ⟨r1, s1⟩
      rw [hr] at hx
      have h2 : mon s1.log = some (.conn r) := by rw [hx.mon]; exact h1
      have hrec := ih s1 h2
      cases r1 with
      | error e =>
        simp only
        split
        · exact ⟨h2, by simp⟩
        · split
          · exact ⟨hrec.1, by have := hrec.2; simp only [List.length_cons]; omega⟩
          · exact ⟨h2, by simp⟩
      | ok o => exact ⟨hrec.1, by have := hrec.2; simp only [List.length_cons]; omega⟩

theorem runPolls_mon (n : Nat) (ts : List Bool) (s : St) (r : Role) (h : mon s.log = some (.conn r)) :
    mon (runPolls n ts s).1.log = some (.conn r) ∧ (runPolls n ts s).2.length ≤ ts.length := by
  induction n generalizing ts s with
  | zero => exact ⟨h, by simp [runPolls]⟩
  | succ k ih =>
    cases ts with
    | nil => exact ⟨mon_term_conn h true, by simp [runPolls]⟩
    | cons b rest =>
      cases b with
      | true => exact ⟨mon_term_conn h true, by simp [runPolls]⟩
      | false =>
        have := ih rest (s.emit (.term false)) (mon_term_conn h false)
        exact ⟨this.1, by have := this.2; simp only [runPolls, List.length_cons] at *; omega⟩

/-- the run loop asks `terminate()` once per turn, one turn more than the peer answers exchanges -
it is the bounded poll loop of the scripted stand-in, whatever the traffic (`busy` flags) is -/
theorem runLoop_eq (l : List Bool) (ts : List Bool) (s : St) : runLoop l ts s = runPolls (l.length + 1) ts s := by
  induction l generalizing ts s with
  | nil =>
    cases ts with
    | nil => rfl
    | cons b r => cases b <;> simp [runLoop, runPolls]
  | cons a l ih =>
    cases ts with
    | nil => rfl
    | cons b r =>
      cases b with
      | true => simp [runLoop, runPolls]
      | false => simp only [runLoop, List.length_cons, runPolls]; exact ih r _

/-- what a `_xxx_connect` step leaves behind -/
def StepPost (r : Py RetVal) (q' : Q) : Prop :=
  match r with
  | .ok .none => q'.idleLike = true
  | .ok (.obj ro) => q' = .finObj ro
  | .ok (.val ro v) => q' = (if v.truthy then .finRel ro v.code else .idle false)
  | .error _ => True

def StepSpec (ts : List Bool) (s : St) (out : StepOut) : Prop :=
  ∀ q, mon s.log = some q → q.idleLike = true →
    ∃ q', mon out.2.1.log = some q' ∧ StepPost out.1 q' ∧ out.2.2.length ≤ ts.length

theorem rdwrStep_spec (o : RdwrOpts) (ts : List Bool) (s : St) : StepSpec ts s (rdwrStep o ts s) := by
  intro q hq hidle
  unfold rdwrStep
  have hs := NExt.sense o.targets o.iters s
  rcases hr : sense o.targets o.iters s with ⟨r1, s1⟩
  rw [hr] at hs
  have h1 : mon s1.log = some q := by rw [hs.mon]; exact hq
  cases r1 with
  | error e => exact ⟨q, h1, trivial, Nat.le_refl _⟩
  | ok o1 =>
    cases o1 with
    | none => exact ⟨q, h1, hidle, Nat.le_refl _⟩
    | some x =>
      obtain ⟨id, f⟩ := x
      simp only
      obtain ⟨b1, hd⟩ := Cb.run_eq o.discover (defaultDiscover f) .rdwr .discover s1
      rw [hd]
      simp only
      generalize (o.discover.run (defaultDiscover f) .rdwr .discover s1).1 = dv at *
      have h2 := mon_discover h1 hidle .rdwr (by decide) dv.code b1
      rw [codeTruthy_code] at h2
      cases hdv : dv.truthy with
      | false =>
        simp only [hdv] at h2 ⊢
        exact ⟨_, h2, rfl, Nat.le_refl _⟩
      | true =>
        simp only [hdv] at h2 ⊢
        simp only [Bool.not_true, Bool.false_eq_true, if_false]
        have hT : HasT (s1.emit (.cb .rdwr .discover dv.code b1)) :=
          ⟨id, sense_some_target _ _ _ _ _ hr⟩
        have ha := (tagActivate_act f _ hT).1
        rcases hact : tagActivate f (s1.emit (.cb .rdwr .discover dv.code b1)) with ⟨a, s3⟩
        rw [hact] at ha
        have h3 : mon s3.log = some (.disc .rdwr) := by rw [ha.mon]; exact h2
        cases a with
        | error e => exact ⟨_, h3, trivial, Nat.le_refl _⟩
        | ok ot =>
        cases ot with
        | none => exact ⟨_, h3, rfl, Nat.le_refl _⟩
        | some tt =>
          simp only
          obtain ⟨b2, hc⟩ := Cb.run_eq o.connect .true_ .rdwr .connect s3
          rw [hc]
          simp only
          generalize (o.connect.run .true_ .rdwr .connect s3).1 = cv at *
          have h4 := mon_connect_disc h3 cv.code b2
          rw [codeTruthy_code] at h4
          cases hcv : cv.truthy with
          | false =>
            simp only [hcv] at h4 ⊢
            exact ⟨_, h4, rfl, Nat.le_refl _⟩
          | true =>
            simp only [hcv] at h4 ⊢
            simp only [Bool.not_true, Bool.false_eq_true, if_false]
            -- LED on (optional)
            have h5 : ∀ r5 s5, (if o.beep then simpleCall .ledOn (s3.emit (.cb .rdwr .connect cv.code b2)) else (.ok (), s3.emit (.cb .rdwr .connect cv.code b2))) = (r5, s5) →
                mon s5.log = some (.conn .rdwr) := by
              intro r5 s5 h
              split at h
              · have := NExt.simpleCall .ledOn (s3.emit (.cb .rdwr .connect cv.code b2))
                rw [h] at this; rw [this.mon]; exact h4
              · cases h; exact h4
            rcases hled : (if o.beep then simpleCall .ledOn (s3.emit (.cb .rdwr .connect cv.code b2)) else (.ok (), s3.emit (.cb .rdwr .connect cv.code b2))) with ⟨r5, s5⟩
            have h5' := h5 r5 s5 hled
            cases r5 with
            | error e => exact ⟨_, h5', trivial, Nat.le_refl _⟩
            | ok u =>
              simp only
              have hp := presenceLoop_mon ts s5 .rdwr h5'
              rcases hpl : presenceLoop ts s5 with ⟨r6, s6, ts1⟩
              rw [hpl] at hp
              simp only at hp
              cases r6 with
              | error e => exact ⟨_, hp.1, trivial, hp.2⟩
              | ok u2 =>
                simp only
                have hoff := NExt.simpleCall .ledOff s6
                rcases hlo : simpleCall .ledOff s6 with ⟨r7, s7⟩
                rw [hlo] at hoff
                have h7 : mon s7.log = some (.conn .rdwr) := by rw [hoff.mon]; exact hp.1
                cases r7 with
                | error e => exact ⟨_, h7, trivial, hp.2⟩
                | ok u3 =>
                  simp only
                  obtain ⟨b3, hrel⟩ := Cb.run_eq o.release .true_ .rdwr .release s7
                  rw [hrel]
                  simp only
                  generalize (o.release.run .true_ .rdwr .release s7).1 = rv at *
                  have h8 := mon_release h7 rv.code b3
                  rw [codeTruthy_code] at h8
                  exact ⟨_, h8, rfl, hp.2⟩

theorem llcpRole_spec (o : LlcpOpts) (ini : Bool) (ts : List Bool) (s : St) :
    ∀ q, mon s.log = some q → q.idleLike = true →
      ∃ q', mon (llcpRole o ini ts s).2.1.log = some q' ∧ (llcpRole o ini ts s).2.2.length ≤ ts.length ∧
        (match (llcpRole o ini ts s).1 with
         | none => q' = q
         | some r => StepPost r q') := by
  intro q hq hidle
  unfold llcpRole
  have ha := NExt.ask s (.llcActivate ini)
  rcases hask : s.ask (.llcActivate ini) with ⟨a, s1⟩
  rw [hask] at ha
  have h1 : mon s1.log = some q := by rw [ha.mon]; exact hq
  simp only
  cases a with
  | found f =>
    simp only
    obtain ⟨b2, hc⟩ := Cb.run_eq o.connect .true_ .llcp .connect s1
    rw [hc]
    simp only
    generalize (o.connect.run .true_ .llcp .connect s1).1 = cv at *
    have h2 := mon_connect_llcp h1 hidle cv.code b2
    rw [codeTruthy_code] at h2
    cases hcv : cv.truthy with
    | false =>
      simp only [hcv] at h2 ⊢
      exact ⟨_, h2, Nat.le_refl _, rfl⟩
    | true =>
      simp only [hcv] at h2 ⊢
      simp only [Bool.not_true, Bool.false_eq_true, if_false]
      have hb := NExt.ask (s1.emit (.cb .llcp .connect cv.code b2)) .llcRun
      rcases hask2 : (s1.emit (.cb .llcp .connect cv.code b2)).ask .llcRun with ⟨a2, s3⟩
      rw [hask2] at hb
      have h3 : mon s3.log = some (.conn .llcp) := by rw [hb.mon]; exact h2
      simp only
      have key : ∀ n, ∃ q', mon ((o.release.run .true_ .llcp .release (runPolls n ts s3).1).2).log = some q' ∧
          (runPolls n ts s3).2.length ≤ ts.length ∧
          StepPost (.ok (.val .llcp (o.release.run .true_ .llcp .release (runPolls n ts s3).1).1)) q' := by
        intro n
        have hp := runPolls_mon n ts s3 .llcp h3
        obtain ⟨b3, hrel⟩ := Cb.run_eq o.release .true_ .llcp .release (runPolls n ts s3).1
        rw [hrel]
        simp only
        generalize (o.release.run .true_ .llcp .release (runPolls n ts s3).1).1 = rv at *
        have h8 := mon_release hp.1 rv.code b3
        rw [codeTruthy_code] at h8
        exact ⟨_, h8, hp.2, rfl⟩
      cases a2 with
      | ioError => exact ⟨_, h3, Nat.le_refl _, trivial⟩
      | kbd => exact ⟨_, h3, Nat.le_refl _, trivial⟩
      | sysExit => exact ⟨_, h3, Nat.le_refl _, trivial⟩
      | polls n => exact key n
      | _ => exact key 0
  | ioError => exact ⟨_, h1, Nat.le_refl _, trivial⟩
  | kbd => exact ⟨_, h1, Nat.le_refl _, trivial⟩
  | _ => exact ⟨_, h1, Nat.le_refl _, rfl⟩

theorem llcpStep_spec (o : LlcpOpts) (ts : List Bool) (s : St) : StepSpec ts s (llcpStep o ts s) := by
  intro q hq hidle
  unfold llcpStep
  have first : ∃ q1, mon (if o.role = .both ∨ o.role = .target then llcpRole o false ts s else (none, s, ts)).2.1.log = some q1 ∧
      (if o.role = .both ∨ o.role = .target then llcpRole o false ts s else (none, s, ts)).2.2.length ≤ ts.length ∧
      (match (if o.role = .both ∨ o.role = .target then llcpRole o false ts s else (none, s, ts)).1 with
         | none => q1 = q
         | some r => StepPost r q1) := by
    split
    · exact llcpRole_spec o false ts s q hq hidle
    · exact ⟨q, hq, Nat.le_refl _, rfl⟩
  rcases h1 : (if o.role = .both ∨ o.role = .target then llcpRole o false ts s else (none, s, ts)) with ⟨r1, s1, ts1⟩
  rw [h1] at first
  obtain ⟨q1, hm1, hl1, hp1⟩ := first
  simp only at hm1 hl1 hp1
  cases r1 with
  | some r => exact ⟨q1, hm1, hp1, hl1⟩
  | none =>
    simp only at hp1
    subst hp1
    simp only
    have second : ∃ q2, mon (if o.role = .both ∨ o.role = .initiator then llcpRole o true ts1 s1 else (none, s1, ts1)).2.1.log = some q2 ∧
        (if o.role = .both ∨ o.role = .initiator then llcpRole o true ts1 s1 else (none, s1, ts1)).2.2.length ≤ ts1.length ∧
        (match (if o.role = .both ∨ o.role = .initiator then llcpRole o true ts1 s1 else (none, s1, ts1)).1 with
           | none => q2 = q1
           | some r => StepPost r q2) := by
      split
      · exact llcpRole_spec o true ts1 s1 q1 hm1 hidle
      · exact ⟨q1, hm1, Nat.le_refl _, rfl⟩
    rcases h2 : (if o.role = .both ∨ o.role = .initiator then llcpRole o true ts1 s1 else (none, s1, ts1)) with ⟨r2, s2, ts2⟩
    rw [h2] at second
    obtain ⟨q2, hm2, hl2, hp2⟩ := second
    simp only at hm2 hl2 hp2
    cases r2 with
    | some r => exact ⟨q2, hm2, hp2, by simp only; omega⟩
    | none =>
      simp only at hp2
      subst hp2
      exact ⟨q2, hm2, hidle, by simp only; omega⟩

theorem cardStep_spec (o : CardOpts) (ts : List Bool) (s : St) : StepSpec ts s (cardStep o ts s) := by
  intro q hq hidle
  unfold cardStep
  have hs := NExt.listen o.target s
  rcases hr : listen o.target s with ⟨r1, s1⟩
  rw [hr] at hs
  have h1 : mon s1.log = some q := by rw [hs.mon]; exact hq
  cases r1 with
  | error e =>
    by_cases hce : isCommErr e = true
    · simp only [hce, if_true]; exact ⟨q, h1, hidle, Nat.le_refl _⟩
    · simp only [hce]; exact ⟨q, h1, trivial, Nat.le_refl _⟩
  | ok o1 =>
    cases o1 with
    | none => exact ⟨q, h1, hidle, Nat.le_refl _⟩
    | some x =>
      simp only
      obtain ⟨b1, hd⟩ := Cb.run_eq o.discover .true_ .card .discover s1
      rw [hd]
      simp only
      generalize (o.discover.run .true_ .card .discover s1).1 = dv at *
      have h2 := mon_discover h1 hidle .card (by decide) dv.code b1
      rw [codeTruthy_code] at h2
      cases hdv : dv.truthy with
      | false =>
        simp only [hdv] at h2 ⊢
        exact ⟨_, h2, rfl, Nat.le_refl _⟩
      | true =>
        simp only [hdv] at h2 ⊢
        simp only [Bool.not_true, Bool.false_eq_true, if_false]
        obtain ⟨id, f⟩ := x
        have ha : NExt (s1.emit (.cb .card .discover dv.code b1))
            ((s1.emit (.cb .card .discover dv.code b1)).emit (.call .emulate (.found f))) :=
          ⟨[_], rfl, by simp [Ev.neutral]⟩
        generalize hs3 : (s1.emit (.cb .card .discover dv.code b1)).emit (.call .emulate (.found f)) = s3 at *
        have h3 : mon s3.log = some (.disc .card) := by rw [ha.mon]; exact h2
        cases hem : emulates o.target f with
        | false =>
          simp only [Bool.not_false, if_true]
          exact ⟨_, h3, rfl, Nat.le_refl _⟩
        | true =>
          simp only [Bool.not_true, Bool.false_eq_true, if_false]
          obtain ⟨b2, hc⟩ := Cb.run_eq o.connect .true_ .card .connect s3
          rw [hc]
          simp only
          generalize (o.connect.run .true_ .card .connect s3).1 = cv at *
          have h4 := mon_connect_disc h3 cv.code b2
          rw [codeTruthy_code] at h4
          cases hcv : cv.truthy with
          | false =>
            simp only [hcv] at h4 ⊢
            exact ⟨_, h4, rfl, Nat.le_refl _⟩
          | true =>
            simp only [hcv] at h4 ⊢
            simp only [Bool.not_true, Bool.false_eq_true, if_false]
            have hp := cardLoop_mon ts (s3.emit (.cb .card .connect cv.code b2)) .card h4
            rcases hpl : cardLoop ts (s3.emit (.cb .card .connect cv.code b2)) with ⟨r6, s6, ts1⟩
            rw [hpl] at hp
            simp only at hp
            cases r6 with
            | error e => exact ⟨_, hp.1, trivial, hp.2⟩
            | ok u2 =>
              simp only
              obtain ⟨b3, hrel⟩ := Cb.run_eq o.release .true_ .card .release s6
              rw [hrel]
              simp only
              generalize (o.release.run .true_ .card .release s6).1 = rv at *
              have h8 := mon_release hp.1 rv.code b3
              rw [codeTruthy_code] at h8
              exact ⟨_, h8, rfl, hp.2⟩

/-- what connect()'s main loop leaves behind -/
def MainPost (r : Py RetVal) (q' : Q) : Prop :=
  match r with
  | .ok .none => q' = .idle true
  | .ok (.obj ro) => q' = .finObj ro
  | .ok (.val ro v) => v.truthy = true ∧ q' = .finRel ro v.code
  | .error _ => True

theorem tryStep_spec (f : Option (List Bool → St → StepOut)) (hf : ∀ g, f = some g → ∀ ts s, StepSpec ts s (g ts s))
    (ts : List Bool) (s : St) (q : Q) (hq : mon s.log = some q) (hidle : q.idleLike = true) :
    ∃ q', mon (tryStep f ts s).2.1.log = some q' ∧ (tryStep f ts s).2.2.length ≤ ts.length ∧
      (match (tryStep f ts s).1 with
       | none => q'.idleLike = true
       | some (r, s1) => s1 = (tryStep f ts s).2.1 ∧ MainPost r q') := by
  cases f with
  | none => exact ⟨q, hq, Nat.le_refl _, hidle⟩
  | some g =>
    obtain ⟨q', h1, h2, h3⟩ := hf g rfl ts s q hq hidle
    simp only [tryStep]
    rcases hg : g ts s with ⟨r, s1, ts1⟩
    rw [hg] at h1 h2 h3
    simp only at h1 h2 h3
    cases r with
    | error e => exact ⟨q', h1, h3, rfl, trivial⟩
    | ok v =>
      cases v with
      | none => exact ⟨q', h1, h3, h2⟩
      | obj ro => exact ⟨q', h1, h3, rfl, h2⟩
      | val ro v =>
        simp only [RetVal.truthy]
        by_cases hv : v.truthy = true
        · simp only [hv, if_true]
          simp only [StepPost, hv, if_true] at h2
          exact ⟨q', h1, h3, trivial, hv, h2⟩
        · simp only [hv]
          simp only [StepPost, hv] at h2
          exact ⟨q', h1, h3, by rw [h2]; rfl⟩

theorem mainLoop_spec (l : Live) (k : Nat) (ts : List Bool) (s : St) (q : Q) (hk : ts.length < k)
    (hq : mon s.log = some q) (hidle : q.idleLike = true) :
    ∃ r s', mainLoop l k ts s = some (r, s') ∧ ∃ q', mon s'.log = some q' ∧ MainPost r q' := by
  induction k generalizing ts s q with
  | zero => omega
  | succ k ih =>
    unfold mainLoop
    cases ts with
    | nil => exact ⟨_, _, rfl, _, mon_term_idle hq hidle true, rfl⟩
    | cons b rest =>
      cases b with
      | true => exact ⟨_, _, rfl, _, mon_term_idle hq hidle true, rfl⟩
      | false =>
        simp only [askTerm]
        have h0 := mon_term_idle hq hidle false
        have hlen : rest.length < k := by simp only [List.length_cons] at hk; omega
        obtain ⟨q1, hm1, hl1, hp1⟩ := tryStep_spec (l.rdwr.map rdwrStep)
          (by intro g hg; cases hr : l.rdwr with
              | none => simp [hr] at hg
              | some o => simp [hr] at hg; subst hg; exact rdwrStep_spec o)
          rest (s.emit (.term false)) _ h0 rfl
        rcases h1 : tryStep (l.rdwr.map rdwrStep) rest (s.emit (.term false)) with ⟨r1, s1, ts1⟩
        rw [h1] at hm1 hl1 hp1
        simp only at hm1 hl1 hp1
        cases r1 with
        | some x => obtain ⟨r, sx⟩ := x; obtain ⟨hsx, hmp⟩ := hp1; subst hsx; exact ⟨_, _, rfl, q1, hm1, hmp⟩
        | none =>
          simp only
          obtain ⟨q2, hm2, hl2, hp2⟩ := tryStep_spec (l.llcp.map llcpStep)
            (by intro g hg; cases hr : l.llcp with
                | none => simp [hr] at hg
                | some o => simp [hr] at hg; subst hg; exact llcpStep_spec o)
            ts1 s1 q1 hm1 hp1
          rcases h2 : tryStep (l.llcp.map llcpStep) ts1 s1 with ⟨r2, s2, ts2⟩
          rw [h2] at hm2 hl2 hp2
          simp only at hm2 hl2 hp2
          cases r2 with
          | some x => obtain ⟨r, sx⟩ := x; obtain ⟨hsx, hmp⟩ := hp2; subst hsx; exact ⟨_, _, rfl, q2, hm2, hmp⟩
          | none =>
            simp only
            obtain ⟨q3, hm3, hl3, hp3⟩ := tryStep_spec (l.card.map cardStep)
              (by intro g hg; cases hr : l.card with
                  | none => simp [hr] at hg
                  | some o => simp [hr] at hg; subst hg; exact cardStep_spec o)
              ts2 s2 q2 hm2 hp2
            rcases h3 : tryStep (l.card.map cardStep) ts2 s2 with ⟨r3, s3, ts3⟩
            rw [h3] at hm3 hl3 hp3
            simp only at hm3 hl3 hp3
            cases r3 with
            | some x => obtain ⟨r, sx⟩ := x; obtain ⟨hsx, hmp⟩ := hp3; subst hsx; exact ⟨_, _, rfl, q3, hm3, hmp⟩
            | none =>
              simp only
              exact ih ts3 s3 q3 (by omega) hm3 hp3

theorem mon_startupEvent {s : St} {k : Nat} (h : mon s.log = some (.su k)) (r : Role) (hk : k ≤ rank r)
    (su : Option (StartRes × Nat)) : mon (startupEvent r su s).log = some (.su (rank r + 1)) := by
  cases su with
  | none => simp only [startupEvent]; rw [mon_emit, h]; simp [step, hk]
  | some x => obtain ⟨a, b⟩ := x; simp only [startupEvent]; rw [mon_emit, h]; simp [step, hk]

theorem startupRest_mon (o : Opts) (ll : Option LlcpOpts) (s1 : St) (k1 : Nat) (hk1 : k1 ≤ 1)
    (h1 : mon s1.log = some (.su k1)) :
    (∃ k, mon (startupRest o ll s1).2.log = some (.su k)) ∧ ∀ e, (startupRest o ll s1).1 = .error e → e = .type_ := by
  unfold startupRest
  cases o.rdwr with
  | none =>
    simp only
    cases o.card with
    | none => exact ⟨⟨k1, h1⟩, by simp⟩
    | some c => exact ⟨⟨3, mon_startupEvent h1 .card (by simp [rank]; omega) _⟩, by simp⟩
  | some r =>
    simp only
    have h2 := mon_startupEvent h1 .rdwr (by simp [rank]; omega) r.startup
    split
    · exact ⟨⟨2, h2⟩, by simp⟩
    · cases o.card with
      | none => exact ⟨⟨2, h2⟩, by simp⟩
      | some c => exact ⟨⟨3, mon_startupEvent h2 .card (by simp [rank]) _⟩, by simp⟩

theorem startupPhase_mon (o : Opts) (env : List Ans) :
    (∃ k, mon (startupPhase o (St.init env)).2.log = some (.su k)) ∧
    ∀ e, (startupPhase o (St.init env)).1 = .error e → e = .type_ := by
  have h0 : mon (St.init env).log = some (.su 0) := rfl
  unfold startupPhase
  cases o.llcp with
  | none => exact startupRest_mon o _ _ 0 (by omega) h0
  | some l => exact startupRest_mon o _ _ 1 (by omega) (mon_startupEvent h0 .llcp (by simp [rank]) _)

/-- the master statement about `connect`: the log is a legal history and the outcome
matches the state the history ends in -/
theorem connect_spec (o : Opts) (env : List Ans) (ts : List Bool) :
    ∃ q, mon (connect o env ts).2.log = some q ∧
      (match (connect o env ts).1 with
       | .ret .none => q = .idle true ∨ ∃ k, q = .su k
       | .ret (.obj r) => q = .finObj r
       | .ret (.val r v) => v.truthy = true ∧ q = .finRel r v.code
       | .caught e => isCaught e = true
       | .raised e => isCaught e = false) := by
  obtain ⟨⟨k, hk⟩, herr⟩ := startupPhase_mon o env
  unfold connect
  rcases hs : startupPhase o (St.init env) with ⟨r0, s0⟩
  rw [hs] at hk herr
  simp only at hk herr
  cases r0 with
  | error e =>
    refine ⟨_, hk, ?_⟩
    simp only
    have := herr e rfl
    subst this; simp [isCaught]
  | ok l =>
    simp only
    split
    · exact ⟨_, hk, Or.inr ⟨k, rfl⟩⟩
    · obtain ⟨r, s', hm, q', hq', hp⟩ := mainLoop_spec l (ts.length + 1) ts s0 (.su k) (by omega) hk rfl
      rw [hm]
      cases r with
      | error e =>
        simp only
        cases hc : isCaught e with
        | true => exact ⟨q', hq', hc⟩
        | false => exact ⟨q', hq', hc⟩
      | ok v =>
        refine ⟨q', hq', ?_⟩
        cases v with
        | none => exact Or.inl hp
        | obj r => exact hp
        | val r v => exact hp

/-! ## on-release is owed exactly once per true on-connect: a property of the monitor alone -/

def isConnTrue (r : Role) : Ev → Bool
  | .cb r' .connect c _ => r' == r && codeTruthy c
  | _ => false

def isRelease (r : Role) : Ev → Bool
  | .cb r' .release _ _ => r' == r
  | _ => false

/-- 1 while an on-release of role r is owed -/
def owed (r : Role) : Q → Nat
  | .conn r' => if r' = r then 1 else 0
  | _ => 0

theorem step_counts (r : Role) (q q' : Q) (e : Ev) (h : step q e = some q') :
    (if isConnTrue r e then 1 else 0) + owed r q = (if isRelease r e then 1 else 0) + owed r q' := by
  cases e with
  | call s a => cases q <;> simp [step] at h <;> subst h <;> simp [isConnTrue, isRelease]
  | sleep => cases q <;> simp [step] at h <;> subst h <;> simp [isConnTrue, isRelease]
  | term b =>
    cases q <;> simp [step, stepIdle] at h <;> subst h <;> simp [isConnTrue, isRelease, owed]
  | cb r' k c d =>
    cases hct : codeTruthy c <;> cases k <;> cases q <;> simp [step, stepIdle, hct] at h <;>
      (first | (obtain ⟨hc, rfl⟩ := h) | subst h) <;>
      cases r <;> cases r' <;> simp_all [isConnTrue, isRelease, owed]

theorem runFrom_counts (r : Role) (l : List Ev) (q q' : Q) (h : runFrom q l = some q') :
    l.countP (isConnTrue r) + owed r q = l.countP (isRelease r) + owed r q' := by
  induction l generalizing q with
  | nil => simp [runFrom] at h; subst h; simp
  | cons e rest ih =>
    simp only [runFrom] at h
    cases hs : step q e with
    | none => simp [hs] at h
    | some q1 =>
      simp only [hs, Option.bind_some] at h
      have h1 := step_counts r q q1 e hs
      have h2 := ih q1 h
      simp only [List.countP_cons]
      by_cases hc : isConnTrue r e = true <;> by_cases hr : isRelease r e = true <;>
        simp only [hc, hr, if_true, if_false, Bool.false_eq_true] at h1 ⊢ <;> omega
end NfcVerif.Clf
