import NfcVerif.Model.Collect
/-! Lemmas for C10: every dequeue path respects the size it is called with; the aggregation loops keep the
information field of the aggregate within the MIU - also when the dequeued UI / I PDUs grow by the ICV of
secure data transfer after the size check. -/
namespace NfcVerif.Collect

def QPdu.isData (p : QPdu) : Prop := p.kind = .ui ∨ p.kind = .i
instance (p : QPdu) : Decidable p.isData := inferInstanceAs (Decidable (p.kind = .ui ∨ p.kind = .i))

/-- a PDU (as it is appended to the aggregate) fits the size it was dequeued under -/
def Fit (p : QPdu) (m : Int) : Prop := p.hdr ≤ 3 ∧ (((p.len : Int) - p.hdr ≤ m) ∨ p.len ≤ 3)

def POk (p : QPdu) : Prop := p.hdr ≤ 3
/-- acknowledgements and DM PDUs: 3 octets, never encrypted -/
def Small (p : QPdu) : Prop := p.hdr ≤ 3 ∧ p.len ≤ 3 ∧ ¬ p.isData

/-- the dequeued PDU fits the size it was dequeued under, counting `icv` octets on top of a UI / I PDU -/
def FitE (p : QPdu) (m : Int) (icv : Nat) : Prop := p.hdr ≤ 3 ∧ (((p.size icv : Int) - p.hdr ≤ m) ∨ Small p)

def SockOk : Sock → Prop
  | .raw _ => False
  | .ldl _ q => ∀ p ∈ q, POk p
  | .dlc _ q => ∀ p ∈ q, POk p

def EntOk : Ent → Prop
  | .sap s => (∀ k ∈ s.socks, SockOk k) ∧ (∀ p ∈ s.sendList, Small p)
  | .sd s => ∀ p ∈ s.dmpdu, Small p

theorem size_ge (p : QPdu) (icv : Nat) : p.len ≤ p.size icv := by
  unfold QPdu.size; split <;> omega

theorem encrypt_hdr (sec : Option Nat) (p : QPdu) : (p.encrypt sec).hdr = p.hdr := by
  unfold QPdu.encrypt; cases sec with
  | none => rfl
  | some n => simp only; split <;> rfl

theorem encrypt_kind (sec : Option Nat) (p : QPdu) : (p.encrypt sec).kind = p.kind := by
  unfold QPdu.encrypt; cases sec with
  | none => rfl
  | some n => simp only; split <;> rfl

/-- `encrypt()` makes a UI / I PDU exactly `icv_size` octets longer and leaves every other PDU alone -/
theorem encrypt_len (sec : Option Nat) (p : QPdu) : (p.encrypt sec).len = p.size (icvOf sec) := by
  unfold QPdu.encrypt QPdu.size icvOf; cases sec with
  | none => simp
  | some n => simp only; split <;> rfl

theorem encrypt_not_data (sec : Option Nat) (p : QPdu) (h : ¬ p.isData) : p.encrypt sec = p := by
  unfold QPdu.isData at h
  unfold QPdu.encrypt; cases sec with
  | none => rfl
  | some n => simp only; rw [if_neg h]

/-- the payload (service data unit) is not changed by `encrypt()` -/
theorem encrypt_payload (sec : Option Nat) (p : QPdu) : (p.encrypt sec).payload = p.payload := by
  unfold QPdu.encrypt QPdu.payload; cases sec with
  | none => rfl
  | some n => simp only; split <;> simp only <;> omega

theorem encrypt_lim (sec : Option Nat) (p : QPdu) : (p.encrypt sec).lim = p.lim := by
  unfold QPdu.encrypt; cases sec with
  | none => rfl
  | some n => simp only; split <;> rfl

theorem small_fitE {p : QPdu} (h : Small p) (m : Int) (icv : Nat) : FitE p m icv := ⟨h.1, Or.inr h⟩

/-- what was dequeued with `icv_size` still fits after `encrypt()` -/
theorem fitE_encrypt {p : QPdu} {m : Int} {sec : Option Nat} (h : FitE p m (icvOf sec)) : Fit (p.encrypt sec) m := by
  refine ⟨by rw [encrypt_hdr]; exact h.1, ?_⟩
  rcases h.2 with h2 | h2
  · left; rw [encrypt_len, encrypt_hdr]; exact h2
  · right; rw [encrypt_not_data sec p h2.2.2]; exact h2.2.1

theorem tco_some {q q' : List QPdu} {m : Int} {icv : Nat} {p : QPdu}
    (h : tcoDequeue q (some m) icv = (some p, q')) :
    p ∈ q ∧ ((p.size icv : Int) - p.hdr ≤ m) ∧ (∀ x ∈ q', x ∈ q) := by
  cases q with
  | nil => simp [tcoDequeue] at h
  | cons p0 rest =>
    simp only [tcoDequeue] at h
    split at h
    · cases h
    · rename_i hle
      cases h
      refine ⟨by simp, by omega, fun x hx => by simp [hx]⟩

theorem tco_none {q q' : List QPdu} {m : Int} {icv : Nat}
    (h : tcoDequeue q (some m) icv = (none, q')) : q' = q := by
  cases q with
  | nil => simp [tcoDequeue] at h; exact h
  | cons p0 rest =>
    simp only [tcoDequeue] at h
    split at h
    · cases h; rfl
    · cases h

theorem ack_small (b : Bool) (n : Nat) : Small (ackPdu b n) := by
  cases b <;> simp [Small, ackPdu, QPdu.isData]

theorem sock_dequeue {s s' : Sock} {m : Int} {icv : Nat} {r : Option QPdu}
    (hs : SockOk s) (h : s.dequeue m icv = (r, s')) :
    SockOk s' ∧ ∀ p, r = some p → FitE p m icv := by
  cases s with
  | raw q => exact absurd hs (by simp [SockOk])
  | ldl sm q =>
    simp only [Sock.dequeue] at h
    cases hr : tcoDequeue q (some m) icv with
    | mk a b =>
      rw [hr] at h; cases h
      cases a with
      | none => rw [tco_none hr]; exact ⟨hs, by simp⟩
      | some p =>
        obtain ⟨hm, hb, hsub⟩ := tco_some hr
        refine ⟨fun x hx => hs x (hsub x hx), ?_⟩
        intro p' hp'; cases hp'
        exact ⟨hs p hm, Or.inl hb⟩
  | dlc d q =>
    simp only [Sock.dequeue] at h
    split at h
    · cases h
      exact ⟨hs, by intro p hp; cases hp; exact small_fitE (ack_small _ _) _ _⟩
    · cases hr : tcoDequeue q (some m) icv with
      | mk a b =>
        rw [hr] at h
        cases a with
        | none =>
          simp only at h
          rw [tco_none hr] at h
          split at h
          · cases h
            exact ⟨hs, by intro p hp; cases hp; exact small_fitE (ack_small _ _) _ _⟩
          · cases h; exact ⟨hs, by simp⟩
        | some p =>
          obtain ⟨hm, hb, hsub⟩ := tco_some hr
          simp only at h
          have hfit : FitE p m icv := ⟨hs p hm, Or.inl hb⟩
          split at h
          · cases h; exact ⟨by simp [SockOk], by intro p' hp'; cases hp'; exact hfit⟩
          · split at h
            · cases h; exact ⟨fun x hx => hs x (hsub x hx), by intro p' hp'; cases hp'; exact hfit⟩
            · cases h; exact ⟨fun x hx => hs x (hsub x hx), by intro p' hp'; cases hp'; exact hfit⟩

theorem sock_sendack {s s' : Sock} {r : Option QPdu} (hs : SockOk s) (h : s.sendack = (r, s')) :
    SockOk s' ∧ ∀ p, r = some p → Small p := by
  cases s with
  | raw q => exact absurd hs (by simp [SockOk])
  | ldl sm q => simp only [Sock.sendack] at h; cases h; exact ⟨hs, by simp⟩
  | dlc d q =>
    simp only [Sock.sendack] at h
    split at h
    · cases h; exact ⟨hs, by intro p hp; cases hp; exact ack_small _ _⟩
    · cases h; exact ⟨hs, by simp⟩

theorem socks_dequeue (l : List Sock) (m : Int) (icv : Nat) (hl : ∀ k ∈ l, SockOk k) :
    (∀ k ∈ (socksDequeue l m icv).2, SockOk k) ∧ ∀ p, (socksDequeue l m icv).1 = some p → FitE p m icv := by
  induction l with
  | nil => simp [socksDequeue]
  | cons s rest ih =>
    simp only [socksDequeue]
    cases hr : s.dequeue m icv with
    | mk a b =>
      obtain ⟨hb, hfit⟩ := sock_dequeue (hl s (by simp)) hr
      have ihr := ih (fun k hk => hl k (by simp [hk]))
      cases a with
      | some p =>
        simp only
        refine ⟨?_, by intro p' hp'; exact hfit p' hp'⟩
        intro k hk; simp at hk
        rcases hk with rfl | hk
        · exact hb
        · exact hl k (by simp [hk])
      | none =>
        simp only
        refine ⟨?_, ihr.2⟩
        intro k hk; simp at hk
        rcases hk with rfl | hk
        · exact hb
        · exact ihr.1 k hk

theorem socks_sendack (l : List Sock) (hl : ∀ k ∈ l, SockOk k) :
    (∀ k ∈ (socksSendack l).2, SockOk k) ∧ ∀ p, (socksSendack l).1 = some p → Small p := by
  induction l with
  | nil => simp [socksSendack]
  | cons s rest ih =>
    simp only [socksSendack]
    cases hr : s.sendack with
    | mk a b =>
      obtain ⟨hb, hfit⟩ := sock_sendack (hl s (by simp)) hr
      have ihr := ih (fun k hk => hl k (by simp [hk]))
      cases a with
      | some p =>
        simp only
        refine ⟨?_, by intro p' hp'; exact hfit p' hp'⟩
        intro k hk; simp at hk
        rcases hk with rfl | hk
        · exact hb
        · exact hl k (by simp [hk])
      | none =>
        simp only
        refine ⟨?_, ihr.2⟩
        intro k hk; simp at hk
        rcases hk with rfl | hk
        · exact hb
        · exact ihr.1 k hk

theorem small_fit {p : QPdu} (h : Small p) (m : Int) : Fit p m := ⟨h.1, Or.inr h.2.1⟩

theorem takeSdres_spec (l : List Nat) (m : Int) (n : Nat) (hm : 0 ≤ m) :
    0 ≤ (takeSdres l m n).2.2 ∧ (4 * (takeSdres l m n).1 : Int) + (takeSdres l m n).2.2 = 4 * n + m := by
  induction l generalizing m n with
  | nil => simp [takeSdres, hm]
  | cons x rest ih =>
    simp only [takeSdres]
    split
    · rename_i h4
      have := ih (m - 4) (n + 1) (by omega)
      constructor
      · exact this.1
      · rw [this.2]; push_cast; omega
    · simp [hm]

theorem takeSdreq_spec (k : Nat) (q : List (Nat × Nat)) (m : Int) (acc : Nat) (hm : 0 ≤ m) :
    ((takeSdreq k q m acc).1 : Int) ≤ acc + m := by
  induction k generalizing q m acc with
  | zero => simp only [takeSdreq]; omega
  | succ k ih =>
    cases q with
    | nil => simp only [takeSdreq]; omega
    | cons x rest =>
      obtain ⟨tid, nl⟩ := x
      simp only [takeSdreq]
      split
      · exact ih _ m acc hm
      · rename_i hfit
        have := ih rest (m - (3 + nl)) (acc + (3 + nl)) (by omega)
        push_cast at this ⊢
        omega

theorem snl_size (l icv : Nat) : (snlPdu l).size icv = l := by simp [snlPdu, QPdu.size]

theorem sd_dequeue {s s' : Sd} {m : Int} {r : Option QPdu} (icv : Nat) (hs : ∀ p ∈ s.dmpdu, Small p) (hm : 0 ≤ m)
    (h : s.dequeue m = (r, s')) :
    (∀ p ∈ s'.dmpdu, Small p) ∧ ∀ p, r = some p → FitE p m icv := by
  unfold Sd.dequeue at h
  split at h
  · simp only at h
    cases h
    refine ⟨hs, ?_⟩
    intro p hp; cases hp
    have h1 := takeSdres_spec s.sdres m 0 hm
    have h2 := takeSdreq_spec s.sdreq.length s.sdreq (takeSdres s.sdres m 0).2.2 0 h1.1
    refine ⟨by simp [snlPdu], Or.inl ?_⟩
    rw [snl_size]
    simp only [snlPdu]
    push_cast
    omega
  · split at h
    · rename_i p rest hd
      split at h
      · cases h
        refine ⟨fun x hx => hs x (by rw [hd]; simp [hx]), ?_⟩
        intro p' hp'; cases hp'
        exact small_fitE (hs p (by rw [hd]; simp)) m icv
      · cases h; exact ⟨hs, by simp⟩
    · cases h; exact ⟨hs, by simp⟩

theorem ent_dequeue {e e' : Ent} {m : Int} {icv : Nat} {r : Option QPdu} (he : EntOk e) (hm : 0 ≤ m)
    (h : e.dequeue m icv = (r, e')) : EntOk e' ∧ ∀ p, r = some p → FitE p m icv := by
  cases e with
  | sd s =>
    simp only [Ent.dequeue] at h
    cases hr : s.dequeue m with
    | mk a b =>
      rw [hr] at h; cases h
      exact sd_dequeue icv he hm hr
  | sap s =>
    simp only [Ent.dequeue, Sap.dequeue] at h
    have hsd := socks_dequeue s.socks m icv he.1
    cases hr : socksDequeue s.socks m icv with
    | mk a b =>
      rw [hr] at h hsd
      cases a with
      | some p =>
        simp only at h; cases h
        exact ⟨⟨hsd.1, he.2⟩, hsd.2⟩
      | none =>
        simp only at h
        split at h
        · cases h; exact ⟨⟨hsd.1, he.2⟩, by simp⟩
        · rename_i p rest hsl
          cases h
          refine ⟨⟨hsd.1, fun x hx => he.2 x (by rw [hsl]; simp [hx])⟩, ?_⟩
          intro p' hp'; cases hp'
          exact small_fitE (he.2 p (by rw [hsl]; simp)) m icv

theorem ent_sendack {e e' : Ent} {r : Option QPdu} (he : EntOk e) (h : e.sendack = (r, e')) :
    EntOk e' ∧ ∀ p, r = some p → Small p := by
  cases e with
  | sd s => simp only [Ent.sendack] at h; cases h; exact ⟨he, by simp⟩
  | sap s =>
    simp only [Ent.sendack, Sap.sendack] at h
    cases h
    have := socks_sendack s.socks he.1
    exact ⟨⟨this.1, he.2⟩, this.2⟩

def EntsOk (es : List Ent) : Prop := ∀ e ∈ es, EntOk e
def Inv (M : Nat) (subs : List QPdu) : Prop := (agfLen subs : Int) - 2 ≤ M

theorem agfLen_append (subs : List QPdu) (p : QPdu) : agfLen (subs ++ [p]) = agfLen subs + 2 + p.len := by
  simp [agfLen, List.sum_append]; omega

theorem append_inv {M : Nat} {subs : List QPdu} {p : QPdu} (hb : 0 ≤ budget M subs)
    (hf : Fit p (budget M subs)) : Inv M (subs ++ [p]) := by
  unfold Inv; rw [agfLen_append]
  unfold budget at hb hf
  obtain ⟨h3, hf⟩ := hf
  push_cast
  rcases hf with hf | hf <;> omega

theorem entsOk_cons {e : Ent} {es : List Ent} : EntsOk (e :: es) ↔ EntOk e ∧ EntsOk es := by
  simp [EntsOk]

theorem aggPass_spec (M : Nat) (sec : Option Nat) (es : List Ent) : ∀ (subs : List QPdu) (nf : Bool), EntsOk es →
    0 ≤ budget M subs →
    EntsOk (aggPass M sec es subs nf).1 ∧
      ((aggPass M sec es subs nf).2.1 = subs ∨ Inv M (aggPass M sec es subs nf).2.1) := by
  induction es with
  | nil => intro subs nf _ _; simp [aggPass, EntsOk]
  | cons e rest ih =>
    intro subs nf hes hb
    rw [entsOk_cons] at hes
    simp only [aggPass]
    cases hr : e.dequeue (budget M subs) (icvOf sec) with
    | mk a e' =>
      obtain ⟨he', hfit⟩ := ent_dequeue hes.1 hb hr
      cases a with
      | some p =>
        simp only
        have hinv := append_inv hb (fitE_encrypt (hfit p rfl))
        split
        · exact ⟨entsOk_cons.2 ⟨he', hes.2⟩, Or.inr hinv⟩
        · rename_i hnb
          have := ih (subs ++ [p.encrypt sec]) false hes.2 (by omega)
          refine ⟨entsOk_cons.2 ⟨he', this.1⟩, Or.inr ?_⟩
          rcases this.2 with h | h
          · rw [h]; exact hinv
          · exact h
      | none =>
        simp only
        have := ih subs nf hes.2 hb
        exact ⟨entsOk_cons.2 ⟨he', this.1⟩, this.2⟩

theorem aggLoop_spec (M : Nat) (sec : Option Nat) (fuel : Nat) : ∀ (es : List Ent) (subs : List QPdu), EntsOk es →
    EntsOk (aggLoop M sec fuel es subs).1 ∧
      ((aggLoop M sec fuel es subs).2 = subs ∨ Inv M (aggLoop M sec fuel es subs).2) := by
  induction fuel with
  | zero => intro es subs h; simp [aggLoop, h]
  | succ fuel ih =>
    intro es subs hes
    simp only [aggLoop]
    split
    · exact ⟨hes, Or.inl rfl⟩
    · rename_i hb
      have hp := aggPass_spec M sec es subs true hes (by omega)
      split
      · exact hp
      · have := ih _ (aggPass M sec es subs true).2.1 hp.1
        refine ⟨this.1, ?_⟩
        rcases this.2 with h | h
        · rw [h]; exact hp.2
        · exact Or.inr h

theorem aggAcks_spec (M : Nat) (es : List Ent) : ∀ (subs : List QPdu), EntsOk es → 0 ≤ budget M subs →
    EntsOk (aggAcks M es subs).1 ∧ ((aggAcks M es subs).2 = subs ∨ Inv M (aggAcks M es subs).2) := by
  induction es with
  | nil => intro subs _ _; simp [aggAcks, EntsOk]
  | cons e rest ih =>
    intro subs hes hb
    rw [entsOk_cons] at hes
    simp only [aggAcks]
    split
    · cases hr : e.sendack with
      | mk a e' =>
        obtain ⟨he', hsm⟩ := ent_sendack hes.1 hr
        cases a with
        | some p =>
          simp only
          have hinv := append_inv hb (small_fit (hsm p rfl) _)
          split
          · exact ⟨entsOk_cons.2 ⟨he', hes.2⟩, Or.inr hinv⟩
          · have := ih (subs ++ [p]) hes.2 (by omega)
            refine ⟨entsOk_cons.2 ⟨he', this.1⟩, Or.inr ?_⟩
            rcases this.2 with h | h
            · rw [h]; exact hinv
            · exact h
        | none =>
          simp only
          have := ih subs hes.2 hb
          exact ⟨entsOk_cons.2 ⟨he', this.1⟩, this.2⟩
    · have := ih subs hes.2 hb
      exact ⟨entsOk_cons.2 ⟨hes.1, this.1⟩, this.2⟩

theorem entsOk_set {es : List Ent} {i : Nat} {e : Ent} (h : EntsOk es) (he : EntOk e) : EntsOk (es.set i e) := by
  intro x hx
  rcases List.mem_or_eq_of_mem_set hx with h1 | h1
  · exact h x h1
  · rw [h1]; exact he

theorem firstDequeue_spec (m : Int) (hm : 0 ≤ m) (order : List Nat) : ∀ (es : List Ent), EntsOk es →
    EntsOk (firstDequeue m order es).2 ∧ ∀ p, (firstDequeue m order es).1 = some p → FitE p m 0 := by
  induction order with
  | nil => intro es h; simp [firstDequeue, h]
  | cons i rest ih =>
    intro es hes
    simp only [firstDequeue]
    split
    · exact ih es hes
    · rename_i e hget
      have hmem : e ∈ es := List.mem_of_getElem? hget
      cases hr : e.dequeue m 0 with
      | mk a e' =>
        obtain ⟨he', hfit⟩ := ent_dequeue (hes e hmem) hm hr
        cases a with
        | some p => simp only; exact ⟨entsOk_set hes he', hfit⟩
        | none => simp only; exact ih _ (entsOk_set hes he')

theorem firstSendack_spec (es : List Ent) (hes : EntsOk es) :
    EntsOk (firstSendack es).2 ∧ ∀ p, (firstSendack es).1 = some p → Small p := by
  induction es with
  | nil => simp [firstSendack, EntsOk]
  | cons e rest ih =>
    rw [entsOk_cons] at hes
    have ihr := ih hes.2
    simp only [firstSendack]
    split
    · cases hr : e.sendack with
      | mk a e' =>
        obtain ⟨he', hsm⟩ := ent_sendack hes.1 hr
        cases a with
        | some p => simp only; exact ⟨entsOk_cons.2 ⟨he', hes.2⟩, hsm⟩
        | none => simp only; exact ⟨entsOk_cons.2 ⟨he', ihr.1⟩, ihr.2⟩
    · exact ⟨entsOk_cons.2 ⟨hes.1, ihr.1⟩, ihr.2⟩

/-- the octets by which the information field of a frame may exceed the Link MIU: the ICV of a single
(not aggregated) encrypted UI / I PDU - `collect()` asks for the first PDU with `icv_size=0` "because for
encrypted but not aggregated UI and I PDUs the receiver must accept them with complete MIU plus ICV size"
(llc.py) - and nothing for every other frame, in particular nothing for an aggregate -/
def Frame.slack (sec : Option Nat) : Frame → Nat
  | .single p => if p.isData then icvOf sec else 0
  | .agf _ => 0

/-- the first PDU: dequeued with `icv_size=0`, then encrypted -/
theorem first_info {p : QPdu} {M : Nat} (sec : Option Nat) (h : FitE p M 0) (hM : 3 ≤ M) :
    (p.encrypt sec).info ≤ M + (Frame.single (p.encrypt sec)).slack sec := by
  simp only [Frame.slack, QPdu.isData, encrypt_kind]
  unfold QPdu.info
  rw [encrypt_len, encrypt_hdr]
  rcases h.2 with h2 | h2
  · unfold QPdu.size at h2 ⊢
    split <;> split at h2 <;> simp_all <;> omega
  · have hnd := h2.2.2
    unfold QPdu.isData at hnd
    have := h2.2.1
    unfold QPdu.size; rw [if_neg hnd, if_neg hnd]; omega

theorem aggregate_spec (es : List Ent) (M : Nat) (sec : Option Nat) (p : QPdu) (hes : EntsOk es)
    (f : Frame) (es' : List Ent) (h : aggregate es M sec p = (some f, es')) :
    EntsOk es' ∧ (f = .single p ∨ ∃ subs, f = .agf subs ∧ agfLen subs - 2 ≤ M) := by
  unfold aggregate at h
  simp only at h
  have hl := aggLoop_spec M sec (M + 1) es [p] hes
  generalize aggLoop M sec (M + 1) es [p] = l at h hl
  have ha : EntsOk (if budget M l.2 ≥ 0 then aggAcks M l.1 l.2 else l).1 ∧
      ((if budget M l.2 ≥ 0 then aggAcks M l.1 l.2 else l).2 = [p] ∨
      Inv M (if budget M l.2 ≥ 0 then aggAcks M l.1 l.2 else l).2) := by
    split
    · rename_i hb
      have := aggAcks_spec M l.1 l.2 hl.1 hb
      refine ⟨this.1, ?_⟩
      rcases this.2 with h1 | h1
      · rw [h1]; exact hl.2
      · exact Or.inr h1
    · exact hl
  generalize (if budget M l.2 ≥ 0 then aggAcks M l.1 l.2 else l) = a at h ha
  cases h
  refine ⟨ha.1, ?_⟩
  split
  · rename_i hlen
    rcases ha.2 with h1 | h1
    · rw [h1] at hlen; simp at hlen
    · right; exact ⟨a.2, rfl, by unfold Inv at h1; omega⟩
  · exact Or.inl rfl

/-- main bound: the information field of the frame is within the Link MIU; only a single encrypted
UI / I PDU carries its ICV on top -/
theorem collect_bound (es : List Ent) (M : Nat) (sec : Option Nat) (agf : Bool) (hes : EntsOk es) (hM : 3 ≤ M)
    (f : Frame) (es' : List Ent) (h : collect es M sec agf = (some f, es')) :
    EntsOk es' ∧ f.info ≤ M + f.slack sec := by
  unfold collect at h
  simp only at h
  have hf := firstDequeue_spec (M : Int) (by omega) (rawFirst es) es hes
  generalize firstDequeue (M : Int) (rawFirst es) es = first at h hf
  obtain ⟨fo, fes⟩ := first
  cases fo with
  | some p =>
    have hp := first_info sec (hf.2 p rfl) hM
    simp only at h
    split at h
    · cases h; exact ⟨hf.1, hp⟩
    · split at h
      · cases h; exact ⟨hf.1, hp⟩
      · obtain ⟨h1, h2⟩ := aggregate_spec _ M sec _ hf.1 f es' h
        refine ⟨h1, ?_⟩
        rcases h2 with rfl | ⟨subs, rfl, hs⟩
        · exact hp
        · simp only [Frame.info, Frame.slack]; omega
  | none =>
    simp only at h
    have hk := firstSendack_spec fes hf.1
    generalize firstSendack fes = k at h hk
    obtain ⟨ko, kes⟩ := k
    cases ko with
    | none => simp at h
    | some p =>
      have hsm := hk.2 p rfl
      have hp : (Frame.single p).info ≤ M + (Frame.single p).slack sec := by
        simp only [Frame.info]; unfold QPdu.info; have := hsm.2.1; omega
      simp only at h
      split at h
      · cases h; exact ⟨hk.1, hp⟩
      · obtain ⟨h1, h2⟩ := aggregate_spec _ M sec _ hk.1 f es' h
        refine ⟨h1, ?_⟩
        rcases h2 with rfl | ⟨subs, rfl, hs⟩
        · exact hp
        · simp only [Frame.info, Frame.slack]; omega

/-! ## the `while miu_size >= 0` loop terminates: the fuel of the model is never exhausted -/

theorem agfLen_le_append (subs : List QPdu) (p : QPdu) : agfLen subs + 2 ≤ agfLen (subs ++ [p]) := by
  rw [agfLen_append]; omega

/-- a pass that dequeued something made the aggregate at least 2 octets longer -/
theorem aggPass_grows (M : Nat) (sec : Option Nat) (es : List Ent) : ∀ (subs : List QPdu) (nf : Bool),
    agfLen subs ≤ agfLen (aggPass M sec es subs nf).2.1 ∧
    ((aggPass M sec es subs nf).2.2 = false → nf = false ∨ agfLen subs + 2 ≤ agfLen (aggPass M sec es subs nf).2.1) := by
  induction es with
  | nil => intro subs nf; cases nf <;> simp [aggPass]
  | cons e rest ih =>
    intro subs nf
    simp only [aggPass]
    cases hr : e.dequeue (budget M subs) (icvOf sec) with
    | mk a e' =>
      cases a with
      | some p =>
        simp only
        have hg := agfLen_le_append subs (p.encrypt sec)
        split
        · dsimp only
          exact ⟨by omega, fun _ => Or.inr hg⟩
        · have := (ih (subs ++ [p.encrypt sec]) false).1
          dsimp only
          exact ⟨by omega, fun _ => Or.inr (by omega)⟩
      | none =>
        simp only
        exact ih subs nf

theorem aggLoop_fuel (M : Nat) (sec : Option Nat) (fuel : Nat) : ∀ (es : List Ent) (subs : List QPdu),
    budget M subs < fuel → aggLoop M sec (fuel + 1) es subs = aggLoop M sec fuel es subs := by
  induction fuel with
  | zero =>
    intro es subs hb
    simp only [aggLoop]
    rw [if_pos (by omega)]
  | succ fuel ih =>
    intro es subs hb
    rw [aggLoop, aggLoop]
    split
    · rfl
    · simp only
      split
      · rfl
      · rename_i hnb hcont
        have hg := (aggPass_grows M sec es subs true).2
        have hflag : (aggPass M sec es subs true).2.2 = false := by
          cases hx : (aggPass M sec es subs true).2.2 with
          | false => rfl
          | true => exact absurd (Or.inr hx) hcont
        have := hg hflag
        apply ih
        rcases this with h | h
        · cases h
        · unfold budget at hb ⊢; omega

/-- whatever larger bound is given to the aggregation loop, the result is that of `sendMiu + 1` passes -/
theorem aggLoop_fuel_enough (M : Nat) (sec : Option Nat) (es : List Ent) (subs : List QPdu) (k : Nat) :
    aggLoop M sec (M + 1 + k) es subs = aggLoop M sec (M + 1) es subs := by
  induction k with
  | zero => rfl
  | succ k ih =>
    rw [← ih]
    exact aggLoop_fuel M sec (M + 1 + k) es subs (by unfold budget; omega)

end NfcVerif.Collect
