import NfcVerif.Model.T3
import NfcVerif.Lemmas.T34Base
/-! Lemmas for the Type 3 Tag theorems (C01T34, C02T34, C03T34). -/
namespace NfcVerif.T3
open NfcVerif.T34

structure AttrRange (a : Attr) : Prop where
  ver : a.ver < 256
  nbr : a.nbr < 256
  nbw : a.nbw < 256
  nmaxb : a.nmaxb < 65536
  writef : a.writef < 256
  rwflag : a.rwflag < 256
  ln : a.ln < 16777216

theorem decode_encode (a : Attr) (h : AttrRange a) : decodeAttr (encodeAttr a) = .ok (some a) := by
  obtain ⟨h1, h2, h3, h4, h5, h6, h7⟩ := h
  obtain ⟨ver, nbr, nbw, nmaxb, writef, rwflag, ln⟩ := a
  simp only [encodeAttr, decodeAttr] at *
  rw [if_neg]
  · congr 3 <;> omega
  · omega

theorem encodeAttr_length (a : Attr) : (encodeAttr a).length = 16 := by simp [encodeAttr]

theorem elemSum_le (first n : Nat) : elemSum first n ≤ 3 * n := by
  induction n generalizing first with
  | zero => simp [elemSum]
  | succ n ih => have := ih (first + 1); simp only [elemSum, elemSize]; split <;> omega

theorem elemSum_small (first n : Nat) (h : first + n ≤ 256) : elemSum first n = 2 * n := by
  induction n generalizing first with
  | zero => simp [elemSum]
  | succ n ih => have := ih (first + 1) (by omega); simp only [elemSum, elemSize]; rw [if_pos (by omega)]; omega

theorem cmdCheck_read (first n : Nat) (hn : n ≤ 80) (h : first + n ≤ 65536) : cmdCheck first n 0 = .ok () := by
  have := elemSum_le first n
  unfold cmdCheck
  rw [if_neg (by omega), if_neg (by omega), if_neg (by omega)]

/-- a write command of `n ≤ nbw` blocks fits the 255 octet frame -/
def WriteFits (nbw nmaxb : Nat) : Prop := 14 + nbw * (if nmaxb < 256 then 18 else 19) ≤ 255

theorem cmdCheck_write (first n nbw nmaxb : Nat) (hn : n ≤ nbw) (hf : WriteFits nbw nmaxb)
    (h : first + n ≤ nmaxb + 1) (h65 : nmaxb < 65536) : cmdCheck first n (16 * n) = .ok () := by
  unfold WriteFits at hf
  unfold cmdCheck
  split at hf
  · have := elemSum_small first n (by omega)
    have : n * 18 ≤ nbw * 18 := Nat.mul_le_mul_right _ hn
    rw [if_neg (by omega), if_neg (by omega), if_neg (by omega)]
  · have := elemSum_le first n
    have : n * 19 ≤ nbw * 19 := Nat.mul_le_mul_right _ hn
    rw [if_neg (by omega), if_neg (by omega), if_neg (by omega)]

theorem readBlocks_ok (m : Bytes) (first n : Nat) (hn : 1 ≤ n ∧ n ≤ 80) (h : 16 * (first + n) ≤ m.length)
    (h65 : first + n ≤ 65536) : readBlocks m first n = .ok (sliceN m (16 * first) (16 * (first + n))) := by
  unfold readBlocks
  rw [cmdCheck_read first n hn.2 h65]
  simp only [Py.bind_ok]
  rw [if_neg (by omega)]

theorem readLoop_spec (m : Bytes) (nbr last : Nat) (hnbr : 1 ≤ nbr ∧ nbr ≤ 80) (hlast : 16 * last ≤ m.length)
    (h65 : last ≤ 65536) : ∀ fuel i acc, 1 ≤ i → 0 < fuel → last < fuel + i →
    readLoop m nbr last fuel i acc = .ok (some (acc ++ sliceN m (16 * i) (16 * last))) := by
  intro fuel
  induction fuel with
  | zero => intro i acc _ h; omega
  | succ fuel ih =>
    intro i acc hi _ hf
    unfold readLoop
    split
    · rw [sliceN_empty _ _ _ (by omega)]; simp
    · rename_i hlt
      have hlt : i < last := by omega
      have hmin : i < min (i + nbr) last := by omega
      rw [readBlocks_ok m i (min (i + nbr) last - i) (by omega) (by omega) (by omega)]
      simp only []
      rw [ih (i + nbr) _ (by omega) (by omega) (by omega)]
      congr 2
      rw [List.append_assoc]; congr 1
      have e : i + (min (i + nbr) last - i) = min (i + nbr) last := by omega
      rw [e]
      by_cases hc : i + nbr ≤ last
      · rw [Nat.min_eq_left hc]; exact sliceN_append m _ _ _ (by omega) (by omega)
      · rw [Nat.min_eq_right (by omega), sliceN_empty m (16 * (i + nbr)) _ (by omega)]; simp

/-! ## write side -/

theorem sliceN_append_drop (l : Bytes) (a b : Nat) (h : a ≤ b) : sliceN l a b ++ l.drop b = l.drop a := by
  unfold sliceN
  have : l.drop b = (l.drop a).drop (b - a) := by rw [List.drop_drop]; congr 1; omega
  rw [this, List.take_append_drop]

theorem sliceN_to_end (l : Bytes) (a b : Nat) (h : l.length ≤ b) : sliceN l a b = l.drop a := by
  unfold sliceN
  apply List.take_of_length_le
  simp [List.length_drop]; omega

theorem runW_cons_ok {m m' : Bytes} {c : WCmd} (cs : List WCmd) (h : sendW m c = .ok m') :
    runW m (c :: cs) = ⟨c :: (runW m' cs).sent, (runW m' cs).mem, (runW m' cs).res⟩ := by
  simp [runW, h]

theorem runW_append_ok (xs ys : List WCmd) : ∀ (m m' : Bytes), runW m xs = ⟨xs, m', .ok ()⟩ →
    runW m (xs ++ ys) = ⟨xs ++ (runW m' ys).sent, (runW m' ys).mem, (runW m' ys).res⟩ := by
  induction xs with
  | nil => intro m m' h; simp [runW] at h; subst h; simp
  | cons c cs ih =>
    intro m m' h
    cases hs : sendW m c with
    | error e => simp [runW, hs] at h
    | ok m1 =>
      rw [runW_cons_ok cs hs] at h
      have h2 : runW m1 cs = ⟨cs, m', .ok ()⟩ := by
        cases hr : runW m1 cs with
        | mk s mm r => rw [hr] at h; simp at h; obtain ⟨h1, h2, h3⟩ := h; subst h1 h2 h3; rfl
      rw [List.cons_append, runW_cons_ok _ hs, ih m1 m' h2]
      simp

theorem runW_mem_applyW (cs : List WCmd) : ∀ (m M : Bytes), runW m cs = ⟨cs, M, .ok ()⟩ → applyW m cs = M := by
  induction cs with
  | nil => intro m M h; simp [runW] at h; simpa [applyW] using h
  | cons c cs ih =>
    intro m M h
    cases hs : sendW m c with
    | error e => simp [runW, hs] at h
    | ok m1 =>
      rw [runW_cons_ok cs hs] at h
      have h2 : runW m1 cs = ⟨cs, M, .ok ()⟩ := by
        cases hr : runW m1 cs with
        | mk s mm r => rw [hr] at h; simp at h; obtain ⟨h1, h2, h3⟩ := h; subst h1 h2 h3; rfl
      have hm1 : m1 = splice m (16 * c.blk) c.data := by
        unfold sendW at hs
        cases hc : cmdCheck c.blk c.n c.data.length with
        | error e => simp [hc] at hs
        | ok u => simp [hc] at hs; split at hs <;> simp at hs; exact hs.symm
      simp only [applyW, List.foldl_cons]
      rw [← hm1]; exact ih m1 M h2

theorem sendW_ok (m : Bytes) (c : WCmd) (nbw nmaxb : Nat) (hn : 1 ≤ c.n ∧ c.n ≤ nbw) (hfit : WriteFits nbw nmaxb)
    (h65 : nmaxb < 65536) (hr : c.blk + c.n ≤ nmaxb + 1) (hm : 16 * (nmaxb + 1) ≤ m.length)
    (hd : c.data.length = 16 * c.n) : sendW m c = .ok (splice m (16 * c.blk) c.data) := by
  unfold sendW
  rw [hd, cmdCheck_write c.blk c.n nbw nmaxb hn.2 hfit hr h65]
  simp only [Py.bind_ok]
  rw [if_neg (by omega)]

theorem dataCmds_run (pd : Bytes) (nbw last nmaxb : Nat) (hnbw : 1 ≤ nbw) (hfit : WriteFits nbw nmaxb)
    (h65 : nmaxb < 65536) (hlast : 1 ≤ last ∧ last ≤ nmaxb + 1) (hpd : pd.length = 16 * (last - 1)) :
    ∀ fuel i m, 1 ≤ i → 0 < fuel → last < fuel + i → 16 * (nmaxb + 1) ≤ m.length →
      runW m (dataCmds pd nbw last fuel i)
        = ⟨dataCmds pd nbw last fuel i, splice m (16 * i) (pd.drop (16 * (i - 1))), .ok ()⟩ := by
  intro fuel
  induction fuel with
  | zero => intro i m _ h; omega
  | succ fuel ih =>
    intro i m hi _ hf hm
    unfold dataCmds
    split
    · rw [List.drop_of_length_le (by omega)]; simp [runW]
    · rename_i hlt
      have hlt : i < last := by omega
      simp only []
      have hlb : i < min (i + nbw) last ∧ min (i + nbw) last ≤ last := by omega
      generalize hlbv : min (i + nbw) last = lb at hlb
      have hdl : (sliceN pd ((i - 1) * 16) ((lb - 1) * 16)).length = 16 * (lb - i) := by
        rw [sliceN_length _ _ _ (by omega)]; omega
      have hs := sendW_ok m ⟨i, lb - i, sliceN pd ((i - 1) * 16) ((lb - 1) * 16)⟩ nbw nmaxb
        (by simp only []; omega) hfit h65 (by simp only []; omega) hm (by simpa using hdl)
      rw [runW_cons_ok _ hs]
      have hml : (splice m (16 * i) (sliceN pd ((i - 1) * 16) ((lb - 1) * 16))).length = m.length :=
        splice_length _ _ _ (by rw [hdl]; omega)
      rw [ih (i + nbw) _ (by omega) (by omega) (by omega) (by simp only []; rw [hml]; exact hm)]
      simp only [Trace.mk.injEq, true_and, and_true]
      by_cases hc : i + nbw ≤ last
      · have hlbe : lb = i + nbw := by omega
        subst hlbe
        have e1 : 16 * (i + nbw) = 16 * i + (sliceN pd ((i - 1) * 16) ((i + nbw - 1) * 16)).length := by
          rw [hdl]; omega
        rw [e1, splice_adj _ _ _ _ (by rw [hdl, List.length_drop]; omega)]
        congr 1
        have := sliceN_append_drop pd ((i - 1) * 16) ((i + nbw - 1) * 16) (by omega)
        rw [show 16 * (i + nbw - 1) = (i + nbw - 1) * 16 by omega, show 16 * (i - 1) = (i - 1) * 16 by omega]
        exact this
      · have hlbe : lb = last := by omega
        subst hlbe
        rw [List.drop_of_length_le (l := pd) (i := 16 * (i + nbw - 1)) (by omega), splice_nil]
        rw [sliceN_to_end pd _ _ (by omega)]
        rw [show 16 * (i - 1) = (i - 1) * 16 by omega]

theorem dataCmds_mem (pd : Bytes) (nbw last : Nat) (hnbw : 1 ≤ nbw) (hpd : pd.length = 16 * (last - 1)) :
    ∀ fuel i, 1 ≤ i → ∀ c ∈ dataCmds pd nbw last fuel i,
      1 ≤ c.blk ∧ 1 ≤ c.n ∧ c.n ≤ nbw ∧ c.blk + c.n ≤ last ∧ c.data.length = 16 * c.n := by
  intro fuel
  induction fuel with
  | zero => intro i _ c hc; simp [dataCmds] at hc
  | succ fuel ih =>
    intro i hi c hc
    unfold dataCmds at hc
    split at hc
    · simp at hc
    · rename_i hlt
      simp only [List.mem_cons] at hc
      rcases hc with hc | hc
      · subst hc
        simp only []
        have : (sliceN pd ((i - 1) * 16) ((min (i + nbw) last - 1) * 16)).length = 16 * (min (i + nbw) last - i) := by
          rw [sliceN_length _ _ _ (by omega)]; omega
        refine ⟨hi, by omega, by omega, by omega, this⟩
      · exact ih (i + nbw) (by omega) c hc

theorem padded_length (data : Bytes) : (padded data).length = 16 * ((data.length + 15) / 16) := by
  simp [padded, zeros_length]; omega

end NfcVerif.T3
