import NfcVerif.Gen.FnTlv
import NfcVerif.Model.Tlv
import NfcVerif.Lemmas.FnBridgeBase
/-!
Helper lemmas for `Props/FnBridgeTlv.lean` (`get_lock_byte_range`, `get_rsvd_byte_range`,
`get_capacity` of tt1.py / tt2.py against `Model/Tlv.lean`).
-/
namespace NfcVerif.FnBridge.Tlv
open NfcVerif NfcVerif.PyFn NfcVerif.Tlv

/-- how the callers use the `slice` object returned by the source: `range(*x.indices(limit))` -/
def clip (limit : Nat) (r : Int × Int) : Nat × Nat := (min r.1.toNat limit, min r.2.toNat limit)

/-- the Python set `skip_bytes` and the model's list of ranges have the same members -/
def SameSkip (s : Skip) (sk : List Int) : Prop := ∀ a : Nat, ((a : Int) ∈ sk) ↔ inSkip s a = true

theorem range_ofNat (a b : Nat) :
    PyFn.range (a : Int) (b : Int) = (List.range (b - a)).map (fun (i : Nat) => (a : Int) + (i : Int)) := by
  unfold PyFn.range
  have : ((b : Int) - (a : Int)).toNat = b - a := by omega
  rw [this]

theorem count_free (s : Skip) (sk : List Int) (h : SameSkip s sk) :
    ∀ (n a : Nat), (PyFn.setDiff ((List.range n).map (fun (i : Nat) => (a : Int) + (i : Int))) sk).length = cfree s a n := by
  intro n
  induction n with
  | zero => intro a; rfl
  | succ n ih =>
    intro a
    rw [List.range_succ_eq_map, List.map_cons, List.map_map]
    have e : ((fun (i : Nat) => (a : Int) + (i : Int)) ∘ Nat.succ) = (fun (i : Nat) => ((a + 1 : Nat) : Int) + (i : Int)) := by
      funext i; simp; omega
    rw [e]
    unfold PyFn.setDiff at ih ⊢
    rw [List.filter_cons, cfree]
    have hm := h a
    by_cases hs : inSkip s a = true
    · have : sk.contains ((a : Int) + ((0 : Nat) : Int)) = true := by simpa using hm.mpr hs
      simp only [this, Bool.not_true, hs, if_true, Bool.false_eq_true, if_false]
      rw [ih (a + 1)]; simp
    · have : sk.contains ((a : Int) + ((0 : Nat) : Int)) = false := by
        have := mt hm.mp hs; simpa using this
      simp only [this, Bool.not_false, if_true, hs]
      rw [List.length_cons, ih (a + 1)]; simp; omega


/-- arithmetic core of the two range functions on the three value octets -/
theorem range_arith (limit a b c : Nat) (sz : Int) (n : Nat) (hsz : sz = (n : Int)) :
    clip limit (shr (a : Int) 4 * PyFn.pow 2 (band (c : Int) 15) + band (a : Int) 15,
      shr (a : Int) 4 * PyFn.pow 2 (band (c : Int) 15) + band (a : Int) 15 + sz)
    = (min (a / 16 * 2 ^ (c % 16) + a % 16) limit, min (a / 16 * 2 ^ (c % 16) + a % 16 + n) limit) := by
  have e4 : (4 : Int) = ((4 : Nat) : Int) := rfl
  have e15 : (15 : Int) = ((15 : Nat) : Int) := rfl
  have e2 : (2 : Int) = ((2 : Nat) : Int) := rfl
  have h15 : (15 : Nat) = 2 ^ 4 - 1 := rfl
  simp only [e4, e15, e2, shr_ofNat, band_ofNat, pow_ofNat, Nat.shiftRight_eq_div_pow]
  rw [h15, Nat.and_two_pow_sub_one_eq_mod, Nat.and_two_pow_sub_one_eq_mod, ← Int.natCast_mul]
  simp only [show (2:Nat) ^ 4 = 16 from rfl]
  generalize a / 16 * 2 ^ (c % 16) = P
  subst hsz
  unfold clip
  congr 1 <;> omega

end NfcVerif.FnBridge.Tlv
