import NfcVerif.Lemmas.IsoDepV2Term
import NfcVerif.Lemmas.IsoDep
/-!
# ISO-DEP, repaired initiator (`Model/IsoDepV2.lean`): the invariant behind C12

The round machinery of `Lemmas/IsoDep.lean` (`Round`, `Round.Ok`, `St`, `Allowed`, `xchg_post`, the three kinds of
round and their `_ok` lemmas) talks about the card and about ONE `clf.exchange`; it is reused as it is.  This file
re-proves the loop lemmas for the repaired loops: the two new ways out of `_exchange` (RFU multiplier -> protocol
error, too much waiting time -> `waited`) and the two new ways out of the retry loops / the response loop
(`PROTOCOL_ERROR` instead of a further retransmission, empty or oversized chained block) all leave the card either
before or after the single step of the round, which is what the error clause of `LPost` asks for.
-/
namespace NfcVerif.IsoDep2
open NfcVerif NfcVerif.IsoDep

theorem wtxmOf_none {d : Bytes} (h : isWtx d = false) : wtxmOf d = none := by
  unfold wtxmOf
  unfold isWtx at h
  split
  · rename_i a b t
    simp only [beq_eq_false_iff_ne, ne_eq] at h
    simp [h]
  · rfl

theorem wtxmOf_isSome (d : Bytes) : (wtxmOf d).isSome = isWtx d := by
  unfold wtxmOf isWtx
  split
  · split <;> simp_all
  · rename_i h
    cases d with
    | nil => rfl
    | cons a t =>
      cases t with
      | nil => rfl
      | cons b u => exact absurd rfl (h a b u)

theorem wtxmOf_wtxBlock (cfg : CardCfg) : wtxmOf (wtxBlock cfg) = some (cfg.wtxm &&& 0x3F) := by
  simp [wtxmOf, wtxBlock]

/-- what the repaired `_exchange` can return -/
def WPostW (cfg : CardCfg) (R : Round) (c : Card) : RxW → Prop
  | .data [] => St cfg R c
  | .data (a :: t) => (Done R.post R.B c ∧ a :: t = R.B) ∨ (R.Pre c ∧ t = [] ∧ R.resend = some a)
  | _ => St cfg R c

/-- `_exchange` in a round: S(WTX) requests are granted or refused, the outcome is final -/
theorem xchgW_post (cfg : CardCfg) (R : Round) (hR : R.Ok cfg) (L : Nat) (Q : Bytes → Prop)
    (hQ : Q R.req ∧ Q R.rty ∧ Q (wtxBlock cfg)) :
    ∀ (F sum : Nat) (w : World Card) (out : Bytes), Allowed cfg R w.card out → (∀ b ∈ w.trace, Q b) →
      WPostW cfg R (xchgW (isoPeer cfg) L F sum w out).1.card (xchgW (isoPeer cfg) L F sum w out).2 ∧
      (∀ b ∈ (xchgW (isoPeer cfg) L F sum w out).1.trace, Q b) := by
  intro F
  induction F with
  | zero =>
    intro sum w out h hq
    simp only [xchgW]
    exact ⟨by simpa [WPostW] using allowed_st h, hq⟩
  | succ F ih =>
    intro sum w out h hq
    have hout : Q out := by
      rcases h with ⟨_, rfl | rfl⟩ | ⟨_, rfl⟩ | ⟨_, rfl⟩
      · exact hQ.1
      · exact hQ.2.1
      · exact hQ.2.1
      · exact hQ.2.2
    obtain ⟨hA, htr⟩ := xchg_post cfg R hR w out h
    have hq1 : ∀ b ∈ (w.xchg (isoPeer cfg) out).1.trace, Q b := by
      rw [htr]; intro b hb
      rcases List.mem_append.mp hb with hb | hb
      · exact hq b hb
      · simp at hb; subst hb; exact hout
    unfold xchgW
    generalize w.xchg (isoPeer cfg) out = r1 at hA hq1
    obtain ⟨w1, r⟩ := r1
    simp only at hA hq1 ⊢
    rcases hA with ⟨rfl, hp⟩ | ⟨hnw, hw⟩
    · have hst : St cfg R w1.card := Or.inr (Or.inr hp)
      simp only [wtxmOf_wtxBlock]
      split
      · exact ⟨by simpa [WPostW] using hst, hq1⟩
      · split
        · exact ⟨by simpa [WPostW] using hst, hq1⟩
        · exact ih _ w1 (wtxBlock cfg) (Or.inr (Or.inr ⟨hp, rfl⟩)) hq1
    · cases r with
      | data d =>
        simp only [wtxmOf_none (hnw d rfl)]
        refine ⟨?_, hq1⟩
        cases d with
        | nil => simpa [WPost, WPostW] using hw
        | cons a t => simpa [WPost, WPostW] using hw
      | timeout => exact ⟨by simpa [WPost, WPostW] using hw, hq1⟩
      | transmission => exact ⟨by simpa [WPost, WPostW] using hw, hq1⟩
      | protocol => exact ⟨by simpa [WPost, WPostW] using hw, hq1⟩
      | fuel => exact ⟨by simpa [WPost, WPostW] using hw, hq1⟩

theorem blockLoop_post (cfg : CardCfg) (R : Round) (hR : R.Ok cfg) (Q : Bytes → Prop)
    (hQ : Q R.req ∧ Q R.rty ∧ Q (wtxBlock cfg)) (F L n : Nat) :
    ∀ (f i : Nat) (out : Bytes) (w : World Card),
      ((R.Pre w.card ∧ (out = R.req ∨ out = R.rty)) ∨ (Em cfg R.post R.B w.card ∧ out = R.rty)) →
      (∀ b ∈ w.trace, Q b) →
      LPost cfg R (blockLoop (isoPeer cfg) F L n R.resend R.req R.rty f i out w).1.card
                  (blockLoop (isoPeer cfg) F L n R.resend R.req R.rty f i out w).2 ∧
      (∀ b ∈ (blockLoop (isoPeer cfg) F L n R.resend R.req R.rty f i out w).1.trace, Q b) := by
  intro f
  induction f with
  | zero =>
    intro i out w h hq
    simp only [blockLoop, LPost]
    refine ⟨⟨?_, by simp⟩, hq⟩
    rcases h with ⟨h, _⟩ | ⟨h, _⟩
    · exact Or.inl h
    · exact Or.inr h
  | succ f ih =>
    intro i out w h hq
    have hall : Allowed cfg R w.card out := by
      rcases h with h | h
      · exact Or.inl h
      · exact Or.inr (Or.inl h)
    obtain ⟨hw, hq1⟩ := xchgW_post cfg R hR L Q hQ F 0 w out hall hq
    unfold blockLoop
    generalize xchgW (isoPeer cfg) L F 0 w out = r1 at hw hq1
    obtain ⟨w1, r⟩ := r1
    simp only at hw hq1 ⊢
    have retry : ∀ (e : Exc), St cfg R w1.card →
        (e = .outOfFuel ∨ e = .tagCmd TIMEOUT_ERROR ∨ e = .tagCmd RECEIVE_ERROR ∨ e = .tagCmd PROTOCOL_ERROR) →
        LPost cfg R (if i ≤ n then blockLoop (isoPeer cfg) F L n R.resend R.req R.rty f (i+1) R.rty w1 else (w1, .error e)).1.card
          (if i ≤ n then blockLoop (isoPeer cfg) F L n R.resend R.req R.rty f (i+1) R.rty w1 else (w1, .error e)).2 ∧
        (∀ b ∈ (if i ≤ n then blockLoop (isoPeer cfg) F L n R.resend R.req R.rty f (i+1) R.rty w1 else (w1, .error e)).1.trace, Q b) := by
      intro e hst he
      split
      · refine ih (i+1) R.rty w1 ?_ hq1
        rcases hst with h | h
        · exact Or.inl ⟨h, Or.inr rfl⟩
        · exact Or.inr ⟨h, rfl⟩
      · exact ⟨⟨hst, he⟩, hq1⟩
    cases r with
    | data d =>
      cases d with
      | nil => exact retry _ (by simpa [WPostW] using hw) (by simp)
      | cons a t =>
        simp only
        obtain ⟨a', t', hB, hne, _⟩ := hR.hB
        rcases hw with ⟨hd, hab⟩ | ⟨hpre, rfl, hres⟩
        · have : a = a' := by rw [hB] at hab; cases hab; rfl
          subst this
          rw [if_neg hne]
          exact ⟨⟨hd, hab⟩, hq1⟩
        · rw [if_pos hres]
          split
          · exact ⟨⟨Or.inl hpre, by simp⟩, hq1⟩
          · exact ih (i+1) R.req w1 (Or.inl ⟨hpre, Or.inl rfl⟩) hq1
    | timeout => exact retry _ (by simpa [WPostW] using hw) (by simp)
    | transmission => exact retry _ (by simpa [WPostW] using hw) (by simp)
    | protocol => exact ⟨⟨by simpa [WPostW] using hw, by simp⟩, hq1⟩
    | waited => exact ⟨⟨by simpa [WPostW] using hw, by simp⟩, hq1⟩
    | fuel => exact ⟨⟨by simpa [WPostW] using hw, by simp⟩, hq1⟩

theorem sendChunks_post (cfg : CardCfg) (m F L nNak : Nat) (hm : 1 ≤ m) (Lg : List Bytes) (Q : Bytes → Prop)
    (hQ : ∀ b : Bytes, b.length ≤ m + 1 → Q b) :
    ∀ (cs : List Bytes) (pni : Nat) (acc : Bytes) (w : World Card), cs ≠ [] → pni < 2 →
      w.card.bn = (pni + 1) % 2 → w.card.rxbuf = acc → w.card.log = Lg →
      (∀ c ∈ cs, c.length ≤ m) → (∀ b ∈ w.trace, Q b) →
      SendPost cfg Lg (acc ++ cs.flatten) Q (sendChunks (isoPeer cfg) F L nNak cs pni w) := by
  intro cs
  induction cs with
  | nil => intro _ _ _ h; exact absurd rfl h
  | cons c rest ih =>
    intro pni acc w _ hp hb hr hl hcs hq
    have hc : c.length ≤ m := hcs c (by simp)
    cases rest with
    | nil =>
      have hpost := blockLoop_post cfg (cmdRoundLast cfg pni acc Lg c) (cmdRoundLast_ok cfg hp acc Lg c)
        Q ⟨hQ _ (by simp; omega), hQ _ (by simp), hQ _ (by simp [wtxBlock]; omega)⟩
        F L nNak F 1 ((0x02 ||| pni) :: c) w (Or.inl ⟨⟨hb, hr, hl⟩, Or.inl rfl⟩) hq
      unfold sendChunks
      simp only [List.isEmpty_nil, Bool.not_true, Bool.false_eq_true, if_false]
      simp only at hpost
      generalize blockLoop _ _ _ _ _ _ _ _ _ _ _ = r1 at hpost ⊢
      obtain ⟨w1, res⟩ := r1
      obtain ⟨hl1, hq1⟩ := hpost
      cases res with
      | error e =>
        simp only [SendPost]
        refine ⟨hq1, hl1.2, ?_⟩
        have := st_log_last cfg hl1.1
        simpa using this
      | ok d =>
        obtain ⟨hd, rfl⟩ := hl1
        simp only [iBlock_cons]
        have h1 := ihead_and1 hp (decide (cfg.chunk < (cfg.app Lg.length (acc ++ c)).length))
        have h2 := ihead_andEE hp (decide (cfg.chunk < (cfg.app Lg.length (acc ++ c)).length))
        simp only [h1, h2, ne_eq, not_true_eq_false, if_false, if_true, SendPost]
        refine ⟨hq1, tog_lt pni, ?_, ?_⟩
        · simp [tog_tog hp, iBlock_cons]
        · simpa [tog_tog hp, iBlock_cons] using hd
    | cons c2 rest2 =>
      have hpost := blockLoop_post cfg (cmdRoundMore pni acc Lg c) (cmdRoundMore_ok cfg hp acc Lg c)
        Q ⟨hQ _ (by simp; omega), hQ _ (by simp), hQ _ (by simp [wtxBlock]; omega)⟩
        F L nNak F 1 ((0x12 ||| pni) :: c) w (Or.inl ⟨⟨hb, hr, hl⟩, Or.inl rfl⟩) hq
      unfold sendChunks
      simp only [List.isEmpty_cons, Bool.not_false, if_true]
      simp only at hpost
      generalize blockLoop _ _ _ _ _ _ _ _ _ _ _ = r1 at hpost ⊢
      obtain ⟨w1, res⟩ := r1
      obtain ⟨hl1, hq1⟩ := hpost
      cases res with
      | error e =>
        simp only [SendPost]
        refine ⟨hq1, hl1.2, Or.inl ?_⟩
        exact st_log_more cfg hl1.1
      | ok d =>
        obtain ⟨hd, rfl⟩ := hl1
        simp only [ack_and1 hp, ack_andFE hp, ne_eq, not_true_eq_false, if_false, if_true]
        have hcore := hd.1
        simp only [Card.core, Core.mk.injEq] at hcore
        have := ih ((pni + 1) % 2) (acc ++ c) w1 (by simp) (tog_lt pni)
          (by rw [tog_tog hp]; exact hcore.1) hcore.2.1 hcore.2.2.2
          (fun x hx => hcs x (List.mem_cons_of_mem _ hx)) hq1
        simpa [List.append_assoc] using this

theorem recvChain_post (cfg : CardCfg) (m F L nAck : Nat) (hm : 1 ≤ m) (L' : List Bytes) (rsp : Bytes) (Q : Bytes → Prop)
    (hQ : ∀ b : Bytes, b.length ≤ m + 1 → Q b) :
    ∀ (f pni : Nat) (data resp : Bytes) (w : World Card) (T : Bytes) (more : Bool) (inf : Bytes),
      pni < 2 → data = iBlock ((pni + 1) % 2) more inf → (more = true ↔ T ≠ []) →
      Done ⟨(pni + 1) % 2, [], T, L'⟩ data w.card → resp ++ T = rsp →
      (∀ b ∈ w.trace, Q b) →
      RecvPost L' rsp Q (recvChain (isoPeer cfg) F L nAck f pni data resp w) := by
  intro f
  induction f with
  | zero =>
    intro pni data resp w T more inf _ _ _ hd _ hq
    simp only [recvChain, RecvPost]
    refine ⟨hq, ?_, Or.inl rfl⟩
    simpa [Card.core] using congrArg Core.log hd.1
  | succ f ih =>
    intro pni data resp w T more inf hp hdata hmore hd hresp hq
    have hcore := hd.1
    simp only [Card.core, Core.mk.injEq] at hcore
    subst hdata
    unfold recvChain
    simp only [iBlock_cons]
    cases more with
    | false =>
      have h10 := (ihead_and10 (tog_lt pni) false).mpr rfl
      simp only [Bool.false_eq_true, if_false] at h10 ⊢
      simp only [h10, if_true, RecvPost]
      have hT : T = [] := by
        cases T with
        | nil => rfl
        | cons x xs => exact absurd (hmore.mpr (by simp)) (by simp)
      subst hT
      exact ⟨hq, hcore.2.2.2, by simpa using hresp, hp, hcore.1, hcore.2.1⟩
    | true =>
      have h10 : ¬ (((if true = true then 0x12 else 0x02) ||| ((pni + 1) % 2)) &&& 0x10 = 0) := by
        intro h; exact absurd ((ihead_and10 (tog_lt pni) true).mp h) (by simp)
      simp only [if_true] at h10 ⊢
      simp only [h10, if_false]
      split
      · -- empty chained block or oversized response: PROTOCOL_ERROR, the card is where it was
        simp only [RecvPost]
        exact ⟨hq, hcore.2.2.2, Or.inr (Or.inr (Or.inr rfl))⟩
      · have hT : T ≠ [] := hmore.mp rfl
        have hpost := blockLoop_post cfg (ackRound cfg pni T L') (ackRound_ok cfg hp T hT L')
          Q ⟨hQ _ (by simp), hQ _ (by simp), hQ _ (by simp [wtxBlock]; omega)⟩
          F L nAck F 1 [0xA2 ||| pni] w (Or.inl ⟨hd.1, Or.inl rfl⟩) hq
        simp only at hpost ⊢
        generalize blockLoop _ _ _ _ _ _ _ _ _ _ _ = r1 at hpost ⊢
        obtain ⟨w1, res⟩ := r1
        obtain ⟨hl1, hq1⟩ := hpost
        cases res with
        | error e =>
          simp only [RecvPost]
          exact ⟨hq1, st_log_ack cfg hl1.1, hl1.2⟩
        | ok d =>
          obtain ⟨hd1, rfl⟩ := hl1
          simp only [iBlock_cons]
          simp only [ihead_and1 hp, ne_eq, not_true_eq_false, if_false]
          refine ih ((pni + 1) % 2) _ _ w1 (T.drop cfg.chunk) (decide (cfg.chunk < T.length)) (T.take cfg.chunk)
            (tog_lt pni) ?_ ?_ ?_ ?_ hq1
          · simp [tog_tog hp, iBlock_cons]
          · simp [List.drop_eq_nil_iff]
          · simpa [tog_tog hp, iBlock_cons] using hd1
          · simpa [List.append_assoc] using hresp

/-- everything `exchange` guarantees against the ISO/IEC 14443-4 card, for every fault script -/
def ExchPost (cfg : CardCfg) (cmd : Bytes) (Q : Bytes → Prop) (w : World Card) (r : World Card × Pcd × Py Bytes) : Prop :=
  (∀ b ∈ r.1.trace, Q b) ∧
  match r.2.2 with
  | .ok x => r.1.card.log = w.card.log ++ [cmd] ∧ x = cfg.app w.card.log.length cmd ∧
             r.2.1.pni < 2 ∧ Sync r.2.1.pni r.1.card
  | .error e => ErrKind e ∧ (r.1.card.log = w.card.log ∨ r.1.card.log = w.card.log ++ [cmd])

theorem exchangeCmd_post (cfg : CardCfg) (F : Nat) (pcd : Pcd) (cmd : Bytes) (w : World Card) (m : Nat)
    (hmiu : pcd.miu = (m : Int)) (hm : 1 ≤ m) (hcmd : cmd ≠ []) (hp : pcd.pni < 2)
    (hs : Sync pcd.pni w.card) (Q : Bytes → Prop) (hQ : ∀ b : Bytes, b.length ≤ m + 1 → Q b) (hq : ∀ b ∈ w.trace, Q b) :
    ExchPost cfg cmd Q w (exchangeCmd (isoPeer cfg) F pcd cmd w) := by
  have h0 : ¬ pcd.miu = 0 := by omega
  have h1 : ¬ (pcd.miu < 0 ∨ cmd = []) := by
    intro h; rcases h with h | h
    · omega
    · exact hcmd h
  have ht : pcd.miu.toNat = m := by omega
  obtain ⟨hfl, hne, hlen⟩ := chunks_spec m hm cmd hcmd
  have hsend := sendChunks_post cfg m F pcd.wlim pcd.nNak hm w.card.log Q hQ (chunks m cmd) pcd.pni [] w hne hp hs.1 hs.2 rfl hlen hq
  unfold exchangeCmd
  simp only [h0, h1, if_false, ht]
  rw [hfl, List.nil_append] at hsend
  generalize sendChunks _ _ _ _ _ _ _ = r1 at hsend ⊢
  obtain ⟨w1, pni1, res⟩ := r1
  obtain ⟨hq1, hres⟩ := hsend
  cases res with
  | error e => exact ⟨hq1, hres⟩
  | ok d =>
    obtain ⟨hp1, hd, hdone⟩ := hres
    simp only at hp1 hd hdone hq1 ⊢
    have hrecv := recvChain_post cfg m F pcd.wlim pcd.nAck hm (w.card.log ++ [cmd]) (cfg.app w.card.log.length cmd) Q hQ
      F pni1 d (d.drop 1) w1 ((cfg.app w.card.log.length cmd).drop cfg.chunk)
      (decide (cfg.chunk < (cfg.app w.card.log.length cmd).length)) ((cfg.app w.card.log.length cmd).take cfg.chunk)
      hp1 hd (by simp [List.drop_eq_nil_iff]) hdone (by rw [hd]; simp [iBlock_cons]) hq1
    generalize recvChain _ _ _ _ _ _ _ _ _ = r2 at hrecv ⊢
    obtain ⟨w2, pni2, res2⟩ := r2
    obtain ⟨hq2, hlog2, hres2⟩ := hrecv
    cases res2 with
    | error e => exact ⟨hq2, hres2, Or.inr hlog2⟩
    | ok x =>
      obtain ⟨hx, hp2, hb2, hr2⟩ := hres2
      exact ⟨hq2, hlog2, hx, hp2, hb2, hr2⟩

end NfcVerif.IsoDep2
