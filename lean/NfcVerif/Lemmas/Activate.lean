import NfcVerif.Model.Activate
/-!
# Lemmas for the activation model (property C19)
-/

namespace NfcVerif.Activate

/-! ## clamping, tables -/

theorem clampI_le (hi x : Int) (_h : 0 ≤ hi) : (clampI 0 hi x : Int) ≤ hi := by
  unfold clampI; omega

theorem clampI_id (hi x : Int) (h0 : 0 ≤ x) (h1 : x ≤ hi) : (clampI 0 hi x : Int) = x := by
  unfold clampI; omega

theorem clampI_low (hi x : Int) (h0 : x ≤ 0) (_h : 0 ≤ hi) : clampI 0 hi x = 0 := by
  unfold clampI; omega

theorem clampI_high (hi x : Int) (h0 : hi ≤ x) (h : 0 ≤ hi) : (clampI 0 hi x : Int) = hi := by
  unfold clampI; omega

theorem clampI_le_nat (hi : Nat) (x : Int) : clampI 0 hi x ≤ hi := by
  unfold clampI; omega

theorem lrTable_ge (i : Nat) : 64 ≤ lrTable i := by
  unfold lrTable; split <;> omega

theorem lrTable_le (i : Nat) : lrTable i ≤ 254 := by
  unfold lrTable; split <;> omega

/-! ## PAX TLVs -/

/-- every TLV value fits its field -/
def Pax.WF (p : Pax) : Prop :=
  (∀ v, p.version = some v → v < 256) ∧ (∀ v, p.miux = some v → v < 2048) ∧
  (∀ v, p.wks = some v → v < 65536) ∧ (∀ v, p.lto = some v → v < 256) ∧ (∀ v, p.opt = some v → v < 8)

theorem tlv1_some (t v : Nat) (h : v < 256) : tlv1 t (some v) = .ok [t, 1, v] := by
  simp [tlv1]; omega
theorem tlv2_some (t v : Nat) (h : v < 65536) : tlv2 t (some v) = .ok [t, 2, v / 256, v % 256] := by
  simp [tlv2]; omega
@[simp] theorem tlv1_none (t : Nat) : tlv1 t none = .ok [] := rfl
@[simp] theorem tlv2_none (t : Nat) : tlv2 t none = .ok [] := rfl

theorem pax_roundtrip (p : Pax) (h : Pax.WF p) :
    ∃ t, encodeTlvs p = .ok t ∧ t.length ≤ 17 ∧ (p.version ≠ none → 3 ≤ t.length) ∧ decodeTlvs t = .ok p := by
  obtain ⟨ver, miux, wks, lto, opt⟩ := p
  obtain ⟨h1, h2, h3, h4, h5⟩ := h
  simp only at h1 h2 h3 h4 h5
  cases ver <;> cases miux <;> cases wks <;> cases lto <;> cases opt
  all_goals first | (have := h1 _ rfl) | skip
  all_goals first | (have := h2 _ rfl) | skip
  all_goals first | (have := h3 _ rfl) | skip
  all_goals first | (have := h4 _ rfl) | skip
  all_goals first | (have := h5 _ rfl) | skip
  all_goals
    simp [encodeTlvs, tlv1_some, tlv2_some, decodeTlvs, paxLoop, paxTlv, Pax.empty, beNat, *,
      show ∀ v, v < 2048 → v < 65536 from fun v h => by omega,
      show ∀ v, v < 8 → v < 256 from fun v h => by omega]
  all_goals try omega

/-! ## the options a device may legally use -/

/-- documented range of the LLC options: MIU 128..2175, link timeout a multiple of 10 ms that fits
one octet, link service class 0..3 -/
def ValidLlc (o : LlcOpts) : Prop :=
  128 ≤ o.miu ∧ o.miu ≤ 2175 ∧ 0 ≤ o.lto ∧ o.lto ≤ 2550 ∧ o.lto % 10 = 0 ∧ 0 ≤ o.lsc ∧ o.lsc ≤ 3

instance (o : LlcOpts) : Decidable (ValidLlc o) := by unfold ValidLlc; infer_instance

theorem wksOf_lt (s : List Nat) : wksOf s < 65536 := by
  unfold wksOf; omega

theorem lsc_cases (x : Int) (h0 : 0 ≤ x) (h1 : x ≤ 3) : x = 0 ∨ x = 1 ∨ x = 2 ∨ x = 3 := by omega

theorem sendPax_wf (o : LlcOpts) (h : ValidLlc o) : Pax.WF (sendPax o) := by
  obtain ⟨miu, lto, lsc, agf, sec, saps⟩ := o
  obtain ⟨h1, h2, h3, h4, h5, h6, h7⟩ := h
  simp only at h1 h2 h3 h4 h5 h6 h7
  have hw := wksOf_lt saps
  rcases lsc_cases lsc h6 h7 with rfl | rfl | rfl | rfl <;> cases sec <;>
    (refine ⟨?_, ?_, ?_, ?_, ?_⟩ <;> intro v hv <;> simp [sendPax] at hv <;>
      first
      | omega
      | (obtain ⟨_, rfl⟩ := hv; rw [Int.fdiv_eq_ediv_of_nonneg _ (by omega)]; omega)
      | (obtain ⟨_, rfl⟩ := hv; omega)
      | (subst hv; decide))

/-- the parameters device A must hold about device B -/
def agreed (A B : LlcOpts) : LlcHeld :=
  { recvMiu := A.miu, sendLto := A.lto, agf := A.agf, sec := A.sec
    ver := (1, 3)
    sendMiu := B.miu.toNat
    recvLto := B.lto.toNat
    sendWks := wksOf B.saps
    sendLsc := B.lsc.toNat
    dpc := if A.sec && B.sec then 1 else 0 }

theorem takeover_sendPax (A B : LlcOpts) (h : ValidLlc B) : takeover A (sendPax B) = agreed A B := by
  obtain ⟨miu, lto, lsc, agf, sec, saps⟩ := B
  obtain ⟨h1, h2, h3, h4, h5, h6, h7⟩ := h
  simp only at h1 h2 h3 h4 h5 h6 h7
  have e1 : (match (if miu = 128 then none else some (max (miu - 128) 0).toNat : Option Nat) with
      | none => 128 | some m => m + 128) = miu.toNat := by
    by_cases hm : miu = 128
    · simp [hm]
    · simp only [hm, if_false]
      show (max (miu - 128) 0).toNat + 128 = miu.toNat
      omega
  have e2 : (match (if lto = 100 then none else some ((lto.fdiv 10) % 256).toNat : Option Nat) with
      | none => 10 | some l => l) * 10 = lto.toNat := by
    rw [Int.fdiv_eq_ediv_of_nonneg _ (by omega)]
    by_cases hm : lto = 100
    · simp [hm]
    · simp only [hm, if_false]
      show ((lto / 10) % 256).toNat * 10 = lto.toNat
      omega
  rcases lsc_cases lsc h6 h7 with rfl | rfl | rfl | rfl <;> cases sec <;> cases A.sec <;>
    simp [takeover, sendPax, agreed] <;> first | exact e1 | exact ⟨e1, e2⟩ | skip

theorem gbAccepted_magic (t : Bytes) (h : 3 ≤ t.length) : gbAccepted (magic ++ t) = true := by
  simp [gbAccepted, magic]; omega

/-- LLC half of the property: what A takes over from the general bytes B built equals what B
announced, for every valid option set of B and any options of A -/
theorem negotiated_llc (A B : LlcOpts) (hB : ValidLlc B) :
    ∃ gb, encodeGb (sendPax B) = .ok gb ∧ gb.length ≤ 20 ∧ llcLink A gb = .ok (some (agreed A B)) := by
  obtain ⟨t, ht, hl, h3, hd⟩ := pax_roundtrip (sendPax B) (sendPax_wf B hB)
  have hv : (sendPax B).version ≠ none := by simp [sendPax]
  refine ⟨magic ++ t, ?_, ?_, ?_⟩
  · simp [encodeGb, ht]
  · simp [magic]; omega
  · have hdrop : (magic ++ t).drop 3 = t := by simp [magic]
    simp only [llcLink, gbAccepted_magic t (h3 hv), if_true, hdrop, hd, takeover_sendPax A B hB]

/-- the general bytes always fit: `gbi[0:48]` / `gbt[0:47]` never cut a TLV -/
theorem gb_length (o : LlcOpts) (gb : Bytes) (h : encodeGb (sendPax o) = .ok gb) : gb.length ≤ 20 := by
  unfold encodeGb encodeTlvs at h
  simp only [sendPax] at h
  have l1 : ∀ t o r, tlv1 t o = .ok r → r.length ≤ 3 := by
    intro t o r; cases o <;> simp [tlv1] <;> (try split) <;> intro h <;> (try cases h) <;> simp_all
    all_goals (subst_vars; simp)
  have l2 : ∀ t o r, tlv2 t o = .ok r → r.length ≤ 4 := by
    intro t o r; cases o <;> simp [tlv2] <;> (try split) <;> intro h <;> (try cases h) <;> simp_all
    all_goals (subst_vars; simp)
  simp only [Py.bind_eq_ok] at h
  obtain ⟨t, ⟨a, ha, b, hb, c, hc, d, hd, e, he, hh⟩, hg⟩ := h
  cases hh; cases hg
  have := l1 _ _ _ ha; have := l2 _ _ _ hb; have := l2 _ _ _ hc; have := l1 _ _ _ hd; have := l1 _ _ _ he
  simp [magic]; omega

/-! ## ATR_REQ / ATR_RES -/

theorem decodeAtrRes_atrRes (id : Bytes) (h : id.length = 10) (to pp : Nat) (gb : Bytes) :
    decodeAtrRes (atrRes id to pp gb) = .ok ⟨id, to, pp, if pp &&& 2 ≠ 0 then gb else []⟩ := by
  have h3 : id.drop 15 = [] := List.drop_of_length_le (by omega)
  simp [decodeAtrRes, atrRes, List.drop_append, List.take_append, h, h3]

theorem decodeAtrReq_atrReq (id : Bytes) (h : id.length = 10) (did pp : Nat) (gb : Bytes) :
    decodeAtrReq (atrReq id did pp gb) = .ok ⟨id, did, pp, if pp &&& 2 ≠ 0 then gb else []⟩ := by
  have h3 : id.drop 14 = [] := List.drop_of_length_le (by omega)
  simp [decodeAtrReq, atrReq, List.drop_append, List.take_append, h, h3]

/-- the PP octet carries the length reduction in bits 4..5 and "general bytes present" in bit 1 -/
theorem pp_fields (l : Nat) (hl : l ≤ 3) (g n : Bool) :
    ((l * 16 + boolBit g 2 + boolBit n 1) / 16) % 4 = l ∧
    (((l * 16 + boolBit g 2 + boolBit n 1) &&& 2 ≠ 0) ↔ g = true) := by
  have : l = 0 ∨ l = 1 ∨ l = 2 ∨ l = 3 := by omega
  rcases this with rfl | rfl | rfl | rfl <;> cases g <;> cases n <;> decide

theorem gb_if (pp : Nat) (gb : Bytes) (h : (pp &&& 2 ≠ 0) ↔ (!gb.isEmpty) = true) :
    (if pp &&& 2 ≠ 0 then gb else []) = gb := by
  by_cases hc : pp &&& 2 ≠ 0
  · simp [hc]
  · have : ¬ ((!gb.isEmpty) = true) := fun hh => hc (h.mpr hh)
    have he : gb = [] := by
      cases gb with
      | nil => rfl
      | cons a l => simp at this
    simp [he]

theorem pslBrty_pslReq (did brs lri : Nat) (h : brs ≤ 2) : pslBrty (pslReq did brs lri) = brs := by
  have : brs = 0 ∨ brs = 1 ∨ brs = 2 := by omega
  rcases this with rfl | rfl | rfl <;> rfl

theorem nfcid3t_length (rnd6 : Bytes) (h : rnd6.length = 6) : (nfcid3tOf rnd6).length = 10 := by
  simp [nfcid3tOf, st, h]

theorem fsearch_id_length (rnd6 : Bytes) (h : rnd6.length = 6) : ((nfcid3tOf rnd6).take 8 ++ st).length = 10 := by
  simp [nfcid3tOf, st, h]

/-- what the Initiator must hold about the NFC-DEP link -/
def iAgreed (I T : Side) (f : Found) (acm : Bool) : IHeld :=
  { miu := lrTable (clampI 0 3 T.dep.lrt) - 3 - boolBit I.dep.did.isSome 1 - boolBit I.dep.nad.isSome 1
    wt := clampI 0 14 T.dep.rwt
    brty := max f.brty (clampI 0 2 I.dep.brs)
    did := I.dep.did, nad := I.dep.nad, acm := acm
    brs := clampI 0 2 I.dep.brs, lri := clampI 0 3 I.dep.lri }

/-- what the Target must hold about the NFC-DEP link -/
def tAgreed (I T : Side) (f : Found) : THeld :=
  { miu := lrTable (clampI 0 3 I.dep.lri) - 3 - boolBit (didByte I.dep.did > 0) 1
    wt := clampI 0 14 T.dep.rwt
    brty := max f.brty (clampI 0 2 I.dep.brs)
    did := if didByte I.dep.did > 0 then some (didByte I.dep.did) else none
    acm := f.activeMode
    lrt := clampI 0 3 T.dep.lrt }

theorem initiatorSide_spec (I : Side) (acm : Bool) (brs lri brty : Nat) (id : Bytes) (hid : id.length = 10)
    (rwt lrt : Nat) (hr : rwt ≤ 14) (hl : lrt ≤ 3) (gbt : Bytes) (l : Option LlcHeld)
    (hlink : llcLink I.llc gbt = .ok l) :
    initiatorSide I acm brs lri brty (atrRes id rwt (pptOf lrt gbt) gbt) =
      .ok (some ({ miu := lrTable lrt - 3 - boolBit I.dep.did.isSome 1 - boolBit I.dep.nad.isSome 1
                   wt := rwt, brty := brty, did := I.dep.did, nad := I.dep.nad, acm := acm
                   brs := brs, lri := lri }, l)) := by
  have hp := pp_fields lrt hl (!gbt.isEmpty) false
  have hpp : pptOf lrt gbt = lrt * 16 + boolBit (!gbt.isEmpty) 2 + boolBit false 1 := by simp [pptOf, boolBit]
  have hgb := gb_if (pptOf lrt gbt) gbt (by rw [hpp]; exact hp.2)
  have hw : rwt % 16 = rwt := by omega
  have hw2 : (if rwt < 15 then rwt else 14) = rwt := by split <;> omega
  unfold initiatorSide
  rw [decodeAtrRes_atrRes id hid]
  simp only [Py.bind_ok, hgb, hlink, hw, hw2]
  rw [hpp, hp.1]

theorem targetSide_spec (T : Side) (rwt lrt brty : Nat) (am : Bool) (id : Bytes) (hid : id.length = 10)
    (didb lri : Nat) (hl : lri ≤ 3) (gbi : Bytes) (nad : Option Int) (l : Option LlcHeld)
    (hlink : llcLink T.llc gbi = .ok l) :
    targetSide T rwt lrt brty am (atrReq id didb (ppiOf lri gbi nad) gbi) =
      .ok (some ({ miu := lrTable lri - 3 - boolBit (didb > 0) 1
                   wt := rwt, brty := brty
                   did := if didb > 0 then some didb else none
                   acm := am, lrt := lrt }, l)) := by
  have hp := pp_fields lri hl (!gbi.isEmpty) (optTruthy nad)
  have hgb := gb_if (ppiOf lri gbi nad) gbi (by unfold ppiOf; exact hp.2)
  unfold targetSide
  rw [decodeAtrReq_atrReq id hid]
  simp only [Py.bind_ok, hgb, hlink]
  unfold ppiOf
  rw [hp.1]

/-- NFC-DEP half of the property, through the bytes of ATR_REQ / ATR_RES / PSL_REQ: for ANY integer
option values (clamping), any DID/NAD, any technology the target was found at -/
theorem handshake_spec (I T : Side) (gbI gbT : Bytes) (f : Found) (acm : Bool) (nfcid3 rnd6 : Bytes)
    (h3 : nfcid3.length = 10) (h6 : rnd6.length = 6) (hgI : gbI.length ≤ 48) (hgT : gbT.length ≤ 47)
    (lI lT : LlcHeld) (hlI : llcLink I.llc gbT = .ok (some lI)) (hlT : llcLink T.llc gbI = .ok (some lT)) :
    (handshake I T gbI gbT f acm nfcid3 rnd6).ini = .ok (some (iAgreed I T f acm, some lI)) ∧
    (handshake I T gbI gbT f acm nfcid3 rnd6).tgt = .ok (some (tAgreed I T f, some lT)) := by
  have tI : gbI.take 48 = gbI := List.take_of_length_le hgI
  have tT : gbT.take 47 = gbT := List.take_of_length_le hgT
  have hbrs : clampI 0 2 I.dep.brs ≤ 2 := clampI_le_nat 2 _
  have hlri : clampI 0 3 I.dep.lri ≤ 3 := clampI_le_nat 3 _
  have hlrt : clampI 0 3 T.dep.lrt ≤ 3 := clampI_le_nat 3 _
  have hrwt : clampI 0 14 T.dep.rwt ≤ 14 := clampI_le_nat 14 _
  have hidt := nfcid3t_length rnd6 h6
  have hid : (if f.fsearch then (nfcid3tOf rnd6).take 8 ++ st else nfcid3).length = 10 := by
    split
    · exact fsearch_id_length rnd6 h6
    · exact h3
  have hbr : (if decide (clampI 0 2 I.dep.brs > f.brty) then clampI 0 2 I.dep.brs else f.brty)
      = max f.brty (clampI 0 2 I.dep.brs) := by
    by_cases hc : clampI 0 2 I.dep.brs > f.brty <;> simp [hc] <;> omega
  have hbt : (if decide (clampI 0 2 I.dep.brs > f.brty)
      then pslBrty (pslReq (didByte I.dep.did) (clampI 0 2 I.dep.brs) (clampI 0 3 I.dep.lri)) else f.brty)
      = max f.brty (clampI 0 2 I.dep.brs) := by
    rw [pslBrty_pslReq _ _ _ hbrs]; exact hbr
  have hini := initiatorSide_spec I acm (clampI 0 2 I.dep.brs) (clampI 0 3 I.dep.lri)
    (max f.brty (clampI 0 2 I.dep.brs)) (nfcid3tOf rnd6) hidt (clampI 0 14 T.dep.rwt) (clampI 0 3 T.dep.lrt)
    hrwt hlrt gbT (some lI) hlI
  have htgt := targetSide_spec T (clampI 0 14 T.dep.rwt) (clampI 0 3 T.dep.lrt)
    (max f.brty (clampI 0 2 I.dep.brs)) f.activeMode _ hid (didByte I.dep.did) (clampI 0 3 I.dep.lri) hlri gbI
    I.dep.nad (some lT) hlT
  unfold handshake
  simp only [tI, tT, hbr, hbt, hini, linked, if_true, htgt]
  exact ⟨rfl, rfl⟩

theorem discover_brty (air : AirCfg) (given : Option Nat) (acm : Bool) (brs : Nat) (f : Found) (acm' : Bool)
    (hg : ∀ b, given = some b → b ≤ 2) (h : discover air given acm brs = (some f, acm')) : f.brty ≤ 2 := by
  unfold discover at h
  split at h
  · rename_i b
    split at h <;> simp at h
    obtain ⟨rfl, _⟩ := h
    exact hg b rfl
  · split at h
    · simp at h; obtain ⟨rfl, _⟩ := h; simp
    · split at h
      · simp at h; obtain ⟨rfl, _⟩ := h; simp
      · split at h <;> simp at h
        obtain ⟨rfl, _⟩ := h; simp

/-- the whole property on `activate`: whenever a target is found, both devices end up linked and
hold exactly what the other side announced -/
theorem activate_spec (air : AirCfg) (given : Option Nat) (I T : Side) (nfcid3 rnd6 : Bytes)
    (h3 : nfcid3.length = 10) (h6 : rnd6.length = 6)
    (hI : ValidLlc I.llc) (hT : ValidLlc T.llc) (hd : didNadOk I.dep = true)
    (f : Found) (acm : Bool) (hf : discover air given I.dep.acm (clampI 0 2 I.dep.brs) = (some f, acm)) :
    (activate air given I T nfcid3 rnd6).ini = .ok (some (iAgreed I T f acm, some (agreed I.llc T.llc))) ∧
    (activate air given I T nfcid3 rnd6).tgt = .ok (some (tAgreed I T f, some (agreed T.llc I.llc))) := by
  obtain ⟨gbI, eI, lenI, linkT⟩ := negotiated_llc T.llc I.llc hI
  obtain ⟨gbT, eT, lenT, linkI⟩ := negotiated_llc I.llc T.llc hT
  unfold activate
  simp only [eI, eT, hd, not_true_eq_false, if_false, hf]
  exact handshake_spec I T gbI gbT f acm nfcid3 rnd6 h3 h6 (by omega) (by omega) _ _ linkI linkT

/-! ## later traffic -/

theorem inf_within (lr : Nat) (did nad : Bool) (n : Nat) :
    infLen did nad (chunk (lrTable lr - 3 - boolBit did 1 - boolBit nad 1) n) ≤ lrTable lr := by
  have := lrTable_ge lr
  unfold infLen chunk
  cases did <;> cases nad <;> simp [boolBit] <;> omega

/-! ## only the documented exception from peer general bytes -/

theorem paxTlv_safe (p : Pax) (t l : Nat) (v : Bytes) : Safe (· = Exc.decodeError) (paxTlv p t l v) := by
  intro e h
  unfold paxTlv at h
  repeat' split at h
  all_goals first | (cases h; rfl) | cases h

theorem paxLoop_safe (fuel : Nat) : ∀ (d : Bytes) (p : Pax), Safe (· = Exc.decodeError) (paxLoop fuel d p) := by
  induction fuel with
  | zero => intro d p; unfold paxLoop; exact Safe.ok _
  | succ n ih =>
    intro d p
    unfold paxLoop
    split
    · apply Safe.ite
      · exact Safe.throw rfl
      · exact Safe.bind' (paxTlv_safe _ _ _ _) (fun a => ih _ a)
    · exact Safe.ok _

/-- `llc.activate` never raises on peer general bytes: a configuration or "no link" -/
theorem llcLink_total (o : LlcOpts) (gb : Bytes) : ∃ r, llcLink o gb = .ok r := by
  unfold llcLink
  split
  · cases h : decodeTlvs (gb.drop 3) with
    | ok r => exact ⟨_, rfl⟩
    | error e =>
      have := paxLoop_safe _ _ _ e h
      subst this
      exact ⟨none, rfl⟩
  · exact ⟨none, rfl⟩

end NfcVerif.Activate
