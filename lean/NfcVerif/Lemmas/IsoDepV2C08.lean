import NfcVerif.Model.IsoDepV2
import NfcVerif.Model.IsoDepC08
/-!
# `Model/IsoDepV2.lean` (C12) and `Model/IsoDepC08.lean` with all repairs switched on (C08) are the same initiator

`IsoDepR.*` (one switch per repair, used by the adversarial-card sessions of C08 and as the target of the function
bridge of group IsoSm, which regenerates the decision logic of `IsoDepInitiator` from the source) with `Fix.all` is,
function by function, `IsoDep2.*`: what C12 proves about `IsoDep2.exchange` holds for the function the source
translation is proved equal to, and what C08 proves about `IsoDepR.exchange` holds for the model of C12.
-/
namespace NfcVerif.IsoDep2
open NfcVerif NfcVerif.IsoDep

def RxW.ofR : IsoDepR.RxW → RxW
  | .data b => .data b | .timeout => .timeout | .transmission => .transmission
  | .protocol => .protocol | .fuel => .fuel | .waited => .waited

theorem wtxmOf_eq (d : Bytes) : IsoDepR.wtxmOf d = wtxmOf d := rfl

theorem xchgW_c08 {σ} (P : Peer σ) (L : Nat) : ∀ (f sum : Nat) (w : World σ) (out : Bytes),
    ((IsoDepR.xchgW P (some L) f sum w out).1, RxW.ofR (IsoDepR.xchgW P (some L) f sum w out).2) = xchgW P L f sum w out := by
  intro f
  induction f with
  | zero => intro sum w out; rfl
  | succ f ih =>
    intro sum w out
    unfold IsoDepR.xchgW xchgW
    rcases hx : w.xchg P out with ⟨w', r⟩
    cases r with
    | data d =>
      simp only [wtxmOf_eq]
      cases hm : wtxmOf d with
      | none => rfl
      | some m =>
        simp only
        split
        · rfl
        · split
          · rfl
          · exact ih _ _ _
    | timeout => rfl
    | transmission => rfl
    | protocol => rfl
    | fuel => rfl

/-- the configuration of `Model/IsoDepC08.lean` that belongs to a reader state: all repairs on -/
def c08Cfg (L F : Nat) : IsoDepR.Cfg := { fx := IsoDepR.Fix.all, lim := L, F := F }

theorem blockLoop_c08 {σ} (P : Peer σ) (F L n : Nat) (resend : Option Nat) (req rty : Bytes) :
    ∀ (f i : Nat) (out : Bytes) (w : World σ),
      IsoDepR.blockLoop P (c08Cfg L F) n resend req rty f i out w = blockLoop P F L n resend req rty f i out w := by
  intro f
  induction f with
  | zero => intro i out w; rfl
  | succ f ih =>
    intro i out w
    unfold IsoDepR.blockLoop blockLoop
    have hx := xchgW_c08 P L F 0 w out
    have hl : (c08Cfg L F).wlim = some L := rfl
    simp only [hl, show (c08Cfg L F).F = F from rfl, show (c08Cfg L F).fx.ack = true from rfl, true_and]
    rw [← hx]
    rcases IsoDepR.xchgW P (some L) F 0 w out with ⟨w', r⟩
    cases r with
    | data d =>
      cases d with
      | nil => simp only [RxW.ofR]; split <;> simp [ih]
      | cons a t =>
        simp only [RxW.ofR, resendMax]
        by_cases hr : resend = some a
        · subst hr
          simp only [if_true]
          by_cases hi : i > n + 1
          · simp only [hi, if_true]
          · simp only [hi, if_false, ih]
        · simp only [hr, if_false]
    | timeout => simp only [RxW.ofR]; split <;> simp [ih]
    | transmission => simp only [RxW.ofR]; split <;> simp [ih]
    | protocol => rfl
    | waited => rfl
    | fuel => rfl

theorem sendChunks_c08 {σ} (P : Peer σ) (F L nNak : Nat) :
    ∀ (cs : List Bytes) (pni : Nat) (w : World σ),
      IsoDepR.sendChunks P (c08Cfg L F) nNak cs pni w = sendChunks P F L nNak cs pni w := by
  intro cs
  induction cs with
  | nil => intro pni w; rfl
  | cons ch rest ih =>
    intro pni w
    unfold IsoDepR.sendChunks sendChunks
    simp only [blockLoop_c08, show (c08Cfg L F).F = F from rfl]
    rcases blockLoop P F L nNak (some (0xA2 ||| ((pni + 1) % 2)))
      (((if (!rest.isEmpty) = true then 0x12 else 0x02) ||| pni) :: ch) [0xB2 ||| pni] F 1
      (((if (!rest.isEmpty) = true then 0x12 else 0x02) ||| pni) :: ch) w with ⟨w', r⟩
    cases r with
    | error e => rfl
    | ok d =>
      cases d with
      | nil => rfl
      | cons a t => simp only [ih]

theorem recvChain_c08 {σ} (P : Peer σ) (F L nAck : Nat) :
    ∀ (f pni : Nat) (data resp : Bytes) (w : World σ),
      IsoDepR.recvChain P (c08Cfg L F) nAck f pni data resp w = recvChain P F L nAck f pni data resp w := by
  intro f
  induction f with
  | zero => intro pni data resp w; rfl
  | succ f ih =>
    intro pni data resp w
    unfold IsoDepR.recvChain recvChain
    cases data with
    | nil => rfl
    | cons a inf =>
      simp only [show (c08Cfg L F).fx.chain = true from rfl, true_and, blockLoop_c08, show (c08Cfg L F).F = F from rfl]
      split
      · rfl
      · split
        · rfl
        · rcases blockLoop P F L nAck none [0xA2 ||| pni] [0xA2 ||| pni] F 1 [0xA2 ||| pni] w with ⟨w', r⟩
          cases r with
          | error e => rfl
          | ok d =>
            cases d with
            | nil => rfl
            | cons b t => simp only [ih]

/-- the reader state without the S(WTX) limit (`Model/IsoDepC08.lean` keeps the limit in its configuration) -/
def Pcd.toBase (p : Pcd) : IsoDep.Pcd := { pni := p.pni, miu := p.miu, nNak := p.nNak, nAck := p.nAck, failed := p.failed }

def Pcd.withBase (b : IsoDep.Pcd) (wlim : Nat) : Pcd :=
  { pni := b.pni, miu := b.miu, nNak := b.nNak, nAck := b.nAck, wlim := wlim, failed := b.failed }

theorem Pcd.withBase_toBase (p : Pcd) : Pcd.withBase p.toBase p.wlim = p := by cases p; rfl

theorem exchangeCmd_c08 {σ} (P : Peer σ) (F : Nat) (pcd : Pcd) (cmd : Bytes) (w : World σ) :
    ((IsoDepR.exchangeCmd P (c08Cfg pcd.wlim F) pcd.toBase cmd w).1,
     Pcd.withBase (IsoDepR.exchangeCmd P (c08Cfg pcd.wlim F) pcd.toBase cmd w).2.1 pcd.wlim,
     (IsoDepR.exchangeCmd P (c08Cfg pcd.wlim F) pcd.toBase cmd w).2.2) = exchangeCmd P F pcd cmd w := by
  unfold IsoDepR.exchangeCmd exchangeCmd
  have hm : pcd.toBase.miu = pcd.miu := rfl
  simp only [hm]
  by_cases h0 : pcd.miu = 0
  · simp only [h0, if_true, Pcd.withBase_toBase]
  · simp only [h0, if_false]
    by_cases h1 : pcd.miu < 0 ∨ cmd = []
    · simp only [h1, if_true, Pcd.withBase_toBase]
    · simp only [h1, if_false, sendChunks_c08, recvChain_c08, show (c08Cfg pcd.wlim F).F = F from rfl,
        show pcd.toBase.nNak = pcd.nNak from rfl, show pcd.toBase.nAck = pcd.nAck from rfl, show pcd.toBase.pni = pcd.pni from rfl]
      rcases sendChunks P F pcd.wlim pcd.nNak (chunks pcd.miu.toNat cmd) pcd.pni w with ⟨w1, pni1, r⟩
      cases r with
      | error e => cases pcd; rfl
      | ok d => cases pcd; rfl

/-- **One initiator.**  `IsoDepR.exchange` with the three repairs switched on (the model the C08 session theorems and
the function bridge of group IsoSm are about) is `IsoDep2.exchange` (the model of C12), for every card, fuel, state,
command and world. -/
theorem exchange_c08 {σ} (P : Peer σ) (F : Nat) (pcd : Pcd) (cmd : Bytes) (w : World σ) :
    ((IsoDepR.exchange P (c08Cfg pcd.wlim F) pcd.toBase cmd w).1,
     Pcd.withBase (IsoDepR.exchange P (c08Cfg pcd.wlim F) pcd.toBase cmd w).2.1 pcd.wlim,
     (IsoDepR.exchange P (c08Cfg pcd.wlim F) pcd.toBase cmd w).2.2) = exchange P F pcd cmd w := by
  have hcmd := exchangeCmd_c08 P F pcd cmd w
  unfold IsoDepR.exchange exchange
  cases hf : pcd.failed with
  | some e =>
    simp only [show pcd.toBase.failed = some e from hf, Pcd.withBase_toBase]
  | none =>
    simp only [show pcd.toBase.failed = none from hf]
    rw [← hcmd]
    rcases IsoDepR.exchangeCmd P (c08Cfg pcd.wlim F) pcd.toBase cmd w with ⟨w', pcd', r⟩
    cases r with
    | ok d => rfl
    | error e => cases e <;> rfl

end NfcVerif.IsoDep2
