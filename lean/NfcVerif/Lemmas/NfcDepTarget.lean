import NfcVerif.Lemmas.NfcDepTx
/-!
# NFC-DEP: phases of the Target machine

`PData` / `PSend`: the Target waits for the information PDU / the ACK numbered `pniI`;
`PPost`, `PB`: it accepted that PDU and keeps the answer.  What one accepted PDU does to the
Target (`tRx_data_eq`, `tRecv_more`, `tRecv_inf`, `tRx_ack`), closure of the phases under ATN,
retransmission and NAK, and the resulting hypotheses of the transaction lemma (`mkTX`).
-/
namespace NfcVerif.NfcDep
open NfcVerif

def chunkPdu (c : Cfg) (pni : Nat) (d : Bytes) : Pdu :=
  .dep (if d.length > c.tmiu then fMORE else fINF) pni c.tdid none (d.take c.tmiu)
def ackPdu (c : Cfg) (pni : Nat) : Pdu := .dep fACK pni c.tdid none []

/-- the Target waits for an information PDU with number `pniI`; `acc` = chunks of the current payload so far -/
def PData (c : Cfg) (pniI : Nat) (acc : Bytes) (g ts : List Bytes) (t : TState) : Prop :=
  t.status = .running ∧ t.got = g ∧ t.tosend = ts ∧
  ( (t.pni = none ∧ (t.loc = .listen ∨ t.loc = .first) ∧ acc = [] ∧ pniI = 0)
  ∨ (∃ q d, t.pni = some q ∧ q < 4 ∧ pniI = (q + 1) % 4 ∧ t.loc = .sending d ∧ d.length ≤ c.tmiu ∧ acc = [])
  ∨ (∃ q, t.pni = some q ∧ q < 4 ∧ pniI = (q + 1) % 4 ∧ t.loc = .receiving acc) )

/-- the Target has a non-final chunk of `d` in flight and waits for the ACK with number `pniI` -/
def PSend (c : Cfg) (pniI : Nat) (d : Bytes) (g ts : List Bytes) (t : TState) : Prop :=
  t.status = .running ∧ t.got = g ∧ t.tosend = ts ∧
  ∃ q, t.pni = some q ∧ q < 4 ∧ pniI = (q + 1) % 4 ∧ t.loc = .sending d ∧ d.length > c.tmiu

/-- the Target accepted request `pniI`, answered `res` and keeps it for retransmission -/
def PPost (pniI : Nat) (loc : TLoc) (res : Pdu) (g ts : List Bytes) (t : TState) : Prop :=
  t.status = .running ∧ t.got = g ∧ t.tosend = ts ∧ t.pni = some pniI ∧ t.loc = loc ∧ t.depRes = some res

theorem tRx_data_eq (c : Cfg) (hdid : c.tdid = c.idid) {pniI : Nat} {acc : Bytes} {g ts : List Bytes} {t : TState}
    (h : PData c pniI acc g ts t) (fmt : Nat) (nad : Option Nat) (data : Bytes) (hf : fmt = fMORE ∨ fmt = fINF) :
    ∃ t', tRx c t (.frame (.dep fmt pniI c.idid nad data)) = tRecv c t' pniI acc fmt data
      ∧ t'.got = g ∧ t'.tosend = ts ∧ t'.status = .running := by
  obtain ⟨pni, loc, depRes, tosend, got, status⟩ := t
  obtain ⟨hrun, hg, hts, hcase⟩ := h
  simp only at hrun hg hts hcase
  subst hrun hg hts
  have hfa : fmt ≠ fATN ∧ fmt ≠ fNAK ∧ fmt ≠ fTOX := by
    rcases hf with rfl | rfl <;> decide
  rcases hcase with ⟨hp, hl, ha, h0⟩ | ⟨q, d, hp, hq, hpi, hl, hd, ha⟩ | ⟨q, hp, hq, hpi, hl⟩
  · subst hp ha h0
    rcases hl with rfl | rfl
    · refine ⟨⟨none, .first, depRes, tosend, got, .running⟩, ?_, rfl, rfl, rfl⟩
      simp [tRx, tRx.tRxActive, Pdu.didAttr, hdid, hfa, tAccept]
    · refine ⟨⟨none, .first, depRes, tosend, got, .running⟩, ?_, rfl, rfl, rfl⟩
      simp [tRx, tRx.tRxActive, Pdu.didAttr, hdid, hfa, tAccept]
  · subst hp ha hl
    have hne : q ≠ pniI := by omega
    have hdrop : List.drop c.tmiu d = [] := List.drop_eq_nil_of_le hd
    refine ⟨⟨some q, .sending d, depRes, tosend, got, .running⟩, ?_, rfl, rfl, rfl⟩
    have hle : ¬ d.length > c.tmiu := by omega
    simp [tRx, tRx.tRxActive, Pdu.didAttr, hdid, hfa, tAccept, hne, hle, ← hpi, hdrop]
  · subst hp hl
    have hne : q ≠ pniI := by omega
    refine ⟨⟨some q, .receiving acc, depRes, tosend, got, .running⟩, ?_, rfl, rfl, rfl⟩
    simp [tRx, tRx.tRxActive, Pdu.didAttr, hdid, hfa, tAccept, hne, ← hpi]
theorem tRecv_more (c : Cfg) (t : TState) (pni : Nat) (acc data : Bytes) {g ts : List Bytes}
    (hrun : t.status = .running) (hg : t.got = g) (hts : t.tosend = ts) :
    (tRecv c t pni acc fMORE data).2 = some (ackPdu c pni)
    ∧ PPost pni (.receiving (acc ++ data)) (ackPdu c pni) g ts (tRecv c t pni acc fMORE data).1 := by
  simp [tRecv, ackPdu, PPost, hrun, hg, hts]

/-- the Target's answer to the last chunk of a payload: the first chunk of its next payload, if any -/
def infResp (c : Cfg) (pni : Nat) (ts : List Bytes) : Option Pdu :=
  match ts with
  | [] => none
  | p' :: _ =>
    if p' = [] then none
    else if (chunkPdu c pni p').tlen + 1 > 255 then none else some (chunkPdu c pni p')

theorem tRecv_inf (c : Cfg) (t : TState) (pni : Nat) (acc data : Bytes) {g ts : List Bytes}
    (hrun : t.status = .running) (hg : t.got = g) (hts : t.tosend = ts) :
    (tRecv c t pni acc fINF data).2 = infResp c pni ts
    ∧ (tRecv c t pni acc fINF data).1.got = g ++ [acc ++ data]
    ∧ (((tRecv c t pni acc fINF data).1.status ≠ .running ∧ infResp c pni ts = none)
       ∨ ∃ p' ts', ts = p' :: ts' ∧ infResp c pni ts = some (chunkPdu c pni p')
           ∧ PPost pni (.sending p') (chunkPdu c pni p') (g ++ [acc ++ data]) ts' (tRecv c t pni acc fINF data).1) := by
  have hne : fINF ≠ fMORE := by decide
  unfold tRecv
  simp only [hne, if_false]
  cases ts with
  | nil => simp [infResp, hts, hg]
  | cons p' ts' =>
    simp only [hts]
    by_cases hp : p' = []
    · simp [infResp, hp, TState.die, hg]
    · simp only [hp, if_false, infResp]
      unfold tSendChunk
      by_cases hl : (chunkPdu c pni p').tlen + 1 > 255
      · simp [chunkPdu] at hl
        simp [chunkPdu, hl, TState.die, hg]
      · simp [chunkPdu] at hl
        have hl' : ¬ 255 < (Pdu.dep (if c.tmiu < p'.length then fMORE else fINF) pni c.tdid none (List.take c.tmiu p')).tlen + 1 := by
          simpa using hl
        simp [chunkPdu, hl', hg, PPost, hrun]
        exact ⟨p', ts', ⟨rfl, rfl⟩, ⟨rfl, rfl⟩, rfl, rfl, rfl, rfl⟩

def ackResp (c : Cfg) (pni : Nat) (rest : Bytes) : Option Pdu :=
  if (chunkPdu c pni rest).tlen + 1 > 255 then none else some (chunkPdu c pni rest)

theorem tRx_ack (c : Cfg) (hdid : c.tdid = c.idid) {pniI : Nat} {d : Bytes} {g ts : List Bytes} {t : TState}
    (h : PSend c pniI d g ts t) (nad : Option Nat) :
    (tRx c t (.frame (.dep fACK pniI c.idid nad []))).2 = ackResp c pniI (d.drop c.tmiu)
    ∧ (tRx c t (.frame (.dep fACK pniI c.idid nad []))).1.got = g
    ∧ (((tRx c t (.frame (.dep fACK pniI c.idid nad []))).1.status ≠ .running ∧ ackResp c pniI (d.drop c.tmiu) = none)
       ∨ (ackResp c pniI (d.drop c.tmiu) = some (chunkPdu c pniI (d.drop c.tmiu))
           ∧ PPost pniI (.sending (d.drop c.tmiu)) (chunkPdu c pniI (d.drop c.tmiu)) g ts
               (tRx c t (.frame (.dep fACK pniI c.idid nad []))).1)) := by
  obtain ⟨pni, loc, depRes, tosend, got, status⟩ := t
  obtain ⟨hrun, hg, hts, q, hp, hq, hpi, hl, hd⟩ := h
  simp only at hrun hg hts hp hl
  subst hrun hg hts hp hl
  have hne : q ≠ pniI := by omega
  have hrest : List.drop c.tmiu d ≠ [] := by
    intro h0
    have := List.drop_eq_nil_iff.mp h0
    omega
  have hfa : fACK ≠ fATN ∧ fACK ≠ fNAK ∧ fACK ≠ fTOX := by decide
  have key : tRx c ⟨some q, .sending d, depRes, tosend, got, .running⟩ (.frame (.dep fACK pniI c.idid nad []))
      = tSendChunk c ⟨some q, .sending d, depRes, tosend, got, .running⟩ pniI (d.drop c.tmiu) := by
    simp [tRx, tRx.tRxActive, Pdu.didAttr, hdid, hfa, tAccept, hne, ← hpi, hrest]
  rw [key]
  unfold tSendChunk ackResp
  by_cases hl : (chunkPdu c pniI (d.drop c.tmiu)).tlen + 1 > 255
  · simp [chunkPdu] at hl
    simp [chunkPdu, hl, TState.die]
  · simp [chunkPdu] at hl
    have hl' : ¬ 255 < (Pdu.dep (if c.tmiu < d.length - c.tmiu then fMORE else fINF) pniI c.tdid none
        (List.take c.tmiu (List.drop c.tmiu d))).tlen + 1 := by simpa using hl
    simp [chunkPdu, hl', PPost]

/-! ### closure of the phases under ATN, retransmission and NAK -/

theorem atn_cases (c : Cfg) : atnPdu c = .dep fATN 0 c.idid none [] ∨ atnPdu c = .dep fATN 0 none none [] := by
  unfold atnPdu; split <;> simp

theorem tRx_atn_state (c : Cfg) (t : TState) (did : Option Nat) :
    (tRx c t (.frame (.dep fATN 0 did none []))).1 = t
    ∨ (t.loc = .listen ∧ (tRx c t (.frame (.dep fATN 0 did none []))).1 = { t with loc := .first }) := by
  obtain ⟨pni, loc, depRes, tosend, got, status⟩ := t
  by_cases hr : status = .running
  · subst hr
    by_cases hd : did = c.tdid
    · cases loc <;> simp [tRx, tRx.tRxActive, Pdu.didAttr, hd]
    · cases loc <;> simp [tRx, tRx.tRxActive, Pdu.didAttr, hd]
  · left; simp [tRx, hr]

theorem PData_atn (c : Cfg) {pniI : Nat} {acc : Bytes} {g ts : List Bytes} {t : TState}
    (h : PData c pniI acc g ts t) : PData c pniI acc g ts (tRx c t (.frame (atnPdu c))).1 := by
  have key : ∀ did, PData c pniI acc g ts (tRx c t (.frame (.dep fATN 0 did none []))).1 := by
    intro did
    rcases tRx_atn_state c t did with h1 | ⟨hl, h1⟩
    · rw [h1]; exact h
    · rw [h1]
      obtain ⟨hrun, hg, hts, hcase⟩ := h
      refine ⟨hrun, hg, hts, ?_⟩
      rcases hcase with ⟨hp, _, ha, h0⟩ | ⟨q, d, _, _, _, hl', _⟩ | ⟨q, _, _, _, hl'⟩
      · exact Or.inl ⟨hp, Or.inr rfl, ha, h0⟩
      · rw [hl] at hl'; cases hl'
      · rw [hl] at hl'; cases hl'
  rcases atn_cases c with h1 | h1 <;> rw [h1] <;> exact key _

theorem PSend_atn (c : Cfg) {pniI : Nat} {d : Bytes} {g ts : List Bytes} {t : TState}
    (h : PSend c pniI d g ts t) : PSend c pniI d g ts (tRx c t (.frame (atnPdu c))).1 := by
  have key : ∀ did, (tRx c t (.frame (.dep fATN 0 did none []))).1 = t := by
    intro did
    rcases tRx_atn_state c t did with h1 | ⟨hl, _⟩
    · exact h1
    · obtain ⟨_, _, _, q, _, _, _, hl', _⟩ := h
      rw [hl] at hl'; cases hl'
  rcases atn_cases c with h1 | h1 <;> rw [h1, key] <;> exact h

/-- after the request `pniI` was accepted: either the answer `r1` is stored, or the Target stopped -/
def PB (pniI : Nat) (r1 : Option Pdu) (t : TState) : Prop :=
  (t.status = .running ∧ t.loc ≠ .listen ∧ t.pni = some pniI ∧ t.depRes = r1) ∨ (t.status ≠ .running ∧ r1 = none)

theorem PB_dep (c : Cfg) (hdid : c.tdid = c.idid) {pniI : Nat} {r1 : Option Pdu} {t : TState} (h : PB pniI r1 t)
    (fmt : Nat) (hf : fmt ≠ fATN ∧ fmt ≠ fTOX) (nad : Option Nat) (data : Bytes) :
    tRx c t (.frame (.dep fmt pniI c.idid nad data)) = (t, r1) := by
  obtain ⟨pni, loc, depRes, tosend, got, status⟩ := t
  rcases h with ⟨hrun, hl, hp, hd⟩ | ⟨hrun, hr⟩
  · simp only at hrun hl hp hd
    subst hrun hp hd
    by_cases hn : fmt = fNAK
    · subst hn
      have h1 : fNAK ≠ fATN := by decide
      cases loc <;> simp [tRx, tRx.tRxActive, Pdu.didAttr, hdid, h1] at hl ⊢
    · cases loc <;> simp [tRx, tRx.tRxActive, Pdu.didAttr, hdid, hf, hn] at hl ⊢
  · simp only at hrun
    subst hr
    simp [tRx, hrun]

theorem PB_atn (c : Cfg) {pniI : Nat} {r1 : Option Pdu} {t : TState} (h : PB pniI r1 t) :
    (tRx c t (.frame (atnPdu c))).1 = t := by
  have key : ∀ did, (tRx c t (.frame (.dep fATN 0 did none []))).1 = t := by
    intro did
    rcases tRx_atn_state c t did with h1 | ⟨hl, _⟩
    · exact h1
    · rcases h with ⟨_, hl', _⟩ | ⟨hrun, _⟩
      · exact absurd hl hl'
      · obtain ⟨pni, loc, depRes, tosend, got, status⟩ := t
        simp [tRx, hrun]
  rcases atn_cases c with h1 | h1 <;> rw [h1] <;> exact key _

theorem PPost.toPB {pniI : Nat} {loc : TLoc} {res : Pdu} {g ts : List Bytes} {t : TState}
    (h : PPost pniI loc res g ts t) (hl : loc ≠ .listen) : PB pniI (some res) t :=
  Or.inl ⟨h.1, by rw [h.2.2.2.2.1]; exact hl, h.2.2.2.1, h.2.2.2.2.2⟩

/-- the hypotheses of the transaction lemma for the Target machine -/
theorem mkTX (c : Cfg) (hdid : c.tdid = c.idid) (A B : TState → Prop) (r1 : Option Pdu) (pniI fmt : Nat) (data : Bytes)
    (hf : fmt ≠ fATN ∧ fmt ≠ fTOX ∧ fmt ≠ fNAK)
    (hAatn : ∀ t, A t → A (tRx c t (.frame (atnPdu c))).1)
    (hAreq : ∀ t, A t → B (tRx c t (.frame (.dep fmt pniI c.idid c.inad data))).1 ∧
      (tRx c t (.frame (.dep fmt pniI c.idid c.inad data))).2 = r1)
    (hB : ∀ t, B t → PB pniI r1 t) :
    TXHyp (targetPeer c) c A B r1 pniI (.dep fmt pniI c.idid c.inad data) where
  cor := fun _ => rfl
  aAtn := hAatn
  aReq := hAreq
  bReq := fun t h => by
    have := PB_dep c hdid (hB t h) fmt ⟨hf.1, hf.2.1⟩ c.inad data
    show B (tRx c t _).1 ∧ ((tRx c t _).2 = r1 ∨ (tRx c t _).2 = none)
    rw [this]; exact ⟨h, Or.inl rfl⟩
  bNak := fun t h => by
    have := PB_dep c hdid (hB t h) fNAK (by decide) c.inad []
    show B (tRx c t _).1 ∧ ((tRx c t _).2 = r1 ∨ (tRx c t _).2 = none)
    rw [this]; exact ⟨h, Or.inl rfl⟩
  bAtn := fun t h => by
    show B (tRx c t _).1
    rw [PB_atn c (hB t h)]; exact h
end NfcVerif.NfcDep
