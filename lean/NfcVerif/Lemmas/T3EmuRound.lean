import NfcVerif.Lemmas.T3Emu
/-! Emulated Type 3 Tag: loops of `process_command`, round trip and totality on reader-built frames. -/
namespace NfcVerif.T3Emu
open NfcVerif.T34

theorem writeLoop_spec (n : Int) (data : Bytes) : ∀ (bl : List Nat) (i : Nat) (cur : Int) (store : Bytes) (log : List Call),
    (∀ b ∈ bl, b * 16 + 16 ≤ store.length) → (i + bl.length) * 16 ≤ data.length →
    ∃ log', writeLoop [9] [(9, n)] data (bl.map fun b => (0, b)) i [(9, cur)] store log
      = .ok ([0, 0], writeAll data bl i store, log') := by
  intro bl
  induction bl with
  | nil => intro i cur store log _ _; exact ⟨log, by simp [writeLoop, writeAll]⟩
  | cons b bs ih =>
    intro i cur store log hb hd
    simp only [List.length_cons] at hd
    have hl := blkSlice_length data i (by omega)
    have hx := hb b (by simp)
    have hs : (splice store (b * 16) (blkSlice data i)).length = store.length := splice_length _ _ _ (by rw [hl]; exact hx)
    have hw := storeWrite_splice store b (blkSlice data i) hx hl
    unfold blkSlice at hw
    obtain ⟨log', h⟩ := ih (i + 1) (cur - 1) (splice store (b * 16) (blkSlice data i))
      (log ++ [⟨true, b, decide (n = cur), decide (cur - 1 = 0)⟩])
      (by intro y hy; rw [hs]; exact hb y (by simp [hy])) (by omega)
    refine ⟨log', ?_⟩
    simp only [List.map_cons, writeLoop, idxN_cons_zero, Py.bind_ok, dictGet, List.find?, decide_true, hw]
    simp only [dictSet, List.any_cons, List.any_nil, decide_true, Bool.or_false, if_true, List.map_cons, List.map_nil]
    rw [if_neg (by decide)]
    simpa [writeAll, blkSlice] using h

theorem readLoop_spec (n : Int) (store : Bytes) : ∀ (bl : List Nat) (i : Nat) (cur : Int) (acc : Bytes) (log : List Call),
    (∀ b ∈ bl, b * 16 + 16 ≤ store.length) →
    ∃ log', readLoop store [11] [(11, n)] (bl.map fun b => (0, b)) i [(11, cur)] acc log
      = .ok ([0, 0, (acc ++ readAll store bl).length / 16] ++ (acc ++ readAll store bl), log') := by
  intro bl
  induction bl with
  | nil => intro i cur acc log _; exact ⟨log, by simp [readLoop, readAll]⟩
  | cons b bs ih =>
    intro i cur acc log hb
    have hx := hb b (by simp)
    have hr : storeRead store b = some (sliceN store (b * 16) ((b + 1) * 16)) := by
      unfold storeRead; rw [if_pos (by omega)]
    obtain ⟨log', h⟩ := ih (i + 1) (cur - 1) (acc ++ sliceN store (b * 16) ((b + 1) * 16))
      (log ++ [⟨false, b, decide (n = cur), decide (cur - 1 = 0)⟩]) (fun y hy => hb y (by simp [hy]))
    refine ⟨log', ?_⟩
    simp only [List.map_cons, readLoop, idxN_cons_zero, Py.bind_ok, dictGet, List.find?, decide_true, hr]
    simp only [dictSet, List.any_cons, List.any_nil, decide_true, Bool.or_false, if_true, List.map_cons, List.map_nil]
    simpa [readAll, List.append_assoc] using h

theorem countDict_single (sc : Nat) (bl : List Nat) :
    countDict [sc] (bl.map fun b => (0, b)) = [(sc, (bl.length : Int))] := by
  have hf : ∀ l : List Nat, (l.filter fun _ => true) = l := by
    intro l; induction l <;> simp [List.filter, *]
  simp [countDict, List.zipIdx, dictSet, List.filter_map, Function.comp_def, hf]

/-- `write_without_encryption` on the body the reader encodes for service 0009h -/
theorem emuWrite_enc (e : Emu) (bl : List Nat) (d : Bytes) (h65 : ∀ b ∈ bl, b < 65536) (hn : bl.length < 256)
    (hb : ∀ b ∈ bl, b * 16 + 16 ≤ e.store.length) (hd : d.length = 16 * bl.length) :
    ∃ log, emuWrite e ([1] ++ serviceCode 9 ++ [bl.length] ++ bl.flatMap codeOf ++ d)
      = .ok ([0, 0], writeAll d bl 0 e.store, log) := by
  obtain ⟨log, hw⟩ := writeLoop_spec (bl.length : Int) d bl 0 (bl.length : Int) e.store [] hb (by omega)
  refine ⟨log, ?_⟩
  have hp := parseBlocks_enc bl h65 d 0 []
  simp only [List.nil_append] at hp
  simp [emuWrite, serviceCode, parseServices, hasService, hp, hd, countDict_single, hw]

/-- `read_without_encryption` on the body the reader encodes for service 000Bh -/
theorem emuRead_enc (e : Emu) (bl : List Nat) (h65 : ∀ b ∈ bl, b < 65536) (hn : bl.length ≤ 15)
    (hb : ∀ b ∈ bl, b * 16 + 16 ≤ e.store.length) :
    ∃ log, emuRead e ([1] ++ serviceCode 11 ++ [bl.length] ++ bl.flatMap codeOf)
      = .ok ([0, 0, (readAll e.store bl).length / 16] ++ readAll e.store bl, log) := by
  obtain ⟨log, hr⟩ := readLoop_spec (bl.length : Int) e.store bl 0 (bl.length : Int) [] [] hb
  refine ⟨log, ?_⟩
  have hp := parseBlocks_enc bl h65 [] 0 []
  simp only [List.nil_append, List.append_nil] at hp
  simp only [List.nil_append] at hr
  simp [emuRead, serviceCode, parseServices, hasService, hp, countDict_single, hr]
  omega

theorem len8 (l : Bytes) (h : l.length = 8) : ∃ a b c d e f g i, l = [a, b, c, d, e, f, g, i] := by
  match l, h with
  | [a, b, c, d, e, f, g, i], _ => exact ⟨a, b, c, d, e, f, g, i, rfl⟩

/-- `process_command` on a frame `[len, code] + idm + body` for code 08h / 06h -/
theorem processCommand_write (e : Emu) (body : Bytes) (hidm : e.idm.length = 8) (hL : 10 + body.length ≤ 255)
    (rsp store : Bytes) (log : List Call) (hw : emuWrite e body = .ok (rsp, store, log)) (hr : 10 + rsp.length ≤ 255) :
    processCommand e ([2 + e.idm.length + body.length, 8] ++ e.idm ++ body)
      = .ok (some ([10 + rsp.length, 9] ++ e.idm ++ rsp), store, log) := by
  obtain ⟨a, b, c, d, f, g, h, i, hi⟩ := len8 e.idm hidm
  simp [processCommand, hi, sliceN]
  rw [if_pos (by omega)]
  simp only [hw, respond, Py.bind_ok]
  rw [if_neg (by omega)]
  simp [hi]

theorem processCommand_read (e : Emu) (body : Bytes) (hidm : e.idm.length = 8) (hL : 10 + body.length ≤ 255)
    (rsp : Bytes) (log : List Call) (hw : emuRead e body = .ok (rsp, log)) (hr : 10 + rsp.length ≤ 255) :
    processCommand e ([2 + e.idm.length + body.length, 6] ++ e.idm ++ body)
      = .ok (some ([10 + rsp.length, 7] ++ e.idm ++ rsp), e.store, log) := by
  obtain ⟨a, b, c, d, f, g, h, i, hi⟩ := len8 e.idm hidm
  simp [processCommand, hi, sliceN]
  rw [if_pos (by omega)]
  simp only [hw, respond, Py.bind_ok]
  rw [if_neg (by omega)]
  simp [hi]

theorem codes_length_ge (bl : List Nat) : 2 * bl.length ≤ (bl.flatMap codeOf).length := by
  induction bl with
  | nil => simp
  | cons b bs ih => simp only [List.flatMap_cons, List.length_append, List.length_cons, codeOf_length]; split <;> omega

/-- C01 (emulated tag): the frame the reader builds for writing blocks `bl` (distinct, existing, any mix of
2- and 3-octet block list elements, frame within 255 octets) to service 0009h is executed by the emulation
with status 0000h, and the frame the reader builds for reading the same blocks from service 000Bh then
returns exactly the written data. -/
theorem emu_roundtrip (e : Emu) (bl : List Nat) (d : Bytes) (hidm : e.idm.length = 8)
    (hnd : bl.Nodup) (hb : ∀ b ∈ bl, b * 16 + 16 ≤ e.store.length) (h65 : ∀ b ∈ bl, b < 65536)
    (hd : d.length = 16 * bl.length) (hfit : 14 + (bl.flatMap codeOf).length + d.length ≤ 255) :
    ∃ w r logw logr,
      encWrite e.idm 9 bl d = .ok w ∧
      processCommand e w = .ok (some ([12, 9] ++ e.idm ++ [0, 0]), writeAll d bl 0 e.store, logw) ∧
      encRead e.idm 11 bl = .ok r ∧
      processCommand { e with store := writeAll d bl 0 e.store } r
        = .ok (some ([13 + d.length, 7] ++ e.idm ++ [0, 0, bl.length] ++ d), writeAll d bl 0 e.store, logr) ∧
      (writeAll d bl 0 e.store).length = e.store.length := by
  have hcl := codes_length_ge bl
  have hn : bl.length ≤ 13 := by omega
  have hlen := writeAll_length d bl 0 e.store hb (by omega)
  obtain ⟨logw, hw⟩ := emuWrite_enc e bl d h65 (by omega) hb hd
  obtain ⟨logr, hr⟩ := emuRead_enc { e with store := writeAll d bl 0 e.store } bl h65 (by omega)
    (by intro b hb'; simp only [hlen]; exact hb b hb')
  have hrw := readAll_writeAll d bl 0 e.store hnd hb (by omega)
  have hfull : sliceN d (0 * 16) ((0 + bl.length) * 16) = d := by
    simp only [Nat.zero_mul, Nat.zero_add, sliceN_zero_take]
    exact List.take_of_length_le (by omega)
  rw [hfull] at hrw
  simp only [hrw] at hr
  have hdiv : d.length / 16 = bl.length := by omega
  rw [hdiv] at hr
  have hbc := blockCodes_ok bl h65
  generalize bl.flatMap codeOf = C at *
  refine ⟨[2 + e.idm.length + ([1] ++ serviceCode 9 ++ [bl.length] ++ C ++ d).length, 8] ++ e.idm
      ++ ([1] ++ serviceCode 9 ++ [bl.length] ++ C ++ d),
    [2 + e.idm.length + ([1] ++ serviceCode 11 ++ [bl.length] ++ C).length, 6] ++ e.idm
      ++ ([1] ++ serviceCode 11 ++ [bl.length] ++ C), logw, logr, ?_, ?_, ?_, ?_, hlen⟩
  · simp only [encWrite, hbc, Py.bind_ok, frame]
    rw [if_neg (by omega), if_neg (by simp [serviceCode]; omega)]
  · have := processCommand_write e _ hidm (by simp [serviceCode]; omega) _ _ _ hw (by simp)
    simpa using this
  · simp only [encRead, hbc, Py.bind_ok, frame]
    rw [if_neg (by omega), if_neg (by simp [serviceCode]; omega)]
  · have := processCommand_read { e with store := writeAll d bl 0 e.store } _ hidm (by simp [serviceCode]; omega) _ _ hr
      (by simp; omega)
    rw [this]
    simp [List.append_assoc]
    omega

/-! ## totality on the frames a reader builds -/

theorem blockCodes_inv (bl : List Nat) (bc : Bytes) (h : blockCodes bl = .ok bc) :
    (∀ b ∈ bl, b < 65536) ∧ bc = bl.flatMap codeOf := by
  induction bl generalizing bc with
  | nil => simp [blockCodes] at h; simp [h]
  | cons b bs ih =>
    simp only [blockCodes] at h
    obtain ⟨x, hx, h2⟩ := Py.bind_eq_ok.mp h
    obtain ⟨xs, hxs, h3⟩ := Py.bind_eq_ok.mp h2
    have ⟨h65, hbc⟩ := ih xs hxs
    have hb : b < 65536 ∧ x = codeOf b := by
      unfold blockCode at hx
      by_cases h1 : b < 256
      · simp [h1] at hx; refine ⟨by omega, ?_⟩; rw [← hx]; simp [codeOf, h1]
      · by_cases h2 : b < 65536
        · simp [h1, h2] at hx; refine ⟨h2, ?_⟩; rw [← hx]; simp [codeOf, h1]
        · simp [h1, h2] at hx
    simp at h3
    refine ⟨?_, ?_⟩
    · intro y hy
      rcases List.mem_cons.mp hy with rfl | hy
      · exact hb.1
      · exact h65 y hy
    · simp [← h3, hb.2, hbc]

theorem writeLoop_total (sc : Nat) (hsc : sc ≠ 11) (n : Int) (data : Bytes) :
    ∀ (bl : List Nat) (i : Nat) (cur : Int) (store : Bytes) (log : List Call),
    ∃ rsp st lg, writeLoop [sc] [(sc, n)] data (bl.map fun b => (0, b)) i [(sc, cur)] store log = .ok (rsp, st, lg)
      ∧ rsp.length = 2 := by
  intro bl
  induction bl with
  | nil => intro i cur store log; exact ⟨[0, 0], store, log, by simp [writeLoop], rfl⟩
  | cons b bs ih =>
    intro i cur store log
    simp only [List.map_cons, writeLoop, idxN_cons_zero, Py.bind_ok, dictGet, List.find?, decide_true]
    rw [if_neg hsc]
    cases hw : storeWrite store b (sliceN data (i * 16) ((i + 1) * 16)) with
    | none => exact ⟨_, _, _, rfl, rfl⟩
    | some s' =>
      simp only [dictSet, List.any_cons, List.any_nil, decide_true, Bool.or_false, if_true, List.map_cons, List.map_nil]
      exact ih (i + 1) (cur - 1) s' _

theorem readLoop_total (sc : Nat) (n : Int) (store : Bytes) :
    ∀ (bl : List Nat) (i : Nat) (cur : Int) (acc : Bytes) (log : List Call),
    ∃ rsp lg, readLoop store [sc] [(sc, n)] (bl.map fun b => (0, b)) i [(sc, cur)] acc log = .ok (rsp, lg)
      ∧ rsp.length ≤ 3 + acc.length + 16 * bl.length := by
  intro bl
  induction bl with
  | nil => intro i cur acc log; exact ⟨[0, 0, acc.length / 16] ++ acc, log, by simp [readLoop], by simp; omega⟩
  | cons b bs ih =>
    intro i cur acc log
    simp only [List.map_cons, readLoop, idxN_cons_zero, Py.bind_ok, dictGet, List.find?, decide_true]
    cases hr : storeRead store b with
    | none => exact ⟨[2 ^ (i % 8), 0xA2], _, rfl, by simp only [List.length_cons, List.length_nil]; omega⟩
    | some blk =>
      have hbl : blk.length ≤ 16 := by
        unfold storeRead at hr
        split at hr
        · simp at hr; rw [← hr]; simp [sliceN, List.length_take]; omega
        · simp at hr
      simp only [dictSet, List.any_cons, List.any_nil, decide_true, Bool.or_false, if_true, List.map_cons, List.map_nil]
      obtain ⟨rsp, lg, h1, h2⟩ := ih (i + 1) (cur - 1) (acc ++ blk)
        (log ++ [⟨false, b, decide (n = cur), decide (cur - 1 = 0)⟩])
      refine ⟨rsp, lg, h1, ?_⟩
      simp only [List.length_append, List.length_cons] at h2 ⊢
      omega

theorem emuWrite_total (e : Emu) (sc : Nat) (bl : List Nat) (d : Bytes) (h65 : ∀ b ∈ bl, b < 65536)
    (hsc : sc / 256 % 256 * 256 + sc % 256 ≠ 11) :
    ∃ rsp st lg, emuWrite e ([1] ++ serviceCode sc ++ [bl.length] ++ bl.flatMap codeOf ++ d) = .ok (rsp, st, lg)
      ∧ rsp.length = 2 := by
  have hp := parseBlocks_enc bl h65 d 0 []
  simp only [List.nil_append] at hp
  by_cases hs : hasService (sc / 256 % 256 * 256 + sc % 256) = false
  · exact ⟨[0xFF, 0xA1], e.store, [], by simp [emuWrite, serviceCode, parseServices, hs], rfl⟩
  · obtain ⟨rsp, st, lg, hw, hl⟩ := writeLoop_total _ hsc (bl.length : Int) d bl 0 (bl.length : Int) e.store []
    by_cases hm : d.length % 16 = 0
    · exact ⟨rsp, st, lg, by simp [emuWrite, serviceCode, parseServices, hs, hp, hm, countDict_single, hw], hl⟩
    · exact ⟨[0xFF, 0xA2], e.store, [], by simp [emuWrite, serviceCode, parseServices, hs, hp, hm], rfl⟩

theorem emuRead_total (e : Emu) (sc : Nat) (bl : List Nat) (h65 : ∀ b ∈ bl, b < 65536) :
    ∃ rsp lg, emuRead e ([1] ++ serviceCode sc ++ [bl.length] ++ bl.flatMap codeOf) = .ok (rsp, lg)
      ∧ rsp.length ≤ 243 := by
  have hp := parseBlocks_enc bl h65 [] 0 []
  simp only [List.nil_append, List.append_nil] at hp
  by_cases hs : hasService (sc / 256 % 256 * 256 + sc % 256) = false
  · exact ⟨[0xFF, 0xA1], [], by simp [emuRead, serviceCode, parseServices, hs], by decide⟩
  · by_cases hn : bl.length > 15
    · exact ⟨[0xFF, 0xA2], [], by simp [emuRead, serviceCode, parseServices, hs, hn], by decide⟩
    · obtain ⟨rsp, lg, hr, hl⟩ := readLoop_total (sc / 256 % 256 * 256 + sc % 256) (bl.length : Int) e.store bl 0
        (bl.length : Int) [] []
      refine ⟨rsp, lg, by simp [emuRead, serviceCode, parseServices, hs, hn, hp, countDict_single, hr], ?_⟩
      simp only [List.length_nil] at hl; omega

/-- `process_command` never raises on a frame built by the reader's `write_without_encryption` (for a
service whose write callback can be called) or `read_without_encryption`: unknown services, missing blocks,
too many blocks and ragged data all end in a status response. -/
theorem processCommand_total (e : Emu) (hidm : e.idm.length = 8) (sc : Nat) (bl : List Nat) (d : Bytes) :
    (∀ w, encWrite e.idm sc bl d = .ok w → sc / 256 % 256 * 256 + sc % 256 ≠ 11 → ∃ r, processCommand e w = .ok r) ∧
    (∀ r, encRead e.idm sc bl = .ok r → ∃ x, processCommand e r = .ok x) := by
  constructor
  · intro w hw hsc
    unfold encWrite at hw
    split at hw
    · simp at hw
    · obtain ⟨bc, hbc, hf⟩ := Py.bind_eq_ok.mp hw
      obtain ⟨h65, rfl⟩ := blockCodes_inv bl bc hbc
      unfold frame at hf
      split at hf
      · simp at hf
      · rename_i hfit
        simp at hf
        obtain ⟨rsp, st, lg, hwr, hl⟩ := emuWrite_total e sc bl d h65 hsc
        have := processCommand_write e _ hidm (by omega) rsp st lg hwr (by omega)
        rw [← hf]
        exact ⟨_, by simpa using this⟩
  · intro r hr
    unfold encRead at hr
    split at hr
    · simp at hr
    · obtain ⟨bc, hbc, hf⟩ := Py.bind_eq_ok.mp hr
      obtain ⟨h65, rfl⟩ := blockCodes_inv bl bc hbc
      unfold frame at hf
      split at hf
      · simp at hf
      · rename_i hfit
        simp at hf
        obtain ⟨rsp, lg, hrd, hl⟩ := emuRead_total e sc bl h65
        have := processCommand_read e _ hidm (by omega) rsp lg hrd (by omega)
        rw [← hf]
        exact ⟨_, by simpa using this⟩

end NfcVerif.T3Emu
