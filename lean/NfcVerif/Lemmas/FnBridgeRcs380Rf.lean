import NfcVerif.Lemmas.FnBridgePn53xCommon
/-!
# Helper lemmas for `Props/FnBridgeRcs380Rf.lean`

The generated code of a condition cut has the shape `(.. >>= fun t => Except.ok (decide (t = true)))` and reads octets
with `PyFn.getB` (an `Int`); the reference side reads them with `idxN` (a `Nat`).
-/
namespace NfcVerif.FnBridge.Rcs380Rf
open NfcVerif NfcVerif.PyFn NfcVerif.FnBridge.HostLink

/-- the final `bool(..)` of a condition cut -/
theorem bind_decide_true (x : Py Bool) : (x >>= fun t => Except.ok (decide (t = true))) = x := by
  cases x with
  | error e => rfl
  | ok b => cases b <;> rfl

/-- one octet read followed by a pure continuation -/
theorem getB_bind {α} (l : Bytes) (n : Nat) (f : Int → Py α) :
    (getB l (n : Int) >>= f) = (idxN l n >>= fun b => f (b : Int)) := by
  rw [getB_idxN]; cases idxN l n <;> rfl

theorem idxN_cons_zero {α} (a : α) (l : List α) : idxN (a :: l) 0 = .ok a := rfl
theorem idxN_cons_succ {α} (a : α) (l : List α) (n : Nat) : idxN (a :: l) (n + 1) = idxN l n := by
  simp [idxN]
theorem idxN_nil {α} (n : Nat) : idxN ([] : List α) n = .error .index := by simp [idxN]

theorem imin_clamp (ms : Int) : PyFn.imin ms 65535 = if ms > 65535 then 65535 else ms := by
  unfold PyFn.imin; by_cases h : (65535 : Int) < ms <;> simp [h]

end NfcVerif.FnBridge.Rcs380Rf
