import NfcVerif.Gen.FnSony
import NfcVerif.Model.FnSonyRef
import NfcVerif.Lemmas.FnBridgeVendor
/-!
# Helper lemmas for the bridge theorems of group Sony (`Props/FnBridgeSony.lean`)
-/
set_option linter.unusedSimpArgs false
namespace NfcVerif.FnBridge.Sony
open NfcVerif NfcVerif.PyFn NfcVerif.FnBridge.TagCmd NfcVerif.FnBridge.Vendor

/-- the key selection of `_authenticate` as the generated text has it -/
theorem key_gen (pw : Bytes) (h : ¬ (pw ≠ [] ∧ len pw < 16)) :
    Auth.liteKey pw = .ok (if ¬ (pw ≠ []) then repeatL [0] 16 else slice pw 0 16) := by
  unfold Auth.liteKey Auth.zeros
  have h' : ¬ (pw ≠ [] ∧ pw.length < 16) := by
    intro hc; apply h; refine ⟨hc.1, ?_⟩; simp only [len_eq]; omega
  rw [show (16 : Int) = ((16 : Nat) : Int) from rfl, slice0]
  rw [if_neg h']
  by_cases hp : pw = [] <;> simp [hp, repeatL]

theorem key_err (pw : Bytes) (h : pw ≠ [] ∧ len pw < 16) : Auth.liteKey pw = .error .value := by
  unfold Auth.liteKey
  have h' : pw ≠ [] ∧ pw.length < 16 := by
    refine ⟨h.1, ?_⟩; have := h.2; simp only [len_eq] at this; omega
  rw [if_pos h']

/-- the card key of `_protect` as the generated text has it -/
theorem keyOf_gen (p : Bytes) : (if p ≠ [] then slice p 0 16 else repeatL [0] 16) = AuthHist.keyOf p := by
  unfold AuthHist.keyOf Auth.zeros
  rw [show (16 : Int) = ((16 : Nat) : Int) from rfl, slice0]
  by_cases hp : p = [] <;> simp [hp, repeatL]

theorem revHalves_gen' (x : Bytes) :
    sliceRev x (some 7) none ++ sliceRev x (some 15) (some 7) = Auth.revHalves x := revHalves_gen x

/-- the session guard: the generated `match` is the disjunction -/
theorem guard_cond (sk iv : Option Bytes) :
    ((match sk with | none => true | some _ => decide (iv = none)) = true) ↔ (sk = none ∨ iv = none) := by
  cases sk <;> simp

end NfcVerif.FnBridge.Sony
