import NfcVerif.Model.HostFrame
import NfcVerif.Lemmas.FnBridgeBase
/-!
Lemmas about the prelude `PyFn.lean` shared by the host-link bridge groups `Pn53x`, `Acr122`,
`Rcs380`, `ErrMap` (`Props/FnBridge{Pn53x,Acr122,Rcs380,ErrMap}.lean`): `struct.pack` fields and
`bytearray([..])` displays on cast naturals, `sum(..)` on byte strings.
-/
namespace NfcVerif.FnBridge.HostLink
open NfcVerif NfcVerif.PyFn NfcVerif.HostFrame

/-! ## `struct.pack` -/
theorem packField_B (n : Nat) : packField .B (n : Int) = if n < 256 then .ok [n] else .error .struct := by
  unfold packField
  by_cases h : n < 256
  · have : ¬ ((n : Int) < 0 ∨ (n : Int) ≥ 256 ^ Fmt.B.size) := by simp [Fmt.size]; omega
    simp [this, h]
  · have : ((n : Int) < 0 ∨ (n : Int) ≥ 256 ^ Fmt.B.size) := by simp [Fmt.size]; omega
    simp [this, h]

/-- `<I`: the four octets of `HostFrame.le32` -/
theorem packField_Ile (n : Nat) :
    packField .Ile (n : Int) = if n < 4294967296 then .ok (le32 n) else .error .struct := by
  unfold packField
  by_cases h : n < 4294967296
  · have : ¬ ((n : Int) < 0 ∨ (n : Int) ≥ 256 ^ Fmt.Ile.size) := by simp [Fmt.size]; omega
    simp only [this, if_false, h, if_true, Int.toNat_natCast]
    simp [toLE, le32, Nat.div_div_eq_div_mul]
  · have : ((n : Int) < 0 ∨ (n : Int) ≥ 256 ^ Fmt.Ile.size) := by simp [Fmt.size]; omega
    simp [this, h]

/-- `<H` -/
theorem packField_Hle (n : Nat) :
    packField .Hle (n : Int) = if n < 65536 then .ok [n % 256, n / 256 % 256] else .error .struct := by
  unfold packField
  by_cases h : n < 65536
  · have : ¬ ((n : Int) < 0 ∨ (n : Int) ≥ 256 ^ Fmt.Hle.size) := by simp [Fmt.size]; omega
    simp only [this, if_false, h, if_true, Int.toNat_natCast]
    simp [toLE]
  · have : ((n : Int) < 0 ∨ (n : Int) ≥ 256 ^ Fmt.Hle.size) := by simp [Fmt.size]; omega
    simp [this, h]

/-- `>H` -/
theorem packField_Hbe (n : Nat) :
    packField .Hbe (n : Int) = if n < 65536 then .ok [n / 256 % 256, n % 256] else .error .struct := by
  unfold packField
  by_cases h : n < 65536
  · have : ¬ ((n : Int) < 0 ∨ (n : Int) ≥ 256 ^ Fmt.Hbe.size) := by simp [Fmt.size]; omega
    simp only [this, if_false, h, if_true, Int.toNat_natCast]
    simp [toBE]
  · have : ((n : Int) < 0 ∨ (n : Int) ≥ 256 ^ Fmt.Hbe.size) := by simp [Fmt.size]; omega
    simp [this, h]

theorem pack_cons (f : Fmt) (fs : List Fmt) (v : Int) (vs : List Int) :
    pack (f :: fs) (v :: vs) = (packField f v >>= fun a => pack fs vs >>= fun b => .ok (a ++ b)) := by
  rw [pack]
  cases packField f v <;> simp only [Py.bind_ok, Py.bind_error]
  cases pack fs vs <;> rfl

theorem pack_nil : pack [] [] = .ok [] := rfl

/-! ## `bytearray([..])` -/
theorem mkBytes_cons (x : Nat) (xs : List Int) :
    mkBytes ((x : Int) :: xs) = if x < 256 then (mkBytes xs >>= fun r => .ok (x :: r)) else .error .value := by
  rw [mkBytes]
  by_cases h : x < 256
  · have : ¬ ((x : Int) < 0 ∨ (x : Int) > 255) := by omega
    simp only [this, if_false, h, if_true, Int.toNat_natCast]
    cases mkBytes xs <;> rfl
  · have : ((x : Int) < 0 ∨ (x : Int) > 255) := by omega
    simp [this, h]

theorem mkBytes_nil : mkBytes [] = .ok [] := rfl

/-- a first element outside `range(256)` is a `ValueError`, whatever follows -/
theorem mkBytes_bad (x : Int) (xs : List Int) (h : x < 0 ∨ x > 255) : mkBytes (x :: xs) = .error .value := by
  rw [mkBytes]; simp [h]

/-! ## `sum(..)` -/
theorem sum_ints_aux (l : Bytes) (a : Nat) :
    List.foldl (· + ·) (a : Int) (ints l) = ((List.foldl (· + ·) a l : Nat) : Int) := by
  induction l generalizing a with
  | nil => rfl
  | cons x xs ih =>
    simp only [ints_cons, List.foldl_cons]
    rw [← Int.natCast_add, ih]

/-- `sum(x)` on a byte string is the model's `HostFrame.sum` -/
theorem sum_ints (l : Bytes) : PyFn.sum (ints l) = ((HostFrame.sum l : Nat) : Int) := by
  unfold PyFn.sum HostFrame.sum
  exact sum_ints_aux l 0

/-! ## slices, indexing -/
theorem slice_ofNat {α} (l : List α) (a b : Nat) : slice l (a : Int) (b : Int) = sliceN l a b := by
  unfold slice sliceN
  simp only [clampBound_ofNat]
  by_cases ha : a ≤ l.length
  · rw [Nat.min_eq_left ha]
    by_cases hb : b ≤ l.length
    · rw [Nat.min_eq_left hb]
    · rw [Nat.min_eq_right (by omega)]
      rw [List.take_of_length_le (by simp), List.take_of_length_le (by simp; omega)]
  · rw [Nat.min_eq_right (by omega : l.length ≤ a), List.drop_of_length_le (Nat.le_refl _),
      List.drop_of_length_le (by omega : l.length ≤ a)]
    simp

theorem idx_ofNat {α} (l : List α) (n : Nat) : idx l (n : Int) = idxN l n := by
  unfold idx idxN
  have h0 : ¬ ((n : Int) < 0) := by omega
  simp only [h0, if_false, false_or, Int.toNat_natCast]
  by_cases h : n < l.length
  · have : ¬ ((n : Int) ≥ (l.length : Int)) := by omega
    simp [this]
  · have : ((n : Int) ≥ (l.length : Int)) := by omega
    simp [this, List.getElem?_eq_none (by omega : l.length ≤ n)]

/-- `data[i]` read as an int is the model's `idx` followed by the cast -/
theorem getB_idx (l : Bytes) (i : Int) : getB l i = (idx l i >>= fun b => .ok (b : Int)) := by
  unfold getB; cases idx l i <;> rfl

theorem getB_idxN (l : Bytes) (n : Nat) : getB l (n : Int) = (idxN l n >>= fun b => .ok (b : Int)) := by
  rw [getB_idx, idx_ofNat]

theorem idxN_eq_at0 {l : Bytes} {n : Nat} (h : n < l.length) : idxN l n = .ok (at0 l n) := by
  unfold idxN at0; simp [List.getElem?_eq_getElem h]

theorem idxN_ge {α} {l : List α} {n : Nat} (h : l.length ≤ n) : idxN l n = .error .index := by
  unfold idxN; simp [List.getElem?_eq_none h]

/-- `l[-k]` on a list with at least `k` elements -/
theorem idx_neg {l : Bytes} (k : Nat) (hk : 0 < k) (h : k ≤ l.length) :
    idx l (-((k : Nat) : Int)) = .ok (at0 l (l.length - k)) := by
  unfold idx at0
  have h0 : (-((k : Nat) : Int) < 0) := by omega
  simp only [h0, if_true]
  have h1 : ¬ (-((k : Nat) : Int) + (l.length : Int) < 0 ∨ -((k : Nat) : Int) + (l.length : Int) ≥ (l.length : Int)) := by omega
  have h2 : (-((k : Nat) : Int) + (l.length : Int)).toNat = l.length - k := by omega
  have h3 : l.length - k < l.length := by omega
  rw [if_neg h1, h2, List.getElem?_eq_getElem h3]; rfl

/-- `del l[0:n]` -/
theorem delSlice_zero {α} (l : List α) (n : Nat) : delSlice l ((0 : Nat) : Int) (n : Int) = l.drop n := by
  unfold delSlice
  simp only [clampBound_ofNat]
  simp only [Nat.zero_min, List.take_zero, List.nil_append, Nat.zero_max]
  by_cases h : n ≤ l.length
  · rw [Nat.min_eq_left h]
  · rw [Nat.min_eq_right (by omega), List.drop_of_length_le (Nat.le_refl _), List.drop_of_length_le (by omega)]

/-- `x[-2:]` of a string that ends in two known octets -/
theorem sliceFrom_neg_two (a b : Nat) (p : Bytes) : PyFn.sliceFrom (p ++ [a, b]) (-((2 : Nat) : Int)) = [a, b] := by
  show PyFn.sliceFrom (p ++ [a, b]) (-2) = [a, b]
  unfold PyFn.sliceFrom clampBound
  simp only [List.length_append, List.length_cons, List.length_nil]
  have h1 : ((-2 : Int) < 0) := by omega
  simp only [h1, if_true]
  have h2 : ¬ ((-2 : Int) + ((p.length + (0 + 1 + 1) : Nat) : Int) < 0) := by omega
  have h3 : ¬ ((-2 : Int) + ((p.length + (0 + 1 + 1) : Nat) : Int) > ((p.length + (0 + 1 + 1) : Nat) : Int)) := by omega
  simp only [h2, h3, if_false]
  have h4 : ((-2 : Int) + ((p.length + (0 + 1 + 1) : Nat) : Int)).toNat = p.length := by omega
  rw [h4]; simp

/-! ## masks on possibly negative ints, comparisons with a difference -/
/-- `a & 0xFF` for every int (two's complement): the residue modulo 256 -/
theorem band_255 (a : Int) : band a ((255 : Nat) : Int) = a % 256 := by
  cases a with
  | ofNat m =>
    show ((m &&& 255 : Nat) : Int) = _
    rw [and255]; simp
  | negSucc m =>
    show Int.ofNat (ldiff 255 m) = _
    have := ldiff_mask 8 m
    simp only [Nat.reducePow, Nat.reduceSub] at this
    rw [this]
    have e : Int.negSucc m = -((m : Int) + 1) := rfl
    rw [e]
    have h1 : m % 256 < 256 := Nat.mod_lt _ (by decide)
    show ((255 - m % 256 : Nat) : Int) = _
    omega

/-- `(256 - s) & 0xFF`, the checksum octet of the PN53x / RC-S380 frames -/
theorem band_256_sub (s : Nat) :
    band (((256 : Nat) : Int) - (s : Int)) ((255 : Nat) : Int) = (((256 - s % 256) % 256 : Nat) : Int) := by
  rw [band_255]; omega

/-- `x == len(frame) - k` on naturals -/
theorem cast_eq_sub (l n k : Nat) : ((l : Int) = (n : Int) - ((k : Nat) : Int)) = (l + k = n) := by
  apply propext; omega

/-- unsigned little-endian 32-bit field at offset 0 of a 4-octet string -/
theorem ule_four (a b c d : Nat) :
    ule [a, b, c, d] ((0 : Nat) : Int) 4 = ((a + 256 * b + 65536 * c + 16777216 * d : Nat) : Int) := by
  unfold ule
  simp [beNat]
  omega

theorem len4 {l : Bytes} (h : l.length = 4) : ∃ a b c d, l = [a, b, c, d] := by
  match l, h with
  | [a, b, c, d], _ => exact ⟨a, b, c, d, rfl⟩

/-- `struct.unpack("<I", x)[0]` on four octets is the model's `HostFrame.unLe32` -/
theorem ule_unLe32 (l : Bytes) (h : l.length = 4) : ule l ((0 : Nat) : Int) 4 = ((unLe32 l : Nat) : Int) := by
  obtain ⟨a, b, c, d, rfl⟩ := len4 h
  rw [ule_four]; rfl

/-- `x >>= fun v => Except.ok v` (the join after an `if` whose branches assign the same variable) -/
theorem bind_ok_id {α} (x : Py α) : (x >>= fun v => Except.ok v) = x := by
  cases x <;> rfl

end NfcVerif.FnBridge.HostLink
