import NfcVerif.Lemmas.AdvT3
import NfcVerif.Lemmas.AdvT2
import NfcVerif.Lemmas.AdvAct
import NfcVerif.Lemmas.IsoDepC08
import NfcVerif.Model.AdvOps
/-!
# C08 lemmas: the Type 4 reader at FRAME level, the presence checks, sequences of operations, sessions

* `isoX_run`, `readNdef4_frames`: over the repaired ISO-DEP initiator every frame-level card lets
  `_read_ndef_data` end after at most `t4Frames` frames, without exception, with `None` or a safe object.
* `isPresent1/2/3/3rr/4_spec`: the presence checks return a boolean after at most 3 / 3 / 3 / 6 / 1 interactions.
* `runOps_safe`: any sequence of `tag.ndef` / `has_changed` / `is_present` on one tag object.
* `session_safe`: `nfc.tag.activate` on well-framed activation data followed by any such sequence.
-/
namespace NfcVerif.Adv
open NfcVerif.IsoDep (Pcd World)
open NfcVerif.IsoDepR (Cfg frames exchFrames loopFrames)

/-! ## Type 4 at frame level -/

def wframes (s : S4) : Nat := frames s.world

/-- frames one `_read_ndef_data` needs at most: 7 + 65536 APDUs of at most 13 octets -/
def t4Frames (c : Cfg) (p0 : Pcd) : Nat := (7 + 65536) * exchFrames c p0 13

theorem exchFrames_mono (c : Cfg) (p : Pcd) {a b : Nat} (h : a ≤ b) : exchFrames c p a ≤ exchFrames c p b := by
  unfold exchFrames
  exact Nat.add_le_add_right (Nat.mul_le_mul_right _ h) _

/-- one APDU over the repaired initiator, whatever the card does at frame level: a response APDU or a
`Type4TagCommandError`, at most `exchFrames` frames -/
theorem isoX_run (t : Tag) (c : Cfg) (p0 : Pcd) (sticky : Bool) (hR : c.Repaired p0.nNak p0.nAck) (hm : 0 < p0.miu)
    (s : S4) (cmd : Bytes) (hc : CmdOk cmd) :
    (∀ e, ((isoX t c p0 sticky).run s cmd).2 = .error e → isTagCmd e = true) ∧
    wframes s ≤ wframes ((isoX t c p0 sticky).run s cmd).1 ∧
    wframes ((isoX t c p0 sticky).run s cmd).1 ≤ wframes s + exchFrames c p0 13 := by
  unfold isoX
  simp only
  have he := IsoDepR.exchange_spec (oraclePeer t) c
    { p0 with pni := s.pni, failed := if sticky then s.failed else none } hR hm cmd hc.1 s.world
  have hmono := exchFrames_mono c p0 hc.2
  rcases hq : IsoDepR.exchange (oraclePeer t) c
    { p0 with pni := s.pni, failed := if sticky then s.failed else none } cmd s.world with ⟨w, pcd, r⟩
  rw [hq] at he
  simp only at he
  unfold wframes
  have hx : exchFrames c { p0 with pni := s.pni, failed := if sticky then s.failed else none } cmd.length =
      exchFrames c p0 cmd.length := rfl
  rw [hx] at he
  refine ⟨?_, he.2.1, by simp only; omega⟩
  intro e h
  simp only at h
  subst h
  obtain ⟨n, hn⟩ := he.1
  subst hn
  rfl

theorem isoX_ok (t : Tag) (c : Cfg) (p0 : Pcd) (sticky : Bool) (hR : c.Repaired p0.nNak p0.nAck) (hm : 0 < p0.miu) :
    XOk (isoX t c p0 sticky) :=
  fun s cmd e hc h => (isoX_run t c p0 sticky hR hm s cmd hc).1 e h

theorem countX_proj {σ} (X : Xp σ) : Rel (countX X) X (fun a b => a.1 = b) := by
  intro a b c _ hab
  subst hab
  exact ⟨rfl, rfl⟩

/-- FRAME level: against every card, whatever it answers to every single frame, the Type 4 `_read_ndef_data`
over the repaired ISO-DEP initiator ends after at most `t4Frames` frames, raises nothing, and returns
`None` or a safe object -/
theorem readNdef4_frames (t : Tag) (c : Cfg) (p0 : Pcd) (sticky : Bool) (hR : c.Repaired p0.nNak p0.nAck)
    (hm : 0 < p0.miu) (known : Option Info) (hk : ∀ i, known = some i → InfoOk i) (s : S4) :
    wframes s ≤ wframes (readNdef4 (isoX t c p0 sticky) known s).1 ∧
    wframes (readNdef4 (isoX t c p0 sticky) known s).1 ≤ wframes s + t4Frames c p0 ∧
    ((readNdef4 (isoX t c p0 sticky) known s).2 = .ok none ∨
     ∃ d i, (readNdef4 (isoX t c p0 sticky) known s).2 = .ok (some (d, i)) ∧ SafeNdef d ∧ InfoOk i) := by
  have hX := isoX_ok t c p0 sticky hR hm
  have hfid : ∀ i, known = some i → i.fid.length ≤ 7 := fun i h => (hk i h).2
  -- APDU level
  have hA := readNdef4_safe hX known hk (s, 0)
  -- the APDU counter can be forgotten
  have hP := readNdef4_rel (countX_proj (isoX t c p0 sticky)) known hfid (s, 0) s rfl
  -- frames against APDUs
  generalize hK : exchFrames c p0 13 = K at *
  have hJ : Rel (countX (isoX t c p0 sticky)) (countX (isoX t c p0 sticky))
      (fun a b => a = b ∧ wframes s ≤ wframes a.1 ∧ wframes a.1 ≤ wframes s + K * a.2) := by
    intro a b cmd hc hab
    obtain ⟨hab, h1, h2⟩ := hab
    subst hab
    have hr := isoX_run t c p0 sticky hR hm a.1 cmd hc
    rw [hK] at hr
    refine ⟨⟨rfl, ?_, ?_⟩, rfl⟩
    · simp only [countX]; omega
    · simp only [countX, Nat.mul_succ]; omega
  have hF := readNdef4_rel hJ known hfid (s, 0) (s, 0) ⟨rfl, Nat.le_refl _, by simp⟩
  obtain ⟨⟨-, hF1, hF2⟩, -⟩ := hF
  obtain ⟨hP1, hP2⟩ := hP
  rw [← hP2, ← hP1]
  refine ⟨hF1, ?_, hA.2⟩
  have hn : (readNdef4 (countX (isoX t c p0 sticky)) known (s, 0)).1.2 ≤ 7 + 65536 := by
    have := hA.1; simp only at this; omega
  have := Nat.mul_le_mul_left K hn
  unfold t4Frames
  rw [hK, Nat.mul_comm (7 + 65536) K]
  omega

/-! ## the presence checks -/

theorem idx_last {α} (l : List α) (h : l ≠ []) : ∃ a, idx l (-1) = .ok a := by
  cases l with
  | nil => exact absurd rfl h
  | cons x xs =>
    unfold idx
    simp only [List.length_cons]
    have h1 : ((-1 : Int) < 0) := by omega
    simp only [h1, if_true]
    have h2 : ¬ ((-1 + ((xs.length + 1 : Nat) : Int) < 0) ∨ (-1 + ((xs.length + 1 : Nat) : Int) ≥ ((xs.length + 1 : Nat) : Int))) := by omega
    rw [if_neg h2]
    have h3 : (-1 + ((xs.length + 1 : Nat) : Int)).toNat = xs.length := by omega
    rw [h3]
    have h4 : (x :: xs)[xs.length]? = some ((x :: xs)[xs.length]'(by simp)) := List.getElem?_eq_getElem (by simp)
    rw [h4]
    exact ⟨_, rfl⟩

theorem readByte1_spec (t : Tag) (uid : Bytes) (w : W) :
    (readByte1 t uid 0 w).2.n ≤ w.n + 3 ∧ ∀ e, (readByte1 t uid 0 w).1 = .error e → isTagCmd e = true := by
  unfold readByte1
  rw [if_neg (by omega)]
  have hn := trx_n t 3 w ([0x01, 0, 0x00] ++ uid)
  rcases hq : trx t 3 w ([0x01, 0, 0x00] ++ uid) with ⟨r, w'⟩
  rw [hq] at hn
  simp only at hn
  cases r with
  | none => exact ⟨hn.2, by intro e h; cases h; rfl⟩
  | some rsp =>
    simp only
    split
    · exact ⟨hn.2, by intro e h; cases h; rfl⟩
    · rename_i hl
      obtain ⟨a, ha⟩ := idx_last rsp (by intro h0; subst h0; simp at hl)
      simp only [ha]
      exact ⟨hn.2, by intro e h; cases h⟩

/-- Type 1: `is_present` is a boolean after at most 3 interactions, for every tag -/
theorem isPresent1_spec (t : Tag) (uid : Bytes) (hu : uid ≠ []) (w : W) :
    (∃ b, (isPresent1 t uid w).1 = .ok b) ∧ (isPresent1 t uid w).2.n ≤ w.n + 3 := by
  unfold isPresent1
  have hr := readByte1_spec t uid w
  rcases hq : readByte1 t uid 0 w with ⟨r, w'⟩
  rw [hq] at hr
  simp only at hr
  obtain ⟨u, hu', -⟩ := idxN_lt uid 0 (by cases uid with | nil => exact absurd rfl hu | cons a b => simp)
  cases r with
  | error e => simp only [hr.2 e rfl, if_true]; exact ⟨⟨_, rfl⟩, hr.1⟩
  | ok b => simp only [hu']; exact ⟨⟨_, rfl⟩, hr.1⟩

theorem trans2_kind (t : Tag) (k : Nat) (cmd : Bytes) (s : S2) :
    (trans2 t k cmd s).2.w.n ≤ s.w.n + k ∧ ∀ e, (trans2 t k cmd s).1 = .error e → isTagCmd e = true := by
  unfold trans2
  split
  · exact ⟨by simp, by intro e h; cases h; rfl⟩
  · have hn := trx_n t k s.w cmd
    rcases hq : trx t k s.w cmd with ⟨r, w'⟩
    rw [hq] at hn
    simp only at hn
    cases r with
    | none => exact ⟨hn.2, by intro e h; cases h; rfl⟩
    | some d => exact ⟨hn.2, by intro e h; cases h⟩

/-- Type 2: `is_present` is a boolean after at most 3 interactions, for every tag -/
theorem isPresent2_spec (t : Tag) (s : S2) :
    (∃ b, (isPresent2 t s).1 = .ok b) ∧ (isPresent2 t s).2.w.n ≤ s.w.n + 3 := by
  unfold isPresent2
  have hr := trans2_kind t 3 [0x30, 0x00] s
  rcases hq : trans2 t 3 [0x30, 0x00] s with ⟨r, s'⟩
  rw [hq] at hr
  simp only at hr
  cases r with
  | error e => simp only [hr.2 e rfl, if_true]; exact ⟨⟨_, rfl⟩, hr.1⟩
  | ok d => exact ⟨⟨_, rfl⟩, hr.1⟩

/-- the Type 3 Tag object between operations: IDm and PMm of 8 octets, a 16 bit system code -/
def I3s (s : S3) : Prop := I3 s ∧ s.sys < 65536

/-- Type 3 (generic): `is_present` is a boolean after at most 3 interactions, for every tag -/
theorem isPresent3_spec {t : Tag} (hT : TagBytes t) (nfcid : Bytes) (s : S3) (hI : I3s s) :
    (∃ b, (isPresent3 t nfcid s).1 = .ok b) ∧ (isPresent3 t nfcid s).2.w.n ≤ s.w.n + 3 ∧ I3s (isPresent3 t nfcid s).2 := by
  unfold isPresent3
  have hp := pollingTuple_spec hT s.sys 0 s hI.2 (Or.inl rfl)
  rcases hq : pollingTuple t s.sys 0 s with ⟨r, s'⟩
  rw [hq] at hp
  simp only at hp
  obtain ⟨h1, h2, h3, h4, h5, h6⟩ := hp
  have hI' : I3s s' := by unfold I3s I3; rw [h2, h3, h4]; exact hI
  cases r with
  | error e => simp only [h5 e rfl, if_true]; exact ⟨⟨_, rfl⟩, h1, hI'⟩
  | ok tup =>
    obtain ⟨a, b, hab, -, -⟩ := (h6 tup rfl).1 trivial
    subst hab
    simp only [unpack2]
    exact ⟨⟨_, rfl⟩, h1, hI'⟩

theorem checkRsp3n_err (code : Nat) (idm rsp : Bytes) (e : Exc) (h : checkRsp3n code idm rsp = .error e) : isTagCmd e = true := by
  unfold checkRsp3n at h
  split at h
  · split at h
    · cases h; rfl
    · split at h
      · cases h; rfl
      · split at h
        · cases h; rfl
        · cases h
  · cases h; rfl

theorem sendCmd3n_spec (t : Tag) (code : Nat) (data : Bytes) (s : S3) (hl : 2 + s.idm.length + data.length < 256) (hc : code < 256) :
    (sendCmd3n t code data s).2.w.n ≤ s.w.n + 3 ∧
    (sendCmd3n t code data s).2.idm = s.idm ∧ (sendCmd3n t code data s).2.pmm = s.pmm ∧
    (sendCmd3n t code data s).2.sys = s.sys ∧
    (∀ e, (sendCmd3n t code data s).1 = .error e → isTagCmd e = true) := by
  unfold sendCmd3n
  rw [if_neg (by omega)]
  have hn := trx_n t 3 s.w ([2 + s.idm.length + data.length, code] ++ s.idm ++ data)
  rcases hq : trx t 3 s.w ([2 + s.idm.length + data.length, code] ++ s.idm ++ data) with ⟨r, w'⟩
  rw [hq] at hn
  simp only at hn
  cases r with
  | none => exact ⟨hn.2, rfl, rfl, rfl, by intro e h; cases h; rfl⟩
  | some rsp => exact ⟨hn.2, rfl, rfl, rfl, fun e h => checkRsp3n_err code s.idm rsp e h⟩

theorem requestResponse_spec (t : Tag) (s : S3) (hI : I3s s) :
    (requestResponse t s).2.w.n ≤ s.w.n + 3 ∧ I3s (requestResponse t s).2 ∧
    ∀ e, (requestResponse t s).1 = .error e → isTagCmd e = true := by
  unfold requestResponse
  obtain ⟨p3, hp3, -⟩ := idxN_lt s.pmm 3 (by rw [hI.1.2]; omega)
  rw [hp3]
  simp only
  have hs := sendCmd3n_spec t 4 [] s (by rw [hI.1.1]; simp) (by omega)
  rcases hq : sendCmd3n t 4 [] s with ⟨r, s'⟩
  rw [hq] at hs
  simp only at hs
  obtain ⟨h1, h2, h3, h4, h5⟩ := hs
  have hI' : I3s s' := by unfold I3s I3; rw [h2, h3, h4]; exact hI
  cases r with
  | error e => exact ⟨h1, hI', by intro e' h; cases h; exact h5 e rfl⟩
  | ok d =>
    simp only
    split
    · exact ⟨h1, hI', by intro e' h; cases h; rfl⟩
    · rename_i hl
      have hl1 : d.length = 1 := by simpa using hl
      obtain ⟨m, hm, -⟩ := idxN_lt d 0 (by omega)
      simp only [hm]
      exact ⟨h1, hI', by intro e' h; cases h⟩

/-- Type 3 (FeliCa Standard / Mobile): Request Response, then the polling: a boolean after at most 6 interactions -/
theorem isPresent3rr_spec {t : Tag} (hT : TagBytes t) (nfcid : Bytes) (s : S3) (hI : I3s s) :
    (∃ b, (isPresent3rr t nfcid s).1 = .ok b) ∧ (isPresent3rr t nfcid s).2.w.n ≤ s.w.n + 6 ∧
    I3s (isPresent3rr t nfcid s).2 := by
  unfold isPresent3rr
  have hr := requestResponse_spec t s hI
  rcases hq : requestResponse t s with ⟨r, s'⟩
  rw [hq] at hr
  simp only at hr
  cases r with
  | ok m => exact ⟨⟨_, rfl⟩, by simp only; omega, hr.2.1⟩
  | error e =>
    simp only [hr.2.2 e rfl, if_true]
    have := isPresent3_spec hT nfcid s' hr.2.1
    exact ⟨this.1, by omega, this.2.2⟩

/-- Type 4: the R(NAK) presence check is one frame and gives a boolean -/
theorem isPresent4_spec (t : Tag) (s : S4) :
    (∃ b, (isPresent4 t s).1 = .ok b) ∧ wframes (isPresent4 t s).2 = wframes s + 1 := by
  unfold isPresent4 IsoDep.presence
  simp only
  have hf := IsoDepR.xchg_frames (oraclePeer t) s.world [0xB2 ||| s.pni]
  have hn := IsoDepR.xchg_ne_fuel (oraclePeer t) s.world [0xB2 ||| s.pni]
  rcases hq : s.world.xchg (oraclePeer t) [0xB2 ||| s.pni] with ⟨w, r⟩
  rw [hq] at hf hn
  simp only at hf hn
  cases r with
  | data d => exact ⟨⟨_, rfl⟩, hf⟩
  | timeout => simp only [commErr, if_true]; exact ⟨⟨_, rfl⟩, hf⟩
  | transmission => simp only [commErr, if_true]; exact ⟨⟨_, rfl⟩, hf⟩
  | protocol => simp only [commErr, if_true]; exact ⟨⟨_, rfl⟩, hf⟩
  | fuel => exact absurd rfl hn

/-! ## sequences of operations on one tag object -/

/-- what a tag type guarantees for its two operations, on states satisfying `I`: they never raise, need at most
`B` interactions (`n` counts them), keep `I`; a returned object satisfies `G` and what it keeps satisfies `K` -/
structure OpsOk {σ κ} (T : TagOps σ κ) (I : σ → Prop) (K : κ → Prop) (G : Ndef → Prop) (n : σ → Nat) (B : Nat) : Prop where
  read : ∀ known s, I s → (∀ k, known = some k → K k) →
    I (T.read known s).2 ∧ n (T.read known s).2 ≤ n s + B ∧
    ((T.read known s).1 = .ok none ∨ ∃ d k, (T.read known s).1 = .ok (some (d, k)) ∧ K k ∧ G d)
  present : ∀ s, I s → I (T.present s).2 ∧ n (T.present s).2 ≤ n s + B ∧ ∃ b, (T.present s).1 = .ok b

def ResOk (G : Ndef → Prop) : Res → Prop
  | .ndef (some d) => G d
  | _ => True

def ObjOk {σ κ} (I : σ → Prop) (K : κ → Prop) (G : Ndef → Prop) (o : Obj σ κ) : Prop :=
  I o.st ∧ ∀ d k, o.ndef = some (d, k) → K k ∧ G d

section ops
variable {σ κ : Type} {T : TagOps σ κ} {I : σ → Prop} {K : κ → Prop} {G : Ndef → Prop} {n : σ → Nat} {B : Nat}

theorem readStep_safe (h : OpsOk T I K G n B) (known : Option κ) (hk : ∀ k, known = some k → K k) (o : Obj σ κ)
    (hI : I o.st) :
    ∃ r, (readStep T known o).1 = .ok r ∧ ResOk G r ∧ ObjOk I K G (readStep T known o).2 ∧
      n (readStep T known o).2.st ≤ n o.st + B := by
  unfold readStep
  have hr := h.read known o.st hI hk
  rcases hq : T.read known o.st with ⟨r, s⟩
  rw [hq] at hr
  simp only at hr
  rcases hr.2.2 with h0 | ⟨d, k, h1, hk', hg⟩
  · subst h0
    exact ⟨_, rfl, trivial, ⟨hr.1, by intro d k hh; cases hh⟩, hr.2.1⟩
  · subst h1
    refine ⟨_, rfl, hg, ⟨hr.1, ?_⟩, hr.2.1⟩
    intro d' k' hh
    simp at hh
    obtain ⟨h1, h2⟩ := hh
    subst h1; subst h2
    exact ⟨hk', hg⟩

theorem step_safe (h : OpsOk T I K G n B) (op : Op) (o : Obj σ κ) (ho : ObjOk I K G o) :
    ∃ r, (step T op o).1 = .ok r ∧ ResOk G r ∧ ObjOk I K G (step T op o).2 ∧ n (step T op o).2.st ≤ n o.st + B := by
  obtain ⟨hI, hN⟩ := ho
  cases op with
  | ndef =>
    cases hnd : o.ndef with
    | some dk =>
      obtain ⟨d, k⟩ := dk
      simp only [step, hnd]
      exact ⟨_, rfl, (hN d k hnd).2, ⟨hI, hN⟩, by omega⟩
    | none =>
      simp only [step, hnd]
      exact readStep_safe h none (by intro k hk; cases hk) o hI
  | changed =>
    cases hnd : o.ndef with
    | none =>
      simp only [step, hnd]
      exact ⟨_, rfl, trivial, ⟨hI, hN⟩, by omega⟩
    | some dk =>
      obtain ⟨d0, k0⟩ := dk
      simp only [step, hnd]
      exact readStep_safe h (some k0) (by intro k hk; cases hk; exact (hN d0 k0 hnd).1) o hI
  | present =>
    simp only [step]
    have hp := h.present o.st hI
    rcases hq : T.present o.st with ⟨r, s⟩
    rw [hq] at hp
    simp only at hp
    obtain ⟨b, hb⟩ := hp.2.2
    subst hb
    exact ⟨_, rfl, trivial, ⟨hp.1, hN⟩, hp.2.1⟩

/-- any sequence of `tag.ndef` / `has_changed` / `is_present`: no exception, one result per operation, every
returned object good, at most `B` interactions per operation -/
theorem runOps_safe (h : OpsOk T I K G n B) : ∀ (ops : List Op) (o : Obj σ κ) (acc : List Res),
    ObjOk I K G o → (∀ r ∈ acc, ResOk G r) →
    ∃ rs, (runOps T ops o acc).1 = .ok rs ∧ (∀ r ∈ rs, ResOk G r) ∧ rs.length = acc.length + ops.length ∧
      ObjOk I K G (runOps T ops o acc).2 ∧ n (runOps T ops o acc).2.st ≤ n o.st + ops.length * B := by
  intro ops
  induction ops with
  | nil => intro o acc ho ha; exact ⟨acc, rfl, ha, by simp, ho, by simp [runOps]⟩
  | cons op ops ih =>
    intro o acc ho ha
    unfold runOps
    obtain ⟨r, hr, hg, ho', hn⟩ := step_safe h op o ho
    rcases hq : step T op o with ⟨pr, o'⟩
    rw [hq] at hr ho' hn
    simp only at hr ho' hn
    subst hr
    simp only
    obtain ⟨rs, h1, h2, h3, h4, h5⟩ := ih o' (r :: acc) ho' (by
      intro x hx
      rcases List.mem_cons.mp hx with rfl | hx
      · exact hg
      · exact ha x hx)
    refine ⟨rs, h1, h2, by simp only [List.length_cons] at h3 ⊢; omega, h4, ?_⟩
    simp only [List.length_cons, Nat.add_mul, Nat.one_mul]
    omega

end ops

/-! ## the four tag types -/

theorem SafeNdef.safeA {d : Ndef} (h : SafeNdef d) : SafeA d := ⟨h.2.1, h.2.2.1, h.2.2.2⟩

theorem ops1_ok {t : Tag} (hT : TagBytes t) (uid : Bytes) (hu : uid ≠ []) :
    OpsOk (ops1 t uid) (fun _ => True) (fun _ => True) SafeA (·.n) 1300 where
  read := by
    intro known w _ _
    have h := readNdef1_safe hT uid w
    simp only [ops1]
    rcases hq : readNdef1 t uid w with ⟨r, s⟩
    rw [hq] at h
    simp only at h
    refine ⟨trivial, h.1, ?_⟩
    rcases h.2 with h0 | ⟨d, hd, hs, -⟩
    · subst h0; exact Or.inl rfl
    · subst hd; exact Or.inr ⟨d, (), rfl, trivial, hs⟩
  present := by
    intro w _
    have h := isPresent1_spec t uid hu w
    exact ⟨trivial, by simp only [ops1]; omega, h.1⟩

theorem ops2_ok {t : Tag} (hT : TagBytes t) :
    OpsOk (ops2 t) (fun _ => True) (fun _ => True) SafeA (·.w.n) 86066 where
  read := by
    intro known o _ _
    have h := readNdef2_safe hT o.w o.sector o.alive
    simp only [ops2]
    rcases hq : readNdef2 t o.w o.sector o.alive with ⟨r, s⟩
    rw [hq] at h
    simp only at h
    refine ⟨trivial, h.1, ?_⟩
    rcases h.2 with h0 | ⟨d, hd, hs, -⟩
    · subst h0; exact Or.inl rfl
    · subst hd; exact Or.inr ⟨d, (), rfl, trivial, hs⟩
  present := by
    intro o _
    have h := isPresent2_spec t { w := o.w, cache := [], sector := o.sector, alive := o.alive }
    simp only [ops2]
    rcases hq : isPresent2 t { w := o.w, cache := [], sector := o.sector, alive := o.alive } with ⟨r, s⟩
    rw [hq] at h
    simp only at h
    exact ⟨trivial, by simp only [O2.ofS2]; omega, h.1⟩

theorem ops3_ok {t : Tag} (hT : TagBytes t) (nfcid : Bytes) (rr : Bool) :
    OpsOk (ops3 t nfcid rr) I3s (fun _ => True) SafeA (·.w.n) (6 + 3 * 65536) where
  read := by
    intro known s hI _
    have h := readNdef3_safe hT s hI.1
    simp only [ops3]
    rcases hq : readNdef3 t s with ⟨r, s'⟩
    rw [hq] at h
    simp only at h
    refine ⟨⟨h.2.2.1, ?_⟩, by have := h.1; rw [Nat.add_assoc] at this; exact this, ?_⟩
    · rcases h.2.2.2 with h1 | h1
      · rw [h1]; exact hI.2
      · rw [h1]; omega
    · rcases h.2.1 with h0 | ⟨d, hd, hs, -⟩
      · subst h0; exact Or.inl rfl
      · subst hd; exact Or.inr ⟨d, (), rfl, trivial, hs.safeA⟩
  present := by
    intro s hI
    simp only [ops3]
    cases rr with
    | true =>
      have h := isPresent3rr_spec hT nfcid s hI
      simp only [if_true]
      exact ⟨h.2.2, Nat.le_trans h.2.1 (by rw [← Nat.add_assoc]; exact Nat.le_add_right _ _), h.1⟩
    | false =>
      have h := isPresent3_spec hT nfcid s hI
      simp only [Bool.false_eq_true, if_false]
      have h6 : (isPresent3 t nfcid s).2.w.n ≤ s.w.n + 6 := by have := h.2.1; omega
      exact ⟨h.2.2, Nat.le_trans h6 (by rw [← Nat.add_assoc]; exact Nat.le_add_right _ _), h.1⟩

theorem loopFrames_pos (c : Cfg) (n : Nat) : 1 ≤ loopFrames c n := by
  unfold loopFrames
  exact Nat.mul_pos (by omega) (by omega)

theorem t4Frames_pos (c : Cfg) (p0 : Pcd) : 1 ≤ t4Frames c p0 := by
  unfold t4Frames exchFrames
  have := loopFrames_pos c p0.nAck
  have h2 : 1 ≤ 13 * loopFrames c p0.nNak + 65539 * loopFrames c p0.nAck := by omega
  exact Nat.mul_pos (by omega) h2

theorem ops4_ok (t : Tag) (c : Cfg) (p0 : Pcd) (sticky : Bool) (hR : c.Repaired p0.nNak p0.nAck) (hm : 0 < p0.miu) :
    OpsOk (ops4 t c p0 sticky) (fun _ => True) InfoOk SafeA wframes (t4Frames c p0) where
  read := by
    intro known s _ hk
    have h := readNdef4_frames t c p0 sticky hR hm known hk s
    simp only [ops4]
    rcases hq : readNdef4 (isoX t c p0 sticky) known s with ⟨s', r⟩
    rw [hq] at h
    simp only at h
    refine ⟨trivial, h.2.1, ?_⟩
    rcases h.2.2 with h0 | ⟨d, i, hd, hs, hi⟩
    · subst h0; exact Or.inl rfl
    · subst hd; exact Or.inr ⟨d, i, rfl, hi, hs.safeA⟩
  present := by
    intro s _
    have h := isPresent4_spec t s
    have := t4Frames_pos c p0
    exact ⟨trivial, by simp only [ops4]; omega, h.1⟩

/-! ## sessions -/

/-- the interaction counter counts the log -/
def WOk (w : W) : Prop := w.n = w.log.length

theorem xchg_wok (t : Tag) (w : W) (c : Bytes) (h : WOk w) : WOk (xchg t w c).2 := by
  unfold WOk xchg at *; simp; exact h

theorem activateNxp_wok (t : Tag) (w : W) (h : WOk w) : WOk (activateNxp t w).2 := by
  unfold activateNxp
  simp only
  have h1 := xchg_wok t w [0x1A, 0x00] h
  have h2 := xchg_wok t (xchg t w [0x1A, 0x00]).2 [] h1
  have h3 := xchg_wok t (xchg t (xchg t w [0x1A, 0x00]).2 []).2 [0x60] h2
  have h4 := xchg_wok t (xchg t (xchg t (xchg t w [0x1A, 0x00]).2 []).2 [0x60]).2 [] h3
  split
  · exact h2
  · split
    · exact h2
    · split
      · exact h4
      · split
        · exact h3
        · split
          · exact h4
          · exact h3

/-- what `nfc.tag.activate` hands to the tag classes -/
def TagObjOk : TagObj → Prop
  | .t1 _ uid => uid ≠ []
  | .t2 _ => True
  | .t3 _ idm pmm sys => idm.length = 8 ∧ pmm.length = 8 ∧ sys < 65536
  | .t4 _ pcd lim => 0 < pcd.miu ∧ pcd.nNak ≤ 5 ∧ pcd.nAck ≤ 5 ∧ lim ≤ 966656

/-- activation data as the drivers deliver them: the lengths of `WellFramed`, SENSF_RES made of octets, and the
RID response of a Type 1 Tag platform has 6 octets -/
def WellFramedS (g : Target) : Prop :=
  WellFramed g ∧ IsBytes g.sensf ∧ (g.tech = 0 → ∀ s1, idxN g.sens 1 = .ok s1 → s1 &&& 0x0F = 0x0C → g.rid.length = 6)

theorem fscTable_ge (k : Nat) : 16 ≤ IsoDep.fscTable.getD k 256 := by
  unfold IsoDep.fscTable
  rcases k with _|_|_|_|_|_|_|_|_|k <;> simp

theorem mkPcd_ok (fsci fwi maxSend : Nat) (h : 16 ≤ maxSend) :
    0 < (IsoDep.mkPcd fsci fwi maxSend).miu ∧ (IsoDep.mkPcd fsci fwi maxSend).nNak ≤ 5 ∧
    (IsoDep.mkPcd fsci fwi maxSend).nAck ≤ 5 := by
  unfold IsoDep.mkPcd IsoDep.deriveFsc IsoDep.deriveRetry
  simp only
  have := fscTable_ge (if fsci > 8 then 8 else fsci)
  generalize IsoDep.fscTable.getD (if fsci > 8 then 8 else fsci) 256 = fsc at *
  refine ⟨?_, Nat.min_le_right _ _, Nat.min_le_right _ _⟩
  split <;> omega

theorem wtxLimit_le (fwi : Nat) : IsoDepR.wtxLimit fwi ≤ 966656 := by
  unfold IsoDepR.wtxLimit
  have : 2 ^ (14 - IsoDep.deriveFwi fwi) ≤ 2 ^ 14 := Nat.pow_le_pow_right (by omega) (by omega)
  have h2 : (59 : Nat) * 2 ^ 14 = 966656 := by decide
  have := Nat.mul_le_mul_left 59 this
  omega

/-- `nfc.tag.activate` on well-framed activation data, for a frontend that can send at least 16 octets: no
exception, at most 5 interactions, and a tag object (if any) set up so that its operations are safe -/
theorem activate_spec (t : Tag) (maxSend maxRecv : Nat) (hms : 16 ≤ maxSend) (g : Target) (w : W) (hw : WOk w)
    (hg : WellFramedS g) :
    ∃ o, (activate t maxSend maxRecv g w).1 = .ok o ∧ (∀ x, o = some x → TagObjOk x) ∧
      (activate t maxSend maxRecv g w).2.n ≤ w.n + 5 ∧ WOk (activate t maxSend maxRecv g w).2 := by
  obtain ⟨hwf, hsf, hrid⟩ := hg
  unfold activate
  by_cases h0 : g.tech = 0
  · rw [if_pos h0]
    obtain ⟨hs, hl, hd⟩ := hwf.1 h0
    obtain ⟨s1, hs1, -⟩ := idxN_lt g.sens 1 (by omega)
    obtain ⟨sl, hsl, -⟩ := idxN_lt g.sel 0 (by omega)
    obtain ⟨m, hm, -⟩ := idxN_lt g.sdd 0 hd
    rw [hs1]
    simp only
    split
    · rename_i h1
      have := hrid h0 s1 hs1 h1
      refine ⟨_, rfl, ?_, by simp, hw⟩
      intro x hx; cases hx
      simp only [TagObjOk, sliceN]
      intro h; have := congrArg List.length h; simp at this; omega
    · rw [hsl]
      simp only
      split
      · rw [hm]
        simp only
        split
        · have hn := activateNxp_n t w
          have hk := activateNxp_wok t w hw
          rcases hq : activateNxp t w with ⟨c, w'⟩
          rw [hq] at hn hk
          simp only at hn hk
          cases c with
          | some c => exact ⟨_, rfl, by intro x hx; cases hx; trivial, by simp only; omega, hk⟩
          | none =>
            have hk2 := xchg_wok t w' [] hk
            simp only [xchg] at hk2 ⊢
            cases t w'.n with
            | some x => exact ⟨_, rfl, by intro x hx; cases hx; trivial, by simp only; omega, hk2⟩
            | none => exact ⟨_, rfl, (by intro x hx; cases hx), by simp only; omega, hk2⟩
        · exact ⟨_, rfl, by intro x hx; cases hx; trivial, by simp, hw⟩
      · split
        · have hk := xchg_wok t w (if maxRecv < 256 then [0xE0, 0x70] else [0xE0, 0x80]) hw
          simp only [xchg] at hk ⊢
          cases t w.n with
          | none => exact ⟨_, rfl, (by intro x hx; cases hx), by simp, hk⟩
          | some ats =>
            refine ⟨_, rfl, ?_, by simp, hk⟩
            intro x hx; cases hx
            have := mkPcd_ok (atsParams ats).1 (atsParams ats).2 maxSend hms
            exact ⟨this.1, this.2.1, this.2.2, wtxLimit_le _⟩
        · exact ⟨_, rfl, (by intro x hx; cases hx), by simp, hw⟩
  · rw [if_neg h0]
    by_cases h1 : g.tech = 1
    · rw [if_pos h1]
      have hb := hwf.2.1 h1
      have hk := xchg_wok t w ([0x1D] ++ sliceN g.sensb 1 5 ++ [0x00, if maxRecv < 256 then 0x07 else 0x08, 0x01, 0x00]) hw
      simp only [xchg] at hk ⊢
      cases t w.n with
      | none => exact ⟨_, rfl, (by intro x hx; cases hx), by simp, hk⟩
      | some x =>
        simp only
        obtain ⟨a, ha, -⟩ := idxN_lt g.sensb 10 (by omega)
        obtain ⟨b, hb', -⟩ := idxN_lt g.sensb 11 (by omega)
        simp only [IsoDep.activateB, ha, hb', Py.bind_ok]
        refine ⟨_, rfl, ?_, by simp, hk⟩
        intro x hx; cases hx
        have := mkPcd_ok (a >>> 4) (b >>> 4) maxSend hms
        exact ⟨this.1, this.2.1, this.2.2, wtxLimit_le _⟩
    · rw [if_neg h1]
      have hf := hwf.2.2 h0 h1
      split
      · exact ⟨_, rfl, (by intro x hx; cases hx), by simp, hw⟩
      · obtain ⟨ic, hic, -⟩ := idxN_lt g.sensf 10 (by omega)
        rw [hic]
        simp only
        have h8a : (sliceN g.sensf 1 9).length = 8 := by simp [sliceN]; omega
        have h8b : (sliceN g.sensf 9 17).length = 8 := by simp [sliceN]; omega
        rcases hf with hf | hf
        · rw [if_neg (by omega)]
          exact ⟨_, rfl, by intro x hx; cases hx; exact ⟨h8a, h8b, by omega⟩, by simp, hw⟩
        · rw [if_pos (by omega)]
          have h17 : g.sensf[17]? = some (g.sensf[17]'(by omega)) := List.getElem?_eq_getElem (by omega)
          have h18 : g.sensf[18]? = some (g.sensf[18]'(by omega)) := List.getElem?_eq_getElem (by omega)
          have hb17 := hsf _ (List.getElem_mem (by omega : 17 < g.sensf.length))
          have hb18 := hsf _ (List.getElem_mem (by omega : 18 < g.sensf.length))
          have hv : unpackH (sliceN g.sensf 17 19) 0 = .ok (g.sensf[17] * 256 + g.sensf[18]) := by
            unfold unpackH sliceN
            simp [h17, h18]
          rw [hv]
          exact ⟨_, rfl, by intro x hx; cases hx; exact ⟨h8a, h8b, by omega⟩, by simp, hw⟩

/-- interactions one operation needs at most, whatever the tag type: the Type 4 frame bound for the largest
retry count (5) and the largest S(WTX) limit (59 * 2^14) -/
def opBound : Nat := (7 + 65536) * (13 * (7 * 966657) + 65539 * (7 * 966657))

theorem t4Frames_le (c : Cfg) (p0 : Pcd) (hl : c.lim ≤ 966656) (hn : p0.nNak ≤ 5) (ha : p0.nAck ≤ 5) :
    t4Frames c p0 ≤ opBound := by
  unfold t4Frames opBound exchFrames loopFrames
  have h1 : (p0.nNak + 2) * (c.lim + 1) ≤ 7 * 966657 := Nat.mul_le_mul (by omega) (by omega)
  have h2 : (p0.nAck + 2) * (c.lim + 1) ≤ 7 * 966657 := Nat.mul_le_mul (by omega) (by omega)
  exact Nat.mul_le_mul_left _ (Nat.add_le_add (Nat.mul_le_mul_left _ h1) (Nat.mul_le_mul_left _ h2))

/-- what a session returns: nothing (no tag object), or one result per operation, every returned NDEF object
with its octets taken from inside the data area -/
def SessOk (ops : List Op) : Option (String × List Res) → Prop
  | none => True
  | some (_, rs) => rs.length = ops.length ∧ ∀ r ∈ rs, ResOk SafeA r

theorem sessionOf_safe {σ κ : Type} {T : TagOps σ κ} {I : σ → Prop} {K : κ → Prop} {n : σ → Nat} {B : Nat}
    (h : OpsOk T I K SafeA n B) (cls : String) (wOf : σ → W) (hw : ∀ s, (wOf s).n = n s) (ops : List Op)
    (o : Obj σ κ) (ho : ObjOk I K SafeA o) (hB : B ≤ opBound) (h5 : n o.st ≤ 5) :
    (∃ r, (sessionOf cls wOf (runOps T ops o [])).1 = .ok r ∧ SessOk ops r) ∧
    (sessionOf cls wOf (runOps T ops o [])).2.n ≤ 5 + ops.length * opBound := by
  obtain ⟨rs, h1, h2, h3, -, h5'⟩ := runOps_safe h ops o [] ho (by intro r hr; cases hr)
  unfold sessionOf
  rw [h1]
  refine ⟨⟨_, rfl, ?_⟩, ?_⟩
  · simp only [SessOk, List.length_reverse]
    exact ⟨by simpa using h3, fun r hr => h2 r (List.mem_reverse.mp hr)⟩
  · simp only
    rw [hw]
    exact Nat.le_trans h5' (Nat.add_le_add h5 (Nat.mul_le_mul_left _ hB))

/-- A SESSION: `nfc.tag.activate` on well-framed activation data (frontend able to send 16 octets), then ANY
sequence of `tag.ndef` / `tag.ndef.has_changed` / `tag.is_present`, against ANY tag (an arbitrary sequence of
answers made of octets; for a Type 4 Tag at frame level), on the tree with the ISO-DEP repairs: nothing is
ever raised, every operation yields its result, every NDEF object returned has its octets from inside the data
area, and the number of interactions is at most 5 + (number of operations) * `opBound` -/
theorem session_safe {t : Tag} (hT : TagBytes t) (g : Target) (hg : WellFramedS g) (maxSend maxRecv : Nat)
    (hms : 16 ≤ maxSend) (F : Nat) (hF : 966657 ≤ F) (sticky : Bool) (ops : List Op) :
    (∃ r, (session t g maxSend maxRecv IsoDepR.Fix.all F sticky ops).1 = .ok r ∧ SessOk ops r) ∧
    (session t g maxSend maxRecv IsoDepR.Fix.all F sticky ops).2.n ≤ 5 + ops.length * opBound := by
  unfold session
  obtain ⟨o, h1, h2, h3, h4⟩ := activate_spec t maxSend maxRecv hms g W.init rfl hg
  rcases hq : activate t maxSend maxRecv g W.init with ⟨r, w⟩
  rw [hq] at h1 h3 h4
  simp only at h1 h3 h4
  subst h1
  have hw5 : w.n ≤ 5 := by simpa [W.init] using h3
  cases o with
  | none => exact ⟨⟨none, rfl, trivial⟩, by simp only; omega⟩
  | some x =>
    have hx := h2 x rfl
    cases x with
    | t1 cls uid =>
      exact sessionOf_safe (ops1_ok hT uid hx) cls id (fun _ => rfl) ops ⟨w, none⟩
        ⟨trivial, by intro d k h; cases h⟩ (by decide) hw5
    | t2 cls =>
      exact sessionOf_safe (ops2_ok hT) cls (·.w) (fun _ => rfl) ops ⟨{ w := w, sector := 0, alive := true }, none⟩
        ⟨trivial, by intro d k h; cases h⟩ (by decide) hw5
    | t3 cls idm pmm sys =>
      exact sessionOf_safe (ops3_ok hT idm (usesRequestResponse cls)) cls (·.w) (fun _ => rfl) ops
        ⟨{ w := w, idm := idm, pmm := pmm, sys := sys }, none⟩
        ⟨⟨⟨hx.1, hx.2.1⟩, hx.2.2⟩, by intro d k h; cases h⟩ (by decide) hw5
    | t4 cls pcd lim =>
      obtain ⟨hm, hn, ha, hl⟩ := hx
      have hR : IsoDepR.Cfg.Repaired { fx := IsoDepR.Fix.all, lim := lim, F := F } pcd.nNak pcd.nAck :=
        ⟨rfl, rfl, rfl, by simp only; omega, by simp only; omega, by simp only; omega, by simp only; omega⟩
      exact sessionOf_safe (ops4_ok t { fx := IsoDepR.Fix.all, lim := lim, F := F } pcd sticky hR hm) cls
        (fun s => ofWorld s.world) (fun _ => rfl) ops ⟨{ world := toWorld w, pni := pcd.pni, failed := none }, none⟩
        ⟨trivial, by intro d k h; cases h⟩ (t4Frames_le _ _ hl hn ha)
        (by simp only [wframes, frames, toWorld, List.length_reverse]; unfold WOk at h4; omega)

end NfcVerif.Adv
