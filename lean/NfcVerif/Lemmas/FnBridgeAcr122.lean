import NfcVerif.Gen.FnAcr122
import NfcVerif.Lemmas.FnBridgePn53xCommon
/-!
Helper lemmas for `Props/FnBridgeAcr122.lean` (`acr122.Chipset.ccid_xfr_block` / `command` against
`Model/HostFrame.lean`).
-/
namespace NfcVerif.FnBridge.Acr122
open NfcVerif NfcVerif.PyFn NfcVerif.HostFrame NfcVerif.FnBridge.HostLink

/-- the CCID header in front of `data`: `struct.pack("<BI5B", 0x6F, len(data), 0, 0, 0, 0, 0)` -/
theorem ccid_header (n : Nat) :
    pack [.B, .Ile, .B, .B, .B, .B, .B] [((111 : Nat) : Int), (n : Int), ((0 : Nat) : Int), ((0 : Nat) : Int),
      ((0 : Nat) : Int), ((0 : Nat) : Int), ((0 : Nat) : Int)]
      = if n < 4294967296 then .ok ([0x6F] ++ le32 n ++ [0, 0, 0, 0, 0]) else .error .struct := by
  simp only [pack_cons, pack_nil, packField_B, packField_Ile]
  by_cases h : n < 4294967296 <;> simp [h]

end NfcVerif.FnBridge.Acr122
