import NfcVerif.Model.AuthNdef
import NfcVerif.Lemmas.AuthHist
/-!
# `tag.ndef` after a successful authentication is MAC-verified data of that session
-/
namespace NfcVerif.AuthNdef
open NfcVerif NfcVerif.Mac NfcVerif.Auth NfcVerif.AuthCard NfcVerif.AuthHist NfcVerif.AuthHist.RW NRW

variable {σ α β : Type}

theorem nbind_apply (m : NRW σ α) (f : α → NRW σ β) (n : NSt σ) :
    (m >>= f) n = match m n with
      | (.ok a, n') => f a n'
      | (.error e, n') => (.error e, n') := rfl

theorem npure_apply (a : α) (n : NSt σ) : (pure a : NRW σ α) n = (.ok a, n) := rfl

theorem nbind_ok {m : NRW σ α} {f : α → NRW σ β} {n n'' : NSt σ} {b : β} :
    (m >>= f) n = (.ok b, n'') ↔ ∃ a n', m n = (.ok a, n') ∧ f a n' = (.ok b, n'') := by
  rw [nbind_apply]
  rcases h : m n with ⟨r, n'⟩
  cases r with
  | error e => simp
  | ok a =>
    constructor
    · intro h2; exact ⟨a, n', rfl, h2⟩
    · rintro ⟨a', n1, h1, h2⟩
      injection h1 with h1 h3
      injection h1 with h1
      subst h1 h3
      exact h2

theorem npure_ok {a b : α} {n n' : NSt σ} : (pure a : NRW σ α) n = (.ok b, n') ↔ a = b ∧ n = n' := by
  rw [npure_apply]
  constructor
  · intro h; injection h with h1 h2; injection h1 with h1; exact ⟨h1, h2⟩
  · rintro ⟨rfl, rfl⟩; rfl

theorem up_apply (m : RW σ α) (n : NSt σ) : up m n = ((m n.st).1, { n with st := (m n.st).2 }) := rfl

theorem up_ok {m : RW σ α} {n n' : NSt σ} {a : α} (h : up m n = (.ok a, n')) :
    m n.st = (.ok a, n'.st) ∧ n'.ndef = n.ndef ∧ n'.useMac = n.useMac ∧ n'.sys12fc = n.sys12fc := by
  rw [up_apply] at h
  injection h with h1 h2
  subst h2
  exact ⟨Prod.ext h1 rfl, rfl, rfl, rfl⟩

theorem get_apply (n : NSt σ) : (get : NRW σ (NSt σ)) n = (.ok n, n) := rfl
theorem fail_apply (e : Exc) (n : NSt σ) : (fail e : NRW σ α) n = (.error e, n) := rfl
theorem setNdef_apply (v : Option Bytes) (n : NSt σ) : (setNdef v : NRW σ Unit) n = (.ok (), { n with ndef := v }) := rfl
theorem setUseMac_apply (b : Bool) (n : NSt σ) : (setUseMac b : NRW σ Unit) n = (.ok (), { n with useMac := b }) := rfl

/-! ## methods that leave the public attributes and the attributes of `Model/AuthHist` alone -/

/-- whatever the outcome: `_ndef`, the NDEF read service, `_sk`/`_iv`/`_authenticated` are as before -/
def NKeeps (m : NRW σ α) : Prop :=
  ∀ n, (m n).2.useMac = n.useMac ∧ (m n).2.ndef = n.ndef ∧ (m n).2.st.rd = n.st.rd

theorem NKeeps.pure (a : α) : NKeeps (pure a : NRW σ α) := fun _ => ⟨rfl, rfl, rfl⟩
theorem NKeeps.fail (e : Exc) : NKeeps (fail e : NRW σ α) := fun _ => ⟨rfl, rfl, rfl⟩
theorem NKeeps.get : NKeeps (get : NRW σ (NSt σ)) := fun _ => ⟨rfl, rfl, rfl⟩
theorem NKeeps.setSys : NKeeps (setSys : NRW σ Unit) := fun _ => ⟨rfl, rfl, rfl⟩
theorem NKeeps.up {m : RW σ α} (h : KeepsRd m) : NKeeps (up m) := fun n => ⟨rfl, rfl, h n.st⟩

theorem NKeeps.bind {m : NRW σ α} {f : α → NRW σ β} (hm : NKeeps m) (hf : ∀ a, NKeeps (f a)) : NKeeps (m >>= f) := by
  intro n
  rw [nbind_apply]
  have h1 := hm n
  rcases e1 : m n with ⟨r1, t1⟩
  rw [e1] at h1
  cases r1 with
  | error e => exact h1
  | ok a =>
    obtain ⟨a1, a2, a3⟩ := hf a t1
    exact ⟨a1.trans h1.1, a2.trans h1.2.1, a3.trans h1.2.2⟩

theorem NKeeps.catchTag {m : NRW σ α} (hm : NKeeps m) : NKeeps (catchTag m) := by
  intro n
  have h1 := hm n
  unfold NRW.catchTag
  rcases e1 : m n with ⟨r1, t1⟩
  rw [e1] at h1
  cases r1 with
  | ok a => exact h1
  | error e => cases e <;> exact h1

theorem NKeeps.ite {c : Prop} [Decidable c] {m1 m2 : NRW σ α} (h1 : NKeeps m1) (h2 : NKeeps m2) :
    NKeeps (if c then m1 else m2) := by split <;> assumption

theorem KeepsRd.getRd : KeepsRd (getRd : RW σ Reader) := fun _ => rfl

section
variable (C : Cipher) (forget noneOk : Bool) (x : Air σ) (idm : Bytes)

theorem KeepsRd.readPlain (blocks : List Nat) : KeepsRd (readPlain x idm blocks) := by
  unfold AuthHist.readPlain
  exact KeepsRd.bind (KeepsRd.lift _) (fun c => KeepsRd.bind (KeepsRd.sendRecv x c) (fun _ => KeepsRd.lift _))

theorem KeepsRd.writePlain (data : Bytes) (b : Nat) : KeepsRd (writePlain x idm data b) := by
  unfold AuthHist.writePlain writeBlocks
  split
  · exact KeepsRd.lift _
  · exact KeepsRd.bind (KeepsRd.lift _) (fun c => KeepsRd.bind (KeepsRd.sendRecv x c) (fun _ => KeepsRd.lift _))

theorem KeepsRd.readMac (blocks : List Nat) : KeepsRd (readMac C x idm blocks) := by
  unfold AuthHist.readMac
  refine KeepsRd.bind KeepsRd.getRd (fun r => ?_)
  cases r.sess with
  | none => exact KeepsRd.lift _
  | some s => exact KeepsRd.bind (KeepsRd.lift _) (fun c => KeepsRd.bind (KeepsRd.sendRecv x c) (fun _ => KeepsRd.lift _))

theorem KeepsRd.writeMac (data : Bytes) (b : Nat) : KeepsRd (writeMac C x idm data b) := by
  unfold AuthHist.writeMac
  split
  · exact KeepsRd.lift _
  · refine KeepsRd.bind KeepsRd.getRd (fun r => ?_)
    cases r.sess with
    | none => exact KeepsRd.lift _
    | some s =>
      exact KeepsRd.bind (KeepsRd.lift _) (fun c0 => KeepsRd.bind (KeepsRd.sendRecv x c0) (fun _ =>
        KeepsRd.bind (KeepsRd.lift _) (fun c => KeepsRd.bind (KeepsRd.sendRecv x c) (fun _ => KeepsRd.lift _))))

theorem NKeeps.readService (blocks : List Nat) : NKeeps (readService C x idm blocks) := by
  unfold AuthNdef.readService
  refine NKeeps.bind NKeeps.get (fun n => ?_)
  split
  · exact NKeeps.up (KeepsRd.readMac C x idm blocks)
  · exact NKeeps.bind (NKeeps.up (KeepsRd.readPlain x idm blocks)) (fun _ => NKeeps.pure _)

theorem NKeeps.readData (blocks : List Nat) : NKeeps (readData C noneOk x idm blocks) := by
  unfold AuthNdef.readData
  refine NKeeps.bind (NKeeps.catchTag (NKeeps.readService C x idm blocks)) (fun r => ?_)
  match r with
  | none => exact NKeeps.pure _
  | some none => exact NKeeps.ite (NKeeps.pure _) (NKeeps.fail _)
  | some (some d) => exact NKeeps.pure _

theorem NKeeps.readAttr (liteS : Bool) : NKeeps (readAttr C noneOk x idm liteS) := by
  unfold AuthNdef.readAttr
  refine NKeeps.bind (NKeeps.readData C noneOk x idm [0]) (fun d => ?_)
  match d with
  | none => exact NKeeps.pure _
  | some d =>
    simp only
    cases parseAttr d with
    | none => exact NKeeps.pure _
    | some a =>
      refine NKeeps.bind NKeeps.get (fun n => ?_)
      split
      · refine NKeeps.bind ?_ (fun _ => NKeeps.pure _)
        split
        · exact NKeeps.bind (NKeeps.up (KeepsRd.readPlain x idm _)) (fun _ => NKeeps.pure _)
        · exact NKeeps.pure _
      · exact NKeeps.pure _

theorem NKeeps.readChunks (nbr last : Nat) : ∀ (fuel i : Nat) (acc : Bytes), NKeeps (readChunks C noneOk x idm nbr last fuel i acc)
  | 0, _, _ => NKeeps.pure _
  | fuel + 1, i, acc => by
    unfold AuthNdef.readChunks
    split
    · exact NKeeps.pure _
    · refine NKeeps.bind (NKeeps.readData C noneOk x idm _) (fun d => ?_)
      match d with
      | none => exact NKeeps.pure _
      | some d => exact NKeeps.readChunks nbr last fuel _ _

theorem NKeeps.pollNdef : NKeeps (pollNdef x idm) := by
  unfold AuthNdef.pollNdef
  refine NKeeps.bind (NKeeps.up (KeepsRd.sendRecv x _)) (fun rsp => ?_)
  refine NKeeps.ite (NKeeps.fail _) ?_
  refine NKeeps.bind (NKeeps.up (KeepsRd.lift _)) (fun l => ?_)
  refine NKeeps.ite (NKeeps.fail _) ?_
  refine NKeeps.bind (NKeeps.up (KeepsRd.lift _)) (fun c => ?_)
  exact NKeeps.ite (NKeeps.fail _) (NKeeps.ite (NKeeps.fail _) (NKeeps.ite (NKeeps.fail _) NKeeps.setSys))

theorem NKeeps.fetch (liteS : Bool) : NKeeps (fetch C noneOk x idm liteS) := by
  unfold AuthNdef.fetch
  refine NKeeps.bind NKeeps.get (fun n => ?_)
  refine NKeeps.bind (NKeeps.ite (NKeeps.pure _) (NKeeps.bind (NKeeps.catchTag (NKeeps.pollNdef x idm)) (fun _ => NKeeps.pure _)))
    (fun ok => ?_)
  refine NKeeps.ite (NKeeps.pure _) ?_
  refine NKeeps.bind (NKeeps.readAttr C noneOk x idm liteS) (fun a => ?_)
  match a with
  | none => exact NKeeps.pure _
  | some a =>
    simp only
    refine NKeeps.ite (NKeeps.pure _) (NKeeps.ite (NKeeps.pure _) (NKeeps.ite (NKeeps.pure _) ?_))
    refine NKeeps.bind (NKeeps.readChunks C noneOk x idm _ _ _ _ _) (fun d => ?_)
    match d with
    | none => exact NKeeps.pure _
    | some d => exact NKeeps.pure _

end

/-! ## what a fetch over `read_with_mac` delivers -/

section
variable (C : Cipher) (forget noneOk : Bool) (x : Air σ) (idm : Bytes)

/-- `c` is block data that `read_with_mac` accepted under the session `S` -/
def Chunk (S : Session) (c : Bytes) : Prop := ∃ blocks rsp, readWithMac C idm (some S) blocks rsp = .ok (some c)

/-- NDEF data every octet of which was covered by a MAC verified under the session `S`: the
attribute block `ab` that gives the length and every data block came out of `read_with_mac` -/
def VerifiedNdef (S : Session) (d : Bytes) : Prop :=
  ∃ (ab rsp0 : Bytes) (a : Attr) (chunks : List Bytes), readWithMac C idm (some S) [0] rsp0 = .ok (some ab) ∧ parseAttr ab = some a
    ∧ (∀ c ∈ chunks, Chunk C idm S c) ∧ d = (chunks.flatten).take a.ln

/-- same public attributes and same `AuthHist` attributes (the world and `tag.sys` may differ) -/
def Same (n n' : NSt σ) : Prop := n'.useMac = n.useMac ∧ n'.ndef = n.ndef ∧ n'.st.rd = n.st.rd

theorem same_of_keeps {m : NRW σ α} (h : NKeeps m) {n n' : NSt σ} {r : Py α} (e : m n = (r, n')) : Same n n' := by
  have := h n
  rw [e] at this
  exact this

theorem readData_mac {blocks : List Nat} {d : Bytes} {S : Session} {n n' : NSt σ}
    (hu : n.useMac = true) (hs : n.st.rd.sess = some S)
    (h : readData C noneOk x idm blocks n = (.ok (some d), n')) : Chunk C idm S d := by
  unfold readData at h
  obtain ⟨r, n1, h1, k1⟩ := nbind_ok.mp h
  match r, k1 with
  | none, k1 => have := (npure_ok.mp k1).1; cases this
  | some none, k1 =>
    cases noneOk
    · simp only [Bool.false_eq_true, if_false] at k1
      rw [fail_apply] at k1; injection k1 with k1; cases k1
    · simp only [if_true] at k1
      have := (npure_ok.mp k1).1; cases this
  | some (some d'), k1 =>
    obtain ⟨hd, _⟩ := npure_ok.mp k1
    injection hd with hd
    subst hd
    unfold NRW.catchTag at h1
    rcases e1 : readService C x idm blocks n with ⟨r1, t1⟩
    rw [e1] at h1
    cases r1 with
    | error e => cases e <;> simp at h1
    | ok v =>
      simp only at h1
      injection h1 with h1 _
      injection h1 with h1
      injection h1 with h1
      subst h1
      unfold readService at e1
      rw [nbind_apply, get_apply] at e1
      simp only [hu, if_true] at e1
      obtain ⟨hm, _⟩ := up_ok e1
      obtain ⟨sess, c, rsp, hsess, _, _, hv, _⟩ := readMac_some C x idm hm
      rw [hs] at hsess
      injection hsess with hsess
      subst hsess
      exact ⟨blocks, rsp, hv⟩

theorem readChunks_mac (nbr last : Nat) (S : Session) :
    ∀ (fuel i : Nat) (acc d : Bytes) (n n' : NSt σ), n.useMac = true → n.st.rd.sess = some S →
      readChunks C noneOk x idm nbr last fuel i acc n = (.ok (some d), n') →
      ∃ chunks : List Bytes, (∀ c ∈ chunks, Chunk C idm S c) ∧ d = acc ++ chunks.flatten
  | 0, _, acc, d, n, n', _, _, h => by
    unfold readChunks at h
    obtain ⟨hd, _⟩ := npure_ok.mp h
    injection hd with hd
    refine ⟨[], ?_, ?_⟩
    · intro c hc; cases hc
    · simp [hd]
  | fuel + 1, i, acc, d, n, n', hu, hs, h => by
    unfold readChunks at h
    split at h
    · obtain ⟨hd, _⟩ := npure_ok.mp h
      injection hd with hd
      refine ⟨[], ?_, ?_⟩
      · intro c hc; cases hc
      · simp [hd]
    · obtain ⟨r, n1, h1, k1⟩ := nbind_ok.mp h
      match r, h1, k1 with
      | none, _, k1 => have := (npure_ok.mp k1).1; cases this
      | some c0, h1, k1 =>
        have hc0 := readData_mac C noneOk x idm hu hs h1
        obtain ⟨s1, s2, s3⟩ := same_of_keeps (NKeeps.readData C noneOk x idm _) h1
        obtain ⟨chunks, hch, hd⟩ := readChunks_mac nbr last S fuel _ _ d n1 n' (s1.trans hu) (by rw [s3]; exact hs) k1
        refine ⟨c0 :: chunks, ?_, ?_⟩
        · intro c hc
          rcases List.mem_cons.mp hc with rfl | hc
          · exact hc0
          · exact hch c hc
        · rw [hd]; simp

theorem readAttr_mac {liteS : Bool} {a : Attr} {S : Session} {n n' : NSt σ}
    (hu : n.useMac = true) (hs : n.st.rd.sess = some S)
    (h : readAttr C noneOk x idm liteS n = (.ok (some a), n')) :
    ∃ ab rsp0 a0, readWithMac C idm (some S) [0] rsp0 = .ok (some ab) ∧ parseAttr ab = some a0 ∧ a.ln = a0.ln := by
  unfold readAttr at h
  obtain ⟨r, n1, h1, k1⟩ := nbind_ok.mp h
  match r, h1, k1 with
  | none, _, k1 => have := (npure_ok.mp k1).1; cases this
  | some ab, h1, k1 =>
    obtain ⟨blocks, rsp, hv⟩ := readData_mac C noneOk x idm hu hs h1
    -- the blocks of this read are `[0]`: restate with the command of the model
    have hv0 : ∃ rsp0, readWithMac C idm (some S) [0] rsp0 = .ok (some ab) := by
      unfold readData at h1
      obtain ⟨r', n2, h2, k2⟩ := nbind_ok.mp h1
      match r', k2 with
      | none, k2 => have := (npure_ok.mp k2).1; cases this
      | some none, k2 =>
        cases noneOk
        · simp only [Bool.false_eq_true, if_false] at k2
          rw [fail_apply] at k2; injection k2 with k2; cases k2
        · simp only [if_true] at k2
          have := (npure_ok.mp k2).1; cases this
      | some (some d'), k2 =>
        obtain ⟨hd, _⟩ := npure_ok.mp k2
        injection hd with hd
        subst hd
        unfold NRW.catchTag at h2
        rcases e1 : readService C x idm [0] n with ⟨r1, t1⟩
        rw [e1] at h2
        cases r1 with
        | error e => cases e <;> simp at h2
        | ok v =>
          simp only at h2
          injection h2 with h2 _
          injection h2 with h2
          injection h2 with h2
          subst h2
          unfold readService at e1
          rw [nbind_apply, get_apply] at e1
          simp only [hu, if_true] at e1
          obtain ⟨hm, _⟩ := up_ok e1
          obtain ⟨sess, c, rsp', hsess, _, _, hv', _⟩ := readMac_some C x idm hm
          rw [hs] at hsess
          injection hsess with hsess
          subst hsess
          exact ⟨rsp', hv'⟩
    obtain ⟨rsp0, hv0⟩ := hv0
    simp only at k1
    cases hp : parseAttr ab with
    | none =>
      rw [hp] at k1
      have := (npure_ok.mp k1).1; cases this
    | some a0 =>
      rw [hp] at k1
      simp only at k1
      obtain ⟨n2, n3, h3, k3⟩ := nbind_ok.mp k1
      rw [get_apply] at h3
      injection h3 with h3 h3'
      injection h3 with h3
      subst h3 h3'
      refine ⟨ab, rsp0, a0, hv0, hp, ?_⟩
      split at k3
      · obtain ⟨_, n4, _, k4⟩ := nbind_ok.mp k3
        obtain ⟨ha, _⟩ := npure_ok.mp k4
        injection ha with ha
        rw [← ha]
      · obtain ⟨ha, _⟩ := npure_ok.mp k3
        injection ha with ha
        rw [← ha]

/-- `_read_ndef_data` while the NDEF read service is `read_with_mac` under the session `S`: what
it returns is `VerifiedNdef` under `S` -/
theorem fetch_mac {liteS : Bool} {d : Bytes} {S : Session} {n n' : NSt σ}
    (hu : n.useMac = true) (hs : n.st.rd.sess = some S)
    (h : fetch C noneOk x idm liteS n = (.ok (some d), n')) : VerifiedNdef C idm S d := by
  unfold fetch at h
  obtain ⟨n0, n1, h1, k1⟩ := nbind_ok.mp h
  rw [get_apply] at h1
  injection h1 with h1 h1'
  injection h1 with h1
  subst h1 h1'
  obtain ⟨ok, n2, h2, k2⟩ := nbind_ok.mp k1
  have hsame2 : Same n n2 := by
    refine same_of_keeps (m := (if n.sys12fc = true then (pure true : NRW σ Bool) else
      catchTag (pollNdef x idm) >>= fun r => pure r.isSome)) ?_ h2
    exact NKeeps.ite (NKeeps.pure _) (NKeeps.bind (NKeeps.catchTag (NKeeps.pollNdef x idm)) (fun _ => NKeeps.pure _))
  obtain ⟨u2, _, r2⟩ := hsame2
  have hu2 : n2.useMac = true := u2.trans hu
  have hs2 : n2.st.rd.sess = some S := by rw [r2]; exact hs
  cases ok with
  | false =>
    simp only [Bool.not_false, if_true] at k2
    have := (npure_ok.mp k2).1; cases this
  | true =>
    simp only [Bool.not_true, Bool.false_eq_true, if_false] at k2
    obtain ⟨a, n3, h3, k3⟩ := nbind_ok.mp k2
    match a, h3, k3 with
    | none, _, k3 => have := (npure_ok.mp k3).1; cases this
    | some a, h3, k3 =>
      obtain ⟨ab, rsp0, a0, hv0, hp, hln⟩ := readAttr_mac C noneOk x idm hu2 hs2 h3
      obtain ⟨u3, _, r3⟩ := same_of_keeps (NKeeps.readAttr C noneOk x idm liteS) h3
      simp only at k3
      split at k3
      · have := (npure_ok.mp k3).1; cases this
      · split at k3
        · have := (npure_ok.mp k3).1; cases this
        · split at k3
          · have := (npure_ok.mp k3).1; cases this
          · obtain ⟨dd, n4, h4, k4⟩ := nbind_ok.mp k3
            match dd, h4, k4 with
            | none, _, k4 => have := (npure_ok.mp k4).1; cases this
            | some dd, h4, k4 =>
              obtain ⟨chunks, hch, hdd⟩ := readChunks_mac C noneOk x idm _ _ S _ _ _ _ _ _ (u3.trans hu2) (by rw [r3]; exact hs2) h4
              obtain ⟨hd, _⟩ := npure_ok.mp k4
              injection hd with hd
              refine ⟨ab, rsp0, a0, chunks, hv0, hp, hch, ?_⟩
              rw [← hd, hdd, hln]
              simp

end

/-! ## authenticate: the cache is dropped, the read service switched, the session is this call's -/

section
variable (C : Cipher) (forget noneOk : Bool) (x : Air σ) (idm : Bytes)

theorem extAuthS_true {s s' : St σ} (h : extAuthS C x idm s = (.ok true, s')) :
    s'.rd = ⟨s.rd.sess, true⟩ := by
  unfold extAuthS at h
  obtain ⟨_, s2, h2, k2⟩ := bind_ok.mp h
  rw [setAuthed_apply] at h2
  injection h2 with _ hs2
  subst hs2
  obtain ⟨_, s3, h3, k3⟩ := bind_ok.mp k2
  obtain ⟨_, _, _, _, _, _, _, _, _, _, _, _, hrd3⟩ := writeMac_ok C x idm h3
  obtain ⟨st, s4, h4, k4⟩ := bind_ok.mp k3
  cases st with
  | none => have := (pure_ok.mp k4).1; cases this
  | some d =>
    obtain ⟨_, _, _, _, _, _, _, hrd4⟩ := readMac_some C x idm h4
    simp only at k4
    obtain ⟨b, s5, h5, k5⟩ := bind_ok.mp k4
    obtain ⟨_, rfl⟩ := lift_ok.mp h5
    by_cases hb1 : b = 1
    · simp only [hb1, if_true] at k5
      obtain ⟨_, s6, h6, k6⟩ := bind_ok.mp k5
      rw [setAuthed_apply] at h6
      injection h6 with _ hs6
      subst hs6
      obtain ⟨_, rfl⟩ := pure_ok.mp k6
      simp only [hrd4, hrd3]
    · simp only [hb1, if_false] at k5
      have := (pure_ok.mp k5).1; cases this

/-- what a successful `authenticate()` leaves in the tag object: no cached NDEF object, the NDEF read
service is `read_with_mac`, the session is the one of THIS call's challenge -/
def AfterAuth (pw rc : Bytes) (n' : NSt σ) : Prop :=
  n'.ndef = none ∧ n'.useMac = true ∧
    ∃ key sk, liteKey pw = .ok key ∧ sessionKey C key rc = .ok sk ∧ n'.st.rd = ⟨some ⟨sk, rc.take 8⟩, true⟩

theorem authN_true {pw rc : Bytes} {n n' : NSt σ} (h : authN C forget x idm pw rc n = (.ok true, n')) :
    AfterAuth C pw rc n' := by
  unfold authN at h
  obtain ⟨_, n1, h1, k1⟩ := nbind_ok.mp h
  obtain ⟨_, n2, h2, k2⟩ := nbind_ok.mp k1
  obtain ⟨ok, n3, h3, k3⟩ := nbind_ok.mp k2
  cases ok with
  | false => have := (npure_ok.mp k3).1; cases this
  | true =>
    simp only [if_true] at k3
    obtain ⟨hm, _, _, _⟩ := up_ok h3
    obtain ⟨c1, c2, rsp1, rsp2, sess, t1, _, _, _, _, hla, hrd⟩ := authLite_true C forget x idm hm
    obtain ⟨key, sk, data, hkey, hsk, _, _, hsess⟩ := lite_auth_true C idm pw rc rsp1 rsp2 sess hla
    obtain ⟨_, n4, h4, k4⟩ := nbind_ok.mp k3
    rw [setUseMac_apply] at h4
    injection h4 with _ h4
    subst h4
    obtain ⟨_, n5, h5, k5⟩ := nbind_ok.mp k4
    rw [setNdef_apply] at h5
    injection h5 with _ h5
    subst h5
    obtain ⟨_, rfl⟩ := npure_ok.mp k5
    exact ⟨rfl, rfl, key, sk, hkey, hsk, by rw [← hsess]; exact hrd⟩

theorem authNS_true {pw rc : Bytes} {n n' : NSt σ} (h : authNS C forget x idm pw rc n = (.ok true, n')) :
    AfterAuth C pw rc n' := by
  unfold authNS at h
  obtain ⟨ok, n1, h1, k1⟩ := nbind_ok.mp h
  cases ok with
  | false =>
    simp only [Bool.not_false, if_true] at k1
    have := (npure_ok.mp k1).1; cases this
  | true =>
    simp only [Bool.not_true, Bool.false_eq_true, if_false] at k1
    obtain ⟨hnd, _, key, sk, hkey, hsk, hrd⟩ := authN_true C forget x idm h1
    obtain ⟨_, n2, h2, k2⟩ := nbind_ok.mp k1
    rw [setUseMac_apply] at h2
    injection h2 with _ h2
    subst h2
    obtain ⟨ok2, n3, h3, k3⟩ := nbind_ok.mp k2
    cases ok2 with
    | false => have := (npure_ok.mp k3).1; cases this
    | true =>
      simp only [if_true] at k3
      obtain ⟨hm, hn3, _, _⟩ := up_ok h3
      have hrd3 := extAuthS_true C x idm hm
      obtain ⟨_, n4, h4, k4⟩ := nbind_ok.mp k3
      rw [setUseMac_apply] at h4
      injection h4 with _ h4
      subst h4
      obtain ⟨_, rfl⟩ := npure_ok.mp k4
      refine ⟨hn3.trans hnd, rfl, key, sk, hkey, hsk, ?_⟩
      show n3.st.rd = _
      rw [hrd3]
      show (⟨n1.st.rd.sess, true⟩ : Reader) = _
      rw [hrd]

theorem auth_true {liteS : Bool} {pw rc : Bytes} {n n' : NSt σ} (h : auth C forget x idm liteS pw rc n = (.ok true, n')) :
    AfterAuth C pw rc n' := by
  unfold auth at h
  cases liteS
  · exact authN_true C forget x idm h
  · exact authNS_true C forget x idm h

end

/-! ## the invariant between a successful authentication and the next one -/

section
variable (C : Cipher) (forget noneOk : Bool) (x : Air σ) (idm : Bytes)

/-- the tag object is in the session `S`: NDEF reads go through `read_with_mac`, `_sk`/`_iv` are `S`,
and a cached NDEF object holds data that was MAC-verified under `S` -/
def J (S : Session) (n : NSt σ) : Prop :=
  n.useMac = true ∧ n.st.rd.sess = some S ∧ ∀ d, n.ndef = some d → VerifiedNdef C idm S d

/-- calls that neither start an authentication nor contain one -/
def Quiet : NOp σ → Prop
  | .ndef => True
  | .changed => True
  | .format _ => True
  | .low (.readMac _) => True
  | .low (.writeMac _ _) => True
  | .low (.readPlain _) => True
  | .low (.writePlain _ _) => True
  | .low (.world _) => True
  | _ => False

/-- the read service and the session stay, the cached object stays or is dropped -/
def Weak (m : NRW σ α) : Prop :=
  ∀ n, (m n).2.useMac = n.useMac ∧ (m n).2.st.rd = n.st.rd ∧ ((m n).2.ndef = n.ndef ∨ (m n).2.ndef = none)

theorem Weak.of_keeps {m : NRW σ α} (h : NKeeps m) : Weak m := fun n => ⟨(h n).1, (h n).2.2, Or.inl (h n).2.1⟩

theorem Weak.bind {m : NRW σ α} {f : α → NRW σ β} (hm : Weak m) (hf : ∀ a, Weak (f a)) : Weak (m >>= f) := by
  intro n
  rw [nbind_apply]
  have h1 := hm n
  rcases e1 : m n with ⟨r1, t1⟩
  rw [e1] at h1
  cases r1 with
  | error e => exact h1
  | ok a =>
    obtain ⟨a1, a2, a3⟩ := hf a t1
    refine ⟨a1.trans h1.1, a2.trans h1.2.1, ?_⟩
    rcases a3 with a3 | a3
    · rcases h1.2.2 with b | b
      · exact Or.inl (a3.trans b)
      · exact Or.inr (a3.trans b)
    · exact Or.inr a3

theorem Weak.dropNdef : Weak (setNdef none : NRW σ Unit) := fun _ => ⟨rfl, rfl, Or.inr rfl⟩

theorem Weak.J {m : NRW σ α} (h : Weak m) {S : Session} {n : NSt σ} (hj : J C idm S n) : J C idm S (m n).2 := by
  obtain ⟨a1, a2, a3⟩ := h n
  refine ⟨a1.trans hj.1, by rw [a2]; exact hj.2.1, ?_⟩
  intro d hd
  rcases a3 with a3 | a3
  · exact hj.2.2 d (by rw [← a3]; exact hd)
  · rw [a3] at hd; cases hd

theorem NKeeps.wipeLoop (v : Nat) : ∀ (k b : Nat), NKeeps (wipeLoop x idm v k b)
  | 0, _ => NKeeps.pure _
  | k + 1, b => by
    unfold AuthNdef.wipeLoop
    exact NKeeps.bind (NKeeps.up (KeepsRd.writePlain x idm _ _)) (fun _ => NKeeps.wipeLoop v k _)

theorem Weak.format (wipe : Option Nat) : Weak (format x idm wipe) := by
  unfold AuthNdef.format
  refine Weak.bind (Weak.of_keeps (NKeeps.up (KeepsRd.readPlain x idm _))) (fun mc => ?_)
  refine Weak.bind (Weak.of_keeps (NKeeps.up (KeepsRd.lift _))) (fun m0 => ?_)
  split
  · exact Weak.of_keeps (NKeeps.pure _)
  refine Weak.bind (Weak.of_keeps (NKeeps.up (KeepsRd.lift _))) (fun m3 => ?_)
  refine Weak.bind (Weak.of_keeps (NKeeps.up (KeepsRd.lift _))) (fun m2 => ?_)
  refine Weak.bind (Weak.of_keeps ?_) (fun r => ?_)
  · split
    · exact NKeeps.pure _
    · split
      · exact NKeeps.bind (NKeeps.up (KeepsRd.writePlain x idm _ _)) (fun _ => NKeeps.pure _)
      · exact NKeeps.pure _
  · match r with
    | none => exact Weak.of_keeps (NKeeps.pure _)
    | some mc =>
      simp only
      refine Weak.bind (Weak.of_keeps (NKeeps.up (KeepsRd.lift _))) (fun m1 => ?_)
      refine Weak.bind (Weak.of_keeps (NKeeps.up (KeepsRd.writePlain x idm _ _))) (fun _ => ?_)
      refine Weak.bind (Weak.of_keeps ?_) (fun _ => Weak.bind Weak.dropNdef (fun _ => Weak.of_keeps (NKeeps.pure _)))
      cases wipe with
      | none => exact NKeeps.pure _
      | some v => exact NKeeps.wipeLoop x idm v _ _

/-- a fetch in the session `S`: whatever comes back is verified under `S`, and the invariant's
other parts survive every outcome -/
theorem fetch_J {liteS : Bool} {S : Session} {n n1 : NSt σ} {r : Py (Option Bytes)} (hj : J C idm S n)
    (h : fetch C noneOk x idm liteS n = (r, n1)) :
    (∀ d, r = .ok (some d) → VerifiedNdef C idm S d) ∧ n1.useMac = true ∧ n1.st.rd.sess = some S ∧ n1.ndef = n.ndef := by
  obtain ⟨s1, s2, s3⟩ := same_of_keeps (NKeeps.fetch C noneOk x idm liteS) h
  refine ⟨?_, s1.trans hj.1, by rw [s3]; exact hj.2.1, s2⟩
  intro d hd
  subst hd
  exact fetch_mac C noneOk x idm hj.1 hj.2.1 h

/-- `tag.ndef` in the session `S` -/
theorem ndefProp_J {liteS : Bool} {S : Session} {n : NSt σ} (hj : J C idm S n) :
    J C idm S (ndefProp C noneOk x idm liteS n).2
    ∧ ∀ d, (ndefProp C noneOk x idm liteS n).1 = .ok (some d) → VerifiedNdef C idm S d := by
  unfold ndefProp
  rw [nbind_apply, get_apply]
  simp only
  cases hc : n.ndef with
  | some d0 =>
    simp only [npure_apply]
    exact ⟨hj, fun d hd => by injection hd with hd; injection hd with hd; subst hd; exact hj.2.2 _ hc⟩
  | none =>
    simp only
    rw [nbind_apply]
    rcases e1 : fetch C noneOk x idm liteS n with ⟨r1, n1⟩
    obtain ⟨hv, hu1, hs1, hn1⟩ := fetch_J C noneOk x idm hj e1
    cases r1 with
    | error e =>
      simp only
      exact ⟨⟨hu1, hs1, fun d hd => by rw [hn1, hc] at hd; cases hd⟩, fun d hd => by cases hd⟩
    | ok v =>
      simp only [nbind_apply, setNdef_apply, npure_apply]
      refine ⟨⟨hu1, hs1, ?_⟩, ?_⟩
      · intro d hd
        exact hv d (by rw [show v = some d from hd])
      · intro d hd
        injection hd with hd
        exact hv d (by rw [hd])

theorem hasChanged_J {liteS : Bool} {S : Session} {n : NSt σ} (hj : J C idm S n) :
    J C idm S (hasChanged C noneOk x idm liteS n).2 := by
  unfold hasChanged
  rw [nbind_apply]
  obtain ⟨hj1, _⟩ := ndefProp_J C noneOk x idm (liteS := liteS) hj
  rcases e0 : ndefProp C noneOk x idm liteS n with ⟨r0, n0⟩
  rw [e0] at hj1
  cases r0 with
  | error e => exact hj1
  | ok o =>
    simp only
    cases o with
    | none => exact hj1
    | some old =>
      simp only
      rw [nbind_apply]
      rcases e1 : fetch C noneOk x idm liteS n0 with ⟨r1, n1⟩
      obtain ⟨hv, hu1, hs1, hn1⟩ := fetch_J C noneOk x idm hj1 e1
      cases r1 with
      | error e =>
        simp only
        exact ⟨hu1, hs1, fun d hd => hj1.2.2 d (by rw [← hn1]; exact hd)⟩
      | ok v =>
        simp only [nbind_apply, setNdef_apply, npure_apply]
        exact ⟨hu1, hs1, fun d hd => hv d (by rw [show v = some d from hd])⟩

theorem KeepsRd.step_quiet {liteS : Bool} {op : Op σ} (hq : Quiet (NOp.low op)) : KeepsRd (step C forget x idm liteS op) := by
  cases op with
  | auth pw rc => cases hq
  | protect pw rp pf rc => cases hq
  | readMac blocks => exact KeepsRd.bind (KeepsRd.readMac C x idm blocks) (fun _ => KeepsRd.pure _)
  | writeMac data b =>
    simp only [step]
    split
    · exact KeepsRd.bind (KeepsRd.writeMac C x idm data b) (fun _ => KeepsRd.pure _)
    · exact KeepsRd.lift _
  | readPlain blocks => exact KeepsRd.bind (KeepsRd.readPlain x idm blocks) (fun _ => KeepsRd.pure _)
  | writePlain data b => exact KeepsRd.bind (KeepsRd.writePlain x idm data b) (fun _ => KeepsRd.pure _)
  | world f => intro s; rfl

/-- every quiet call keeps the tag object in its session -/
theorem nstep_J {liteS : Bool} {S : Session} {op : NOp σ} {n : NSt σ} (hq : Quiet op) (hj : J C idm S n) :
    J C idm S (nstep C forget noneOk x idm liteS op n).2 := by
  cases op with
  | auth pw rc => cases hq
  | protect pw rp pf rc => cases hq
  | ndef =>
    simp only [nstep]
    rw [nbind_apply]
    obtain ⟨hj1, _⟩ := ndefProp_J C noneOk x idm (liteS := liteS) hj
    rcases e0 : ndefProp C noneOk x idm liteS n with ⟨r0, n0⟩
    rw [e0] at hj1
    cases r0 <;> exact hj1
  | changed =>
    simp only [nstep]
    rw [nbind_apply]
    have hj1 := hasChanged_J C noneOk x idm (liteS := liteS) hj
    rcases e0 : hasChanged C noneOk x idm liteS n with ⟨r0, n0⟩
    rw [e0] at hj1
    cases r0 <;> exact hj1
  | format wipe =>
    exact Weak.J C idm (Weak.bind (Weak.format x idm wipe) (fun _ => Weak.of_keeps (NKeeps.pure _))) hj
  | low op =>
    exact Weak.J C idm (Weak.bind (Weak.of_keeps (NKeeps.up (KeepsRd.step_quiet C forget x idm hq)))
      (fun _ => Weak.of_keeps (NKeeps.pure _))) hj

/-! ## histories -/

theorem nrun_nil (liteS : Bool) (n : NSt σ) : nrun C forget noneOk x idm liteS [] n = ([], n) := rfl

theorem nrun_cons (liteS : Bool) (op : NOp σ) (ops : List (NOp σ)) (n : NSt σ) :
    nrun C forget noneOk x idm liteS (op :: ops) n =
      ((nstep C forget noneOk x idm liteS op n).1 :: (nrun C forget noneOk x idm liteS ops (nstep C forget noneOk x idm liteS op n).2).1,
       (nrun C forget noneOk x idm liteS ops (nstep C forget noneOk x idm liteS op n).2).2) := rfl

theorem nrun_append (liteS : Bool) (ops1 ops2 : List (NOp σ)) (n : NSt σ) :
    nrun C forget noneOk x idm liteS (ops1 ++ ops2) n =
      ((nrun C forget noneOk x idm liteS ops1 n).1 ++ (nrun C forget noneOk x idm liteS ops2 (nrun C forget noneOk x idm liteS ops1 n).2).1,
       (nrun C forget noneOk x idm liteS ops2 (nrun C forget noneOk x idm liteS ops1 n).2).2) := by
  induction ops1 generalizing n with
  | nil => simp [nrun_nil]
  | cons op ops ih => simp only [List.cons_append, nrun_cons, ih, List.cons_append]

theorem nrun_length (liteS : Bool) (ops : List (NOp σ)) (n : NSt σ) :
    (nrun C forget noneOk x idm liteS ops n).1.length = ops.length := by
  induction ops generalizing n with
  | nil => rfl
  | cons op ops ih => simp [nrun_cons, ih]

theorem nrun_result_at (liteS : Bool) (pre post : List (NOp σ)) (op : NOp σ) (n : NSt σ) :
    (nrun C forget noneOk x idm liteS (pre ++ op :: post) n).1[pre.length]?
      = some (nstep C forget noneOk x idm liteS op (nrun C forget noneOk x idm liteS pre n).2).1 := by
  rw [nrun_append, nrun_cons]
  simp only
  rw [List.getElem?_append_right (by rw [nrun_length]; exact Nat.le_refl _), nrun_length, Nat.sub_self]
  rfl

theorem nrun_J (liteS : Bool) (S : Session) (mid : List (NOp σ)) (hq : ∀ op ∈ mid, Quiet op) (n : NSt σ) (hj : J C idm S n) :
    J C idm S (nrun C forget noneOk x idm liteS mid n).2 := by
  induction mid generalizing n with
  | nil => exact hj
  | cons op ops ih =>
    rw [nrun_cons]
    exact ih (fun o ho => hq o (List.mem_cons_of_mem _ ho)) _ (nstep_J C forget noneOk x idm (hq op (List.mem_cons_self ..)) hj)

end

end NfcVerif.AuthNdef

namespace NfcVerif.TagCache
open NfcVerif

theorem crun_append (ops1 ops2 : List COp) (c : Option Bytes) :
    crun (ops1 ++ ops2) c = ((crun ops1 c).1 ++ (crun ops2 (crun ops1 c).2).1, (crun ops2 (crun ops1 c).2).2) := by
  induction ops1 generalizing c with
  | nil => simp [crun]
  | cons op ops ih => simp only [List.cons_append, crun, ih, List.cons_append]

theorem crun_length (ops : List COp) (c : Option Bytes) : (crun ops c).1.length = ops.length := by
  induction ops generalizing c with
  | nil => rfl
  | cons op ops ih => simp [crun, ih]

/-- after a successful `authenticate()` (or `protect()` / `format()` returning True) the next
`tag.ndef` reads the tag and hands out exactly what that read gave - whatever was cached before -/
theorem fresh_after_success (pre post : List COp) (c : Option Bytes) (f : Option Bytes) (op : COp)
    (hop : op = .auth (.ok true) ∨ op = .protect (.ok true) ∨ op = .format (.ok true)) :
    (crun (pre ++ op :: .ndef f :: post) c).1[pre.length + 1]? = some ⟨.ok f, true⟩ := by
  have : pre ++ op :: COp.ndef f :: post = (pre ++ [op]) ++ COp.ndef f :: post := by simp
  rw [this, crun_append]
  simp only
  rw [List.getElem?_append_right (by rw [crun_length]; simp), crun_length]
  have hc : (crun (pre ++ [op]) c).2 = none := by
    rw [crun_append]
    rcases hop with rfl | rfl | rfl <;> simp [crun, cstep]
  simp [crun, cstep, hc]

end NfcVerif.TagCache
