import NfcVerif.Lemmas.IsoDepV2Live
/-!
# ISO-DEP: the termination repairs are invisible to a card that keeps to the rules

`Model/IsoDepV2.lean` (the repaired initiator, `fixes/C08/0010 - 0012`) against `Model/IsoDep.lean` (the loops as they
were before): for the ISO/IEC 14443-4 card that asks for waiting time with a multiplier in 1..59, at most `W` times per
block with `W * WTXM ≤ max_wtxm_sum`, whose chained blocks are not empty and whose response has at most 65539 octets,
under EVERY fault script, the two `exchange` functions do the same - block by block (`xchgW_same_*`: no multiplier is
refused and the granted sum stays within the limit because the card's outstanding requests do; `blockLoop_same`: a
retransmission after R(ACK) is only ever due at `i ≤ n + 1`, because the R(NAK) before it was sent at `i ≤ n`;
`recvChain_same`: the guard at the head of the response loop never fires).  So a repair changes nothing for
rule-abiding cards, and everything `Props/C12AsFound.lean` states about the as-found loops holds for the repaired
ones against such cards as well.
-/
namespace NfcVerif.IsoDep2
open NfcVerif NfcVerif.IsoDep

/-- the outcome of the as-found `_exchange` seen as an outcome of the repaired one -/
def RxW.ofRx : Rx → RxW
  | .data b => .data b | .timeout => .timeout | .transmission => .transmission
  | .protocol => .protocol | .fuel => .fuel

def liftW {σ} (r : World σ × Rx) : World σ × RxW := (r.1, RxW.ofRx r.2)

/-- the reader state without the S(WTX) limit: the state of the as-found initiator -/
def Pcd.base (p : Pcd) : IsoDep.Pcd := { pni := p.pni, miu := p.miu, nNak := p.nNak, nAck := p.nAck, failed := p.failed }

theorem wtxmOf_single (a : Nat) : wtxmOf [a] = none := rfl
theorem isWtx_single (a : Nat) : isWtx [a] = false := rfl

theorem xchgW_same_step (cfg : CardCfg) (L : Nat) (R : Round) (hR : R.Ok cfg) (F : Nat)
    (hM : 1 ≤ wtxmMask cfg ∧ wtxmMask cfg ≤ 59)
    (ihEcho : ∀ (w : World Card) (s : Nat), Pending cfg R.post R.B w.card → wl w.card ≤ F →
      s + wl w.card * wtxmMask cfg ≤ L + wtxmMask cfg →
      xchgW (isoPeer cfg) L F s w (wtxBlock cfg) = liftW (IsoDep.xchgW (isoPeer cfg) F w (wtxBlock cfg)))
    (w : World Card) (out : Bytes) (sum : Nat) (c' : Card) (o : Bytes) (hrx : Card.rx cfg w.card out = (c', some o))
    (hans : (Done R.post R.B c' ∧ o = R.B) ∨ (Pending cfg R.post R.B c' ∧ o = wtxBlock cfg) ∨ (∃ a, o = [a]))
    (hP : Pending cfg R.post R.B c' → wl c' ≤ F ∧ sum + wl c' * wtxmMask cfg ≤ L) :
    xchgW (isoPeer cfg) L (F + 1) sum w out = liftW (IsoDep.xchgW (isoPeer cfg) (F + 1) w out) := by
  obtain ⟨hlegs, _, _⟩ := xchg_legs (isoPeer cfg) w out c' o hrx
  rw [xchgW_succ, IsoDep.xchgW_succ]
  rcases hlegs with ⟨hc, hr, hk⟩ | ⟨hc, hr, hk⟩ | ⟨hc, hr, hk⟩
  · simp only [hr, liftW, RxW.ofRx]
  · simp only [hr]
    rcases hans with ⟨hd, rfl⟩ | ⟨hp, rfl⟩ | ⟨a, rfl⟩
    · obtain ⟨a, t, hB, _, hBw⟩ := hR.hB
      simp only [wtxmOf_none hBw, hBw, Bool.false_eq_true, if_false, liftW, RxW.ofRx]
    · obtain ⟨hwlF, hsum⟩ := hP hp
      have hpos := pending_wl_pos hp
      have hge : wtxmMask cfg ≤ wl c' * wtxmMask cfg := Nat.le_mul_of_pos_left _ hpos
      simp only [wtxmOf_wtxBlock', isWtx_wtxBlock, if_true]
      rw [if_neg (by omega), if_neg (by omega)]
      exact ihEcho (w.xchg (isoPeer cfg) out).1 (sum + wtxmMask cfg) (by rw [hc]; exact hp) (by rw [hc]; exact hwlF)
        (by rw [hc]; omega)
    · simp only [wtxmOf_single, isWtx_single, Bool.false_eq_true, if_false, liftW, RxW.ofRx]
  · rcases hr with hr | hr | hr | ⟨hr, hp⟩
    · simp only [hr, liftW, RxW.ofRx]
    · simp only [hr, liftW, RxW.ofRx]
    · simp only [hr, wtxmOf, isWtx, Bool.false_eq_true, if_false, liftW, RxW.ofRx]
    · simp only [hr, liftW, RxW.ofRx]

theorem xchgW_same_echo (cfg : CardCfg) (L : Nat) (R : Round) (hR : R.Ok cfg)
    (hM : 1 ≤ wtxmMask cfg ∧ wtxmMask cfg ≤ 59) :
    ∀ (F : Nat) (w : World Card) (s : Nat), Pending cfg R.post R.B w.card → wl w.card ≤ F →
      s + wl w.card * wtxmMask cfg ≤ L + wtxmMask cfg →
      xchgW (isoPeer cfg) L F s w (wtxBlock cfg) = liftW (IsoDep.xchgW (isoPeer cfg) F w (wtxBlock cfg)) := by
  intro F
  induction F with
  | zero =>
    intro w s hp hF _
    have := pending_wl_pos hp
    omega
  | succ F ih =>
    intro w s hp hF hs
    obtain ⟨c', o, hrx, hdec, hans⟩ := rx_live_echo cfg R w.card hp
    have hmul : wl w.card * wtxmMask cfg = wl c' * wtxmMask cfg + wtxmMask cfg := by
      rw [← hdec, Nat.add_mul, Nat.one_mul]
    refine xchgW_same_step cfg L R hR F hM ih w (wtxBlock cfg) s c' o hrx ?_ (fun _ => ⟨by omega, by omega⟩)
    rcases hans with h | h
    · exact Or.inl h
    · exact Or.inr (Or.inl h)

theorem xchgW_same_first (cfg : CardCfg) (W L : Nat) (R : Round) (hR : R.Ok cfg) (hL : R.Live cfg W)
    (hM : 1 ≤ wtxmMask cfg ∧ wtxmMask cfg ≤ 59) (hWL : W * wtxmMask cfg ≤ L)
    (F : Nat) (hF : W + 1 ≤ F) (w : World Card) (out : Bytes) (h : First cfg R w.card out)
    (hw : Em cfg R.post R.B w.card → wl w.card ≤ W) :
    xchgW (isoPeer cfg) L F 0 w out = liftW (IsoDep.xchgW (isoPeer cfg) F w out) := by
  obtain ⟨F', rfl⟩ : ∃ F', F = F' + 1 := ⟨F - 1, by omega⟩
  obtain ⟨c', o, hrx, hwl', hans⟩ := rx_live_first cfg W R hR hL w.card out h hw
  have hsum : ∀ (hle : wl c' ≤ W), 0 + wl c' * wtxmMask cfg ≤ L := by
    intro hle
    have := Nat.mul_le_mul_right (wtxmMask cfg) hle
    omega
  have hP : Pending cfg R.post R.B c' → wl c' ≤ F' ∧ 0 + wl c' * wtxmMask cfg ≤ L := by
    intro hp
    have hle := hwl' (Or.inr hp)
    exact ⟨by omega, hsum hle⟩
  refine xchgW_same_step cfg L R hR F' hM (xchgW_same_echo cfg L R hR hM F') w out 0 c' o hrx ?_ hP
  rcases hans with hd | hp | ⟨hpre, hne, a, rfl, ha⟩
  · exact Or.inl hd
  · exact Or.inr (Or.inl hp)
  · exact Or.inr (Or.inr ⟨a, rfl⟩)


theorem blockLoop_same (cfg : CardCfg) (W L : Nat) (R : Round) (hR : R.Ok cfg) (hL : R.Live cfg W)
    (hM : 1 ≤ wtxmMask cfg ∧ wtxmMask cfg ≤ 59) (hWL : W * wtxmMask cfg ≤ L) (F n : Nat) (hF : W + 1 ≤ F) :
    ∀ (f i : Nat) (out : Bytes) (w : World Card), First cfg R w.card out →
      (Em cfg R.post R.B w.card → wl w.card ≤ W) → (out ≠ R.req → i ≤ n + 1) →
      blockLoop (isoPeer cfg) F L n R.resend R.req R.rty f i out w =
        IsoDep.blockLoop (isoPeer cfg) F n R.resend R.req R.rty f i out w := by
  intro f
  induction f with
  | zero => intro i out w _ _ _; rfl
  | succ f ih =>
    intro i out w hfirst hw hidx
    have hE := xchgW_same_first cfg W L R hR hL hM hWL F hF w out hfirst hw
    have hW := IsoDep.xchgW_live_first cfg W R hR hL F hF w out hfirst hw
    unfold blockLoop IsoDep.blockLoop
    rw [hE]
    generalize IsoDep.xchgW (isoPeer cfg) F w out = r1 at hW
    obtain ⟨w1, r⟩ := r1
    obtain ⟨_, hw1, alt⟩ := hW
    simp only [liftW] at hw1 alt ⊢
    have retry : ∀ (e : Exc), St cfg R w1.card →
        (if i ≤ n then blockLoop (isoPeer cfg) F L n R.resend R.req R.rty f (i + 1) R.rty w1 else (w1, Except.error e)) =
        (if i ≤ n then IsoDep.blockLoop (isoPeer cfg) F n R.resend R.req R.rty f (i + 1) R.rty w1 else (w1, Except.error e)) := by
      intro e hst
      by_cases hin : i ≤ n
      · rw [if_pos hin, if_pos hin]
        refine ih (i + 1) R.rty w1 ?_ hw1 (fun _ => by omega)
        rcases hst with h | h
        · exact Or.inl ⟨h, Or.inr rfl⟩
        · exact Or.inr ⟨h, rfl⟩
      · rw [if_neg hin, if_neg hin]
    rcases alt with ⟨_, ⟨rfl, hd⟩ | ⟨hne, hpre, a, rfl, ha⟩⟩ | ⟨_, hst, rfl | rfl | rfl | ⟨rfl, _⟩⟩
    · obtain ⟨a, t, hB, hres, _⟩ := hR.hB
      simp only [RxW.ofRx, hB, if_neg hres]
    · simp only [RxW.ofRx, if_pos ha]
      have hin : ¬ i > resendMax n := by
        have := hidx hne
        unfold resendMax
        omega
      rw [if_neg hin]
      exact ih (i + 1) R.req w1 (Or.inl ⟨hpre, Or.inl rfl⟩) hw1 (fun h => absurd rfl h)
    · exact retry _ hst
    · exact retry _ hst
    · exact retry _ hst
    · rfl


theorem sendChunks_same (cfg : CardCfg) (W F L nNak : Nat) (hF1 : W + 1 ≤ F)
    (hM : 1 ≤ wtxmMask cfg ∧ wtxmMask cfg ≤ 59) (hWL : W * wtxmMask cfg ≤ L)
    (hW1 : cfg.wtxAck ≤ W) (hW2 : cfg.wtxI ≤ W) (Lg : List Bytes) :
    ∀ (cs : List Bytes) (pni : Nat) (acc : Bytes) (w : World Card), cs ≠ [] → pni < 2 →
      w.card.bn = (pni + 1) % 2 → w.card.rxbuf = acc → w.card.log = Lg →
      sendChunks (isoPeer cfg) F L nNak cs pni w = IsoDep.sendChunks (isoPeer cfg) F nNak cs pni w := by
  intro cs
  induction cs with
  | nil => intro _ _ _ h; exact absurd rfl h
  | cons c rest ih =>
    intro pni acc w _ hp hb hr hl
    cases rest with
    | nil =>
      have hR := cmdRoundLast_ok cfg hp acc Lg c
      have hLv := cmdRoundLast_live cfg W hW2 hp acc Lg c
      have hsame := blockLoop_same cfg W L (cmdRoundLast cfg pni acc Lg c) hR hLv hM hWL F nNak hF1 F 1 ((0x02 ||| pni) :: c) w
        (Or.inl ⟨⟨hb, hr, hl⟩, Or.inl rfl⟩) (pre_not_em hLv ⟨hb, hr, hl⟩) (fun h => absurd rfl h)
      simp only at hsame
      unfold sendChunks IsoDep.sendChunks
      simp only [List.isEmpty_nil, Bool.not_true, Bool.false_eq_true, if_false]
      rw [hsame]
      generalize IsoDep.blockLoop _ _ _ _ _ _ _ _ _ _ = r1
      obtain ⟨w1, res⟩ := r1
      cases res with
      | error e => rfl
      | ok d => cases d <;> rfl
    | cons c2 rest2 =>
      have hR := cmdRoundMore_ok cfg hp acc Lg c
      have hLv := cmdRoundMore_live cfg W hW1 hp acc Lg c
      have hsame := blockLoop_same cfg W L (cmdRoundMore pni acc Lg c) hR hLv hM hWL F nNak hF1 F 1 ((0x12 ||| pni) :: c) w
        (Or.inl ⟨⟨hb, hr, hl⟩, Or.inl rfl⟩) (pre_not_em hLv ⟨hb, hr, hl⟩) (fun h => absurd rfl h)
      have hpost := IsoDep.blockLoop_post cfg (cmdRoundMore pni acc Lg c) hR (fun _ => True) ⟨trivial, trivial, trivial⟩
        F nNak F 1 ((0x12 ||| pni) :: c) w (Or.inl ⟨⟨hb, hr, hl⟩, Or.inl rfl⟩) (fun _ _ => trivial)
      simp only at hsame hpost
      unfold sendChunks IsoDep.sendChunks
      simp only [List.isEmpty_cons, Bool.not_false, if_true]
      rw [hsame]
      generalize IsoDep.blockLoop _ _ _ _ _ _ _ _ _ _ = r1 at hpost ⊢
      obtain ⟨w1, res⟩ := r1
      obtain ⟨hl1, _⟩ := hpost
      cases res with
      | error e => rfl
      | ok d =>
        obtain ⟨hd, rfl⟩ := hl1
        simp only [ack_and1 hp, ack_andFE hp, ne_eq, not_true_eq_false, if_false, if_true]
        have hcore := hd.1
        simp only [Card.core, Core.mk.injEq] at hcore
        exact ih ((pni + 1) % 2) (acc ++ c) w1 (by simp) (tog_lt pni)
          (by rw [tog_tog hp]; exact hcore.1) hcore.2.1 hcore.2.2.2

theorem recvChain_same (cfg : CardCfg) (W F L nAck : Nat) (hF1 : W + 1 ≤ F)
    (hM : 1 ≤ wtxmMask cfg ∧ wtxmMask cfg ≤ 59) (hWL : W * wtxmMask cfg ≤ L)
    (hW : cfg.wtxChain ≤ W) (hchunk : 1 ≤ cfg.chunk) (L' : List Bytes) :
    ∀ (f pni : Nat) (data resp : Bytes) (w : World Card) (T : Bytes) (more : Bool) (inf : Bytes),
      pni < 2 → data = iBlock ((pni + 1) % 2) more inf → (more = true ↔ T ≠ []) → (more = true → inf ≠ []) →
      Done ⟨(pni + 1) % 2, [], T, L'⟩ data w.card → resp.length + T.length ≤ 65539 →
      recvChain (isoPeer cfg) F L nAck f pni data resp w = IsoDep.recvChain (isoPeer cfg) F nAck f pni data resp w := by
  intro f
  induction f with
  | zero => intro _ _ _ _ _ _ _ _ _ _ _ _ _; rfl
  | succ f ih =>
    intro pni data resp w T more inf hp hdata hmore hinf hd htot
    subst hdata
    unfold recvChain IsoDep.recvChain
    simp only [iBlock_cons]
    cases more with
    | false =>
      have h10 := (ihead_and10 (tog_lt pni) false).mpr rfl
      simp only [Bool.false_eq_true, if_false] at h10 ⊢
      simp only [h10, if_true]
    | true =>
      have h10 : ¬ (((if true = true then 0x12 else 0x02) ||| ((pni + 1) % 2)) &&& 0x10 = 0) := by
        intro h; exact absurd ((ihead_and10 (tog_lt pni) true).mp h) (by simp)
      simp only [if_true] at h10 ⊢
      simp only [h10, if_false]
      have hT : T ≠ [] := hmore.mp rfl
      have hTl : 0 < T.length := by
        cases T with
        | nil => exact absurd rfl hT
        | cons _ _ => simp
      have hguard : ¬ (inf = [] ∨ resp.length > 65538) := by
        intro h
        rcases h with h | h
        · exact hinf rfl h
        · omega
      rw [if_neg hguard]
      have hR := ackRound_ok cfg hp T hT L'
      have hLv := ackRound_live cfg W hW hp T hT L'
      have hsame := blockLoop_same cfg W L (ackRound cfg pni T L') hR hLv hM hWL F nAck hF1 F 1 [0xA2 ||| pni] w
        (Or.inl ⟨hd.1, Or.inl rfl⟩) (pre_not_em hLv hd.1) (fun h => absurd rfl h)
      have hpost := IsoDep.blockLoop_post cfg (ackRound cfg pni T L') hR (fun _ => True) ⟨trivial, trivial, trivial⟩
        F nAck F 1 [0xA2 ||| pni] w (Or.inl ⟨hd.1, Or.inl rfl⟩) (fun _ _ => trivial)
      simp only at hsame hpost ⊢
      rw [hsame]
      generalize IsoDep.blockLoop _ _ _ _ _ _ _ _ _ _ = r1 at hpost ⊢
      obtain ⟨w1, res⟩ := r1
      obtain ⟨hl1, _⟩ := hpost
      cases res with
      | error e => rfl
      | ok d =>
        obtain ⟨hd1, rfl⟩ := hl1
        simp only [iBlock_cons]
        simp only [ihead_and1 hp, ne_eq, not_true_eq_false, if_false]
        exact ih ((pni + 1) % 2)
          (((if decide (cfg.chunk < T.length) = true then 18 else 2) ||| pni) :: T.take cfg.chunk)
          (resp ++ T.take cfg.chunk) w1 (T.drop cfg.chunk) (decide (cfg.chunk < T.length)) (T.take cfg.chunk)
          (tog_lt pni) (by simp [tog_tog hp, iBlock_cons]) (by simp [List.drop_eq_nil_iff])
          (by
            intro hm0 h0
            have hl0 := congrArg List.length h0
            simp only [List.length_take, List.length_nil] at hl0
            omega)
          (by simpa [tog_tog hp, iBlock_cons] using hd1)
          (by simp only [List.length_append, List.length_take, List.length_drop]; omega)


/-- the state of the repaired initiator that belongs to a state of the as-found one -/
def Pcd.ofBase (b : IsoDep.Pcd) (wlim : Nat) : Pcd :=
  { pni := b.pni, miu := b.miu, nNak := b.nNak, nAck := b.nAck, wlim := wlim, failed := b.failed }

/-- the as-found result seen as a result of the repaired initiator -/
def liftX {σ} (wlim : Nat) (r : World σ × IsoDep.Pcd × Py Bytes) : World σ × Pcd × Py Bytes :=
  (r.1, Pcd.ofBase r.2.1 wlim, r.2.2)

theorem exchangeCmd_same (cfg : CardCfg) (W F : Nat) (pcd : Pcd) (cmd : Bytes) (w : World Card) (m : Nat)
    (hmiu : pcd.miu = (m : Int)) (hm : 1 ≤ m) (hcmd : cmd ≠ []) (hp : pcd.pni < 2) (hs : Sync pcd.pni w.card)
    (hchunk : 1 ≤ cfg.chunk) (hW1 : cfg.wtxAck ≤ W) (hW2 : cfg.wtxI ≤ W) (hW3 : cfg.wtxChain ≤ W)
    (hM : 1 ≤ wtxmMask cfg ∧ wtxmMask cfg ≤ 59) (hWL : W * wtxmMask cfg ≤ pcd.wlim)
    (hrsp : (cfg.app w.card.log.length cmd).length ≤ 65539) (hF1 : W + 1 ≤ F) :
    exchangeCmd (isoPeer cfg) F pcd cmd w = liftX pcd.wlim (IsoDep.exchangeCmd (isoPeer cfg) F pcd.base cmd w) := by
  have h0 : ¬ pcd.miu = 0 := by omega
  have h1 : ¬ (pcd.miu < 0 ∨ cmd = []) := by
    intro h; rcases h with h | h
    · omega
    · exact hcmd h
  have ht : pcd.miu.toNat = m := by omega
  obtain ⟨hfl, hne, hlen⟩ := chunks_spec m hm cmd hcmd
  have hsend := IsoDep.sendChunks_post cfg m F pcd.nNak hm w.card.log (fun _ => True) (fun _ _ => trivial)
    (chunks m cmd) pcd.pni [] w hne hp hs.1 hs.2 rfl hlen (fun _ _ => trivial)
  have hsame := sendChunks_same cfg W F pcd.wlim pcd.nNak hF1 hM hWL hW1 hW2 w.card.log (chunks m cmd) pcd.pni [] w hne hp
    hs.1 hs.2 rfl
  unfold exchangeCmd IsoDep.exchangeCmd
  simp only [Pcd.base, h0, h1, if_false, ht]
  rw [hsame]
  rw [hfl, List.nil_append] at hsend
  generalize IsoDep.sendChunks _ _ _ _ _ _ = r1 at hsend ⊢
  obtain ⟨w1, pni1, res⟩ := r1
  obtain ⟨_, hres⟩ := hsend
  cases res with
  | error e => rfl
  | ok d =>
    obtain ⟨hp1, hd, hdone⟩ := hres
    simp only at hp1 hd hdone ⊢
    have hrl := recvChain_same cfg W F pcd.wlim pcd.nAck hF1 hM hWL hW3 hchunk (w.card.log ++ [cmd])
      F pni1 d (d.drop 1) w1 ((cfg.app w.card.log.length cmd).drop cfg.chunk)
      (decide (cfg.chunk < (cfg.app w.card.log.length cmd).length)) ((cfg.app w.card.log.length cmd).take cfg.chunk)
      hp1 hd (by simp [List.drop_eq_nil_iff])
      (by
        intro hm0 h0
        have hl0 := congrArg List.length h0
        simp only [List.length_take, List.length_nil, decide_eq_true_eq] at hl0 hm0
        omega)
      hdone
      (by rw [hd]; simp only [iBlock_cons, List.drop_succ_cons, List.drop_zero, List.length_take, List.length_drop]; omega)
    rw [hrl]
    rfl

/-- **The termination repairs are invisible to a card that keeps to the rules.**  Against the ISO/IEC 14443-4 card within
`CardOk` terms (S(WTX) multiplier 1..59, at most `W` requests per block with `W * WTXM ≤ max_wtxm_sum`, non-empty
chained blocks, response of at most 65539 octets), for every fault script, command and session state: the repaired
`exchange` does exactly what the as-found `exchange` of `Model/IsoDep.lean` does - same blocks, same card state, same
result, same block number and error flag. -/
theorem exchange_same (cfg : CardCfg) (W F : Nat) (pcd : Pcd) (cmd : Bytes) (w : World Card)
    (hm : 0 < pcd.miu) (hcmd : cmd ≠ []) (hp : pcd.pni < 2) (hs : pcd.failed = none → Sync pcd.pni w.card)
    (hchunk : 1 ≤ cfg.chunk) (hW1 : cfg.wtxAck ≤ W) (hW2 : cfg.wtxI ≤ W) (hW3 : cfg.wtxChain ≤ W)
    (hM : 1 ≤ wtxmMask cfg ∧ wtxmMask cfg ≤ 59) (hWL : W * wtxmMask cfg ≤ pcd.wlim)
    (hrsp : (cfg.app w.card.log.length cmd).length ≤ 65539) (hF1 : W + 1 ≤ F) :
    exchange (isoPeer cfg) F pcd cmd w = liftX pcd.wlim (IsoDep.exchange (isoPeer cfg) F pcd.base cmd w) := by
  unfold exchange IsoDep.exchange
  cases hf : pcd.failed with
  | some e =>
    simp only [Pcd.base, hf, liftX, Pcd.ofBase]
    cases pcd
    simp_all
  | none =>
    have hcs := exchangeCmd_same cfg W F pcd cmd w pcd.miu.toNat (by omega) (by omega) hcmd hp (hs hf) hchunk hW1 hW2 hW3
      hM hWL hrsp hF1
    simp only [show pcd.base.failed = none from hf]
    rw [hcs]
    generalize IsoDep.exchangeCmd (isoPeer cfg) F pcd.base cmd w = r
    obtain ⟨w1, p1, res⟩ := r
    cases res with
    | ok x => rfl
    | error e => cases e <;> rfl

end NfcVerif.IsoDep2
