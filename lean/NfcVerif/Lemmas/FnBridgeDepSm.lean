import NfcVerif.Gen.FnDepSm
import NfcVerif.Model.FnDepSmRef
import NfcVerif.Props.FnBridgeDepPdu
/-!
Auxiliary definitions for `Props/FnBridgeDepSm.lean`: the transition functions of `Model/NfcDep.lean` rebuilt from
regenerated pieces (`Gen/FnDepSm.lean`, `Gen/FnDepPdu.lean`).

Every condition, every arithmetic expression, every PDU that is put on the air and every loop range in the `..Gen`
functions below is a call of a regenerated definition.  Hand-written remain

* the control skeleton: the order of the pieces, which exception class leads to which recovery
  (`except TimeoutError` -> `request_attention` + `continue`, `except TransmissionError` -> `request_retransmission` +
  `break`, `except CommunicationError: continue` = `isComm`), what a `Py Unit` check that passed is followed by;
* the air `xfer` (no source counterpart: it stands for `send_req_recv_res` = encode, `clf.exchange`, decode);
* `recPdu`: the reading of a PDU record `((fmt, nad flag, did flag, pni), did, nad, data)` (the attributes stored by
  `__init__`) as the model's `Pdu`, written the way `DEP_REQ_RES.encode` reads the object (DID / NAD octet only when the
  flag is set);
* `Clock`: the link between the model's abstract `expired` flag and the regenerated deadline arithmetic.
-/
namespace NfcVerif.FnBridge.DepSm
open NfcVerif NfcVerif.PyFn NfcVerif.NfcDep

/-- a PDU object of the translator: `(pfb, did, nad, data)` with `pfb = (fmt, nad flag, did flag, pni)`; `data=None` is
stored as the empty string -/
abbrev Rec := (Int × Bool × Bool × Int) × Option Int × Option Int × Bytes

/-- the model's PDU for a PDU object, read as `encode()` reads it -/
def recPdu (r : Rec) : Pdu :=
  .dep r.1.1.toNat r.1.2.2.2.toNat (if r.1.2.2.1 then r.2.1.map Int.toNat else none)
    (if r.1.2.1 then r.2.2.1.map Int.toNat else none) r.2.2.2

/-- `self.did` / `self.nad` as the translator sees them -/
def oi (o : Option Nat) : Option Int := o.map (fun (n : Nat) => (n : Int))

theorem oi_ne_none (o : Option Nat) : decide (oi o ≠ none) = o.isSome := by cases o <;> rfl
theorem oi_toNat (o : Option Nat) : (oi o).map Int.toNat = o := by cases o <;> simp [oi]

/-- the PDU type of a received PDU (`res.pfb.fmt`); the model's functions are only applied to DEP PDUs -/
def fmtOf (p : Pdu) : Nat := (p.fmt?).getD 0

/-! ## the clock -/

/-- what `send_dep_req_recv_dep_res` knows about time: the response waiting time, the deadline of the running call and
the time at which an air state is observed -/
structure Clock (σ : Type) where
  rwt : Int
  deadline : Int
  now : Air σ → Int

/-- the model's `expired` flag says that the deadline of the running call has passed -/
def Clock.Ok {σ} (k : Clock σ) : Prop := 0 < k.rwt ∧ ∀ a, (k.deadline ≤ k.now a ↔ a.expired = true)

/-- an inhabitant: the deadline is time 1, an expired air is observed at time 1, any other at time 0 -/
def Clock.demo (σ : Type) : Clock σ := ⟨1, 1, fun a => if a.expired then 1 else 0⟩

theorem Clock.demo_ok (σ : Type) : (Clock.demo σ).Ok := by
  refine ⟨by show (0 : Int) < 1; omega, fun a => ?_⟩
  simp only [Clock.demo]
  cases a.expired <;> simp

section initiator
variable {σ : Type} (P : Peer σ) (c : Cfg)

/-- ATN(): the attention request -/
def atnReq : Pdu := recPdu (Gen.Fn.smi_atn (oi c.idid))

/-- `nak = NAK(self.pni, self.did, self.nad)` through the regenerated call site and the regenerated builder -/
def nakReq (pni : Nat) : Pdu :=
  let args := Gen.Fn.dep_ini_nak_call (pni : Int) (oi c.idid) (oi c.inad) (fun p d n => (p, d, n))
  recPdu (Gen.Fn.smi_nak args.1 args.2.1 args.2.2 (pni : Int))

/-- `request_attention(self, n_retry_atn, rwt, deadline)`; the list is `range(n_retry_atn)` -/
def reqAttentionGen (k : Clock σ) : List Int → Air σ → Air σ × Py Unit
  | [], a => (a, Gen.Fn.smi_atn_fail)
  | _ :: is, a =>
    match Gen.Fn.smi_atn_timeout k.rwt k.deadline (k.now a) with
    | .error e => (a, .error e)
    | .ok _ =>
      match xfer P a (atnReq c) with
      | (a', .error e) => if isComm e then reqAttentionGen k is a' else (a', .error e)
      | (a', .ok (.dep fmt _ _ _ _)) => (a', Gen.Fn.dep_ini_atn_chk (fmt : Int))
      | (a', .ok _) => (a', .error .attr)

/-- `request_retransmission(self, n_retry_nak, rwt, deadline)`; `reqfmt` is `req.pfb.fmt` of the outstanding request.
Falling off the end of the function would hand None to the caller (`res.pfb` -> AttributeError). -/
def reqRetransGen (k : Clock σ) (pni reqfmt : Nat) : List Int → Air σ → Air σ × Py Pdu
  | [], a => (a, match Gen.Fn.smi_nak_fail with | .error e => .error e | .ok _ => .error .attr)
  | _ :: is, a =>
    match Gen.Fn.smi_nak_timeout k.rwt k.deadline (k.now a) with
    | .error e => (a, .error e)
    | .ok _ =>
      match xfer P a (nakReq c pni) with
      | (a', .error e) => if isComm e then reqRetransGen k pni reqfmt is a' else (a', .error e)
      | (a', .ok (.dep fmt rp did nad data)) =>
        (match Gen.Fn.dep_ini_retrans_chk (fmt : Int) (reqfmt : Int) with
         | .error e => (a', .error e)
         | .ok _ => (a', .ok (.dep fmt rp did nad data)))
      | (a', .ok _) => (a', .error .attr)

/-- the NACK check behind the loop of `send_dep_req_recv_dep_res` -/
def nakCheckGen (a : Air σ) (res : Pdu) : Air σ × Py Pdu :=
  match res with
  | .dep fmt _ _ _ _ =>
    (match Gen.Fn.dep_ini_nak_chk (fmt : Int) with
     | .error e => (a, .error e)
     | .ok _ => (a, .ok res))
  | _ => (a, .error .attr)

/-- the `while True` loop of `send_dep_req_recv_dep_res` -/
def sendDepLoopGen (k : Clock σ) (pni : Nat) (req : Pdu) : Nat → Air σ → Air σ × Py Pdu
  | 0, a => (a, .error .outOfFuel)
  | fuel+1, a =>
    match Gen.Fn.smi_timeout k.rwt k.deadline (k.now a) with
    | .error e => (a, .error e)
    | .ok _ =>
      match xfer P a req with
      | (a1, .ok res) => nakCheckGen a1 res
      | (a1, .error .timeout) =>
        (match reqAttentionGen P c k (Gen.Fn.smi_atn_range Gen.Fn.smi_n_atn) a1 with
         | (a2, .ok ()) => sendDepLoopGen k pni req fuel a2
         | (a2, .error e) => (a2, .error e))
      | (a1, .error .transmission) =>
        (match reqRetransGen P c k pni (fmtOf req) (Gen.Fn.smi_nak_range Gen.Fn.smi_n_nak) a1 with
         | (a2, .ok res) => nakCheckGen a2 res
         | (a2, .error e) => (a2, .error e))
      | (a1, .error e) => (a1, .error e)

/-- `send_dep_req_recv_dep_res(req, rwt, timeout)`: `deadline = time.time() + timeout` is a fresh deadline
(`deadline_fresh`), the model resets `expired` -/
def sendDepGen (k : Clock σ) (fuel pni : Nat) (a : Air σ) (req : Pdu) : Air σ × Py Pdu :=
  sendDepLoopGen P c k pni req fuel { a with expired := false }

/-- the pieces of one copy of the timeout extension loop (`Initiator.exchange` has one in the send loop and one in the
receive loop) -/
structure RtoxCut where
  test : Int → Bool
  range : List Int
  call : Bytes → Option Int → Option Int → (Bytes → Option Int → Option Int → Bytes × Option Int × Option Int)
    → Bytes × Option Int × Option Int
  wait : Bytes → Int → Py Int
  done : Int → Bool
  fail : Py Unit

def cutS : RtoxCut := ⟨Gen.Fn.dep_ini_tox_test, Gen.Fn.smi_rtox_range_s, Gen.Fn.smi_rtox_call_s, Gen.Fn.smi_rtox_wait_s,
  Gen.Fn.smi_rtox_done_s, Gen.Fn.smi_rtox_fail_s⟩
def cutR : RtoxCut := ⟨Gen.Fn.smi_tox_test_r, Gen.Fn.smi_rtox_range_r, Gen.Fn.smi_rtox_call_r, Gen.Fn.smi_rtox_wait_r,
  Gen.Fn.smi_rtox_done_r, Gen.Fn.smi_rtox_fail_r⟩

/-- `for i in range(3): req = RTOX(res.data, ..); rwt = res.data[0] * self.rwt; res = send_dep_req_recv_dep_res(req, rwt, ..);
if res.pfb.fmt != TimeoutExtension: break` / `else: raise TimeoutError` -/
def rtoxLoopGen (q : RtoxCut) (k : Clock σ) (fuel pni : Nat) : List Int → Air σ → Pdu → Air σ × Py Pdu
  | [], a, res => (a, match q.fail with | .error e => .error e | .ok _ => .ok res)
  | _ :: is, a, res =>
    match res with
    | .dep _ _ _ _ data =>
      let args := q.call data (oi c.idid) (oi c.inad) (fun d i n => (d, i, n))
      (match Gen.Fn.smi_rtox args.1 args.2.1 args.2.2 with
       | .error e => (a, .error e)
       | .ok r =>
         match q.wait data k.rwt with
         | .error e => (a, .error e)
         | .ok rwt' =>
           match sendDepGen P c { k with rwt := rwt' } fuel pni a (recPdu r) with
           | (a', .error e) => (a', .error e)
           | (a', .ok res') =>
             match res'.fmt? with
             | some f => if q.done (f : Int) = true then (a', .ok res') else rtoxLoopGen q k fuel pni is a' res'
             | none => (a', .ok res'))
    | _ => (a, .error .attr)

/-- `res = self.send_dep_req_recv_dep_res(req, self.rwt, timeout)` and the timeout extension handling behind it -/
def transactGen (q : RtoxCut) (k : Clock σ) (fuel pni : Nat) (a : Air σ) (req : Pdu) : Air σ × Py Pdu :=
  match sendDepGen P c k fuel pni a req with
  | (a', .error e) => (a', .error e)
  | (a', .ok res) =>
    match res.fmt? with
    | some f => if q.test (f : Int) = true then rtoxLoopGen P c q k fuel pni q.range a' res else (a', .ok res)
    | none => (a', .ok res)

/-- `req = INF(self.pni, data, bool(send_data), self.did, self.nad)` -/
def infReq (pni : Nat) (data rest : Bytes) : Pdu :=
  let args := Gen.Fn.dep_ini_inf_call data rest (pni : Int) (oi c.idid) (oi c.inad) (fun p d m i n => (p, d, m, i, n))
  recPdu (Gen.Fn.smi_inf args.1 args.2.1 args.2.2.1 args.2.2.2.1 args.2.2.2.2)

/-- `req = ACK(self.pni, self.did, self.nad)` -/
def ackReq (pni : Nat) : Pdu :=
  let args := Gen.Fn.dep_ini_ack_call (pni : Int) (oi c.idid) (oi c.inad) (fun p d n => (p, d, n))
  recPdu (Gen.Fn.smi_ack args.1 args.2.1 args.2.2)

/-- the `while send_data` loop of `Initiator.exchange` -/
def sendLoopGen (k : Clock σ) (fuel : Nat) : Nat → Air σ → Nat → Bytes → Air σ × Nat × Py Pdu
  | 0, a, pni, _ => (a, pni, .error .outOfFuel)
  | n+1, a, pni, sd =>
    let ch := Gen.Fn.dep_ini_chunk sd (c.imiu : Int)
    match transactGen P c cutS k fuel pni a (infReq c pni ch.1 ch.2) with
    | (a', .error e) => (a', pni, .error e)
    | (a', .ok (.dep fmt rp did nad data)) =>
      (match Gen.Fn.dep_ini_ack_chk ch.2 (fmt : Int) >>= fun _ => Gen.Fn.dep_ini_pni_send (pni : Int) (rp : Int) with
       | .error e => (a', pni, .error e)
       | .ok pni' =>
         if Gen.Fn.smi_send_test ch.2 = true then sendLoopGen k fuel n a' pni'.toNat ch.2
         else (a', pni'.toNat, .ok (.dep fmt rp did nad data)))
    | (a', .ok _) => (a', pni, .error .attr)

/-- the `while res.pfb.fmt == MoreInformation` loop of `Initiator.exchange` -/
def recvLoopGen (k : Clock σ) (fuel : Nat) : Nat → Air σ → Nat → Bytes → Nat → Air σ × Nat × Py Bytes
  | 0, a, pni, _, _ => (a, pni, .error .outOfFuel)
  | n+1, a, pni, acc, fmt =>
    if Gen.Fn.dep_ini_more_test (fmt : Int) = false then (a, pni, .ok acc) else
    match transactGen P c cutR k fuel pni a (ackReq c pni) with
    | (a', .error e) => (a', pni, .error e)
    | (a', .ok (.dep fmt' rp _ _ data)) =>
      (match Gen.Fn.dep_ini_chain_chk (fmt' : Int) >>= fun _ => Gen.Fn.dep_ini_pni_recv acc (pni : Int) (rp : Int) data with
       | .error e => (a', pni, .error e)
       | .ok r => recvLoopGen k fuel n a' r.2.toNat r.1 fmt')
    | (a', .ok _) => (a', pni, .error .attr)

/-- `Initiator.exchange(send_data, timeout)`; with an empty payload the send loop is not entered and `res` is unbound -/
def exchangeGen (k : Clock σ) (fuel : Nat) (a : Air σ) (pni : Nat) (p : Bytes) : Air σ × Nat × Py Bytes :=
  if Gen.Fn.smi_send_test p = false then (a, pni, .error .unbound) else
  match sendLoopGen P c k fuel fuel a pni p with
  | (a1, pni1, .error e) => (a1, pni1, .error e)
  | (a1, pni1, .ok (.dep fmt _ _ _ data)) =>
    (match Gen.Fn.dep_ini_inf_chk (fmt : Int) with
     | .error e => (a1, pni1, .error e)
     | .ok _ => recvLoopGen P c k fuel fuel a1 pni1 (Gen.Fn.smi_recv_init data) fmt)
  | (a1, pni1, .ok _) => (a1, pni1, .error .attr)

/-- `req = RLS_REQ(self.did) if release else DSL_REQ(self.did)`; the two classes are given their PDU codes -/
def deactReq (release : Bool) : Pdu :=
  let r := Gen.Fn.smi_deact_req release (oi c.idid) (fun d => (8, d)) (fun d => (10, d))
  if r.1 = 10 then .rls (r.2.map Int.toNat) else .dsl (r.2.map Int.toNat)

/-- `Initiator.deactivate(release)` -/
def deactivateGen (release : Bool) (a : Air σ) : Air σ × Option Exc :=
  match xfer P a (deactReq c release) with
  | (a', .error e) => if isComm e then (a', none) else (a', some e)
  | (a', .ok _) => (a', none)

end initiator

/-! ## Target -/

section target
variable (c : Cfg)

/-- the bit rate string handed to the regenerated `encode_frame`; only the length byte check matters here -/
def brtyOf (c : Cfg) : String := if c.b106 then "106A" else "212F"

/-- `res = INF(self.pni, data, more, self.did, self.nad)` for the chunk cut off `send_data`; a Target has no NAD -/
def infRes (pni : Nat) (send_data : Bytes) : Pdu :=
  let ch := Gen.Fn.dep_tgt_chunk send_data (c.tmiu : Int)
  let args := Gen.Fn.dep_tgt_inf_call ch.1 ch.2 (pni : Int) (oi c.tdid) none (fun p d m i n => (p, d, m, i, n))
  recPdu (Gen.Fn.smt_inf args.1 args.2.1 args.2.2.1 args.2.2.2.1 args.2.2.2.2)

/-- `res = ACK(self.pni, self.did, self.nad)` -/
def ackRes (pni : Nat) : Pdu :=
  let args := Gen.Fn.dep_tgt_ack_call (pni : Int) (oi c.tdid) none (fun p d n => (p, d, n))
  recPdu (Gen.Fn.smt_ack args.1 args.2.1 args.2.2)

/-- `ATN(self.did, self.nad)` of `send_dep_res_recv_dep_req` -/
def atnRes : Pdu := recPdu (Gen.Fn.smt_atn (oi c.tdid) none)

/-- send loop body of `Target.exchange` up to the blocking call; `encode_frame` (regenerated, group Dep) raises
`struct.error` when the frame does not fit the length byte -/
def tSendChunkGen (t : TState) (pni : Nat) (data : Bytes) : TState × Option Pdu :=
  let res := infRes c pni data
  let t' := { t with pni := some pni, loc := .sending data, depRes := some res }
  match Gen.Fn.target_encode_frame (encodePdu false res) (brtyOf c) with
  | .error e => t'.die e
  | .ok _ => (t', some res)

/-- head of the receive loop of `Target.exchange` with `recv_data = acc`, then the application -/
def tRecvGen (t : TState) (pni : Nat) (acc : Bytes) (fmt : Nat) (data : Bytes) : TState × Option Pdu :=
  if Gen.Fn.dep_tgt_more_test (fmt : Int) = true then
    let ack := ackRes c pni
    ({ t with pni := some pni, loc := .receiving (Gen.Fn.smt_recv_acc acc data), depRes := some ack }, some ack)
  else
    let t := { t with pni := some pni, got := t.got ++ [Gen.Fn.smt_recv_last acc data] }
    match t.tosend with
    | [] => ({ t with status := .ended }, none)
    | p :: ps =>
      match Gen.Fn.smt_empty_chk (some p) with
      | .error e => ({ t with tosend := ps }).die e
      | .ok _ => tSendChunkGen c { t with tosend := ps } pni p

/-- `send_dep_res_recv_dep_req` returned a request to `exchange`.  In the `.sending` case the model records the
incremented packet number also when the ACK check (which the source makes in front of the increment) fails; the run
is over then (`status = raised`), the field is not read again - it is written by hand here. -/
def tAcceptGen (t : TState) (fmt rpni : Nat) (data : Bytes) : TState × Option Pdu :=
  match t.loc with
  | .listen => (t, none)
  | .first => tRecvGen c t Gen.Fn.smt_first_pni.toNat Gen.Fn.smt_recv_init fmt data
  | .sending sd =>
    let ch := Gen.Fn.dep_tgt_chunk sd (c.tmiu : Int)
    (match Gen.Fn.dep_tgt_ack_chk ch.2 (fmt : Int) >>= fun _ => Gen.Fn.dep_tgt_pni_send ((t.pni.getD 0 : Nat) : Int) (rpni : Int) with
     | .error e => ({ t with pni := some ((t.pni.getD 0 + 1) % 4) }).die e
     | .ok pni' =>
       let rest := Gen.Fn.dep_tgt_chunk_rest sd (c.tmiu : Int)
       if Gen.Fn.smt_send_test rest = true then tSendChunkGen c t pni'.toNat rest
       else tRecvGen c t pni'.toNat Gen.Fn.smt_recv_init fmt data)
  | .receiving acc =>
    (match Gen.Fn.dep_tgt_pni_recv ((t.pni.getD 0 : Nat) : Int) (rpni : Int) with
     | .error e => ({ t with pni := some ((t.pni.getD 0 + 1) % 4) }).die e
     | .ok pni' => tRecvGen c t pni'.toNat acc fmt data)

/-- PDU objects as the tokens of the regenerated dispatch chain: the saved response `dep_res` is token 1, the
attention response token 2, the received request token 0 -/
def tokRes (t : TState) : Option Int := t.depRes.map (fun _ => 1)

/-- `self.pni` of the Target: None before the first exchange (never equal to a packet number: -1) -/
def pniTok (t : TState) : Int := match t.pni with | some p => (p : Int) | none => -1

/-- `dep_res.pfb.fmt` of the saved response (only read when there is one) -/
def depResFmt (t : TState) : Nat := match t.depRes with | some p => fmtOf p | none => 0

/-- `req.pfb.pni` -/
def pniOf : Pdu → Nat
  | .dep _ p _ _ _ => p
  | _ => 0

/-- one turn of the loop of `send_dep_res_recv_dep_req` for a request that arrived (`req is not None`): the regenerated
dispatch chain on tokens, then what the tokens stand for.  `None` = `return None` behind the (dropped) DSL_RES / RLS_RES
answer, whose PDU is written by hand. -/
def tRxActiveGen (t : TState) (req : Pdu) : TState × Option Pdu :=
  match Gen.Fn.dep_tgt_dispatch none (tokRes t) none 0 false (decide (req.didAttr ≠ c.tdid)) (decide (req.kind = .dsl))
      (decide (req.kind = .rls)) (decide (req.kind = .dep)) (fmtOf req : Int)
      (pniOf req : Int) (pniTok t) (depResFmt t : Int) (oi c.tdid) none (fun _ _ => some 2) with
  | none => ({ t with status := .retNone }, some (if req.kind = .dsl then .dsl c.tdid else .rls c.tdid))
  | some (res, dep_req) =>
    match dep_req with
    | some _ =>
      (match req with
       | .dep fmt pni _ _ data => tAcceptGen c t fmt pni data
       | _ => (t, none))
    | none =>
      match res with
      | none => (t, none)
      | some tok => if tok = 2 then (t, some (atnRes c)) else (t, t.depRes)

/-- one frame received by the Target; hand-written: a Target that has ended ignores everything, `clf.listen` returns
with the first DEP_REQ -/
def tRxGen (t : TState) : Rx → TState × Option Pdu
  | .corrupt => (t, none)
  | .frame req =>
    if t.status ≠ .running then (t, none) else
    match t.loc, req with
    | .listen, .dep .. => tRxActiveGen c { t with loc := .first } req
    | .listen, _ => (t, none)
    | _, _ => tRxActiveGen c t req

end target

end NfcVerif.FnBridge.DepSm
