import NfcVerif.Lemmas.TlvSync
/-! write-back cache after a lost command; a second write on the same NDEF object -/
namespace NfcVerif.Tlv
open NfcVerif

/-- **cache coherence**: when a command of `_write_to_tag` is lost, the memory reader's picture of
the tag (`_data_from_tag`, updated only after a command succeeded) still equals the tag -/
theorem syncLost_coherent (u : Nat) (cache : Bytes) (is : List Nat) (j : Nat) (b : Bytes) :
    (syncLost u cache is j (b, b)).1 = (syncLost u cache is j (b, b)).2 := by
  induction is generalizing j b with
  | nil => rfl
  | cons i is ih =>
    simp only [syncLost]
    split
    · cases j with
      | zero => rfl
      | succ j => exact ih j _
    · exact ih j b

theorem diffUnits_self (u : Nat) (m : Bytes) : diffUnits u m m = [] := by
  unfold diffUnits
  simp

theorem set_set_same (m : Bytes) (a v : Nat) : (m.set a v).set a v = m.set a v := by
  simp

/-- applying commands that carry units of images agreeing with `m` below `B` keeps the agreement -/
theorem apply_below (u : Nat) (m : Bytes) (B : Nat) (cmds : List Cmd)
    (hc : ∀ cmd ∈ cmds, ∃ P : Bytes, UnitOf u P cmd ∧ P.length = m.length ∧ ∀ x, x < B → P[x]? = m[x]?)
    (img : Bytes) (hl : img.length = m.length) (hb : ∀ x, x < B → img[x]? = m[x]?) :
    (apply img cmds).length = m.length ∧ ∀ x, x < B → (apply img cmds)[x]? = m[x]? := by
  induction cmds generalizing img with
  | nil => exact ⟨hl, hb⟩
  | cons cmd cs ih =>
    simp only [apply, List.foldl_cons]
    obtain ⟨P, ⟨i, rfl⟩, hPl, hPb⟩ := hc cmd List.mem_cons_self
    apply ih (fun c hc' => hc c (List.mem_cons_of_mem _ hc'))
    · rw [writeAt_length]; exact hl
    · intro x hx
      rw [writeAt_slice_get _ _ _ _ _ (by rw [hl, hPl])]
      split
      · exact hPb x hx
      · exact hb x hx


/-- the layout an image shows once the first length byte is 0 -/
theorem wf_transfer (c : Cfg) (m C1 : Bytes) (L : Layout) (hwf : WF c m L) (hl : C1.length = m.length)
    (hb : ∀ x, x < L.off + 1 → C1[x]? = m[x]?) : WF c C1 { L with ndef := [] } := by
  obtain ⟨h1, h2, h3, h4, h5, h6⟩ := hwf
  refine ⟨h1, h2, h3, by rw [hl]; exact h4, ?_, h6⟩
  show walkPre c (rdB c (L.off + 1) C1) L.areaEnd (L.areaEnd + 1) c.dataStart (c.initSkip L.areaEnd) = _
  rw [rdB_congr c (L.off + 1) m C1 hb]; exact h5

/-- **retry after a lost command**: the memory reader believes (correctly) that the tag holds `T`,
its cache holds `C`; both equal the original image in front of the length byte.  A further
`_write_ndef_data` of `data` on that object: after any prefix of its commands the tag still
holds `T`, or shows an empty message, or the new message; after all commands the new message. -/
theorem retry_safe (c : Cfg) (m T C : Bytes) (L : Layout) (data : Bytes)
    (hr : ReadsAs c m L) (hwf : WF c m L) (hcap : (data.length : Int) ≤ L.cap)
    (hTl : T.length = m.length) (hCl : C.length = m.length)
    (hTb : ∀ x, x < L.off + 1 → T[x]? = m[x]?) (hCb : ∀ x, x < L.off + 1 → C[x]? = m[x]?) :
    (writeCmdsFrom c T C L data).res = .ok ()
    ∧ ReadsAs c (apply T (writeCmdsFrom c T C L data).cmds) { L with ndef := data }
    ∧ ∀ k, apply T ((writeCmdsFrom c T C L data).cmds.take k) = T
        ∨ ReadsAs c (apply T ((writeCmdsFrom c T C L data).cmds.take k)) { L with ndef := [] }
        ∨ ReadsAs c (apply T ((writeCmdsFrom c T C L data).cmds.take k)) { L with ndef := data } := by
  have hu : 0 < c.unit := hwf.2.1
  have harea := hwf.2.2.2.1
  have hcap' := hcap
  rw [hr.cap] at hcap'
  have hfit := (endAddr_le_area L.skip L.off L.areaEnd data.length hcap').1
  have hh := hdrLen_ge data.length
  have hlt : L.off + 1 < C.length := by omega
  -- the cache after `tag_memory[offset+1] = 0`
  have hC1l : (C.set (L.off + 1) 0).length = m.length := by simp [hCl]
  have hC1b : ∀ x, x < L.off + 1 → (C.set (L.off + 1) 0)[x]? = m[x]? := fun x hx => by
    rw [get_set_ne _ _ _ _ (by omega)]; exact hCb x hx
  have hC10 : (C.set (L.off + 1) 0)[L.off + 1]? = some 0 := get_set_eq _ _ _ hlt
  have hr1 : ReadsAs c (C.set (L.off + 1) 0) { L with ndef := [] } := empty_view c m _ L hr hwf hC1b hC10
  have hwf1 : WF c (C.set (L.off + 1) 0) { L with ndef := [] } := wf_transfer c m _ L hwf hC1l hC1b
  -- the rest of the retry is an ordinary write on that image
  obtain ⟨m1, m2, m3a, m3, w, hnew⟩ := roundtrip c (C.set (L.off + 1) 0) { L with ndef := [] } data hr1 hwf1 hcap
  have hm1 : m1 = C.set (L.off + 1) 0 := by rw [w.m1_eq]; simp
  have hp1 : phase1 c C L.off = .ok (C.set (L.off + 1) 0) := wr_ok c C _ _ hlt
  have hp2 : phase2 c (C.set (L.off + 1) 0) L.off L.skip L.areaEnd data = .ok m2 := by
    have := w.p2; rw [hm1] at this; exact this
  have hp3a : phase3a c m2 L.off data.length = .ok m3a := w.p3a
  have hp3 : phase3 c m3a L.off data.length = .ok m3 := w.p3
  have hfrom : writeCmdsFrom c T C L data =
      ⟨diffUnits c.unit T (C.set (L.off + 1) 0) ++ diffUnits c.unit (C.set (L.off + 1) 0) m2
        ++ diffUnits c.unit m2 m3a ++ diffUnits c.unit m3a m3, .ok ()⟩ := by
    unfold writeCmdsFrom; rw [hp1]; simp only; rw [hp2]; simp only; rw [hp3a]; simp only; rw [hp3]
  have hnorm : (writeCmds c (C.set (L.off + 1) 0) { L with ndef := [] } data).cmds =
      diffUnits c.unit (C.set (L.off + 1) 0) m2 ++ diffUnits c.unit m2 m3a ++ diffUnits c.unit m3a m3 := by
    rw [writeCmds_eq w, hm1, diffUnits_self]; simp
  have hsplit : (writeCmdsFrom c T C L data).cmds =
      diffUnits c.unit T (C.set (L.off + 1) 0) ++ (writeCmds c (C.set (L.off + 1) 0) { L with ndef := [] } data).cmds := by
    rw [hfrom, hnorm]; simp [List.append_assoc]
  have hA : apply T (diffUnits c.unit T (C.set (L.off + 1) 0)) = C.set (L.off + 1) 0 :=
    apply_diff _ hu _ _ (by rw [hTl, hC1l])
  have hl2 := w.len2
  have hl3 := w.len3
  have hl3a : m3a.length = (C.set (L.off + 1) 0).length := by rw [w.m3a_eq, pre3_length, hl2]
  refine ⟨by rw [hfrom], ?_, fun k => ?_⟩
  · rw [hsplit, apply_append, hA, hnorm, apply_append, apply_append,
      apply_diff _ hu _ _ (by omega), apply_diff _ hu _ _ (by omega), apply_diff _ hu _ _ (by omega)]
    exact hnew
  · rw [hsplit]
    rcases take_two (diffUnits c.unit T (C.set (L.off + 1) 0))
        (writeCmds c (C.set (L.off + 1) 0) { L with ndef := [] } data).cmds k with h | ⟨k', h⟩
    · -- inside the first synchronize(): the new image below a unit boundary, `T` above
      rw [h]
      obtain ⟨j, hj⟩ := prefix_threshold c.unit hu T (C.set (L.off + 1) 0) (by rw [hTl, hC1l]) k
      by_cases hB : j * c.unit ≤ L.off + 1
      · left
        apply List.ext_getElem?; intro x; rw [hj x]
        split
        · rw [hC1b x (by omega), hTb x (by omega)]
        · rfl
      · right; left
        refine empty_view c m _ L hr hwf (fun x hx => ?_) ?_
        · rw [hj x]; split
          · exact hC1b x hx
          · exact hTb x hx
        · rw [hj _, if_pos (by omega)]; exact hC10
    · rw [h, apply_append, hA]
      rcases cut_safe c (C.set (L.off + 1) 0) { L with ndef := [] } data hr1 hwf1 hcap k' with e | e | e
      · exact Or.inr (Or.inl e)
      · exact Or.inr (Or.inl e)
      · exact Or.inr (Or.inr e)

/-- the state a lost command leaves behind satisfies the hypotheses of `retry_safe` -/
theorem failedWrite_state (c : Cfg) (m : Bytes) (L : Layout) (d1 : Bytes) (k : Nat) (T C : Bytes)
    (hr : ReadsAs c m L) (hwf : WF c m L) (hcap : (d1.length : Int) ≤ L.cap)
    (h : failedWrite c m L d1 k = some (T, C)) :
    T.length = m.length ∧ C.length = m.length
    ∧ (∀ x, x < L.off + 1 → T[x]? = m[x]?) ∧ (∀ x, x < L.off + 1 → C[x]? = m[x]?) := by
  obtain ⟨m1, m2, m3a, m3, w, _⟩ := roundtrip c m L d1 hr hwf hcap
  have hwn : writeNdef c m L d1 = .ok ⟨m1, m2, m3a, m3⟩ := by
    unfold writeNdef; rw [w.p1, Py.bind_ok, w.p2, Py.bind_ok, w.p3a, Py.bind_ok, w.p3, Py.bind_ok]
  have hl1 := w.len1
  have hl2 := w.len2
  have hl3 := w.len3
  have hl3a : m3a.length = m.length := by rw [w.m3a_eq, pre3_length, hl2]
  have b1 : ∀ x, x < L.off + 1 → m1[x]? = m[x]? := fun x hx => (w.below x hx).1
  have b2 : ∀ x, x < L.off + 1 → m2[x]? = m[x]? := fun x hx => (w.below x hx).2.1
  have b3 : ∀ x, x < L.off + 1 → m3[x]? = m[x]? := fun x hx => (w.below x hx).2.2
  have b3a : ∀ x, x < L.off + 1 → m3a[x]? = m[x]? := fun x hx => by
    rw [w.m3a_eq, pre3_get _ _ _ _ x (by omega) (by omega)]; exact b2 x hx
  have hall : ∀ cmd ∈ diffUnits c.unit m m1 ++ diffUnits c.unit m1 m2 ++ diffUnits c.unit m2 m3a ++ diffUnits c.unit m3a m3,
      ∃ P : Bytes, UnitOf c.unit P cmd ∧ P.length = m.length ∧ ∀ x, x < L.off + 1 → P[x]? = m[x]? := by
    intro cmd hc
    simp only [List.mem_append] at hc
    rcases hc with ((hc | hc) | hc) | hc
    · exact ⟨m1, diffUnits_unitOf _ _ _ _ hc, hl1, b1⟩
    · exact ⟨m2, diffUnits_unitOf _ _ _ _ hc, hl2, b2⟩
    · exact ⟨m3a, diffUnits_unitOf _ _ _ _ hc, hl3a, b3a⟩
    · exact ⟨m3, diffUnits_unitOf _ _ _ _ hc, hl3, b3⟩
  have hT := apply_below c.unit m (L.off + 1) _ (fun cmd hc => hall cmd (List.mem_of_mem_take (i := k) hc)) m rfl (fun _ _ => rfl)
  unfold failedWrite at h
  rw [hwn] at h
  simp only at h
  split at h
  · cases h; exact ⟨hT.1, hl1, hT.2, b1⟩
  · split at h
    · cases h; exact ⟨hT.1, hl2, hT.2, b2⟩
    · split at h
      · cases h; exact ⟨hT.1, hl3a, hT.2, b3a⟩
      · split at h
        · cases h; exact ⟨hT.1, hl3, hT.2, b3⟩
        · cases h

end NfcVerif.Tlv
