import NfcVerif.Lemmas.PduSafe
/-!
# Round trip: decoding the encoding of a valid PDU gives the PDU back (field equality)
-/
namespace NfcVerif.Pdu
open NfcVerif

/-- valid field values of a PDU that is not an aggregate -/
def ValidS : SPdu → Prop
  | .symm d s => d = 0 ∧ s = 0
  | .pax d s ver miux wks lto opt =>
    d = 0 ∧ s = 0 ∧ (∀ v, ver = some v → v ≤ 255) ∧ (∀ v, miux = some v → v ≤ 0x7FF) ∧
    (∀ v, wks = some v → v ≤ 0xFFFF) ∧ (∀ v, lto = some v → v ≤ 255) ∧ (∀ v, opt = some v → v ≤ 7)
  | .ui d s _ => d ≤ 63 ∧ s ≤ 63
  | .connect d s miu rw sn =>
    d ≤ 63 ∧ s ≤ 63 ∧ 128 ≤ miu ∧ miu ≤ 128 + 0x7FF ∧ rw ≤ 15 ∧ (∀ v, sn = some v → v ≠ [] ∧ v.length ≤ 255)
  | .disc d s => d ≤ 63 ∧ s ≤ 63
  | .cc d s miu rw => d ≤ 63 ∧ s ≤ 63 ∧ 128 ≤ miu ∧ miu ≤ 128 + 0x7FF ∧ rw ≤ 15
  | .dm d s reason => d ≤ 63 ∧ s ≤ 63 ∧ reason ≤ 255
  | .frmr d s flags ptype ns nr vs vr vsa vra =>
    d ≤ 63 ∧ s ≤ 63 ∧ flags ≤ 15 ∧ ptype ≤ 15 ∧ ns ≤ 15 ∧ nr ≤ 15 ∧ vs ≤ 15 ∧ vr ≤ 15 ∧ vsa ≤ 15 ∧ vra ≤ 15
  | .snl d s sdreq sdres =>
    d = 1 ∧ s = 1 ∧ (∀ x ∈ sdreq, x.1 ≤ 255 ∧ x.2.length ≤ 254) ∧ (∀ x ∈ sdres, x.1 ≤ 255 ∧ x.2 ≤ 255)
  | .dps d s ecpk rn =>
    d = 0 ∧ s = 0 ∧ (∀ v, ecpk = some v → v ≠ [] ∧ v.length ≤ 255) ∧ (∀ v, rn = some v → v ≠ [] ∧ v.length ≤ 255)
  | .info d s ns nr _ => d ≤ 63 ∧ s ≤ 63 ∧ ns ≤ 15 ∧ nr ≤ 15
  | .rr d s nr => d ≤ 63 ∧ s ≤ 63 ∧ nr ≤ 15
  | .rnr d s nr => d ≤ 63 ∧ s ≤ 63 ∧ nr ≤ 15
  | .unknown t d s _ => (t = 11 ∨ t = 15) ∧ d ≤ 63 ∧ s ≤ 63

/-- valid PDU: valid fields; an aggregate holds valid PDUs of at most 65535 octets -/
def Valid : Pdu → Prop
  | .simple p => ValidS p
  | .agf d s items => d = 0 ∧ s = 0 ∧ ∀ p ∈ items, ValidS p ∧ Impl.lenS p ≤ 65535

namespace Impl

/-! ## header -/

/-- the two header octets `DSAP(6) PTYPE(4) SSAP(6)` -/
def hdr (t d s : Nat) : Bytes := [d * 4 + t / 4, t % 4 * 64 + s]

theorem encodeHeader_eq {t d s : Nat} (ht : t ≤ 15) (hd : d ≤ 63) (hs : s ≤ 63) :
    encodeHeader t d s = .ok (hdr t d s) := by
  unfold encodeHeader
  have h1 : orShl t 6 s = t * 64 + s := by rw [orShl_eq _ _ _ (by omega)]
  have h2 : orShl d 10 (t * 64 + s) = d * 1024 + (t * 64 + s) := by rw [orShl_eq _ _ _ (by omega)]
  have c1 : ¬ (d > 63 ∨ s > 63) := by omega
  have c2 : ¬ (d * 1024 + (t * 64 + s) > 65535) := by omega
  simp only [c1, if_false, h1, h2, c2, hdr, Py.pure_eq]
  congr 2
  · omega
  · congr 1; omega

theorem encodeHeaderN_eq {t d s ns nr : Nat} (ht : t ≤ 15) (hd : d ≤ 63) (hs : s ≤ 63) (h1 : ns ≤ 15) (h2 : nr ≤ 15) :
    encodeHeaderN t d s ns nr = .ok (hdr t d s ++ [ns * 16 + nr]) := by
  unfold encodeHeaderN
  have c : ¬ (ns > 15 ∨ nr > 15) := by omega
  have h : orShl ns 4 nr = ns * 16 + nr := by rw [orShl_eq _ _ _ (by omega)]
  simp only [encodeHeader_eq ht hd hs, Py.bind_ok, c, if_false, h, Py.pure_eq]

theorem decodePre_hdr {t d s : Nat} (ht : t ≤ 15) (hd : d ≤ 63) (hs : s ≤ 63) (body : Bytes) :
    decodePre (hdr t d s ++ body) 0 (hdr t d s ++ body).length = .ok (hdr t d s ++ body, t) := by
  unfold decodePre
  have c1 : ¬ (0 + (hdr t d s ++ body).length > (hdr t d s ++ body).length) := by omega
  have c2 : ¬ ((hdr t d s ++ body).length < 2) := by simp [hdr]
  simp only [c1, c2, if_false, sliceN_all]
  have : unpackH (hdr t d s ++ body) 0 = .ok ((d * 4 + t / 4) * 256 + (t % 4 * 64 + s)) := by
    simp [hdr, unpackH]
  simp only [this, Py.bind_ok, Py.pure_eq]
  congr 2
  omega

theorem decodeNested_hdr {t d s : Nat} {dec : Bytes → Nat → Nat → Py SPdu} (ht : t ≤ 15) (hd : d ≤ 63)
    (hs : s ≤ 63) (hk : kindOf t = .simple dec) (body : Bytes) :
    decodeNested (hdr t d s ++ body) 0 (hdr t d s ++ body).length
      = dec (hdr t d s ++ body) 0 (hdr t d s ++ body).length := by
  unfold decodeNested
  rw [decodePre_hdr ht hd hs]
  simp only [Py.bind_ok, hk]

theorem hdr_len (t d s : Nat) (body : Bytes) : (hdr t d s ++ body).length = 2 + body.length := by
  simp [hdr]; omega

theorem decodeHeader_hdr {t d s : Nat} (ht : t ≤ 15) (hd : d ≤ 63) (hs : s ≤ 63) (body : Bytes) (n : Nat) :
    decodeHeader (hdr t d s ++ body) 0 (2 + n) = .ok (d, s) := by
  unfold decodeHeader
  have c : ¬ (2 + n < 2) := by omega
  have h1 : (d * 4 + t / 4) / 4 = d := by omega
  have h2 : (t % 4 * 64 + s) % 64 = s := by omega
  simp [c, hdr, unpackBB, h1, h2]

theorem decodeHeaderN_hdr {t d s ns nr : Nat} (ht : t ≤ 15) (hd : d ≤ 63) (hs : s ≤ 63) (h3 : ns ≤ 15) (h4 : nr ≤ 15)
    (body : Bytes) (n : Nat) :
    decodeHeaderN (hdr t d s ++ (ns * 16 + nr) :: body) 0 (3 + n) = .ok (d, s, ns, nr) := by
  unfold decodeHeaderN
  have c : ¬ (3 + n < 3) := by omega
  have h1 : (d * 4 + t / 4) / 4 = d := by omega
  have h2 : (t % 4 * 64 + s) % 64 = s := by omega
  have h5 : (ns * 16 + nr) / 16 = ns := by omega
  have h6 : (ns * 16 + nr) % 16 = nr := by omega
  simp [c, hdr, unpackBBB, h1, h2, h5, h6]

/-! ## the TLV loop on a concatenation of TLVs -/

theorem tlvLoop_done {σ : Type} (app : σ → Nat → TlvV → σ) (fuel : Nat) (d : Bytes) (off size : Nat) (st : σ)
    (h : size < 2) : tlvLoop app fuel d off size st = .ok st := by
  rw [tlvLoop.eq_def]; simp [h]

theorem tlvLoop_succ {σ : Type} (app : σ → Nat → TlvV → σ) (fuel : Nat) (d : Bytes) (off size : Nat) (st : σ)
    (h : ¬ size < 2) :
    tlvLoop app (fuel + 1) d off size st =
      (paramDecode d off >>= fun (t, l, v) => tlvLoop app fuel d (off + 2 + l) (size - 2 - l) (app st t v)) := by
  rw [tlvLoop.eq_def]; simp [h]

theorem tlvLoop_fuel {σ : Type} (app : σ → Nat → TlvV → σ) (f1 f2 : Nat) (d : Bytes) (off size : Nat) (st : σ)
    (h1 : size ≤ f1) (h2 : size ≤ f2) : tlvLoop app f1 d off size st = tlvLoop app f2 d off size st := by
  induction f1 generalizing f2 off size st with
  | zero => rw [tlvLoop_done _ _ _ _ _ _ (by omega), tlvLoop_done _ _ _ _ _ _ (by omega)]
  | succ n ih =>
    by_cases hs : size < 2
    · rw [tlvLoop_done _ _ _ _ _ _ hs, tlvLoop_done _ _ _ _ _ _ hs]
    · obtain ⟨m, rfl⟩ : ∃ m, f2 = m + 1 := ⟨f2 - 1, by omega⟩
      rw [tlvLoop_succ _ _ _ _ _ _ hs, tlvLoop_succ _ _ _ _ _ _ hs]
      congr 1
      funext ⟨t, l, v⟩
      exact ih _ _ _ _ (by omega) (by omega)

theorem getElem?_shift {α} (pre d : List α) (i : Nat) : (pre ++ d)[pre.length + i]? = d[i]? := by
  rw [List.getElem?_append_right (by omega)]
  congr 1
  omega

theorem unpackBB_shift (pre d : Bytes) (off : Nat) : unpackBB (pre ++ d) (pre.length + off) = unpackBB d off := by
  unfold unpackBB
  rw [getElem?_shift, Nat.add_assoc, getElem?_shift]

theorem unpackS_shift (n : Nat) (pre d : Bytes) (off : Nat) :
    unpackS n (pre ++ d) (pre.length + off) = unpackS n d off := by
  unfold unpackS
  have : (pre.length + off + n ≤ (pre ++ d).length) ↔ (off + n ≤ d.length) := by simp; omega
  simp only [this, List.drop_append, List.drop_eq_nil_of_le (Nat.le_add_right _ _), Nat.add_sub_cancel_left,
    List.nil_append]

theorem paramRaw_shift (pre d : Bytes) (off : Nat) : paramRaw (pre ++ d) (pre.length + off) = paramRaw d off := by
  unfold paramRaw
  rw [unpackBB_shift]
  simp only [Nat.add_assoc, unpackS_shift]

theorem paramDecode_shift (pre d : Bytes) (off : Nat) :
    paramDecode (pre ++ d) (pre.length + off) = paramDecode d off := by
  rw [paramDecode_eq, paramDecode_eq, paramRaw_shift]

theorem tlvLoop_shift {σ : Type} (app : σ → Nat → TlvV → σ) (fuel : Nat) (pre d : Bytes) (off size : Nat) (st : σ) :
    tlvLoop app fuel (pre ++ d) (pre.length + off) size st = tlvLoop app fuel d off size st := by
  induction fuel generalizing off size st with
  | zero =>
    by_cases hs : size < 2
    · rw [tlvLoop_done _ _ _ _ _ _ hs, tlvLoop_done _ _ _ _ _ _ hs]
    · rw [tlvLoop.eq_def, tlvLoop.eq_def app 0 d]
  | succ n ih =>
    by_cases hs : size < 2
    · rw [tlvLoop_done _ _ _ _ _ _ hs, tlvLoop_done _ _ _ _ _ _ hs]
    · rw [tlvLoop_succ _ _ _ _ _ _ hs, tlvLoop_succ _ _ _ _ _ _ hs, paramDecode_shift]
      congr 1
      funext ⟨t, l, v⟩
      have : pre.length + off + 2 + l = pre.length + (off + 2 + l) := by omega
      dsimp only
      rw [this]
      exact ih _ _ _

/-- the loop over a parameter list that is the whole rest of the buffer -/
def run {σ : Type} (app : σ → Nat → TlvV → σ) (body : Bytes) (st : σ) : Py σ :=
  tlvLoop app body.length body 0 body.length st

theorem run_nil {σ : Type} (app : σ → Nat → TlvV → σ) (st : σ) : run app [] st = .ok st := by
  unfold run; exact tlvLoop_done _ _ _ _ _ _ (by simp)

theorem run_cons {σ : Type} (app : σ → Nat → TlvV → σ) (tlv rest : Bytes) (t l : Nat) (val : TlvV) (st : σ)
    (hp : paramDecode (tlv ++ rest) 0 = .ok (t, l, val)) (hl : tlv.length = 2 + l) :
    run app (tlv ++ rest) st = run app rest (app st t val) := by
  unfold run
  have hlen : (tlv ++ rest).length = (rest.length + l + 1) + 1 := by simp; omega
  rw [hlen, tlvLoop_succ _ _ _ _ _ _ (by omega), hp]
  simp only [Py.bind_ok]
  have h0 : 0 + 2 + l = tlv.length + 0 := by omega
  have h1 : rest.length + l + 1 + 1 - 2 - l = rest.length := by omega
  rw [h0, h1, tlvLoop_shift]
  exact tlvLoop_fuel _ _ _ _ _ _ _ (by omega) (by omega)

/-- the loop as started by the class decoders, after a two-octet header -/
theorem tlvLoop_hdr {σ : Type} (app : σ → Nat → TlvV → σ) (t d s : Nat) (body : Bytes) (st : σ) :
    tlvLoop app ((hdr t d s ++ body).length - 2) (hdr t d s ++ body) (0 + 2) ((hdr t d s ++ body).length - 2) st
      = run app body st := by
  have h : (hdr t d s ++ body).length - 2 = body.length := by simp [hdr]
  have h2 : 0 + 2 = (hdr t d s).length + 0 := by simp [hdr]
  rw [h, h2, tlvLoop_shift]
  rfl

/-! ## single parameters at the head of a buffer -/

theorem paramRaw_head (t : Nat) (v rest : Bytes) :
    paramRaw (t :: v.length :: (v ++ rest)) 0 = .ok (t, v.length, v) := by
  have : 2 + v.length ≤ v.length + rest.length + 1 + 1 := by omega
  simp [paramRaw, structToDecode, wrapExc, unpackBB, unpackS, this]

theorem pd_raw (t : Nat) (v rest : Bytes) (ht : t = 6 ∨ t = 10 ∨ t = 11) :
    paramDecode (t :: v.length :: (v ++ rest)) 0 = .ok (t, v.length, .raw v) := by
  rw [paramDecode_eq, paramRaw_head]
  rcases ht with h | h | h <;> subst h <;> simp

theorem pd_B (t x : Nat) (rest : Bytes) (ht : t = 1 ∨ t = 4) :
    paramDecode (t :: 1 :: x :: rest) 0 = .ok (t, 1, .num x) := by
  have := paramRaw_head t [x] rest
  rw [paramDecode_eq]
  simp only [List.length_singleton, List.singleton_append] at this
  rw [this]
  rcases ht with h | h <;> subst h <;> simp [unpackB]

theorem pd_rw (x : Nat) (rest : Bytes) : paramDecode (5 :: 1 :: x :: rest) 0 = .ok (5, 1, .num (x % 16)) := by
  have := paramRaw_head 5 [x] rest
  rw [paramDecode_eq]
  simp only [List.length_singleton, List.singleton_append] at this
  rw [this]
  simp [unpackB]

theorem pd_opt (x : Nat) (rest : Bytes) : paramDecode (7 :: 1 :: x :: rest) 0 = .ok (7, 1, .num (x % 8)) := by
  have := paramRaw_head 7 [x] rest
  rw [paramDecode_eq]
  simp only [List.length_singleton, List.singleton_append] at this
  rw [this]
  simp [unpackB]

theorem pd_miux (a b : Nat) (rest : Bytes) :
    paramDecode (2 :: 2 :: a :: b :: rest) 0 = .ok (2, 2, .num ((a * 256 + b) % 2048)) := by
  have := paramRaw_head 2 [a, b] rest
  rw [paramDecode_eq]
  simp only [List.length_cons, List.length_nil, List.cons_append, List.nil_append] at this
  rw [this]
  simp [unpackH]

theorem pd_wks (a b : Nat) (rest : Bytes) :
    paramDecode (3 :: 2 :: a :: b :: rest) 0 = .ok (3, 2, .num (a * 256 + b)) := by
  have := paramRaw_head 3 [a, b] rest
  rw [paramDecode_eq]
  simp only [List.length_cons, List.length_nil, List.cons_append, List.nil_append] at this
  rw [this]
  simp [unpackH]

theorem pd_sdres (a b : Nat) (rest : Bytes) :
    paramDecode (9 :: 2 :: a :: b :: rest) 0 = .ok (9, 2, .sdres a b) := by
  have := paramRaw_head 9 [a, b] rest
  rw [paramDecode_eq]
  simp only [List.length_cons, List.length_nil, List.cons_append, List.nil_append] at this
  rw [this]
  simp [unpackBB]

theorem pd_sdreq (tid : Nat) (sn rest : Bytes) :
    paramDecode (8 :: (1 + sn.length) :: tid :: (sn ++ rest)) 0 = .ok (8, 1 + sn.length, .sdreq tid sn) := by
  have := paramRaw_head 8 (tid :: sn) rest
  rw [paramDecode_eq]
  have e : (tid :: sn).length = 1 + sn.length := by simp; omega
  rw [e] at this
  simp only [List.cons_append] at this
  rw [this]
  have h2 : 1 + sn.length ≤ sn.length + 1 := by omega
  simp [unpackB, unpackS, h2]

/-! ## optional parameters in front of the rest `R` of a parameter list -/

theorem tlvLoop_hdr' {σ : Type} (app : σ → Nat → TlvV → σ) (t d s : Nat) (body : Bytes) (st : σ) :
    tlvLoop app (2 + body.length - 2) (hdr t d s ++ body) (0 + 2) (2 + body.length - 2) st = run app body st := by
  have := tlvLoop_hdr app t d s body st
  rw [hdr_len] at this
  exact this

/-- state after an optional parameter -/
def optSt {α σ : Type} (o : Option α) (st : σ) (f : α → σ) : σ :=
  match o with
  | none => st
  | some v => f v

theorem run_miux {app : ConnSt → Nat → TlvV → ConnSt}
    (happ : ∀ st x, app st 2 (.num x) = { st with miu := 128 + x })
    (miu : Nat) (h1 : 128 ≤ miu) (h2 : miu ≤ 128 + 0x7FF) :
    ∃ A, (if miu ≠ 0 ∧ miu > 128 then encH 2 (miu - 128) else pure []) = .ok A ∧
      ∀ (R : Bytes) (st : ConnSt), st.miu = 128 → run app (A ++ R) st = run app R { st with miu := miu } := by
  by_cases hm : miu > 128
  · refine ⟨[2, 2, (miu - 128) / 256, (miu - 128) % 256], ?_, ?_⟩
    · have c : miu ≠ 0 ∧ miu > 128 := by omega
      have c2 : ¬ (miu - 128 > 65535) := by omega
      rw [if_pos c]
      simp only [encH, c2, if_false, Py.pure_eq]
    · intro R st hst
      rw [run_cons app _ R 2 2 _ st (pd_miux _ _ R) rfl, happ]
      have e : 128 + ((miu - 128) / 256 * 256 + (miu - 128) % 256) % 2048 = miu := by omega
      rw [e]
  · refine ⟨[], ?_, ?_⟩
    · have c : ¬ (miu ≠ 0 ∧ miu > 128) := by omega
      simp only [c, if_false, Py.pure_eq]
    · intro R st hst
      have : miu = 128 := by omega
      subst this
      cases st
      simp_all

theorem run_rw {app : ConnSt → Nat → TlvV → ConnSt}
    (happ : ∀ st x, app st 5 (.num x) = { st with rw := x })
    (rw : Nat) (h1 : rw ≤ 15) :
    ∃ B, (if rw ≠ 1 then encB 5 rw else pure []) = .ok B ∧
      ∀ (R : Bytes) (st : ConnSt), st.rw = 1 → run app (B ++ R) st = run app R { st with rw := rw } := by
  by_cases hm : rw ≠ 1
  · refine ⟨[5, 1, rw], ?_, ?_⟩
    · have c2 : ¬ (rw > 255) := by omega
      rw [if_pos hm]
      simp only [encB, c2, if_false, Py.pure_eq]
    · intro R st hst
      rw [run_cons app _ R 5 1 _ st (pd_rw _ R) rfl, happ]
      have e : rw % 16 = rw := by omega
      rw [e]
  · refine ⟨[], ?_, ?_⟩
    · rw [if_neg hm]; rfl
    · intro R st hst
      have : rw = 1 := by omega
      subst this
      cases st
      simp_all

/-- `if v: data += Parameter.encode(T, v)` for an octet string parameter of type 6, 10 or 11 -/
theorem run_truthy {σ : Type} (app : σ → Nat → TlvV → σ) (t : Nat) (ht : t = 6 ∨ t = 10 ∨ t = 11)
    (o : Option Bytes) (ho : ∀ v, o = some v → v ≠ [] ∧ v.length ≤ 255) :
    ∃ C, truthyTlv t o = .ok C ∧
      ∀ (R : Bytes) (st : σ), run app (C ++ R) st = run app R (optSt o st (fun v => app st t (.raw v))) := by
  cases o with
  | none => exact ⟨[], rfl, fun _ _ => rfl⟩
  | some v =>
    obtain ⟨hne, hl⟩ := ho v rfl
    refine ⟨[t, v.length] ++ v, ?_, ?_⟩
    · have c1 : v.isEmpty = false := by cases v <;> simp_all
      have c2 : ¬ (v.length > 255) := by omega
      simp only [truthyTlv, c1, encS, c2, if_false, Py.pure_eq, Bool.false_eq_true]
    · intro R st
      exact run_cons app ([t, v.length] ++ v) R t v.length (.raw v) st
        (by simpa using pd_raw t v R ht) (by simp; omega)

theorem run_optB {σ : Type} (app : σ → Nat → TlvV → σ) (t : Nat) (ht : t = 1 ∨ t = 4)
    (o : Option Nat) (ho : ∀ v, o = some v → v ≤ 255) :
    ∃ A, optTlv (encB t) o = .ok A ∧
      ∀ (R : Bytes) (st : σ), run app (A ++ R) st = run app R (optSt o st (fun v => app st t (.num v))) := by
  cases o with
  | none => exact ⟨[], rfl, fun _ _ => rfl⟩
  | some v =>
    refine ⟨[t, 1, v], ?_, ?_⟩
    · have c2 : ¬ (v > 255) := by have := ho v rfl; omega
      simp only [optTlv, encB, c2, if_false, Py.pure_eq]
    · intro R st
      exact run_cons app [t, 1, v] R t 1 (.num v) st (pd_B t v R ht) rfl

theorem run_optOpt {σ : Type} (app : σ → Nat → TlvV → σ)
    (o : Option Nat) (ho : ∀ v, o = some v → v ≤ 7) :
    ∃ A, optTlv (encB 7) o = .ok A ∧
      ∀ (R : Bytes) (st : σ), run app (A ++ R) st = run app R (optSt o st (fun v => app st 7 (.num v))) := by
  cases o with
  | none => exact ⟨[], rfl, fun _ _ => rfl⟩
  | some v =>
    have hv := ho v rfl
    refine ⟨[7, 1, v], ?_, ?_⟩
    · have c2 : ¬ (v > 255) := by omega
      simp only [optTlv, encB, c2, if_false, Py.pure_eq]
    · intro R st
      have := run_cons app [7, 1, v] R 7 1 (.num (v % 8)) st (pd_opt v R) rfl
      rw [this]
      have : v % 8 = v := by omega
      simp only [this, optSt]

theorem run_optMiux {σ : Type} (app : σ → Nat → TlvV → σ)
    (o : Option Nat) (ho : ∀ v, o = some v → v ≤ 0x7FF) :
    ∃ A, optTlv (encH 2) o = .ok A ∧
      ∀ (R : Bytes) (st : σ), run app (A ++ R) st = run app R (optSt o st (fun v => app st 2 (.num v))) := by
  cases o with
  | none => exact ⟨[], rfl, fun _ _ => rfl⟩
  | some v =>
    have hv := ho v rfl
    refine ⟨[2, 2, v / 256, v % 256], ?_, ?_⟩
    · have c2 : ¬ (v > 65535) := by omega
      simp only [optTlv, encH, c2, if_false, Py.pure_eq]
    · intro R st
      have := run_cons app [2, 2, v / 256, v % 256] R 2 2 _ st (pd_miux _ _ R) rfl
      rw [this]
      have : (v / 256 * 256 + v % 256) % 2048 = v := by omega
      simp only [this, optSt]

theorem run_optWks {σ : Type} (app : σ → Nat → TlvV → σ)
    (o : Option Nat) (ho : ∀ v, o = some v → v ≤ 0xFFFF) :
    ∃ A, optTlv (encH 3) o = .ok A ∧
      ∀ (R : Bytes) (st : σ), run app (A ++ R) st = run app R (optSt o st (fun v => app st 3 (.num v))) := by
  cases o with
  | none => exact ⟨[], rfl, fun _ _ => rfl⟩
  | some v =>
    have hv := ho v rfl
    refine ⟨[3, 2, v / 256, v % 256], ?_, ?_⟩
    · have c2 : ¬ (v > 65535) := by omega
      simp only [optTlv, encH, c2, if_false, Py.pure_eq]
    · intro R st
      have := run_cons app [3, 2, v / 256, v % 256] R 3 2 _ st (pd_wks _ _ R) rfl
      rw [this]
      have : v / 256 * 256 + v % 256 = v := by omega
      simp only [this, optSt]

theorem run_sdreq (q : List (Nat × Bytes)) (hq : ∀ x ∈ q, x.1 ≤ 255 ∧ x.2.length ≤ 254) :
    ∃ A, encList encSdreq q = .ok A ∧
      ∀ (R : Bytes) (st : SnlSt), run snlApp (A ++ R) st = run snlApp R { st with sdreq := st.sdreq ++ q } := by
  induction q with
  | nil => exact ⟨[], rfl, fun _ _ => by simp⟩
  | cons x xs ih =>
    obtain ⟨tid, sn⟩ := x
    have hx := hq (tid, sn) (by simp)
    obtain ⟨A, hA, hrun⟩ := ih (fun y hy => hq y (by simp [hy]))
    refine ⟨[8, 1 + sn.length, tid] ++ sn ++ A, ?_, ?_⟩
    · have c1 : ¬ (sn.length > 254) := by simp at hx; omega
      have c2 : ¬ (tid > 255) := by simp at hx; omega
      simp only [encList, encSdreq, c1, c2, if_false, Py.pure_eq, Py.bind_ok, hA]
    · intro R st
      have := run_cons snlApp ([8, 1 + sn.length, tid] ++ sn) (A ++ R) 8 (1 + sn.length) (.sdreq tid sn) st
        (by simpa using pd_sdreq tid sn (A ++ R)) (by simp; omega)
      have happ : snlApp st 8 (.sdreq tid sn) = { st with sdreq := st.sdreq ++ [(tid, sn)] } := rfl
      rw [List.append_assoc, this, happ, hrun]
      simp

theorem run_sdres (q : List (Nat × Nat)) (hq : ∀ x ∈ q, x.1 ≤ 255 ∧ x.2 ≤ 255) :
    ∃ A, encList encSdres q = .ok A ∧
      ∀ (R : Bytes) (st : SnlSt), run snlApp (A ++ R) st = run snlApp R { st with sdres := st.sdres ++ q } := by
  induction q with
  | nil => exact ⟨[], rfl, fun _ _ => by simp⟩
  | cons x xs ih =>
    obtain ⟨tid, sap⟩ := x
    have hx := hq (tid, sap) (by simp)
    obtain ⟨A, hA, hrun⟩ := ih (fun y hy => hq y (by simp [hy]))
    refine ⟨[9, 2, tid, sap] ++ A, ?_, ?_⟩
    · have c1 : ¬ (tid > 255 ∨ sap > 255) := by simp at hx; omega
      simp only [encList, encSdres, c1, if_false, Py.pure_eq, Py.bind_ok, hA]
    · intro R st
      have := run_cons snlApp [9, 2, tid, sap] (A ++ R) 9 2 (.sdres tid sap) st (pd_sdres tid sap (A ++ R)) rfl
      have happ : snlApp st 9 (.sdres tid sap) = { st with sdres := st.sdres ++ [(tid, sap)] } := rfl
      rw [List.append_assoc, this, happ, hrun]
      simp

theorem sliceN_hdr (t d s : Nat) (body : Bytes) :
    sliceN (hdr t d s ++ body) (0 + 2) (0 + (2 + body.length)) = body := by
  simp [sliceN, hdr]

/-! ## round trip per PDU class -/

/-- shape of every class proof: the encoding is `hdr t d s ++ body`, and the class decoder gives `p` back -/
theorem nested_of_dec {t d s : Nat} {dec : Bytes → Nat → Nat → Py SPdu} {p : SPdu} (ht : t ≤ 15) (hd : d ≤ 63)
    (hs : s ≤ 63) (hk : kindOf t = .simple dec) (body : Bytes)
    (h : dec (hdr t d s ++ body) 0 (2 + body.length) = .ok p) :
    decodeNested (hdr t d s ++ body) 0 (hdr t d s ++ body).length = .ok p := by
  rw [decodeNested_hdr ht hd hs hk, hdr_len]
  exact h

theorem roundtripS (p : SPdu) (hv : ValidS p) :
    ∃ b, encodeS p = .ok b ∧ decodeNested b 0 b.length = .ok p := by
  cases p with
  | symm d s =>
    obtain ⟨rfl, rfl⟩ := hv
    exact ⟨[0, 0], by decide, by decide⟩
  | pax d s ver miux wks lto opt =>
    obtain ⟨rfl, rfl, h1, h2, h3, h4, h5⟩ := hv
    obtain ⟨A, hA, rA⟩ := run_optB paxApp 1 (Or.inl rfl) ver h1
    obtain ⟨B, hB, rB⟩ := run_optMiux paxApp miux h2
    obtain ⟨C, hC, rC⟩ := run_optWks paxApp wks h3
    obtain ⟨D, hD, rD⟩ := run_optB paxApp 4 (Or.inr rfl) lto h4
    obtain ⟨E, hE, rE⟩ := run_optOpt paxApp opt h5
    have c : ¬ ((0 : Nat) ≠ 0 ∨ (0 : Nat) ≠ 0) := by decide
    refine ⟨hdr 1 0 0 ++ (A ++ (B ++ (C ++ (D ++ (E ++ []))))), ?_, ?_⟩
    · simp only [encodeS, if_neg c, encodeHeader_eq (by omega : 1 ≤ 15) (by omega : 0 ≤ 63) (by omega : 0 ≤ 63),
        Py.bind_ok, hA, hB, hC, hD, hE, Py.pure_eq, List.append_assoc, List.append_nil]
    · apply nested_of_dec (by omega) (by omega) (by omega) (rfl : kindOf 1 = .simple decPax)
      simp only [decPax, decodeHeader_hdr (by omega : 1 ≤ 15) (by omega : 0 ≤ 63) (by omega : 0 ≤ 63), Py.bind_ok,
        tlvLoop_hdr', if_neg c]
      rw [rA, rB, rC, rD, rE, run_nil]
      cases ver <;> cases miux <;> cases wks <;> cases lto <;> cases opt <;> rfl
  | ui d s data =>
    obtain ⟨hd, hs⟩ := hv
    refine ⟨hdr 3 d s ++ data, by simp [encodeS, encodeHeader_eq (by omega : 3 ≤ 15) hd hs], ?_⟩
    apply nested_of_dec (by omega) hd hs (rfl : kindOf 3 = .simple decUi)
    simp only [decUi, decodeHeader_hdr (by omega : 3 ≤ 15) hd hs, Py.bind_ok, sliceN_hdr, Py.pure_eq]
  | connect d s miu rw sn =>
    obtain ⟨hd, hs, h1, h2, h3, h4⟩ := hv
    have a1 : ∀ (st : ConnSt) x, connApp st 2 (.num x) = { st with miu := 128 + x } := fun _ _ => rfl
    have a2 : ∀ (st : ConnSt) x, connApp st 5 (.num x) = { st with rw := x } := fun _ _ => rfl
    obtain ⟨C, hC, rC⟩ := run_truthy connApp 6 (Or.inl rfl) sn h4
    obtain ⟨B, hB, rB⟩ := run_rw a2 rw h3
    obtain ⟨A, hA, rA⟩ := run_miux a1 miu h1 h2
    simp only [Py.pure_eq] at hA hB
    refine ⟨hdr 4 d s ++ (A ++ (B ++ (C ++ []))), ?_, ?_⟩
    · simp only [encodeS, encodeHeader_eq (by omega : 4 ≤ 15) hd hs, Py.bind_ok, hA, hB, hC, Py.pure_eq,
        List.append_assoc, List.append_nil]
    · apply nested_of_dec (by omega) hd hs (rfl : kindOf 4 = .simple decConnect)
      simp only [decConnect, decodeHeader_hdr (by omega : 4 ≤ 15) hd hs, Py.bind_ok, tlvLoop_hdr']
      rw [rA _ _ rfl, rB _ _ rfl, rC, run_nil]
      cases sn <;> rfl
  | disc d s =>
    obtain ⟨hd, hs⟩ := hv
    refine ⟨hdr 5 d s ++ [], by simp [encodeS, encodeHeader_eq (by omega : 5 ≤ 15) hd hs], ?_⟩
    apply nested_of_dec (by omega) hd hs (rfl : kindOf 5 = .simple decDisc)
    simp only [decDisc, decodeHeader_hdr (by omega : 5 ≤ 15) hd hs, Py.bind_ok, Py.pure_eq]
  | cc d s miu rw =>
    obtain ⟨hd, hs, h1, h2, h3⟩ := hv
    have a1 : ∀ (st : ConnSt) x, ccApp st 2 (.num x) = { st with miu := 128 + x } := fun _ _ => rfl
    have a2 : ∀ (st : ConnSt) x, ccApp st 5 (.num x) = { st with rw := x } := fun _ _ => rfl
    obtain ⟨B, hB, rB⟩ := run_rw a2 rw h3
    obtain ⟨A, hA, rA⟩ := run_miux a1 miu h1 h2
    simp only [Py.pure_eq] at hA hB
    refine ⟨hdr 6 d s ++ (A ++ (B ++ [])), ?_, ?_⟩
    · simp only [encodeS, encodeHeader_eq (by omega : 6 ≤ 15) hd hs, Py.bind_ok, hA, hB, Py.pure_eq,
        List.append_assoc, List.append_nil]
    · apply nested_of_dec (by omega) hd hs (rfl : kindOf 6 = .simple decCc)
      simp only [decCc, decodeHeader_hdr (by omega : 6 ≤ 15) hd hs, Py.bind_ok, tlvLoop_hdr']
      rw [rA _ _ rfl, rB _ _ rfl, run_nil]
      rfl
  | dm d s reason =>
    obtain ⟨hd, hs, hr⟩ := hv
    have c : ¬ (reason > 255) := by omega
    refine ⟨hdr 7 d s ++ [reason], by simp [encodeS, encodeHeader_eq (by omega : 7 ≤ 15) hd hs, packB, c], ?_⟩
    apply nested_of_dec (by omega) hd hs (rfl : kindOf 7 = .simple decDm)
    have : unpackB (hdr 7 d s ++ [reason]) (0 + 2) = .ok reason := by simp [hdr, unpackB]
    simp [decDm, decodeHeader_hdr (by omega : 7 ≤ 15) hd hs [reason] 1, this]
  | frmr d s flags ptype ns nr vs vr vsa vra =>
    obtain ⟨hd, hs, h1, h2, h3, h4, h5, h6, h7, h8⟩ := hv
    have e0 : orShl flags 4 ptype = flags * 16 + ptype := by rw [orShl_eq _ _ _ (by omega)]
    have e1 : orShl ns 4 nr = ns * 16 + nr := by rw [orShl_eq _ _ _ (by omega)]
    have e2 : orShl vs 4 vr = vs * 16 + vr := by rw [orShl_eq _ _ _ (by omega)]
    have e3 : orShl vsa 4 vra = vsa * 16 + vra := by rw [orShl_eq _ _ _ (by omega)]
    have c : ¬ (flags * 16 + ptype > 255 ∨ ns * 16 + nr > 255 ∨ vs * 16 + vr > 255 ∨ vsa * 16 + vra > 255) := by
      omega
    refine ⟨hdr 8 d s ++ [flags * 16 + ptype, ns * 16 + nr, vs * 16 + vr, vsa * 16 + vra], ?_, ?_⟩
    · simp only [encodeS, encodeHeader_eq (by omega : 8 ≤ 15) hd hs, Py.bind_ok, e0, e1, e2, e3, c, if_false,
        Py.pure_eq]
    · apply nested_of_dec (by omega) hd hs (rfl : kindOf 8 = .simple decFrmr)
      have : unpackBBBB (hdr 8 d s ++ [flags * 16 + ptype, ns * 16 + nr, vs * 16 + vr, vsa * 16 + vra]) (0 + 2)
          = .ok (flags * 16 + ptype, ns * 16 + nr, vs * 16 + vr, vsa * 16 + vra) := by simp [hdr, unpackBBBB]
      have d0 : (flags * 16 + ptype) / 16 = flags := by omega
      have d1 : (flags * 16 + ptype) % 16 = ptype := by omega
      have d2 : (ns * 16 + nr) / 16 = ns := by omega
      have d3 : (ns * 16 + nr) % 16 = nr := by omega
      have d4 : (vs * 16 + vr) / 16 = vs := by omega
      have d5 : (vs * 16 + vr) % 16 = vr := by omega
      have d6 : (vsa * 16 + vra) / 16 = vsa := by omega
      have d7 : (vsa * 16 + vra) % 16 = vra := by omega
      simp [decFrmr, decodeHeader_hdr (by omega : 8 ≤ 15) hd hs _ 4, this, d0, d1, d2, d3, d4, d5, d6, d7]
  | snl d s sdreq sdres =>
    obtain ⟨rfl, rfl, h1, h2⟩ := hv
    obtain ⟨B, hB, rB⟩ := run_sdres sdres h2
    obtain ⟨A, hA, rA⟩ := run_sdreq sdreq h1
    refine ⟨hdr 9 1 1 ++ (A ++ (B ++ [])), ?_, ?_⟩
    · simp [encodeS, encodeHeader_eq (by omega : 9 ≤ 15) (by omega : 1 ≤ 63) (by omega : 1 ≤ 63), hA, hB]
    · apply nested_of_dec (by omega) (by omega) (by omega) (rfl : kindOf 9 = .simple decSnl)
      simp only [decSnl, decodeHeader_hdr (by omega : 9 ≤ 15) (by omega : 1 ≤ 63) (by omega : 1 ≤ 63), Py.bind_ok,
        tlvLoop_hdr']
      rw [rA, rB, run_nil]
      simp
  | dps d s ecpk rn =>
    obtain ⟨rfl, rfl, h1, h2⟩ := hv
    obtain ⟨B, hB, rB⟩ := run_truthy dpsApp 11 (Or.inr (Or.inr rfl)) rn h2
    obtain ⟨A, hA, rA⟩ := run_truthy dpsApp 10 (Or.inr (Or.inl rfl)) ecpk h1
    have c : ¬ ((0 : Nat) ≠ 0 ∨ (0 : Nat) ≠ 0) := by decide
    refine ⟨hdr 10 0 0 ++ (A ++ (B ++ [])), ?_, ?_⟩
    · simp only [encodeS, if_neg c, encodeHeader_eq (by omega : 10 ≤ 15) (by omega : 0 ≤ 63) (by omega : 0 ≤ 63),
        Py.bind_ok, hA, hB, Py.pure_eq, List.append_assoc, List.append_nil]
    · apply nested_of_dec (by omega) (by omega) (by omega) (rfl : kindOf 10 = .simple decDps)
      simp only [decDps, decodeHeader_hdr (by omega : 10 ≤ 15) (by omega : 0 ≤ 63) (by omega : 0 ≤ 63), Py.bind_ok,
        tlvLoop_hdr', if_neg c]
      rw [rA, rB, run_nil]
      cases ecpk <;> cases rn <;> rfl
  | info d s ns nr data =>
    obtain ⟨hd, hs, h1, h2⟩ := hv
    refine ⟨hdr 12 d s ++ (ns * 16 + nr) :: data, ?_, ?_⟩
    · simp [encodeS, encodeHeaderN_eq (by omega : 12 ≤ 15) hd hs h1 h2]
    · apply nested_of_dec (by omega) hd hs (rfl : kindOf 12 = .simple decInfo)
      have e : 2 + ((ns * 16 + nr) :: data).length = 3 + data.length := by simp; omega
      have sl : sliceN (hdr 12 d s ++ (ns * 16 + nr) :: data) (0 + 3) (0 + (3 + data.length)) = data := by
        simp [sliceN, hdr]
      simp only [decInfo, e, decodeHeaderN_hdr (by omega : 12 ≤ 15) hd hs h1 h2, Py.bind_ok, sl, Py.pure_eq]
  | rr d s nr =>
    obtain ⟨hd, hs, h2⟩ := hv
    refine ⟨hdr 13 d s ++ [0 * 16 + nr], ?_, ?_⟩
    · simp [encodeS, encodeHeaderN_eq (by omega : 13 ≤ 15) hd hs (by omega : 0 ≤ 15) h2]
    · apply nested_of_dec (by omega) hd hs (rfl : kindOf 13 = .simple decRr)
      have e : 2 + [0 * 16 + nr].length = 3 + 0 := rfl
      simp only [decRr, e, decodeHeaderN_hdr (by omega : 13 ≤ 15) hd hs (by omega : 0 ≤ 15) h2, Py.bind_ok, Py.pure_eq]
  | rnr d s nr =>
    obtain ⟨hd, hs, h2⟩ := hv
    refine ⟨hdr 14 d s ++ [0 * 16 + nr], ?_, ?_⟩
    · simp [encodeS, encodeHeaderN_eq (by omega : 14 ≤ 15) hd hs (by omega : 0 ≤ 15) h2]
    · apply nested_of_dec (by omega) hd hs (rfl : kindOf 14 = .simple decRnr)
      have e : 2 + [0 * 16 + nr].length = 3 + 0 := rfl
      simp only [decRnr, e, decodeHeaderN_hdr (by omega : 14 ≤ 15) hd hs (by omega : 0 ≤ 15) h2, Py.bind_ok, Py.pure_eq]
  | unknown t d s payload =>
    obtain ⟨ht, hd, hs⟩ := hv
    have ht' : t ≤ 15 := by omega
    have hk : kindOf t = .simple decUnknown := by rcases ht with rfl | rfl <;> rfl
    refine ⟨hdr t d s ++ payload, by simp [encodeS, encodeHeader_eq ht' hd hs], ?_⟩
    apply nested_of_dec ht' hd hs hk
    have i0 : idxN (hdr t d s ++ payload) 0 = .ok (d * 4 + t / 4) := by simp [hdr, idxN]
    have i1 : idxN (hdr t d s ++ payload) (0 + 1) = .ok (t % 4 * 64 + s) := by simp [hdr, idxN]
    have e : ((d * 4 + t / 4) * 4 + (t % 4 * 64 + s) / 64) % 16 = t := by omega
    simp only [decUnknown, decodeHeader_hdr ht' hd hs, Py.bind_ok, i0, i1, e, sliceN_hdr, Py.pure_eq]

/-! ## aggregates -/

theorem agfLoop_done (fuel : Nat) (d : Bytes) (off : Nat) (acc : List SPdu) :
    agfLoop fuel d off 0 acc = .ok acc := by
  rw [agfLoop.eq_def]; simp

theorem agfLoop_succ (fuel : Nat) (d : Bytes) (off size : Nat) (acc : List SPdu) (h : size ≠ 0) :
    agfLoop (fuel + 1) d off size acc =
      (structToDecode (unpackH d off) >>= fun n => decodeNested d (off + 2) n >>= fun p =>
        agfLoop fuel d (off + 2 + n) (size - 2 - n) (acc ++ [p])) := by
  rw [agfLoop.eq_def]; simp [h]

theorem unpackH_shift (pre d : Bytes) (off : Nat) : unpackH (pre ++ d) (pre.length + off) = unpackH d off := by
  unfold unpackH
  rw [getElem?_shift, Nat.add_assoc, getElem?_shift]

theorem decodeNested_shift (pre d : Bytes) (off n : Nat) :
    decodeNested (pre ++ d) (pre.length + off) n = decodeNested d off n := by
  unfold decodeNested decodePre
  have c : (pre.length + off + n > (pre ++ d).length) ↔ (off + n > d.length) := by simp; omega
  have sl : sliceN (pre ++ d) (pre.length + off) (pre.length + off + n) = sliceN d off (off + n) := by
    have e1 : pre.length + off + n - (pre.length + off) = n := by omega
    have e2 : off + n - off = n := by omega
    simp only [sliceN, List.drop_append, List.drop_eq_nil_of_le (Nat.le_add_right _ _), Nat.add_sub_cancel_left,
      List.nil_append, e1, e2]
  simp only [c, sl]

theorem agfLoop_shift (fuel : Nat) (pre d : Bytes) (off size : Nat) (acc : List SPdu) :
    agfLoop fuel (pre ++ d) (pre.length + off) size acc = agfLoop fuel d off size acc := by
  induction fuel generalizing off size acc with
  | zero =>
    by_cases hs : size = 0
    · subst hs; rw [agfLoop_done, agfLoop_done]
    · rw [agfLoop.eq_def, agfLoop.eq_def 0 d]
  | succ k ih =>
    by_cases hs : size = 0
    · subst hs; rw [agfLoop_done, agfLoop_done]
    · rw [agfLoop_succ _ _ _ _ _ hs, agfLoop_succ _ _ _ _ _ hs, unpackH_shift]
      congr 1
      funext n
      have e1 : pre.length + off + 2 = pre.length + (off + 2) := by omega
      rw [e1, decodeNested_shift]
      congr 1
      funext p
      have e2 : pre.length + (off + 2) + n = pre.length + (off + 2 + n) := by omega
      rw [e2]
      exact ih _ _ _

theorem agf_items (items : List SPdu) (hv : ∀ p ∈ items, ValidS p ∧ lenS p ≤ 65535) :
    ∃ es body, encodeAll items = .ok es ∧ agfJoin es = .ok body ∧
      ∀ (fuel : Nat) (acc : List SPdu), body.length ≤ fuel →
        agfLoop fuel body 0 body.length acc = .ok (acc ++ items) := by
  induction items with
  | nil => exact ⟨[], [], rfl, rfl, fun fuel acc _ => by simp [agfLoop_done]⟩
  | cons p ps ih =>
    obtain ⟨hp, hpl⟩ := hv p (by simp)
    obtain ⟨es, body, h1, h2, h3⟩ := ih (fun q hq => hv q (by simp [hq]))
    obtain ⟨e, he, hdec⟩ := roundtripS p hp
    have hlen : e.length ≤ 65535 := by rw [← lenS_eq he]; exact hpl
    have c : ¬ (e.length > 65535) := by omega
    refine ⟨e :: es, [e.length / 256, e.length % 256] ++ e ++ body, ?_, ?_, ?_⟩
    · simp only [encodeAll, he, h1, Py.bind_ok, Py.pure_eq]
    · simp only [agfJoin, c, if_false, h2, Py.bind_ok, Py.pure_eq]
    · intro fuel acc hf
      have hl : ([e.length / 256, e.length % 256] ++ e ++ body).length = e.length + body.length + 2 := by
        simp
      obtain ⟨k, rfl⟩ : ∃ k, fuel = k + 1 := ⟨fuel - 1, by omega⟩
      rw [agfLoop_succ _ _ _ _ _ (by omega)]
      have hu : unpackH ([e.length / 256, e.length % 256] ++ e ++ body) 0 = .ok e.length := by
        have : e.length / 256 * 256 + e.length % 256 = e.length := by omega
        simp [unpackH, this]
      have hn : decodeNested ([e.length / 256, e.length % 256] ++ e ++ body) (0 + 2) e.length = .ok p := by
        have := decodeNested_local [e.length / 256, e.length % 256] e body
        simp only [List.length_cons, List.length_nil] at this
        rw [show 0 + 2 = 0 + 1 + 1 from rfl, this, hdec]
      simp only [hu, structToDecode, wrapExc, Py.bind_ok, hn]
      have e3 : 0 + 2 + e.length = ([e.length / 256, e.length % 256] ++ e).length + 0 := by simp; omega
      have e4 : ([e.length / 256, e.length % 256] ++ e ++ body).length - 2 - e.length = body.length := by omega
      rw [e3, e4, agfLoop_shift, h3 k (acc ++ [p]) (by omega)]
      simp

theorem roundtrip (p : Pdu) (hv : Valid p) : ∃ b, encode p = .ok b ∧ decode b = .ok p := by
  cases p with
  | simple p =>
    obtain ⟨b, he, hd⟩ := roundtripS p hv
    exact ⟨b, he, decodeAt_of_nested hd⟩
  | agf d s items =>
    obtain ⟨rfl, rfl, hitems⟩ := hv
    obtain ⟨es, body, h1, h2, h3⟩ := agf_items items hitems
    have c : ¬ ((0 : Nat) ≠ 0 ∨ (0 : Nat) ≠ 0) := by decide
    refine ⟨hdr 2 0 0 ++ body, ?_, ?_⟩
    · simp only [encode, if_neg c, encodeHeader_eq (by omega : 2 ≤ 15) (by omega : 0 ≤ 63) (by omega : 0 ≤ 63),
        Py.bind_ok, h1, h2, Py.pure_eq]
    · unfold decode decodeAt
      rw [decodePre_hdr (by omega) (by omega) (by omega)]
      simp only [Py.bind_ok, show kindOf 2 = Kind.agf from rfl, hdr_len, decAgf,
        decodeHeader_hdr (by omega : 2 ≤ 15) (by omega : 0 ≤ 63) (by omega : 0 ≤ 63), if_neg c]
      have e1 : 2 + body.length - 2 = body.length := by omega
      have e2 : 0 + 2 = (hdr 2 0 0).length + 0 := rfl
      rw [e1, e2, agfLoop_shift, h3 body.length [] (Nat.le_refl _)]
      simp

end Impl
end NfcVerif.Pdu
