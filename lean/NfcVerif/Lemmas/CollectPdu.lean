import NfcVerif.Lemmas.Collect
import NfcVerif.Lemmas.PduRound
/-! Lemmas for C10: the size-level PDUs of `Model/Collect.lean` are the sizes of the byte-level PDUs of
`Model/Pdu.lean` (property C11), and an aggregate of valid PDUs decodes to exactly its items. -/
namespace NfcVerif.Collect
open NfcVerif.Pdu

def kindOfS : SPdu → Kind
  | .symm .. => .symm | .pax .. => .pax | .ui .. => .ui | .connect .. => .connect | .disc .. => .disc
  | .cc .. => .cc | .dm .. => .dm | .frmr .. => .frmr | .snl .. => .snl | .dps .. => .dps | .info .. => .i
  | .rr .. => .rr | .rnr .. => .rnr | .unknown .. => .other

def hdrOfS : SPdu → Nat
  | .info .. | .rr .. | .rnr .. => 3
  | _ => 2

/-- what `collect()` sees of a PDU: its type, `header_size` and `len()` -/
def sizeOf (p : SPdu) : QPdu := ⟨kindOfS p, hdrOfS p, Impl.lenS p, 0, 0, 0⟩

theorem sumMap_eq {α} (f : α → Nat) (l : List α) : Impl.sumMap f l = (l.map f).sum := by
  induction l with
  | nil => rfl
  | cons x xs ih => simp [Impl.sumMap, ih]

/-- `len()` of an aggregate in the byte-level model is `agfLen` of the size-level model -/
theorem agfLen_sizeOf (items : List SPdu) : Impl.len (.agf 0 0 items) = agfLen (items.map sizeOf) := by
  simp only [Impl.len, agfLen, sumMap_eq, List.map_map]
  rfl

theorem lenS_le_agfLen (items : List SPdu) (p : SPdu) (hp : p ∈ items) :
    Impl.lenS p + 4 ≤ agfLen (items.map sizeOf) := by
  induction items with
  | nil => cases hp
  | cons x xs ih =>
    simp only [agfLen, List.map_cons, List.sum_cons] at ih ⊢
    rcases List.mem_cons.1 hp with rfl | h
    · simp only [sizeOf]; omega
    · have := ih h; omega

/-- an aggregate of valid PDUs whose information field is within a MIU of at most 65535 octets encodes to
exactly `agfLen` octets and decodes to exactly its items, in order -/
theorem agf_roundtrip (items : List SPdu) (M : Nat) (hv : ∀ p ∈ items, ValidS p)
    (hM : agfLen (items.map sizeOf) - 2 ≤ M) (h16 : M ≤ 65535) :
    ∃ b, Impl.encode (.agf 0 0 items) = .ok b ∧ b.length = agfLen (items.map sizeOf) ∧
      Impl.decode b = .ok (.agf 0 0 items) := by
  have hvalid : Valid (.agf 0 0 items) := by
    refine ⟨rfl, rfl, fun p hp => ⟨hv p hp, ?_⟩⟩
    have := lenS_le_agfLen items p hp
    omega
  obtain ⟨b, he, hd⟩ := Impl.roundtrip _ hvalid
  exact ⟨b, he, by rw [← agfLen_sizeOf]; exact (Impl.len_eq he).symm, hd⟩
end NfcVerif.Collect
