import NfcVerif.Lemmas.TlvSync
import NfcVerif.Model.T1Format
namespace NfcVerif.Tlv
open NfcVerif

theorem setSlice_inv (c : Cfg) (m m' : Bytes) (a : Nat) (v : Bytes) (h : setSlice c m a v = .ok m') :
    a + v.length ≤ m.length ∧ m' = writeAt m a v := by
  unfold setSlice at h; split at h
  · rename_i hl; cases h; exact ⟨hl, rfl⟩
  · cases h

/-- a slice assignment changes a byte only inside the slice, and only where the value differs -/
theorem writeAt_changed (m : Bytes) (a : Nat) (v : Bytes) (x : Nat) (h : (writeAt m a v)[x]? ≠ m[x]?) :
    a ≤ x ∧ x < a + v.length ∧ v[x - a]? ≠ m[x]? := by
  rw [writeAt_get] at h
  split at h
  · rename_i hc; exact ⟨hc.1, hc.2.1, h⟩
  · exact absurd rfl h


theorem area_topaz (x : Nat) (h1 : 13 ≤ x) (h2 : x < 104) : Area topazLayout x := by
  refine ⟨by simp [topazLayout]; omega, by simp [topazLayout]; omega, ?_⟩
  simp [topazLayout, inSkip]; omega

theorem area_topaz512 (x : Nat) (h1 : 23 ≤ x) (h2 : x < 104 ∨ (128 ≤ x ∧ x < 512)) : Area topaz512Layout x := by
  refine ⟨by simp [topaz512Layout]; omega, by simp [topaz512Layout]; omega, ?_⟩
  simp [topaz512Layout, inSkip]; omega

theorem formatTopaz_spec (m m' : Bytes) (wipe : Option Nat)
    (hfac : ∀ i, i < 5 → m[8 + i]? = topazHdr[i]?) (h : formatTopaz m wipe = .ok m') :
    m'.length = m.length ∧ ∀ x, m'[x]? ≠ m[x]? → Area topazLayout x := by
  unfold formatTopaz at h
  obtain ⟨x1, h1, h⟩ := Py.bind_eq_ok.1 h
  obtain ⟨hl1, rfl⟩ := setSlice_inv _ _ _ _ _ h1
  have c1 : ∀ x, (writeAt m 8 topazHdr)[x]? ≠ m[x]? → Area topazLayout x := by
    intro x hx
    obtain ⟨a, b, c⟩ := writeAt_changed m 8 topazHdr x hx
    have hb : x < 14 := by simpa [topazHdr] using b
    have : x = 13 := by
      apply Classical.byContradiction; intro hne
      have := hfac (x - 8) (by omega)
      have e : 8 + (x - 8) = x := by omega
      rw [e] at this; exact c this.symm
    subst this; exact area_topaz 13 (by omega) (by omega)
  cases wipe with
  | none =>
    have e := Except.ok.inj h
    subst e; exact ⟨writeAt_length _ _ _, c1⟩
  | some w =>
    simp only at h
    generalize hv : List.replicate 90 (w % 256) = v2 at h
    have hvl : v2.length = 90 := by rw [← hv]; exact List.length_replicate
    obtain ⟨hl2, e⟩ := setSlice_inv _ _ _ _ _ h
    subst e
    refine ⟨by rw [writeAt_length, writeAt_length], fun x hx => ?_⟩
    by_cases h2 : (writeAt (writeAt m 8 topazHdr) 14 v2)[x]? = (writeAt m 8 topazHdr)[x]?
    · rw [h2] at hx; exact c1 x hx
    · obtain ⟨a, b, _⟩ := writeAt_changed _ _ _ x h2
      exact area_topaz x (by omega) (by omega)

theorem formatTopaz512_spec (m m' : Bytes) (wipe : Option Nat)
    (hfac : ∀ i, i < 15 → m[8 + i]? = topaz512Hdr[i]?) (h : formatTopaz512 m wipe = .ok m') :
    m'.length = m.length ∧ ∀ x, m'[x]? ≠ m[x]? → Area topaz512Layout x := by
  unfold formatTopaz512 at h
  obtain ⟨x1, h1, h⟩ := Py.bind_eq_ok.1 h
  obtain ⟨hl1, rfl⟩ := setSlice_inv _ _ _ _ _ h1
  have c1 : ∀ x, (writeAt m 8 topaz512Hdr)[x]? ≠ m[x]? → Area topaz512Layout x := by
    intro x hx
    obtain ⟨a, b, c⟩ := writeAt_changed m 8 topaz512Hdr x hx
    have hb : x < 24 := by simpa [topaz512Hdr] using b
    have : x = 23 := by
      apply Classical.byContradiction; intro hne
      have := hfac (x - 8) (by omega)
      have e : 8 + (x - 8) = x := by omega
      rw [e] at this; exact c this.symm
    subst this; exact area_topaz512 23 (by omega) (by omega)
  cases wipe with
  | none =>
    have e := Except.ok.inj h
    subst e; exact ⟨writeAt_length _ _ _, c1⟩
  | some w =>
    simp only at h
    generalize hv : List.replicate 80 (w % 256) = v2 at h
    generalize hv' : List.replicate 384 (w % 256) = v3 at h
    have hvl : v2.length = 80 := by rw [← hv]; exact List.length_replicate
    have hvl' : v3.length = 384 := by rw [← hv']; exact List.length_replicate
    obtain ⟨x2, h2, h3⟩ := Py.bind_eq_ok.1 h
    obtain ⟨hl2, e2⟩ := setSlice_inv _ _ _ _ _ h2
    subst e2
    obtain ⟨hl3, e3⟩ := setSlice_inv _ _ _ _ _ h3
    subst e3
    refine ⟨by rw [writeAt_length, writeAt_length, writeAt_length], fun x hx => ?_⟩
    by_cases e3 : (writeAt (writeAt (writeAt m 8 topaz512Hdr) 24 v2) 128 v3)[x]?
        = (writeAt (writeAt m 8 topaz512Hdr) 24 v2)[x]?
    · rw [e3] at hx
      by_cases e2 : (writeAt (writeAt m 8 topaz512Hdr) 24 v2)[x]? = (writeAt m 8 topaz512Hdr)[x]?
      · rw [e2] at hx; exact c1 x hx
      · obtain ⟨a, b, _⟩ := writeAt_changed _ _ _ x e2
        exact area_topaz512 x (by omega) (Or.inl (by omega))
    · obtain ⟨a, b, _⟩ := writeAt_changed _ _ _ x e3
      exact area_topaz512 x (by omega) (Or.inr ⟨a, by omega⟩)

end NfcVerif.Tlv
