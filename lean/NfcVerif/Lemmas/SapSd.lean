import NfcVerif.Lemmas.Sap
import NfcVerif.Lemmas.SapSpec
/-!
# C17 - service discovery with several requests / answers per SNL PDU

`ServiceDiscovery.enqueue` answers a LIST of SDREQs, `ServiceDiscovery.dequeue` packs lists
of answers and requests into SNL PDUs, several `resolve()` calls wait at the same time.
Everything here is for arbitrary lists (any mix of bound / unbound / well-known names in
any order, repeated names, repeated transaction identifiers).
-/
namespace NfcVerif.Sap
open NfcVerif

/-- the answer `ServiceDiscovery.enqueue` owes for ONE request: it looks at nothing but the
request itself and the service name table -/
def sdAnswer (snl : List (Bytes × Nat)) (q : Nat × Bytes) : Nat × Nat := (q.1, (snl.lookup q.2).getD 0)

/-- `csn, sap = sap >> 6 & 1, sap & 63; if csn: sap = 1` -/
def decodeSap (v : Nat) : Nat := if (v / 64) % 2 = 1 then 1 else v % 64

theorem decodeSap_lt {v : Nat} (h : v < 64) : decodeSap v = v := by
  unfold decodeSap
  rw [Nat.div_eq_of_lt h, Nat.mod_eq_of_lt h]; simp

/-! ## responder: a list of requests -/

theorem sdRequests_eq (snl : List (Bytes × Nat)) : ∀ (rq : List (Nat × Bytes)) (sd : Sd),
    sdRequests snl sd rq = { sd with sdres := sd.sdres ++ rq.map (sdAnswer snl) }
  | [], sd => by simp [sdRequests]
  | (tid, nm) :: t, sd => by
    simp only [sdRequests]
    rw [sdRequests_eq snl t]
    simp [sdAnswer, List.append_assoc]

theorem sdResponses_sdres : ∀ (rs : List (Nat × Nat)) (sd : Sd), (sdResponses sd rs).sdres = sd.sdres
  | [], sd => rfl
  | (tid, v) :: t, sd => by
    simp only [sdResponses]
    split
    · exact sdResponses_sdres t sd
    · rw [sdResponses_sdres t]

theorem sdResponses_sent : ∀ (rs : List (Nat × Nat)) (sd : Sd), (sdResponses sd rs).sent = sd.sent
  | [], sd => rfl
  | (tid, v) :: t, sd => by
    simp only [sdResponses]
    split
    · exact sdResponses_sent t sd
    · rw [sdResponses_sent t]

theorem sdResponses_sdreq : ∀ (rs : List (Nat × Nat)) (sd : Sd), (sdResponses sd rs).sdreq = sd.sdreq
  | [], sd => rfl
  | (tid, v) :: t, sd => by
    simp only [sdResponses]
    split
    · exact sdResponses_sdreq t sd
    · rw [sdResponses_sdreq t]

theorem sdResponses_dmpdu : ∀ (rs : List (Nat × Nat)) (sd : Sd), (sdResponses sd rs).dmpdu = sd.dmpdu
  | [], sd => rfl
  | (tid, v) :: t, sd => by
    simp only [sdResponses]
    split
    · exact sdResponses_dmpdu t sd
    · rw [sdResponses_dmpdu t]

/-- dispatch of an SNL PDU with ANY list of requests and answers: the answers queued are
the pointwise image of the requests (request `i` gets `(tid_i, address of name_i or 0)`), behind
what was queued before; tables and sockets do not change -/
theorem dispatch_snl (c : Llc) (rq : List (Nat × Bytes)) (rs : List (Nat × Nat)) :
    ∃ c', dispatch c (.snl rq rs) = .ok c' ∧
      c'.sd.sdres = c.sd.sdres ++ rq.map (sdAnswer c.snl) ∧
      c'.sock = c.sock ∧ c'.sap = c.sap ∧ c'.snl = c.snl ∧ c'.n = c.n := by
  refine ⟨_, rfl, ?_, rfl, rfl, rfl, rfl⟩
  simp only [sdRequests_eq, sdResponses_sdres]

/-! ## requester: a list of answers -/

theorem dictSet_lookup_ne {ν : Type} {k k' : Bytes} (v : ν) (l : List (Bytes × ν)) (h : k' ≠ k) :
    (dictSet k v l).lookup k' = l.lookup k' := by
  induction l with
  | nil =>
    simp only [dictSet, List.lookup]
    have : (k' == k) = false := by simpa using h
    rw [this]
  | cons x t ih =>
    obtain ⟨k2, v2⟩ := x
    simp only [dictSet]
    split
    · rename_i he
      have he : k2 = k := by simpa using he
      subst he
      simp only [List.lookup]
      have : (k' == k2) = false := by simpa using h
      rw [this]
    · simp only [List.lookup]
      split
      · rfl
      · exact ih

/-- the answers of `rs` that belong to the name `nm` (their transaction identifier was used for `nm`) -/
def answersFor (sent : List (Nat × Bytes)) (nm : Bytes) (rs : List (Nat × Nat)) : List (Nat × Nat) :=
  rs.filter fun r => sent.lookup r.1 == some nm

/-- cache after a list of answers, pointwise: the entry of a name is the (decoded) value of
the LAST answer whose identifier was used for that name; a name no answer belongs to keeps its entry -/
theorem sdResponses_cache (nm : Bytes) : ∀ (rs : List (Nat × Nat)) (sd : Sd),
    (sdResponses sd rs).cache.lookup nm =
      match (answersFor sd.sent nm rs).getLast? with
      | some r => some (decodeSap r.2)
      | none => sd.cache.lookup nm
  | [], sd => by simp [sdResponses, answersFor]
  | (tid, v) :: t, sd => by
    simp only [sdResponses]
    cases hs : sd.sent.lookup tid with
    | none =>
      simp only
      rw [sdResponses_cache nm t sd]
      simp [answersFor, List.filter, hs]
    | some nm' =>
      simp only
      rw [sdResponses_cache nm t]
      simp only [answersFor, List.filter, hs]
      by_cases he : nm' = nm
      · subst he
        simp only [beq_self_eq_true]
        cases hl : (List.filter (fun r => sd.sent.lookup r.1 == some nm') t).getLast? with
        | some r => simp [List.getLast?_cons, hl]
        | none =>
          have : List.filter (fun r => sd.sent.lookup r.1 == some nm') t = [] := by
            simpa [List.getLast?_eq_none_iff] using hl
          simp only [this, List.getLast?_singleton]
          rw [dictSet_lookup]; rfl
      · have : (some nm' == some nm) = false := by simpa using he
        simp only [this]
        cases hl : (List.filter (fun r => sd.sent.lookup r.1 == some nm) t).getLast? with
        | some r => rfl
        | none => simp only; exact dictSet_lookup_ne _ _ (fun h => he h.symm)

/-- the transaction identifiers go back to the pool exactly for the answers that belong to a request -/
theorem sdResponses_tids : ∀ (rs : List (Nat × Nat)) (sd : Sd),
    (sdResponses sd rs).tids = sd.tids ++ (rs.filter fun r => (sd.sent.lookup r.1).isSome).map (·.1)
  | [], sd => by simp [sdResponses]
  | (tid, v) :: t, sd => by
    simp only [sdResponses]
    cases hs : sd.sent.lookup tid with
    | none => simp only; rw [sdResponses_tids t sd]; simp [List.filter, hs]
    | some nm' => simp only; rw [sdResponses_tids t]; simp [List.filter, hs, List.append_assoc]

/-- dispatch of an SNL PDU with any requests and answers, requester view: cache and identifier pool -/
theorem dispatch_snl_cache (c : Llc) (rq : List (Nat × Bytes)) (rs : List (Nat × Nat)) (nm : Bytes) :
    ∃ c', dispatch c (.snl rq rs) = .ok c' ∧
      c'.sd.cache.lookup nm =
        (match (answersFor c.sd.sent nm rs).getLast? with
         | some r => some (decodeSap r.2)
         | none => c.sd.cache.lookup nm) ∧
      c'.sd.tids = c.sd.tids ++ (rs.filter fun r => (c.sd.sent.lookup r.1).isSome).map (·.1) ∧
      c'.sd.sent = c.sd.sent := by
  refine ⟨_, rfl, ?_, ?_, ?_⟩
  · simp only [sdRequests_eq]; exact sdResponses_cache nm rs c.sd
  · simp only [sdRequests_eq]; exact sdResponses_tids rs c.sd
  · simp only [sdRequests_eq]; exact sdResponses_sent rs c.sd

/-! ## packing into SNL PDUs (`ServiceDiscovery.dequeue`) -/

/-- size of one SDREQ TLV -/
def reqSize (q : Nat × Bytes) : Nat := 3 + q.2.length

/-- `sent[tid] = name` for a list of requests, in order -/
def sentAll (sent : List (Nat × Bytes)) (l : List (Nat × Bytes)) : List (Nat × Bytes) :=
  l.foldl (fun s q => dictSet q.1 q.2 s) sent

theorem sentAll_append (sent : List (Nat × Bytes)) (l m : List (Nat × Bytes)) :
    sentAll sent (l ++ m) = sentAll (sentAll sent l) m := by simp [sentAll, List.foldl_append]

/-- the request loop touches nothing but the request queue and the `sent` table; requests are
neither lost nor duplicated: what it put into the PDU plus what stays queued is a permutation of
what was there, and `sent` got exactly the requests put into the PDU -/
theorem sdTakeReq_spec : ∀ (k : Nat) (sd : Sd) (miu : Nat) (acc : List (Nat × Bytes)),
    ∃ taken, (sdTakeReq k sd miu acc).2 = acc ++ taken ∧
      (taken ++ (sdTakeReq k sd miu acc).1.sdreq).Perm sd.sdreq ∧
      (sdTakeReq k sd miu acc).1.sent = sentAll sd.sent taken ∧
      (taken.map reqSize).sum ≤ miu ∧
      (sdTakeReq k sd miu acc).1.cache = sd.cache ∧ (sdTakeReq k sd miu acc).1.tids = sd.tids ∧
      (sdTakeReq k sd miu acc).1.sdres = sd.sdres ∧ (sdTakeReq k sd miu acc).1.dmpdu = sd.dmpdu
  | 0, sd, miu, acc => ⟨[], by simp [sdTakeReq, sentAll]⟩
  | k + 1, sd, miu, acc => by
    unfold sdTakeReq
    cases hq : sd.sdreq with
    | nil => exact ⟨[], by simp [sentAll, hq]⟩
    | cons q rest =>
      obtain ⟨tid, nm⟩ := q
      simp only
      split
      · obtain ⟨taken, h1, h2, h3, h4, h5, h6, h7, h8⟩ :=
          sdTakeReq_spec k { sd with sdreq := rest ++ [(tid, nm)] } miu acc
        refine ⟨taken, h1, ?_, h3, h4, h5, h6, h7, h8⟩
        exact h2.trans (by simp [List.perm_append_singleton])
      · rename_i hfit
        obtain ⟨taken, h1, h2, h3, h4, h5, h6, h7, h8⟩ :=
          sdTakeReq_spec k { sd with sdreq := rest, sent := dictSet tid nm sd.sent } (miu - (3 + nm.length))
            (acc ++ [(tid, nm)])
        refine ⟨(tid, nm) :: taken, by rw [h1]; simp, ?_, ?_, ?_, h5, h6, h7, h8⟩
        · simpa using h2
        · rw [h3]; simp [sentAll]
        · simp only [List.map_cons, List.sum_cons, reqSize]; omega

/-- when everything fits the MIU all requests leave in one PDU, in the order they were queued -/
theorem sdTakeReq_all : ∀ (l : List (Nat × Bytes)) (k : Nat) (sd : Sd) (miu : Nat) (acc : List (Nat × Bytes)),
    sd.sdreq = l → l.length ≤ k → (l.map reqSize).sum ≤ miu →
    sdTakeReq k sd miu acc = ({ sd with sdreq := [], sent := sentAll sd.sent l }, acc ++ l)
  | [], k, sd, miu, acc, hl, _, _ => by
    cases k <;> simp only [sdTakeReq, hl, sentAll, List.foldl_nil, List.append_nil] <;> (cases sd; simp_all)
  | (tid, nm) :: rest, 0, sd, miu, acc, hl, hk, _ => by simp at hk
  | (tid, nm) :: rest, k + 1, sd, miu, acc, hl, hk, hs => by
    unfold sdTakeReq
    simp only [hl]
    have hs' : 3 + nm.length + (rest.map reqSize).sum ≤ miu := by simpa [reqSize] using hs
    rw [if_neg (by omega)]
    rw [sdTakeReq_all rest k _ _ _ rfl (by simpa using hk) (by omega)]
    simp [sentAll, List.append_assoc]

/-- answers leave in the order they were queued, at most 32 per PDU (link MIU 128), none lost:
what stays queued is exactly the rest; the requests that go with them are a selection of the
queued ones (nothing invented, nothing lost) -/
theorem sdDequeue_spec (sd : Sd) (h : sd.sdres ≠ [] ∨ sd.sdreq ≠ []) :
    ∃ rq sd', sdDequeue sd = some (.snl rq (sd.sdres.take 32), sd') ∧ sd'.sdres = sd.sdres.drop 32 ∧
      (rq ++ sd'.sdreq).Perm sd.sdreq ∧ sd'.sent = sentAll sd.sent rq ∧
      sd'.cache = sd.cache ∧ sd'.tids = sd.tids ∧ sd'.dmpdu = sd.dmpdu := by
  unfold sdDequeue
  rw [if_pos h]
  obtain ⟨taken, h1, h2, h3, _, h5, h6, h7, h8⟩ :=
    sdTakeReq_spec sd.sdreq.length { sd with sdres := sd.sdres.drop 32 } (128 - 4 * (sd.sdres.take 32).length) []
  refine ⟨taken, _, ?_, h7, h2, h3, h5, h6, h8⟩
  simp only [List.nil_append] at h1
  simp only [← h1]

/-- no pending answers, all requests fit one PDU: they all leave, in order -/
theorem sdDequeue_all (sd : Sd) (hres : sd.sdres = []) (hne : sd.sdreq ≠ [])
    (hfit : (sd.sdreq.map reqSize).sum ≤ 128) :
    sdDequeue sd = some (.snl sd.sdreq [], { sd with sdreq := [], sent := sentAll sd.sent sd.sdreq }) := by
  unfold sdDequeue
  rw [if_pos (Or.inr hne)]
  have ht := sdTakeReq_all sd.sdreq sd.sdreq.length { sd with sdres := sd.sdres.drop 32 }
    (128 - 4 * (sd.sdres.take 32).length) [] rfl (Nat.le_refl _) (by simpa [hres] using hfit)
  cases sd; simp_all

/-- only answers pending (at most 32): they all leave, in order -/
theorem sdDequeue_answers (sd : Sd) (hne : sd.sdres ≠ []) (hreq : sd.sdreq = []) (hlen : sd.sdres.length ≤ 32) :
    sdDequeue sd = some (.snl [] sd.sdres, { sd with sdres := [] }) := by
  unfold sdDequeue
  rw [if_pos (Or.inl hne)]
  simp only [hreq, List.length_nil, sdTakeReq, List.take_of_length_le hlen, List.drop_of_length_le hlen]

/-! ## several `resolve()` calls waiting at the same time -/

/-- the names the calls have to ask the peer for -/
def uncached (cache : List (Bytes × Nat)) (nms : List Bytes) : List Bytes :=
  nms.filter fun nm => (cache.lookup nm).isNone

/-- what the waiting calls queue: one request per name that is not cached, in the order of the calls,
each with its own transaction identifier taken from the front of the pool -/
theorem sdAskAll_eq : ∀ (nms : List Bytes) (sd : Sd),
    sdAskAll sd nms =
      if (uncached sd.cache nms).length ≤ sd.tids.length then
        some { sd with tids := sd.tids.drop (uncached sd.cache nms).length,
                       sdreq := sd.sdreq ++ (sd.tids.take (uncached sd.cache nms).length).zip (uncached sd.cache nms) }
      else none
  | [], sd => by simp [sdAskAll, uncached]
  | nm :: t, sd => by
    simp only [sdAskAll, sdAsk]
    cases hc : sd.cache.lookup nm with
    | some a =>
      simp only [Option.bind_some]
      rw [sdAskAll_eq t sd]
      simp only [uncached, List.filter, hc, Option.isNone_some]
      rfl
    | none =>
      cases ht : sd.tids with
      | nil => simp [uncached, List.filter, hc]
      | cons tid rest =>
        simp only [Option.bind_some]
        rw [sdAskAll_eq t]
        simp only [uncached, List.filter, hc, Option.isNone_none, List.length_cons, Nat.add_le_add_iff_right,
          List.drop_succ_cons, List.take_succ_cons, List.zip_cons_cons, List.append_assoc, List.singleton_append]

/-- one call: `apiResolveMany` is `apiResolve` (apart from the case "no transaction identifier left",
where the nested single-thread execution of the harness has no counterpart) -/
theorem resolveMany_single (p : Pair) (x : Side) (nm : Bytes)
    (h : ((p.get x).sd.cache.lookup nm).isSome ∨ (p.get x).sd.tids ≠ []) :
    apiResolveMany p x [nm] =
      (apiResolve p x nm).map fun r => (r.1, r.2.map fun o => match o with | .num a => .nums [a] | o => o) := by
  unfold apiResolveMany apiResolve
  simp only [sdAskAll, sdAsk]
  cases hc : (p.get x).sd.cache.lookup nm with
  | some a => simp [lookupAll, lookupOne, hc, done, Except.map]
  | none =>
    cases ht : (p.get x).sd.tids with
    | nil => simp [hc, ht] at h
    | cons tid rest =>
      simp only [Option.bind_some, List.length_append, List.length_cons, List.length_nil]
      rw [if_neg (by omega)]
      cases hp : pump pumpRounds (p.set x { p.get x with sd := { (p.get x).sd with tids := rest, sdreq := (p.get x).sd.sdreq ++ [(tid, nm)] } }) with
      | error e => simp [Except.map]
      | ok p1 =>
        simp only [lookupAll, lookupOne, hc]
        cases hl : List.lookup nm (p1.get x).sd.cache with
        | none => simp [hl, Except.map, throw, throwThe, MonadExceptOf.throw]
        | some a => simp [hl, done, Except.map]

/-! ### end to end on a quiet link -/

/-- nothing but the service discovery component has something to send -/
def Quiet (c : Llc) : Prop :=
  ∀ a e, a ≠ 1 → c.sap a = some e → e.sendl = [] ∧ ∀ id ∈ e.socks, (c.sock id).sendq = []

def SdIdle (sd : Sd) : Prop := sd.sdres = [] ∧ sd.sdreq = [] ∧ sd.dmpdu = []

theorem quiet_sd {c : Llc} (h : Quiet c) (sd : Sd) : Quiet { c with sd := sd } := h

theorem socksDequeue_quiet (c : Llc) : ∀ (l : List Nat), (∀ id ∈ l, (c.sock id).sendq = []) → socksDequeue c l = none
  | [], _ => rfl
  | id :: t, h => by
    have h0 : sockDequeue (c.sock id) = none := by
      unfold sockDequeue; rw [h id (by simp)]
    simp only [socksDequeue, h0]
    exact socksDequeue_quiet c t (fun j hj => h j (by simp [hj]))

theorem collectFrom_quiet {c : Llc} (hq : Quiet c) : ∀ (l : List Nat),
    collectFrom c l = if 1 ∈ l then (sdDequeue c.sd).map (fun r => (r.1, { c with sd := r.2 })) else none
  | [] => rfl
  | a :: t => by
    unfold collectFrom
    by_cases ha : a = 1
    · subst ha
      simp only [↓reduceIte, List.mem_cons, true_or]
      cases hd : sdDequeue c.sd with
      | some r => rfl
      | none =>
        simp only [Option.map_none]
        rw [collectFrom_quiet hq t]
        split <;> simp [hd]
    · rw [if_neg ha]
      have hm : (1 ∈ a :: t) ↔ (1 ∈ t) := by simp [List.mem_cons, Ne.symm ha]
      cases hs : c.sap a with
      | none => simp only; rw [collectFrom_quiet hq t]; simp only [hm]
      | some e =>
        obtain ⟨h1, h2⟩ := hq a e ha hs
        have : sapDequeue c a e = none := by
          unfold sapDequeue; rw [socksDequeue_quiet c e.socks h2, h1]
        simp only [this]; rw [collectFrom_quiet hq t]; simp only [hm]

theorem collect_quiet {c : Llc} (hq : Quiet c) :
    collect c = (sdDequeue c.sd).map (fun r => (r.1, { c with sd := r.2 })) := by
  unfold collect
  rw [collectFrom_quiet hq]
  have : 1 ∈ collectOrder c := by
    unfold collectOrder
    refine List.mem_append_right _ (List.mem_filter.mpr ⟨by simp, ?_⟩)
    simp [rawMode]
  rw [if_pos this]

theorem sdDequeue_idle {sd : Sd} (h : SdIdle sd) : sdDequeue sd = none := by
  obtain ⟨h1, h2, h3⟩ := h
  unfold sdDequeue
  rw [if_neg (by simp [h1, h2]), h3]

theorem get_wire (p : Pair) (w : List (Side × Pdu)) (z : Side) : ({ p with wire := w } : Pair).get z = p.get z := by
  cases z <;> rfl

theorem get_set_set (p : Pair) (z : Side) (c c' : Llc) :
    ((p.set z c).set (!z) c').get z = c ∧ ((p.set z c).set (!z) c').get (!z) = c' := by
  cases z <;> exact ⟨rfl, rfl⟩

theorem xfer_idle (p : Pair) (z : Side) (hq : Quiet (p.get z)) (hi : SdIdle (p.get z).sd) :
    xfer p z = .ok (p, false) := by
  unfold xfer; rw [collect_quiet hq, sdDequeue_idle hi]; rfl

theorem xfer_sd (p : Pair) (z : Side) (hq : Quiet (p.get z)) {pdu : Pdu} {sd' : Sd}
    (hd : sdDequeue (p.get z).sd = some (pdu, sd')) {cy : Llc} (hdis : dispatch (p.get (!z)) pdu = .ok cy) :
    ∃ p', xfer p z = .ok (p', true) ∧ p'.get z = { p.get z with sd := sd' } ∧ p'.get (!z) = cy := by
  refine ⟨{ (p.set z { p.get z with sd := sd' }).set (!z) cy with wire := (z, pdu) :: p.wire }, ?_, ?_, ?_⟩
  · unfold xfer; rw [collect_quiet hq, hd]; simp only [Option.map_some]; rw [get_set_other, hdis]; rfl
  · rw [get_wire]; exact (get_set_set _ _ _ _).1
  · rw [get_wire]; exact (get_set_set _ _ _ _).2

/-! generic `dict` facts for the `sent` table (keys are transaction identifiers) -/

theorem dictSetN_lookup (k : Nat) (v : Bytes) : ∀ (l : List (Nat × Bytes)), (dictSet k v l).lookup k = some v
  | [] => by simp [dictSet]
  | (k', v') :: t => by
    simp only [dictSet]
    split
    · rename_i he
      have he : k' = k := by simpa using he
      subst he; simp [List.lookup]
    · rename_i hne
      have hne : ¬ k' = k := by simpa using hne
      simp only [List.lookup]
      have : (k == k') = false := by simpa using fun h : k = k' => hne h.symm
      rw [this]; exact dictSetN_lookup k v t

theorem dictSetN_lookup_ne {k k' : Nat} (v : Bytes) (h : k' ≠ k) : ∀ (l : List (Nat × Bytes)),
    (dictSet k v l).lookup k' = l.lookup k'
  | [] => by
    simp only [dictSet, List.lookup]
    have : (k' == k) = false := by simpa using h
    rw [this]
  | (k2, v2) :: t => by
    simp only [dictSet]
    split
    · rename_i he
      have he : k2 = k := by simpa using he
      subst he
      simp only [List.lookup]
      have : (k' == k2) = false := by simpa using h
      rw [this]
    · simp only [List.lookup]
      split
      · rfl
      · exact dictSetN_lookup_ne v h t

theorem sentAll_lookup_notin {t : Nat} : ∀ (l : List (Nat × Bytes)) (s : List (Nat × Bytes)),
    t ∉ l.map (·.1) → (sentAll s l).lookup t = s.lookup t
  | [], s, _ => rfl
  | q :: l, s, h => by
    simp only [List.map_cons, List.mem_cons, not_or] at h
    show (sentAll (dictSet q.1 q.2 s) l).lookup t = _
    rw [sentAll_lookup_notin l _ h.2]
    exact dictSetN_lookup_ne _ h.1 _

/-- distinct transaction identifiers: after the requests went out `sent[tid]` is the name asked with `tid` -/
theorem sentAll_lookup : ∀ (l : List (Nat × Bytes)) (s : List (Nat × Bytes)), (l.map (·.1)).Nodup →
    ∀ q ∈ l, (sentAll s l).lookup q.1 = some q.2
  | [], _, _, q, hq => by simp at hq
  | q0 :: l, s, hnd, q, hq => by
    simp only [List.map_cons, List.nodup_cons] at hnd
    show (sentAll (dictSet q0.1 q0.2 s) l).lookup q.1 = _
    rcases List.mem_cons.mp hq with rfl | hq
    · rw [sentAll_lookup_notin l _ hnd.1]; exact dictSetN_lookup _ _ _
    · exact sentAll_lookup l _ hnd.2 q hq

/-- requester: the answers to a list of requests, one per request and in any order of bound / unbound
names, leave for every asked name exactly the address the responder has for THAT name (or 0) -/
theorem answers_cached (sd : Sd) (rq : List (Nat × Bytes)) (snl : List (Bytes × Nat))
    (hsent : ∀ q ∈ rq, sd.sent.lookup q.1 = some q.2)
    (hv : ∀ nm a, snl.lookup nm = some a → a < 64) (nm : Bytes) (hm : nm ∈ rq.map (·.2)) :
    (sdResponses sd (rq.map (sdAnswer snl))).cache.lookup nm = some ((snl.lookup nm).getD 0) := by
  rw [sdResponses_cache]
  have hlt : (snl.lookup nm).getD 0 < 64 := by
    cases h : snl.lookup nm with
    | none => simp
    | some a => simpa using hv nm a h
  have hall : ∀ r ∈ answersFor sd.sent nm (rq.map (sdAnswer snl)), r.2 = (snl.lookup nm).getD 0 := by
    intro r hr
    obtain ⟨hr1, hr2⟩ := List.mem_filter.mp hr
    obtain ⟨q, hq, rfl⟩ := List.mem_map.mp hr1
    have : sd.sent.lookup q.1 = some nm := by simpa [sdAnswer] using hr2
    rw [hsent q hq] at this
    cases this; rfl
  have hne : answersFor sd.sent nm (rq.map (sdAnswer snl)) ≠ [] := by
    obtain ⟨q, hq, rfl⟩ := List.mem_map.mp hm
    intro h
    have : sdAnswer snl q ∈ answersFor sd.sent q.2 (rq.map (sdAnswer snl)) :=
      List.mem_filter.mpr ⟨List.mem_map.mpr ⟨q, hq, rfl⟩, by simp [sdAnswer, hsent q hq]⟩
    rw [h] at this; cases this
  cases hl : (answersFor sd.sent nm (rq.map (sdAnswer snl))).getLast? with
  | none => exact absurd (List.getLast?_eq_none_iff.mp hl) hne
  | some r =>
    have hr := hall r (List.mem_of_getLast? hl)
    simp only [hr, decodeSap_lt hlt]

/-- what a `resolve(nm)` returns when everything works: the cached address, else what the responder
has for the name now -/
def resolved (cache snl : List (Bytes × Nat)) (nm : Bytes) : Nat :=
  match cache.lookup nm with
  | some a => a
  | none => (snl.lookup nm).getD 0

theorem lookupAll_eq (old new : List (Bytes × Nat)) (f : Bytes → Nat) : ∀ (nms : List Bytes),
    (∀ nm ∈ nms, lookupOne old new nm = some (f nm)) →
    lookupAll old new nms = some (nms.map f)
  | [], _ => rfl
  | nm :: t, h => by
    simp only [lookupAll]
    rw [h nm (by simp), lookupAll_eq old new f t (fun n hn => h n (by simp [hn]))]
    rfl

theorem inv_name_lt {c : Llc} (hi : Inv c) (nm : Bytes) (a : Nat) (h : c.snl.lookup nm = some a) : a < 64 := by
  rcases hi.names nm a (lookup_mem h) with ⟨_, rfl⟩ | ⟨_, h2, _⟩
  · decide
  · cases hs : c.sap a with
    | none => simp [hs] at h2
    | some e => exact hi.dom a e hs

theorem pump_step (k : Nat) (p : Pair) (r1 r2 : Pair × Bool) (h1 : xfer p false = .ok r1)
    (h2 : xfer r1.1 true = .ok r2) :
    pump (k + 1) p = if r1.2 = false ∧ r2.2 = false then .ok r2.1 else pump k r2.1 := by
  rw [pump]
  rw [h1]
  show (xfer r1.1 true >>= _) = _
  rw [h2]
  rfl

/-- the pump of a request / answer exchange on a quiet link, for either side asking -/
theorem pump_exchange (x : Side) (p1 p2 p3 : Pair)
    (h1 : xfer p1 x = .ok (p2, true)) (h2 : xfer p2 (!x) = .ok (p3, true))
    (hi1 : xfer p1 (!x) = .ok (p1, false))
    (hi3 : xfer p3 x = .ok (p3, false)) (hi3' : xfer p3 (!x) = .ok (p3, false)) (k : Nat) :
    pump (k + 3) p1 = .ok p3 := by
  cases x
  · simp only [Bool.not_false] at h2 hi3' hi1
    rw [pump_step _ p1 _ _ h1 h2]
    simp only [Bool.true_eq_false, and_self, ↓reduceIte]
    rw [pump_step _ p3 _ _ hi3 hi3']
    simp only [and_self, ↓reduceIte]
  · simp only [Bool.not_true] at h2 hi3' hi1
    rw [pump_step _ p1 _ _ hi1 h1]
    simp only [Bool.true_eq_false, and_false, ↓reduceIte]
    rw [pump_step _ p2 _ _ h2 hi3]
    simp only [Bool.true_eq_false, false_and, ↓reduceIte]
    rw [pump_step _ p3 _ _ hi3' hi3]
    simp only [and_self, ↓reduceIte]

theorem apiResolveMany_nowait (p : Pair) (x : Side) (nms : List Bytes) (sd1 : Sd) (l : List Nat)
    (h : sdAskAll (p.get x).sd nms = some sd1) (hlen : sd1.sdreq.length = (p.get x).sd.sdreq.length)
    (hl : lookupAll (p.get x).sd.cache (p.get x).sd.cache nms = some l) :
    apiResolveMany p x nms = .ok (p, .ok (.nums l)) := by
  unfold apiResolveMany
  simp only [h, hlen, ↓reduceIte]
  show (match lookupAll (p.get x).sd.cache (p.get x).sd.cache nms with
    | some l => done p (Out.nums l) | none => throw Exc.outOfFuel) = _
  rw [hl]; rfl

theorem apiResolveMany_wait (p p3 : Pair) (x : Side) (nms : List Bytes) (sd1 : Sd) (l : List Nat)
    (h : sdAskAll (p.get x).sd nms = some sd1) (hlen : sd1.sdreq.length ≠ (p.get x).sd.sdreq.length)
    (hp : pump pumpRounds (p.set x { p.get x with sd := sd1 }) = .ok p3)
    (hl : lookupAll (p.get x).sd.cache (p3.get x).sd.cache nms = some l) :
    apiResolveMany p x nms = .ok (p3, .ok (.nums l)) := by
  unfold apiResolveMany
  simp only [h, hlen, ↓reduceIte, hp]
  show (match lookupAll (p.get x).sd.cache (p3.get x).sd.cache nms with
    | some l => done p3 (Out.nums l) | none => throw Exc.outOfFuel) = _
  rw [hl]; rfl

/-- END TO END, several `resolve()` calls at once on a quiet link: every call returns the cached
address of ITS name or, for a name that had to be asked, the address the other controller has
registered under that name at this moment (0 = not registered) - whatever the other names in the
same SNL PDU are and in whatever order they come.

Proved for: both controllers have nothing else to send (`Quiet`, `SdIdle`), the requests fit one SNL
PDU (`≤ 128` bytes, `≤ 32` names), the transaction identifiers in the pool are distinct. -/
theorem resolveMany_quiet (p : Pair) (x : Side) (nms : List Bytes)
    (hqA : Quiet (p.get x)) (hqB : Quiet (p.get (!x)))
    (hiA : SdIdle (p.get x).sd) (hiB : SdIdle (p.get (!x)).sd) (hB : Inv (p.get (!x)))
    (hnd : (p.get x).sd.tids.Nodup)
    (hk : (uncached (p.get x).sd.cache nms).length ≤ (p.get x).sd.tids.length)
    (h32 : (uncached (p.get x).sd.cache nms).length ≤ 32)
    (hfit : ((uncached (p.get x).sd.cache nms).map fun nm => 3 + nm.length).sum ≤ 128) :
    ∃ p', apiResolveMany p x nms =
        .ok (p', .ok (.nums (nms.map (resolved (p.get x).sd.cache (p.get (!x)).snl)))) ∧ PSame p p' := by
  have hsame : ∀ r, apiResolveMany p x nms = .ok r → PSame p r.1 := fun r h => apiResolveMany_same h
  suffices h : ∃ p', apiResolveMany p x nms =
      .ok (p', .ok (.nums (nms.map (resolved (p.get x).sd.cache (p.get (!x)).snl)))) by
    obtain ⟨p', hp⟩ := h; exact ⟨p', hp, hsame _ hp⟩
  obtain ⟨hA1, hA2, hA3⟩ := hiA
  obtain ⟨hB1, hB2, hB3⟩ := hiB
  have hask := sdAskAll_eq nms (p.get x).sd
  rw [if_pos hk] at hask
  generalize hun : uncached (p.get x).sd.cache nms = un at *
  generalize hrq : ((p.get x).sd.tids.take un.length).zip un = rq at hask
  rw [hA2, List.nil_append] at hask
  have hlen : ((p.get x).sd.tids.take un.length).length = un.length := by
    rw [List.length_take]; omega
  have hrq2 : rq.map (·.2) = un := by
    rw [← hrq]; exact List.map_snd_zip (by omega)
  have hrq1 : rq.map (·.1) = (p.get x).sd.tids.take un.length := by
    rw [← hrq]; exact List.map_fst_zip (by omega)
  have hrqlen : rq.length = un.length := by rw [← hrq2, List.length_map]
  -- cached names return their value whatever happens afterwards
  have hcachedOk : ∀ (new : List (Bytes × Nat)) (nm : Bytes) (a : Nat), (p.get x).sd.cache.lookup nm = some a →
      lookupOne (p.get x).sd.cache new nm = some (resolved (p.get x).sd.cache (p.get (!x)).snl nm) := by
    intro new nm a h; simp [lookupOne, resolved, h]
  generalize hsd1 : ({ (p.get x).sd with tids := (p.get x).sd.tids.drop un.length, sdreq := rq } : Sd) = sd1 at hask
  have hsd1_res : sd1.sdres = [] := by rw [← hsd1]; exact hA1
  have hsd1_req : sd1.sdreq = rq := by rw [← hsd1]
  have hsd1_dm : sd1.dmpdu = [] := by rw [← hsd1]; exact hA3
  by_cases hempty : un = []
  · -- every name is cached: nobody waits
    have hrqe : rq = [] := List.eq_nil_of_length_eq_zero (by rw [hrqlen, hempty]; rfl)
    refine ⟨p, apiResolveMany_nowait p x nms sd1 _ hask (by rw [hsd1_req, hrqe, hA2]) ?_⟩
    apply lookupAll_eq
    intro nm hnm
    cases hc : (p.get x).sd.cache.lookup nm with
    | some a => exact hcachedOk _ nm a hc
    | none =>
      have : nm ∈ uncached (p.get x).sd.cache nms := List.mem_filter.mpr ⟨hnm, by simp [hc]⟩
      rw [hun, hempty] at this; cases this
  · have hrqne : rq ≠ [] := fun h => hempty (by rw [← hrq2, h]; rfl)
    generalize hp1 : p.set x { p.get x with sd := sd1 } = p1
    have g1 : p1.get x = { p.get x with sd := sd1 } := by rw [← hp1]; exact get_set _ _ _
    have g1' : p1.get (!x) = p.get (!x) := by rw [← hp1]; exact get_set_other _ _ _
    -- request leaves
    have hfit' : (sd1.sdreq.map reqSize).sum ≤ 128 := by
      rw [hsd1_req]
      have : rq.map reqSize = (rq.map (·.2)).map fun nm => 3 + nm.length := by
        rw [List.map_map]; rfl
      rw [this, hrq2]; exact hfit
    have hd1 := sdDequeue_all sd1 hsd1_res (by rw [hsd1_req]; exact hrqne) hfit'
    rw [hsd1_req] at hd1
    obtain ⟨b1, hdis1, hb1res, hb1sock, hb1sap, hb1snl, _⟩ := dispatch_snl (p.get (!x)) rq []
    obtain ⟨p2, hx1, g2, g2'⟩ := xfer_sd p1 x (by rw [g1]; exact quiet_sd hqA _) (by rw [g1]; exact hd1)
      (by rw [g1']; exact hdis1)
    -- answer leaves
    have hb1sd : b1.sd.sdreq = [] ∧ b1.sd.dmpdu = [] := by
      have : dispatch (p.get (!x)) (.snl rq []) = .ok { p.get (!x) with sd := sdRequests (p.get (!x)).snl (sdResponses (p.get (!x)).sd []) rq } := rfl
      rw [this] at hdis1; cases hdis1
      simp only [sdRequests_eq, sdResponses]; exact ⟨hB2, hB3⟩
    have hqb1 : Quiet b1 := by
      intro a e ha hs; rw [hb1sap] at hs; rw [hb1sock]; exact hqB a e ha hs
    rw [hB1, List.nil_append] at hb1res
    have hd2 := sdDequeue_answers b1.sd (by rw [hb1res]; simpa using hrqne) hb1sd.1
      (by rw [hb1res, List.length_map, hrqlen]; exact h32)
    rw [hb1res] at hd2
    have hnn : (!(!x)) = x := Bool.not_not x
    obtain ⟨a3, hdis2, _, ha3sock, ha3sap, _, _⟩ := dispatch_snl (p2.get x) [] (rq.map (sdAnswer (p.get (!x)).snl))
    have ha3sd : a3.sd = sdResponses (p2.get x).sd (rq.map (sdAnswer (p.get (!x)).snl)) := by
      have : dispatch (p2.get x) (.snl [] (rq.map (sdAnswer (p.get (!x)).snl))) =
          .ok { p2.get x with sd := sdRequests (p2.get x).snl (sdResponses (p2.get x).sd (rq.map (sdAnswer (p.get (!x)).snl))) [] } := rfl
      rw [this] at hdis2; cases hdis2; rfl
    obtain ⟨p3, hx2, g3', g3⟩ := xfer_sd p2 (!x) (by rw [g2']; exact hqb1) (by rw [g2']; exact hd2)
      (by rw [hnn]; exact hdis2)
    rw [hnn] at g3
    -- both sides are idle again
    have hsd2 : (p2.get x).sd = { sd1 with sdreq := [], sent := sentAll sd1.sent rq } := by rw [g2, g1]
    have hiA3 : SdIdle (p3.get x).sd := by
      rw [g3, ha3sd, hsd2]
      exact ⟨by rw [sdResponses_sdres]; exact hsd1_res, by rw [sdResponses_sdreq], by rw [sdResponses_dmpdu]; exact hsd1_dm⟩
    have hqA3 : Quiet (p3.get x) := by
      rw [g3]; intro a e ha hs; rw [ha3sap, g2, g1] at hs; rw [ha3sock, g2, g1]; exact hqA a e ha hs
    have hiB3 : SdIdle (p3.get (!x)).sd := by rw [g3', g2']; exact ⟨rfl, hb1sd.1, hb1sd.2⟩
    have hqB3 : Quiet (p3.get (!x)) := by rw [g3', g2']; exact quiet_sd hqb1 _
    have hidle1 : xfer p1 (!x) = .ok (p1, false) :=
      xfer_idle p1 (!x) (by rw [g1']; exact hqB) (by rw [g1']; exact ⟨hB1, hB2, hB3⟩)
    have hpump : pump pumpRounds p1 = .ok p3 :=
      pump_exchange x p1 p2 p3 hx1 hx2 hidle1 (xfer_idle p3 x hqA3 hiA3) (xfer_idle p3 (!x) hqB3 hiB3) 13
    -- what the calls read
    have hsent : ∀ q ∈ rq, (p2.get x).sd.sent.lookup q.1 = some q.2 := by
      rw [hsd2]
      exact sentAll_lookup rq _ (by rw [hrq1]; exact List.Sublist.nodup (List.take_sublist _ _) hnd)
    refine ⟨p3, apiResolveMany_wait p p3 x nms sd1 _ hask ?_ (by rw [hp1]; exact hpump) ?_⟩
    · rw [hsd1_req, hA2]; simpa using hrqne
    · apply lookupAll_eq
      intro nm hnm
      cases hc : (p.get x).sd.cache.lookup nm with
      | some a => exact hcachedOk _ nm a hc
      | none =>
        have hmem : nm ∈ rq.map (·.2) := by
          rw [hrq2, ← hun]; exact List.mem_filter.mpr ⟨hnm, by simp [hc]⟩
        simp only [lookupOne, hc, resolved]
        rw [g3, ha3sd]
        exact answers_cached _ rq _ hsent (inv_name_lt hB) nm hmem

theorem quiet_init : Quiet Sap.init := by
  intro a e _ hs
  simp only [Sap.init] at hs
  split at hs
  · cases hs; exact ⟨rfl, fun _ h => by cases h⟩
  · cases hs

theorem sdIdle_init : SdIdle Sap.init.sd := ⟨rfl, rfl, rfl⟩

/-! ## connected logical data link sockets -/

/-- a datagram is taken only by a socket that is not connected or is connected to the sender of the
datagram (`ServiceAccessPoint.enqueue` filters by peer) -/
theorem ui_peer_filter {c c' : Llc} {d s : Nat} {m : Bytes} (h : dispatch c (.ui d s m) = .ok c')
    {j : Nat} (hj : c'.sock j ≠ c.sock j) : (c.sock j).peer = some s ∨ (c.sock j).peer = none := by
  generalize hp : Pdu.ui d s m = p at h
  unfold dispatch at h
  split at h
  · cases hp
  · cases hp
  · split at h
    · cases h; exact absurd rfl hj
    · split at h
      · cases h; exact absurd rfl hj
      · obtain ⟨ht, _⟩ := sapEnqueue_touch h hj
        subst hp
        simp only [target, Pdu.isConn, Bool.false_eq_true, ↓reduceIte, Pdu.ssap] at ht
        have := List.find?_some ht
        exact of_decide_eq_true this

/-! ## a name that does not fit the link MIU (open finding `resolve-overlong-name-hangs`) -/

/-- `ServiceDiscovery.dequeue` with one queued request whose TLV (3 + length of the name) exceeds the
link MIU of 128: the request is rotated, never sent and never dropped - the state does not change and an
EMPTY SNL PDU goes out, on every call.  `resolve()` of such a name never returns. -/
theorem overlong_request_stuck (sd : Sd) (tid : Nat) (nm : Bytes) (h : 125 < nm.length)
    (hq : sd.sdreq = [(tid, nm)]) (hres : sd.sdres = []) : sdDequeue sd = some (.snl [] [], sd) := by
  unfold sdDequeue
  rw [if_pos (Or.inr (by rw [hq]; simp))]
  simp only [hres, hq, List.take_nil, List.drop_nil, List.length_nil, List.length_cons, Nat.mul_zero, Nat.sub_zero,
    Nat.zero_add, sdTakeReq]
  rw [if_pos (by omega)]
  simp only [List.nil_append]
  cases sd; simp_all

end NfcVerif.Sap
