import NfcVerif.Model.IsoDepC08
/-!
# C08 lemmas: the repaired ISO-DEP initiator terminates against every card

* `xchgW_asFound`, `blockLoop_asFound`, `recvChain_asFound`, `exchange_asFound`: with all switches off
  the functions of `Model/IsoDepC08.lean` are those of `Model/IsoDep.lean` (the model C12 works with).
* with all switches on: `xchgW_spec` (at most `1 + max_wtxm_sum` frames, fuel `max_wtxm_sum + 1` is never
  used up), `blockLoop_spec` (at most `n + 2` rounds), `sendChunks_spec`, `recvChain_spec` (at most 65539
  rounds), `exchange_spec`: whatever the card answers, `exchange` returns a response or a
  `Type4TagCommandError`, uses up no fuel and sends at most `exchFrames` frames.
-/
namespace NfcVerif.IsoDepR
open NfcVerif NfcVerif.IsoDep

/-! ## frames -/

/-- frames handed to `clf.exchange` so far -/
def frames {σ} (w : World σ) : Nat := w.trace.length

theorem xchg_frames {σ} (P : Peer σ) (w : World σ) (out : Bytes) : frames (w.xchg P out).1 = frames w + 1 := by
  unfold World.xchg frames
  simp only
  split
  · simp
  · split <;> simp

theorem legBack_ne_fuel (f : Fault) (b : Bytes) : legBack f b ≠ .fuel := by
  cases f <;> simp [legBack]

theorem xchg_ne_fuel {σ} (P : Peer σ) (w : World σ) (out : Bytes) : (w.xchg P out).2 ≠ .fuel := by
  unfold World.xchg
  simp only
  split
  · simp
  · split
    · simp
    · exact legBack_ne_fuel _ _

/-! ## connection with `Model/IsoDep.lean` -/

def RxW.ofRx : Rx → RxW
  | .data b => .data b | .timeout => .timeout | .transmission => .transmission
  | .protocol => .protocol | .fuel => .fuel

theorem wtxmOf_isWtx (d : Bytes) : (wtxmOf d).isSome = isWtx d := by
  unfold wtxmOf isWtx
  split
  · split <;> simp_all
  · rename_i h
    cases d with
    | nil => rfl
    | cons a t =>
      cases t with
      | nil => rfl
      | cons b u => exact absurd rfl (h a b u)

/-- as found: `_exchange` of this file = `xchgW` of the shared model -/
theorem xchgW_asFound {σ} (P : Peer σ) : ∀ (f sum : Nat) (w : World σ) (out : Bytes),
    xchgW P none f sum w out = ((IsoDep.xchgW P f w out).1, RxW.ofRx (IsoDep.xchgW P f w out).2) := by
  intro f
  induction f with
  | zero => intro sum w out; rfl
  | succ f ih =>
    intro sum w out
    unfold xchgW IsoDep.xchgW
    rcases hx : w.xchg P out with ⟨w', r⟩
    cases r with
    | data d =>
      simp only
      have hw := wtxmOf_isWtx d
      cases hm : wtxmOf d with
      | none => rw [hm] at hw; simp at hw; simp [hw, RxW.ofRx]
      | some m => rw [hm] at hw; simp at hw; simp only [hw, if_true]; exact ih sum w' d
    | timeout => simp [RxW.ofRx]
    | transmission => simp [RxW.ofRx]
    | protocol => simp [RxW.ofRx]
    | fuel => simp [RxW.ofRx]

theorem blockLoop_asFound {σ} (P : Peer σ) (c : Cfg) (hw : c.fx.wtx = false) (ha : c.fx.ack = false)
    (n : Nat) (resend : Option Nat) (req rty : Bytes) :
    ∀ (f i : Nat) (out : Bytes) (w : World σ),
      blockLoop P c n resend req rty f i out w = IsoDep.blockLoop P c.F n resend req rty f i out w := by
  intro f
  induction f with
  | zero => intro i out w; rfl
  | succ f ih =>
    intro i out w
    unfold blockLoop IsoDep.blockLoop
    have hx := xchgW_asFound P c.F 0 w out
    simp only [Cfg.wlim, hw, ha, Bool.false_eq_true, if_false, false_and]
    rw [hx]
    rcases IsoDep.xchgW P c.F w out with ⟨w', r⟩
    cases r with
    | data d =>
      cases d with
      | nil => simp only [RxW.ofRx]; split <;> simp [ih]
      | cons a t => simp only [RxW.ofRx]; split <;> simp [ih]
    | timeout => simp only [RxW.ofRx]; split <;> simp [ih]
    | transmission => simp only [RxW.ofRx]; split <;> simp [ih]
    | protocol => simp [RxW.ofRx]
    | fuel => simp [RxW.ofRx]

theorem sendChunks_asFound {σ} (P : Peer σ) (c : Cfg) (hw : c.fx.wtx = false) (ha : c.fx.ack = false) (nNak : Nat) :
    ∀ (cs : List Bytes) (pni : Nat) (w : World σ),
      sendChunks P c nNak cs pni w = IsoDep.sendChunks P c.F nNak cs pni w := by
  intro cs
  induction cs with
  | nil => intro pni w; rfl
  | cons ch rest ih =>
    intro pni w
    unfold sendChunks IsoDep.sendChunks
    simp only [blockLoop_asFound P c hw ha]
    rcases IsoDep.blockLoop P c.F nNak (some (0xA2 ||| ((pni + 1) % 2)))
      (((if (!rest.isEmpty) = true then 0x12 else 0x02) ||| pni) :: ch) [0xB2 ||| pni] c.F 1
      (((if (!rest.isEmpty) = true then 0x12 else 0x02) ||| pni) :: ch) w with ⟨w', r⟩
    cases r with
    | error e => rfl
    | ok d =>
      cases d with
      | nil => rfl
      | cons a t => simp only [ih]

theorem recvChain_asFound {σ} (P : Peer σ) (c : Cfg) (hw : c.fx.wtx = false) (ha : c.fx.ack = false)
    (hc : c.fx.chain = false) (nAck : Nat) :
    ∀ (f pni : Nat) (data resp : Bytes) (w : World σ),
      recvChain P c nAck f pni data resp w = IsoDep.recvChain P c.F nAck f pni data resp w := by
  intro f
  induction f with
  | zero => intro pni data resp w; rfl
  | succ f ih =>
    intro pni data resp w
    unfold recvChain IsoDep.recvChain
    cases data with
    | nil => rfl
    | cons a inf =>
      simp only [hc, Bool.false_eq_true, false_and, if_false, blockLoop_asFound P c hw ha]
      split
      · rfl
      · rcases IsoDep.blockLoop P c.F nAck none [0xA2 ||| pni] [0xA2 ||| pni] c.F 1 [0xA2 ||| pni] w with ⟨w', r⟩
        cases r with
        | error e => rfl
        | ok d =>
          cases d with
          | nil => rfl
          | cons b t => simp only [ih]

/-- with the three switches off, `exchange` of this file is `exchange` of the shared model (`Model/IsoDep.lean`) -/
theorem exchange_asFound {σ} (P : Peer σ) (c : Cfg) (hw : c.fx.wtx = false) (ha : c.fx.ack = false)
    (hc : c.fx.chain = false) (pcd : Pcd) (cmd : Bytes) (w : World σ) :
    exchange P c pcd cmd w = IsoDep.exchange P c.F pcd cmd w := by
  have hcmd : exchangeCmd P c pcd cmd w = IsoDep.exchangeCmd P c.F pcd cmd w := by
    unfold exchangeCmd IsoDep.exchangeCmd
    split
    · rfl
    · split
      · rfl
      · simp only [sendChunks_asFound P c hw ha, recvChain_asFound P c hw ha hc]
        rcases IsoDep.sendChunks P c.F pcd.nNak (chunks pcd.miu.toNat cmd) pcd.pni w with ⟨w1, pni1, r⟩
        cases r with
        | error e => rfl
        | ok d => rfl
  unfold exchange IsoDep.exchange
  rw [hcmd]
  cases pcd.failed with
  | some e => rfl
  | none =>
    simp only
    rcases IsoDep.exchangeCmd P c.F pcd cmd w with ⟨w', pcd', r⟩
    cases r with
    | ok d => rfl
    | error e => cases e <;> rfl

/-! ## the repaired initiator: every loop ends -/

/-- `_exchange` with the S(WTX) limit `L`: no fuel is used up when `L - sum < f`, and at most
`1 + (L - sum)` frames are sent (every granted request has a multiplier of at least 1) -/
theorem xchgW_spec {σ} (P : Peer σ) (L : Nat) : ∀ (f sum : Nat) (w : World σ) (out : Bytes),
    sum ≤ L → L - sum < f →
    (xchgW P (some L) f sum w out).2 ≠ .fuel ∧
    frames w + 1 ≤ frames (xchgW P (some L) f sum w out).1 ∧
    frames (xchgW P (some L) f sum w out).1 ≤ frames w + 1 + (L - sum) := by
  intro f
  induction f with
  | zero => intro sum w out _ h; omega
  | succ f ih =>
    intro sum w out hs hf
    unfold xchgW
    have hfr := xchg_frames P w out
    have hnf := xchg_ne_fuel P w out
    rcases hx : w.xchg P out with ⟨w', r⟩
    rw [hx] at hfr hnf
    simp only at hfr hnf
    cases r with
    | data d =>
      simp only
      cases hm : wtxmOf d with
      | none => simp only; exact ⟨by simp, by omega, by omega⟩
      | some m =>
        simp only
        split
        · simp only; exact ⟨by simp, by omega, by omega⟩
        · rename_i hm0
          split
          · simp only; exact ⟨by simp, by omega, by omega⟩
          · have := ih (sum + m) w' d (by omega) (by omega)
            exact ⟨this.1, by omega, by omega⟩
    | timeout => exact ⟨by simp, by simp only; omega, by simp only; omega⟩
    | transmission => exact ⟨by simp, by simp only; omega, by simp only; omega⟩
    | protocol => exact ⟨by simp, by simp only; omega, by simp only; omega⟩
    | fuel => exact absurd rfl hnf

/-- a non-empty block or a `Type4TagCommandError` -/
def BlockRes : Py Bytes → Prop
  | .ok d => d ≠ []
  | .error e => ∃ n, e = .tagCmd n

/-- a response or a `Type4TagCommandError` -/
def CmdRes : Py Bytes → Prop
  | .ok _ => True
  | .error e => ∃ n, e = .tagCmd n

/-- the three repairs are in and the fuel handed to the loops is enough for the repaired loops -/
structure Cfg.Repaired (c : Cfg) (nNak nAck : Nat) : Prop where
  wtx : c.fx.wtx = true
  ack : c.fx.ack = true
  chain : c.fx.chain = true
  fW : c.lim < c.F
  fN : nNak + 2 ≤ c.F
  fA : nAck + 2 ≤ c.F
  fC : 65540 ≤ c.F

/-- one retry loop with the retransmissions counted: at most `n + 3 - i` rounds of at most `lim + 1` frames -/
theorem blockLoop_spec {σ} (P : Peer σ) (c : Cfg) (hw : c.fx.wtx = true) (ha : c.fx.ack = true) (hF : c.lim < c.F)
    (n : Nat) (resend : Option Nat) (req rty : Bytes) :
    ∀ (f i : Nat) (out : Bytes) (w : World σ), i ≤ n + 2 → n + 3 ≤ i + f →
      BlockRes (blockLoop P c n resend req rty f i out w).2 ∧
      frames w ≤ frames (blockLoop P c n resend req rty f i out w).1 ∧
      frames (blockLoop P c n resend req rty f i out w).1 ≤ frames w + (n + 3 - i) * (c.lim + 1) := by
  intro f
  induction f with
  | zero => intro i out w h1 h2; omega
  | succ f ih =>
    intro i out w hi hf
    unfold blockLoop
    have hx := xchgW_spec P c.lim c.F 0 w out (by omega) (by omega)
    simp only [Cfg.wlim, hw, if_true]
    rcases hq : xchgW P (some c.lim) c.F 0 w out with ⟨w', r⟩
    rw [hq] at hx
    simp only at hx
    generalize hK : c.lim + 1 = K at *
    have hk1 : K ≤ (n + 3 - i) * K := Nat.le_mul_of_pos_left K (by omega)
    have hstep : i ≤ n + 1 → (n + 3 - i) * K = (n + 3 - (i + 1)) * K + K := by
      intro h
      rw [show n + 3 - i = (n + 3 - (i + 1)) + 1 by omega, Nat.add_mul, Nat.one_mul]
    have hrec : i ≤ n + 1 → ∀ (o : Bytes),
        BlockRes (blockLoop P c n resend req rty f (i + 1) o w').2 ∧
        frames w ≤ frames (blockLoop P c n resend req rty f (i + 1) o w').1 ∧
        frames (blockLoop P c n resend req rty f (i + 1) o w').1 ≤ frames w + (n + 3 - i) * K := by
      intro h o
      have := ih (i + 1) o w' (by omega) (by omega)
      have hs := hstep h
      exact ⟨this.1, by omega, by omega⟩
    have hend : ∀ e, BlockRes (Except.error (Exc.tagCmd e) : Py Bytes) ∧ frames w ≤ frames w' ∧
        frames w' ≤ frames w + (n + 3 - i) * K := fun e => ⟨⟨e, rfl⟩, by omega, by omega⟩
    cases r with
    | data d =>
      cases d with
      | nil =>
        simp only
        split
        · rename_i h; exact hrec (by omega) _
        · exact hend _
      | cons a t =>
        simp only
        split
        · simp only [ha, true_and]
          split
          · exact hend _
          · rename_i h; exact hrec (by omega) _
        · simp only; exact ⟨by simp [BlockRes], by omega, by omega⟩
    | timeout =>
      simp only
      split
      · rename_i h; exact hrec (by omega) _
      · exact hend _
    | transmission =>
      simp only
      split
      · rename_i h; exact hrec (by omega) _
      · exact hend _
    | protocol => exact hend _
    | waited => exact hend _
    | fuel => exact absurd rfl hx.1

/-- the command phase: one retry loop per command block -/
theorem sendChunks_spec {σ} (P : Peer σ) (c : Cfg) (hw : c.fx.wtx = true) (ha : c.fx.ack = true) (hF : c.lim < c.F)
    (nNak : Nat) (hN : nNak + 2 ≤ c.F) :
    ∀ (cs : List Bytes) (pni : Nat) (w : World σ), cs ≠ [] →
      BlockRes (sendChunks P c nNak cs pni w).2.2 ∧
      frames w ≤ frames (sendChunks P c nNak cs pni w).1 ∧
      frames (sendChunks P c nNak cs pni w).1 ≤ frames w + cs.length * loopFrames c nNak := by
  intro cs
  induction cs with
  | nil => intro pni w h; exact absurd rfl h
  | cons ch rest ih =>
    intro pni w _
    unfold sendChunks
    simp only
    generalize hib : (((if (!rest.isEmpty) = true then 0x12 else 0x02) ||| pni) :: ch) = iblk
    have hb := blockLoop_spec P c hw ha hF nNak (some (0xA2 ||| ((pni + 1) % 2))) iblk [0xB2 ||| pni] c.F 1 iblk w
      (by omega) (by omega)
    rw [show nNak + 3 - 1 = nNak + 2 by omega] at hb
    rcases hq : blockLoop P c nNak (some (0xA2 ||| ((pni + 1) % 2))) iblk [0xB2 ||| pni] c.F 1 iblk w with ⟨w', r⟩
    rw [hq] at hb
    simp only at hb
    unfold loopFrames
    generalize hQ : (nNak + 2) * (c.lim + 1) = Q at *
    have hlen : (ch :: rest).length * Q = rest.length * Q + Q := by
      rw [List.length_cons, Nat.add_mul, Nat.one_mul]
    have hend : ∀ e, BlockRes (Except.error (Exc.tagCmd e) : Py Bytes) ∧ frames w ≤ frames w' ∧
        frames w' ≤ frames w + (ch :: rest).length * Q := fun e => ⟨⟨e, rfl⟩, by omega, by omega⟩
    cases r with
    | error e =>
      simp only
      exact ⟨hb.1, by omega, by omega⟩
    | ok d =>
      cases d with
      | nil => exact absurd rfl hb.1
      | cons a t =>
        simp only
        split
        · exact hend _
        · split
          · rename_i hmore
            split
            · have hr : rest ≠ [] := by
                intro h; subst h; simp at hmore
              have := ih ((pni + 1) % 2) w' hr
              unfold loopFrames at this
              rw [hQ] at this
              exact ⟨this.1, by omega, by omega⟩
            · exact hend _
          · split
            · simp only; exact ⟨by simp [BlockRes], by omega, by omega⟩
            · exact hend _

/-- the response phase: every chained block must bring at least one octet and the response may not exceed
65538 octets, so there are at most 65539 rounds -/
theorem recvChain_spec {σ} (P : Peer σ) (c : Cfg) (hw : c.fx.wtx = true) (ha : c.fx.ack = true) (hch : c.fx.chain = true)
    (hF : c.lim < c.F) (nAck : Nat) (hA : nAck + 2 ≤ c.F) :
    ∀ (f pni : Nat) (data resp : Bytes) (w : World σ), data ≠ [] → data.length - 1 ≤ resp.length →
      65539 - (resp.length - (data.length - 1)) + 1 ≤ f →
      CmdRes (recvChain P c nAck f pni data resp w).2.2 ∧
      frames w ≤ frames (recvChain P c nAck f pni data resp w).1 ∧
      frames (recvChain P c nAck f pni data resp w).1 ≤
        frames w + (65539 - (resp.length - (data.length - 1))) * loopFrames c nAck := by
  intro f
  induction f with
  | zero => intro pni data resp w _ _ h; omega
  | succ f ih =>
    intro pni data resp w hne hlen hf
    unfold recvChain
    cases data with
    | nil => exact absurd rfl hne
    | cons a inf =>
      simp only [List.length_cons, Nat.add_sub_cancel] at hlen hf ⊢
      split
      · simp only; exact ⟨trivial, by omega, by omega⟩
      · simp only [hch, true_and]
        split
        · simp only; exact ⟨⟨_, rfl⟩, by omega, by omega⟩
        · rename_i hpass
          have hinf : inf ≠ [] := fun h => hpass (Or.inl h)
          have hinf1 : 1 ≤ inf.length := by
            cases inf with
            | nil => exact absurd rfl hinf
            | cons x y => simp
          have hresp : resp.length ≤ 65538 := by
            apply Nat.le_of_not_gt; intro h; exact hpass (Or.inr h)
          have hb := blockLoop_spec P c hw ha hF nAck none [0xA2 ||| pni] [0xA2 ||| pni] c.F 1 [0xA2 ||| pni] w
            (by omega) (by omega)
          rw [show nAck + 3 - 1 = nAck + 2 by omega] at hb
          rcases hq : blockLoop P c nAck none [0xA2 ||| pni] [0xA2 ||| pni] c.F 1 [0xA2 ||| pni] w with ⟨w', r⟩
          rw [hq] at hb
          simp only at hb
          unfold loopFrames
          generalize hQ : (nAck + 2) * (c.lim + 1) = Q at *
          generalize hM : 65539 - (resp.length - inf.length) = M at *
          have hM2 : 65539 - resp.length + 1 ≤ M := by omega
          have hmul : (65539 - resp.length) * Q + Q ≤ M * Q := by
            have := Nat.mul_le_mul_right Q hM2
            rw [Nat.add_mul, Nat.one_mul] at this
            exact this
          have hQM : Q ≤ M * Q := Nat.le_mul_of_pos_left Q (by omega)
          cases r with
          | error e =>
            simp only
            obtain ⟨n, hn⟩ := hb.1
            exact ⟨⟨n, hn⟩, by omega, by omega⟩
          | ok d =>
            cases d with
            | nil => exact absurd rfl hb.1
            | cons b t =>
              simp only
              split
              · simp only; exact ⟨⟨_, rfl⟩, by omega, by omega⟩
              · have := ih ((pni + 1) % 2) (b :: t) (resp ++ t) w' (by simp)
                  (by simp only [List.length_cons, Nat.add_sub_cancel, List.length_append]; omega)
                  (by simp only [List.length_cons, Nat.add_sub_cancel, List.length_append]; omega)
                simp only [List.length_cons, Nat.add_sub_cancel, List.length_append] at this
                unfold loopFrames at this
                rw [hQ] at this
                exact ⟨this.1, by omega, by omega⟩

theorem chunksAux_len (m : Nat) (hm : 1 ≤ m) : ∀ (f : Nat) (l : Bytes), l.length ≤ f → l ≠ [] →
    chunksAux m f l ≠ [] ∧ (chunksAux m f l).length ≤ l.length := by
  intro f
  induction f with
  | zero =>
    intro l hl hne
    cases l with
    | nil => exact absurd rfl hne
    | cons a t => simp at hl
  | succ f ih =>
    intro l hl hne
    unfold chunksAux
    split
    · refine ⟨by simp, ?_⟩
      cases l with
      | nil => exact absurd rfl hne
      | cons a t => simp
    · rename_i h
      have hd : (l.drop m).length ≤ f := by simp; omega
      have hdn : l.drop m ≠ [] := by
        intro h0; have := congrArg List.length h0; simp at this; omega
      have := ih (l.drop m) hd hdn
      refine ⟨by simp, ?_⟩
      simp only [List.length_cons]
      have h2 := this.2
      simp only [List.length_drop] at h2
      omega

theorem chunks_len (m : Nat) (hm : 1 ≤ m) (l : Bytes) (hne : l ≠ []) :
    chunks m l ≠ [] ∧ (chunks m l).length ≤ l.length := by
  unfold chunks
  rw [if_neg hne]
  exact chunksAux_len m hm l.length l (Nat.le_refl _) hne

/-- one command: a response or a `Type4TagCommandError`, at most `exchFrames` frames -/
theorem exchangeCmd_spec {σ} (P : Peer σ) (c : Cfg) (pcd : Pcd) (hR : c.Repaired pcd.nNak pcd.nAck)
    (hm : 0 < pcd.miu) (cmd : Bytes) (hc : cmd ≠ []) (w : World σ) :
    CmdRes (exchangeCmd P c pcd cmd w).2.2 ∧
    frames w ≤ frames (exchangeCmd P c pcd cmd w).1 ∧
    frames (exchangeCmd P c pcd cmd w).1 ≤ frames w + exchFrames c pcd cmd.length ∧
    (exchangeCmd P c pcd cmd w).2.1.miu = pcd.miu ∧ (exchangeCmd P c pcd cmd w).2.1.nNak = pcd.nNak ∧
    (exchangeCmd P c pcd cmd w).2.1.nAck = pcd.nAck ∧ (exchangeCmd P c pcd cmd w).2.1.failed = pcd.failed := by
  unfold exchangeCmd
  rw [if_neg (by omega), if_neg (by intro h; rcases h with h | h; omega; exact hc h)]
  have hch := chunks_len pcd.miu.toNat (by omega) cmd hc
  have hs := sendChunks_spec P c hR.wtx hR.ack hR.fW pcd.nNak hR.fN (chunks pcd.miu.toNat cmd) pcd.pni w hch.1
  rcases hq : sendChunks P c pcd.nNak (chunks pcd.miu.toNat cmd) pcd.pni w with ⟨w1, pni1, r⟩
  rw [hq] at hs
  simp only at hs
  unfold exchFrames
  have hmul : (chunks pcd.miu.toNat cmd).length * loopFrames c pcd.nNak ≤ cmd.length * loopFrames c pcd.nNak :=
    Nat.mul_le_mul_right _ hch.2
  generalize (chunks pcd.miu.toNat cmd).length * loopFrames c pcd.nNak = X at *
  generalize cmd.length * loopFrames c pcd.nNak = Y at *
  cases r with
  | error e =>
    simp only
    obtain ⟨n, hn⟩ := hs.1
    exact ⟨⟨n, hn⟩, by omega, by omega, by simp⟩
  | ok d =>
    simp only
    have hd : d ≠ [] := hs.1
    have hr := recvChain_spec P c hR.wtx hR.ack hR.chain hR.fW pcd.nAck hR.fA c.F pni1 d (d.drop 1) w1 hd
      (by simp) (by have := hR.fC; simp only [List.length_drop]; omega)
    simp only [List.length_drop, Nat.sub_self, Nat.sub_zero] at hr
    rcases hq2 : recvChain P c pcd.nAck c.F pni1 d (d.drop 1) w1 with ⟨w2, pni2, r2⟩
    rw [hq2] at hr
    simp only at hr
    simp only
    exact ⟨hr.1, by omega, by omega, by simp⟩

/-- `IsoDepInitiator.exchange` with the three repairs, against every card: a response or a
`Type4TagCommandError`, never an internal error, never out of fuel, at most `exchFrames` frames; what activation
fixed (MIU, retry counts) stays -/
theorem exchange_spec {σ} (P : Peer σ) (c : Cfg) (pcd : Pcd) (hR : c.Repaired pcd.nNak pcd.nAck)
    (hm : 0 < pcd.miu) (cmd : Bytes) (hc : cmd ≠ []) (w : World σ) :
    CmdRes (exchange P c pcd cmd w).2.2 ∧
    frames w ≤ frames (exchange P c pcd cmd w).1 ∧
    frames (exchange P c pcd cmd w).1 ≤ frames w + exchFrames c pcd cmd.length ∧
    (exchange P c pcd cmd w).2.1.miu = pcd.miu ∧ (exchange P c pcd cmd w).2.1.nNak = pcd.nNak ∧
    (exchange P c pcd cmd w).2.1.nAck = pcd.nAck := by
  unfold exchange
  cases hf : pcd.failed with
  | some e => exact ⟨⟨e, rfl⟩, by simp, by simp, rfl, rfl, rfl⟩
  | none =>
    simp only
    have he := exchangeCmd_spec P c pcd hR hm cmd hc w
    rcases hq : exchangeCmd P c pcd cmd w with ⟨w', pcd', r⟩
    rw [hq] at he
    simp only at he
    cases r with
    | ok d => exact ⟨trivial, he.2.1, he.2.2.1, he.2.2.2.1, he.2.2.2.2.1, he.2.2.2.2.2.1⟩
    | error e =>
      obtain ⟨n, hn⟩ := he.1
      subst hn
      exact ⟨⟨n, rfl⟩, he.2.1, he.2.2.1, he.2.2.2.1, he.2.2.2.2.1, he.2.2.2.2.2.1⟩

end NfcVerif.IsoDepR
