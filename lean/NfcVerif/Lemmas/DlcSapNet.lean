import NfcVerif.Lemmas.DlcSapCli
/-!
# Two controllers joined by FIFO wires: what B has seen plus what is in flight is what A has sent
-/
namespace NfcVerif.DlcSap
open NfcVerif NfcVerif.Dlc

/-! ### the log `out` of a controller grows by exactly the frames it hands to the link -/

theorem sdeq_out (c : Ctl) (addr : Nat) (b : Int) : (c.sdeq addr b).1.out = c.out ++ (c.sdeq addr b).2.toList := by
  unfold Ctl.sdeq
  split
  · split
    · simp
    · split <;> simp
  · split
    · simp
    · rfl

theorem sack_out (c : Ctl) (addr : Nat) : (c.sack addr).1.out = c.out ++ (c.sack addr).2.toList := by
  unfold Ctl.sack
  split
  · simp
  · rfl

theorem firstDeq_out (b : Int) (l : List Nat) (c : Ctl) : (firstDeq b l c).1.out = c.out ++ (firstDeq b l c).2.toList := by
  induction l generalizing c with
  | nil => simp [firstDeq]
  | cons a r ih =>
    simp only [firstDeq]
    have h := sdeq_out c a b
    cases hr : (c.sdeq a b).2 with
    | some w => rw [hr] at h; simpa using h
    | none =>
      rw [hr] at h
      dsimp only
      rw [ih, h]; simp

theorem firstAck_out (l : List Nat) (c : Ctl) : (firstAck l c).1.out = c.out ++ (firstAck l c).2.toList := by
  induction l generalizing c with
  | nil => simp [firstAck]
  | cons a r ih =>
    simp only [firstAck]
    have h := sack_out c a
    cases hr : (c.sack a).2 with
    | some w => rw [hr] at h; simpa using h
    | none =>
      rw [hr] at h
      dsimp only
      rw [ih, h]; simp

/-- the frame under construction is what was logged since `base` -/
def AggOk (base : List WPdu) (g : Agg) : Prop := g.c.out = base ++ g.frame

theorem aggPass_ok (link : Nat) (l : List Nat) (base : List WPdu) (g : Agg) (h : AggOk base g) : AggOk base (aggPass link l g) := by
  induction l generalizing g with
  | nil => exact h
  | cons a r ih =>
    simp only [aggPass]
    have ho := sdeq_out g.c a g.budget
    cases hr : (g.c.sdeq a g.budget).2 with
    | none =>
      rw [hr] at ho
      apply ih
      unfold AggOk at h ⊢
      dsimp only
      rw [ho, h]; simp
    | some w =>
      rw [hr] at ho
      have hnew : (g.c.sdeq a g.budget).1.out = base ++ (g.frame ++ [w]) := by
        unfold AggOk at h
        rw [ho, h]; simp
      dsimp only
      split
      · exact hnew
      · exact ih _ hnew

theorem aggLoopW_ok (link : Nat) (l : List Nat) (fuel : Nat) (base : List WPdu) (g : Agg) (h : AggOk base g) :
    AggOk base (aggLoopW link l fuel g) := by
  induction fuel generalizing g with
  | zero => exact h
  | succ n ih =>
    simp only [aggLoopW]
    split
    · exact h
    · split
      · exact aggPass_ok link l base _ h
      · exact ih _ (aggPass_ok link l base _ h)

theorem ackPass_ok (link : Nat) (l : List Nat) (base : List WPdu) (g : Agg) (h : AggOk base g) : AggOk base (ackPass link l g) := by
  induction l generalizing g with
  | nil => exact h
  | cons a r ih =>
    simp only [ackPass]
    have ho := sack_out g.c a
    cases hr : (g.c.sack a).2 with
    | none =>
      rw [hr] at ho
      apply ih
      unfold AggOk at h ⊢
      dsimp only
      rw [ho, h]; simp
    | some w =>
      rw [hr] at ho
      have hnew : (g.c.sack a).1.out = base ++ (g.frame ++ [w]) := by
        unfold AggOk at h
        rw [ho, h]; simp
      dsimp only
      split
      · exact hnew
      · exact ih _ hnew

theorem collectFirst_out (c : Ctl) : c.collectFirst.1.out = c.out ++ c.collectFirst.2.1.toList := by
  unfold Ctl.collectFirst
  dsimp only
  have h1 := firstDeq_out c.link (1 :: c.saps.map (·.addr)) c
  cases hr : (firstDeq c.link (1 :: c.saps.map (·.addr)) c).2 with
  | some w => rw [hr] at h1; simpa using h1
  | none =>
    rw [hr] at h1
    dsimp only
    rw [firstAck_out, h1]; simp

theorem collect_out (c : Ctl) (fuel : Nat) : (c.collect fuel).1.out = c.out ++ (c.collect fuel).2 := by
  have hf := collectFirst_out c
  unfold Ctl.collect
  dsimp only
  cases hw : c.collectFirst.2.1 with
  | none => rw [hw] at hf; simpa using hf
  | some w =>
    rw [hw] at hf
    dsimp only
    split
    · simpa using hf
    · split
      · simpa using hf
      · unfold collectAgg
        dsimp only
        have h0 : AggOk c.out { c := c.collectFirst.1, frame := [w], budget := (c.link : Int) - agfLenW [w] - 3, deqNone := false } := by
          unfold AggOk; simpa using hf
        have h1 := aggLoopW_ok c.link (1 :: c.saps.map (·.addr)) fuel c.out _ h0
        split
        · exact ackPass_ok _ _ _ _ h1
        · exact h1

theorem upd_out (c : Ctl) (sid : Nat) (f : Sock → Sock) : (c.upd sid f).out = c.out := (upd_fields c sid f).1

theorem unlist_out (c : Ctl) (sid : Nat) : (c.unlist sid).out = c.out := by
  unfold Ctl.unlist; split <;> rfl

theorem epOp_out (c : Ctl) (sid : Nat) (f : Ep → Ep × Res) (other : Sock → NRes) : (c.epOp sid f other).1.out = c.out := by
  unfold Ctl.epOp
  split
  · rfl
  · split
    · exact upd_out ..
    all_goals rfl

theorem dispatch_out (c : Ctl) (w : WPdu) : (c.dispatch w).out = c.out := by
  unfold Ctl.dispatch
  dsimp only
  split
  · rfl
  · split <;> rfl

theorem dispatchAll_out (c : Ctl) (f : List WPdu) : (c.dispatchAll f).out = c.out := by
  induction f generalizing c with
  | nil => rfl
  | cons w r ih => simp only [Ctl.dispatchAll]; rw [ih, dispatch_out]

/-- what an operation hands to the link is what it appends to `out` -/
theorem step_out (c : Ctl) (o : COp) : (c.step o).1.out = c.out ++ (c.step o).2.2 := by
  cases o with
  | dlv f => simp [Ctl.step, dispatchAll_out]
  | sock rw miu to =>
    simp only [Ctl.step, Ctl.newSock, List.append_nil]
    cases to <;> dsimp only <;> (repeat' split) <;> rfl
  | listen sid b =>
    simp only [Ctl.step, Ctl.listen, List.append_nil]
    (repeat' split) <;> first | rfl | exact upd_out ..
  | connect sid to =>
    simp only [Ctl.step, Ctl.connect, List.append_nil]
    (repeat' split) <;> first | rfl | exact upd_out ..
  | connFin sid =>
    simp only [Ctl.step, Ctl.connFin, List.append_nil]
    (repeat' split) <;> first | rfl | exact upd_out ..
  | accept sid =>
    simp only [Ctl.step, Ctl.accept, List.append_nil]
    (repeat' split) <;> first | rfl | exact upd_out ..
  | send sid m => simp only [Ctl.step, Ctl.send, List.append_nil]; exact epOp_out ..
  | recv sid =>
    simp only [Ctl.step, Ctl.recv, List.append_nil]
    (repeat' split) <;> first | rfl | exact epOp_out ..
  | busy sid b =>
    simp only [Ctl.step, Ctl.setBusy, List.append_nil]
    (repeat' split) <;> first | rfl | exact upd_out ..
  | poll sid k =>
    simp only [Ctl.step, Ctl.poll, List.append_nil]
    (repeat' split) <;> first | rfl | exact epOp_out ..
  | close sid =>
    simp only [Ctl.step, Ctl.close, List.append_nil]
    (repeat' split) <;> first | rfl | exact upd_out .. | (rw [unlist_out]; exact upd_out ..) | (rw [upd_out]; exact unlist_out ..)
  | closeFin sid =>
    simp only [Ctl.step, Ctl.closeFin, List.append_nil]
    (repeat' split) <;> first | rfl | (rw [unlist_out]; exact upd_out ..)
  | sdeq addr b => exact sdeq_out c addr b
  | sack addr => exact sack_out c addr
  | collect => exact collect_out c 600

/-! ### the closed system -/

/-- everything A has sent is what B has been given plus what is on the wire, in order (and the same for B -> A) -/
def NOk (n : Net) : Prop := n.b.seen ++ n.wab.flatten = n.a.out ∧ n.a.seen ++ n.wba.flatten = n.b.out

theorem netStep_ok (n : Net) (o : NOp) (h : NOk n) : NOk (n.step o).1 := by
  cases o with
  | op x o' =>
    simp only [Net.step]
    cases hd : isDlv o' with
    | true => simpa using h
    | false =>
      simp only [Bool.false_eq_true, if_false]
      cases x with
      | A =>
        dsimp only
        refine ⟨?_, ?_⟩
        · show n.b.seen ++ (if (n.a.step o').2.2.isEmpty then n.wab else n.wab ++ [(n.a.step o').2.2]).flatten = (n.a.step o').1.out
          rw [step_out, ← h.1]
          split
          · rename_i he
            have : (n.a.step o').2.2 = [] := by simpa using he
            rw [this]; simp
          · simp
        · show (n.a.step o').1.seen ++ n.wba.flatten = n.b.out
          rw [step_seen_eq _ _ hd]; exact h.2
      | B =>
        dsimp only
        refine ⟨?_, ?_⟩
        · show (n.b.step o').1.seen ++ n.wab.flatten = n.a.out
          rw [step_seen_eq _ _ hd]; exact h.1
        · show n.a.seen ++ (if (n.b.step o').2.2.isEmpty then n.wba else n.wba ++ [(n.b.step o').2.2]).flatten = (n.b.step o').1.out
          rw [step_out, ← h.2]
          split
          · rename_i he
            have : (n.b.step o').2.2 = [] := by simpa using he
            rw [this]; simp
          · simp
  | deliver x =>
    cases x with
    | A =>
      simp only [Net.step]
      cases hw : n.wba with
      | nil => simpa [hw] using h
      | cons f rest =>
        dsimp only
        refine ⟨?_, ?_⟩
        · show n.b.seen ++ n.wab.flatten = (n.a.step (.dlv f)).1.out
          rw [step_out]; simpa [Ctl.step] using h.1
        · show (n.a.step (.dlv f)).1.seen ++ rest.flatten = n.b.out
          have := h.2
          rw [hw] at this
          simp only [Ctl.step, dispatchAll_seen]
          simpa using this
    | B =>
      simp only [Net.step]
      cases hw : n.wab with
      | nil => simpa [hw] using h
      | cons f rest =>
        dsimp only
        refine ⟨?_, ?_⟩
        · show (n.b.step (.dlv f)).1.seen ++ rest.flatten = n.a.out
          have := h.1
          rw [hw] at this
          simp only [Ctl.step, dispatchAll_seen]
          simpa using this
        · show n.a.seen ++ n.wba.flatten = (n.b.step (.dlv f)).1.out
          rw [step_out]; simpa [Ctl.step] using h.2

theorem netRun_ok (n : Net) (hist : List NOp) (h : NOk n) : NOk (n.run hist) := by
  induction hist generalizing n with
  | nil => exact h
  | cons o r ih => exact ih _ (netStep_ok n o h)

theorem run_append (c : Ctl) (o1 o2 : List COp) : c.run (o1 ++ o2) = (c.run o1).run o2 := by
  simp [Ctl.run, List.foldl_append]

/-- side A of the history performs no `listen` -/
def ClientA (hist : List NOp) : Prop := ∀ o ∈ hist, ∀ o', o = .op .A o' → isListenOp o' = false

/-- each side of the closed system is a controller running its own operations and the frames it is given -/
theorem netRun_proj (n : Net) (hist : List NOp) :
    ∃ oa ob, (n.run hist).a = n.a.run oa ∧ (n.run hist).b = n.b.run ob ∧
      (ClientA hist → ∀ o ∈ oa, isListenOp o = false) := by
  induction hist generalizing n with
  | nil => exact ⟨[], [], rfl, rfl, fun _ o ho => by cases ho⟩
  | cons o r ih =>
    obtain ⟨oa, ob, h1, h2, h3⟩ := ih (n.step o).1
    have hcl : ClientA (o :: r) → ClientA r := fun hc o' ho' => hc o' (List.mem_cons_of_mem _ ho')
    have key : ∃ oa0 ob0, (n.step o).1.a = n.a.run oa0 ∧ (n.step o).1.b = n.b.run ob0 ∧
        (ClientA (o :: r) → ∀ x ∈ oa0, isListenOp x = false) := by
      cases o with
      | op x o' =>
        simp only [Net.step]
        cases hd : isDlv o' with
        | true => exact ⟨[], [], rfl, rfl, fun _ x hx => by cases hx⟩
        | false =>
          simp only [Bool.false_eq_true, if_false]
          cases x with
          | A =>
            refine ⟨[o'], [], rfl, rfl, ?_⟩
            intro hc x hx
            have : x = o' := by simpa using hx
            rw [this]
            exact hc _ (List.mem_cons_self ..) o' rfl
          | B => exact ⟨[], [o'], rfl, rfl, fun _ x hx => by cases hx⟩
      | deliver x =>
        cases x with
        | A =>
          simp only [Net.step]
          cases hw : n.wba with
          | nil => exact ⟨[], [], rfl, rfl, fun _ x hx => by cases hx⟩
          | cons f rest =>
            refine ⟨[.dlv f], [], rfl, rfl, ?_⟩
            intro _ x hx
            have : x = .dlv f := by simpa using hx
            rw [this]; rfl
        | B =>
          simp only [Net.step]
          cases hw : n.wab with
          | nil => exact ⟨[], [], rfl, rfl, fun _ x hx => by cases hx⟩
          | cons f rest => exact ⟨[], [.dlv f], rfl, rfl, fun _ x hx => by cases hx⟩
    obtain ⟨oa0, ob0, k1, k2, k3⟩ := key
    refine ⟨oa0 ++ oa, ob0 ++ ob, ?_, ?_, ?_⟩
    · show ((n.step o).1.run r).a = _
      rw [h1, k1, run_append]
    · show ((n.step o).1.run r).b = _
      rw [h2, k2, run_append]
    · intro hc x hx
      rcases List.mem_append.1 hx with hx | hx
      · exact k3 hc x hx
      · exact h3 (hcl hc) x hx


/-- executable form of `ClientA` -/
def clientAB : List NOp → Bool
  | [] => true
  | .op .A o :: rest => !isListenOp o && clientAB rest
  | _ :: rest => clientAB rest

theorem ClientA_of_bool (hist : List NOp) (h : clientAB hist = true) : ClientA hist := by
  induction hist with
  | nil => intro o ho; cases ho
  | cons x r ih =>
    intro o ho o' heq
    rcases List.mem_cons.1 ho with rfl | ho
    · subst heq
      simp only [clientAB, Bool.and_eq_true, Bool.not_eq_true'] at h
      exact h.1
    · apply ih _ o ho o' heq
      cases x with
      | op s y =>
        cases s with
        | A => simp only [clientAB, Bool.and_eq_true] at h; exact h.2
        | B => exact h
      | deliver s => exact h

end NfcVerif.DlcSap
