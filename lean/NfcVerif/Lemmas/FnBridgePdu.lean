import NfcVerif.Gen.FnPdu
import NfcVerif.Model.Pdu
import NfcVerif.Lemmas.FnBridgeBase
/-!
Helper lemmas for `Props/FnBridgePdu.lean` (`nfc/llcp/pdu.py` against `Model/Pdu.lean`): the `struct`
primitives of the prelude and of `Py.lean` as guarded reads, packing of small formats, reserved-bit masks.
-/
namespace NfcVerif.FnBridge.Pdu
open NfcVerif NfcVerif.PyFn NfcVerif.Pdu NfcVerif.Pdu.Impl

/-- results of the model (naturals) as the Python ints of the regenerated functions -/
def i2 (p : Nat × Nat) : Int × Int := ((p.1 : Int), (p.2 : Int))

def i4 (p : Nat × Nat × Nat × Nat) : Int × Int × Int × Int := ((p.1 : Int), (p.2.1 : Int), (p.2.2.1 : Int), (p.2.2.2 : Int))

theorem unpackBBB_eq (d : Bytes) (off : Nat) :
    unpackBBB d off = if off + 3 ≤ d.length then .ok (at0 d off, at0 d (off + 1), at0 d (off + 2)) else .error .struct := by
  unfold unpackBBB at0
  by_cases h : off + 2 < d.length
  · have h0 : off < d.length := by omega
    have h1 : off + 1 < d.length := by omega
    simp [List.getElem?_eq_getElem h, List.getElem?_eq_getElem h0, List.getElem?_eq_getElem h1, show off + 3 ≤ d.length from h]
  · have : ¬ off + 3 ≤ d.length := by omega
    simp only [this, if_false]
    rw [List.getElem?_eq_none (by omega : d.length ≤ off + 2)]
    split <;> simp_all

theorem unpackBBBB_eq (d : Bytes) (off : Nat) :
    unpackBBBB d off = if off + 4 ≤ d.length then .ok (at0 d off, at0 d (off + 1), at0 d (off + 2), at0 d (off + 3))
      else .error .struct := by
  unfold unpackBBBB at0
  by_cases h : off + 3 < d.length
  · have h0 : off < d.length := by omega
    have h1 : off + 1 < d.length := by omega
    have h2 : off + 2 < d.length := by omega
    simp [List.getElem?_eq_getElem h, List.getElem?_eq_getElem h0, List.getElem?_eq_getElem h1, List.getElem?_eq_getElem h2,
      show off + 4 ≤ d.length from h]
  · have : ¬ off + 4 ≤ d.length := by omega
    simp only [this, if_false]
    rw [List.getElem?_eq_none (by omega : d.length ≤ off + 3)]
    split <;> simp_all

theorem packField_B (n : Nat) : packField .B (n : Int) = if n > 255 then .error .struct else .ok [n] := by
  unfold packField
  by_cases h : n > 255
  · have : ((n : Int) < 0 ∨ (n : Int) ≥ 256 ^ Fmt.B.size) := by simp [Fmt.size]; omega
    simp [this, h]
  · have : ¬ ((n : Int) < 0 ∨ (n : Int) ≥ 256 ^ Fmt.B.size) := by simp [Fmt.size]; omega
    simp [this, h]

theorem packField_Hbe (n : Nat) : packField .Hbe (n : Int) = if n > 65535 then .error .struct else .ok [n / 256, n % 256] := by
  unfold packField
  by_cases h : n > 65535
  · have : ((n : Int) < 0 ∨ (n : Int) ≥ 256 ^ Fmt.Hbe.size) := by simp [Fmt.size]; omega
    simp [this, h]
  · have : ¬ ((n : Int) < 0 ∨ (n : Int) ≥ 256 ^ Fmt.Hbe.size) := by simp [Fmt.size]; omega
    simp [this, h, toBE]; omega

theorem pack_Hbe (n : Nat) : PyFn.pack [.Hbe] [(n : Int)] = if n > 65535 then .error .struct else .ok [n / 256, n % 256] := by
  simp only [PyFn.pack, packField_Hbe]
  by_cases h : n > 65535 <;> simp [h]

theorem pack_B1 (n : Nat) : PyFn.pack [.B] [(n : Int)] = if n > 255 then .error .struct else .ok [n] := pack_B n

theorem slice_nat {α} (l : List α) (a b : Nat) : slice l (a : Int) (b : Int) = sliceN l a b := by
  unfold slice sliceN
  rw [clampBound_ofNat, clampBound_ofNat]
  show List.take (min b l.length - min a l.length) (List.drop (min a l.length) l) = _
  by_cases ha : a ≤ l.length
  · rw [Nat.min_eq_left ha]
    by_cases hb : b ≤ l.length
    · rw [Nat.min_eq_left hb]
    · rw [Nat.min_eq_right (by omega)]
      rw [List.take_of_length_le (by simp), List.take_of_length_le (by simp; omega)]
  · have h1 : min a l.length = l.length := Nat.min_eq_right (by omega)
    rw [h1, List.drop_length, List.drop_of_length_le (by omega), List.take_nil, List.take_nil]

/-- closes goals `Except.ok (C args) = Except.ok (C args')` whose arguments differ by casts -/
macro "py_done" : tactic => `(tactic| first
  | rfl
  | (simp only [Int.toNat_natCast, Option.getD_some, slice_nat, Nat.add_assoc]; done)
  | (simp only [Int.toNat_natCast, Option.getD_some, slice_nat, Nat.add_assoc]; simp <;> omega)
  | (simp <;> omega))

theorem getB_nat (d : Bytes) (off : Nat) :
    getB d (off : Int) = if off < d.length then .ok ((at0 d off : Nat) : Int) else .error .index := by
  rw [getB_ofNat]
  by_cases h : off < d.length
  · simp [h, at0]
  · simp [h, List.getElem?_eq_none (by omega : d.length ≤ off)]

theorem idxN_nat (d : Bytes) (off : Nat) :
    idxN d off = if off < d.length then .ok (at0 d off) else .error .index := by
  unfold idxN at0
  by_cases h : off < d.length
  · simp [h]
  · simp [h, List.getElem?_eq_none (by omega : d.length ≤ off)]

theorem pack_BBBB (a b c e : Nat) :
    PyFn.pack [.B, .B, .B, .B] [(a : Int), (b : Int), (c : Int), (e : Int)]
      = if a > 255 ∨ b > 255 ∨ c > 255 ∨ e > 255 then .error .struct else .ok [a, b, c, e] := by
  simp only [PyFn.pack, packField_B]
  by_cases ha : a > 255 <;> by_cases hb : b > 255 <;> by_cases hc : c > 255 <;> by_cases he : e > 255 <;> simp [ha, hb, hc, he]

/-- the value of a decoded TLV as the dynamically typed Python value -/
def encV : TlvV → Val
  | .num v => .int v
  | .raw v => .bytes v
  | .sdreq tid sn => .tuple [.int tid, .bytes sn]
  | .sdres tid sap => .tuple [.int tid, .int sap]

theorem miux_mask (x : Nat) (h : x < 65536) : (if ¬ x &&& 63488 = 0 then x &&& 2047 else x) = x % 2048 := mask_reserved x 11 5 h

theorem rw_mask (x : Nat) (h : x < 256) : (if ¬ x &&& 240 = 0 then x &&& 15 else x) = x % 16 := mask_reserved x 4 4 h

theorem opt_mask (x : Nat) (h : x < 256) : (if ¬ x &&& 248 = 0 then x &&& 7 else x) = x % 8 := mask_reserved x 3 5 h

theorem len_two {α} {v : List α} (h : v.length = 2) : ∃ a b, v = [a, b] := by
  match v, h with
  | [a, b], _ => exact ⟨a, b, rfl⟩

end NfcVerif.FnBridge.Pdu
