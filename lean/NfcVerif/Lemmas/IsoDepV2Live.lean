import NfcVerif.Lemmas.IsoDepV2
import NfcVerif.Lemmas.IsoDepLive
/-!
# ISO-DEP, repaired initiator: absorbed faults

Liveness counterpart of `Lemmas/IsoDepV2.lean` against the ISO/IEC 14443-4 card.  (That every loop ENDS needs no
card hypothesis any more: `Lemmas/IsoDepV2Term.lean`.)  If the card asks for waiting time with a multiplier `M` in
1..59, at most `W` times per block with `W * M ≤ max_wtxm_sum`, sends non-empty chained blocks and a response of at
most 65539 octets, and the script contains `k` faults with `2k ≤ resendMax n_retry = n_retry + 1` (none of them a reader
protocol error),
every retry loop ends with the block it was waiting for.

With `r = resendMax n` (the count up to which a retransmission after R(ACK) is made; `r = n + 1`, the proofs use
`r ≤ n + 1` only) the potential is `i + 2k ≤ r + 1` while the block of the round is out and `i + 2k ≤ r` while the retry
block is out: a block lost on its way TO the card costs two counts (R(NAK), retransmission), the second of which is not
subject to the retry limit.  The card-side bookkeeping (`wl`, `xchg_legs`, `Round.Live`, `rx_live_first`, `rx_live_echo`) is the
one of `Lemmas/IsoDepLive.lean`.
-/
namespace NfcVerif.IsoDep2
open NfcVerif NfcVerif.IsoDep

/-- the multiplier the reader reads from the card's S(WTX) request -/
def wtxmMask (cfg : CardCfg) : Nat := cfg.wtxm &&& 0x3F

theorem wtxmOf_wtxBlock' (cfg : CardCfg) : wtxmOf (wtxBlock cfg) = some (wtxmMask cfg) := wtxmOf_wtxBlock cfg

theorem pending_wl_pos {cfg : CardCfg} {k : Core} {B : Bytes} {c : Card} (h : Pending cfg k B c) : 1 ≤ wl c := by
  obtain ⟨_, _, n, hn⟩ := h
  simp [wl, hn]

/-- outcome of `_exchange` with the fault bookkeeping, see `IsoDep.WLive` -/
def WLiveW (cfg : CardCfg) (W : Nat) (R : Round) (k : Nat) (np : Prop) (out : Bytes) (w' : World Card) (r : RxW) : Prop :=
  (np → Fault.p ∉ w'.script) ∧ (Em cfg R.post R.B w'.card → wl w'.card ≤ W) ∧
  ((nfaults w'.script ≤ k ∧ ((r = .data R.B ∧ Done R.post R.B w'.card) ∨
       (out ≠ R.req ∧ R.Pre w'.card ∧ ∃ a, r = .data [a] ∧ R.resend = some a))) ∨
   (nfaults w'.script < k ∧ St cfg R w'.card ∧
      (r = .timeout ∨ r = .transmission ∨ r = .data [] ∨ (r = .protocol ∧ ¬ np))))

theorem WLiveW.mono {cfg W R k1 k} {np1 np : Prop} {out w' r} (h : WLiveW cfg W R k1 np1 out w' r) (hk : k1 ≤ k)
    (hnp : np → np1) : WLiveW cfg W R k np out w' r := by
  obtain ⟨h1, h2, h3⟩ := h
  refine ⟨fun h => h1 (hnp h), h2, ?_⟩
  rcases h3 with ⟨ha, hb⟩ | ⟨ha, hb, hc⟩
  · exact Or.inl ⟨by omega, hb⟩
  · refine Or.inr ⟨by omega, hb, ?_⟩
    rcases hc with h | h | h | ⟨h, hn⟩
    · exact Or.inl h
    · exact Or.inr (Or.inl h)
    · exact Or.inr (Or.inr (Or.inl h))
    · exact Or.inr (Or.inr (Or.inr ⟨h, fun hp => hn (hnp hp)⟩))

theorem xchgW_succ {σ} (P : Peer σ) (L F sum : Nat) (w : World σ) (out : Bytes) :
    xchgW P L (F + 1) sum w out =
      match (w.xchg P out).2 with
      | .data d =>
        match wtxmOf d with
        | none => ((w.xchg P out).1, .data d)
        | some m =>
          if m = 0 ∨ m > 59 then ((w.xchg P out).1, .protocol)
          else if sum + m > L then ((w.xchg P out).1, .waited)
          else xchgW P L F (sum + m) (w.xchg P out).1 d
      | .timeout => ((w.xchg P out).1, .timeout)
      | .transmission => ((w.xchg P out).1, .transmission)
      | .protocol => ((w.xchg P out).1, .protocol)
      | .fuel => ((w.xchg P out).1, .fuel) := rfl

/-- one step of `_exchange` when the card answers with the block of the round or an S(WTX) request; `sum` is what
was granted so far for this block, the card's outstanding requests still fit the limit -/
theorem xchgW_step_em (cfg : CardCfg) (W L : Nat) (R : Round) (hR : R.Ok cfg) (F : Nat)
    (hM : 1 ≤ wtxmMask cfg ∧ wtxmMask cfg ≤ 59)
    (ihEcho : ∀ (w : World Card) (out0 : Bytes) (s : Nat), Pending cfg R.post R.B w.card → wl w.card ≤ W → wl w.card ≤ F →
      s + wl w.card * wtxmMask cfg ≤ L + wtxmMask cfg →
      WLiveW cfg W R (nfaults w.script) (Fault.p ∉ w.script) out0
        (xchgW (isoPeer cfg) L F s w (wtxBlock cfg)).1 (xchgW (isoPeer cfg) L F s w (wtxBlock cfg)).2)
    (w : World Card) (out : Bytes) (sum : Nat) (c' : Card) (o : Bytes) (hrx : Card.rx cfg w.card out = (c', some o))
    (hans : (Done R.post R.B c' ∧ o = R.B) ∨ (Pending cfg R.post R.B c' ∧ o = wtxBlock cfg))
    (hwl' : wl c' ≤ W) (hwlF : wl c' ≤ F) (hsum : sum + wl c' * wtxmMask cfg ≤ L)
    (hst : St cfg R w.card) (hw : Em cfg R.post R.B w.card → wl w.card ≤ W)
    (out0 : Bytes) :
    WLiveW cfg W R (nfaults w.script) (Fault.p ∉ w.script) out0
      (xchgW (isoPeer cfg) L (F + 1) sum w out).1 (xchgW (isoPeer cfg) L (F + 1) sum w out).2 := by
  obtain ⟨hlegs, hnp, _⟩ := xchg_legs (isoPeer cfg) w out c' o hrx
  have hem' : Em cfg R.post R.B c' := by
    rcases hans with h | h
    · exact Or.inl h.1
    · exact Or.inr h.1
  rw [xchgW_succ]
  rcases hlegs with ⟨hc, hr, hk⟩ | ⟨hc, hr, hk⟩ | ⟨hc, hr, hk⟩
  · simp only [hr]
    exact ⟨hnp, by rw [hc]; exact hw, Or.inr ⟨by omega, by rw [hc]; exact hst, Or.inl rfl⟩⟩
  · simp only [hr]
    rcases hans with ⟨hd, rfl⟩ | ⟨hp, rfl⟩
    · obtain ⟨a, t, hB, _, hBw⟩ := hR.hB
      simp only [wtxmOf_none hBw]
      refine ⟨hnp, fun _ => by rw [hc]; exact hwl', Or.inl ⟨by omega, Or.inl ⟨rfl, by rw [hc]; exact hd⟩⟩⟩
    · have hpos := pending_wl_pos hp
      have hge : wtxmMask cfg ≤ wl c' * wtxmMask cfg := Nat.le_mul_of_pos_left _ hpos
      simp only [wtxmOf_wtxBlock']
      rw [if_neg (by omega), if_neg (by omega)]
      have := ihEcho (w.xchg (isoPeer cfg) out).1 out0 (sum + wtxmMask cfg) (by rw [hc]; exact hp) (by rw [hc]; exact hwl')
        (by rw [hc]; exact hwlF) (by rw [hc]; omega)
      exact this.mono (by omega) hnp
  · have hst' : St cfg R (w.xchg (isoPeer cfg) out).1.card := by rw [hc]; exact Or.inr hem'
    have hw' : Em cfg R.post R.B (w.xchg (isoPeer cfg) out).1.card → wl (w.xchg (isoPeer cfg) out).1.card ≤ W := by
      rw [hc]; exact fun _ => hwl'
    rcases hr with hr | hr | hr | ⟨hr, hp⟩
    · simp only [hr]; exact ⟨hnp, hw', Or.inr ⟨by omega, hst', Or.inl rfl⟩⟩
    · simp only [hr]; exact ⟨hnp, hw', Or.inr ⟨by omega, hst', Or.inr (Or.inl rfl)⟩⟩
    · simp only [hr, wtxmOf]
      exact ⟨hnp, hw', Or.inr ⟨by omega, hst', Or.inr (Or.inr (Or.inl rfl))⟩⟩
    · simp only [hr]; exact ⟨hnp, hw', Or.inr ⟨by omega, hst', Or.inr (Or.inr (Or.inr ⟨rfl, fun h => h hp⟩))⟩⟩

theorem xchgW_live_echo (cfg : CardCfg) (W L : Nat) (R : Round) (hR : R.Ok cfg)
    (hM : 1 ≤ wtxmMask cfg ∧ wtxmMask cfg ≤ 59) :
    ∀ (F : Nat) (w : World Card) (out0 : Bytes) (s : Nat), Pending cfg R.post R.B w.card → wl w.card ≤ W → wl w.card ≤ F →
      s + wl w.card * wtxmMask cfg ≤ L + wtxmMask cfg →
      WLiveW cfg W R (nfaults w.script) (Fault.p ∉ w.script) out0
        (xchgW (isoPeer cfg) L F s w (wtxBlock cfg)).1 (xchgW (isoPeer cfg) L F s w (wtxBlock cfg)).2 := by
  intro F
  induction F with
  | zero =>
    intro w out0 s hp _ hF _
    have := pending_wl_pos hp
    omega
  | succ F ih =>
    intro w out0 s hp hW hF hs
    obtain ⟨c', o, hrx, hdec, hans⟩ := rx_live_echo cfg R w.card hp
    have hmul : wl w.card * wtxmMask cfg = wl c' * wtxmMask cfg + wtxmMask cfg := by
      rw [← hdec, Nat.add_mul, Nat.one_mul]
    exact xchgW_step_em cfg W L R hR F hM ih w (wtxBlock cfg) s c' o hrx hans (by omega) (by omega) (by omega)
      (Or.inr (Or.inr hp)) (fun _ => hW) out0

theorem xchgW_live_first (cfg : CardCfg) (W L : Nat) (R : Round) (hR : R.Ok cfg) (hL : R.Live cfg W)
    (hM : 1 ≤ wtxmMask cfg ∧ wtxmMask cfg ≤ 59) (hWL : W * wtxmMask cfg ≤ L)
    (F : Nat) (hF : W + 1 ≤ F) (w : World Card) (out : Bytes) (h : First cfg R w.card out)
    (hw : Em cfg R.post R.B w.card → wl w.card ≤ W) :
    WLiveW cfg W R (nfaults w.script) (Fault.p ∉ w.script) out
      (xchgW (isoPeer cfg) L F 0 w out).1 (xchgW (isoPeer cfg) L F 0 w out).2 := by
  obtain ⟨F', rfl⟩ : ∃ F', F = F' + 1 := ⟨F - 1, by omega⟩
  have hst : St cfg R w.card := by
    rcases h with ⟨h, _⟩ | ⟨h, _⟩
    · exact Or.inl h
    · exact Or.inr h
  obtain ⟨c', o, hrx, hwl', hans⟩ := rx_live_first cfg W R hR hL w.card out h hw
  have hsum : ∀ (hle : wl c' ≤ W), 0 + wl c' * wtxmMask cfg ≤ L := by
    intro hle
    have := Nat.mul_le_mul_right (wtxmMask cfg) hle
    omega
  rcases hans with hd | hp | ⟨hpre, hne, a, rfl, ha⟩
  · have hwl'' := hwl' (Or.inl hd.1)
    exact xchgW_step_em cfg W L R hR F' hM (xchgW_live_echo cfg W L R hR hM F') w out 0 c' o hrx (Or.inl hd) hwl''
      (by omega) (hsum hwl'') hst hw out
  · have hwl'' := hwl' (Or.inr hp.1)
    exact xchgW_step_em cfg W L R hR F' hM (xchgW_live_echo cfg W L R hR hM F') w out 0 c' o hrx (Or.inr hp) hwl''
      (by omega) (hsum hwl'') hst hw out
  · -- R(ACK) with the other block number: the card has not seen the block
    obtain ⟨hlegs, hnp, _⟩ := xchg_legs (isoPeer cfg) w out c' [a] hrx
    rw [xchgW_succ]
    rcases hlegs with ⟨hc, hr, hk⟩ | ⟨hc, hr, hk⟩ | ⟨hc, hr, hk⟩
    · simp only [hr]
      exact ⟨hnp, by rw [hc]; exact hw, Or.inr ⟨by omega, by rw [hc]; exact hst, Or.inl rfl⟩⟩
    · simp only [hr, wtxmOf]
      refine ⟨hnp, by rw [hc]; exact hwl', Or.inl ⟨by omega, Or.inr ⟨hne, by rw [hc]; exact hpre, a, rfl, ha⟩⟩⟩
    · have hst' : St cfg R (w.xchg (isoPeer cfg) out).1.card := by rw [hc]; exact Or.inl hpre
      have hw' : Em cfg R.post R.B (w.xchg (isoPeer cfg) out).1.card → wl (w.xchg (isoPeer cfg) out).1.card ≤ W := by
        rw [hc]; exact hwl'
      rcases hr with hr | hr | hr | ⟨hr, hp⟩
      · simp only [hr]; exact ⟨hnp, hw', Or.inr ⟨by omega, hst', Or.inl rfl⟩⟩
      · simp only [hr]; exact ⟨hnp, hw', Or.inr ⟨by omega, hst', Or.inr (Or.inl rfl)⟩⟩
      · simp only [hr, wtxmOf]
        exact ⟨hnp, hw', Or.inr ⟨by omega, hst', Or.inr (Or.inr (Or.inl rfl))⟩⟩
      · simp only [hr]; exact ⟨hnp, hw', Or.inr ⟨by omega, hst', Or.inr (Or.inr (Or.inr ⟨rfl, fun h => h hp⟩))⟩⟩

/-- the retry counter `i` leaves room for the `k` faults still in the script: a fault costs one count when the
answer is lost (the retry block brings it back) and two when the block itself is lost (retry block, R(ACK),
retransmission - and the retransmission is only made while `i ≤ n`) -/
def Pot (R : Round) (n i k : Nat) (out : Bytes) : Prop :=
  (out = R.req → i + 2 * k ≤ resendMax n + 1) ∧ (out ≠ R.req → i + 2 * k ≤ resendMax n)

/-- outcome of a retry loop: it ends well if the faults fit the budget -/
def LLive (k : Nat) (np pot : Prop) (w' : World Card) (res : Py Bytes) : Prop :=
  np → pot → (∃ d, res = .ok d) ∧ Fault.p ∉ w'.script ∧ nfaults w'.script ≤ k

theorem blockLoop_live (cfg : CardCfg) (W L : Nat) (R : Round) (hR : R.Ok cfg) (hL : R.Live cfg W)
    (hM : 1 ≤ wtxmMask cfg ∧ wtxmMask cfg ≤ 59) (hWL : W * wtxmMask cfg ≤ L)
    (F n : Nat) (hF : W + 1 ≤ F) :
    ∀ (f i : Nat) (out : Bytes) (w : World Card), First cfg R w.card out →
      (Em cfg R.post R.B w.card → wl w.card ≤ W) → roundsMax n + 1 ≤ i + f →
      LLive (nfaults w.script) (Fault.p ∉ w.script) (Pot R n i (nfaults w.script) out)
        (blockLoop (isoPeer cfg) F L n R.resend R.req R.rty f i out w).1
        (blockLoop (isoPeer cfg) F L n R.resend R.req R.rty f i out w).2 := by
  have hrm := resendMax_le n
  obtain ⟨hR1, hR2, _⟩ := roundsMax_ge n
  intro f
  induction f with
  | zero =>
    intro i out w _ _ hf hnp hpot
    exfalso
    by_cases h : out = R.req
    · have := hpot.1 h; omega
    · have := hpot.2 h; omega
  | succ f ih =>
    intro i out w hfirst hw hf
    have hW := xchgW_live_first cfg W L R hR hL hM hWL F hF w out hfirst hw
    unfold blockLoop
    generalize xchgW (isoPeer cfg) L F 0 w out = r1 at hW
    obtain ⟨w1, r⟩ := r1
    obtain ⟨hnp1, hw1, alt⟩ := hW
    simp only at hnp1 hw1 alt ⊢
    -- the retry branch, common to timeout / transmission error / empty frame
    have retry : ∀ (e : Exc), nfaults w1.script < nfaults w.script → St cfg R w1.card →
        LLive (nfaults w.script) (Fault.p ∉ w.script) (Pot R n i (nfaults w.script) out)
          (if i ≤ n then blockLoop (isoPeer cfg) F L n R.resend R.req R.rty f (i + 1) R.rty w1 else (w1, .error e)).1
          (if i ≤ n then blockLoop (isoPeer cfg) F L n R.resend R.req R.rty f (i + 1) R.rty w1 else (w1, .error e)).2 := by
      intro e hk hst hnp hpot
      have hin : i ≤ n := by
        by_cases h : out = R.req
        · have := hpot.1 h; omega
        · have := hpot.2 h; omega
      rw [if_pos hin]
      have hfirst' : First cfg R w1.card R.rty := by
        rcases hst with h | h
        · exact Or.inl ⟨h, Or.inr rfl⟩
        · exact Or.inr ⟨h, rfl⟩
      have hpot' : Pot R n (i + 1) (nfaults w1.script) R.rty := by
        by_cases h : out = R.req
        · have := hpot.1 h; exact ⟨fun _ => by omega, fun _ => by omega⟩
        · have := hpot.2 h; exact ⟨fun _ => by omega, fun _ => by omega⟩
      obtain ⟨h3, h4, h5⟩ := ih (i + 1) R.rty w1 hfirst' hw1 (by omega) (hnp1 hnp) hpot'
      exact ⟨h3, h4, by omega⟩
    rcases alt with ⟨hk, ⟨rfl, hd⟩ | ⟨hne, hpre, a, rfl, ha⟩⟩ | ⟨hk, hst, rfl | rfl | rfl | ⟨rfl, hnnp⟩⟩
    · -- the block of the round arrived
      obtain ⟨a, t, hB, hres, _⟩ := hR.hB
      simp only [hB, if_neg hres]
      exact fun hnp _ => ⟨⟨_, rfl⟩, hnp1 hnp, hk⟩
    · -- R(ACK) with the other block number: send the block again (the count is within the budget)
      simp only [if_pos ha]
      intro hnp hpot
      have hin : ¬ i > resendMax n := by have := hpot.2 hne; omega
      rw [if_neg hin]
      have hpot' : Pot R n (i + 1) (nfaults w1.script) R.req :=
        ⟨fun _ => by have := hpot.2 hne; omega, fun h => absurd rfl h⟩
      obtain ⟨h3, h4, h5⟩ := ih (i + 1) R.req w1 (Or.inl ⟨hpre, Or.inl rfl⟩) hw1 (by omega) (hnp1 hnp) hpot'
      exact ⟨h3, h4, by omega⟩
    · exact retry _ hk hst
    · exact retry _ hk hst
    · exact retry _ hk hst
    · exact fun hnp _ => absurd hnp hnnp

theorem sendChunks_live (cfg : CardCfg) (W F L nNak : Nat) (hF1 : W + 1 ≤ F) (hF2 : roundsMax nNak ≤ F)
    (hM : 1 ≤ wtxmMask cfg ∧ wtxmMask cfg ≤ 59) (hWL : W * wtxmMask cfg ≤ L)
    (hW1 : cfg.wtxAck ≤ W) (hW2 : cfg.wtxI ≤ W) (Lg : List Bytes) :
    ∀ (cs : List Bytes) (pni : Nat) (acc : Bytes) (w : World Card), cs ≠ [] → pni < 2 →
      w.card.bn = (pni + 1) % 2 → w.card.rxbuf = acc → w.card.log = Lg →
      LLive (nfaults w.script) (Fault.p ∉ w.script) (2 * nfaults w.script ≤ resendMax nNak)
        (sendChunks (isoPeer cfg) F L nNak cs pni w).1 (sendChunks (isoPeer cfg) F L nNak cs pni w).2.2 := by
  intro cs
  induction cs with
  | nil => intro _ _ _ h; exact absurd rfl h
  | cons c rest ih =>
    intro pni acc w _ hp hb hr hl
    cases rest with
    | nil =>
      have hR := cmdRoundLast_ok cfg hp acc Lg c
      have hLv := cmdRoundLast_live cfg W hW2 hp acc Lg c
      have hlive := blockLoop_live cfg W L (cmdRoundLast cfg pni acc Lg c) hR hLv hM hWL F nNak hF1 F 1 ((0x02 ||| pni) :: c) w
        (Or.inl ⟨⟨hb, hr, hl⟩, Or.inl rfl⟩) (pre_not_em hLv ⟨hb, hr, hl⟩) (by omega)
      have hpost := blockLoop_post cfg (cmdRoundLast cfg pni acc Lg c) hR (fun _ => True) ⟨trivial, trivial, trivial⟩
        F L nNak F 1 ((0x02 ||| pni) :: c) w (Or.inl ⟨⟨hb, hr, hl⟩, Or.inl rfl⟩) (fun _ _ => trivial)
      unfold sendChunks
      simp only [List.isEmpty_nil, Bool.not_true, Bool.false_eq_true, if_false]
      simp only at hlive hpost
      generalize blockLoop _ _ _ _ _ _ _ _ _ _ _ = r1 at hlive hpost ⊢
      obtain ⟨w1, res⟩ := r1
      obtain ⟨hl1, _⟩ := hpost
      cases res with
      | error e =>
        intro hnp hpot
        obtain ⟨⟨d, hd⟩, _⟩ := hlive hnp ⟨fun _ => by omega, fun h => absurd rfl h⟩
        cases hd
      | ok d =>
        obtain ⟨_, rfl⟩ := hl1
        simp only [iBlock_cons]
        have h1 := ihead_and1 hp (decide (cfg.chunk < (cfg.app Lg.length (acc ++ c)).length))
        have h2 := ihead_andEE hp (decide (cfg.chunk < (cfg.app Lg.length (acc ++ c)).length))
        simp only [h1, h2, ne_eq, not_true_eq_false, if_false, if_true]
        intro hnp hpot
        obtain ⟨_, h4, h5⟩ := hlive hnp ⟨fun _ => by omega, fun h => absurd rfl h⟩
        exact ⟨⟨_, rfl⟩, h4, h5⟩
    | cons c2 rest2 =>
      have hR := cmdRoundMore_ok cfg hp acc Lg c
      have hLv := cmdRoundMore_live cfg W hW1 hp acc Lg c
      have hlive := blockLoop_live cfg W L (cmdRoundMore pni acc Lg c) hR hLv hM hWL F nNak hF1 F 1 ((0x12 ||| pni) :: c) w
        (Or.inl ⟨⟨hb, hr, hl⟩, Or.inl rfl⟩) (pre_not_em hLv ⟨hb, hr, hl⟩) (by omega)
      have hpost := blockLoop_post cfg (cmdRoundMore pni acc Lg c) hR (fun _ => True) ⟨trivial, trivial, trivial⟩
        F L nNak F 1 ((0x12 ||| pni) :: c) w (Or.inl ⟨⟨hb, hr, hl⟩, Or.inl rfl⟩) (fun _ _ => trivial)
      unfold sendChunks
      simp only [List.isEmpty_cons, Bool.not_false, if_true]
      simp only at hlive hpost
      generalize blockLoop _ _ _ _ _ _ _ _ _ _ _ = r1 at hlive hpost ⊢
      obtain ⟨w1, res⟩ := r1
      obtain ⟨hl1, _⟩ := hpost
      cases res with
      | error e =>
        intro hnp hpot
        obtain ⟨⟨d, hd⟩, _⟩ := hlive hnp ⟨fun _ => by omega, fun h => absurd rfl h⟩
        cases hd
      | ok d =>
        obtain ⟨hd, rfl⟩ := hl1
        simp only [ack_and1 hp, ack_andFE hp, ne_eq, not_true_eq_false, if_false, if_true]
        have hcore := hd.1
        simp only [Card.core, Core.mk.injEq] at hcore
        have hgood2 := ih ((pni + 1) % 2) (acc ++ c) w1 (by simp) (tog_lt pni)
          (by rw [tog_tog hp]; exact hcore.1) hcore.2.1 hcore.2.2.2
        intro hnp hpot
        obtain ⟨_, h4, h5⟩ := hlive hnp ⟨fun _ => by omega, fun h => absurd rfl h⟩
        simp only at h4 h5
        obtain ⟨h6, h7, h8⟩ := hgood2 h4 (by omega)
        exact ⟨h6, h7, by omega⟩

theorem recvChain_live (cfg : CardCfg) (W F L nAck : Nat) (hF1 : W + 1 ≤ F) (hF2 : roundsMax nAck ≤ F)
    (hM : 1 ≤ wtxmMask cfg ∧ wtxmMask cfg ≤ 59) (hWL : W * wtxmMask cfg ≤ L)
    (hW : cfg.wtxChain ≤ W) (hchunk : 1 ≤ cfg.chunk) (L' : List Bytes) :
    ∀ (f pni : Nat) (data resp : Bytes) (w : World Card) (T : Bytes) (more : Bool) (inf : Bytes),
      pni < 2 → data = iBlock ((pni + 1) % 2) more inf → (more = true ↔ T ≠ []) → (more = true → inf ≠ []) →
      Done ⟨(pni + 1) % 2, [], T, L'⟩ data w.card → T.length < f → resp.length + T.length ≤ 65539 →
      LLive (nfaults w.script) (Fault.p ∉ w.script) (2 * nfaults w.script ≤ resendMax nAck)
        (recvChain (isoPeer cfg) F L nAck f pni data resp w).1 (recvChain (isoPeer cfg) F L nAck f pni data resp w).2.2 := by
  intro f
  induction f with
  | zero => intro _ _ _ _ T _ _ _ _ _ _ _ h; omega
  | succ f ih =>
    intro pni data resp w T more inf hp hdata hmore hinf hd hlen htot
    subst hdata
    unfold recvChain
    simp only [iBlock_cons]
    cases more with
    | false =>
      have h10 := (ihead_and10 (tog_lt pni) false).mpr rfl
      simp only [Bool.false_eq_true, if_false] at h10 ⊢
      simp only [h10, if_true]
      exact fun hnp _ => ⟨⟨_, rfl⟩, hnp, Nat.le_refl _⟩
    | true =>
      have h10 : ¬ (((if true = true then 0x12 else 0x02) ||| ((pni + 1) % 2)) &&& 0x10 = 0) := by
        intro h; exact absurd ((ihead_and10 (tog_lt pni) true).mp h) (by simp)
      simp only [if_true] at h10 ⊢
      simp only [h10, if_false]
      have hT : T ≠ [] := hmore.mp rfl
      have hTl : 0 < T.length := by
        cases T with
        | nil => exact absurd rfl hT
        | cons _ _ => simp
      have hguard : ¬ (inf = [] ∨ resp.length > 65538) := by
        intro h
        rcases h with h | h
        · exact hinf rfl h
        · omega
      rw [if_neg hguard]
      have hR := ackRound_ok cfg hp T hT L'
      have hLv := ackRound_live cfg W hW hp T hT L'
      have hlive := blockLoop_live cfg W L (ackRound cfg pni T L') hR hLv hM hWL F nAck hF1 F 1 [0xA2 ||| pni] w
        (Or.inl ⟨hd.1, Or.inl rfl⟩) (pre_not_em hLv hd.1) (by omega)
      have hpost := blockLoop_post cfg (ackRound cfg pni T L') hR (fun _ => True) ⟨trivial, trivial, trivial⟩
        F L nAck F 1 [0xA2 ||| pni] w (Or.inl ⟨hd.1, Or.inl rfl⟩) (fun _ _ => trivial)
      simp only at hlive hpost ⊢
      generalize blockLoop _ _ _ _ _ _ _ _ _ _ _ = r1 at hlive hpost ⊢
      obtain ⟨w1, res⟩ := r1
      obtain ⟨hl1, _⟩ := hpost
      cases res with
      | error e =>
        intro hnp hpot
        obtain ⟨⟨d, hd'⟩, _⟩ := hlive hnp ⟨fun _ => by omega, fun h => absurd rfl h⟩
        cases hd'
      | ok d =>
        obtain ⟨hd1, rfl⟩ := hl1
        simp only [iBlock_cons]
        simp only [ihead_and1 hp, ne_eq, not_true_eq_false, if_false]
        have hgood2 := ih ((pni + 1) % 2)
          (((if decide (cfg.chunk < T.length) = true then 18 else 2) ||| pni) :: T.take cfg.chunk)
          (resp ++ T.take cfg.chunk) w1 (T.drop cfg.chunk) (decide (cfg.chunk < T.length)) (T.take cfg.chunk)
          (tog_lt pni) (by simp [tog_tog hp, iBlock_cons]) (by simp [List.drop_eq_nil_iff])
          (by
            intro hm0 h0
            have hl0 := congrArg List.length h0
            simp only [List.length_take, List.length_nil] at hl0
            omega)
          (by simpa [tog_tog hp, iBlock_cons] using hd1) (by simp; omega)
          (by simp only [List.length_append, List.length_take, List.length_drop]; omega)
        intro hnp hpot
        obtain ⟨_, h4, h5⟩ := hlive hnp ⟨fun _ => by omega, fun h => absurd rfl h⟩
        simp only at h4 h5
        obtain ⟨h6, h7, h8⟩ := hgood2 h4 (by omega)
        exact ⟨h6, h7, by omega⟩

/-- `_exchange_command` against the ISO card: with few enough faults it succeeds -/
theorem exchangeCmd_live (cfg : CardCfg) (W F : Nat) (pcd : Pcd) (cmd : Bytes) (w : World Card) (m : Nat)
    (hmiu : pcd.miu = (m : Int)) (hm : 1 ≤ m) (hcmd : cmd ≠ []) (hp : pcd.pni < 2) (hs : Sync pcd.pni w.card)
    (hchunk : 1 ≤ cfg.chunk) (hW1 : cfg.wtxAck ≤ W) (hW2 : cfg.wtxI ≤ W) (hW3 : cfg.wtxChain ≤ W)
    (hM : 1 ≤ wtxmMask cfg ∧ wtxmMask cfg ≤ 59) (hWL : W * wtxmMask cfg ≤ pcd.wlim)
    (hrsp : (cfg.app w.card.log.length cmd).length ≤ 65539)
    (hF1 : W + 1 ≤ F) (hF2 : roundsMax pcd.nNak ≤ F) (hF3 : roundsMax pcd.nAck ≤ F)
    (hF4 : (cfg.app w.card.log.length cmd).length < F) :
    LLive (nfaults w.script) (Fault.p ∉ w.script)
      (2 * nfaults w.script ≤ resendMax pcd.nNak ∧ 2 * nfaults w.script ≤ resendMax pcd.nAck)
      (exchangeCmd (isoPeer cfg) F pcd cmd w).1 (exchangeCmd (isoPeer cfg) F pcd cmd w).2.2 := by
  have h0 : ¬ pcd.miu = 0 := by omega
  have h1 : ¬ (pcd.miu < 0 ∨ cmd = []) := by
    intro h; rcases h with h | h
    · omega
    · exact hcmd h
  have ht : pcd.miu.toNat = m := by omega
  obtain ⟨hfl, hne, hlen⟩ := chunks_spec m hm cmd hcmd
  have hsend := sendChunks_post cfg m F pcd.wlim pcd.nNak hm w.card.log (fun _ => True) (fun _ _ => trivial)
    (chunks m cmd) pcd.pni [] w hne hp hs.1 hs.2 rfl hlen (fun _ _ => trivial)
  have hslive := sendChunks_live cfg W F pcd.wlim pcd.nNak hF1 hF2 hM hWL hW1 hW2 w.card.log (chunks m cmd) pcd.pni [] w hne hp
    hs.1 hs.2 rfl
  unfold exchangeCmd
  simp only [h0, h1, if_false, ht]
  rw [hfl, List.nil_append] at hsend
  generalize sendChunks _ _ _ _ _ _ _ = r1 at hsend hslive ⊢
  obtain ⟨w1, pni1, res⟩ := r1
  obtain ⟨_, hres⟩ := hsend
  cases res with
  | error e =>
    intro hnp hpot
    obtain ⟨⟨d, hd⟩, _⟩ := hslive hnp hpot.1
    cases hd
  | ok d =>
    obtain ⟨hp1, hd, hdone⟩ := hres
    simp only at hp1 hd hdone hslive ⊢
    have hrl := recvChain_live cfg W F pcd.wlim pcd.nAck hF1 hF3 hM hWL hW3 hchunk (w.card.log ++ [cmd])
      F pni1 d (d.drop 1) w1 ((cfg.app w.card.log.length cmd).drop cfg.chunk)
      (decide (cfg.chunk < (cfg.app w.card.log.length cmd).length)) ((cfg.app w.card.log.length cmd).take cfg.chunk)
      hp1 hd (by simp [List.drop_eq_nil_iff])
      (by
        intro hm0 h0
        have hl0 := congrArg List.length h0
        simp only [List.length_take, List.length_nil, decide_eq_true_eq] at hl0 hm0
        omega)
      hdone (by simp; omega)
      (by rw [hd]; simp only [iBlock_cons, List.drop_succ_cons, List.drop_zero, List.length_take, List.length_drop]; omega)
    intro hnp hpot
    obtain ⟨_, h4, h5⟩ := hslive hnp hpot.1
    obtain ⟨h6, h7, h8⟩ := hrl h4 (by omega)
    exact ⟨h6, h7, by omega⟩

end NfcVerif.IsoDep2
