import NfcVerif.Gen.FnLlc
import NfcVerif.Lemmas.FnBridgeBase
import NfcVerif.Lemmas.Activate
/-!
Helper definitions and lemmas of the bridge theorems of group Llc (`Props/FnBridgeLlc.lean`).
-/
namespace NfcVerif.FnBridge.Llc
open NfcVerif NfcVerif.PyFn

/-- a raw TLV value of the model's `Pax` (`Option Nat`) as the Python attribute (`int | None`) -/
def oi (o : Option Nat) : Option Int := o.map (fun (n : Nat) => (n : Int))

@[simp] theorem oi_none : oi none = none := rfl
@[simp] theorem oi_some (n : Nat) : oi (some n) = some (n : Int) := rfl

/-- a pair of naturals as a Python tuple of ints -/
def pi (p : Nat × Nat) : Int × Int := ((p.1 : Int), (p.2 : Int))

/-! ## masks on arbitrary (also negative) Python ints -/

/-- `x & 0xFF` is `x mod 256` for every int -/
theorem band_255 (x : Int) : band x 255 = x % 256 := by
  cases x with
  | ofNat n =>
    show band (n : Int) ((255 : Nat) : Int) = _
    rw [band_ofNat, and255]
    simp only [Int.ofNat_eq_natCast]; omega
  | negSucc m =>
    show Int.ofNat (ldiff 255 m) = _
    have := ldiff_mask 8 m
    simp only [show (2 : Nat) ^ 8 - 1 = 255 from rfl, show (2 : Nat) ^ 8 = 256 from rfl] at this
    rw [this]
    have e : Int.negSucc m = -(m : Int) - 1 := by omega
    rw [e]
    simp only [Int.ofNat_eq_natCast]
    omega

/-- `x & 0xFFFF` is `x mod 65536` for every int -/
theorem band_65535 (x : Int) : band x 65535 = x % 65536 := by
  cases x with
  | ofNat n =>
    show band (n : Int) ((65535 : Nat) : Int) = _
    rw [band_ofNat, and65535]
    simp only [Int.ofNat_eq_natCast]; omega
  | negSucc m =>
    show Int.ofNat (ldiff 65535 m) = _
    have := ldiff_mask 16 m
    simp only [show (2 : Nat) ^ 16 - 1 = 65535 from rfl, show (2 : Nat) ^ 16 = 65536 from rfl] at this
    rw [this]
    have e : Int.negSucc m = -(m : Int) - 1 := by omega
    rw [e]
    simp only [Int.ofNat_eq_natCast]
    omega

/-- `y & 0xF0` on a natural: the high nibble of the low octet -/
theorem and240 (y : Nat) : y &&& 240 = y % 256 / 16 * 16 := by
  have e : y &&& 240 = (y % 256) &&& 240 := by
    rw [← and255, Nat.and_assoc]; rfl
  rw [e]
  have h := and_high (y % 256) 4 4 (by have := Nat.mod_lt y (show 0 < 256 by omega); simpa using this)
  simp only [show ((2 : Nat) ^ 4 - 1) <<< 4 = 240 from rfl] at h
  rw [h, Nat.shiftRight_eq_div_pow, Nat.shiftLeft_eq]

/-- `a | b` of a multiple of 16 and a nibble is their sum -/
theorem or_nibble (h l : Nat) (hl : l < 16) : (h * 16) ||| l = h * 16 + l := by
  have : h * 16 = h <<< 4 := by rw [Nat.shiftLeft_eq]
  rw [this, ← Nat.shiftLeft_add_eq_or_of_lt (by simpa using hl)]

/-- `x & 3` is `x mod 4` for every int -/
theorem band_3 (x : Int) : band x 3 = x % 4 := by
  cases x with
  | ofNat n =>
    show band (n : Int) ((3 : Nat) : Int) = _
    rw [band_ofNat, and3]
    simp only [Int.ofNat_eq_natCast]; omega
  | negSucc m =>
    show Int.ofNat (ldiff 3 m) = _
    have := ldiff_mask 2 m
    simp only [show (2 : Nat) ^ 2 - 1 = 3 from rfl, show (2 : Nat) ^ 2 = 4 from rfl] at this
    rw [this]
    have e : Int.negSucc m = -(m : Int) - 1 := by omega
    rw [e]
    simp only [Int.ofNat_eq_natCast]
    omega


/-- membership in `range(lo, hi)` -/
theorem mem_range (a lo hi : Int) : a ∈ PyFn.range lo hi ↔ lo ≤ a ∧ a < hi := by
  unfold PyFn.range
  simp only [List.mem_map, List.mem_range]
  constructor
  · rintro ⟨i, hi', rfl⟩; omega
  · rintro ⟨h1, h2⟩; exact ⟨(a - lo).toNat, by omega, by omega⟩


end NfcVerif.FnBridge.Llc
