import NfcVerif.Lemmas.FnBridgeBase
/-!
Lemmas about the prelude `PyFn.lean` shared by the bridge modules of the groups TagCmd and Vendor:
`bytearray([..])`, `struct.pack` of single fields, slices and item reads at natural positions.
-/
set_option linter.unusedSimpArgs false
namespace NfcVerif.FnBridge.TagCmd
open NfcVerif NfcVerif.PyFn

/-! ## prelude primitives -/

theorem slice_nat {α} (l : List α) (a b : Nat) : slice l (a : Int) (b : Int) = sliceN l a b := by
  unfold slice sliceN
  rw [clampBound_ofNat, clampBound_ofNat]
  show List.take (min b l.length - min a l.length) (List.drop (min a l.length) l) = _
  by_cases ha : a ≤ l.length
  · rw [Nat.min_eq_left ha]
    by_cases hb : b ≤ l.length
    · rw [Nat.min_eq_left hb]
    · rw [Nat.min_eq_right (by omega)]
      rw [List.take_of_length_le (by simp), List.take_of_length_le (by simp; omega)]
  · have h1 : min a l.length = l.length := Nat.min_eq_right (by omega)
    rw [h1, List.drop_length, List.drop_of_length_le (by omega), List.take_nil, List.take_nil]

theorem getB_nat (d : Bytes) (off : Nat) :
    getB d (off : Int) = if off < d.length then .ok ((at0 d off : Nat) : Int) else .error .index := by
  rw [getB_ofNat]
  by_cases h : off < d.length
  · simp [h, at0]
  · simp [h, List.getElem?_eq_none (by omega : d.length ≤ off)]

/-- `bytearray([..])` of octets -/
theorem mkBytes_cast : ∀ (l : List Nat), (∀ b ∈ l, b < 256) → mkBytes (l.map fun (b : Nat) => (b : Int)) = .ok l
  | [], _ => rfl
  | b :: l, h => by
    have hb : b < 256 := h b (by simp)
    have h1 : ¬ ((b : Int) < 0 ∨ (b : Int) > 255) := by omega
    simp only [List.map_cons, mkBytes, h1, if_false]
    rw [mkBytes_cast l (fun x hx => h x (by simp [hx]))]
    simp

/-- `bytearray([..])` with an element outside `range(256)` raises ValueError -/
theorem mkBytes_bad (pre : List Nat) (x : Int) (post : List Int) (hp : ∀ b ∈ pre, b < 256) (hx : x < 0 ∨ x > 255) :
    mkBytes (pre.map (fun (b : Nat) => (b : Int)) ++ x :: post) = .error .value := by
  induction pre with
  | nil => simp [mkBytes, hx]
  | cons b l ih =>
    have hb : b < 256 := hp b (by simp)
    have h1 : ¬ ((b : Int) < 0 ∨ (b : Int) > 255) := by omega
    simp only [List.map_cons, List.cons_append, mkBytes, h1, if_false]
    rw [ih (fun y hy => hp y (by simp [hy]))]

theorem mkBytes3 (a b c : Nat) (ha : a < 256) (hb : b < 256) (hc : c < 256) :
    mkBytes [(a : Int), (b : Int), (c : Int)] = .ok [a, b, c] :=
  mkBytes_cast [a, b, c] (by intro x hx; simp at hx; omega)

theorem mkBytes2 (a b : Nat) (ha : a < 256) (hb : b < 256) : mkBytes [(a : Int), (b : Int)] = .ok [a, b] :=
  mkBytes_cast [a, b] (by intro x hx; simp at hx; omega)

theorem packField_B (n : Nat) : packField .B (n : Int) = if n > 255 then .error .struct else .ok [n] := by
  unfold packField
  by_cases h : n > 255
  · have : ((n : Int) < 0 ∨ (n : Int) ≥ 256 ^ Fmt.B.size) := by simp [Fmt.size]; omega
    simp [this, h]
  · have : ¬ ((n : Int) < 0 ∨ (n : Int) ≥ 256 ^ Fmt.B.size) := by simp [Fmt.size]; omega
    simp [this, h]

theorem packField_Hbe (n : Nat) : packField .Hbe (n : Int) = if n > 65535 then .error .struct else .ok [n / 256, n % 256] := by
  unfold packField
  by_cases h : n > 65535
  · have : ((n : Int) < 0 ∨ (n : Int) ≥ 256 ^ Fmt.Hbe.size) := by simp [Fmt.size]; omega
    simp [this, h]
  · have : ¬ ((n : Int) < 0 ∨ (n : Int) ≥ 256 ^ Fmt.Hbe.size) := by simp [Fmt.size]; omega
    simp [this, h, toBE]; omega

theorem packField_Hle (n : Nat) : packField .Hle (n : Int) = if n > 65535 then .error .struct else .ok [n % 256, n / 256] := by
  unfold packField
  by_cases h : n > 65535
  · have : ((n : Int) < 0 ∨ (n : Int) ≥ 256 ^ Fmt.Hle.size) := by simp [Fmt.size]; omega
    simp [this, h]
  · have : ¬ ((n : Int) < 0 ∨ (n : Int) ≥ 256 ^ Fmt.Hle.size) := by simp [Fmt.size]; omega
    simp [this, h, toLE]; omega

theorem packField_neg (f : Fmt) (v : Int) (h : v < 0) : packField f v = .error .struct := by
  unfold packField; simp [h]

theorem pack_Hle (n : Nat) : PyFn.pack [.Hle] [(n : Int)] = if n > 65535 then .error .struct else .ok [n % 256, n / 256] := by
  simp only [PyFn.pack, packField_Hle]
  by_cases h : n > 65535 <;> simp [h]

/-- `(x & 0x3ff) << 6 | (a & 0x3f)`: the two fields do not overlap -/
theorem or_fields (x a : Nat) : (x % 1024) * 64 ||| a % 64 = (x % 1024) * 64 + a % 64 := by
  have h := Nat.shiftLeft_add_eq_or_of_lt (a := x % 1024) (b := a % 64) (i := 6) (by omega)
  rw [Nat.shiftLeft_eq] at h
  exact h.symm

theorem at0_eq (d : Bytes) (i : Nat) : (d[i]?).getD 0 = at0 d i := rfl

theorem slice2_at (d : Bytes) (i : Nat) (h : i + 2 ≤ d.length) :
    slice d (i : Int) ((i + 2 : Nat) : Int) = [at0 d i, at0 d (i + 1)] := by
  rw [slice_nat]
  unfold sliceN
  have h0 : i < d.length := by omega
  have h1 : i + 1 < d.length := by omega
  rw [at0_lt h0, at0_lt h1, List.drop_eq_getElem_cons h0, List.drop_eq_getElem_cons h1]
  have : i + 2 - i = 2 := by omega
  rw [this, List.take_succ_cons, List.take_succ_cons, List.take_zero]

theorem ube_pair (a b : Nat) : ube [a, b] ((0 : Nat) : Int) 2 = ((a * 256 + b : Nat) : Int) := by
  simp [ube, beNat]
theorem needExact_pair (a b : Nat) : needExact [a, b] ((2 : Nat) : Int) = .ok () := by
  rw [needExact_nat]; rfl

theorem idx_nat (d : Bytes) (k : Nat) (h : k < d.length) : idx d (k : Int) = .ok (at0 d k) := by
  unfold idx
  have h0 : ¬ ((k : Int) < 0) := by omega
  have h1 : ¬ ((k : Int) ≥ (d.length : Int)) := by omega
  simp only [h0, if_false, h1, false_or, Int.toNat_natCast, List.getElem?_eq_getElem h, at0_lt h]

theorem getD_of_lt (d : Bytes) (i : Nat) (h : i < d.length) : d[i]? = some ((d[i]?).getD 0) := by
  rw [List.getElem?_eq_getElem h]; rfl


theorem ule_pair (a b : Nat) : ule [a, b] ((0 : Nat) : Int) 2 = ((b * 256 + a : Nat) : Int) := by
  simp [ule, beNat]

theorem needExact_pair' (a b : Nat) : needExact [a, b] 2 = .ok () := needExact_pair a b
theorem ule_pair' (a b : Nat) : ule [a, b] 0 2 = ((b * 256 + a : Nat) : Int) := ule_pair a b
theorem ube_pair' (a b : Nat) : ube [a, b] 0 2 = ((a * 256 + b : Nat) : Int) := ube_pair a b
theorem slice02 (d : Bytes) (h : 2 ≤ d.length) : slice d 0 2 = [at0 d 0, at0 d 1] := slice2_at d 0 (by omega)

theorem packField_pos (f : Fmt) (v : Int) (h : v ≥ 256 ^ f.size) : packField f v = .error .struct := by
  unfold packField; simp [h]

/-- `x[i] = v` at a natural position -/
theorem setB_nat (l : Bytes) (i v : Nat) (hi : i < l.length) (hv : v < 256) : setB l (i : Int) (v : Int) = .ok (l.set i v) := by
  unfold setB
  have h1 : ¬ ((i : Int) < 0) := by omega
  have h2 : ¬ ((i : Int) ≥ (l.length : Int)) := by omega
  have h3 : ¬ ((v : Int) < 0 ∨ (v : Int) > 255) := by omega
  simp only [h1, if_false, h2, h3, false_or, Int.toNat_natCast]

/-- a single bit test written with `&` -/
theorem and_bit (x k : Nat) : x &&& 2 ^ k = 0 ↔ x / 2 ^ k % 2 = 0 := by
  have t := @Nat.testBit_eq_decide_div_mod_eq k x
  constructor
  · intro h
    have : (x &&& 2 ^ k).testBit k = false := by rw [h]; simp
    rw [Nat.testBit_and, Nat.testBit_two_pow_self, Bool.and_true, t] at this
    have := of_decide_eq_false this
    omega
  · intro h
    apply Nat.eq_of_testBit_eq
    intro i
    rw [Nat.testBit_and, Nat.testBit_two_pow, Nat.zero_testBit]
    by_cases hi : k = i
    · subst hi
      rw [t]; simp [h]
    · simp [hi]

/-- `d[k]` as the model's `idxN` -/
theorem getB_idxN (d : Bytes) (k : Nat) : getB d (k : Int) = (idxN d k >>= fun b => .ok ((b : Nat) : Int)) := by
  rw [getB_ofNat]; unfold idxN; cases d[k]? <;> rfl

theorem idxN_mem {d : Bytes} {k b : Nat} (h : idxN d k = .ok b) : b ∈ d := by
  unfold idxN at h
  cases hk : d[k]? with
  | none => rw [hk] at h; cases h
  | some x =>
    rw [hk] at h; cases h
    exact List.mem_of_getElem? hk

/-- `hi << 8 | lo` for an octet `lo` -/
theorem shl8_or (hi lo : Nat) (h : lo < 256) : hi <<< 8 ||| lo = hi * 256 + lo := by
  have := Nat.shiftLeft_add_eq_or_of_lt (a := hi) (b := lo) (i := 8) (by omega)
  rw [← this, Nat.shiftLeft_eq]

/-- `l[a:b] = v` at natural positions inside the list -/
theorem setSlice_nat {α} (l : List α) (a b : Nat) (v : List α) (hab : a ≤ b) (hb : b ≤ l.length) :
    setSlice l (a : Int) (b : Int) v = l.take a ++ v ++ l.drop b := by
  unfold setSlice
  rw [clampBound_ofNat, clampBound_ofNat, Nat.min_eq_left (by omega), Nat.min_eq_left hb]
  show l.take a ++ v ++ l.drop (max a b) = _
  rw [Nat.max_eq_right hab]

/-- `l[a::-1]` -/
theorem sliceRev_none {α} (l : List α) (a : Nat) : sliceRev l (some (a : Int)) none = (l.take (a + 1)).reverse := by
  unfold sliceRev
  simp only []
  have h0 : ¬ ((a : Int) < 0) := by omega
  simp only [h0, if_false]
  by_cases h : (a : Int) ≥ (l.length : Int)
  · simp only [h, if_true]
    have e1 : ((l.length : Int) - 1 + 1).toNat = l.length := by omega
    have e2 : ((-1 : Int) + 1).toNat = 0 := by omega
    rw [e1, e2, List.drop_zero, List.take_length, List.take_of_length_le (by omega)]
  · simp only [h, if_false]
    have e1 : ((a : Int) + 1).toNat = a + 1 := by omega
    have e2 : ((-1 : Int) + 1).toNat = 0 := by omega
    rw [e1, e2, List.drop_zero]

/-- `l[a:b:-1]` -/
theorem sliceRev_some {α} (l : List α) (a b : Nat) :
    sliceRev l (some (a : Int)) (some (b : Int)) = ((l.take (a + 1)).drop (b + 1)).reverse := by
  unfold sliceRev
  simp only []
  have h0 : ¬ ((a : Int) < 0) := by omega
  have h1 : ¬ ((b : Int) < 0) := by omega
  simp only [h0, h1, if_false]
  congr 1
  by_cases ha : (a : Int) ≥ (l.length : Int) <;> by_cases hb : (b : Int) ≥ (l.length : Int) <;> simp only [ha, hb, if_true, if_false]
  · have e1 : ((l.length : Int) - 1 + 1).toNat = l.length := by omega
    rw [e1, List.take_length, List.take_of_length_le (by omega), List.drop_of_length_le (by omega), List.drop_of_length_le (by omega)]
  · have e1 : ((l.length : Int) - 1 + 1).toNat = l.length := by omega
    have e2 : ((b : Int) + 1).toNat = b + 1 := by omega
    rw [e1, e2, List.take_length, List.take_of_length_le (by omega)]
  · have e1 : ((a : Int) + 1).toNat = a + 1 := by omega
    have e2 : ((l.length : Int) - 1 + 1).toNat = l.length := by omega
    rw [e1, e2, List.drop_of_length_le (by simp; omega), List.drop_of_length_le (by simp; omega)]
  · have e1 : ((a : Int) + 1).toNat = a + 1 := by omega
    have e2 : ((b : Int) + 1).toNat = b + 1 := by omega
    rw [e1, e2]

/-- `x[7::-1] + x[15:7:-1]`: both halves reversed (for every length) -/
theorem revHalves_gen (x : Bytes) :
    sliceRev x (some 7) none ++ sliceRev x (some 15) (some 7) = (x.take 8).reverse ++ ((x.drop 8).take 8).reverse := by
  rw [show (7 : Int) = ((7 : Nat) : Int) from rfl, show (15 : Int) = ((15 : Nat) : Int) from rfl, sliceRev_none, sliceRev_some,
    List.drop_take]

theorem zeros8_gen : List.map (fun (_ : Int) => (0 : Int)) (PyFn.range 0 8) = [0, 0, 0, 0, 0, 0, 0, 0] := by decide

theorem zeros16 : PyFn.zeros 16 = .ok (List.replicate 16 0) := by decide

theorem sum_ints (l : Bytes) : PyFn.sum (PyFn.ints l) = ((l.foldl (· + ·) 0 : Nat) : Int) := by
  unfold PyFn.sum PyFn.ints
  have : ∀ (l : Bytes) (acc : Nat), List.foldl (· + ·) (acc : Int) (l.map fun (b : Nat) => (b : Int)) = ((l.foldl (· + ·) acc : Nat) : Int) := by
    intro l
    induction l with
    | nil => intro acc; rfl
    | cons a l ih => intro acc; simp only [List.map_cons, List.foldl_cons]; rw [← Int.natCast_add, ih]
  exact this l 0


theorem zeros16' : PyFn.zeros 16 = .ok [0, 0, 0, 0, 0, 0, 0, 0, 0, 0, 0, 0, 0, 0, 0, 0] := by decide

theorem pack_Hbe' (n : Nat) (h : n < 65536) : PyFn.pack [.Hbe] [(n : Int)] = .ok [n / 256, n % 256] := by
  have : ¬ n > 65535 := by omega
  simp [PyFn.pack, packField_Hbe, this]

theorem pack_Ibe24 (n : Nat) (h : n < 16777216) : PyFn.pack [.Ibe] [(n : Int)] = .ok [0, n / 65536 % 256, n / 256 % 256, n % 256] := by
  unfold PyFn.pack PyFn.packField
  have : ¬ ((n : Int) < 0 ∨ (n : Int) ≥ 256 ^ Fmt.Ibe.size) := by simp [Fmt.size]; omega
  simp only [this, if_false, PyFn.pack, Int.toNat_natCast]
  simp [toBE]
  omega

/-- the simp set that evaluates byte string surgery on lists of known length -/
macro "py_list" : tactic => `(tactic| simp only [setB_nat, setSlice_nat, slice_nat, sliceN, pack_Hbe', pack_Ibe24, sum_ints, Py.bind_ok,
    List.length_cons, List.length_nil, List.set, List.take, List.drop, List.cons_append, List.nil_append, List.foldl,
    Nat.lt_add_one, Nat.le_refl, Nat.reduceAdd, Nat.reduceLT, Nat.reduceLeDiff, Nat.reduceSub, List.take_succ_cons, List.take_zero,
    List.drop_succ_cons, List.drop_zero, Nat.zero_add, Nat.add_zero, *])

theorem pack_BBBH (a b c d : Nat) (ha : a < 256) (hb : b < 256) (hc : c < 256) (hd : d < 65536) :
    PyFn.pack [.B, .B, .B, .Hbe] [(a : Int), (b : Int), (c : Int), (d : Int)] = .ok [a, b, c, d / 256, d % 256] := by
  have h1 : ¬ a > 255 := by omega
  have h2 : ¬ b > 255 := by omega
  have h3 : ¬ c > 255 := by omega
  have h4 : ¬ d > 65535 := by omega
  simp [PyFn.pack, packField_B, packField_Hbe, h1, h2, h3, h4]

theorem ube_lit1 (l : Bytes) (k : Nat) : ube l (k : Int) 1 = ((at0 l k : Nat) : Int) := ube_one l k

end NfcVerif.FnBridge.TagCmd
