import NfcVerif.Lemmas.Handover
/-!
NDEF messages as record lists (`Model/Handover.lean`: `Rec`, `encRec`, `encMsg`): the structural
reading `ndefWalk` accepts the encoding of every non-empty list of well-formed records and none of
its proper non-empty prefixes (`prefixFree_encMsg`) - wherever a fragment boundary falls, also
exactly between two records.  Property C06.
-/
namespace NfcVerif.Handover
open NfcVerif NfcVerif.Chan

theorem toBE4' (n : Nat) : toBE 4 n = [n / 16777216 % 256, n / 65536 % 256, n / 256 % 256, n % 256] := by
  simp [toBE, Nat.div_div_eq_div_mul]

theorem beNat4' (n : Nat) (h : n < 2 ^ 32) :
    beNat [n / 16777216 % 256, n / 65536 % 256, n / 256 % 256, n % 256] = n := by
  simp [beNat]; omega

theorem flags_sr (mb me : Bool) (r : Rec) (h : r.tnf < 8) : ((flagsOf mb me r / 16) % 2 = 1) ↔ r.sr = true := by
  unfold flagsOf
  cases mb <;> cases me <;> cases r.cf <;> cases r.sr <;> cases r.id.isSome <;> simp <;> omega

theorem flags_il (mb me : Bool) (r : Rec) (h : r.tnf < 8) : ((flagsOf mb me r / 8) % 2 = 1) ↔ r.id.isSome = true := by
  unfold flagsOf
  cases mb <;> cases me <;> cases r.cf <;> cases r.sr <;> cases r.id.isSome <;> simp <;> omega

theorem flags_me (mb me : Bool) (r : Rec) (h : r.tnf < 8) : ((flagsOf mb me r / 64) % 2 = 1) ↔ me = true := by
  unfold flagsOf
  cases mb <;> cases me <;> cases r.cf <;> cases r.sr <;> cases r.id.isSome <;> simp <;> omega

theorem drop_pre (pre tail : Bytes) (n : Nat) (h : n = pre.length) : List.drop n (pre ++ tail) = tail := by
  subst h; simp

/-- the walk over one complete record followed by anything -/
theorem walk_rec (fuel : Nat) (mb me : Bool) (r : Rec) (hr : r.wf) (tail : Bytes) :
    ndefWalk (fuel + 1) (encRec mb me r ++ tail) = if me then true else ndefWalk fuel tail := by
  have F1 := flags_sr mb me r hr.1
  have F2 := flags_il mb me r hr.1
  have F3 := flags_me mb me r hr.1
  obtain ⟨tnf, cf, sr, typ, id, payload⟩ := r
  obtain ⟨h1, h2, h3, h4⟩ := hr
  simp only at h1 h2 h3 h4 F1 F2 F3
  simp only [encRec, List.cons_append]
  generalize flagsOf mb me _ = flags at F1 F2 F3
  cases sr <;> cases id
  · simp at F1 F2 h4
    have hd := drop_pre ([typ.length, payload.length / 16777216 % 256, payload.length / 65536 % 256,
      payload.length / 256 % 256, payload.length % 256] ++ typ ++ payload) tail (5 + typ.length + payload.length)
      (by simp; omega)
    simp only [List.cons_append, List.nil_append, List.append_assoc] at hd
    have a1 : ¬ (typ.length + (payload.length + tail.length) + 1 + 1 + 1 + 1 + 1 < 5) := by omega
    have a2 : ¬ (typ.length + (payload.length + tail.length) + 1 + 1 + 1 + 1 + 1 < 5 + typ.length + payload.length) := by omega
    simp [ndefWalk, F1, F2, F3, toBE4', beNat4' _ h4, hd, a1, a2]
  · rename_i i
    simp at F1 F2 h4 h3
    have hd := drop_pre ([typ.length, payload.length / 16777216 % 256, payload.length / 65536 % 256,
      payload.length / 256 % 256, payload.length % 256, i.length] ++ typ ++ i ++ payload) tail
      (6 + typ.length + payload.length + i.length) (by simp; omega)
    simp only [List.cons_append, List.nil_append, List.append_assoc] at hd
    have a1 : ¬ (typ.length + (i.length + (payload.length + tail.length)) + 1 + 1 + 1 + 1 + 1 + 1 < 6) := by omega
    have a2 : ¬ (typ.length + (i.length + (payload.length + tail.length)) + 1 + 1 + 1 + 1 + 1 + 1 <
        6 + typ.length + payload.length + i.length) := by omega
    simp [ndefWalk, F1, F2, F3, toBE4', beNat4' _ h4, hd, a1, a2]
  · simp at F1 F2 h4
    have hd := drop_pre ([typ.length, payload.length] ++ typ ++ payload) tail (2 + typ.length + payload.length)
      (by simp; omega)
    simp only [List.cons_append, List.nil_append, List.append_assoc] at hd
    have a1 : ¬ (typ.length + (payload.length + tail.length) + 1 + 1 < 2) := by omega
    have a2 : ¬ (typ.length + (payload.length + tail.length) + 1 + 1 < 2 + typ.length + payload.length) := by omega
    simp [ndefWalk, F1, F2, F3, hd, a1, a2]
  · rename_i i
    simp at F1 F2 h4 h3
    have hd := drop_pre ([typ.length, payload.length, i.length] ++ typ ++ i ++ payload) tail
      (3 + typ.length + payload.length + i.length) (by simp; omega)
    simp only [List.cons_append, List.nil_append, List.append_assoc] at hd
    have a1 : ¬ (typ.length + (i.length + (payload.length + tail.length)) + 1 + 1 + 1 < 3) := by omega
    have a2 : ¬ (typ.length + (i.length + (payload.length + tail.length)) + 1 + 1 + 1 <
        3 + typ.length + payload.length + i.length) := by omega
    simp [ndefWalk, F1, F2, F3, hd, a1, a2]

theorem encRec_length (mb me : Bool) (r : Rec) :
    (encRec mb me r).length = 2 + (if r.sr then 1 else 4) + (if r.id.isSome then 1 else 0) +
      r.typ.length + (r.id.getD []).length + r.payload.length := by
  obtain ⟨tnf, cf, sr, typ, id, payload⟩ := r
  cases sr <;> cases id <;> simp [encRec, toBE4'] <;> omega

/-- a record that is cut short stops the walk -/
theorem walk_cut (fuel : Nat) (mb me : Bool) (r : Rec) (hr : r.wf) (k : Nat) (hk : k < (encRec mb me r).length) :
    ndefWalk fuel ((encRec mb me r).take k) = false := by
  cases fuel with
  | zero => rfl
  | succ fuel =>
  have F1 := flags_sr mb me r hr.1
  have F2 := flags_il mb me r hr.1
  rw [encRec_length] at hk
  obtain ⟨tnf, cf, sr, typ, id, payload⟩ := r
  obtain ⟨h1, h2, h3, h4⟩ := hr
  simp only at h1 h2 h3 h4 F1 F2 hk
  simp only [encRec]
  generalize flagsOf mb me _ = flags at F1 F2
  cases k with
  | zero => simp [ndefWalk]
  | succ j =>
  simp only [List.take_succ_cons]
  cases sr <;> cases id
  · simp at F1 F2 h4 hk
    rcases j with _ | _ | _ | _ | _ | j
    all_goals simp [ndefWalk, F1, F2, toBE4', beNat4' _ h4, List.take_succ_cons]
    omega
  · rename_i i
    simp at F1 F2 h4 h3 hk
    rcases j with _ | _ | _ | _ | _ | _ | j
    all_goals simp [ndefWalk, F1, F2, toBE4', beNat4' _ h4, List.take_succ_cons]
    omega
  · simp at F1 F2 h4 hk
    rcases j with _ | _ | j
    all_goals simp [ndefWalk, F1, F2, List.take_succ_cons]
    omega
  · rename_i i
    simp at F1 F2 h4 h3 hk
    rcases j with _ | _ | _ | j
    all_goals simp [ndefWalk, F1, F2, List.take_succ_cons]
    omega


theorem encMsgAux_cons (mb : Bool) (r : Rec) (rs : List Rec) :
    encMsgAux mb (r :: rs) = encRec mb rs.isEmpty r ++ encMsgAux false rs := by
  cases rs with
  | nil => simp [encMsgAux]
  | cons r' rs => simp [encMsgAux]

theorem encRec_length_ge (mb me : Bool) (r : Rec) : 3 ≤ (encRec mb me r).length := by
  rw [encRec_length]; split <;> omega

theorem encMsgAux_length_ge (mb : Bool) (rs : List Rec) : 3 * rs.length ≤ (encMsgAux mb rs).length := by
  induction rs generalizing mb with
  | nil => simp [encMsgAux]
  | cons r rs ih =>
    rw [encMsgAux_cons, List.length_append, List.length_cons]
    have := encRec_length_ge mb rs.isEmpty r
    have := ih false
    omega

/-- a complete message is accepted (enough fuel: one unit per record) -/
theorem walk_msg : ∀ (rs : List Rec) (mb : Bool) (fuel : Nat), rs ≠ [] → (∀ r ∈ rs, r.wf) → rs.length ≤ fuel →
    ndefWalk fuel (encMsgAux mb rs) = true := by
  intro rs
  induction rs with
  | nil => intro _ _ h; exact absurd rfl h
  | cons r rs ih =>
    intro mb fuel _ hwf hf
    obtain ⟨f, rfl⟩ : ∃ f, fuel = f + 1 := ⟨fuel - 1, by simp at hf; omega⟩
    rw [encMsgAux_cons, walk_rec f mb _ r (hwf r (by simp))]
    cases rs with
    | nil => simp
    | cons r' rs' =>
      simp only [List.isEmpty_cons, Bool.false_eq_true, if_false]
      exact ih false f (by simp) (fun x hx => hwf x (List.mem_cons_of_mem _ hx)) (by simp at hf ⊢; omega)

/-- no proper prefix of a message is accepted, whatever the fuel -/
theorem walk_msg_prefix : ∀ (rs : List Rec) (mb : Bool) (fuel k : Nat), (∀ r ∈ rs, r.wf) →
    k < (encMsgAux mb rs).length → ndefWalk fuel ((encMsgAux mb rs).take k) = false := by
  intro rs
  induction rs with
  | nil => intro mb fuel k _ hk; simp [encMsgAux] at hk
  | cons r rs ih =>
    intro mb fuel k hwf hk
    rw [encMsgAux_cons] at hk ⊢
    by_cases hlt : k < (encRec mb rs.isEmpty r).length
    · rw [List.take_append_of_le_length (by omega)]
      exact walk_cut fuel mb _ r (hwf r (by simp)) k hlt
    · have hne : rs ≠ [] := by
        intro h; subst h; simp [encMsgAux] at hk hlt; omega
      have hemp : rs.isEmpty = false := by cases rs <;> simp_all
      rw [hemp] at hk hlt ⊢
      rw [List.take_append]
      rw [List.take_of_length_le (by omega)]
      cases fuel with
      | zero => rfl
      | succ f =>
        rw [walk_rec f mb _ r (hwf r (by simp))]
        simp only [Bool.false_eq_true, if_false]
        apply ih false f _ (fun x hx => hwf x (List.mem_cons_of_mem _ hx))
        rw [List.length_append] at hk
        omega

/-- **ndeflib-shaped messages are self-delimiting**: the structural reading accepts the encoding of
a non-empty list of well-formed records and none of its proper non-empty prefixes -/
theorem prefixFree_encMsg (rs : List Rec) (hne : rs ≠ []) (hwf : ∀ r ∈ rs, r.wf) :
    PrefixFree ndefComplete (encMsg rs) := by
  have hlen := encMsgAux_length_ge true rs
  have hpos : 0 < rs.length := List.length_pos_iff.mpr hne
  refine ⟨?_, ?_, ?_⟩
  · intro h
    rw [encMsg] at h
    rw [h] at hlen
    simp only [List.length_nil] at hlen
    omega
  · simp only [ndefComplete, encMsg, Bool.or_eq_true]
    exact Or.inr (walk_msg rs true _ hne hwf (by omega))
  · intro k h0 hk
    simp only [ndefComplete, encMsg, Bool.or_eq_false_iff] at hk ⊢
    refine ⟨?_, walk_msg_prefix rs true _ k hwf hk⟩
    apply decide_eq_false
    intro h
    have := congrArg List.length h
    simp only [List.length_take, List.length_nil] at this
    omega

end NfcVerif.Handover
