import NfcVerif.Lemmas.NfcDepOnce
/-!
# NFC-DEP: a transaction under a sparse fault script succeeds

`sparse K n s`: faults are `l`/`c` only and after a fault the next `K` frames are delivered.  With
`K ≥ 4` one `send_dep_req_recv_dep_res` recovers from the (at most one) fault it meets:
lost/corrupted request or lost response -> ATN, ATN, request again; corrupted response -> NAK.
Generic over the peer (`LiveHyp`), then instantiated for the Target machine and carried through
the loops of `Initiator.exchange`.
-/
namespace NfcVerif.NfcDep
open NfcVerif
variable {σ : Type}

/-- `sparse K n s`: the next `n` frames are delivered, a fault is `l` or `c` only, and after a fault
the next `K` frames are delivered -/
def sparse (K : Nat) : Nat → List Fault → Bool
  | _, [] => true
  | n, .d :: s => sparse K (n - 1) s
  | 0, .l :: s => sparse K K s
  | 0, .c :: s => sparse K K s
  | _, _ => false

/-- outcome of one transfer that the peer answers with `res`, under a sparse script -/
def XLive (K : Nat) (a : Air σ) (res : Pdu) (s' : σ) (n : Nat) (r : Air σ × Py Pdu) : Prop :=
  r.1.expired = false ∧
  ( (r.2 = .ok res ∧ r.1.peer = s' ∧ sparse K (n - 2) r.1.script = true)
  ∨ (n = 0 ∧ r.2 = .error .timeout ∧ r.1.peer = a.peer ∧ sparse K K r.1.script = true)
  ∨ (n ≤ 1 ∧ (r.2 = .error .timeout ∨ r.2 = .error .transmission) ∧ r.1.peer = s' ∧ sparse K K r.1.script = true) )

theorem xfer_live (K : Nat) (P : Peer σ) (hcor : ∀ s, (P.rx s .corrupt).1 = s) (a : Air σ) (q res : Pdu) (s' : σ) (n : Nat)
    (hs : sparse K n a.script = true) (he : a.expired = false) (hl : ¬ q.tlen + 1 > 255)
    (ho : P.rx a.peer (.frame q) = (s', some res)) (hk : res.kind = q.kind) :
    XLive K a res s' n (xfer P a q) := by
  obtain ⟨script, peer, expired, wire⟩ := a
  simp only at hs he ho
  subst he
  unfold XLive xfer
  simp only [hl, if_false]
  rcases script with _ | ⟨f1, s1⟩
  · simp [Air.next, ho, hk, sparse]
  · cases f1
    · -- request delivered
      rcases s1 with _ | ⟨f2, s2⟩
      · simp [Air.next, ho, hk, sparse]
      · cases f2
        · simp [Air.next, ho, hk]
          have : sparse K (n - 1 - 1) s2 = true := by simpa [sparse] using hs
          rw [show n - 2 = n - 1 - 1 by omega]; exact this
        · simp [Air.next, ho]
          cases n with
          | zero => first | exact Or.inr (by simpa [sparse] using hs) | simpa [sparse] using hs | exact ⟨by omega, by simpa [sparse] using hs⟩
          | succ m =>
            cases m with
            | zero => simpa [sparse] using hs
            | succ k => simp [sparse] at hs
        · simp [Air.next, ho]
          cases n with
          | zero => first | exact Or.inr (by simpa [sparse] using hs) | simpa [sparse] using hs | exact ⟨by omega, by simpa [sparse] using hs⟩
          | succ m =>
            cases m with
            | zero => simpa [sparse] using hs
            | succ k => simp [sparse] at hs
        · cases n with
          | zero => simp [sparse] at hs
          | succ m => cases m <;> simp [sparse] at hs
    · cases n with
      | zero => simp [Air.next]; exact Or.inl (by simpa [sparse] using hs)
      | succ m => simp [sparse] at hs
    · cases n with
      | zero => simp [Air.next, hcor]; exact Or.inl (by simpa [sparse] using hs)
      | succ m => simp [sparse] at hs
    · cases n <;> simp [sparse] at hs

section live
variable (P : Peer σ) (c : Cfg) (A B : σ → Prop) (res1 : Pdu) (pni : Nat) (req : Pdu)

/-- what is needed, beyond `TXHyp`, for a transaction to SUCCEED: every delivered frame is answered -/
structure LiveHyp : Prop where
  cor : ∀ s, (P.rx s .corrupt).1 = s
  reqLen : ¬ req.tlen + 1 > 255
  atnLen : ¬ (atnPdu c).tlen + 1 > 255
  nakLen : ¬ (Pdu.dep fNAK pni c.idid c.inad []).tlen + 1 > 255
  aReq : ∀ s, A s → B (P.rx s (.frame req)).1 ∧ (P.rx s (.frame req)).2 = some res1
  bReq : ∀ s, B s → B (P.rx s (.frame req)).1 ∧ (P.rx s (.frame req)).2 = some res1
  bNak : ∀ s, B s → B (P.rx s (.frame (.dep fNAK pni c.idid c.inad []))).1 ∧
    (P.rx s (.frame (.dep fNAK pni c.idid c.inad []))).2 = some res1
  aAtn : ∀ s, A s → A (P.rx s (.frame (atnPdu c))).1 ∧
    ∃ p d n, (P.rx s (.frame (atnPdu c))).2 = some (.dep fATN p d n [])
  bAtn : ∀ s, B s → B (P.rx s (.frame (atnPdu c))).1 ∧
    ∃ p d n, (P.rx s (.frame (atnPdu c))).2 = some (.dep fATN p d n [])
  reqKind : req.kind = .dep
  resOk : ∃ fmt rp did nad data, res1 = .dep fmt rp did nad data ∧ fmt ≠ fNAK ∧ fmt ≠ fTOX ∧
    (fmt = fINF ∨ fmt = fMORE ∨ (c.v.f27 = true ∧ req.fmt? = some fMORE ∧ fmt = fACK))

variable {P c A B res1 pni req}

def LPost (K : Nat) (B : σ → Prop) (res1 : Pdu) (r : Air σ × Py Pdu) : Prop :=
  r.2 = .ok res1 ∧ B r.1.peer ∧ r.1.expired = false ∧ ∃ n', sparse K n' r.1.script = true

theorem reqAttention_live (K : Nat) (X : σ → Prop) (hcor : ∀ s, (P.rx s .corrupt).1 = s)
    (hlen : ¬ (atnPdu c).tlen + 1 > 255)
    (hX : ∀ s, X s → X (P.rx s (.frame (atnPdu c))).1 ∧ ∃ p d n, (P.rx s (.frame (atnPdu c))).2 = some (.dep fATN p d n []))
    (m n : Nat) (a : Air σ) (hn : 2 ≤ n) (hs : sparse K n a.script = true) (he : a.expired = false) (hx : X a.peer) :
    (reqAttention P c (m + 1) a).2 = .ok () ∧ X (reqAttention P c (m + 1) a).1.peer
    ∧ (reqAttention P c (m + 1) a).1.expired = false ∧ sparse K (n - 2) (reqAttention P c (m + 1) a).1.script = true := by
  unfold reqAttention
  simp only [he, Bool.false_eq_true, if_false]
  obtain ⟨hx1, p, d, nn, ho⟩ := hX a.peer hx
  have hk : (Pdu.dep fATN p d nn []).kind = (atnPdu c).kind := by rw [atn_kind]; rfl
  have hl := xfer_live K P hcor a (atnPdu c) (.dep fATN p d nn []) _ n hs he hlen (Prod.ext rfl ho) hk
  generalize xfer P a (atnPdu c) = r at hl ⊢
  obtain ⟨a', u⟩ := r
  obtain ⟨he', hc⟩ := hl
  rcases hc with ⟨h1, h2, h3⟩ | ⟨h0, _⟩ | ⟨h0, _⟩
  · simp only at h1 h2 h3 he'
    subst h1
    have h8 : fATN ≠ fTOX := by decide
    simp only [h8, if_false, ne_eq, not_true_eq_false]
    exact ⟨trivial, by rw [h2]; exact hx1, he', h3⟩
  · omega
  · omega

theorem reqRetrans_live (H : LiveHyp P c A B res1 pni req) (K m n : Nat) (a : Air σ) (hn : 2 ≤ n)
    (hs : sparse K n a.script = true) (he : a.expired = false) (hb : B a.peer) :
    LPost K B res1 (reqRetrans P c pni (decide (req.fmt? = some fMORE)) (m + 1) a) := by
  unfold reqRetrans
  simp only [he, Bool.false_eq_true, if_false]
  obtain ⟨hb1, ho⟩ := H.bNak a.peer hb
  obtain ⟨fmt, rp, did, nad, data, hres, hnak, htox, hacc⟩ := H.resOk
  have hk : res1.kind = (Pdu.dep fNAK pni c.idid c.inad []).kind := by rw [hres]; rfl
  have hl := xfer_live K P H.cor a _ res1 _ n hs he H.nakLen (Prod.ext rfl ho) hk
  generalize xfer P a (.dep fNAK pni c.idid c.inad []) = r at hl ⊢
  obtain ⟨a', u⟩ := r
  obtain ⟨he', hc⟩ := hl
  rcases hc with ⟨h1, h2, h3⟩ | ⟨h0, _⟩ | ⟨h0, _⟩
  · simp only at h1 h2 h3 he'
    subst h1
    subst hres
    have hcond : fmt = fINF ∨ fmt = fMORE ∨ (c.v.f27 = true ∧ decide (req.fmt? = some fMORE) = true ∧ fmt = fACK) := by
      rcases hacc with h | h | ⟨h1, h2, h3⟩
      · exact Or.inl h
      · exact Or.inr (Or.inl h)
      · exact Or.inr (Or.inr ⟨h1, by simpa using h2, h3⟩)
    simp only [htox, if_false, hcond, if_true]
    exact ⟨rfl, by rw [h2]; exact hb1, he', _, h3⟩
  · omega
  · omega

theorem nakCheck_live (H : LiveHyp P c A B res1 pni req) (a : Air σ) : nakCheck a res1 = (a, .ok res1) := by
  obtain ⟨fmt, rp, did, nad, data, hres, hnak, _⟩ := H.resOk
  subst hres
  simp [nakCheck, hnak]

/-- with two deliveries guaranteed the request goes through at once, from either phase -/
theorem sendDepLoop_clean (H : LiveHyp P c A B res1 pni req) (K fuel n : Nat) (a : Air σ) (hn : 2 ≤ n)
    (hs : sparse K n a.script = true) (he : a.expired = false) (hab : A a.peer ∨ B a.peer) :
    LPost K B res1 (sendDepLoop P c pni req (fuel + 1) a) := by
  unfold sendDepLoop
  simp only [he, Bool.false_eq_true, if_false]
  have hob : B (P.rx a.peer (.frame req)).1 ∧ (P.rx a.peer (.frame req)).2 = some res1 := by
    rcases hab with h | h
    · exact H.aReq _ h
    · exact H.bReq _ h
  obtain ⟨fmt, rp, did, nad, data, hres, _⟩ := H.resOk
  have hk : res1.kind = req.kind := by rw [hres, H.reqKind]; rfl
  have hl := xfer_live K P H.cor a req res1 _ n hs he H.reqLen (Prod.ext rfl hob.2) hk
  generalize xfer P a req = r at hl ⊢
  obtain ⟨a', u⟩ := r
  obtain ⟨he', hc⟩ := hl
  rcases hc with ⟨h1, h2, h3⟩ | ⟨h0, _⟩ | ⟨h0, _⟩
  · simp only at h1 h2 h3 he'
    subst h1
    dsimp only
    rw [nakCheck_live H]
    exact ⟨rfl, by rw [h2]; exact hob.1, he', _, h3⟩
  · omega
  · omega

theorem sendDepLoop_live (H : LiveHyp P c A B res1 pni req) (K fuel n : Nat) (hK : 4 ≤ K) (a : Air σ)
    (hs : sparse K n a.script = true) (he : a.expired = false) (ha : A a.peer) :
    LPost K B res1 (sendDepLoop P c pni req (fuel + 2) a) := by
  unfold sendDepLoop
  simp only [he, Bool.false_eq_true, if_false]
  have hob := H.aReq _ ha
  obtain ⟨fmt, rp, did, nad, data, hres, _⟩ := H.resOk
  have hk : res1.kind = req.kind := by rw [hres, H.reqKind]; rfl
  have hl := xfer_live K P H.cor a req res1 _ n hs he H.reqLen (Prod.ext rfl hob.2) hk
  generalize xfer P a req = r at hl ⊢
  obtain ⟨a', u⟩ := r
  obtain ⟨he', hc⟩ := hl
  rcases hc with ⟨h1, h2, h3⟩ | ⟨h0, h1, h2, h3⟩ | ⟨h0, h1, h2, h3⟩
  · simp only at h1 h2 h3 he'
    subst h1
    dsimp only
    rw [nakCheck_live H]
    exact ⟨rfl, by rw [h2]; exact hob.1, he', _, h3⟩
  · -- request lost or corrupted: ATN, then the request again
    simp only at h1 h2 h3 he'
    subst h1
    dsimp only
    have hat := reqAttention_live (c := c) K A H.cor H.atnLen H.aAtn 1 K a' (by omega) h3 he' (by rw [h2]; exact ha)
    generalize reqAttention P c 2 a' = r2 at hat ⊢
    obtain ⟨a2, u2⟩ := r2
    obtain ⟨hu, hA2, he2, hs2⟩ := hat
    simp only at hu hA2 he2 hs2
    subst hu
    exact sendDepLoop_clean H K fuel (K - 2) a2 (by omega) hs2 he2 (Or.inl hA2)
  · -- response lost or corrupted
    simp only at h1 h2 h3 he'
    have hB' : B a'.peer := by rw [h2]; exact hob.1
    rcases h1 with h1 | h1
    · subst h1
      dsimp only
      have hat := reqAttention_live (c := c) K B H.cor H.atnLen H.bAtn 1 K a' (by omega) h3 he' hB'
      generalize reqAttention P c 2 a' = r2 at hat ⊢
      obtain ⟨a2, u2⟩ := r2
      obtain ⟨hu, hB2, he2, hs2⟩ := hat
      simp only at hu hB2 he2 hs2
      subst hu
      exact sendDepLoop_clean H K fuel (K - 2) a2 (by omega) hs2 he2 (Or.inr hB2)
    · subst h1
      dsimp only
      have hr := reqRetrans_live H K 1 K a' (by omega) h3 he' hB'
      generalize reqRetrans P c pni (decide (req.fmt? = some fMORE)) 2 a' = r2 at hr ⊢
      obtain ⟨a2, u2⟩ := r2
      obtain ⟨hu, hB2, he2, hs2⟩ := hr
      simp only at hu hB2 he2 hs2
      subst hu
      dsimp only
      rw [nakCheck_live H]
      exact ⟨rfl, hB2, he2, hs2⟩

theorem transact_live (H : LiveHyp P c A B res1 pni req) (K fuel n : Nat) (hK : 4 ≤ K) (a : Air σ)
    (hs : sparse K n a.script = true) (ha : A a.peer) :
    LPost K B res1 (transact P c (fuel + 2) pni a req) := by
  unfold transact sendDep
  have hl := sendDepLoop_live H K fuel n hK { a with expired := false } hs rfl ha
  generalize sendDepLoop P c pni req (fuel + 2) { a with expired := false } = r at hl ⊢
  obtain ⟨a', u⟩ := r
  obtain ⟨hu, hrest⟩ := hl
  simp only at hu
  subst hu
  obtain ⟨fmt, rp, did, nad, data, hres, _, htox, _⟩ := H.resOk
  subst hres
  have : (Pdu.dep fmt rp did nad data).fmt? ≠ some fTOX := by simp [Pdu.fmt?, htox]
  simp only [this, if_false]
  exact ⟨rfl, hrest⟩
end live

/-! ## the Target machine and the loops of `Initiator.exchange` -/

theorem tRx_atn_answer (c : Cfg) (hdid : c.tdid = c.idid) (h26 : c.v.f26 = true) (t : TState)
    (hr : t.status = .running) :
    (tRx c t (.frame (atnPdu c))).2 = some (.dep fATN 0 c.tdid none []) := by
  obtain ⟨pni, loc, depRes, tosend, got, status⟩ := t
  simp only at hr
  subst hr
  cases loc <;> simp [atnPdu, h26, tRx, tRx.tRxActive, Pdu.didAttr, hdid]

theorem chunk_fits (c : Cfg) (ht : c.tmiu + 3 + flag c.tdid 1 ≤ 254) (pni : Nat) (d : Bytes) :
    ¬ (chunkPdu c pni d).tlen + 1 > 255 := by
  unfold chunkPdu
  rw [tlen_dep]
  simp [flag, List.length_take] at ht ⊢
  omega

theorem mkLive (c : Cfg) (hdid : c.tdid = c.idid) (h26 : c.v.f26 = true) (A B : TState → Prop) (res1 : Pdu)
    (pniI fmt : Nat) (data : Bytes) (hf : fmt ≠ fATN ∧ fmt ≠ fTOX ∧ fmt ≠ fNAK)
    (hlen : 3 + flag c.idid 1 + flag c.inad 1 + data.length ≤ 254)
    (hArun : ∀ t, A t → t.status = .running)
    (hAatn : ∀ t, A t → A (tRx c t (.frame (atnPdu c))).1)
    (hAreq : ∀ t, A t → B (tRx c t (.frame (.dep fmt pniI c.idid c.inad data))).1 ∧
      (tRx c t (.frame (.dep fmt pniI c.idid c.inad data))).2 = some res1)
    (hB : ∀ t, B t → PB pniI (some res1) t ∧ t.status = .running)
    (hres : ∃ f1 rp did nad dd, res1 = .dep f1 rp did nad dd ∧ f1 ≠ fNAK ∧ f1 ≠ fTOX ∧
      (f1 = fINF ∨ f1 = fMORE ∨ (c.v.f27 = true ∧ fmt = fMORE ∧ f1 = fACK))) :
    LiveHyp (targetPeer c) c A B res1 pniI (.dep fmt pniI c.idid c.inad data) where
  cor := fun _ => rfl
  reqLen := by rw [tlen_dep]; omega
  atnLen := by
    have := flag_le c.idid
    unfold atnPdu; split <;> rw [tlen_dep] <;> simp [flag] <;> simp [flag] at this <;> omega
  nakLen := by
    have := flag_le c.idid; have := flag_le c.inad
    rw [tlen_dep]; simp; omega
  aReq := hAreq
  bReq := fun t h => by
    have := PB_dep c hdid (hB t h).1 fmt ⟨hf.1, hf.2.1⟩ c.inad data
    show B (tRx c t _).1 ∧ (tRx c t _).2 = some res1
    rw [this]; exact ⟨h, rfl⟩
  bNak := fun t h => by
    have := PB_dep c hdid (hB t h).1 fNAK (by decide) c.inad []
    show B (tRx c t _).1 ∧ (tRx c t _).2 = some res1
    rw [this]; exact ⟨h, rfl⟩
  aAtn := fun t h => ⟨hAatn t h, 0, c.tdid, none, tRx_atn_answer c hdid h26 t (hArun t h)⟩
  bAtn := fun t h => by
    refine ⟨?_, 0, c.tdid, none, tRx_atn_answer c hdid h26 t (hB t h).2⟩
    show B (tRx c t _).1
    rw [PB_atn c (hB t h).1]; exact h
  reqKind := rfl
  resOk := by
    obtain ⟨f1, rp, did, nad, dd, h1, h2, h3, h4⟩ := hres
    refine ⟨f1, rp, did, nad, dd, h1, h2, h3, ?_⟩
    rcases h4 with h | h | ⟨ha, hb, hc⟩
    · exact Or.inl h
    · exact Or.inr (Or.inl h)
    · exact Or.inr (Or.inr ⟨ha, by rw [hb]; rfl, hc⟩)

/-- configurations for which recovery is claimed: same DID on both sides, ATN with DID (F26) and ACK
accepted after NAK (F27) as repaired, frames fit the length byte, non-zero information units -/
structure LiveCfg (c : Cfg) : Prop where
  did : c.tdid = c.idid
  f26 : c.v.f26 = true
  f27 : c.v.f27 = true
  isz : c.imiu + 3 + flag c.idid 1 + flag c.inad 1 ≤ 254
  tsz : c.tmiu + 3 + flag c.tdid 1 ≤ 254
  ipos : 0 < c.imiu
  tpos : 0 < c.tmiu

theorem infResp_cons (c : Cfg) (ht : c.tmiu + 3 + flag c.tdid 1 ≤ 254) (pni : Nat) (p' : Bytes) (ts' : List Bytes)
    (hp : p' ≠ []) : infResp c pni (p' :: ts') = some (chunkPdu c pni p') := by
  simp [infResp, hp, chunk_fits c ht pni p']

theorem ackResp_fits (c : Cfg) (ht : c.tmiu + 3 + flag c.tdid 1 ≤ 254) (pni : Nat) (rest : Bytes) :
    ackResp c pni rest = some (chunkPdu c pni rest) := by
  simp [ackResp, chunk_fits c ht pni rest]

theorem chunk_resOk (c : Cfg) (pni : Nat) (d : Bytes) (fmt : Nat) :
    ∃ f1 rp did nad dd, chunkPdu c pni d = .dep f1 rp did nad dd ∧ f1 ≠ fNAK ∧ f1 ≠ fTOX ∧
      (f1 = fINF ∨ f1 = fMORE ∨ (c.v.f27 = true ∧ fmt = fMORE ∧ f1 = fACK)) := by
  refine ⟨_, _, _, _, _, rfl, ?_, ?_, ?_⟩
  · split <;> decide
  · split <;> decide
  · split
    · exact Or.inr (Or.inl rfl)
    · exact Or.inl rfl

section
variable (c : Cfg) (L : LiveCfg c) (K F : Nat) (hK : 4 ≤ K)
include L hK

theorem sendLoop_live (g ts' : List Bytes) (p p' : Bytes) (hp' : p' ≠ []) :
    ∀ (n : Nat) (a : Air TState) (pniI : Nat) (sd acc : Bytes) (m : Nat),
    p = acc ++ sd → pniI < 4 → PData c pniI acc g (p' :: ts') a.peer → sd.length ≤ n + 1 →
    sparse K m a.script = true →
    ∃ pl, pl < 4 ∧ (sendLoop (targetPeer c) c (F + 2) (n + 1) a pniI sd).2.1 = (pl + 1) % 4
      ∧ (sendLoop (targetPeer c) c (F + 2) (n + 1) a pniI sd).2.2 = .ok (chunkPdu c pl p')
      ∧ PPost pl (.sending p') (chunkPdu c pl p') (g ++ [p]) ts' (sendLoop (targetPeer c) c (F + 2) (n + 1) a pniI sd).1.peer
      ∧ ∃ m', sparse K m' (sendLoop (targetPeer c) c (F + 2) (n + 1) a pniI sd).1.script = true := by
  intro n
  induction n with
  | zero =>
    intro a pniI sd acc m hp hlt hA hlen hs
    have hrest : sd.drop c.imiu = [] := by
      apply List.drop_eq_nil_of_le; have := L.ipos; omega
    exact last_chunk a pniI sd acc m hp hlt hA hs hrest 0
  | succ k ih =>
    intro a pniI sd acc m hp hlt hA hlen hs
    by_cases hrest : sd.drop c.imiu = []
    · exact last_chunk a pniI sd acc m hp hlt hA hs hrest (k + 1)
    · unfold sendLoop
      dsimp only
      simp only [hrest, ne_eq, not_false_eq_true, if_true]
      let data := sd.take c.imiu
      have hdl : data.length ≤ c.imiu := by simp [data, List.length_take]; omega
      have H : LiveHyp (targetPeer c) c (PData c pniI acc g (p' :: ts'))
          (PPost pniI (.receiving (acc ++ data)) (ackPdu c pniI) g (p' :: ts')) (ackPdu c pniI) pniI
          (.dep fMORE pniI c.idid c.inad data) := by
        refine mkLive c L.did L.f26 _ _ _ pniI fMORE data (by decide) (by have := L.isz; omega)
          (fun t h => h.1) (fun t h => PData_atn c h) ?_ (fun t h => ⟨h.toPB (by simp), h.1⟩)
          ⟨fACK, pniI, c.tdid, none, [], rfl, by decide, by decide, Or.inr (Or.inr ⟨L.f27, rfl, rfl⟩)⟩
        intro t ht
        obtain ⟨t', he, hg', hts', hrun'⟩ := tRx_data_eq c L.did ht fMORE c.inad data (Or.inl rfl)
        have hm := tRecv_more c t' pniI acc data hrun' hg' hts'
        rw [he]; exact ⟨hm.2, hm.1⟩
      have hx := transact_live H K F m hK a hs hA
      generalize transact (targetPeer c) c (F + 2) pniI a (.dep fMORE pniI c.idid c.inad data) = r at hx ⊢
      obtain ⟨a', u⟩ := r
      obtain ⟨hu, hB', _, m', hs'⟩ := hx
      simp only at hu hB' hs'
      subst hu
      simp only [ackPdu, hrest, and_false, if_false, ne_eq, not_true_eq_false, not_false_eq_true, if_true]
      have hA2 : PData c ((pniI + 1) % 4) (acc ++ data) g (p' :: ts') a'.peer :=
        ⟨hB'.1, hB'.2.1, hB'.2.2.1, Or.inr (Or.inr ⟨pniI, hB'.2.2.2.1, hlt, rfl, hB'.2.2.2.2.1⟩)⟩
      have hl2 : (sd.drop c.imiu).length ≤ k + 1 := by
        simp [List.length_drop]; have := L.ipos; omega
      exact ih a' ((pniI + 1) % 4) (sd.drop c.imiu) (acc ++ data) m'
        (by rw [hp, List.append_assoc, List.take_append_drop]) (Nat.mod_lt _ (by decide)) hA2 hl2 hs'
where
  last_chunk (a : Air TState) (pniI : Nat) (sd acc : Bytes) (m : Nat) (hp : p = acc ++ sd) (hlt : pniI < 4)
      (hA : PData c pniI acc g (p' :: ts') a.peer) (hs : sparse K m a.script = true)
      (hrest : sd.drop c.imiu = []) (n : Nat) :
      ∃ pl, pl < 4 ∧ (sendLoop (targetPeer c) c (F + 2) (n + 1) a pniI sd).2.1 = (pl + 1) % 4
        ∧ (sendLoop (targetPeer c) c (F + 2) (n + 1) a pniI sd).2.2 = .ok (chunkPdu c pl p')
        ∧ PPost pl (.sending p') (chunkPdu c pl p') (g ++ [p]) ts' (sendLoop (targetPeer c) c (F + 2) (n + 1) a pniI sd).1.peer
        ∧ ∃ m', sparse K m' (sendLoop (targetPeer c) c (F + 2) (n + 1) a pniI sd).1.script = true := by
    unfold sendLoop
    dsimp only
    have hlen : sd.length ≤ c.imiu := List.drop_eq_nil_iff.mp hrest
    have htake : sd.take c.imiu = sd := List.take_of_length_le hlen
    simp only [hrest, ne_eq, not_true_eq_false, if_false, htake]
    have H : LiveHyp (targetPeer c) c (PData c pniI acc g (p' :: ts'))
        (PPost pniI (.sending p') (chunkPdu c pniI p') (g ++ [p]) ts') (chunkPdu c pniI p') pniI
        (.dep fINF pniI c.idid c.inad sd) := by
      refine mkLive c L.did L.f26 _ _ _ pniI fINF sd (by decide) (by have := L.isz; omega)
        (fun t h => h.1) (fun t h => PData_atn c h) ?_ (fun t h => ⟨h.toPB (by simp), h.1⟩)
        (chunk_resOk c pniI p' fINF)
      intro t ht
      obtain ⟨t', he, hg', hts', hrun'⟩ := tRx_data_eq c L.did ht fINF c.inad sd (Or.inr rfl)
      have hi := tRecv_inf c t' pniI acc sd hrun' hg' hts'
      have hir := infResp_cons c L.tsz pniI p' ts' hp'
      rw [he]
      refine ⟨?_, by rw [hi.1, hir]⟩
      rcases hi.2.2 with ⟨_, hn⟩ | ⟨p'', ts'', hts2, _, hpp⟩
      · rw [hir] at hn; cases hn
      · cases hts2
        rw [hp]; exact hpp
    have hx := transact_live H K F m hK a hs hA
    generalize transact (targetPeer c) c (F + 2) pniI a (.dep fINF pniI c.idid c.inad sd) = r at hx ⊢
    obtain ⟨a', u⟩ := r
    obtain ⟨hu, hB', _, m', hs'⟩ := hx
    simp only at hu hB' hs'
    subst hu
    have hfm : (if p'.length > c.tmiu then fMORE else fINF) ≠ fACK := by split <;> decide
    simp only [chunkPdu, hfm, false_and, if_false, ne_eq, not_true_eq_false]
    exact ⟨pniI, hlt, rfl, rfl, hB', m', hs'⟩

theorem recvLoop_live (g ts : List Bytes) (p' : Bytes) :
    ∀ (n : Nat) (a : Air TState) (pniI : Nat) (acc : Bytes) (fmt m : Nat), pniI < 4 →
    ((fmt = fMORE ∧ ∃ d, PSend c pniI d g ts a.peer ∧ acc ++ d.drop c.tmiu = p' ∧ d.length ≤ n)
      ∨ (fmt = fINF ∧ PData c pniI [] g ts a.peer ∧ acc = p')) →
    sparse K m a.script = true →
    (recvLoop (targetPeer c) c (F + 2) (n + 1) a pniI acc fmt).2.2 = .ok p'
    ∧ (recvLoop (targetPeer c) c (F + 2) (n + 1) a pniI acc fmt).2.1 < 4
    ∧ PData c (recvLoop (targetPeer c) c (F + 2) (n + 1) a pniI acc fmt).2.1 [] g ts
        (recvLoop (targetPeer c) c (F + 2) (n + 1) a pniI acc fmt).1.peer
    ∧ ∃ m', sparse K m' (recvLoop (targetPeer c) c (F + 2) (n + 1) a pniI acc fmt).1.script = true := by
  intro n
  induction n with
  | zero =>
    intro a pniI acc fmt m hlt h hs
    rcases h with ⟨_, d, hS, _, hd⟩ | ⟨hf, hD, hacc⟩
    · obtain ⟨_, _, _, q, _, _, _, _, hgt⟩ := hS
      have := L.tpos; omega
    · subst hf
      unfold recvLoop
      have : fINF ≠ fMORE := by decide
      simp only [ne_eq, this, not_false_eq_true, if_true]
      exact ⟨by rw [hacc], hlt, hD, m, hs⟩
  | succ k ih =>
    intro a pniI acc fmt m hlt h hs
    rcases h with ⟨hf, d, hS, hacc, hd⟩ | ⟨hf, hD, hacc⟩
    · subst hf
      unfold recvLoop
      simp only [ne_eq, not_true_eq_false, if_false]
      let rest := d.drop c.tmiu
      have H : LiveHyp (targetPeer c) c (PSend c pniI d g ts)
          (PPost pniI (.sending rest) (chunkPdu c pniI rest) g ts) (chunkPdu c pniI rest) pniI
          (.dep fACK pniI c.idid c.inad []) := by
        refine mkLive c L.did L.f26 _ _ _ pniI fACK [] (by decide) (by have := L.isz; simp; omega)
          (fun t h => h.1) (fun t h => PSend_atn c h) ?_ (fun t h => ⟨h.toPB (by simp), h.1⟩)
          (chunk_resOk c pniI rest fACK)
        intro t ht
        have hk := tRx_ack c L.did ht c.inad
        have har := ackResp_fits c L.tsz pniI rest
        refine ⟨?_, by rw [hk.1, har]⟩
        rcases hk.2.2 with ⟨_, hn⟩ | ⟨_, hpp⟩
        · rw [har] at hn; cases hn
        · exact hpp
      have hx := transact_live H K F m hK a hs hS
      generalize transact (targetPeer c) c (F + 2) pniI a (.dep fACK pniI c.idid c.inad []) = r at hx ⊢
      obtain ⟨a', u⟩ := r
      obtain ⟨hu, hB', _, m', hs'⟩ := hx
      simp only at hu hB' hs'
      subst hu
      have hfm : ¬ ((if rest.length > c.tmiu then fMORE else fINF) ≠ fINF ∧
          (if rest.length > c.tmiu then fMORE else fINF) ≠ fMORE) := by split <;> decide
      simp only [chunkPdu, hfm, if_false, ne_eq, not_true_eq_false]
      obtain ⟨hrun, hg, hts, hp, hloc, _⟩ := hB'
      have hdgt : d.length > c.tmiu := by
        obtain ⟨_, _, _, q, _, _, _, _, hgt⟩ := hS; exact hgt
      have hrl : rest.length ≤ k := by
        simp [rest, List.length_drop]; have := L.tpos; omega
      refine ih a' ((pniI + 1) % 4) (acc ++ rest.take c.tmiu) _ m' (Nat.mod_lt _ (by decide)) ?_ hs'
      by_cases hlen : rest.length > c.tmiu
      · left
        simp only [hlen, if_true, true_and]
        exact ⟨rest, ⟨hrun, hg, hts, pniI, hp, hlt, rfl, hloc, hlen⟩,
          by rw [List.append_assoc, List.take_append_drop]; exact hacc, hrl⟩
      · right
        simp only [hlen, if_false, true_and]
        refine ⟨⟨hrun, hg, hts, Or.inr (Or.inl ⟨pniI, rest, hp, hlt, rfl, hloc, by omega, rfl⟩)⟩, ?_⟩
        rw [List.take_of_length_le (by omega)]; exact hacc
    · subst hf
      unfold recvLoop
      have : fINF ≠ fMORE := by decide
      simp only [ne_eq, this, not_false_eq_true, if_true]
      exact ⟨by rw [hacc], hlt, hD, m, hs⟩

theorem exchange_live (a : Air TState) (pniI : Nat) (p p' : Bytes) (g ts' : List Bytes) (m : Nat) (hlt : pniI < 4)
    (hA : PData c pniI [] g (p' :: ts') a.peer) (hp : p ≠ []) (hp' : p' ≠ [])
    (hpl : p.length ≤ F + 1) (hpl' : p'.length ≤ F + 1) (hs : sparse K m a.script = true) :
    (exchange (targetPeer c) c (F + 2) a pniI p).2.2 = .ok p'
    ∧ (exchange (targetPeer c) c (F + 2) a pniI p).2.1 < 4
    ∧ PData c (exchange (targetPeer c) c (F + 2) a pniI p).2.1 [] (g ++ [p]) ts'
        (exchange (targetPeer c) c (F + 2) a pniI p).1.peer
    ∧ ∃ m', sparse K m' (exchange (targetPeer c) c (F + 2) a pniI p).1.script = true := by
  unfold exchange
  simp only [hp, if_false]
  have hsl := sendLoop_live c L K F hK g ts' p p' hp' (F + 1) a pniI p [] m (by simp) hlt hA (by omega) hs
  generalize sendLoop (targetPeer c) c (F + 2) (F + 2) a pniI p = r at hsl ⊢
  obtain ⟨a1, pni1, u⟩ := r
  obtain ⟨pl, hpl4, hp1, hu, hpp, m1, hs1⟩ := hsl
  simp only at hp1 hu hpp hs1
  subst hu hp1
  have hfm : ¬ ((if p'.length > c.tmiu then fMORE else fINF) ≠ fINF ∧
      (if p'.length > c.tmiu then fMORE else fINF) ≠ fMORE) := by split <;> decide
  simp only [chunkPdu, hfm, if_false]
  obtain ⟨hrun, hg, hts, hpn, hloc, _⟩ := hpp
  refine recvLoop_live c L K F hK (g ++ [p]) ts' p' (F + 1) a1 ((pl + 1) % 4) (p'.take c.tmiu) _ m1
    (Nat.mod_lt _ (by decide)) ?_ hs1
  by_cases hlen : p'.length > c.tmiu
  · left
    simp only [hlen, if_true, true_and]
    exact ⟨p', ⟨hrun, hg, hts, pl, hpn, hpl4, rfl, hloc, hlen⟩, List.take_append_drop _ _, hpl'⟩
  · right
    simp only [hlen, if_false, true_and]
    exact ⟨⟨hrun, hg, hts, Or.inr (Or.inl ⟨pl, p', hpn, hpl4, rfl, hloc, by omega, rfl⟩)⟩,
      List.take_of_length_le (by omega)⟩

theorem iApp_live : ∀ (rem : List Bytes) (a : Air TState) (pniI : Nat) (gotI g ts : List Bytes) (m : Nat),
    pniI < 4 → PData c pniI [] g ts a.peer → rem.length ≤ ts.length →
    (∀ p ∈ rem, p ≠ [] ∧ p.length ≤ F + 1) → (∀ p ∈ ts, p ≠ [] ∧ p.length ≤ F + 1) →
    sparse K m a.script = true →
    (iApp (targetPeer c) c (F + 2) rem a pniI gotI).2.2 = none
  | [], a, pniI, gotI, g, ts, m, _, _, _, _, _, _ => by unfold iApp; rfl
  | p :: ps, a, pniI, gotI, g, ts, m, hlt, hA, hlen, hr, ht, hs => by
    cases ts with
    | nil => simp at hlen
    | cons p' ts' =>
      unfold iApp
      have h1 := hr p (by simp)
      have h2 := ht p' (by simp)
      have hx := exchange_live c L K F hK a pniI p p' g ts' m hlt hA h1.1 h2.1 h1.2 h2.2 hs
      generalize exchange (targetPeer c) c (F + 2) a pniI p = r at hx ⊢
      obtain ⟨a', pni', u⟩ := r
      obtain ⟨hu, hlt', hA', m', hs'⟩ := hx
      simp only at hu hlt' hA' hs'
      subst hu
      exact iApp_live ps a' pni' (gotI ++ [p']) (g ++ [p]) ts' m' hlt' hA' (by simpa using hlen)
        (fun q hq => hr q (by simp [hq])) (fun q hq => ht q (by simp [hq])) hs'

/-- **Recovery.**  Under a sparse script (faults `l`/`c` only, after each fault the next `K ≥ 4`
frames are delivered) no exception is raised -/
theorem run_live (script : List Fault) (rel : Nat) (pi pt : List Bytes) (hs : sparse K 0 script = true)
    (hlen : pi.length ≤ pt.length) (hpi : ∀ p ∈ pi, p ≠ [] ∧ p.length ≤ F + 1)
    (hpt : ∀ p ∈ pt, p ≠ [] ∧ p.length ≤ F + 1) :
    (run c (F + 2) script rel pi pt).errI = none := by
  have h0 : PData c 0 [] [] pt (TState.init pt) :=
    ⟨rfl, rfl, rfl, Or.inl ⟨rfl, Or.inl rfl, rfl, rfl⟩⟩
  have h := iApp_live c L K F hK pi
    { script := script, peer := TState.init pt, expired := false, wire := [] } 0 [] [] pt 0 (by decide) h0 hlen hpi hpt hs
  unfold run
  dsimp only
  exact h
end
end NfcVerif.NfcDep
