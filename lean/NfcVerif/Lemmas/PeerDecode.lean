import NfcVerif.Model.PeerDispatch
import NfcVerif.Lemmas.PduSafe
/-!
# C07: the DSAP field of every decoded PDU is a SAP number (`PduOk`)
-/
namespace NfcVerif.Peer
open NfcVerif.Pdu NfcVerif.Pdu.Impl

theorem unpackBB_byte {d : Bytes} {off a b : Nat} (hb : IsBytes d) (h : unpackBB d off = .ok (a, b)) : a < 256 := by
  unfold unpackBB at h
  split at h
  · rename_i x y hx hy
    cases h
    exact hb _ (List.mem_of_getElem? hx)
  · cases h

theorem unpackBBB_byte {d : Bytes} {off a b c : Nat} (hb : IsBytes d) (h : unpackBBB d off = .ok (a, b, c)) : a < 256 := by
  unfold unpackBBB at h
  split at h
  · rename_i x y z hx hy hz
    cases h
    exact hb _ (List.mem_of_getElem? hx)
  · cases h

theorem header_dsap {d : Bytes} {off size x y : Nat} (hb : IsBytes d) (h : decodeHeader d off size = .ok (x, y)) : x < 64 := by
  unfold decodeHeader at h
  split at h
  · cases h
  · obtain ⟨⟨a, b⟩, hab, h⟩ := Py.bind_eq_ok.mp h
    cases h
    have := unpackBB_byte hb hab
    omega

theorem headerN_dsap {d : Bytes} {off size x y n r : Nat} (hb : IsBytes d) (h : decodeHeaderN d off size = .ok (x, y, n, r)) : x < 64 := by
  unfold decodeHeaderN at h
  split at h
  · cases h
  · obtain ⟨⟨a, b, c⟩, hab, h⟩ := Py.bind_eq_ok.mp h
    cases h
    have := unpackBBB_byte hb hab
    omega

/-- every simple decoder takes the DSAP from the header -/
theorem kind_dsap (ptype : Nat) (dec : Bytes → Nat → Nat → Py SPdu) (hk : kindOf ptype = .simple dec)
    (d : Bytes) (off size : Nat) (hb : IsBytes d) (p : SPdu) (h : dec d off size = .ok p) : p.dsap < 64 := by
  unfold kindOf at hk
  split at hk <;> cases hk
  case h_13 | h_14 | h_12 =>
    first | unfold decInfo at h | unfold decRr at h | unfold decRnr at h
    obtain ⟨⟨x, y, n, r⟩, hh, h⟩ := Py.bind_eq_ok.mp h
    have hx := headerN_dsap hb hh
    cases h; exact hx
  case h_8 | h_9 =>
    first | unfold decDm at h | unfold decFrmr at h
    split at h
    · cases h
    · obtain ⟨⟨x, y⟩, hh, h⟩ := Py.bind_eq_ok.mp h
      have hx := header_dsap hb hh
      obtain ⟨_, _, h⟩ := Py.bind_eq_ok.mp h
      cases h; exact hx
  all_goals
    first | unfold decSymm at h | unfold decPax at h | unfold decUi at h | unfold decConnect at h | unfold decDisc at h
          | unfold decCc at h | unfold decSnl at h | unfold decDps at h | unfold decUnknown at h
    obtain ⟨⟨x, y⟩, hh, h⟩ := Py.bind_eq_ok.mp h
    have hx := header_dsap hb hh
    simp only at h
    repeat' (first
      | (split at h)
      | (obtain ⟨_, _, h⟩ := Py.bind_eq_ok.mp h))
    all_goals first | (cases h; exact hx) | (cases h)

theorem isBytes_sliceN {d : Bytes} (hb : IsBytes d) (a b : Nat) : IsBytes (sliceN d a b) := by
  intro x hx
  unfold sliceN at hx
  exact hb x (List.mem_of_mem_drop (List.mem_of_mem_take hx))

theorem decodeNested_dsap {data : Bytes} {off size : Nat} {p : SPdu} (hb : IsBytes data)
    (h : decodeNested data off size = .ok p) : p.dsap < 64 := by
  unfold decodeNested at h
  obtain ⟨⟨d, t⟩, hpre, h⟩ := Py.bind_eq_ok.mp h
  obtain ⟨rfl, _, _, _⟩ := decodePre_ok hpre
  simp only at h
  split at h
  · cases h
  · rename_i dec hk
    exact kind_dsap t dec hk _ 0 size (isBytes_sliceN hb _ _) p h

theorem agfLoop_dsap (fuel : Nat) (d : Bytes) (hb : IsBytes d) (off size : Nat) (acc items : List SPdu)
    (ha : ∀ q ∈ acc, SPduOk q) (h : agfLoop fuel d off size acc = .ok items) : ∀ q ∈ items, SPduOk q := by
  induction fuel generalizing off size acc with
  | zero =>
    unfold agfLoop at h
    split at h
    · cases h; exact ha
    · cases h
  | succ fuel ih =>
    unfold agfLoop at h
    split at h
    · cases h; exact ha
    · obtain ⟨n, _, h⟩ := Py.bind_eq_ok.mp h
      obtain ⟨p, hp, h⟩ := Py.bind_eq_ok.mp h
      have hd := decodeNested_dsap hb hp
      refine ih _ _ _ ?_ h
      intro q hq
      rcases List.mem_append.mp hq with hq | hq
      · exact ha q hq
      · simp only [List.mem_singleton] at hq; subst hq; exact hd

/-- every DSAP field of a decoded PDU (and of every PDU inside a decoded aggregate) is a SAP number -/
theorem decode_pduOk {b : Bytes} (hb : IsBytes b) {p : Pdu} (h : Impl.decode b = .ok p) : PduOk p := by
  unfold Impl.decode decodeAt at h
  obtain ⟨⟨d, t⟩, hpre, h⟩ := Py.bind_eq_ok.mp h
  obtain ⟨rfl, _, _, _⟩ := decodePre_ok hpre
  have hbs := isBytes_sliceN hb 0 (0 + b.length)
  simp only at h
  split at h
  · unfold decAgf at h
    obtain ⟨⟨x, y⟩, _, h⟩ := Py.bind_eq_ok.mp h
    simp only at h
    split at h
    · cases h
    · obtain ⟨items, hi, h⟩ := Py.bind_eq_ok.mp h
      cases h
      exact agfLoop_dsap _ _ hbs _ _ [] items (fun q hq => by cases hq) hi
  · rename_i dec hk
    obtain ⟨q, hq, h⟩ := Py.bind_eq_ok.mp h
    cases h
    exact kind_dsap t dec hk _ 0 _ hbs q hq
end NfcVerif.Peer
