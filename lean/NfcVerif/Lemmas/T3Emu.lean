import NfcVerif.Model.T3Emu
import NfcVerif.Lemmas.T34Base
/-! Lemmas for the emulated Type 3 Tag round trip (C01T34.t3emu_roundtrip). -/
namespace NfcVerif.T3Emu
open NfcVerif.T34

/-- octets of one block list element -/
def codeOf (b : Nat) : Bytes := if b < 256 then [0x80, b] else [0x00, b % 256, b / 256]

theorem blockCodes_ok (bl : List Nat) (h : ∀ b ∈ bl, b < 65536) : blockCodes bl = .ok (bl.flatMap codeOf) := by
  induction bl with
  | nil => rfl
  | cons b bs ih =>
    have hb := h b (by simp)
    have := ih (fun x hx => h x (by simp [hx]))
    by_cases hlt : b < 256 <;> simp [blockCodes, blockCode, codeOf, this, hlt, hb]

theorem codeOf_length (b : Nat) : (codeOf b).length = if b < 256 then 2 else 3 := by
  unfold codeOf; split <;> simp

theorem parseBlocks_enc (bl : List Nat) (h : ∀ b ∈ bl, b < 65536) (rest : Bytes) : ∀ i acc,
    parseBlocks 1 bl.length i (bl.flatMap codeOf ++ rest) acc = .ok (.cont (acc ++ bl.map (fun b => (0, b)), rest)) := by
  induction bl with
  | nil => intro i acc; simp [parseBlocks]
  | cons b bs ih =>
    intro i acc
    have hb := h b (by simp)
    have ih' := ih (fun x hx => h x (by simp [hx]))
    simp only [List.length_cons, List.flatMap_cons, List.append_assoc, List.map_cons]
    by_cases hlt : b < 256
    · simp [codeOf, hlt, parseBlocks, ih']
    · simp [codeOf, hlt, parseBlocks, ih']
      omega

def blkSlice (d : Bytes) (i : Nat) : Bytes := sliceN d (i * 16) ((i + 1) * 16)

/-- the block store after the write callbacks for blocks `bl` with data blocks `i, i+1, ..` of `d` -/
def writeAll (d : Bytes) : List Nat → Nat → Bytes → Bytes
  | [], _, s => s
  | b :: bs, i, s => writeAll d bs (i + 1) (splice s (b * 16) (blkSlice d i))

/-- what the read callbacks return for blocks `bl` -/
def readAll (s : Bytes) (bl : List Nat) : Bytes := bl.flatMap fun b => sliceN s (b * 16) ((b + 1) * 16)

theorem blkSlice_length (d : Bytes) (i : Nat) (h : (i + 1) * 16 ≤ d.length) : (blkSlice d i).length = 16 := by
  unfold blkSlice; rw [sliceN_length _ _ _ h]; omega

theorem storeWrite_splice (s : Bytes) (b : Nat) (blk : Bytes) (hb : b * 16 + 16 ≤ s.length) (hl : blk.length = 16) :
    storeWrite s b blk = some (splice s (b * 16) blk) := by
  unfold storeWrite splice
  rw [if_pos (by omega), hl, show (b + 1) * 16 = b * 16 + 16 by omega]

theorem writeAll_length (d : Bytes) : ∀ (bl : List Nat) (i : Nat) (s : Bytes),
    (∀ b ∈ bl, b * 16 + 16 ≤ s.length) → (i + bl.length) * 16 ≤ d.length → (writeAll d bl i s).length = s.length := by
  intro bl
  induction bl with
  | nil => intro i s _ _; rfl
  | cons b bs ih =>
    intro i s hb hd
    simp only [List.length_cons] at hd
    have hl := blkSlice_length d i (by omega)
    have hs : (splice s (b * 16) (blkSlice d i)).length = s.length :=
      splice_length _ _ _ (by rw [hl]; exact hb b (by simp))
    simp only [writeAll]
    rw [ih (i + 1) _ (by intro x hx; rw [hs]; exact hb x (by simp [hx])) (by omega), hs]

theorem sliceN_splice_disjoint (m : Bytes) (off : Nat) (d : Bytes) (a b : Nat) (h : off + d.length ≤ m.length)
    (hd : off + d.length ≤ a ∨ b ≤ off) : sliceN (splice m off d) a b = sliceN m a b := by
  apply List.ext_getElem?; intro j
  simp only [sliceN, List.getElem?_take, List.getElem?_drop, getElem?_splice m off d h]
  split
  · rcases hd with hd | hd
    · rw [if_neg (by omega), if_neg (by omega)]
    · rw [if_pos (by omega)]
  · rfl

theorem writeAll_other (d : Bytes) (b : Nat) : ∀ (bl : List Nat) (i : Nat) (s : Bytes), b ∉ bl →
    (∀ x ∈ bl, x * 16 + 16 ≤ s.length) → (i + bl.length) * 16 ≤ d.length →
    sliceN (writeAll d bl i s) (b * 16) ((b + 1) * 16) = sliceN s (b * 16) ((b + 1) * 16) := by
  intro bl
  induction bl with
  | nil => intro i s _ _ _; rfl
  | cons x xs ih =>
    intro i s hnm hb hd
    simp only [List.length_cons] at hd
    have hl := blkSlice_length d i (by omega)
    have hx := hb x (by simp)
    have hs : (splice s (x * 16) (blkSlice d i)).length = s.length := splice_length _ _ _ (by rw [hl]; exact hx)
    have hne : b ≠ x := fun h => hnm (by simp [h])
    simp only [writeAll]
    rw [ih (i + 1) _ (fun h => hnm (by simp [h])) (by intro y hy; rw [hs]; exact hb y (by simp [hy])) (by omega)]
    apply sliceN_splice_disjoint _ _ _ _ _ (by rw [hl]; exact hx)
    rw [hl]
    rcases Nat.lt_or_gt_of_ne hne with h | h
    · right; omega
    · left; omega

/-- reading back distinct blocks after writing them returns the written data blocks -/
theorem readAll_writeAll (d : Bytes) : ∀ (bl : List Nat) (i : Nat) (s : Bytes), bl.Nodup →
    (∀ x ∈ bl, x * 16 + 16 ≤ s.length) → (i + bl.length) * 16 ≤ d.length →
    readAll (writeAll d bl i s) bl = sliceN d (i * 16) ((i + bl.length) * 16) := by
  intro bl
  induction bl with
  | nil => intro i s _ _ _; simp [readAll, sliceN]
  | cons x xs ih =>
    intro i s hnd hb hd
    simp only [List.length_cons] at hd
    have hl := blkSlice_length d i (by omega)
    have hx := hb x (by simp)
    have hs : (splice s (x * 16) (blkSlice d i)).length = s.length := splice_length _ _ _ (by rw [hl]; exact hx)
    have hnd' := List.nodup_cons.mp hnd
    have hb' : ∀ y ∈ xs, y * 16 + 16 ≤ (splice s (x * 16) (blkSlice d i)).length := by
      intro y hy; rw [hs]; exact hb y (by simp [hy])
    have h1 := writeAll_other d x xs (i + 1) _ hnd'.1 hb' (by omega)
    have h2 := ih (i + 1) _ hnd'.2 hb' (by omega)
    simp only [readAll, List.flatMap_cons, writeAll] at *
    rw [h1, h2]
    have := sliceN_splice_same s (x * 16) (blkSlice d i) (by rw [hl]; exact hx)
    rw [hl] at this
    rw [show (x + 1) * 16 = x * 16 + 16 by omega, this, List.length_cons]
    unfold blkSlice
    rw [show i + (xs.length + 1) = i + 1 + xs.length by omega]
    exact sliceN_append d _ _ _ (by omega) (by omega)

end NfcVerif.T3Emu
