import NfcVerif.Model.PeerPax
import NfcVerif.Lemmas.PduSafe
/-!
# C07: general bytes, Type 3 Tag emulation, exception flow
-/
namespace NfcVerif.Peer
open NfcVerif.Pdu

theorem decPax_shape {d : Bytes} {off size : Nat} {p : SPdu} (h : Impl.decPax d off size = .ok p) :
    ∃ a b v m w l o, p = .pax a b v m w l o := by
  unfold Impl.decPax at h
  obtain ⟨⟨dsap, ssap⟩, _, h⟩ := Py.bind_eq_ok.mp h
  simp only at h
  split at h
  · cases h
  · obtain ⟨st, _, h⟩ := Py.bind_eq_ok.mp h
    cases h
    exact ⟨_, _, _, _, _, _, _, rfl⟩

theorem decodePre_pax (t : Bytes) :
    Impl.decodePre (0 :: 0x40 :: t) 0 (0 :: 0x40 :: t).length = .ok (0 :: 0x40 :: t, 1) := by
  unfold Impl.decodePre
  have h1 : ¬ (0 + (0 :: 0x40 :: t).length > (0 :: 0x40 :: t).length) := by omega
  have h2 : ¬ ((0 :: 0x40 :: t).length < 2) := by simp
  rw [if_neg h1, if_neg h2]
  have hs : sliceN (0 :: 0x40 :: t) 0 (0 + (0 :: 0x40 :: t).length) = 0 :: 0x40 :: t := by
    simp [sliceN]
  simp only [hs]
  rfl

theorem decode_pax_shape (t : Bytes) {p : Pdu} (h : Impl.decode (0 :: 0x40 :: t) = .ok p) :
    ∃ a b v m w l o, p = .simple (.pax a b v m w l o) := by
  unfold Impl.decode Impl.decodeAt at h
  rw [decodePre_pax t] at h
  simp only [Py.bind_ok] at h
  change (Impl.decPax (0 :: 0x40 :: t) 0 (0 :: 0x40 :: t).length >>= fun p => pure (Pdu.simple p)) = .ok p at h
  obtain ⟨q, hq, h⟩ := Py.bind_eq_ok.mp h
  cases h
  obtain ⟨a, b, v, m, w, l, o, rfl⟩ := decPax_shape hq
  exact ⟨_, _, _, _, _, _, _, rfl⟩

theorem pax_total (gb : Option Bytes) : ∃ r, activateGb true gb = .ok r := by
  unfold activateGb
  match gb with
  | none => exact ⟨_, rfl⟩
  | some gb =>
    simp only
    split
    · exact ⟨_, rfl⟩
    · have hd := Impl.decodeAt_safe ([0x00, 0x40] ++ gb.drop 3) 0 ([0x00, 0x40] ++ gb.drop 3).length
      change Safe OnlyDecodeError (Impl.decode ([0x00, 0x40] ++ gb.drop 3)) at hd
      generalize hx : Impl.decode ([0x00, 0x40] ++ gb.drop 3) = x at hd
      match x, hx, hd with
      | .error e, _, hd =>
        have : e = .decodeError := hd e rfl
        subst this
        exact ⟨none, by simp⟩
      | .ok p, hx, _ =>
        obtain ⟨a, b, v, m, w, l, o, rfl⟩ := decode_pax_shape (gb.drop 3) hx
        exact ⟨_, rfl⟩

open NfcVerif.T3Emu

/-- exception classes that the transcription of `process_command` can produce at all -/
def T3Exc (e : Exc) : Prop := e = .index ∨ e = .type_ ∨ e = .key ∨ e = .value

theorem idxN_t3 {α} (l : List α) (i : Nat) : Safe T3Exc (idxN l i) := by
  intro e h; unfold idxN at h; split at h
  · cases h
  · cases h; exact Or.inl rfl

theorem dictGet_t3 (d : Dict) (k : Nat) : Safe T3Exc (dictGet d k) := by
  intro e h; unfold dictGet at h; split at h
  · cases h
  · cases h; exact Or.inr (Or.inr (Or.inl rfl))

theorem parseServices_t3 (n : Nat) (d : Bytes) (acc : List Nat) : Safe T3Exc (parseServices n d acc) := by
  induction n generalizing d acc with
  | zero => unfold parseServices; exact Safe.ok _
  | succ n ih =>
    unfold parseServices
    refine Safe.bind' (idxN_t3 _ _) fun hi => Safe.bind' (idxN_t3 _ _) fun lo => ?_
    exact Safe.ite (Safe.ok _) (ih _ _)

theorem parseBlocks_t3 (nsvc n i : Nat) (d : Bytes) (acc : List (Nat × Nat)) : Safe T3Exc (parseBlocks nsvc n i d acc) := by
  induction n generalizing i d acc with
  | zero => unfold parseBlocks; exact Safe.ok _
  | succ n ih =>
    unfold parseBlocks
    match d with
    | [] => exact Safe.ok _
    | b0 :: r =>
      simp only
      apply Safe.ite
      · exact Safe.ok _
      apply Safe.ite
      · exact Safe.bind' (idxN_t3 _ _) fun bn => ih _ _ _
      · exact Safe.bind' (idxN_t3 _ _) fun hi => Safe.bind' (idxN_t3 _ _) fun lo => ih _ _ _

theorem readLoop_t3 (store : Bytes) (svcs : List Nat) (d0 : Dict) (bl : List (Nat × Nat)) (i : Nat) (d : Dict)
    (acc : Bytes) (log : List Call) : Safe T3Exc (readLoop store svcs d0 bl i d acc log) := by
  induction bl generalizing i d acc log with
  | nil => unfold readLoop; exact Safe.ok _
  | cons b rest ih =>
    obtain ⟨si, bn⟩ := b
    unfold readLoop
    refine Safe.bind' (idxN_t3 _ _) fun sc => Safe.bind' (dictGet_t3 _ _) fun bc => Safe.bind' (dictGet_t3 _ _) fun cur => ?_
    simp only
    split
    · exact Safe.ok _
    · exact ih _ _ _ _

theorem writeLoop_t3 (svcs : List Nat) (d0 : Dict) (data : Bytes) (bl : List (Nat × Nat)) (i : Nat) (d : Dict)
    (store : Bytes) (log : List Call) : Safe T3Exc (writeLoop svcs d0 data bl i d store log) := by
  induction bl generalizing i d store log with
  | nil => unfold writeLoop; exact Safe.ok _
  | cons b rest ih =>
    obtain ⟨si, bn⟩ := b
    unfold writeLoop
    refine Safe.bind' (idxN_t3 _ _) fun sc => Safe.bind' (dictGet_t3 _ _) fun bc => Safe.bind' (dictGet_t3 _ _) fun cur => ?_
    simp only
    apply Safe.ite
    · exact Safe.throw (Or.inr (Or.inl rfl))
    split
    · exact Safe.ok _
    · exact ih _ _ _ _

theorem emuRead_t3 (e : Emu) (d : Bytes) : Safe T3Exc (emuRead e d) := by
  unfold emuRead
  refine Safe.bind' (idxN_t3 _ _) fun nsvc => Safe.bind' (parseServices_t3 _ _ _) fun s => ?_
  match s with
  | .done r => exact Safe.ok _
  | .cont (svcs, d1) =>
    simp only
    refine Safe.bind' (idxN_t3 _ _) fun nblk => Safe.ite (Safe.ok _) (Safe.bind' (parseBlocks_t3 _ _ _ _ _) fun b => ?_)
    match b with
    | .done r => exact Safe.ok _
    | .cont (blocks, _) => exact readLoop_t3 _ _ _ _ _ _ _ _

theorem emuWrite_t3 (e : Emu) (d : Bytes) : Safe T3Exc (emuWrite e d) := by
  unfold emuWrite
  refine Safe.bind' (idxN_t3 _ _) fun nsvc => Safe.bind' (parseServices_t3 _ _ _) fun s => ?_
  match s with
  | .done r => exact Safe.ok _
  | .cont (svcs, d1) =>
    simp only
    refine Safe.bind' (idxN_t3 _ _) fun nblk => Safe.bind' (parseBlocks_t3 _ _ _ _ _) fun b => ?_
    match b with
    | .done r => exact Safe.ok _
    | .cont (blocks, data) => exact Safe.ite (Safe.ok _) (writeLoop_t3 _ _ _ _ _ _ _ _)

theorem respond_t3 (e : Emu) (c : Nat) (r : Bytes) : Safe T3Exc (respond e c r) := by
  unfold respond
  exact Safe.ite (Safe.throw (Or.inr (Or.inr (Or.inr rfl)))) (Safe.ok _)

theorem processCommand_t3 (e : Emu) (cmd : Bytes) : Safe T3Exc (processCommand e cmd) := by
  unfold processCommand
  refine Safe.bind' (idxN_t3 _ _) fun l0 => Safe.ite (Safe.ok _) (Safe.ite ?_ (Safe.ite ?_ (Safe.ok _)))
  · refine Safe.bind' (idxN_t3 _ _) fun rc => ?_
    simp only
    exact Safe.ite (Safe.throw (Or.inr (Or.inr (Or.inr rfl)))) (Safe.ok _)
  · refine Safe.bind' (idxN_t3 _ _) fun code => ?_
    refine Safe.ite (Safe.bind' (respond_t3 _ _ _) fun r => Safe.ok _) (Safe.ite ?_ (Safe.ite ?_ (Safe.ite ?_ (Safe.ok _))))
    · exact Safe.bind' (emuRead_t3 _ _) fun (rsp, log) => Safe.bind' (respond_t3 _ _ _) fun r => Safe.ok _
    · exact Safe.bind' (emuWrite_t3 _ _) fun (rsp, store, log) => Safe.bind' (respond_t3 _ _ _) fun r => Safe.ok _
    · exact Safe.bind' (respond_t3 _ _ _) fun r => Safe.ok _

theorem processCommandR_safe (e : Emu) (cmd : Bytes) :
    Safe (fun x => x = .type_ ∨ x = .key ∨ x = .value) (processCommandR e cmd) := by
  intro x h
  unfold processCommandR at h
  split at h
  · cases h
  · rename_i hne
    rcases processCommand_t3 e cmd x h with h1 | h1 | h1 | h1
    · subst h1; exact absurd h (hne)
    · exact Or.inl h1
    · exact Or.inr (Or.inl h1)
    · exact Or.inr (Or.inr h1)

/-! ## exception flow -/

/-- what the repaired decoders (frames, PDUs) and the driver can raise at the link loop -/
def PeerExc (e : Exc) : Prop :=
  e = .protocol ∨ e = .transmission ∨ e = .timeout ∨ e = .brokenLink ∨ e = .decodeError

theorem peerExc_caught {e : Exc} (h : PeerExc e) : (isComm e || isPduError e) = true := by
  rcases h with h | h | h | h | h <;> subst h <;> rfl

theorem runLoop_peer {α : Type} (e : Exc) (h : PeerExc e) (d : α → Py Unit) :
    runLoop (.error e : Py α) d = some ⟨.returned, true⟩ := by
  have hc := peerExc_caught h
  unfold runLoop runTurn llcExchange
  simp only [hc, if_true]
  rfl

theorem runLoop_contains {α : Type} (x : Py α) (d : α → Py Unit)
    (hx : ∀ e, x = .error e → PeerExc e) (hd : ∀ a, ∃ u, d a = .ok u) :
    runLoop x d = none ∨ runLoop x d = some ⟨.returned, true⟩ := by
  match x, hx with
  | .error e, hx => exact Or.inr (runLoop_peer e (hx e rfl) d)
  | .ok a, _ =>
    obtain ⟨u, hu⟩ := hd a
    left
    unfold runLoop runTurn llcExchange
    simp only [Py.bind_ok, hu]

theorem connectLlcp_returns (act : Py Bool) (run : Option Flow)
    (ha : ∀ e, act ≠ .error e) (hr : run = none ∨ run = some ⟨.returned, true⟩) :
    connectLlcp act run = none ∨ connectLlcp act run = some ⟨.returned, false⟩ ∨
      connectLlcp act run = some ⟨.returned, true⟩ := by
  match act, ha with
  | .error e, ha => exact absurd rfl (ha e)
  | .ok false, _ => exact Or.inr (Or.inl rfl)
  | .ok true, _ =>
    rcases hr with hr | hr <;> subst hr
    · exact Or.inl rfl
    · exact Or.inr (Or.inr rfl)

theorem cardTurn_comm {α : Type} (a : α) (e : Exc) (h : isComm e = true) :
    cardTurn (.ok a : Py α) (.error e) = none ∨ cardTurn (.ok a : Py α) (.error e) = some .returned := by
  cases e <;> simp_all [cardTurn, isComm]

end NfcVerif.Peer
