import NfcVerif.Gen.FnTagBase
import NfcVerif.Lemmas.FnBridgeBase
import NfcVerif.Model.FnTagBaseRef
import NfcVerif.Model.AuthNdef
import NfcVerif.Model.AdvOps
import NfcVerif.Model.Retry
import NfcVerif.Model.Tlv
import NfcVerif.Model.T3
import NfcVerif.Model.T4
/-!
Helper lemmas of the bridge theorems of group TagBase (`Props/FnBridgeTagBase.lean`): facts about the reference
semantics `Model/FnTagBaseRef.lean`, its agreement with the existing models of the same code
(`TagCache.cstep`, `Adv.step`, `Retry.stepOp`, `Tlv.setOctets`, `T3.setOctets`, `T4.setOctets`), string and bit
lemmas for the dispatch of `nfc.tag.activate`.
-/
namespace NfcVerif.FnBridge.TagBase
open NfcVerif NfcVerif.PyFn NfcVerif.TagBaseRef

/-! ## the reference semantics: property relevant facts -/

/-- C03 / C20: when the private method returned True the cache is empty afterwards, whatever it held ... -/
theorem wrapper_drops {α} (cache : Option α) : (wrapper cache (.ok (some true))).2 = none := by
  simp [wrapper]

/-- ... and in every other case (False, None, an exception) it is left alone -/
theorem wrapper_keeps {α} (cache : Option α) (priv : Py (Option Bool)) (h : priv ≠ .ok (some true)) :
    (wrapper cache priv).2 = cache := by
  simp [wrapper, h]

/-- the value of the private method is handed on unchanged -/
theorem wrapper_value {α} (cache : Option α) (priv : Py (Option Bool)) : (wrapper cache priv).1 = priv := rfl

/-- with an empty cache `tag.ndef` reads the tag and hands out exactly what that read gave -/
theorem ndefAccess_empty {α} (read : Py (Option α)) : ndefAccess none read = (read, true) := rfl

/-- with a cached object `tag.ndef` does not touch the tag -/
theorem ndefAccess_cached {α} (x : α) (read : Py (Option α)) : ndefAccess (some x) read = (.ok (some x), false) := rfl

/-- **cache_dropped_after_format**: after a successful `format` / `protect` / `authenticate` the next `tag.ndef`
reads the tag again and hands out what that read gives, whatever was cached before -/
theorem cache_dropped_after_format {α} (cache : Option α) (read : Py (Option α)) :
    ndefAccess (wrapper cache (.ok (some true))).2 read = (read, true) := by
  rw [wrapper_drops]; rfl

/-- **setter_rejects_before_command**: a write that can not succeed fails with the same exception whatever the
type specific write would do - it is not called -/
theorem setter_rejects_before_command (writeable : Bool) (capacity : Int) (data : Bytes) (write : Bytes → Py Unit)
    (h : writeable = false ∨ (data.length : Int) > capacity) :
    setOctets writeable capacity data write = .error (if writeable = false then .attr else .value) := by
  unfold setOctets
  rcases h with h | h
  · simp [h]
  · by_cases hw : writeable = false <;> simp [hw, h]

/-- **setter_always_writes**: a write that can succeed always performs the type specific write with exactly the
data given (there is no shortcut for data equal to what is cached) and fails when that write fails -/
theorem setter_always_writes (capacity : Int) (data : Bytes) (write : Bytes → Py Unit)
    (h : (data.length : Int) ≤ capacity) :
    setOctets true capacity data write = (write data >>= fun _ => .ok data) := by
  unfold setOctets
  have : ¬ (data.length : Int) > capacity := by omega
  simp [this]

theorem setter_fails_with_write (capacity : Int) (data : Bytes) (write : Bytes → Py Unit) (e : Exc)
    (h : (data.length : Int) ≤ capacity) (hw : write data = .error e) :
    setOctets true capacity data write = .error e := by
  rw [setter_always_writes capacity data write h, hw]; rfl

/-! ## agreement with the existing models -/

/-- the outcome of a private method as `Model/AuthNdef.lean` `TagCache` sees it (it has no `None` result) -/
def asBool (priv : Py (Option Bool)) : Py Bool := priv.map (· == some true)

theorem asBool_true (priv : Py (Option Bool)) : asBool priv = .ok true ↔ priv = .ok (some true) := by
  unfold asBool
  cases priv with
  | error e => simp [Except.map]
  | ok v => cases v with
    | none => simp [Except.map]
    | some b => cases b <;> simp [Except.map]

/-- `TagCache.cstep` (C20 `ndef_read_again_after_authenticate`) is the reference wrapper ... -/
theorem cstep_format (cache : Option Bytes) (priv : Py (Option Bool)) :
    (TagCache.cstep cache (.format (asBool priv))).2 = (wrapper cache priv).2 := by
  simp only [TagCache.cstep, wrapper, asBool_true]

theorem cstep_protect (cache : Option Bytes) (priv : Py (Option Bool)) :
    (TagCache.cstep cache (.protect (asBool priv))).2 = (wrapper cache priv).2 := by
  simp only [TagCache.cstep, wrapper, asBool_true]

theorem cstep_auth (cache : Option Bytes) (priv : Py (Option Bool)) :
    (TagCache.cstep cache (.auth (asBool priv))).2 = (wrapper cache priv).2 := by
  simp only [TagCache.cstep, wrapper, asBool_true]

/-- ... and the reference `tag.ndef` -/
theorem cstep_ndef (cache f : Option Bytes) :
    TagCache.cstep cache (.ndef f) = (⟨(ndefAccess cache (.ok f)).1, (ndefAccess cache (.ok f)).2⟩, ndefCache cache (.ok f)) := by
  cases cache <;> rfl

/-- `Adv.step` (C08 `runOps`): the cache of the tag object after `tag.ndef` -/
theorem adv_step_ndef {σ κ} (T : Adv.TagOps σ κ) (o : Adv.Obj σ κ) :
    (Adv.step T .ndef o).2.ndef = ndefCache o.ndef (T.read none o.st).1 := by
  obtain ⟨st, nd⟩ := o
  cases nd with
  | some x => obtain ⟨d, k⟩ := x; rfl
  | none =>
    simp only [Adv.step, Adv.readStep, ndefCache]
    cases hr : T.read none st with
    | mk r s => cases r <;> rfl

/-- `Adv.step`: `tag.ndef` reads the tag iff nothing is cached -/
theorem adv_step_ndef_cached {σ κ} (T : Adv.TagOps σ κ) (o : Adv.Obj σ κ) (x : Adv.Ndef × κ) (h : o.ndef = some x) :
    Adv.step T .ndef o = (.ok (.ndef (some x.1)), o) := by
  obtain ⟨st, nd⟩ := o
  obtain ⟨d, k⟩ := x
  simp only at h
  subst h; rfl

/-- `Adv.step`: the cache after `has_changed` is what the read gave -/
theorem adv_step_changed {σ κ} [DecidableEq (Adv.Ndef × κ)] (T : Adv.TagOps σ κ) (o : Adv.Obj σ κ) (x : Adv.Ndef × κ)
    (h : o.ndef = some x) :
    (Adv.step T .changed o).2.ndef = step o.ndef (.changed (T.read (some x.2) o.st).1) := by
  obtain ⟨st, nd⟩ := o
  obtain ⟨d, k⟩ := x
  simp only at h
  subst h
  simp only [Adv.step, Adv.readStep, step, hasChanged]
  cases hr : T.read (some k) st with
  | mk r s => cases r <;> rfl

/-- `Retry.stepOp` (C16 sessions): the `cached` flag after an operation that does not start with `tag.ndef` is the
reference wrapper's -/
theorem stepOp_cached (cfg : Retry.Cfg) (read : Retry.Prog) (o : Retry.SOp) (cached : Bool) (w : Retry.World)
    (h : o.usesNdef = false) :
    (Retry.stepOp cfg read o cached w).2.1 =
      (cached && !(o.clears && (Retry.stepOp cfg read o cached w).1 == .ok .true_)) := by
  simp [Retry.stepOp, h]

/-- ... which is the `isSome` of the reference cache for an operation that clears (`format`, `protect`,
`authenticate`) -/
theorem wrapper_isSome {α} (cache : Option α) (priv : Py (Option Bool)) :
    (wrapper cache priv).2.isSome = (cache.isSome && !(decide (priv = .ok (some true)))) := by
  unfold wrapper
  by_cases h : priv = .ok (some true) <;> simp [h]

/-! ## `Tag.NDEF.octets` setter and the type specific models -/

/-- `Tlv.setOctets` (C01, Type 1 / Type 2): the result ... -/
theorem tlv_setOctets_res (c : Tlv.Cfg) (m : Bytes) (L : Tlv.Layout) (data : Bytes) :
    (Tlv.setOctets c m L data).res =
      (setOctets L.writeable L.cap data (fun d => (Tlv.writeCmds c m L d).res)).map (fun _ => ()) := by
  unfold Tlv.setOctets setOctets
  by_cases hw : L.writeable = true
  · by_cases hc : (data.length : Int) > L.cap
    · simp [hw, hc, Except.map]
    · simp only [hw, hc, not_true_eq_false, if_false, Bool.true_eq_false]
      cases (Tlv.writeCmds c m L data).res <;> rfl
  · have hw' : L.writeable = false := by simpa using hw
    simp [hw', Except.map]

/-- ... and the commands: none at all when the write is rejected -/
theorem tlv_setOctets_cmds (c : Tlv.Cfg) (m : Bytes) (L : Tlv.Layout) (data : Bytes) :
    (Tlv.setOctets c m L data).cmds =
      if L.writeable = false ∨ (data.length : Int) > L.cap then [] else (Tlv.writeCmds c m L data).cmds := by
  unfold Tlv.setOctets
  by_cases hw : L.writeable = true
  · by_cases hc : (data.length : Int) > L.cap <;> simp [hw, hc]
  · have hw' : L.writeable = false := by simpa using hw
    simp [hw']

/-! ## strings and bits of `nfc.tag.activate` -/

theorem isSuffixOf_singleton (c : Char) (l : List Char) : [c].isSuffixOf l = (l.getLast? == some c) := by
  rw [List.getLast?_eq_head?_reverse]
  unfold List.isSuffixOf
  cases l.reverse with
  | nil => simp
  | cons x xs =>
    simp only [List.reverse_cons, List.reverse_nil, List.nil_append, List.isPrefixOf, Bool.and_true, List.head?_cons]
    rw [Bool.eq_iff_iff, beq_iff_eq, beq_iff_eq, Option.some.injEq]; exact eq_comm

/-- last character of `target.brty` -/
def techOf (brty : String) : Char := (brty.toList.getLast?).getD ' '

theorem endsWith_A (brty : String) : (strEndsWith brty "A" = true) ↔ techOf brty = 'A' := by
  unfold strEndsWith techOf
  show ['A'].isSuffixOf brty.toList = true ↔ _
  rw [isSuffixOf_singleton]
  cases brty.toList.getLast? with
  | none => simp
  | some x => simp

theorem endsWith_B (brty : String) : (strEndsWith brty "B" = true) ↔ techOf brty = 'B' := by
  unfold strEndsWith techOf
  show ['B'].isSuffixOf brty.toList = true ↔ _
  rw [isSuffixOf_singleton]
  cases brty.toList.getLast? with
  | none => simp
  | some x => simp

theorem endsWith_F (brty : String) : (strEndsWith brty "F" = true) ↔ techOf brty = 'F' := by
  unfold strEndsWith techOf
  show ['F'].isSuffixOf brty.toList = true ↔ _
  rw [isSuffixOf_singleton]
  cases brty.toList.getLast? with
  | none => simp
  | some x => simp

theorem getB_nat_idxN (l : Bytes) (i : Nat) : getB l (i : Int) = (idxN l i).map (fun (b : Nat) => (b : Int)) := by
  rw [getB_ofNat]; unfold idxN
  cases l[i]? <;> rfl

theorem band15 (b : Nat) : (band (b : Int) 15 = 12) ↔ b % 16 = 12 := by
  have : (15 : Int) = ((15 : Nat) : Int) := rfl
  rw [this, band_ofNat]
  have h : b &&& 15 = b % 16 := Nat.and_two_pow_sub_one_eq_mod b 4
  rw [h]; omega

theorem shr5_band3 (b : Nat) : (band (shr (b : Int) 5) 3 = 0) ↔ b / 32 % 4 = 0 := by
  have h5 : (5 : Int) = ((5 : Nat) : Int) := rfl
  have h3 : (3 : Int) = ((3 : Nat) : Int) := rfl
  rw [h5, shr_ofNat, h3, band_ofNat]
  have h : (b >>> 5) &&& 3 = (b >>> 5) % 4 := Nat.and_two_pow_sub_one_eq_mod _ 2
  rw [h, Nat.shiftRight_eq_div_pow]; omega

theorem shr5_band1 (b : Nat) : (band (shr (b : Int) 5) 1 = 1) ↔ b / 32 % 2 = 1 := by
  have h5 : (5 : Int) = ((5 : Nat) : Int) := rfl
  have h1 : (1 : Int) = ((1 : Nat) : Int) := rfl
  rw [h5, shr_ofNat, h1, band_ofNat]
  have h : (b >>> 5) &&& 1 = (b >>> 5) % 2 := Nat.and_two_pow_sub_one_eq_mod _ 1
  rw [h, Nat.shiftRight_eq_div_pow]; omega

end NfcVerif.FnBridge.TagBase
