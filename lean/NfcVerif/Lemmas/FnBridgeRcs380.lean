import NfcVerif.Gen.FnRcs380
import NfcVerif.Model.ErrMap
import NfcVerif.Lemmas.FnBridgePn53xCommon
import NfcVerif.Lemmas.HostFrame
/-!
Helper lemmas for `Props/FnBridgeRcs380.lean` (`rcs380.Frame`, `rcs380.CommunicationError` against
`Model/HostFrame.lean` / `Model/ErrMap.lean`).
-/
namespace NfcVerif.FnBridge.Rcs380
open NfcVerif NfcVerif.PyFn NfcVerif.HostFrame NfcVerif.ErrMap NfcVerif.FnBridge.HostLink

/-- `(256 - s) % 256` on Python ints (floor modulo) -/
theorem sub_mod_256 (s : Nat) : (((256 : Nat) : Int) - (s : Int)) % ((256 : Nat) : Int) = (((256 - s % 256) % 256 : Nat) : Int) := by
  omega

theorem and_two_pow' (x k : Nat) : x &&& 2 ^ k = if x.testBit k then 2 ^ k else 0 := by
  apply Nat.eq_of_testBit_eq; intro i
  rw [Nat.testBit_and, Nat.testBit_two_pow]
  by_cases hx : x.testBit k = true
  · simp only [hx, if_true, Nat.testBit_two_pow]
    by_cases hk : k = i
    · subst hk; simp [hx]
    · simp [hk]
  · simp only [hx, Bool.false_eq_true, if_false, Nat.zero_testBit]
    by_cases hk : k = i
    · subst hk; simp [hx]
    · simp [hk]

/-- `x & 2^k != 0` is bit `k` -/
theorem and_pow_ne_zero (x k : Nat) : (x &&& 2 ^ k ≠ 0) ↔ (x / 2 ^ k) % 2 = 1 := by
  rw [and_two_pow', Nat.testBit_eq_decide_div_mod_eq]
  have hp : 0 < 2 ^ k := Nat.two_pow_pos k
  by_cases h : x / 2 ^ k % 2 = 1
  · simp [h]
  · simp [h]

theorem len2 {l : Bytes} (h : l.length = 2) : ∃ a b, l = [a, b] := by
  match l, h with
  | [a, b], _ => exact ⟨a, b, rfl⟩

theorem ule_two_le (a b : Nat) : ule [a, b] ((0 : Nat) : Int) 2 = ((a + 256 * b : Nat) : Int) := by
  unfold ule; simp [beNat]; omega

/-- what the generated code says about a response with a communication status, in the model's two-level
exception type: `rcsComm` carries the status word that `CommunicationError.__init__` unpacked -/
def withStatus {α} (x : Py α) (st : Py Nat) : RPy α :=
  match x with
  | .ok a => .ok a
  | .error .rcsComm => liftR st >>= fun s => throw (.comm s)
  | .error e => .error (.py e)

theorem ints_inj (l m : Bytes) : ints l = ints m ↔ l = m := by
  constructor
  · intro h
    induction l generalizing m with
    | nil => cases m with
      | nil => rfl
      | cons b t => simp [ints] at h
    | cons a t ih => cases m with
      | nil => simp [ints] at h
      | cons b u =>
        simp only [ints_cons, List.cons.injEq, Int.natCast_inj] at h
        rw [h.1, ih u h.2]
  · intro h; rw [h]

theorem ints_ne_zero4 (l : Bytes) :
    (ints l ≠ [((0 : Nat) : Int), ((0 : Nat) : Int), ((0 : Nat) : Int), ((0 : Nat) : Int)]) ↔ l ≠ [0, 0, 0, 0] := by
  have : ([((0 : Nat) : Int), ((0 : Nat) : Int), ((0 : Nat) : Int), ((0 : Nat) : Int)] : List Int) = ints [0, 0, 0, 0] := rfl
  rw [this, ne_eq, ne_eq, ints_inj]

end NfcVerif.FnBridge.Rcs380
