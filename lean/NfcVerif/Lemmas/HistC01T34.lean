import NfcVerif.Model.HistC01
import NfcVerif.Lemmas.T3Write
import NfcVerif.Lemmas.T4Ndef
/-! C01: histories of assignments with faults on Type 3 and Type 4 Tags -/
namespace NfcVerif.Hist
open NfcVerif NfcVerif.T34

/-! ## Type 3 -/

theorem runWF_none (cs : List T3.WCmd) : ∀ m, runWF m cs none = T3.runW m cs := by
  induction cs with
  | nil => intro m; rfl
  | cons c cs ih =>
    intro m
    simp only [runWF, T3.runW]
    cases T3.sendW m c with
    | error e => rfl
    | ok m' => simp only [Option.map_none, ih m']

theorem t3Write_none (m data : Bytes) : (t3Write m data none).sent = (T3.writeNdef m data).sent ∧
    (t3Write m data none).mem = (T3.writeNdef m data).mem ∧ (t3Write m data none).res = (T3.writeNdef m data).res := by
  unfold t3Write
  cases h : T3.readBlocks m 0 1 >>= T3.decodeAttr with
  | error e => exact ⟨rfl, rfl, rfl⟩
  | ok o =>
    cases o with
    | none => exact ⟨rfl, rfl, rfl⟩
    | some a =>
      simp only
      split
      · exact ⟨rfl, rfl, rfl⟩
      · rename_i hn
        rw [runWF_none]
        unfold T3.writeNdef
        rw [h]
        simp [if_neg hn]

/-- the attributes that no write changes -/
def Same (a b : T3.Attr) : Prop :=
  b.ver = a.ver ∧ b.nbr = a.nbr ∧ b.nbw = a.nbw ∧ b.nmaxb = a.nmaxb ∧ b.rwflag = a.rwflag

/-- with every command of `cs` accepted, a faulted run leaves the memory of some prefix of `cs` -/
theorem runWF_prefix (cs : List T3.WCmd) : ∀ (m M : Bytes) (f : Option Fault), T3.runW m cs = ⟨cs, M, .ok ()⟩ →
    ∃ j, j ≤ cs.length ∧ (runWF m cs f).mem = T3.applyW m (cs.take j) ∧
      ((runWF m cs f).res = .ok () → j = cs.length) ∧ (f = none → (runWF m cs f).res = .ok ()) := by
  induction cs with
  | nil => intro m M f _; exact ⟨0, Nat.le_refl _, rfl, fun _ => rfl, fun _ => rfl⟩
  | cons c cs ih =>
    intro m M f h
    cases hs : T3.sendW m c with
    | error e => simp [T3.runW, hs] at h
    | ok m1 =>
      rw [T3.runW_cons_ok cs hs] at h
      have h2 : T3.runW m1 cs = ⟨cs, M, .ok ()⟩ := by
        cases hr : T3.runW m1 cs with
        | mk s mm r => rw [hr] at h; simp at h; obtain ⟨h1, h2, h3⟩ := h; subst h1 h2 h3; rfl
      have hm1 : m1 = splice m (16 * c.blk) c.data := by
        unfold T3.sendW at hs
        cases hc : T3.cmdCheck c.blk c.n c.data.length with
        | error e => simp [hc] at hs
        | ok u => simp [hc] at hs; split at hs <;> simp at hs; exact hs.symm
      rcases f with _ | ⟨k, late⟩
      · obtain ⟨j, hj, hm, hr, hn⟩ := ih m1 M none h2
        refine ⟨j + 1, by simp; omega, ?_, ?_, ?_⟩
        · simp only [runWF, hs, Option.map_none, List.take_succ_cons, T3.applyW, List.foldl_cons]
          rw [← hm1]; exact hm
        · intro hres; simp only [runWF, hs, Option.map_none] at hres; simp [hr hres]
        · intro _; simp only [runWF, hs, Option.map_none]; exact hn rfl
      · cases k with
        | zero =>
          cases late with
          | false => exact ⟨0, Nat.zero_le _, by simp [runWF, hs, T3.applyW], by simp [runWF, hs, faultErr], by simp⟩
          | true =>
            refine ⟨1, by simp, ?_, by simp [runWF, hs, faultErr], by simp⟩
            simp [runWF, hs, T3.applyW, hm1]
        | succ k =>
          obtain ⟨j, hj, hm, hr, _⟩ := ih m1 M (some ⟨k, late⟩) h2
          refine ⟨j + 1, by simp; omega, ?_, ?_, by simp⟩
          · simp only [runWF, hs, Option.map_some, Nat.add_sub_cancel, List.take_succ_cons, T3.applyW, List.foldl_cons]
            rw [← hm1]; exact hm
          · intro hres; simp only [runWF, hs, Option.map_some, Nat.add_sub_cancel] at hres; simp [hr hres]

theorem runW_plan (m data : Bytes) (a : T3.Attr) (wf : T3.WF m a) (hlen : data.length ≤ 16 * a.nmaxb) :
    T3.runW m (T3.planWrite a data) = ⟨T3.planWrite a data, T3.finalMem m a data, .ok ()⟩ := by
  have hw := T3.writeNdef_spec m data a wf hlen
  unfold T3.writeNdef at hw
  rw [T3.readBlocks_ok m 0 1 (by omega) (by have := wf.mem; omega) (by omega)] at hw
  simp only [Nat.mul_zero, Nat.zero_add, Nat.mul_one, sliceN_zero_take, wf.dec, Py.bind_ok] at hw
  rw [if_neg (by have := wf.nbw; omega)] at hw
  exact hw

/-- whatever prefix of the write commands the tag executed, block 0 still holds valid attributes with the same
static values and the memory keeps its size: the layout stays well formed -/
theorem prefix_wf (m data : Bytes) (a : T3.Attr) (wf : T3.WF m a) (hlen : data.length ≤ 16 * a.nmaxb) (k : Nat)
    (hk : k ≤ (T3.planWrite a data).length) :
    ∃ a', T3.WF (T3.applyW m ((T3.planWrite a data).take k)) a' ∧ Same a a' := by
  have hpl := T3.planWrite_length a data
  have hr := wf.range
  generalize hD : T3.dataCmds (T3.padded data) a.nbw (1 + (data.length + 15) / 16) (1 + (data.length + 15) / 16) 1 = D at hpl
  have hplan : T3.planWrite a data = ⟨0, 1, T3.encodeAttr { a with writef := 0x0F }⟩ ::
      (D ++ [⟨0, 1, T3.encodeAttr { a with writef := 0, ln := data.length }⟩]) := by
    simp [T3.planWrite, hD]
  by_cases h0 : k = 0
  · subst h0
    exact ⟨a, by simpa [T3.applyW] using wf, rfl, rfl, rfl, rfl, rfl⟩
  by_cases hfull : k = (T3.planWrite a data).length
  · subst hfull
    rw [List.take_length, T3.runW_mem_applyW _ _ _ (runW_plan m data a wf hlen)]
    obtain ⟨_, _, hl, hd⟩ := T3.write_confined m data a wf hlen
    refine ⟨{ a with writef := 0, ln := data.length }, ⟨hd, ⟨hr.ver, hr.nbr, hr.nbw, hr.nmaxb, by simp, hr.rwflag,
      by simp only []; have := hr.nmaxb; omega⟩, wf.ver, wf.nbr, wf.nbw, wf.fits, wf.rw, by rw [hl]; exact wf.mem, hlen⟩,
      rfl, rfl, rfl, rfl, rfl⟩
  · have hk1 : 1 ≤ k ∧ k - 1 ≤ D.length := by omega
    have htake : (T3.planWrite a data).take k = ⟨0, 1, T3.encodeAttr { a with writef := 0x0F }⟩ :: D.take (k - 1) := by
      rw [hplan]
      obtain ⟨k', rfl⟩ : ∃ k', k = k' + 1 := ⟨k - 1, by omega⟩
      simp only [List.take_succ_cons, Nat.add_sub_cancel]
      rw [List.take_append_of_le_length (by omega)]
    rw [htake]
    simp only [T3.applyW, List.foldl_cons, Nat.mul_zero]
    have hmem := wf.mem
    have hl0 : (splice m 0 (T3.encodeAttr { a with writef := 0x0F })).length = m.length :=
      splice_length _ _ _ (by rw [T3.encodeAttr_length]; omega)
    have hpd : (T3.padded data).length = 16 * (1 + (data.length + 15) / 16 - 1) := by
      rw [T3.padded_length]; congr 1; omega
    have hpres := T3.applyW_pres (D.take (k - 1)) (splice m 0 (T3.encodeAttr { a with writef := 0x0F })) (by
      intro c hc
      have hc' := List.mem_of_mem_take hc
      rw [← hD] at hc'
      have := T3.dataCmds_mem (T3.padded data) a.nbw _ wf.nbw hpd _ 1 (by omega) c hc'
      rw [hl0]; omega)
    simp only [T3.applyW] at hpres
    have hdec : T3.decodeAttr ((List.foldl (fun m c => splice m (16 * c.blk) c.data)
        (splice m 0 (T3.encodeAttr { a with writef := 0x0F })) (D.take (k - 1))).take 16)
        = .ok (some { a with writef := 0x0F }) := by
      rw [hpres.1]
      have := T3.splice0_take m (T3.encodeAttr { a with writef := 0x0F }) (by rw [T3.encodeAttr_length]; omega)
      rw [T3.encodeAttr_length] at this
      rw [this]
      exact T3.decode_encode _ ⟨hr.ver, hr.nbr, hr.nbw, hr.nmaxb, by simp, hr.rwflag, hr.ln⟩
    exact ⟨{ a with writef := 0x0F }, ⟨hdec, ⟨hr.ver, hr.nbr, hr.nbw, hr.nmaxb, by simp, hr.rwflag, hr.ln⟩, wf.ver, wf.nbr,
      wf.nbw, wf.fits, wf.rw, by rw [hpres.2, hl0]; exact hmem, wf.ln⟩, rfl, rfl, rfl, rfl, rfl⟩

/-- the state of a Type 3 history: some well-formed attributes with the static values found at activation -/
def T3Inv (a : T3.Attr) (m : Bytes) : Prop := ∃ a', T3.WF m a' ∧ Same a a'

theorem t3Write_spec (m data : Bytes) (a : T3.Attr) (f : Option Fault) (wf : T3.WF m a) (hlen : data.length ≤ 16 * a.nmaxb) :
    T3Inv a (t3Write m data f).mem ∧
    ((t3Write m data f).res = .ok () → (t3Write m data f).mem = T3.finalMem m a data) ∧
    (f = none → (t3Write m data f).res = .ok ()) := by
  unfold t3Write
  rw [T3.readBlocks_ok m 0 1 (by omega) (by have := wf.mem; omega) (by omega)]
  simp only [Nat.mul_zero, Nat.zero_add, Nat.mul_one, sliceN_zero_take, wf.dec, Py.bind_ok]
  rw [if_neg (by have := wf.nbw; omega)]
  have hrun := runW_plan m data a wf hlen
  obtain ⟨j, hj, hm, hr, hn⟩ := runWF_prefix _ m _ f hrun
  refine ⟨?_, ?_, hn⟩
  · rw [hm]; exact prefix_wf m data a wf hlen j hj
  · intro hres
    rw [hm, hr hres, List.take_length, T3.runW_mem_applyW _ _ _ hrun]

theorem t3Attempt_inv (seen : Seen) (a : T3.Attr) (hcap : seen.capacity = (a.nmaxb * 16 : Nat)) (m data : Bytes)
    (f : Option Fault) (hi : T3Inv a m) : T3Inv a (t3Attempt seen m data f).mem := by
  unfold t3Attempt
  split
  · exact hi
  · split
    · exact hi
    · rename_i hc
      obtain ⟨a', wf', hs⟩ := hi
      obtain ⟨a'', wf'', hs''⟩ := (t3Write_spec m data a' f wf' (by rw [hs.2.2.2.1]; omega)).1
      exact ⟨a'', wf'', by unfold Same at *; omega⟩

theorem t3History_inv (seen : Seen) (a : T3.Attr) (hcap : seen.capacity = (a.nmaxb * 16 : Nat))
    (hs : List (Bytes × Option Fault)) : ∀ m, T3Inv a m → T3Inv a (t3History seen m hs).1 := by
  induction hs with
  | nil => intro m hi; exact hi
  | cons x rest ih =>
    intro m hi
    obtain ⟨d, f⟩ := x
    simp only [t3History]
    exact ih _ (t3Attempt_inv seen a hcap m d f hi)

/-- **Type 3: a completed assignment is read back, whatever failed before it** (faults of both kinds, any number of
failed attempts, any messages) -/
theorem t3_history_roundtrip (m : Bytes) (a : T3.Attr) (wf : T3.WF m a) (seen : Seen)
    (hseen : T3.see m = .ok (some seen)) (hs : List (Bytes × Option Fault)) (data : Bytes)
    (hlen : data.length ≤ 16 * a.nmaxb) :
    (t3Attempt seen (t3History seen m hs).1 data none).res = .ok () ∧
    T3.see (t3Attempt seen (t3History seen m hs).1 data none).mem = .ok (some ⟨(a.nmaxb * 16 : Nat), true, true, data⟩) := by
  have hs0 : seen.capacity = (a.nmaxb * 16 : Nat) ∧ seen.writeable = true := by
    unfold T3.see at hseen
    rw [T3.readNdef_old m a wf] at hseen
    simp only [Py.bind_ok, Option.map, Except.ok.injEq, Option.some.injEq] at hseen
    subst hseen; exact ⟨rfl, rfl⟩
  obtain ⟨a', wf', hsame⟩ := t3History_inv seen a hs0.1 hs m ⟨a, wf, rfl, rfl, rfl, rfl, rfl⟩
  have hlen' : data.length ≤ 16 * a'.nmaxb := by rw [hsame.2.2.2.1]; exact hlen
  obtain ⟨_, hfin, hok⟩ := t3Write_spec _ data a' none wf' hlen'
  unfold t3Attempt
  rw [if_neg (by simp [hs0.2]), if_neg (by rw [hs0.1]; omega)]
  refine ⟨hok rfl, ?_⟩
  rw [hfin (hok rfl), T3.see_final _ data a' wf' hlen', hsame.2.2.2.1]

/-! ## Type 4 -/

theorem runUF_none (c : T4.Card) (us : List T4.UCmd) : ∀ file, runUF c file us none = T4.runU c file us := by
  induction us with
  | nil => intro f; rfl
  | cons u us ih =>
    intro f
    simp only [runUF, T4.runU]
    cases T4.sendU c f u with
    | error e => rfl
    | ok f' => simp only [Option.map_none, ih f']

theorem sendU_length {c : T4.Card} {f f' : Bytes} {u : T4.UCmd} (h : T4.sendU c f u = .ok f') : f'.length = f.length := by
  have hs := T4.sendU_splice h
  unfold T4.sendU at h
  split at h
  · cases h
  split at h
  · cases h
  split at h
  · cases h
  split at h
  · cases h
  split at h
  · cases h
  rename_i hfit
  rw [hs]; exact splice_length _ _ _ (by omega)

/-- an UPDATE BINARY never changes the file size: any faulted run keeps it -/
theorem runUF_length (c : T4.Card) (us : List T4.UCmd) : ∀ (file : Bytes) (f : Option Fault),
    (runUF c file us f).file.length = file.length := by
  induction us with
  | nil => intro file f; rfl
  | cons u us ih =>
    intro file f
    simp only [runUF]
    cases hs : T4.sendU c file u with
    | error e => rfl
    | ok file' =>
      have hl := sendU_length hs
      rcases f with _ | ⟨k, late⟩
      · simp only [Option.map_none]; rw [ih, hl]
      · cases k with
        | zero => cases late <;> simp [hl]
        | succ k => simp only [Option.map_some]; rw [ih, hl]

theorem runU_card (c : T4.Card) (g : Bytes) (us : List T4.UCmd) : ∀ file,
    T4.runU { c with file := g } file us = T4.runU c file us := by
  induction us with
  | nil => intro f; rfl
  | cons u us ih =>
    intro f
    simp only [T4.runU]
    have : T4.sendU { c with file := g } f u = T4.sendU c f u := rfl
    rw [this]
    cases T4.sendU c f u with
    | error e => rfl
    | ok f' => simp only [ih f']

theorem t4Write_length (v : T4.Variant) (c : T4.Card) (i : T4.Info) (file data : Bytes) (f : Option Fault) :
    (t4Write v c i file data f).file.length = file.length := by
  unfold t4Write
  split
  · rfl
  · exact runUF_length _ _ _ _

theorem t4History_length (v : T4.Variant) (c : T4.Card) (nd : T4.Ndef) (hs : List (Bytes × Option Fault)) :
    ∀ file, (t4History v c nd file hs).1.length = file.length := by
  induction hs with
  | nil => intro f; rfl
  | cons x rest ih =>
    intro file
    obtain ⟨d, f⟩ := x
    simp only [t4History]
    rw [ih]
    unfold t4Attempt
    split
    · rfl
    · split
      · rfl
      · exact t4Write_length _ _ _ _ _ _

/-- the reader of a card whose NDEF file was replaced by a file of the same size holding `NLEN ++ data` -/
theorem see_final' (v : T4.Variant) (c : T4.Card) (i : T4.Info) (g data : Bytes) (wf : T4.WF v c i)
    (hg : g.length = c.file.length) (hlen : (data.length : Int) ≤ i.capacity) :
    T4.see v { c with file := T4.finalFile g i.nlenSize data } = .ok (some ⟨i.capacity, i.readable, true, data⟩) := by
  have hcap := wf.cap; have hsz := wf.lim.size; have hnl := wf.lim.nl
  have hl : i.nlenSize + data.length ≤ g.length := by omega
  have hfl := T4.finalFile_length g i.nlenSize data hl
  have hnlen : beNat ((T4.finalFile g i.nlenSize data).take i.nlenSize) = data.length := by
    rw [T4.finalFile_nlen _ _ _ hl]; exact T4.beNat_toBE _ _ hnl (by rcases hnl with h | h <;> omega)
  unfold T4.see
  rw [T4.readNdef_spec v { c with file := T4.finalFile g i.nlenSize data } i wf.disc wf.fid
    ⟨wf.lim.nl, wf.lim.le, wf.lim.lc, by simp only [hfl, hg]; exact hsz⟩ (by simp only [hnlen, hfl]; omega)
    (by simp only [hnlen]; omega)]
  simp only [Py.bind_ok, Option.map, hnlen, T4.finalFile_data _ _ _ hl, wf.rw]

/-- **Type 4: a completed assignment is read back, whatever failed before it** -/
theorem t4_history_roundtrip (v : T4.Variant) (c : T4.Card) (i : T4.Info) (wf : T4.WF v c i) (nd : T4.Ndef)
    (hnd : T4.readNdef v c = .ok (some nd)) (hs : List (Bytes × Option Fault)) (data : Bytes)
    (hlen : (data.length : Int) ≤ i.capacity) (hv : v.nlenLoop = true ∨ i.nlenSize ≤ i.maxLc) :
    (t4Attempt v c nd (t4History v c nd c.file hs).1 data none).res = .ok () ∧
    T4.see v { c with file := (t4Attempt v c nd (t4History v c nd c.file hs).1 data none).file }
      = .ok (some ⟨i.capacity, i.readable, true, data⟩) := by
  have hnd' : nd = ⟨i, ⟨i.capacity, i.readable, i.writeable,
      sliceN c.file i.nlenSize (i.nlenSize + beNat (c.file.take i.nlenSize))⟩⟩ := by
    rw [T4.readNdef_spec v c i wf.disc wf.fid wf.lim (by have := wf.old; omega) (by have := wf.old; omega)] at hnd
    cases hnd; rfl
  have hgl := t4History_length v c nd hs c.file
  generalize (t4History v c nd c.file hs).1 = g at hgl
  have hcap := wf.cap; have hsz := wf.lim.size
  have hw := T4.writeNdef_spec v { c with file := g } i data
    ⟨wf.lim.nl, wf.lim.le, wf.lim.lc, by simp only [hgl]; exact hsz⟩ (by simp only [hgl]; omega) (by omega) hv
  unfold T4.writeNdef at hw
  have hnl := wf.lim.nl
  rw [if_neg (by rcases hnl with h | h <;> rw [h] <;> omega)] at hw
  simp only at hw
  rw [runU_card] at hw
  subst hnd'
  unfold t4Attempt t4Write
  simp only
  rw [if_neg (by simp [wf.rw]), if_neg (by omega), if_neg (by rcases hnl with h | h <;> rw [h] <;> omega), runUF_none, hw]
  exact ⟨rfl, see_final' v c i g data wf hgl hlen⟩

end NfcVerif.Hist
