import NfcVerif.Lemmas.DlcSapInv
/-!
# accept, the link side, dispatch: every step of a controller keeps `CInv`
-/
namespace NfcVerif.DlcSap
open NfcVerif NfcVerif.Dlc

/-! ### accept -/

theorem insertFront_split (A : Nat) (d : Sock) (pre post : List Sap) (a : Sap) (ha : a.addr = A)
    (hpre : ∀ b ∈ pre, b.addr ≠ A) (hpost : ∀ b ∈ post, b.addr ≠ A) :
    insertFront A d (pre ++ a :: post) = pre ++ a.insert d :: post := by
  unfold insertFront
  rw [List.map_append, List.map_cons, if_pos ha]
  congr 1
  · rw [List.map_congr_left (g := id)]
    · simp
    · intro b hb; simp [hpre b hb]
  · congr 1
    rw [List.map_congr_left (g := id)]
    · simp
    · intro b hb; simp [hpost b hb]

/-- the new socket goes to the front of the listener's list -/
theorem SInv.accept {hi : Nat → Nat} {A : Nat} {t1 t2 : List Tag} {x : Tag} (h : SInv hi A (t1 ++ x :: t2))
    (hl : x.lst = true) (hal : x.alone = false) (p k : Nat) (rest : List (Nat × Nat)) (hcq : x.cq = (p, k) :: rest) :
    SInv hi A ({ acc := true, peer := some p, cid := k, lst := false, alone := false, cq := [], addr := some A } ::
      (t1 ++ { x with cq := rest } :: t2)) := by
  obtain ⟨e2, x1, x2, x3, x4, x5, x6, x7, x8⟩ := h.listener hl
  subst e2
  have hk := x7 (p, k) (by rw [hcq]; exact List.mem_cons_self ..)
  rw [hcq] at x4
  have hcq' := List.pairwise_cons.1 x4
  refine ⟨⟨_ :: t1, some { x with cq := rest }, rfl, ?_, ?_, ?_⟩, ?_⟩
  · intro y hy
    rcases List.mem_cons.1 hy with rfl | hy
    · exact ⟨rfl, rfl, rfl, rfl, p, rfl, hk.1⟩
    · exact x6 y hy
  · refine List.pairwise_cons.2 ⟨?_, x5⟩
    intro y hy hpe
    exact hk.2 y hy hpe.symm
  · intro y hy
    have : y = { x with cq := rest } := by simpa using hy.symm
    subst this
    refine ⟨x1, fun _ => x2, ?_, ?_, hcq'.2, ?_⟩
    · intro hc; rw [hl] at hc; cases hc
    · intro hc
      exfalso
      rcases hc with hc | hc
      · rw [hal] at hc; cases hc
      · exact hc x2
    · intro e he
      have he' : e ∈ x.cq := by rw [hcq]; exact List.mem_cons_of_mem _ he
      refine ⟨(x7 e he').1, ?_⟩
      intro y hy hpe
      rcases List.mem_cons.1 hy with rfl | hy
      · have hpe' : p = e.1 := by simpa using hpe
        have := hcq'.1 e he hpe'
        exact this
      · exact (x7 e he').2 y hy hpe
  · intro y hy
    rcases List.mem_cons.1 hy with rfl | hy
    · rfl
    · rcases List.mem_append.1 hy with hy | hy
      · exact h.addr y (List.mem_append_left _ hy)
      · rcases List.mem_cons.1 hy with rfl | hy
        · exact x3
        · cases hy


theorem skinv_addrs {hi : Nat → Nat} {pre post : List Sap} {a : Sap} (h : SkInv hi (skel (pre ++ a :: post))) :
    (∀ b ∈ pre, b.addr ≠ a.addr) ∧ (∀ b ∈ post, b.addr ≠ a.addr) := by
  have := h.2
  rw [skel_append, skel_cons, List.pairwise_append, List.pairwise_cons] at this
  obtain ⟨_, ⟨a2, _⟩, a3⟩ := this
  constructor
  · intro b hb
    exact a3 (b.addr, tags b.socks) (List.mem_map_of_mem hb) (a.addr, tags a.socks) (List.mem_cons_self ..)
  · intro b hb heq
    exact a2 (b.addr, tags b.socks) (List.mem_map_of_mem hb) heq.symm

theorem accept_inv (c : Ctl) (sid : Nat) (h : CInv c) : CInv (c.accept sid).1 ∧ (c.accept sid).1.seen = c.seen := by
  unfold Ctl.accept
  split
  · exact ⟨h, rfl⟩
  rename_i s hs
  split
  · exact ⟨h, rfl⟩
  split
  · exact ⟨h, rfl⟩
  rename_i _ hcs
  have hcs : s.cs = .listen := by simpa using hcs
  split
  · exact ⟨h, rfl⟩
  rename_i hlisted
  have hf : sapsFind sid c.saps = some s := by
    rcases sock?_cases c sid s hs with hf | ⟨hf, _⟩
    · exact hf
    · simp [Ctl.listed, hf] at hlisted
  split
  · exact ⟨h, rfl⟩
  rename_i w rest hcq
  split
  · rename_i miu rw sn hbody
    obtain ⟨pre, a, post, l1, l2, h1, h2, h3⟩ := sapsFind_split sid c.saps s hf
    have hc := h
    unfold CInv at hc
    rw [h1] at hc
    have hsa : SInv (hiOf c.seen) a.addr (tags l1 ++ s.tag :: tags l2) := by
      have := hc.1 (a.addr, tags a.socks) (by rw [skel_append, skel_cons]; exact List.mem_append_right _ (List.mem_cons_self ..))
      rw [h2, tags_append, tags_cons] at this
      exact this
    have hlst : s.tag.lst = true := by simp [Sock.tag, hcs]
    have hal : s.tag.alone = false := by simp [Sock.tag, hcs]
    have haddr : s.addr = some a.addr := (hsa.listener hlst).2.2.2.1
    obtain ⟨hpre, hpost⟩ := skinv_addrs hc
    dsimp only
    have hupd : ∀ f, (c.upd sid f).saps = pre ++ { a with socks := l1 ++ f s :: l2 } :: post := by
      intro f; unfold Ctl.upd; rw [hf]; exact h3 f
    have hsome : ∀ f, ((c.upd sid f).sap? (s.addr.getD 0)).isSome = true := by
      intro f
      unfold Ctl.sap?
      rw [List.find?_isSome]
      refine ⟨{ a with socks := l1 ++ f s :: l2 }, ?_, ?_⟩
      · rw [hupd]; exact List.mem_append_right _ (List.mem_cons_self ..)
      · simp [haddr]
    rw [if_pos (hsome _)]
    refine ⟨?_, upd_seen ..⟩
    show SkInv (hiOf (c.upd sid _).seen) (skel (insertFront (s.addr.getD 0) _ (c.upd sid _).saps))
    rw [upd_seen, hupd, insertFront_split (s.addr.getD 0) _ pre post _ (by simp [haddr])
      (by intro b hb; simpa [haddr] using hpre b hb) (by intro b hb; simpa [haddr] using hpost b hb)]
    rw [skel_append, skel_cons] at hc ⊢
    refine hc.replace ?_
    have := hsa.accept hlst hal w.ssap w.cid (rest.map fun w => (w.ssap, w.cid)) (by simp [Sock.tag, hcq])
    simpa [Sap.insert, tags, Sock.tag, hcs, haddr, hcq, show (CSt.run == CSt.listen) = false from by decide,
      show (CSt.run == CSt.closed) = false from by decide, show (CSt.run == CSt.connect) = false from by decide] using this
  · exact ⟨h, rfl⟩


/-! ### the link side leaves tags and the log of inbound PDUs alone -/

def Same (c c' : Ctl) : Prop := skel c'.saps = skel c.saps ∧ c'.seen = c.seen

theorem Same.rfl' (c : Ctl) : Same c c := ⟨rfl, rfl⟩
theorem Same.trans {a b c : Ctl} (h1 : Same a b) (h2 : Same b c) : Same a c := ⟨h2.1.trans h1.1, h2.2.trans h1.2⟩
theorem CInv.same {c c' : Ctl} (h : CInv c) (hs : Same c c') : CInv c' := h.of_eq hs.1 hs.2

theorem sdeq_same (c : Ctl) (addr : Nat) (b : Int) : Same c (c.sdeq addr b).1 := by
  unfold Ctl.sdeq
  split
  · split
    · exact Same.rfl' c
    · split <;> exact ⟨rfl, rfl⟩
  · split
    · exact Same.rfl' c
    · exact ⟨updSap_skel _ _ (fun a => dequeue_sap a b) _, rfl⟩

theorem sack_same (c : Ctl) (addr : Nat) : Same c (c.sack addr).1 := by
  unfold Ctl.sack
  split
  · exact Same.rfl' c
  · exact ⟨updSap_skel _ _ (fun a => sendack_sap a) _, rfl⟩

theorem firstDeq_same (b : Int) (l : List Nat) (c : Ctl) : Same c (firstDeq b l c).1 := by
  induction l generalizing c with
  | nil => exact Same.rfl' c
  | cons a r ih =>
    simp only [firstDeq]
    split
    · exact sdeq_same c a b
    · exact (sdeq_same c a b).trans (ih _)

theorem firstAck_same (l : List Nat) (c : Ctl) : Same c (firstAck l c).1 := by
  induction l generalizing c with
  | nil => exact Same.rfl' c
  | cons a r ih =>
    simp only [firstAck]
    split
    · exact sack_same c a
    · exact (sack_same c a).trans (ih _)

theorem aggPass_same (link : Nat) (l : List Nat) (g : Agg) : Same g.c (aggPass link l g).c := by
  induction l generalizing g with
  | nil => exact Same.rfl' _
  | cons a r ih =>
    simp only [aggPass]
    split
    · exact (sdeq_same g.c a g.budget).trans (ih _)
    · split
      · exact sdeq_same g.c a g.budget
      · exact (sdeq_same g.c a g.budget).trans (ih _)

theorem aggLoopW_same (link : Nat) (l : List Nat) (fuel : Nat) (g : Agg) : Same g.c (aggLoopW link l fuel g).c := by
  induction fuel generalizing g with
  | zero => exact Same.rfl' _
  | succ n ih =>
    simp only [aggLoopW]
    split
    · exact Same.rfl' _
    · split
      · exact aggPass_same link l { g with deqNone := true }
      · exact (aggPass_same link l { g with deqNone := true }).trans (ih _)

theorem ackPass_same (link : Nat) (l : List Nat) (g : Agg) : Same g.c (ackPass link l g).c := by
  induction l generalizing g with
  | nil => exact Same.rfl' _
  | cons a r ih =>
    simp only [ackPass]
    split
    · exact (sack_same g.c a).trans (ih _)
    · split
      · exact sack_same g.c a
      · exact (sack_same g.c a).trans (ih _)

theorem collectFirst_same (c : Ctl) : Same c c.collectFirst.1 := by
  unfold Ctl.collectFirst
  dsimp only
  split
  · exact firstDeq_same _ _ c
  · exact (firstDeq_same _ _ c).trans (firstAck_same _ _)

theorem collectAgg_same (c : Ctl) (link : Nat) (addrs : List Nat) (w : WPdu) (fuel : Nat) :
    Same c (collectAgg c link addrs w fuel).1 := by
  unfold collectAgg
  dsimp only
  split
  · exact (aggLoopW_same link (1 :: addrs) fuel _).trans (ackPass_same _ _ _)
  · exact aggLoopW_same link (1 :: addrs) fuel _

theorem collect_same (c : Ctl) (fuel : Nat) : Same c (c.collect fuel).1 := by
  unfold Ctl.collect
  dsimp only
  split
  · exact collectFirst_same c
  · split
    · exact collectFirst_same c
    · split
      · exact collectFirst_same c
      · exact (collectFirst_same c).trans (collectAgg_same _ _ _ _ _)


/-! ### dispatch -/

theorem updFirst_split (p : Sock → Bool) (f : Sock → Sock) (l l' : List Sock) (h : updFirst p f l = some l') :
    ∃ l1 s l2, l = l1 ++ s :: l2 ∧ p s = true ∧ l' = l1 ++ f s :: l2 := by
  induction l generalizing l' with
  | nil => simp [updFirst] at h
  | cons y r ih =>
    simp only [updFirst] at h
    split at h
    · rename_i hy
      cases h
      exact ⟨[], y, r, rfl, hy, rfl⟩
    · cases hr : updFirst p f r with
      | none => rw [hr] at h; simp at h
      | some r' =>
        rw [hr] at h
        simp only [Option.map_some, Option.some.injEq] at h
        obtain ⟨l1, s, l2, h1, h2, h3⟩ := ih r' hr
        exact ⟨y :: l1, s, l2, by rw [h1]; rfl, h2, by rw [← h, h3]; rfl⟩

/-- a CONNECT with a connection number above everything seen so far joins the backlog of the listener -/
theorem SInv.cqPush {hi hi' : Nat → Nat} {A : Nat} {t1 t2 : List Tag} {x : Tag} (h : SInv hi A (t1 ++ x :: t2))
    (hl : x.lst = true) (hle : ∀ q, hi q ≤ hi' q) (p k : Nat) (hlt : hi p < k) (hk : k ≤ hi' p) :
    SInv hi' A (t1 ++ { x with cq := x.cq ++ [(p, k)] } :: t2) := by
  obtain ⟨e2, x1, x2, x3, x4, x5, x6, x7, x8⟩ := h.listener hl
  subst e2
  refine ⟨⟨t1, some { x with cq := x.cq ++ [(p, k)] }, rfl, ?_, x5, ?_⟩, ?_⟩
  · intro y hy
    obtain ⟨a1, a2, a3, a4, q, a5, a6⟩ := x6 y hy
    exact ⟨a1, a2, a3, a4, q, a5, Nat.le_trans a6 (hle q)⟩
  · intro y hy
    have : y = { x with cq := x.cq ++ [(p, k)] } := by simpa using hy.symm
    subst this
    refine ⟨x1, fun _ => x2, ?_, ?_, ?_, ?_⟩
    · intro hc; rw [hl] at hc; cases hc
    · intro hc
      rcases hc with hc | hc
      · exact x8 hc
      · exact absurd x2 hc
    · show CqOrd (x.cq ++ [(p, k)])
      unfold CqOrd
      rw [List.pairwise_append]
      refine ⟨x4, List.pairwise_singleton _ _, ?_⟩
      intro e he e' he' hpe
      have : e' = (p, k) := by simpa using he'
      subst this
      have := (x7 e he).1
      rw [hpe] at this
      exact Nat.lt_of_le_of_lt this hlt
    · intro e he
      rcases List.mem_append.1 he with he | he
      · exact ⟨Nat.le_trans (x7 e he).1 (hle e.1), (x7 e he).2⟩
      · have : e = (p, k) := by simpa using he
        subst this
        refine ⟨hk, ?_⟩
        intro y hy hpe
        obtain ⟨_, _, _, _, q, a5, a6⟩ := x6 y hy
        rw [a5] at hpe
        have hq : q = p := by simpa using hpe
        subst hq
        exact Nat.lt_of_le_of_lt a6 hlt
  · intro y hy
    rcases List.mem_append.1 hy with hy | hy
    · exact h.addr y (List.mem_append_left _ hy)
    · rcases List.mem_cons.1 hy with rfl | hy
      · exact x3
      · cases hy

theorem enqueue_conn_sinv {hi hi' : Nat → Nat} (a : Sap) (w : WPdu) (h : SInv hi a.addr (tags a.socks))
    (hc : w.isConn = true) (hle : ∀ q, hi q ≤ hi' q) (hlt : hi w.ssap < w.cid) (hk : w.cid ≤ hi' w.ssap) :
    (a.enqueue w).addr = a.addr ∧ SInv hi' a.addr (tags (a.enqueue w).socks) := by
  unfold Sap.enqueue
  rw [if_pos hc]
  split
  · rename_i l' hl'
    refine ⟨rfl, ?_⟩
    obtain ⟨l1, s, l2, h1, h2, h3⟩ := updFirst_split _ _ _ _ hl'
    have hcs : s.cs = .listen := by simpa [isListen] using h2
    rw [h1, tags_append, tags_cons] at h
    show SInv hi' a.addr (tags l')
    rw [h3, tags_append, tags_cons]
    have he : s.enqueue w = if s.cq.length < s.buf then { s with cq := s.cq ++ [w] }
        else { s with lq := s.lq ++ [dmReply w 0x20] } := by
      unfold Sock.enqueue; simp [hcs, hc]
    rw [he]
    split
    · have := h.cqPush (by simp [Sock.tag, hcs]) hle w.ssap w.cid hlt hk
      simpa [Sock.tag, hcs] using this
    · have : ({ s with lq := s.lq ++ [dmReply w 32] } : Sock).tag = s.tag := by simp [Sock.tag]
      rw [this]
      exact h.mono hle
  · exact ⟨rfl, h.mono hle⟩

theorem skel_updSap_mem (addr : Nat) (f : Sap → Sap) (hf : ∀ a, (f a).addr = a.addr) (saps : List Sap)
    (e : Nat × List Tag) (he : e ∈ skel (updSap addr f saps)) : ∃ b ∈ saps, e.1 = b.addr := by
  obtain ⟨a', ha', rfl⟩ := List.mem_map.1 he
  obtain ⟨b, hb, rfl⟩ := List.mem_map.1 ha'
  refine ⟨b, hb, ?_⟩
  dsimp only
  split
  · exact hf b
  · rfl

theorem SkInv.mapSap {hi hi' : Nat → Nat} (addr : Nat) (f : Sap → Sap) (saps : List Sap) (h : SkInv hi (skel saps))
    (hle : ∀ q, hi q ≤ hi' q)
    (hf : ∀ a, SInv hi a.addr (tags a.socks) → (f a).addr = a.addr ∧ SInv hi' a.addr (tags (f a).socks))
    (hfa : ∀ a, (f a).addr = a.addr) :
    SkInv hi' (skel (updSap addr f saps)) := by
  induction saps with
  | nil => exact ⟨fun e he => (by cases he), List.Pairwise.nil⟩
  | cons a r ih =>
    rw [skel_cons] at h
    have hr : SkInv hi (skel r) := ⟨fun e he => h.1 e (List.mem_cons_of_mem _ he), (List.pairwise_cons.1 h.2).2⟩
    have ih := ih hr
    have ha := h.1 _ (List.mem_cons_self ..)
    have hrest : ∀ e ∈ skel (updSap addr f r), a.addr ≠ e.1 := by
      intro e he
      obtain ⟨b, hb, h1⟩ := skel_updSap_mem addr f hfa r e he
      have := (List.pairwise_cons.1 h.2).1 (b.addr, tags b.socks) (List.mem_map_of_mem hb)
      simpa [h1] using this
    show SkInv hi' (skel ((if a.addr = addr then f a else a) :: updSap addr f r))
    rw [skel_cons]
    split
    · obtain ⟨f1, f2⟩ := hf a ha
      refine ⟨?_, ?_⟩
      · intro e he
        rcases List.mem_cons.1 he with rfl | he
        · rw [f1]; exact f2
        · exact ih.1 e he
      · exact List.pairwise_cons.2 ⟨fun e he => by rw [f1]; exact hrest e he, ih.2⟩
    · refine ⟨?_, ?_⟩
      · intro e he
        rcases List.mem_cons.1 he with rfl | he
        · exact ha.mono hle
        · exact ih.1 e he
      · exact List.pairwise_cons.2 ⟨hrest, ih.2⟩

theorem dispatch_seen (c : Ctl) (w : WPdu) : (c.dispatch w).seen = c.seen ++ [w] := by
  unfold Ctl.dispatch
  dsimp only
  split
  · rfl
  · split <;> rfl

theorem dispatch_inv (c : Ctl) (w : WPdu) (h : CInv c) (hok : StepOk c.seen w) : CInv (c.dispatch w) := by
  have hle : ∀ q, hiOf c.seen q ≤ hiOf (c.seen ++ [w]) q := fun q => hiOf_le_append c.seen w q
  have hm : SkInv (hiOf (c.seen ++ [w])) (skel c.saps) := SkInv.mono h hle
  unfold Ctl.dispatch
  dsimp only
  split
  · exact hm
  · rename_i w' hr
    split
    · exact hm
    · show SkInv (hiOf (c.seen ++ [w])) (skel (updSap w'.dsap (fun a => a.enqueue w') c.saps))
      have hw' : w'.isConn = w.isConn ∧ w'.ssap = w.ssap ∧ w'.cid = w.cid := by
        revert hr
        cases hb : w.body with
        | conn miu rw sn =>
          dsimp only
          split
          · cases sn with
            | none => intro hr; cases hr
            | some n =>
              dsimp only
              split
              · intro hr; cases hr
              · split
                · intro hr; cases hr; simp [WPdu.isConn, hb]
                · intro hr; cases hr
          · intro hr; cases hr; exact ⟨rfl, rfl, rfl⟩
        | cc miu rw => intro hr; cases hr; exact ⟨rfl, rfl, rfl⟩
        | dlc p => intro hr; cases hr; exact ⟨rfl, rfl, rfl⟩
      cases hc : w'.isConn with
      | false =>
        have := updSap_skel w'.dsap (fun a => a.enqueue w') (fun a => enqueue_sap a w' hc) c.saps
        rw [this]; exact hm
      | true =>
        have hcw : w.isConn = true := by rw [← hw'.1]; exact hc
        have hlt : hiOf c.seen w'.ssap < w'.cid := by rw [hw'.2.1, hw'.2.2]; exact hok.1 hcw
        have hk : w'.cid ≤ hiOf (c.seen ++ [w]) w'.ssap := by
          rw [hiOf_append, hw'.2.1, hw'.2.2, if_pos ⟨hcw, rfl⟩]
          exact Nat.le_max_left _ _
        exact SkInv.mapSap _ _ _ h hle (fun a ha => enqueue_conn_sinv a w' ha hc hle hlt hk)
          (fun a => by unfold Sap.enqueue; split <;> split <;> rfl)


/-! ### steps and histories of one controller -/

theorem dispatchAll_seen (c : Ctl) (frame : List WPdu) : (c.dispatchAll frame).seen = c.seen ++ frame := by
  induction frame generalizing c with
  | nil => simp [Ctl.dispatchAll]
  | cons w r ih => simp only [Ctl.dispatchAll]; rw [ih, dispatch_seen]; simp

theorem dispatchAll_inv (c : Ctl) (frame : List WPdu) (h : CInv c) (hd : Disc (c.seen ++ frame)) :
    CInv (c.dispatchAll frame) := by
  induction frame generalizing c with
  | nil => exact h
  | cons w r ih =>
    simp only [Ctl.dispatchAll]
    apply ih _ (dispatch_inv c w h hd.last)
    rw [dispatch_seen]
    simpa using hd

theorem unlist_seen (c : Ctl) (sid : Nat) : (c.unlist sid).seen = c.seen := by
  unfold Ctl.unlist; split <;> rfl

theorem epOp_seen (c : Ctl) (sid : Nat) (f : Ep → Ep × Res) (other : Sock → NRes) : (c.epOp sid f other).1.seen = c.seen := by
  unfold Ctl.epOp
  split
  · rfl
  · split
    · exact upd_seen ..
    all_goals rfl

/-- only `dispatch` extends the log of inbound PDUs -/
theorem step_seen_eq (c : Ctl) (o : COp) (h : isDlv o = false) : (c.step o).1.seen = c.seen := by
  cases o with
  | dlv f => simp [isDlv] at h
  | sock rw miu to =>
    simp only [Ctl.step, Ctl.newSock]
    cases to <;> dsimp only <;> (repeat' split) <;> rfl
  | listen sid b =>
    simp only [Ctl.step, Ctl.listen]
    (repeat' split) <;> first | rfl | exact upd_seen ..
  | connect sid to =>
    simp only [Ctl.step, Ctl.connect]
    (repeat' split) <;> first | rfl | exact upd_seen ..
  | connFin sid =>
    simp only [Ctl.step, Ctl.connFin]
    (repeat' split) <;> first | rfl | exact upd_seen ..
  | accept sid =>
    simp only [Ctl.step, Ctl.accept]
    (repeat' split) <;> first | rfl | exact upd_seen ..
  | send sid m => exact epOp_seen ..
  | recv sid =>
    simp only [Ctl.step, Ctl.recv]
    (repeat' split) <;> first | rfl | exact epOp_seen ..
  | busy sid b =>
    simp only [Ctl.step, Ctl.setBusy]
    (repeat' split) <;> first | rfl | exact upd_seen ..
  | poll sid k =>
    simp only [Ctl.step, Ctl.poll]
    (repeat' split) <;> first | rfl | exact epOp_seen ..
  | close sid =>
    simp only [Ctl.step, Ctl.close]
    (repeat' split) <;> first | rfl | exact upd_seen .. | (rw [unlist_seen]; exact upd_seen ..) | (rw [upd_seen]; exact unlist_seen ..)
  | closeFin sid =>
    simp only [Ctl.step, Ctl.closeFin]
    (repeat' split) <;> first | rfl | (rw [unlist_seen]; exact upd_seen ..)
  | sdeq addr b => exact (sdeq_same c addr b).2
  | sack addr => exact (sack_same c addr).2
  | collect => exact (collect_same c 600).2

theorem step_seen (c : Ctl) (o : COp) : ∃ ext, (c.step o).1.seen = c.seen ++ ext := by
  cases hd : isDlv o with
  | false => exact ⟨[], by rw [step_seen_eq c o hd]; simp⟩
  | true =>
    cases o with
    | dlv f => exact ⟨f, dispatchAll_seen c f⟩
    | _ => simp [isDlv] at hd

theorem step_inv (c : Ctl) (o : COp) (h : CInv c) (hd : Disc (c.step o).1.seen) : CInv (c.step o).1 := by
  cases o with
  | dlv f =>
    have : (c.step (.dlv f)).1.seen = c.seen ++ f := dispatchAll_seen c f
    rw [this] at hd
    exact dispatchAll_inv c f h hd
  | sock rw miu to => exact (newSock_inv c rw miu to h).1
  | listen sid b => exact (listen_inv c sid b h).1
  | connect sid to => exact (connect_inv c sid to h).1
  | connFin sid => exact (connFin_inv c sid h).1
  | accept sid => exact (accept_inv c sid h).1
  | send sid m => exact (epOp_inv c sid _ _ h).1
  | recv sid => exact (recv_inv c sid h).1
  | busy sid b => exact (setBusy_inv c sid b h).1
  | poll sid k => exact (poll_inv c sid k h).1
  | close sid => exact (close_inv c sid h).1
  | closeFin sid => exact (closeFin_inv c sid h).1
  | sdeq addr b => exact CInv.same (c' := (c.step (.sdeq addr b)).1) h ⟨(sdeq_same c addr b).1, (sdeq_same c addr b).2⟩
  | sack addr => exact CInv.same (c' := (c.step (.sack addr)).1) h ⟨(sack_same c addr).1, (sack_same c addr).2⟩
  | collect => exact CInv.same (c' := (c.step .collect).1) h (collect_same c 600)

theorem run_cons (c : Ctl) (o : COp) (ops : List COp) : c.run (o :: ops) = (c.step o).1.run ops := rfl

theorem run_seen (c : Ctl) (ops : List COp) : ∃ ext, (c.run ops).seen = c.seen ++ ext := by
  induction ops generalizing c with
  | nil => exact ⟨[], by simp [Ctl.run]⟩
  | cons o r ih =>
    obtain ⟨e1, h1⟩ := step_seen c o
    obtain ⟨e2, h2⟩ := ih (c.step o).1
    exact ⟨e1 ++ e2, by rw [run_cons, h2, h1]; simp⟩

/-- every history of a controller whose inbound stream is disciplined keeps the invariant -/
theorem run_inv (c : Ctl) (ops : List COp) (h : CInv c) (hd : Disc (c.run ops).seen) : CInv (c.run ops) := by
  induction ops generalizing c with
  | nil => exact h
  | cons o r ih =>
    rw [run_cons] at hd ⊢
    obtain ⟨e2, h2⟩ := run_seen (c.step o).1 r
    apply ih _ (step_inv c o h (by rw [h2] at hd; exact hd.prefix)) hd

theorem init_inv (link : Nat) (agf : Bool) : CInv (Ctl.init link agf) :=
  ⟨fun e he => (by cases he), List.Pairwise.nil⟩


/-- `dispatch` of an I / RR / RNR / DISC / DM / FRMR PDU applies `ServiceAccessPoint.enqueue` at the destination -/
theorem dispatch_dlc (c : Ctl) (w : WPdu) (p : Pdu) (hb : w.body = .dlc p) (hs : (c.sap? w.dsap).isSome = true) :
    (c.dispatch w).saps = updSap w.dsap (fun a => a.enqueue w) c.saps := by
  have h1 : ∀ l : List WPdu, ({ c with seen := l } : Ctl).sap? w.dsap = c.sap? w.dsap := fun _ => rfl
  unfold Ctl.dispatch
  simp only [hb, h1]
  cases h : c.sap? w.dsap with
  | none => rw [h] at hs; cases hs
  | some a => rfl

end NfcVerif.DlcSap
