import NfcVerif.Gen.FnVendor
import NfcVerif.Model.FnVendorRef
import NfcVerif.Model.AuthHist
import NfcVerif.Model.CtlC03
import NfcVerif.Lemmas.FnBridgeTagCmdPrelude
/-!
Helper lemmas for `Props/FnBridgeVendor.lean`: slices of keys, the permission masks of the FeliCa Lite
memory configuration block, the `for .. break` loop of `FelicaLite._format`.
-/
set_option linter.unusedSimpArgs false
namespace NfcVerif.FnBridge.Vendor
open NfcVerif NfcVerif.PyFn NfcVerif.FnBridge.TagCmd NfcVerif.VendorRef

theorem slice0 {α} (l : List α) (n : Nat) : slice l 0 (n : Int) = l.take n := by
  have := slice_nat l 0 n
  simpa [sliceN] using this

/-- `2**14 - 2**pf` for `pf ≤ 14` -/
theorem mask_sub (pf : Nat) (h : pf ≤ 14) :
    pow 2 14 - pow 2 (pf : Int) = ((2 ^ 14 - 2 ^ pf : Nat) : Int) := by
  have h1 : pow 2 14 = ((2 ^ 14 : Nat) : Int) := pow_ofNat 2 14
  have h2 : pow 2 (pf : Int) = ((2 ^ pf : Nat) : Int) := pow_ofNat 2 pf
  have h3 : 2 ^ pf ≤ 2 ^ 14 := Nat.pow_le_pow_right (by omega) h
  rw [h1, h2]; omega

theorem mask_sub_neg (pf : Nat) (h : 14 < pf) : pow 2 14 - pow 2 (pf : Int) < 0 := by
  have h1 : pow 2 14 = ((2 ^ 14 : Nat) : Int) := pow_ofNat 2 14
  have h2 : pow 2 (pf : Int) = ((2 ^ pf : Nat) : Int) := pow_ofNat 2 pf
  have h3 : 2 ^ 15 ≤ 2 ^ pf := Nat.pow_le_pow_right (by omega) h
  rw [h1, h2]; omega

/-- `0x7FFF ^ x` for a negative `x` is negative -/
theorem bxor_neg (m : Nat) (x : Int) (h : x < 0) : bxor (m : Int) x < 0 := by
  obtain ⟨k, rfl⟩ := Int.eq_negSucc_of_lt_zero h
  show Int.negSucc (m ^^^ k) < 0
  exact Int.negSucc_lt_zero _

/-- the loop of `FelicaLite._format` over the candidates `l` -/
theorem forC_firstClear (rw : Nat) : ∀ (l : List Nat) (last : Nat),
    forC (ρ := Empty) (l.map fun (n : Nat) => (n : Int)) (last : Int) (fun (_ : Int) (n : Int) =>
      Except.ok (if band (shr (rw : Int) (n + 1)) 1 = 0 then Ctl.brk n else Ctl.next n))
      = .ok (.inl ((firstClear rw l last : Nat) : Int))
  | [], last => rfl
  | n :: ns, last => by
    simp only [List.map_cons, forC, firstClear]
    have e : band (shr (rw : Int) ((n : Int) + 1)) 1 = (((rw >>> (n + 1)) % 2 : Nat) : Int) := by
      rw [show ((n : Int) + 1) = ((n + 1 : Nat) : Int) from by omega, shr_ofNat, show (1 : Int) = ((1 : Nat) : Int) from rfl,
        band_ofNat, and1]
    rw [e]
    by_cases h : (rw >>> (n + 1)) % 2 = 0
    · simp [h]
    · have : ¬ (((rw >>> (n + 1)) % 2 : Nat) : Int) = 0 := by omega
      simp only [h, this, if_false]
      exact forC_firstClear rw ns n

theorem range14 : PyFn.range 0 14 = (List.range 14).map fun (n : Nat) => (n : Int) := by decide

/-- wipe data of `Topaz._format` (`Tlv.formatTopaz`: `List.replicate 90 (w % 256)`) -/
theorem topaz_wipe_gen (n : Nat) (w : Nat) :
    (PyFn.mkBytes [PyFn.band (w : Int) 255] >>= fun t1 => Except.ok (PyFn.repeatL t1 (n : Int)))
      = .ok (List.replicate n (w % 256)) := by
  rw [show (255 : Int) = ((255 : Nat) : Int) from rfl, band_ofNat, and255]
  have := mkBytes_cast [w % 256] (by intro x hx; simp at hx; omega)
  simp only [List.map_cons, List.map_nil] at this
  rw [this]
  simp only [Py.bind_ok, repeatL, Int.toNat_natCast]
  congr 1
  induction n with
  | zero => rfl
  | succ k ih => simp [List.replicate_succ, ih]


/-- the tag's `writeAt` as list surgery -/
theorem writeAt_splice : ∀ (v m : Bytes) (a : Nat), a + v.length ≤ m.length →
    Tlv.writeAt m a v = m.take a ++ v ++ m.drop (a + v.length)
  | [], m, a, _ => by simp [Tlv.writeAt]
  | d :: ds, m, a, h => by
    simp only [List.length_cons] at h
    simp only [Tlv.writeAt]
    rw [writeAt_splice ds (m.set a d) (a + 1) (by simp; omega)]
    have e1 : (m.set a d).take (a + 1) = m.take a ++ [d] := by
      rw [List.take_add_one, List.take_set_of_le (Nat.le_refl a)]
      simp [List.getElem?_set_self (by omega : a < m.length)]
    have e2 : (m.set a d).drop (a + 1 + ds.length) = m.drop (a + (ds.length + 1)) := by
      rw [List.drop_set_of_lt (by omega)]; congr 1; omega
    rw [e1, e2]
    simp

/-- model `setSlice` inside the image, as list surgery -/
theorem tlv_setSlice_ok (c : Tlv.Cfg) (m : Bytes) (a : Nat) (v : Bytes) (h : a + v.length ≤ m.length) :
    Tlv.setSlice c m a v = .ok (m.take a ++ v ++ m.drop (a + v.length)) := by
  unfold Tlv.setSlice
  rw [if_pos h, writeAt_splice v m a h]

/-- `bytearray([wipe & 0xFF]) * n` spliced into the image -/
theorem wipe_splice (m1 : Bytes) (a b n w : Nat) (hn : b = a + n) (hb : b ≤ m1.length) :
    (PyFn.mkBytes [PyFn.band (w : Int) 255] >>= fun t1 =>
      (Except.ok (PyFn.setSlice m1 (a : Int) (b : Int) (PyFn.repeatL t1 (n : Int))) : Py Bytes))
      = .ok (m1.take a ++ List.replicate n (w % 256) ++ m1.drop b) := by
  have hg := topaz_wipe_gen n w
  have : (PyFn.mkBytes [PyFn.band (w : Int) 255] >>= fun t1 =>
        (Except.ok (PyFn.setSlice m1 (a : Int) (b : Int) (PyFn.repeatL t1 (n : Int))) : Py Bytes))
      = (PyFn.mkBytes [PyFn.band (w : Int) 255] >>= fun t1 => Except.ok (PyFn.repeatL t1 (n : Int))) >>= fun d =>
          Except.ok (PyFn.setSlice m1 (a : Int) (b : Int) d) := by
    cases PyFn.mkBytes [PyFn.band (w : Int) 255] <;> rfl
  rw [this, hg]
  simp only [Py.bind_ok]
  rw [setSlice_nat m1 a b _ (by omega) hb]

end NfcVerif.FnBridge.Vendor
