import NfcVerif.Lemmas.T4
/-! Type 4 Tag: READ BINARY loop, specification of `writeNdef`, the file after a write. -/
namespace NfcVerif.T4
open NfcVerif.T34

/-- the reader's limits `i` are usable against card `c` with NDEF file `f` -/
structure Lim (c : Card) (i : Info) (flen : Nat) : Prop where
  nl : i.nlenSize = 2 ∨ i.nlenSize = 4
  le : i.nlenSize ≤ i.maxLe ∧ i.maxLe ≤ 256 ∧ i.maxLe ≤ c.mle
  lc : 1 ≤ i.maxLc ∧ i.maxLc ≤ 255 ∧ i.maxLc ≤ c.mlc
  size : i.nlenSize ≤ flen

theorem readBinary_ok (c : Card) (f : Bytes) (maxLe off size : Nat) (hle : 1 ≤ maxLe ∧ maxLe ≤ 256 ∧ maxLe ≤ c.mle)
    (hs : 1 ≤ size) (hoff : off + size ≤ f.length) (h65 : off + size ≤ 65536) :
    readBinary c f maxLe off (size : Int) = .ok (sliceN f off (off + min maxLe size)) := by
  unfold readBinary
  rw [if_neg (by omega)]
  have hmd : min (maxLe : Int) (size : Int) = ((min maxLe size : Nat) : Int) := by omega
  simp only [hmd]
  rw [if_neg (by omega), if_neg (by omega)]
  unfold cardRead
  rw [if_neg (by simp only [Int.toNat_natCast]; omega), if_neg (by omega)]
  simp

theorem readLoop_spec (c : Card) (i : Info) (nlen : Nat) (hle : 1 ≤ i.maxLe ∧ i.maxLe ≤ 256 ∧ i.maxLe ≤ c.mle)
    (hf : i.nlenSize + nlen ≤ c.file.length) (h65 : i.nlenSize + nlen ≤ 65536) :
    ∀ fuel acc, 0 < fuel → nlen < fuel + acc.length → acc.length ≤ nlen →
      readLoop c i nlen fuel acc = .ok (acc ++ sliceN c.file (i.nlenSize + acc.length) (i.nlenSize + nlen)) := by
  intro fuel
  induction fuel with
  | zero => intro acc h; omega
  | succ fuel ih =>
    intro acc _ hfu hacc
    unfold readLoop
    split
    · rw [sliceN_empty _ _ _ (by omega)]; simp
    · rename_i hlt
      have hlt : acc.length < nlen := by omega
      have hcast : ((nlen : Int) - (acc.length : Int)) = ((nlen - acc.length : Nat) : Int) := by omega
      rw [hcast, readBinary_ok c c.file i.maxLe _ (nlen - acc.length) hle (by omega) (by omega) (by omega)]
      simp only [Py.bind_ok]
      have hdl : (sliceN c.file (i.nlenSize + acc.length) (i.nlenSize + acc.length + min i.maxLe (nlen - acc.length))).length
          = min i.maxLe (nlen - acc.length) := by
        rw [sliceN_length _ _ _ (by omega)]; omega
      rw [if_neg (by rw [hdl]; omega)]
      rw [ih _ (by omega) (by rw [List.length_append, hdl]; omega) (by rw [List.length_append, hdl]; omega)]
      rw [List.append_assoc, List.length_append, hdl]
      congr 2
      rw [show i.nlenSize + (acc.length + min i.maxLe (nlen - acc.length))
            = i.nlenSize + acc.length + min i.maxLe (nlen - acc.length) by omega]
      exact sliceN_append _ _ _ _ (by omega) (by omega)

/-- reading the NDEF file once the capability container has been understood -/
theorem readNdef_spec (v : Variant) (c : Card) (i : Info) (hd : discover v c = .ok (some i)) (hfid : i.fid = c.fid)
    (lim : Lim c i c.file.length) (hn : i.nlenSize + beNat (c.file.take i.nlenSize) ≤ c.file.length)
    (hn65 : i.nlenSize + beNat (c.file.take i.nlenSize) ≤ 65536) :
    readNdef v c = .ok (some ⟨i, ⟨i.capacity, i.readable, i.writeable,
      sliceN c.file i.nlenSize (i.nlenSize + beNat (c.file.take i.nlenSize))⟩⟩) := by
  have hnl := lim.nl; have hle := lim.le; have hsz := lim.size
  unfold readNdef
  simp only [hd, Py.bind_ok]
  rw [if_neg (by simp [hfid])]
  rw [readBinary_ok c c.file i.maxLe 0 i.nlenSize (by omega) (by omega) (by omega) (by omega)]
  simp only [Py.bind_ok, Nat.zero_add, Nat.min_eq_right hle.1, sliceN_zero_take]
  rw [if_neg (by simp [List.length_take]; omega)]
  rw [readLoop_spec c i _ (by omega) hn hn65 _ [] (by omega) (by simp) (by simp)]
  simp [catchTag]

theorem splice_overwrite_prefix (f a z d : Bytes) (h : a.length = z.length) (hf : z.length + d.length ≤ f.length) :
    splice (splice f 0 (z ++ d)) 0 a = splice f 0 (a ++ d) := by
  have h1 : (splice f 0 (z ++ d)).length = f.length := splice_length _ _ _ (by simp; omega)
  apply List.ext_getElem?; intro j
  rw [getElem?_splice _ _ _ (by rw [h1]; omega), getElem?_splice _ _ _ (by simp; omega),
      getElem?_splice _ _ _ (by simp; omega)]
  simp only [Nat.not_lt_zero, if_false, Nat.zero_add, Nat.sub_zero, List.length_append, List.getElem?_append]
  by_cases h1 : j < a.length
  · simp [h1, show j < a.length + d.length by omega]
  · by_cases h2 : j < a.length + d.length
    · simp [h1, h2, show j < z.length + d.length by omega, show ¬ j < z.length by omega, h]
    · simp [h1, h2, show ¬ j < z.length + d.length by omega]

theorem toBE_length (k n : Nat) : (toBE k n).length = k := by
  induction k generalizing n with
  | zero => simp [toBE]
  | succ k ih => simp [toBE, ih]

theorem beNat_toBE2 (n : Nat) (h : n < 65536) : beNat (toBE 2 n) = n := by
  simp [toBE, beNat]; omega

theorem beNat_toBE4 (n : Nat) (h : n < 4294967296) : beNat (toBE 4 n) = n := by
  simp [toBE, beNat]; omega

theorem beNat_zeros (k : Nat) : beNat (zeros k) = 0 := by
  unfold beNat zeros
  induction k with
  | zero => rfl
  | succ k ih => rw [List.replicate_succ, List.foldl_cons]; simpa using ih

/-- file after a complete write -/
def finalFile (f : Bytes) (nl : Nat) (data : Bytes) : Bytes := splice f 0 (toBE nl data.length ++ data)

theorem writeNdef_spec (v : Variant) (c : Card) (i : Info) (data : Bytes) (lim : Lim c i c.file.length)
    (hlen : i.nlenSize + data.length ≤ c.file.length) (h65 : i.nlenSize + data.length ≤ 65536)
    (hv : v.nlenLoop = true ∨ i.nlenSize ≤ i.maxLc) :
    writeNdef v c i data = ⟨planWrite v i data, finalFile c.file i.nlenSize data, .ok ()⟩ := by
  have hnl := lim.nl; have hlc := lim.lc; have hsz := lim.size
  unfold writeNdef
  rw [if_neg (by rcases hnl with h | h <;> rw [h] <;> omega)]
  unfold planWrite
  simp only []
  split
  · -- one UPDATE BINARY sequence carrying NLEN and the message
    have := chunk_run c i.maxLc (toBE i.nlenSize data.length ++ data) hlc (i.nlenSize + data.length + 1) 0 c.file
      (by omega) (by simp [toBE_length]) (by simp [toBE_length]; omega) (by simp [toBE_length]; omega)
    rw [this]; simp [finalFile]
  · have h1 := chunk_run c i.maxLc (zeros i.nlenSize ++ data) hlc (i.nlenSize + data.length + 1) 0 c.file
      (by omega) (by simp [zeros_length]) (by simp [zeros_length]; omega) (by simp [zeros_length]; omega)
    rw [runU_append_ok c _ _ _ _ h1]
    simp only [List.drop_zero]
    have hl1 : (splice c.file 0 (zeros i.nlenSize ++ data)).length = c.file.length :=
      splice_length _ _ _ (by simp [zeros_length]; omega)
    have hfin : splice (splice c.file 0 (zeros i.nlenSize ++ data)) 0 (toBE i.nlenSize data.length)
        = finalFile c.file i.nlenSize data :=
      splice_overwrite_prefix _ _ _ _ (by simp [toBE_length, zeros_length]) (by simp [zeros_length]; omega)
    split
    · have h2 := chunk_run c i.maxLc (toBE i.nlenSize data.length) hlc (i.nlenSize + 1) 0
        (splice c.file 0 (zeros i.nlenSize ++ data)) (by omega) (by simp [toBE_length]) (by rw [hl1, toBE_length]; omega)
        (by rw [toBE_length]; omega)
      rw [h2]
      simp only [List.drop_zero, hfin]
    · rename_i hnv
      have hge : i.nlenSize ≤ i.maxLc := by
        rcases hv with h | h
        · exact absurd h hnv
        · exact h
      rw [List.take_of_length_le (by rw [toBE_length]; exact hge)]
      have hs := sendU_ok c (splice c.file 0 (zeros i.nlenSize ++ data)) ⟨0, toBE i.nlenSize data.length⟩
        (by simp) (by simp only [toBE_length]; omega) (by simp only [toBE_length]; omega)
        (by simp only [toBE_length, hl1]; omega)
      rw [runU_cons_ok _ hs]
      simp only [runU, hfin]

theorem finalFile_length (f : Bytes) (nl : Nat) (data : Bytes) (h : nl + data.length ≤ f.length) :
    (finalFile f nl data).length = f.length :=
  splice_length _ _ _ (by simp [toBE_length]; omega)

theorem finalFile_nlen (f : Bytes) (nl : Nat) (data : Bytes) (h : nl + data.length ≤ f.length) :
    (finalFile f nl data).take nl = toBE nl data.length := by
  unfold finalFile
  have := sliceN_splice_same f 0 (toBE nl data.length ++ data) (by simp [toBE_length]; omega)
  simp only [Nat.zero_add, sliceN_zero_take] at this
  have h2 := congrArg (List.take nl) this
  rw [List.take_take, Nat.min_eq_left (by simp [toBE_length])] at h2
  rw [h2, List.take_left' (toBE_length _ _)]

theorem finalFile_data (f : Bytes) (nl : Nat) (data : Bytes) (h : nl + data.length ≤ f.length) :
    sliceN (finalFile f nl data) nl (nl + data.length) = data := by
  unfold finalFile
  have := sliceN_splice_same f 0 (toBE nl data.length ++ data) (by simp [toBE_length]; omega)
  simp only [Nat.zero_add, sliceN_zero_take, List.length_append, toBE_length] at this
  unfold sliceN
  rw [← List.drop_take, this]
  simp [List.drop_append, toBE_length]

theorem finalFile_beyond (f : Bytes) (nl : Nat) (data : Bytes) (h : nl + data.length ≤ f.length) :
    (finalFile f nl data).drop (nl + data.length) = f.drop (nl + data.length) :=
  splice_drop_after _ _ _ _ (by simp [toBE_length]) (by simp [toBE_length]; omega)

end NfcVerif.T4
