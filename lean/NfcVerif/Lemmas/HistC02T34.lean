import NfcVerif.Lemmas.HistC01T34
/-!
# C02: cut safety over histories of assignments with faults, Type 3 and Type 4 Tags

The writers keep no picture of the tag: every attempt reads the attribute block (Type 3) / uses the capability
values found at activation (Type 4) and sends the whole message again (`Hist.t3Attempt`, `Hist.t4Attempt` of
`Model/HistC01.lean`).  An attempt aborted by a fault of either kind leaves the memory of a PREFIX of its commands;
the state in between is marked on the tag itself (`WriteF = 0Fh`, resp. `NLEN = 0`).
-/
namespace NfcVerif.Hist
open NfcVerif NfcVerif.T34

/-! ## Type 3 -/

/-- strictly inside the command sequence block 0 carries `WriteF = 0Fh` and the layout stays well formed -/
theorem t3_prefix_mid (m data : Bytes) (a : T3.Attr) (wf : T3.WF m a) (hlen : data.length ≤ 16 * a.nmaxb) (k : Nat)
    (hk0 : 0 < k) (hkn : k < (T3.planWrite a data).length) :
    T3.WF (T3.applyW m ((T3.planWrite a data).take k)) { a with writef := 0x0F } := by
  have hpl := T3.planWrite_length a data
  have hr := wf.range
  generalize hD : T3.dataCmds (T3.padded data) a.nbw (1 + (data.length + 15) / 16) (1 + (data.length + 15) / 16) 1 = D at hpl
  have hplan : T3.planWrite a data = ⟨0, 1, T3.encodeAttr { a with writef := 0x0F }⟩ ::
      (D ++ [⟨0, 1, T3.encodeAttr { a with writef := 0, ln := data.length }⟩]) := by
    simp [T3.planWrite, hD]
  have hk1 : 1 ≤ k ∧ k - 1 ≤ D.length := by omega
  have htake : (T3.planWrite a data).take k = ⟨0, 1, T3.encodeAttr { a with writef := 0x0F }⟩ :: D.take (k - 1) := by
    rw [hplan]
    obtain ⟨k', rfl⟩ : ∃ k', k = k' + 1 := ⟨k - 1, by omega⟩
    simp only [List.take_succ_cons, Nat.add_sub_cancel]
    rw [List.take_append_of_le_length (by omega)]
  rw [htake]
  simp only [T3.applyW, List.foldl_cons, Nat.mul_zero]
  have hmem := wf.mem
  have hl0 : (splice m 0 (T3.encodeAttr { a with writef := 0x0F })).length = m.length :=
    splice_length _ _ _ (by rw [T3.encodeAttr_length]; omega)
  have hpd : (T3.padded data).length = 16 * (1 + (data.length + 15) / 16 - 1) := by
    rw [T3.padded_length]; congr 1; omega
  have hpres := T3.applyW_pres (D.take (k - 1)) (splice m 0 (T3.encodeAttr { a with writef := 0x0F })) (by
    intro c hc
    have hc' := List.mem_of_mem_take hc
    rw [← hD] at hc'
    have := T3.dataCmds_mem (T3.padded data) a.nbw _ wf.nbw hpd _ 1 (by omega) c hc'
    rw [hl0]; omega)
  simp only [T3.applyW] at hpres
  have hdec : T3.decodeAttr ((List.foldl (fun m c => splice m (16 * c.blk) c.data)
      (splice m 0 (T3.encodeAttr { a with writef := 0x0F })) (D.take (k - 1))).take 16)
      = .ok (some { a with writef := 0x0F }) := by
    rw [hpres.1]
    have := T3.splice0_take m (T3.encodeAttr { a with writef := 0x0F }) (by rw [T3.encodeAttr_length]; omega)
    rw [T3.encodeAttr_length] at this
    rw [this]
    exact T3.decode_encode _ ⟨hr.ver, hr.nbr, hr.nbw, hr.nmaxb, by simp, hr.rwflag, hr.ln⟩
  exact ⟨hdec, ⟨hr.ver, hr.nbr, hr.nbw, hr.nmaxb, by simp, hr.rwflag, hr.ln⟩, wf.ver, wf.nbr,
    wf.nbw, wf.fits, wf.rw, by rw [hpres.2, hl0]; exact hmem, wf.ln⟩

/-- a fresh reader of a well-formed memory whose block 0 says `WriteF ≠ 0`: the area is flagged not readable -/
theorem t3_see_writef (m : Bytes) (a : T3.Attr) (wf : T3.WF m a) (hf : a.writef ≠ 0) :
    ∃ s, T3.see m = .ok (some s) ∧ s.readable = false := by
  unfold T3.see
  rw [T3.readNdef_old m a wf]
  exact ⟨_, rfl, by simp [hf]⟩

/-- **one Type 3 attempt, any fault**: the memory is unchanged, or the area is flagged not readable, or it holds
the complete new message -/
theorem t3Write_view (m data : Bytes) (a : T3.Attr) (f : Option Fault) (wf : T3.WF m a) (hlen : data.length ≤ 16 * a.nmaxb) :
    (t3Write m data f).mem = m
    ∨ (∃ s, T3.see (t3Write m data f).mem = .ok (some s) ∧ s.readable = false)
    ∨ T3.see (t3Write m data f).mem = .ok (some ⟨(a.nmaxb * 16 : Nat), true, true, data⟩) := by
  unfold t3Write
  rw [T3.readBlocks_ok m 0 1 (by omega) (by have := wf.mem; omega) (by omega)]
  simp only [Nat.mul_zero, Nat.zero_add, Nat.mul_one, sliceN_zero_take, wf.dec, Py.bind_ok]
  rw [if_neg (by have := wf.nbw; omega)]
  have hrun := runW_plan m data a wf hlen
  obtain ⟨j, hj, hm, _, _⟩ := runWF_prefix _ m _ f hrun
  rw [hm]
  by_cases h0 : j = 0
  · subst h0; left; simp [T3.applyW]
  by_cases hn : j = (T3.planWrite a data).length
  · right; right
    rw [hn, List.take_length, T3.runW_mem_applyW _ _ _ hrun]
    exact T3.see_final m data a wf hlen
  · right; left
    exact t3_see_writef _ _ (t3_prefix_mid m data a wf hlen j (by omega) (by omega)) (by simp)

/-- messages of a Type 3 / Type 4 history that are not refused as oversize -/
def sentMsgs34 (cap : Int) (hs : List (Bytes × Option Fault)) : List Bytes :=
  (hs.filter fun x => decide ((x.1.length : Int) ≤ cap)).map (·.1)

theorem sentMsgs34_cons_sub (cap : Int) (x : Bytes × Option Fault) (rest : List (Bytes × Option Fault)) (y : Bytes)
    (h : y ∈ sentMsgs34 cap rest) : y ∈ sentMsgs34 cap (x :: rest) := by
  unfold sentMsgs34 at h ⊢
  rw [List.filter_cons]
  split
  · exact List.mem_cons_of_mem _ h
  · exact h

theorem sentMsgs34_head (cap : Int) (d : Bytes) (f : Option Fault) (rest : List (Bytes × Option Fault))
    (h : (d.length : Int) ≤ cap) : d ∈ sentMsgs34 cap ((d, f) :: rest) := by
  unfold sentMsgs34
  rw [List.filter_cons, if_pos (by simpa using h)]
  exact List.mem_cons_self

theorem t3Attempt_view (seen : Seen) (a : T3.Attr) (hcap : seen.capacity = (a.nmaxb * 16 : Nat)) (m data : Bytes)
    (f : Option Fault) (hi : T3Inv a m) :
    (t3Attempt seen m data f).mem = m
    ∨ (∃ s, T3.see (t3Attempt seen m data f).mem = .ok (some s) ∧ s.readable = false)
    ∨ ((data.length : Int) ≤ seen.capacity ∧
        T3.see (t3Attempt seen m data f).mem = .ok (some ⟨(a.nmaxb * 16 : Nat), true, true, data⟩)) := by
  unfold t3Attempt
  split
  · exact Or.inl rfl
  · split
    · exact Or.inl rfl
    · rename_i hc
      obtain ⟨a', wf', hs⟩ := hi
      rcases t3Write_view m data a' f wf' (by rw [hs.2.2.2.1]; omega) with h | h | h
      · exact Or.inl h
      · exact Or.inr (Or.inl h)
      · refine Or.inr (Or.inr ⟨by omega, ?_⟩)
        rw [h, hs.2.2.2.1]

/-- **Type 3: cut safety over histories** -/
theorem t3History_view (seen : Seen) (a : T3.Attr) (hcap : seen.capacity = (a.nmaxb * 16 : Nat))
    (hs : List (Bytes × Option Fault)) : ∀ m, T3Inv a m →
    (t3History seen m hs).1 = m
    ∨ ∃ s, T3.see (t3History seen m hs).1 = .ok (some s) ∧
        (s.readable = false ∨ (s.data ∈ sentMsgs34 seen.capacity hs ∧ s.readable = true ∧ s.capacity = seen.capacity)) := by
  induction hs with
  | nil => intro m _; exact Or.inl rfl
  | cons x rest ih =>
    intro m hi
    obtain ⟨d, f⟩ := x
    simp only [t3History]
    rcases ih _ (t3Attempt_inv seen a hcap m d f hi) with h | ⟨s, hs1, hs2⟩
    · rw [h]
      rcases t3Attempt_view seen a hcap m d f hi with e | ⟨s, e1, e2⟩ | ⟨hc, e⟩
      · exact Or.inl e
      · exact Or.inr ⟨s, e1, Or.inl e2⟩
      · exact Or.inr ⟨_, e, Or.inr ⟨sentMsgs34_head _ d f rest hc, rfl, hcap.symm⟩⟩
    · refine Or.inr ⟨s, hs1, ?_⟩
      rcases hs2 with h | ⟨h1, h2⟩
      · exact Or.inl h
      · exact Or.inr ⟨sentMsgs34_cons_sub _ _ _ _ h1, h2⟩

/-! ## Type 4 -/

/-- with every UPDATE BINARY of `cs` accepted, a faulted run leaves the file of some prefix of `cs` -/
theorem runUF_prefix (c : T4.Card) (cs : List T4.UCmd) : ∀ (g M : Bytes) (f : Option Fault),
    T4.runU c g cs = ⟨cs, M, .ok ()⟩ → ∃ j, j ≤ cs.length ∧ (runUF c g cs f).file = T4.applyU g (cs.take j) := by
  induction cs with
  | nil => intro g M f _; exact ⟨0, Nat.le_refl _, rfl⟩
  | cons u us ih =>
    intro g M f h
    cases hs : T4.sendU c g u with
    | error e => simp [T4.runU, hs] at h
    | ok g1 =>
      rw [T4.runU_cons_ok us hs] at h
      have h2 : T4.runU c g1 us = ⟨us, M, .ok ()⟩ := by
        cases hr : T4.runU c g1 us with
        | mk s mm r => rw [hr] at h; simp at h; obtain ⟨h1, h2, h3⟩ := h; subst h1 h2 h3; rfl
      have hg1 := T4.sendU_splice hs
      rcases f with _ | ⟨k, late⟩
      · obtain ⟨j, hj, hm⟩ := ih g1 M none h2
        refine ⟨j + 1, by simp; omega, ?_⟩
        simp only [runUF, hs, Option.map_none, List.take_succ_cons, T4.applyU, List.foldl_cons]
        rw [← hg1]; exact hm
      · cases k with
        | zero =>
          cases late with
          | false => exact ⟨0, Nat.zero_le _, by simp [runUF, hs, T4.applyU]⟩
          | true => exact ⟨1, by simp, by simp [runUF, hs, T4.applyU, hg1]⟩
        | succ k =>
          obtain ⟨j, hj, hm⟩ := ih g1 M (some ⟨k, late⟩) h2
          refine ⟨j + 1, by simp; omega, ?_⟩
          simp only [runUF, hs, Option.map_some, Nat.add_sub_cancel, List.take_succ_cons, T4.applyU, List.foldl_cons]
          rw [← hg1]; exact hm

/-- strictly inside the UPDATE BINARY sequence (`NLEN size ≤ MLc`) the NLEN field is zero and the file keeps its size -/
theorem t4_prefix_mid (v : T4.Variant) (c : T4.Card) (i : T4.Info) (data : Bytes) (wf : T4.WF v c i)
    (hlen : (data.length : Int) ≤ i.capacity) (hmlc : i.nlenSize ≤ i.maxLc) (k : Nat) (hk0 : 0 < k)
    (hkn : k < (T4.planWrite v i data).length) :
    (T4.applyU c.file ((T4.planWrite v i data).take k)).take i.nlenSize = zeros i.nlenSize ∧
    (T4.applyU c.file ((T4.planWrite v i data).take k)).length = c.file.length := by
  have hcap := wf.cap; have hsz := wf.lim.size; have hnl := wf.lim.nl; have hlc := wf.lim.lc
  have hl : i.nlenSize + data.length ≤ c.file.length := by omega
  have hnl1 : 1 ≤ i.nlenSize := by omega
  by_cases hfit : i.nlenSize + data.length ≤ i.maxLc
  · rw [T4.planWrite_fit v i data hnl1 hfit] at hkn
    simp at hkn; omega
  have hplan := T4.planWrite_chunked v i data hnl1 hmlc hfit
  generalize hB : zeros i.nlenSize ++ data = buf at hplan
  have hbl : buf.length = i.nlenSize + data.length := by rw [← hB]; simp [zeros_length]
  rw [hplan] at hkn ⊢
  simp only [List.length_append, List.length_singleton] at hkn
  rw [List.take_append_of_le_length (by omega)]
  rw [show i.nlenSize + data.length + 1 = (i.nlenSize + data.length) + 1 from rfl,
      T4.chunk_head _ _ (by omega)] at hkn ⊢
  obtain ⟨k', rfl⟩ : ∃ k', k = k' + 1 := ⟨k - 1, by omega⟩
  simp only [List.take_succ_cons, T4.applyU, List.foldl_cons]
  have hf1 : (splice c.file 0 (buf.take i.maxLc)).length = c.file.length :=
    splice_length _ _ _ (by simp [List.length_take]; omega)
  have hpres := T4.applyU_pres i.nlenSize
    ((T4.chunkCmds i.maxLc buf (i.nlenSize + data.length) (min i.maxLc buf.length)).take k')
    (splice c.file 0 (buf.take i.maxLc)) (by
      intro u hu
      have := T4.chunk_mem i.maxLc buf hlc.1 _ _ u (List.mem_of_mem_take hu)
      rw [hf1]; omega)
  simp only [T4.applyU] at hpres
  have htake : (splice c.file 0 (buf.take i.maxLc)).take i.nlenSize = zeros i.nlenSize := by
    have := sliceN_splice_same c.file 0 (buf.take i.maxLc) (by simp [List.length_take]; omega)
    simp only [Nat.zero_add, sliceN_zero_take] at this
    have h2 := congrArg (List.take i.nlenSize) this
    rw [List.take_take, Nat.min_eq_left (by simp [List.length_take]; omega)] at h2
    rw [h2, List.take_take, Nat.min_eq_left hmlc, ← hB, List.take_left' (zeros_length _)]
  exact ⟨by rw [hpres.1, htake], by rw [hpres.2, hf1]⟩

/-- what a history can do to the NDEF file: same size, NLEN consistent with it -/
structure T4Inv (c : T4.Card) (i : T4.Info) (g : Bytes) : Prop where
  len : g.length = c.file.length
  old : i.nlenSize + beNat (g.take i.nlenSize) ≤ min g.length 65536

theorem T4Inv.wf {v : T4.Variant} {c : T4.Card} {i : T4.Info} {g : Bytes} (wf : T4.WF v c i) (hi : T4Inv c i g) :
    T4.WF v { c with file := g } i :=
  ⟨wf.disc, wf.fid, ⟨wf.lim.nl, wf.lim.le, wf.lim.lc, by simp only [hi.len]; exact wf.lim.size⟩,
    by simp only [hi.len]; exact wf.cap, wf.rw, hi.old⟩

/-- the reader on a file of the right size whose NLEN field is zero -/
theorem t4_see_zero (v : T4.Variant) (c : T4.Card) (i : T4.Info) (wf : T4.WF v c i) (F : Bytes)
    (hF : F.length = c.file.length) (hz : F.take i.nlenSize = zeros i.nlenSize) :
    T4Inv c i F ∧ T4.see v { c with file := F } = .ok (some ⟨i.capacity, i.readable, true, []⟩) := by
  have hsz := wf.lim.size
  have hi : T4Inv c i F := ⟨hF, by rw [hz, T4.beNat_zeros]; have := wf.old; omega⟩
  refine ⟨hi, ?_⟩
  have := T4.see_old v { c with file := F } i (hi.wf wf)
  simp only [hz, T4.beNat_zeros, Nat.add_zero] at this
  rw [this]
  simp [sliceN]

/-- **one Type 4 attempt, any fault** (`NLEN size ≤ MLc`): the file is unchanged, or shows an empty message, or
the complete new message; it stays consistent in every case -/
theorem t4Write_view (v : T4.Variant) (c : T4.Card) (i : T4.Info) (wf : T4.WF v c i) (hmlc : i.nlenSize ≤ i.maxLc)
    (g data : Bytes) (f : Option Fault) (hi : T4Inv c i g) (hlen : (data.length : Int) ≤ i.capacity) :
    (t4Write v c i g data f).file = g
    ∨ (T4Inv c i (t4Write v c i g data f).file ∧
        T4.see v { c with file := (t4Write v c i g data f).file } = .ok (some ⟨i.capacity, i.readable, true, []⟩))
    ∨ (T4Inv c i (t4Write v c i g data f).file ∧
        T4.see v { c with file := (t4Write v c i g data f).file } = .ok (some ⟨i.capacity, i.readable, true, data⟩)) := by
  have wf' := hi.wf wf
  have hcap := wf.cap; have hsz := wf.lim.size; have hnl := wf.lim.nl
  have hgl := hi.len
  unfold t4Write
  split
  · exact Or.inl rfl
  have hw := T4.writeNdef_spec v { c with file := g } i data wf'.lim (by simp only [hgl]; omega) (by omega) (Or.inr hmlc)
  unfold T4.writeNdef at hw
  rw [if_neg (by rcases hnl with h | h <;> rw [h] <;> omega)] at hw
  simp only at hw
  rw [runU_card] at hw
  obtain ⟨j, hj, hm⟩ := runUF_prefix c _ g _ f hw
  rw [hm]
  by_cases h0 : j = 0
  · subst h0; left; simp [T4.applyU]
  by_cases hn : j = (T4.planWrite v i data).length
  · right; right
    rw [hn, List.take_length, T4.runU_file_applyU c _ _ _ hw]
    have hl : i.nlenSize + data.length ≤ g.length := by omega
    refine ⟨⟨by rw [T4.finalFile_length g i.nlenSize data hl, hgl], ?_⟩, see_final' v c i g data wf hgl hlen⟩
    rw [T4.finalFile_nlen _ _ _ hl, T4.beNat_toBE _ _ hnl (by rcases hnl with h | h <;> omega),
      T4.finalFile_length g i.nlenSize data hl]
    omega
  · right; left
    obtain ⟨hz, hl⟩ := t4_prefix_mid v { c with file := g } i data wf' hlen hmlc j (by omega) (by omega)
    exact t4_see_zero v c i wf _ (by rw [hl]; exact hgl) hz

theorem t4Attempt_view (v : T4.Variant) (c : T4.Card) (i : T4.Info) (wf : T4.WF v c i) (hmlc : i.nlenSize ≤ i.maxLc)
    (nd : T4.Ndef) (hnd : nd.info = i ∧ nd.seen.capacity = i.capacity) (g data : Bytes) (f : Option Fault) (hi : T4Inv c i g) :
    T4Inv c i (t4Attempt v c nd g data f).file ∧
    ((t4Attempt v c nd g data f).file = g
    ∨ T4.see v { c with file := (t4Attempt v c nd g data f).file } = .ok (some ⟨i.capacity, i.readable, true, []⟩)
    ∨ ((data.length : Int) ≤ i.capacity ∧
        T4.see v { c with file := (t4Attempt v c nd g data f).file } = .ok (some ⟨i.capacity, i.readable, true, data⟩))) := by
  unfold t4Attempt
  split
  · exact ⟨hi, Or.inl rfl⟩
  · split
    · exact ⟨hi, Or.inl rfl⟩
    · rename_i hc
      rw [hnd.1]
      have hlen : (data.length : Int) ≤ i.capacity := by rw [← hnd.2]; omega
      rcases t4Write_view v c i wf hmlc g data f hi hlen with h | ⟨h1, h2⟩ | ⟨h1, h2⟩
      · exact ⟨by rw [h]; exact hi, Or.inl h⟩
      · exact ⟨h1, Or.inr (Or.inl h2)⟩
      · exact ⟨h1, Or.inr (Or.inr ⟨hlen, h2⟩)⟩

/-- **Type 4: cut safety over histories** -/
theorem t4History_view (v : T4.Variant) (c : T4.Card) (i : T4.Info) (wf : T4.WF v c i) (hmlc : i.nlenSize ≤ i.maxLc)
    (nd : T4.Ndef) (hnd : nd.info = i ∧ nd.seen.capacity = i.capacity) (hs : List (Bytes × Option Fault)) :
    ∀ g, T4Inv c i g →
    (t4History v c nd g hs).1 = g
    ∨ ∃ x, (x = [] ∨ x ∈ sentMsgs34 i.capacity hs) ∧
        T4.see v { c with file := (t4History v c nd g hs).1 } = .ok (some ⟨i.capacity, i.readable, true, x⟩) := by
  induction hs with
  | nil => intro g _; exact Or.inl rfl
  | cons a rest ih =>
    intro g hi
    obtain ⟨d, f⟩ := a
    simp only [t4History]
    obtain ⟨hi', hv⟩ := t4Attempt_view v c i wf hmlc nd hnd g d f hi
    rcases ih _ hi' with h | ⟨x, hx, h⟩
    · rw [h]
      rcases hv with e | e | ⟨hc, e⟩
      · exact Or.inl e
      · exact Or.inr ⟨[], Or.inl rfl, e⟩
      · exact Or.inr ⟨d, Or.inr (sentMsgs34_head _ d f rest hc), e⟩
    · rcases hx with hx | hx
      · exact Or.inr ⟨x, Or.inl hx, h⟩
      · exact Or.inr ⟨x, Or.inr (sentMsgs34_cons_sub _ _ _ _ hx), h⟩

end NfcVerif.Hist
