import NfcVerif.Model.SapLink
/-!
# Proofs for property C17 (address table, refinement, routing)
-/
namespace NfcVerif.Sap
open NfcVerif

theorem freeIn_some {c : Llc} {lo cnt a : Nat} (h : freeIn c lo cnt = some a) :
    lo ≤ a ∧ a < lo + cnt ∧ c.sap a = none := by
  unfold freeIn at h
  have h1 := List.mem_of_find?_eq_some h
  have h2 := List.find?_some h
  rw [List.mem_range'_1] at h1
  refine ⟨h1.1, h1.2, ?_⟩
  simpa [Option.isNone_iff_eq_none] using h2

theorem freeIn_none {c : Llc} {lo cnt : Nat} :
    freeIn c lo cnt = none ↔ ∀ a, lo ≤ a → a < lo + cnt → c.sap a ≠ none := by
  unfold freeIn
  rw [List.find?_eq_none]
  constructor
  · intro h a h1 h2
    have := h a (by rw [List.mem_range'_1]; exact ⟨h1, h2⟩)
    simpa [Option.isNone_iff_eq_none] using this
  · intro h a ha
    rw [List.mem_range'_1] at ha
    simpa [Option.isNone_iff_eq_none] using h a ha.1 ha.2

/-! ## abstract specification -/

/-- abstract address table: address ⇀ sockets, service name ⇀ address -/
structure Abs where
  owner : Nat → Option (List Nat)
  names : List (Bytes × Nat)

def abs (c : Llc) : Abs := ⟨fun a => (c.sap a).map (·.socks), c.snl⟩

def Abs.free (σ : Abs) (a : Nat) : Prop := σ.owner a = none

/-- the allocation rule of the statement: which address a successful bind may return -/
inductive BindOk (σ : Abs) (k : Kind) : BindArg → Nat → Prop
  | anon (a : Nat) : 32 ≤ a → a ≤ 63 → σ.free a → BindOk σ k .none a
  | addr (a : Nat) : a ≤ 63 → (32 ≤ a ∨ k = .raw) → σ.free a → BindOk σ k (.addr a) a
  | wks (nm : Bytes) (a : Nat) : validName nm = true → σ.names.lookup nm = none → wks nm = some a → σ.free a →
      BindOk σ k (.name nm) a
  | named (nm : Bytes) (a : Nat) : validName nm = true → σ.names.lookup nm = none → wks nm = none →
      16 ≤ a → a ≤ 31 → σ.free a → BindOk σ k (.name nm) a

/-- when a bind of an unbound socket is refused, and with which errno -/
inductive BindErr (σ : Abs) (k : Kind) : BindArg → Nat → Prop
  | eagain : (∀ a, 32 ≤ a → a ≤ 63 → ¬ σ.free a) → BindErr σ k .none EAGAIN
  | efaultAddr (a : Int) : (a < 0 ∨ a > 63) → BindErr σ k (.addr a) EFAULT
  | eacces (a : Int) : 0 ≤ a → a < 32 → k ≠ .raw → BindErr σ k (.addr a) EACCES
  | inuseAddr (a : Int) : 0 ≤ a → a ≤ 63 → (32 ≤ a ∨ k = .raw) → ¬ σ.free a.toNat → BindErr σ k (.addr a) EADDRINUSE
  | efaultName (nm : Bytes) : validName nm = false → BindErr σ k (.name nm) EFAULT
  | inuseName (nm : Bytes) (a : Nat) : validName nm = true → σ.names.lookup nm = some a → BindErr σ k (.name nm) EADDRINUSE
  | inuseWks (nm : Bytes) (a : Nat) : validName nm = true → σ.names.lookup nm = none → wks nm = some a → ¬ σ.free a →
      BindErr σ k (.name nm) EADDRINUSE
  /-- F22, as found: not one of the four codes of the statement -/
  | exhausted (nm : Bytes) : validName nm = true → σ.names.lookup nm = none → wks nm = none →
      (∀ a, 16 ≤ a → a ≤ 31 → ¬ σ.free a) → BindErr σ k (.name nm) EADDRNOTAVAIL

/-- effect of a successful bind on the abstract table -/
def Abs.bound (σ : Abs) (id a : Nat) (arg : BindArg) : Abs :=
  { owner := upd σ.owner a (some [id])
    names := match arg with
      | .name nm => σ.names ++ [(nm, a)]
      | _ => σ.names }

theorem abs_bindAt (c : Llc) (id a : Nat) : (abs (bindAt c id a)).owner = upd (abs c).owner a (some [id]) := by
  funext b
  simp only [abs, bindAt, upd]
  split <;> simp

theorem bindAt_addr (c : Llc) (id a : Nat) : ((bindAt c id a).sock id).addr = some a := by
  simp [bindAt, upd]

/-- refinement of the allocation rule by `bind`, soundness: every outcome of the
concrete `bind` on an unbound socket is one the specification allows, with the
specified effect on the table -/
theorem bind_sound (c : Llc) (id : Nat) (arg : BindArg) (hu : (c.sock id).addr = none) :
    (∃ c' a, bind c id arg = .ok c' ∧ BindOk (abs c) (c.sock id).kind arg a ∧
        (c'.sock id).addr = some a ∧ abs c' = (abs c).bound id a arg) ∨
    (∃ n, bind c id arg = .error (.llcp n) ∧ BindErr (abs c) (c.sock id).kind arg n) := by
  unfold bind
  simp only [hu, Option.isSome_none, Bool.false_eq_true, ↓reduceIte]
  cases arg with
  | none =>
    simp only
    cases hf : freeIn c 32 32 with
    | none =>
      right
      refine ⟨EAGAIN, rfl, .eagain ?_⟩
      intro a h1 h2 h3
      have := freeIn_none.mp hf a h1 (by omega)
      simp [Abs.free, abs] at h3
      exact this h3
    | some a =>
      left
      obtain ⟨h1, h2, h3⟩ := freeIn_some hf
      refine ⟨_, a, rfl, .anon a h1 (by omega) (by simp [Abs.free, abs, h3]), bindAt_addr c id a, ?_⟩
      simp only [Abs.bound]
      rw [← abs_bindAt]
      rfl
  | addr a =>
    simp only
    by_cases h0 : a < 0 ∨ a > 63
    · right; simp only [h0, ↓reduceIte]; exact ⟨EFAULT, rfl, .efaultAddr a h0⟩
    · simp only [h0, ↓reduceIte]
      have h0' : 0 ≤ a ∧ a ≤ 63 := by omega
      by_cases h1 : 32 ≤ a ∨ (c.sock id).kind = .raw
      · simp only [h1, ↓reduceIte]
        cases hs : c.sap a.toNat with
        | none =>
          left
          simp only [Option.isNone_none, ↓reduceIte]
          have ha : (a.toNat : Int) = a := Int.toNat_of_nonneg h0'.1
          refine ⟨_, a.toNat, rfl, ?_, bindAt_addr c id _, ?_⟩
          · have := BindOk.addr (σ := abs c) (k := (c.sock id).kind) a.toNat (by omega) (h1.imp (by omega) (fun h => h)) (by simp [Abs.free, abs, hs])
            rw [ha] at this
            exact this
          · simp only [Abs.bound]
            rw [← abs_bindAt]; rfl
        | some e =>
          right
          simp only [Option.isNone_some, Bool.false_eq_true, ↓reduceIte]
          exact ⟨EADDRINUSE, rfl, .inuseAddr a h0'.1 h0'.2 h1 (by simp [Abs.free, abs, hs])⟩
      · right
        simp only [h1, ↓reduceIte]
        exact ⟨EACCES, rfl, .eacces a h0'.1 (by omega) (fun h => h1 (Or.inr h))⟩
  | name nm =>
    simp only
    cases hv : validName nm with
    | false => right; simp only [↓reduceIte]; exact ⟨EFAULT, rfl, .efaultName nm hv⟩
    | true =>
      simp only [Bool.true_eq_false, ↓reduceIte]
      cases hl : c.snl.lookup nm with
      | some a0 =>
        right
        simp only [Option.isSome_some, ↓reduceIte]
        exact ⟨EADDRINUSE, rfl, .inuseName nm a0 hv hl⟩
      | none =>
        simp only [Option.isSome_none, Bool.false_eq_true, ↓reduceIte]
        cases hw : wks nm with
        | some a =>
          simp only
          cases hs : c.sap a with
          | some e =>
            right
            simp only [Option.isSome_some, ↓reduceIte]
            exact ⟨EADDRINUSE, rfl, .inuseWks nm a hv hl hw (by simp [Abs.free, abs, hs])⟩
          | none =>
            left
            simp only [Option.isSome_none, Bool.false_eq_true, ↓reduceIte]
            refine ⟨_, a, rfl, .wks nm a hv hl hw (by simp [Abs.free, abs, hs]), by simp [bindAt, upd], ?_⟩
            simp only [Abs.bound, abs]
            congr 1
            exact abs_bindAt c id a
        | none =>
          simp only
          cases hf : freeIn c 16 16 with
          | none =>
            right
            refine ⟨EADDRNOTAVAIL, rfl, .exhausted nm hv hl hw ?_⟩
            intro a h1 h2 h3
            have := freeIn_none.mp hf a h1 (by omega)
            simp [Abs.free, abs] at h3
            exact this h3
          | some a =>
            left
            obtain ⟨h1, h2, h3⟩ := freeIn_some hf
            refine ⟨_, a, rfl, .named nm a hv hl hw h1 (by omega) (by simp [Abs.free, abs, h3]), by simp [bindAt, upd], ?_⟩
            simp only [Abs.bound, abs]
            congr 1
            exact abs_bindAt c id a

theorem bindErr_unique {σ : Abs} {k : Kind} {arg : BindArg} {n m : Nat}
    (h1 : BindErr σ k arg n) (h2 : BindErr σ k arg m) : n = m := by
  cases h1 <;> cases h2 <;> first | rfl | (exfalso; omega) | (exfalso; simp_all; done) | (exfalso; grind)

theorem bindOk_not_err {σ : Abs} {k : Kind} {arg : BindArg} {a n : Nat}
    (h1 : BindOk σ k arg a) (h2 : BindErr σ k arg n) : False := by
  cases h1 <;> cases h2 <;> first | omega | (simp_all; done) | grind

end NfcVerif.Sap
