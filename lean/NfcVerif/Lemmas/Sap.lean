import NfcVerif.Model.SapLink
/-!
# Proofs for property C17 (address table, refinement, routing)
-/
namespace NfcVerif.Sap
open NfcVerif

theorem freeIn_some {c : Llc} {lo cnt a : Nat} (h : freeIn c lo cnt = some a) :
    lo ≤ a ∧ a < lo + cnt ∧ c.sap a = none := by
  unfold freeIn at h
  have h1 := List.mem_of_find?_eq_some h
  have h2 := List.find?_some h
  rw [List.mem_range'_1] at h1
  refine ⟨h1.1, h1.2, ?_⟩
  simpa [Option.isNone_iff_eq_none] using h2

theorem freeIn_none {c : Llc} {lo cnt : Nat} :
    freeIn c lo cnt = none ↔ ∀ a, lo ≤ a → a < lo + cnt → c.sap a ≠ none := by
  unfold freeIn
  rw [List.find?_eq_none]
  constructor
  · intro h a h1 h2
    have := h a (by rw [List.mem_range'_1]; exact ⟨h1, h2⟩)
    simpa [Option.isNone_iff_eq_none] using this
  · intro h a ha
    rw [List.mem_range'_1] at ha
    simpa [Option.isNone_iff_eq_none] using h a ha.1 ha.2

/-! ## abstract specification -/

/-- abstract address table: address ⇀ sockets, service name ⇀ address -/
structure Abs where
  owner : Nat → Option (List Nat)
  names : List (Bytes × Nat)

def abs (c : Llc) : Abs := ⟨fun a => (c.sap a).map (·.socks), c.snl⟩

def Abs.free (σ : Abs) (a : Nat) : Prop := σ.owner a = none

/-- the allocation rule of the statement: which address a successful bind may return -/
inductive BindOk (σ : Abs) (k : Kind) : BindArg → Nat → Prop
  | anon (a : Nat) : 32 ≤ a → a ≤ 63 → σ.free a → BindOk σ k .none a
  | addr (a : Nat) : a ≤ 63 → (32 ≤ a ∨ k = .raw) → σ.free a → BindOk σ k (.addr a) a
  | wks (nm : Bytes) (a : Nat) : validName nm = true → σ.names.lookup nm = none → wks nm = some a → σ.free a →
      BindOk σ k (.name nm) a
  | named (nm : Bytes) (a : Nat) : validName nm = true → σ.names.lookup nm = none → wks nm = none →
      16 ≤ a → a ≤ 31 → σ.free a → BindOk σ k (.name nm) a

/-- when a bind of an unbound socket is refused, and with which errno -/
inductive BindErr (σ : Abs) (k : Kind) : BindArg → Nat → Prop
  | eagain : (∀ a, 32 ≤ a → a ≤ 63 → ¬ σ.free a) → BindErr σ k .none EAGAIN
  | efaultAddr (a : Int) : (a < 0 ∨ a > 63) → BindErr σ k (.addr a) EFAULT
  | eacces (a : Int) : 0 ≤ a → a < 32 → k ≠ .raw → BindErr σ k (.addr a) EACCES
  | inuseAddr (a : Int) : 0 ≤ a → a ≤ 63 → (32 ≤ a ∨ k = .raw) → ¬ σ.free a.toNat → BindErr σ k (.addr a) EADDRINUSE
  | efaultName (nm : Bytes) : validName nm = false → BindErr σ k (.name nm) EFAULT
  | inuseName (nm : Bytes) (a : Nat) : validName nm = true → σ.names.lookup nm = some a → BindErr σ k (.name nm) EADDRINUSE
  | inuseWks (nm : Bytes) (a : Nat) : validName nm = true → σ.names.lookup nm = none → wks nm = some a → ¬ σ.free a →
      BindErr σ k (.name nm) EADDRINUSE
  /-- F22, as found: not one of the four codes of the statement -/
  | exhausted (nm : Bytes) : validName nm = true → σ.names.lookup nm = none → wks nm = none →
      (∀ a, 16 ≤ a → a ≤ 31 → ¬ σ.free a) → BindErr σ k (.name nm) EADDRNOTAVAIL

/-- effect of a successful bind on the abstract table -/
def Abs.bound (σ : Abs) (id a : Nat) (arg : BindArg) : Abs :=
  { owner := upd σ.owner a (some [id])
    names := match arg with
      | .name nm => σ.names ++ [(nm, a)]
      | _ => σ.names }

theorem abs_bindAt (c : Llc) (id a : Nat) : (abs (bindAt c id a)).owner = upd (abs c).owner a (some [id]) := by
  funext b
  simp only [abs, bindAt, upd]
  split <;> simp

theorem bindAt_addr (c : Llc) (id a : Nat) : ((bindAt c id a).sock id).addr = some a := by
  simp [bindAt, upd]

/-- refinement of the allocation rule by `bind`, soundness: every outcome of the
concrete `bind` on an unbound socket is one the specification allows, with the
specified effect on the table -/
theorem bind_sound (c : Llc) (id : Nat) (arg : BindArg) (hu : (c.sock id).addr = none) :
    (∃ c' a, bind c id arg = .ok c' ∧ BindOk (abs c) (c.sock id).kind arg a ∧
        (c'.sock id).addr = some a ∧ abs c' = (abs c).bound id a arg) ∨
    (∃ n, bind c id arg = .error (.llcp n) ∧ BindErr (abs c) (c.sock id).kind arg n) := by
  unfold bind
  simp only [hu, Option.isSome_none, Bool.false_eq_true, ↓reduceIte]
  cases arg with
  | none =>
    simp only
    cases hf : freeIn c 32 32 with
    | none =>
      right
      refine ⟨EAGAIN, rfl, .eagain ?_⟩
      intro a h1 h2 h3
      have := freeIn_none.mp hf a h1 (by omega)
      simp [Abs.free, abs] at h3
      exact this h3
    | some a =>
      left
      obtain ⟨h1, h2, h3⟩ := freeIn_some hf
      refine ⟨_, a, rfl, .anon a h1 (by omega) (by simp [Abs.free, abs, h3]), bindAt_addr c id a, ?_⟩
      simp only [Abs.bound]
      rw [← abs_bindAt]
      rfl
  | addr a =>
    simp only
    by_cases h0 : a < 0 ∨ a > 63
    · right; simp only [h0, ↓reduceIte]; exact ⟨EFAULT, rfl, .efaultAddr a h0⟩
    · simp only [h0, ↓reduceIte]
      have h0' : 0 ≤ a ∧ a ≤ 63 := by omega
      by_cases h1 : 32 ≤ a ∨ (c.sock id).kind = .raw
      · simp only [h1, ↓reduceIte]
        cases hs : c.sap a.toNat with
        | none =>
          left
          simp only [Option.isNone_none, ↓reduceIte]
          have ha : (a.toNat : Int) = a := Int.toNat_of_nonneg h0'.1
          refine ⟨_, a.toNat, rfl, ?_, bindAt_addr c id _, ?_⟩
          · have := BindOk.addr (σ := abs c) (k := (c.sock id).kind) a.toNat (by omega) (h1.imp (by omega) (fun h => h)) (by simp [Abs.free, abs, hs])
            rw [ha] at this
            exact this
          · simp only [Abs.bound]
            rw [← abs_bindAt]; rfl
        | some e =>
          right
          simp only [Option.isNone_some, Bool.false_eq_true, ↓reduceIte]
          exact ⟨EADDRINUSE, rfl, .inuseAddr a h0'.1 h0'.2 h1 (by simp [Abs.free, abs, hs])⟩
      · right
        simp only [h1, ↓reduceIte]
        exact ⟨EACCES, rfl, .eacces a h0'.1 (by omega) (fun h => h1 (Or.inr h))⟩
  | name nm =>
    simp only
    cases hv : validName nm with
    | false => right; simp only [↓reduceIte]; exact ⟨EFAULT, rfl, .efaultName nm hv⟩
    | true =>
      simp only [Bool.true_eq_false, ↓reduceIte]
      cases hl : c.snl.lookup nm with
      | some a0 =>
        right
        simp only [Option.isSome_some, ↓reduceIte]
        exact ⟨EADDRINUSE, rfl, .inuseName nm a0 hv hl⟩
      | none =>
        simp only [Option.isSome_none, Bool.false_eq_true, ↓reduceIte]
        cases hw : wks nm with
        | some a =>
          simp only
          cases hs : c.sap a with
          | some e =>
            right
            simp only [Option.isSome_some, ↓reduceIte]
            exact ⟨EADDRINUSE, rfl, .inuseWks nm a hv hl hw (by simp [Abs.free, abs, hs])⟩
          | none =>
            left
            simp only [Option.isSome_none, Bool.false_eq_true, ↓reduceIte]
            refine ⟨_, a, rfl, .wks nm a hv hl hw (by simp [Abs.free, abs, hs]), by simp [bindAt, upd], ?_⟩
            simp only [Abs.bound, abs]
            congr 1
            exact abs_bindAt c id a
        | none =>
          simp only
          cases hf : freeIn c 16 16 with
          | none =>
            right
            refine ⟨EADDRNOTAVAIL, rfl, .exhausted nm hv hl hw ?_⟩
            intro a h1 h2 h3
            have := freeIn_none.mp hf a h1 (by omega)
            simp [Abs.free, abs] at h3
            exact this h3
          | some a =>
            left
            obtain ⟨h1, h2, h3⟩ := freeIn_some hf
            refine ⟨_, a, rfl, .named nm a hv hl hw h1 (by omega) (by simp [Abs.free, abs, h3]), by simp [bindAt, upd], ?_⟩
            simp only [Abs.bound, abs]
            congr 1
            exact abs_bindAt c id a

theorem bindErr_unique {σ : Abs} {k : Kind} {arg : BindArg} {n m : Nat}
    (h1 : BindErr σ k arg n) (h2 : BindErr σ k arg m) : n = m := by
  cases h1 <;> cases h2 <;> first | rfl | (exfalso; omega) | (exfalso; simp_all; done) | (exfalso; grind)

theorem bindOk_not_err {σ : Abs} {k : Kind} {arg : BindArg} {a n : Nat}
    (h1 : BindOk σ k arg a) (h2 : BindErr σ k arg n) : False := by
  cases h1 <;> cases h2 <;> first | omega | (simp_all; done) | grind

/-- `c'` has the same address table as `c` (socket addresses, SAP membership, names) -/
def SameTable (c c' : Llc) : Prop :=
  (∀ id, (c'.sock id).addr = (c.sock id).addr) ∧ c.n ≤ c'.n ∧
  (∀ a, (c'.sap a).map (·.socks) = (c.sap a).map (·.socks)) ∧ c'.snl = c.snl

theorem SameTable.refl (c : Llc) : SameTable c c := ⟨fun _ => rfl, Nat.le_refl _, fun _ => rfl, rfl⟩

theorem SameTable.trans {c1 c2 c3 : Llc} (h1 : SameTable c1 c2) (h2 : SameTable c2 c3) : SameTable c1 c3 :=
  ⟨fun id => (h2.1 id).trans (h1.1 id), Nat.le_trans h1.2.1 h2.2.1,
   fun a => (h2.2.2.1 a).trans (h1.2.2.1 a), h2.2.2.2.trans h1.2.2.2⟩

theorem same_setSock (c : Llc) (id : Nat) (s : Sock) (h : s.addr = (c.sock id).addr) :
    SameTable c (setSock c id s) := by
  refine ⟨fun j => ?_, Nat.le_refl _, fun _ => rfl, rfl⟩
  simp only [setSock, upd]
  split
  · subst_vars; exact h
  · rfl

theorem same_sapSend (c : Llc) (a : Nat) (e : SapEntry) (p : Pdu) (h : c.sap a = some e) :
    SameTable c (sapSend c a e p) := by
  refine ⟨fun _ => rfl, Nat.le_refl _, fun b => ?_, rfl⟩
  simp only [sapSend, upd]
  split
  · subst_vars; simp [h]
  · rfl

theorem same_sd (c : Llc) (sd : Sd) : SameTable c { c with sd := sd } :=
  ⟨fun _ => rfl, Nat.le_refl _, fun _ => rfl, rfl⟩

theorem sockEnqueue_addr {s s' : Sock} {p : Pdu} (h : sockEnqueue s p = some s') : s'.addr = s.addr := by
  unfold sockEnqueue at h
  repeat' split at h
  all_goals first | (cases h; done) | (cases h; simp [appendRecv, baseClose]; try (split <;> rfl)) | skip

theorem sapEnqueue_same {c c' : Llc} {a : Nat} {e : SapEntry} {p : Pdu} (hs : c.sap a = some e)
    (h : sapEnqueue c a e p = .ok c') : SameTable c c' := by
  unfold sapEnqueue at h
  repeat' split at h
  all_goals first | (cases h; done) | skip
  · rename_i s' hq
    cases h
    exact same_setSock _ _ _ (sockEnqueue_addr hq)
  · cases h; exact same_sapSend _ _ _ _ hs
  · cases h; exact same_sapSend _ _ _ _ hs
  · cases h; exact SameTable.refl _

theorem dispatch_same {c c' : Llc} {p : Pdu} (h : dispatch c p = .ok c') : SameTable c c' := by
  unfold dispatch at h
  repeat' split at h
  all_goals first | (cases h; first | exact same_sd _ _ | exact SameTable.refl _) | skip
  all_goals first | (rename_i hs; exact sapEnqueue_same hs h) | (rename_i hs _; split at hs; (cases hs); exact sapEnqueue_same hs h)

theorem sockDequeue_addr {s s' : Sock} {p : Pdu} (h : sockDequeue s = some (p, s')) : s'.addr = s.addr := by
  unfold sockDequeue at h
  repeat' split at h
  all_goals first | (cases h; done) | (cases h; simp [baseClose]) | skip

theorem socksDequeue_same {c c' : Llc} {p : Pdu} : ∀ {l : List Nat}, socksDequeue c l = some (p, c') → SameTable c c'
  | [], h => by simp [socksDequeue] at h
  | id :: t, h => by
    unfold socksDequeue at h
    split at h
    · rename_i q s' hq
      cases h
      exact same_setSock _ _ _ (sockDequeue_addr hq)
    · exact socksDequeue_same h

theorem sapDequeue_same {c c' : Llc} {a : Nat} {e : SapEntry} {p : Pdu} (hs : c.sap a = some e)
    (h : sapDequeue c a e = some (p, c')) : SameTable c c' := by
  unfold sapDequeue at h
  split at h
  · cases h; rename_i hq; exact socksDequeue_same hq
  · split at h
    · cases h
    · cases h
      refine ⟨fun _ => rfl, Nat.le_refl _, fun b => ?_, rfl⟩
      simp only [upd]
      split
      · subst_vars; simp [hs]
      · rfl

theorem collectFrom_same {c c' : Llc} {p : Pdu} : ∀ {l : List Nat}, collectFrom c l = some (p, c') → SameTable c c'
  | [], h => by simp [collectFrom] at h
  | a :: t, h => by
    unfold collectFrom at h
    repeat' split at h
    all_goals first | (cases h; exact same_sd _ _) | exact collectFrom_same h | skip
    · cases h; rename_i hs _ hq; exact sapDequeue_same hs hq

theorem collect_same {c c' : Llc} {p : Pdu} (h : collect c = some (p, c')) : SameTable c c' :=
  collectFrom_same h

/-! ## two controllers -/

def PSame (p p' : Pair) : Prop := SameTable p.a p'.a ∧ SameTable p.b p'.b

theorem PSame.refl (p : Pair) : PSame p p := ⟨.refl _, .refl _⟩
theorem PSame.trans {p1 p2 p3 : Pair} (h1 : PSame p1 p2) (h2 : PSame p2 p3) : PSame p1 p3 :=
  ⟨h1.1.trans h2.1, h1.2.trans h2.2⟩

theorem psame_set (p : Pair) (x : Side) (c : Llc) (h : SameTable (p.get x) c) : PSame p (p.set x c) := by
  cases x <;> simp only [Pair.get, Pair.set] at * <;> exact ⟨by first | exact h | exact .refl _, by first | exact h | exact .refl _⟩

theorem xfer_same {p p' : Pair} {x : Side} {m : Bool} (h : xfer p x = .ok (p', m)) : PSame p p' := by
  unfold xfer at h
  split at h
  · cases h; exact .refl _
  · rename_i pdu cx hc
    simp only [Py.bind_eq_ok] at h
    obtain ⟨cy, hd, h⟩ := h
    cases h
    have h1 := psame_set p x cx (collect_same hc)
    have h2 := psame_set (p.set x cx) (!x) cy (dispatch_same hd)
    exact ⟨(h1.trans h2).1, (h1.trans h2).2⟩

theorem pump_same : ∀ (k : Nat) {p p' : Pair}, pump k p = .ok p' → PSame p p'
  | 0, p, p', h => by cases h; exact .refl _
  | k + 1, p, p', h => by
    unfold pump at h
    simp only [Py.bind_eq_ok] at h
    obtain ⟨r1, h1, r2, h2, h⟩ := h
    have s1 := xfer_same (p' := r1.1) (m := r1.2) h1
    have s2 := xfer_same (p' := r2.1) (m := r2.2) h2
    split at h
    · cases h; exact s1.trans s2
    · exact (s1.trans s2).trans (pump_same k h)

theorem popOrPump_same {p : Pair} {x : Side} {id : Nat} {r : Pair × Option Pdu}
    (h : popOrPump p x id = .ok r) : PSame p r.1 := by
  unfold popOrPump at h
  split at h
  · cases h; exact psame_set _ _ _ (same_setSock _ _ _ rfl)
  · simp only [Py.bind_eq_ok] at h
    obtain ⟨p1, hp, h⟩ := h
    have s1 := pump_same _ hp
    split at h
    · cases h; exact s1.trans (psame_set _ _ _ (same_setSock _ _ _ rfl))
    · cases h; exact s1
/-- invariant of the address table of one controller -/
structure Inv (c : Llc) : Prop where
  dom : ∀ a e, c.sap a = some e → a < 64
  addrOf : ∀ a e id, c.sap a = some e → id ∈ e.socks → (c.sock id).addr = some a ∧ id < c.n
  nodup : ∀ a e, c.sap a = some e → e.socks.Nodup
  nonempty : ∀ a e, c.sap a = some e → 2 ≤ a → e.socks ≠ []
  res0 : ∃ e, c.sap 0 = some e ∧ e.socks = []
  res1 : ∃ e, c.sap 1 = some e ∧ e.socks = []
  noRes : ∀ id a, (c.sock id).addr = some a → 2 ≤ a
  sdp : c.snl.lookup nameSdp = some 1
  names : ∀ nm a, (nm, a) ∈ c.snl → (nm = nameSdp ∧ a = 1) ∨
      (2 ≤ a ∧ (c.sap a).isSome ∧ validName nm = true ∧ (wks nm = some a ∨ (wks nm = none ∧ 16 ≤ a ∧ a ≤ 31)))
  nameKeys : (c.snl.map Prod.fst).Nodup
  nameVals : (c.snl.map Prod.snd).Nodup
  fresh : ∀ id, c.n ≤ id → (c.sock id).addr = none

theorem same_sap {c c' : Llc} (h : SameTable c c') {a : Nat} {e' : SapEntry} (hs : c'.sap a = some e') :
    ∃ e, c.sap a = some e ∧ e.socks = e'.socks := by
  have := h.2.2.1 a
  rw [hs] at this
  cases hc : c.sap a with
  | none => simp [hc] at this
  | some e => simp [hc] at this; exact ⟨e, rfl, this.symm⟩

theorem same_sap' {c c' : Llc} (h : SameTable c c') {a : Nat} {e : SapEntry} (hs : c.sap a = some e) :
    ∃ e', c'.sap a = some e' ∧ e'.socks = e.socks := by
  have := h.2.2.1 a
  rw [hs] at this
  cases hc : c'.sap a with
  | none => simp [hc] at this
  | some e' => simp [hc] at this; exact ⟨e', rfl, this⟩

theorem Inv.same {c c' : Llc} (hi : Inv c) (h : SameTable c c') : Inv c' := by
  constructor
  · intro a e' hs; obtain ⟨e, h1, _⟩ := same_sap h hs; exact hi.dom a e h1
  · intro a e' id hs hm
    obtain ⟨e, h1, h2⟩ := same_sap h hs
    have := hi.addrOf a e id h1 (h2 ▸ hm)
    exact ⟨(h.1 id).trans this.1, Nat.lt_of_lt_of_le this.2 h.2.1⟩
  · intro a e' hs; obtain ⟨e, h1, h2⟩ := same_sap h hs; exact h2 ▸ hi.nodup a e h1
  · intro a e' hs ha; obtain ⟨e, h1, h2⟩ := same_sap h hs; exact h2 ▸ hi.nonempty a e h1 ha
  · obtain ⟨e, h1, h2⟩ := hi.res0; obtain ⟨e', h3, h4⟩ := same_sap' h h1; exact ⟨e', h3, h4.trans h2⟩
  · obtain ⟨e, h1, h2⟩ := hi.res1; obtain ⟨e', h3, h4⟩ := same_sap' h h1; exact ⟨e', h3, h4.trans h2⟩
  · intro id a ha; exact hi.noRes id a ((h.1 id) ▸ ha)
  · rw [h.2.2.2]; exact hi.sdp
  · intro nm a hm
    rw [h.2.2.2] at hm
    rcases hi.names nm a hm with h1 | ⟨h1, h2, h3⟩
    · exact .inl h1
    · refine .inr ⟨h1, ?_, h3⟩
      cases hc : c.sap a with
      | none => simp [hc] at h2
      | some e => obtain ⟨e', h3, _⟩ := same_sap' h hc; simp [h3]
  · rw [h.2.2.2]; exact hi.nameKeys
  · rw [h.2.2.2]; exact hi.nameVals
  · intro id hn; rw [h.1 id]; exact hi.fresh id (Nat.le_trans h.2.1 hn)

theorem init_inv : Inv Sap.init := by
  constructor
  · intro a e h; simp only [Sap.init] at h; split at h <;> first | omega | cases h
  · intro a e id h hm; simp only [Sap.init] at h; split at h <;> cases h; simp at hm
  · intro a e h; simp only [Sap.init] at h; split at h <;> cases h; simp
  · intro a e h ha; simp only [Sap.init] at h; split at h <;> first | omega | cases h
  · exact ⟨{ socks := [] }, by simp [Sap.init], rfl⟩
  · exact ⟨{ socks := [] }, by simp [Sap.init], rfl⟩
  · intro id a h; simp [Sap.init] at h
  · simp [Sap.init]
  · intro nm a h; simp [Sap.init] at h; exact .inl h
  · simp [Sap.init]
  · simp [Sap.init]
  · intro id _; rfl

theorem lookup_append_some {κ ν : Type} [BEq κ] {l m : List (κ × ν)} {k : κ} {v : ν}
    (h : l.lookup k = some v) : (l ++ m).lookup k = some v := by
  induction l with
  | nil => simp [List.lookup] at h
  | cons x t ih =>
    obtain ⟨k', v'⟩ := x
    simp only [List.cons_append, List.lookup] at h ⊢
    split <;> simp_all

theorem lookup_none_not_mem {ν : Type} {l : List (Bytes × ν)} {k : Bytes}
    (h : l.lookup k = none) : k ∉ l.map Prod.fst := by
  induction l with
  | nil => simp
  | cons x t ih =>
    obtain ⟨k', v'⟩ := x
    simp only [List.lookup] at h
    split at h
    · cases h
    · rename_i hne
      simp only [List.map_cons, List.mem_cons, not_or]
      exact ⟨fun he => by simp [he] at hne, ih h⟩

theorem lookup_mem {ν : Type} {l : List (Bytes × ν)} {k : Bytes} {v : ν}
    (h : l.lookup k = some v) : (k, v) ∈ l := by
  induction l with
  | nil => simp [List.lookup] at h
  | cons x t ih =>
    obtain ⟨k', v'⟩ := x
    simp only [List.lookup] at h
    split at h
    · rename_i he; cases h; simp at he; simp [he]
    · exact List.mem_cons_of_mem _ (ih h)

theorem lookup_filter {ν : Type} {l : List (Bytes × ν)} {k : Bytes} {v : ν} {f : Bytes × ν → Bool}
    (h : l.lookup k = some v) (hf : f (k, v) = true) : (l.filter f).lookup k = some v := by
  induction l with
  | nil => simp [List.lookup] at h
  | cons x t ih =>
    obtain ⟨k', v'⟩ := x
    simp only [List.lookup] at h
    split at h
    · rename_i he
      cases h
      simp at he
      subst he
      simp [List.filter, hf]
    · rename_i hne
      simp only [List.filter]
      split
      · simp only [List.lookup, hne]; exact ih h
      · exact ih h

theorem free_ge_two {c : Llc} (hi : Inv c) {a : Nat} (h : c.sap a = none) : 2 ≤ a := by
  obtain ⟨e0, h0, _⟩ := hi.res0
  obtain ⟨e1, h1, _⟩ := hi.res1
  rcases a with _ | _ | a
  · simp [h0] at h
  · simp [h1] at h
  · omega

/-- binding an unbound socket to a free address keeps the invariant -/
theorem inv_bindAt {c : Llc} (hi : Inv c) {id a : Nat} (hfree : c.sap a = none)
    (hu : (c.sock id).addr = none) (hid : id < c.n) (ha : a < 64) : Inv (bindAt c id a) := by
  have h2 := free_ge_two hi hfree
  have hsap : ∀ b e, (bindAt c id a).sap b = some e → (b = a ∧ e.socks = [id]) ∨ (b ≠ a ∧ c.sap b = some e) := by
    intro b e h
    simp only [bindAt, upd] at h
    split at h
    · cases h; exact .inl ⟨by assumption, rfl⟩
    · exact .inr ⟨by assumption, h⟩
  have hsock : ∀ j, j ≠ id → (bindAt c id a).sock j = c.sock j := by
    intro j hj; simp [bindAt, upd, hj]
  constructor
  · intro b e h; rcases hsap b e h with ⟨rfl, _⟩ | ⟨_, h'⟩; exact ha; exact hi.dom b e h'
  · intro b e j h hm
    rcases hsap b e h with ⟨rfl, he⟩ | ⟨hne, h'⟩
    · rw [he] at hm; simp at hm; subst hm; exact ⟨bindAt_addr c j b, hid⟩
    · have := hi.addrOf b e j h' hm
      have hj : j ≠ id := by intro he; subst he; rw [hu] at this; cases this.1
      rw [hsock j hj]; exact this
  · intro b e h; rcases hsap b e h with ⟨_, he⟩ | ⟨_, h'⟩; simp [he]; exact hi.nodup b e h'
  · intro b e h hb; rcases hsap b e h with ⟨_, he⟩ | ⟨_, h'⟩; simp [he]; exact hi.nonempty b e h' hb
  · obtain ⟨e, h0, h1⟩ := hi.res0; exact ⟨e, by simp only [bindAt, upd]; rw [if_neg (by omega)]; exact h0, h1⟩
  · obtain ⟨e, h0, h1⟩ := hi.res1; exact ⟨e, by simp only [bindAt, upd]; rw [if_neg (by omega)]; exact h0, h1⟩
  · intro j b hb
    by_cases hj : j = id
    · subst hj; rw [bindAt_addr] at hb; cases hb; exact h2
    · rw [hsock j hj] at hb; exact hi.noRes j b hb
  · exact hi.sdp
  · intro nm b hm
    rcases hi.names nm b hm with h | ⟨h1, h3, h4⟩
    · exact .inl h
    · refine .inr ⟨h1, ?_, h4⟩
      simp only [bindAt, upd]; split <;> simp_all
  · exact hi.nameKeys
  · exact hi.nameVals
  · intro j hj
    have hj' : c.n ≤ j := hj
    rw [hsock j (by omega)]; exact hi.fresh j hj'

/-- ... and recording the service name for it as well -/
theorem inv_bindName {c : Llc} (hi : Inv c) {id a : Nat} {nm : Bytes} (hfree : c.sap a = none)
    (hu : (c.sock id).addr = none) (hid : id < c.n) (ha : a < 64)
    (hv : validName nm = true) (hl : c.snl.lookup nm = none)
    (hw : wks nm = some a ∨ (wks nm = none ∧ 16 ≤ a ∧ a ≤ 31)) :
    Inv { bindAt c id a with snl := c.snl ++ [(nm, a)] } := by
  have h2 := free_ge_two hi hfree
  have hb := inv_bindAt hi hfree hu hid ha
  constructor
  · exact hb.dom
  · exact hb.addrOf
  · exact hb.nodup
  · exact hb.nonempty
  · exact hb.res0
  · exact hb.res1
  · exact hb.noRes
  · exact lookup_append_some hi.sdp
  · intro nm' b hm
    simp only [List.mem_append, List.mem_singleton, Prod.mk.injEq] at hm
    rcases hm with hm | ⟨rfl, rfl⟩
    · exact hb.names nm' b hm
    · exact .inr ⟨h2, by simp [bindAt, upd], hv, hw⟩
  · simp only [List.map_append, List.map_cons, List.map_nil]
    rw [List.nodup_append]
    refine ⟨hi.nameKeys, by simp, ?_⟩
    intro x hx y hy
    simp at hy; subst hy
    intro he; subst he
    exact lookup_none_not_mem hl hx
  · simp only [List.map_append, List.map_cons, List.map_nil]
    rw [List.nodup_append]
    refine ⟨hi.nameVals, by simp, ?_⟩
    intro x hx y hy
    simp at hy; subst hy
    intro he; subst he
    simp only [List.mem_map] at hx
    obtain ⟨⟨n0, a0⟩, hm, hq⟩ := hx
    simp only at hq
    subst hq
    rcases hi.names n0 a0 hm with ⟨_, h1⟩ | ⟨_, h3, _⟩
    · omega
    · simp [hfree] at h3
  · exact hb.fresh
/-- shape of a successful bind -/
theorem bind_ok_form {c c' : Llc} {id : Nat} {arg : BindArg} (h : bind c id arg = .ok c') :
    (c.sock id).addr = none ∧ ∃ a, c.sap a = none ∧ a < 64 ∧
      (c' = bindAt c id a ∨
       ∃ nm, arg = .name nm ∧ validName nm = true ∧ c.snl.lookup nm = none ∧
         (wks nm = some a ∨ (wks nm = none ∧ 16 ≤ a ∧ a ≤ 31)) ∧
         c' = { bindAt c id a with snl := c.snl ++ [(nm, a)] }) := by
  unfold bind at h
  cases hu : (c.sock id).addr with
  | some a0 => simp [hu] at h
  | none =>
  refine ⟨rfl, ?_⟩
  simp only [hu, Option.isSome_none, Bool.false_eq_true, ↓reduceIte] at h
  cases arg with
  | none =>
    simp only at h
    cases hf : freeIn c 32 32 with
    | none => simp [hf] at h
    | some a =>
      simp only [hf] at h
      cases h
      obtain ⟨h1, h2, h3⟩ := freeIn_some hf
      exact ⟨a, h3, by omega, .inl rfl⟩
  | addr a =>
    simp only at h
    by_cases h0 : a < 0 ∨ a > 63
    · simp [h0] at h
    · simp only [h0, ↓reduceIte] at h
      by_cases h1 : 32 ≤ a ∨ (c.sock id).kind = .raw
      · simp only [h1, ↓reduceIte] at h
        cases hs : c.sap a.toNat with
        | none =>
          simp only [hs, Option.isNone_none, ↓reduceIte] at h
          cases h
          exact ⟨a.toNat, hs, by omega, .inl rfl⟩
        | some e => simp [hs] at h
      · simp [h1] at h
  | name nm =>
    simp only at h
    cases hv : validName nm with
    | false => simp [hv] at h
    | true =>
      simp only [hv, Bool.true_eq_false, ↓reduceIte] at h
      cases hl : c.snl.lookup nm with
      | some a0 => simp [hl] at h
      | none =>
        simp only [hl, Option.isSome_none, Bool.false_eq_true, ↓reduceIte] at h
        cases hw : wks nm with
        | some a =>
          simp only [hw] at h
          cases hs : c.sap a with
          | some e => simp [hs] at h
          | none =>
            simp only [hs, Option.isSome_none, Bool.false_eq_true, ↓reduceIte] at h
            cases h
            have ha : a < 64 := by
              unfold wks at hw
              split at hw
              · cases hw; omega
              · split at hw
                · cases hw; omega
                · cases hw
            exact ⟨a, hs, ha, .inr ⟨nm, rfl, hv, hl, .inl hw, rfl⟩⟩
        | none =>
          simp only [hw] at h
          cases hf : freeIn c 16 16 with
          | none => simp [hf] at h
          | some a =>
            simp only [hf] at h
            cases h
            obtain ⟨h1, h2, h3⟩ := freeIn_some hf
            exact ⟨a, h3, by omega, .inr ⟨nm, rfl, hv, hl, .inr ⟨hw, h1, by omega⟩, rfl⟩⟩

theorem inv_bind {c c' : Llc} (hi : Inv c) {id : Nat} {arg : BindArg} (hid : id < c.n)
    (h : bind c id arg = .ok c') : Inv c' := by
  obtain ⟨hu, a, hs, ha, h1 | ⟨nm, _, hv, hl, hw, h1⟩⟩ := bind_ok_form h
  · subst h1; exact inv_bindAt hi hs hu hid ha
  · subst h1; exact inv_bindName hi hs hu hid ha hv hl hw

theorem bind_n {c c' : Llc} {id : Nat} {arg : BindArg} (h : bind c id arg = .ok c') : c'.n = c.n := by
  unfold bind at h
  repeat' split at h
  all_goals first | (cases h; done) | (cases h; rfl)

theorem inv_bindIfUnbound {c c' : Llc} (hi : Inv c) {id : Nat} (hid : id < c.n)
    (h : bindIfUnbound c id = .ok c') : Inv c' ∧ c'.n = c.n := by
  unfold bindIfUnbound at h
  split at h
  · cases h; exact ⟨hi, rfl⟩
  · exact ⟨inv_bind hi hid h, bind_n h⟩

theorem same_newSocket (c : Llc) (hi : Inv c) (k : Kind) : SameTable c (newSocket c k).1 := by
  refine ⟨fun j => ?_, by simp [newSocket], fun _ => rfl, rfl⟩
  simp only [newSocket, upd]
  split
  · subst_vars; simp [hi.fresh c.n (Nat.le_refl _)]
  · rfl

/-- closing: the invariant survives `remove_socket` -/
theorem inv_removeSocket {c : Llc} (hi : Inv c) {id a : Nat} {e : SapEntry} (hs : c.sap a = some e)
    (ha : (c.sock id).addr = some a) {s' : Sock} (hs' : s'.addr = (c.sock id).addr) :
    Inv (removeSocket c id a e s') := by
  have h2 : 2 ≤ a := hi.noRes id a ha
  have hc1 : SameTable c (setSock c id s') := same_setSock c id s' hs'
  have hi1 := hi.same hc1
  have hs1 : (setSock c id s').sap a = some e := hs
  unfold removeSocket
  simp only
  split
  · -- last socket: the address and its names are freed
    rename_i hrest
    have hsap : ∀ b e', (upd (setSock c id s').sap a none) b = some e' → b ≠ a ∧ (setSock c id s').sap b = some e' := by
      intro b e' h
      simp only [upd] at h
      split at h
      · cases h
      · exact ⟨by assumption, h⟩
    constructor
    · intro b e' h; exact hi1.dom b e' (hsap b e' h).2
    · intro b e' j h hm; exact hi1.addrOf b e' j (hsap b e' h).2 hm
    · intro b e' h; exact hi1.nodup b e' (hsap b e' h).2
    · intro b e' h hb; exact hi1.nonempty b e' (hsap b e' h).2 hb
    · obtain ⟨e0, h0, h1⟩ := hi1.res0; exact ⟨e0, by simp only [upd]; rw [if_neg (by omega)]; exact h0, h1⟩
    · obtain ⟨e0, h0, h1⟩ := hi1.res1; exact ⟨e0, by simp only [upd]; rw [if_neg (by omega)]; exact h0, h1⟩
    · exact hi1.noRes
    · exact lookup_filter hi1.sdp (by simp; omega)
    · intro nm b hm
      simp only [List.mem_filter, bne_iff_ne, ne_eq] at hm
      rcases hi1.names nm b hm.1 with h | ⟨h1, h3, h4⟩
      · exact .inl h
      · refine .inr ⟨h1, ?_, h4⟩
        simp only [upd]; rw [if_neg hm.2]; exact h3
    · exact (List.filter_sublist.map _).nodup hi1.nameKeys
    · exact (List.filter_sublist.map _).nodup hi1.nameVals
    · exact hi1.fresh
  · rename_i hrest
    have hsap : ∀ b e', (upd (setSock c id s').sap a (some { e with socks := e.socks.erase id })) b = some e' →
        (b = a ∧ e'.socks = e.socks.erase id) ∨ (b ≠ a ∧ (setSock c id s').sap b = some e') := by
      intro b e' h
      simp only [upd] at h
      split at h
      · cases h; exact .inl ⟨by assumption, rfl⟩
      · exact .inr ⟨by assumption, h⟩
    constructor
    · intro b e' h; rcases hsap b e' h with ⟨rfl, _⟩ | ⟨_, h'⟩; exact hi1.dom _ e hs1; exact hi1.dom b e' h'
    · intro b e' j h hm
      rcases hsap b e' h with ⟨rfl, he⟩ | ⟨_, h'⟩
      · rw [he] at hm; exact hi1.addrOf _ e j hs1 (List.mem_of_mem_erase hm)
      · exact hi1.addrOf b e' j h' hm
    · intro b e' h
      rcases hsap b e' h with ⟨rfl, he⟩ | ⟨_, h'⟩
      · rw [he]; exact (List.erase_sublist).nodup (hi1.nodup _ e hs1)
      · exact hi1.nodup b e' h'
    · intro b e' h hb
      rcases hsap b e' h with ⟨rfl, he⟩ | ⟨_, h'⟩
      · rw [he]; exact hrest
      · exact hi1.nonempty b e' h' hb
    · obtain ⟨e0, h0, h1⟩ := hi1.res0; exact ⟨e0, by simp only [upd]; rw [if_neg (by omega)]; exact h0, h1⟩
    · obtain ⟨e0, h0, h1⟩ := hi1.res1; exact ⟨e0, by simp only [upd]; rw [if_neg (by omega)]; exact h0, h1⟩
    · exact hi1.noRes
    · exact hi1.sdp
    · intro nm b hm
      rcases hi1.names nm b hm with h | ⟨h1, h3, h4⟩
      · exact .inl h
      · refine .inr ⟨h1, ?_, h4⟩
        simp only [upd]; split <;> simp_all
    · exact hi1.nameKeys
    · exact hi1.nameVals
    · exact hi1.fresh
def PInv (p : Pair) : Prop := Inv p.a ∧ Inv p.b

theorem PInv.same {p p' : Pair} (h : PInv p) (hs : PSame p p') : PInv p' := ⟨h.1.same hs.1, h.2.same hs.2⟩
theorem PInv.get {p : Pair} (h : PInv p) (x : Side) : Inv (p.get x) := by cases x <;> simp [Pair.get] <;> first | exact h.1 | exact h.2
theorem PInv.set {p : Pair} (h : PInv p) (x : Side) {c : Llc} (hc : Inv c) : PInv (p.set x c) := by
  cases x <;> simp only [Pair.set] <;> first | exact ⟨hc, h.2⟩ | exact ⟨h.1, hc⟩
theorem get_set (p : Pair) (x : Side) (c : Llc) : (p.set x c).get x = c := by cases x <;> rfl
theorem PSame.get {p p' : Pair} (h : PSame p p') (x : Side) : SameTable (p.get x) (p'.get x) := by
  cases x <;> simp [Pair.get] <;> first | exact h.1 | exact h.2

/-- replacing a socket record by one with the same address -/
theorem psame_setSock (p : Pair) (x : Side) (id : Nat) (s : Sock) (h : s.addr = ((p.get x).sock id).addr) :
    PSame p (p.set x (setSock (p.get x) id s)) := psame_set p x _ (same_setSock _ _ _ h)

theorem pinv_withBound {p : Pair} {x : Side} {id : Nat} {k : Pair → Step} {r : Pair × Py Out}
    (hp : PInv p) (hid : id < (p.get x).n) (h : withBound p x id k = .ok r)
    (hk : ∀ p1, PInv p1 → id < (p1.get x).n → k p1 = .ok r → PInv r.1) : PInv r.1 := by
  unfold withBound at h
  split at h
  · rename_i c hb
    obtain ⟨h1, h2⟩ := inv_bindIfUnbound (hp.get x) hid hb
    exact hk _ (hp.set x h1) (by rw [get_set, h2]; exact hid) h
  · cases h; exact hp

theorem apiListen_inv {p : Pair} {x : Side} {id bl : Nat} {r : Pair × Py Out} (hp : PInv p)
    (hid : id < (p.get x).n) (h : apiListen p x id bl = .ok r) : PInv r.1 := by
  unfold apiListen at h
  split at h
  · cases h; exact hp
  · refine pinv_withBound hp hid h ?_
    intro p1 hp1 _ hk
    dsimp only at hk
    repeat' split at hk
    all_goals first | (cases hk; exact hp1) | (cases hk; exact hp1.same (psame_setSock _ _ _ _ rfl))

theorem apiSendto_inv {p : Pair} {x : Side} {id : Nat} {m : Bytes} {d : Nat} {r : Pair × Py Out} (hp : PInv p)
    (hid : id < (p.get x).n) (h : apiSendto p x id m d = .ok r) : PInv r.1 := by
  unfold apiSendto at h
  split at h
  · cases h; exact hp
  · refine pinv_withBound hp hid h ?_
    intro p1 hp1 _ hk
    dsimp only at hk
    repeat' split at hk
    all_goals first | (cases hk; done) | (cases hk; exact hp1) | (cases hk; exact hp1.same (psame_setSock _ _ _ _ rfl))
  · repeat' split at h
    all_goals first | (cases h; done) | (cases h; exact hp)

theorem apiSendPdu_inv {p : Pair} {x : Side} {id : Nat} {q : Pdu} {r : Pair × Py Out} (hp : PInv p)
    (hid : id < (p.get x).n) (h : apiSendPdu p x id q = .ok r) : PInv r.1 := by
  unfold apiSendPdu at h
  split at h
  · cases h
  · refine pinv_withBound hp hid h ?_
    intro p1 hp1 _ hk
    dsimp only at hk
    repeat' split at hk
    all_goals first | (cases hk; done) | (cases hk; exact hp1) | (cases hk; exact hp1.same (psame_setSock _ _ _ _ rfl))

theorem apiConnect_inv {p : Pair} {x : Side} {id : Nat} {d : Dest} {r : Pair × Py Out} (hp : PInv p)
    (hid : id < (p.get x).n) (h : apiConnect p x id d = .ok r) : PInv r.1 := by
  unfold apiConnect at h
  refine pinv_withBound hp hid h ?_
  intro p1 hp1 _ hk
  simp only at hk
  split at hk
  · cases hk; exact hp1
  · repeat' split at hk
    all_goals first | (cases hk; done) | (cases hk; exact hp1) | (cases hk; exact hp1.same (psame_setSock _ _ _ _ rfl))
  · repeat' split at hk
    all_goals first | (cases hk; done) | (cases hk; exact hp1) | skip
    all_goals
      simp only [Py.bind_eq_ok] at hk
      obtain ⟨r1, hpop, hk⟩ := hk
      have s0 := popOrPump_same hpop
      have s1 : PSame p1 r1.1 := (psame_set _ _ _ (same_setSock _ _ _ (by rfl))).trans s0
      have hr1 := hp1.same s1
      repeat' split at hk
      all_goals first | (cases hk; exact hr1) | (cases hk; exact hr1.same (psame_setSock _ _ _ _ rfl))

/-- `accept`: the new socket joins the SAP of the listening socket -/
theorem inv_accept {c : Llc} (hi : Inv c) {id a : Nat} {e : SapEntry} {s' child : Sock}
    (hid : id < c.n) (hs : c.sap a = some e) (ha : (c.sock id).addr = some a)
    (hs' : s'.addr = some a) (hc : child.addr = some a) :
    Inv { c with n := c.n + 1, sock := upd (upd c.sock id s') c.n child,
                 sap := upd c.sap a (some { e with socks := c.n :: e.socks }) } := by
  have h2 : 2 ≤ a := hi.noRes id a ha
  have hsock : ∀ j, (upd (upd c.sock id s') c.n child j).addr =
      if j = c.n then some a else (c.sock j).addr := by
    intro j
    simp only [upd]
    split
    · exact hc
    · split
      · subst_vars; rw [hs', ha]
      · rfl
  have hsap : ∀ b e', upd c.sap a (some { e with socks := c.n :: e.socks }) b = some e' →
      (b = a ∧ e'.socks = c.n :: e.socks) ∨ (b ≠ a ∧ c.sap b = some e') := by
    intro b e' h
    simp only [upd] at h
    split at h
    · cases h; exact .inl ⟨by assumption, rfl⟩
    · exact .inr ⟨by assumption, h⟩
  constructor
  · intro b e' h; rcases hsap b e' h with ⟨rfl, _⟩ | ⟨_, h'⟩; exact hi.dom _ e hs; exact hi.dom b e' h'
  · intro b e' j h hm
    show (upd (upd c.sock id s') c.n child j).addr = some b ∧ j < c.n + 1
    rw [hsock j]
    rcases hsap b e' h with ⟨rfl, he⟩ | ⟨hne, h'⟩
    · rw [he] at hm
      simp only [List.mem_cons] at hm
      rcases hm with rfl | hm
      · simp
      · have := hi.addrOf _ e j hs hm
        rw [if_neg (by omega)]; exact ⟨this.1, by omega⟩
    · have := hi.addrOf b e' j h' hm
      rw [if_neg (by omega)]; exact ⟨this.1, by omega⟩
  · intro b e' h
    rcases hsap b e' h with ⟨rfl, he⟩ | ⟨_, h'⟩
    · rw [he]
      refine List.nodup_cons.mpr ⟨?_, hi.nodup _ e hs⟩
      intro hm; have := (hi.addrOf _ e c.n hs hm).2; omega
    · exact hi.nodup b e' h'
  · intro b e' h hb
    rcases hsap b e' h with ⟨_, he⟩ | ⟨_, h'⟩
    · rw [he]; simp
    · exact hi.nonempty b e' h' hb
  · obtain ⟨e0, h0, h1⟩ := hi.res0; exact ⟨e0, by simp only [upd]; rw [if_neg (by omega)]; exact h0, h1⟩
  · obtain ⟨e0, h0, h1⟩ := hi.res1; exact ⟨e0, by simp only [upd]; rw [if_neg (by omega)]; exact h0, h1⟩
  · intro j b hb
    have hb : (upd (upd c.sock id s') c.n child j).addr = some b := hb
    rw [hsock j] at hb
    split at hb
    · cases hb; exact h2
    · exact hi.noRes j b hb
  · exact hi.sdp
  · intro nm b hm
    rcases hi.names nm b hm with h | ⟨h1, h3, h4⟩
    · exact .inl h
    · refine .inr ⟨h1, ?_, h4⟩
      simp only [upd]; split <;> simp_all
  · exact hi.nameKeys
  · exact hi.nameVals
  · intro j hj
    have hj : c.n + 1 ≤ j := hj
    show (upd (upd c.sock id s') c.n child j).addr = none
    rw [hsock j, if_neg (by omega)]
    exact hi.fresh j (by omega)

/-- a new socket that carries an address but is in no SAP (only on the `AttributeError` path of `accept`) -/
theorem inv_orphan {c : Llc} (hi : Inv c) {id a : Nat} {s' child : Sock}
    (hid : id < c.n) (hs' : s'.addr = (c.sock id).addr) (hc : child.addr = some a) (h2 : 2 ≤ a) :
    Inv { c with n := c.n + 1, sock := upd (upd c.sock id s') c.n child } := by
  have hsock : ∀ j, (upd (upd c.sock id s') c.n child j).addr =
      if j = c.n then some a else (c.sock j).addr := by
    intro j
    simp only [upd]
    split
    · exact hc
    · split
      · subst_vars; rw [hs']
      · rfl
  constructor
  · exact hi.dom
  · intro b e j h hm
    show (upd (upd c.sock id s') c.n child j).addr = some b ∧ j < c.n + 1
    have := hi.addrOf b e j h hm
    rw [hsock j, if_neg (by omega)]; exact ⟨this.1, by omega⟩
  · exact hi.nodup
  · exact hi.nonempty
  · exact hi.res0
  · exact hi.res1
  · intro j b hb
    have hb : (upd (upd c.sock id s') c.n child j).addr = some b := hb
    rw [hsock j] at hb
    split at hb
    · cases hb; exact h2
    · exact hi.noRes j b hb
  · exact hi.sdp
  · exact hi.names
  · exact hi.nameKeys
  · exact hi.nameVals
  · intro j hj
    have hj : c.n + 1 ≤ j := hj
    show (upd (upd c.sock id s') c.n child j).addr = none
    rw [hsock j, if_neg (by omega)]
    exact hi.fresh j (by omega)

theorem apiAccept_inv {p : Pair} {x : Side} {id : Nat} {r : Pair × Py Out} (hp : PInv p)
    (hid : id < (p.get x).n) (h : apiAccept p x id = .ok r) : PInv r.1 := by
  unfold apiAccept at h
  simp only at h
  repeat' split at h
  all_goals first | (cases h; exact hp) | skip
  simp only [Py.bind_eq_ok] at h
  obtain ⟨r1, hpop, h⟩ := h
  have s0 := popOrPump_same hpop
  have s1 : PSame p r1.1 := (psame_set _ _ _ (same_setSock _ _ _ (by rfl))).trans s0
  have hr1 := hp.same s1
  have hn : id < (r1.1.get x).n := Nat.lt_of_lt_of_le hid (s1.get x).2.1
  repeat' split at h
  all_goals first | (cases h; done) | (cases h; exact hr1) | skip
  · -- SAP of the listener has gone: `AttributeError`, the new socket exists unbound in no SAP
    rename_i a haddr _ hsap
    cases h
    refine hr1.set x ?_
    exact inv_orphan (hr1.get x) hn rfl (a := a) rfl ((hr1.get x).noRes id a haddr)
  · rename_i a haddr _ e hsap
    cases h
    refine hr1.set x ?_
    have hsap : (r1.1.get x).sap a = some e := hsap
    exact inv_accept (hr1.get x) hn hsap haddr haddr rfl

theorem apiRecvfrom_inv {p : Pair} {x : Side} {id : Nat} {r : Pair × Py Out} (hp : PInv p)
    (h : apiRecvfrom p x id = .ok r) : PInv r.1 := by
  unfold apiRecvfrom at h
  simp only at h
  repeat' split at h
  all_goals first | (cases h; exact hp) | skip
  all_goals
    simp only [Py.bind_eq_ok] at h
    obtain ⟨r1, hpop, h⟩ := h
    have hr1 := hp.same (popOrPump_same hpop)
    repeat' split at h
    all_goals first | (cases h; exact hr1) | (cases h; exact hr1.same (psame_setSock _ _ _ _ rfl))

theorem apiResolve_inv {p : Pair} {x : Side} {nm : Bytes} {r : Pair × Py Out} (hp : PInv p)
    (h : apiResolve p x nm = .ok r) : PInv r.1 := by
  unfold apiResolve at h
  simp only at h
  repeat' split at h
  all_goals first | (cases h; exact hp) | skip
  simp only [Py.bind_eq_ok] at h
  obtain ⟨p1, hpump, h⟩ := h
  have s1 : PSame p p1 := (psame_set _ _ _ (same_sd _ _)).trans (pump_same _ hpump)
  repeat' split at h
  all_goals first | (cases h; done) | (cases h; exact hp.same s1)

theorem apiResolveMany_same {p : Pair} {x : Side} {nms : List Bytes} {r : Pair × Py Out}
    (h : apiResolveMany p x nms = .ok r) : PSame p r.1 := by
  unfold apiResolveMany at h
  simp only at h
  split at h
  · cases h
  · simp only [Py.bind_eq_ok] at h
    obtain ⟨p1, hpump, h⟩ := h
    have s1 : PSame p p1 := by
      split at hpump
      · cases hpump; exact .refl _
      · exact (psame_set _ _ _ (same_sd _ _)).trans (pump_same _ hpump)
    split at h
    · cases h; exact s1
    · cases h

theorem apiResolveMany_inv {p : Pair} {x : Side} {nms : List Bytes} {r : Pair × Py Out} (hp : PInv p)
    (h : apiResolveMany p x nms = .ok r) : PInv r.1 := hp.same (apiResolveMany_same h)

theorem sockClose_same {p p' : Pair} {x : Side} {id : Nat} (h : sockClose p x id = .ok p') : PSame p p' := by
  unfold sockClose at h
  simp only at h
  repeat' split at h
  all_goals first | (cases h; done) | (cases h; exact psame_setSock _ _ _ _ rfl) | skip
  simp only [Py.bind_eq_ok] at h
  obtain ⟨r1, hpop, h⟩ := h
  cases h
  have s0 := popOrPump_same hpop
  exact ((psame_set _ _ _ (same_setSock _ _ _ (by rfl))).trans s0).trans (psame_setSock _ _ _ _ rfl)

theorem apiClose_inv {p : Pair} {x : Side} {id : Nat} {r : Pair × Py Out} (hp : PInv p)
    (h : apiClose p x id = .ok r) : PInv r.1 := by
  unfold apiClose at h
  split at h
  · simp only [Py.bind_eq_ok] at h
    obtain ⟨p1, hc, h⟩ := h
    cases h; exact hp.same (sockClose_same hc)
  · rename_i a haddr
    split at h
    · simp only [Py.bind_eq_ok] at h
      obtain ⟨p1, hc, h⟩ := h
      cases h; exact hp.same (sockClose_same hc)
    · simp only [Py.bind_eq_ok] at h
      obtain ⟨p1, hc, h⟩ := h
      have s1 := sockClose_same hc
      have hp1 := hp.same s1
      split at h
      · cases h; exact hp1
      · rename_i e1 hsap
        cases h
        refine hp1.set x ?_
        have ha : ((p1.get x).sock id).addr = some a := by rw [(s1.get x).1 id]; exact haddr
        exact inv_removeSocket (hp1.get x) hsap ha rfl

theorem applyOp_inv {p : Pair} {op : Op} {r : Pair × Py Out} (hp : PInv p) (hw : op.wf p = true)
    (h : applyOp p op = .ok r) : PInv r.1 := by
  cases op with
  | socket x k => cases h; exact hp.same (psame_set _ _ _ (same_newSocket _ (hp.get x) k))
  | bind x id arg =>
    have hid : id < (p.get x).n := (by have := hw; simp only [Op.wf, Op.sock?, Op.side] at this; exact of_decide_eq_true this)
    simp only [applyOp, apiBind] at h
    split at h
    · rename_i c hb; cases h; exact hp.set x (inv_bind (hp.get x) hid hb)
    · cases h; exact hp
  | listen x id bl => exact apiListen_inv hp ((by have := hw; simp only [Op.wf, Op.sock?, Op.side] at this; exact of_decide_eq_true this)) h
  | connect x id d => exact apiConnect_inv hp ((by have := hw; simp only [Op.wf, Op.sock?, Op.side] at this; exact of_decide_eq_true this)) h
  | accept x id => exact apiAccept_inv hp ((by have := hw; simp only [Op.wf, Op.sock?, Op.side] at this; exact of_decide_eq_true this)) h
  | sendto x id m d => exact apiSendto_inv hp ((by have := hw; simp only [Op.wf, Op.sock?, Op.side] at this; exact of_decide_eq_true this)) h
  | sendpdu x id d s m => exact apiSendPdu_inv hp ((by have := hw; simp only [Op.wf, Op.sock?, Op.side] at this; exact of_decide_eq_true this)) h
  | recvfrom x id => exact apiRecvfrom_inv hp h
  | resolve x nm => exact apiResolve_inv hp h
  | close x id => exact apiClose_inv hp h
  | xfer x =>
    simp only [applyOp, apiXfer, Py.bind_eq_ok] at h
    obtain ⟨r1, hx, h⟩ := h
    cases h
    exact hp.same (xfer_same (p' := r1.1) (m := r1.2) hx)
  | resolveMany x nms => exact apiResolveMany_inv hp h
  | sendsnl x id rq rs => exact apiSendPdu_inv hp ((by have := hw; simp only [Op.wf, Op.sock?, Op.side] at this; exact of_decide_eq_true this)) h

theorem apply_inv {p : Pair} {op : Op} {r : Pair × Py Out} (hp : PInv p) (h : apply p op = .ok r) : PInv r.1 := by
  unfold apply at h
  split at h
  · rename_i hw; exact applyOp_inv hp hw h
  · cases h

/-- the invariant holds in every state reachable by any operation history -/
theorem run_inv : ∀ (ops : List Op) {p : Pair}, PInv p → PInv (run p ops)
  | [], _, hp => hp
  | op :: t, p, hp => by
    unfold run
    split
    · rename_i p1 r h; exact run_inv t (apply_inv (r := (p1, r)) hp h)
    · exact hp

theorem reach_inv (ops : List Op) : PInv (run Pair.init ops) := run_inv ops ⟨init_inv, init_inv⟩
/-! ## routing -/

theorem setSock_other (c : Llc) (id j : Nat) (s : Sock) (h : j ≠ id) : (setSock c id s).sock j = c.sock j := by
  simp [setSock, upd, h]

theorem target_mem {c : Llc} {e : SapEntry} {p : Pdu} {j : Nat} (h : target c e p = some j) : j ∈ e.socks := by
  unfold target at h
  split at h <;> exact List.mem_of_find?_eq_some h

/-- `ServiceAccessPoint.enqueue` changes at most the socket it selects -/
theorem sapEnqueue_touch {c c' : Llc} {a : Nat} {e : SapEntry} {p : Pdu}
    (h : sapEnqueue c a e p = .ok c') {j : Nat} (hj : c'.sock j ≠ c.sock j) :
    target c e p = some j ∧ sockEnqueue (c.sock j) p = some (c'.sock j) := by
  unfold sapEnqueue at h
  split at h
  · rename_i id ht
    split at h
    · rename_i s' hq
      cases h
      by_cases hji : j = id
      · subst hji; exact ⟨ht, by simpa [setSock, upd] using hq⟩
      · exact absurd (setSock_other _ _ _ _ hji) hj
    · cases h
  · repeat' split at h
    all_goals (cases h; exact absurd rfl hj)

/-- `dispatch` changes at most one socket: the one selected at the destination SAP
(for connect-by-name: at the SAP registered under the service name) -/
theorem dispatch_touch {c c' : Llc} {p : Pdu} (h : dispatch c p = .ok c') {j : Nat} (hj : c'.sock j ≠ c.sock j) :
    ∃ a e, c.sap a = some e ∧ j ∈ e.socks ∧
      ((a = p.dsap ∧ sockEnqueue (c.sock j) p = some (c'.sock j)) ∨
       (∃ ss nm, p = .conn 1 ss (some nm) ∧ c.snl.lookup nm = some a ∧ (c.sock j).st = .listen)) := by
  unfold dispatch at h
  split at h
  · cases h; exact absurd rfl hj
  · rename_i ss sn
    split at h
    · cases h; exact absurd rfl hj
    · rename_i addr hl
      split at h
      · cases h; exact absurd rfl hj
      · rename_i e hs
        split at hs
        · cases hs
        · split at h
          · cases h; exact absurd rfl hj
          · obtain ⟨ht, hq⟩ := sapEnqueue_touch h hj
            cases sn with
            | none => simp at hl
            | some nm =>
              simp only [Option.bind_some] at hl
              refine ⟨addr, e, hs, target_mem ht, .inr ⟨ss, nm, rfl, hl, ?_⟩⟩
              simp only [target, Pdu.isConn, ↓reduceIte] at ht
              simpa using List.find?_some ht
  · split at h
    · cases h; exact absurd rfl hj
    · split at h
      · cases h; exact absurd rfl hj
      · rename_i e hs
        obtain ⟨ht, hq⟩ := sapEnqueue_touch h hj
        exact ⟨_, e, hs, target_mem ht, .inl ⟨rfl, hq⟩⟩

/-- a UI PDU is delivered only to a socket bound at its destination address;
a raw or logical-data-link socket that takes it gets exactly that PDU appended -/
theorem ui_delivery {c c' : Llc} (hi : Inv c) {d s : Nat} {m : Bytes} (h : dispatch c (.ui d s m) = .ok c')
    {j : Nat} (hj : c'.sock j ≠ c.sock j) :
    (c.sock j).addr = some d ∧
    ((c.sock j).kind ≠ .dlc → c'.sock j = { c.sock j with recvq := (c.sock j).recvq ++ [.ui d s m] }) := by
  obtain ⟨a, e, hs, hm, h1 | ⟨_, _, h1, _⟩⟩ := dispatch_touch h hj
  · obtain ⟨rfl, hq⟩ := h1
    refine ⟨(hi.addrOf _ e j hs hm).1, fun hk => ?_⟩
    unfold sockEnqueue at hq
    split at hq
    · simp only [appendRecv] at hq
      split at hq
      · exact (Option.some.inj hq).symm
      · exact absurd (Option.some.inj hq).symm hj
    · simp only at hq
      split at hq
      · exact absurd (Option.some.inj hq).symm hj
      · simp only [appendRecv] at hq
        split at hq
        · exact (Option.some.inj hq).symm
        · exact absurd (Option.some.inj hq).symm hj
    · rename_i hk'; exact absurd hk' hk
  · cases h1

/-- connect-by-name: only a listening socket bound at the address registered under
the name can receive the request -/
theorem by_name_exact {c c' : Llc} (hi : Inv c) {ss : Nat} {nm : Bytes}
    (h : dispatch c (.conn 1 ss (some nm)) = .ok c') {j : Nat} (hj : c'.sock j ≠ c.sock j) :
    ∃ a, c.snl.lookup nm = some a ∧ (c.sock j).addr = some a ∧ (c.sock j).st = .listen := by
  obtain ⟨a, e, hs, hm, h1 | ⟨ss', nm', h1, h2, h3⟩⟩ := dispatch_touch h hj
  · -- the direct branch is impossible: SAP 1 has no sockets
    obtain ⟨rfl, _⟩ := h1
    obtain ⟨e1, h4, h5⟩ := hi.res1
    simp only [Pdu.dsap] at hs
    rw [h4] at hs; cases hs
    rw [h5] at hm; cases hm
  · cases h1
    exact ⟨a, h2, (hi.addrOf a e j hs hm).1, h3⟩

/-- ... and when the name is not registered nothing is delivered, the peer gets DM(reason 2) -/
theorem by_name_absent {c : Llc} {ss : Nat} {nm : Bytes} (h : c.snl.lookup nm = none) :
    dispatch c (.conn 1 ss (some nm)) =
      .ok { c with sd := { c.sd with dmpdu := c.sd.dmpdu ++ [.dm ss 1 2] } } := by
  simp [dispatch, h]

/-- a registered name always points to a live SAP (no stale names) -/
theorem name_live {c : Llc} (hi : Inv c) {nm : Bytes} {a : Nat} (h : c.snl.lookup nm = some a) :
    (nm = nameSdp ∧ a = 1) ∨ (2 ≤ a ∧ ∃ e, c.sap a = some e ∧ e.socks ≠ [] ∧ ∀ j ∈ e.socks, (c.sock j).addr = some a) := by
  rcases hi.names nm a (lookup_mem h) with h1 | ⟨h1, h2, _⟩
  · exact .inl h1
  · cases hs : c.sap a with
    | none => simp [hs] at h2
    | some e => exact .inr ⟨h1, e, rfl, hi.nonempty a e hs h1, fun j hj => (hi.addrOf a e j hs hj).1⟩

theorem dictSet_lookup {ν : Type} (k : Bytes) (v : ν) (l : List (Bytes × ν)) : (dictSet k v l).lookup k = some v := by
  induction l with
  | nil => simp [dictSet]
  | cons x t ih =>
    obtain ⟨k', v'⟩ := x
    simp only [dictSet]
    split
    · rename_i he; simp at he; subst he; simp [List.lookup]
    · rename_i hne
      simp only [List.lookup]
      have : (k == k') = false := by
        simp only [beq_eq_false_iff_ne, ne_eq]
        intro h; subst h; simp at hne
      rw [this]; exact ih

/-- service discovery, responder side: the answer to SDREQ(tid, name) is the address
registered under the name, or 0 -/
theorem sdreq_answer (c : Llc) (tid : Nat) (nm : Bytes) :
    ∃ c', dispatch c (.snl [(tid, nm)] []) = .ok c' ∧
      c'.sd.sdres = c.sd.sdres ++ [(tid, (c.snl.lookup nm).getD 0)] ∧ c'.sock = c.sock ∧ c'.sap = c.sap ∧ c'.snl = c.snl :=
  ⟨_, rfl, rfl, rfl, rfl, rfl⟩

/-- requester side: SDRES(tid, a) for an outstanding request stores exactly `a` for that name -/
theorem sdres_cached (c : Llc) (tid a : Nat) (nm : Bytes) (hs : c.sd.sent.lookup tid = some nm) (ha : a < 64) :
    ∃ c', dispatch c (.snl [] [(tid, a)]) = .ok c' ∧ c'.sd.cache.lookup nm = some a := by
  refine ⟨_, rfl, ?_⟩
  simp only [sdRequests, sdResponses, hs]
  have h1 : a / 64 % 2 = 0 := by rw [Nat.div_eq_of_lt ha]
  have h2 : a % 64 = a := Nat.mod_eq_of_lt ha
  simp only [h1, h2, Nat.zero_ne_one, ↓reduceIte]
  exact dictSet_lookup nm a _

/-- closing the last socket of an address frees the address and forgets its names;
other addresses and names are untouched -/
theorem removeSocket_last (c : Llc) (id a : Nat) (e : SapEntry) (s' : Sock) (h : e.socks = [id]) :
    (removeSocket c id a e s').sap a = none ∧
    (∀ nm, (removeSocket c id a e s').snl.lookup nm ≠ some a) ∧
    (∀ b, b ≠ a → (removeSocket c id a e s').sap b = c.sap b) ∧
    (∀ nm b, b ≠ a → c.snl.lookup nm = some b → (removeSocket c id a e s').snl.lookup nm = some b) := by
  have hr : e.socks.erase id = [] := by rw [h]; simp
  simp only [removeSocket, hr, ↓reduceIte]
  refine ⟨by simp [upd], ?_, ?_, ?_⟩
  · intro nm hl
    have := lookup_mem hl
    simp at this
  · intro b hb; simp [upd, hb, setSock]
  · intro nm b hb hl
    exact lookup_filter hl (by simp; exact hb)

/-- closing one of several sockets keeps the address and its names -/
theorem removeSocket_more (c : Llc) (id a : Nat) (e : SapEntry) (s' : Sock) (h : e.socks.erase id ≠ []) :
    (removeSocket c id a e s').sap a = some { e with socks := e.socks.erase id } ∧
    (removeSocket c id a e s').snl = c.snl := by
  simp only [removeSocket, h, ↓reduceIte]
  exact ⟨by simp [upd], rfl⟩
end NfcVerif.Sap
