import NfcVerif.Lemmas.Dlc
/-!
# `collect()` / `dispatch()` are compositions of atomic steps
-/
namespace NfcVerif.Dlc

theorem run_append (s : Sys) (o1 o2 : List (Side × Op)) : run s (o1 ++ o2) = run (run s o1) o2 := by
  simp [run, List.foldl_append]

theorem run_one (s : Sys) (x : Side) (op : Op) : (step s x op).1 = run s [(x, op)] := rfl

theorem aggLoop_is_run (x : Side) (link fuel : Nat) (s : Sys) (frame : List Pdu) (budget : Int) :
    ∃ ops, (aggLoop x link fuel s frame budget).1 = run s ops := by
  induction fuel generalizing s frame budget with
  | zero => exact ⟨[], rfl⟩
  | succ n ih =>
    simp only [aggLoop]
    split
    · exact ⟨[(x, .deq budget)], rfl⟩
    · split
      · exact ⟨[(x, .deq budget)], rfl⟩
      · obtain ⟨ops, h⟩ := ih (step s x (.deq budget)).1 _ _
        exact ⟨(x, .deq budget) :: ops, by rw [h]; rfl⟩

/-- the state after `collect()` is reached by a sequence of atomic steps of the same endpoint -/
theorem collect_is_run (s : Sys) (x : Side) (link : Nat) (agf : Bool) (fuel : Nat) :
    ∃ ops, (collect s x link agf fuel).1 = run s ops := by
  unfold collect
  dsimp only
  split
  · split
    · exact ⟨[(x, .deq link)], rfl⟩
    split
    · exact ⟨[(x, .deq link)], rfl⟩
    obtain ⟨ops, h⟩ := aggLoop_is_run x link fuel (step s x (.deq link)).1 [‹Pdu›]
      ((link : Int) - agfLen [‹Pdu›] - 3)
    split
    · exact ⟨((x, .deq link) :: ops) ++ [(x, .ack)], by
        rw [run_append, run_one]; congr 1⟩
    · exact ⟨(x, .deq link) :: ops, by rw [h]; rfl⟩
  · split
    · exact ⟨[(x, .deq link), (x, .ack)], rfl⟩
    split
    · exact ⟨[(x, .deq link), (x, .ack)], rfl⟩
    obtain ⟨ops, h⟩ := aggLoop_is_run x link fuel (step (step s x (.deq link)).1 x .ack).1 [‹Pdu›]
      ((link : Int) - agfLen [‹Pdu›] - 3)
    split
    · exact ⟨((x, .deq link) :: (x, .ack) :: ops) ++ [(x, .ack)], by
        rw [run_append, run_one]; congr 1⟩
    · exact ⟨(x, .deq link) :: (x, .ack) :: ops, by rw [h]; rfl⟩

/-- `dispatch()` of a frame of `n` PDUs is `n` atomic deliveries -/
theorem deliverN_is_run (s : Sys) (x : Side) (n : Nat) :
    deliverN s x n = run s (List.replicate n (x, .dlv)) := by
  induction n generalizing s with
  | zero => rfl
  | succ n ih => simp only [deliverN, List.replicate_succ]; rw [ih]; rfl

end NfcVerif.Dlc
