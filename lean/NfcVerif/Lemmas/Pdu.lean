import NfcVerif.Model.Pdu
/-!
# Lemmas about the LLCP PDU model (property C11)

1. `len` equals the length of the encoding (`len_eq`)
2. decoding raises nothing but `DecodeError` (`decodeAt_safe`)
3. locality: `decodeAt`/`decodeNested` see only the octets of the PDU
4. round trip `decode (encode p) = p` for valid PDUs (`roundtrip`)
-/
namespace NfcVerif.Pdu
open NfcVerif

/-! ## small facts about the primitives -/

theorem orShl_eq (a k b : Nat) (h : b < 2 ^ k) : orShl a k b = a * 2 ^ k + b := by
  unfold orShl
  rw [← Nat.shiftLeft_add_eq_or_of_lt h, Nat.shiftLeft_eq]

theorem sliceN_all {α} (l : List α) : sliceN l 0 (0 + l.length) = l := by
  simp [sliceN]

theorem sliceN_append_mid {α} (pre e post : List α) :
    sliceN (pre ++ e ++ post) pre.length (pre.length + e.length) = e := by
  simp [sliceN]

theorem sliceN_length {α} (l : List α) (a n : Nat) (h : a + n ≤ l.length) : (sliceN l a (a + n)).length = n := by
  simp [sliceN]; omega

theorem unpackBB_ok {d : Bytes} {off : Nat} (h : off + 2 ≤ d.length) :
    ∃ a b, unpackBB d off = .ok (a, b) := by
  have h0 : off < d.length := by omega
  have h1 : off + 1 < d.length := by omega
  refine ⟨d[off], d[off+1], ?_⟩
  simp [unpackBB, List.getElem?_eq_getElem h0, List.getElem?_eq_getElem h1]

theorem unpackBBB_ok {d : Bytes} {off : Nat} (h : off + 3 ≤ d.length) :
    ∃ a b c, unpackBBB d off = .ok (a, b, c) := by
  have h0 : off < d.length := by omega
  have h1 : off + 1 < d.length := by omega
  have h2 : off + 2 < d.length := by omega
  refine ⟨d[off], d[off+1], d[off+2], ?_⟩
  simp [unpackBBB, List.getElem?_eq_getElem h0, List.getElem?_eq_getElem h1, List.getElem?_eq_getElem h2]

theorem unpackBBBB_ok {d : Bytes} {off : Nat} (h : off + 4 ≤ d.length) :
    ∃ a b c e, unpackBBBB d off = .ok (a, b, c, e) := by
  have h0 : off < d.length := by omega
  have h1 : off + 1 < d.length := by omega
  have h2 : off + 2 < d.length := by omega
  have h3 : off + 3 < d.length := by omega
  refine ⟨d[off], d[off+1], d[off+2], d[off+3], ?_⟩
  simp [unpackBBBB, List.getElem?_eq_getElem h0, List.getElem?_eq_getElem h1, List.getElem?_eq_getElem h2,
    List.getElem?_eq_getElem h3]

theorem unpackB_ok {d : Bytes} {off : Nat} (h : off + 1 ≤ d.length) : ∃ a, unpackB d off = .ok a := by
  have h0 : off < d.length := by omega
  exact ⟨d[off], by simp [unpackB, List.getElem?_eq_getElem h0]⟩

theorem unpackH_ok {d : Bytes} {off : Nat} (h : off + 2 ≤ d.length) : ∃ a, unpackH d off = .ok a := by
  have h0 : off < d.length := by omega
  have h1 : off + 1 < d.length := by omega
  exact ⟨d[off] * 256 + d[off+1], by simp [unpackH, List.getElem?_eq_getElem h0, List.getElem?_eq_getElem h1]⟩

theorem idxN_ok {d : Bytes} {off : Nat} (h : off + 1 ≤ d.length) : ∃ a, idxN d off = .ok a := by
  have h0 : off < d.length := by omega
  exact ⟨d[off], by simp [idxN, List.getElem?_eq_getElem h0]⟩

theorem unpackS_ok_length {n : Nat} {d : Bytes} {off : Nat} {v : Bytes} (h : unpackS n d off = .ok v) :
    v.length = n := by
  unfold unpackS at h
  split at h
  · cases h; simp; omega
  · cases h

/-! ## 1. len -/
namespace Impl

theorem encodeHeader_len {t d s : Nat} {h : Bytes} (e : encodeHeader t d s = .ok h) : h.length = 2 := by
  unfold encodeHeader at e
  split at e
  · cases e
  · simp only at e
    split at e
    · cases e
    · cases e; rfl

theorem encodeHeaderN_len {t d s ns nr : Nat} {h : Bytes} (e : encodeHeaderN t d s ns nr = .ok h) :
    h.length = 3 := by
  unfold encodeHeaderN at e
  obtain ⟨h0, e0, e1⟩ := Py.bind_eq_ok.mp e
  split at e1
  · cases e1
  · cases e1; simp [encodeHeader_len e0]

theorem encB_len {t v : Nat} {b : Bytes} (e : encB t v = .ok b) : b.length = 3 := by
  unfold encB at e; split at e <;> cases e; rfl

theorem encH_len {t v : Nat} {b : Bytes} (e : encH t v = .ok b) : b.length = 4 := by
  unfold encH at e; split at e <;> cases e; rfl

theorem encS_len {t : Nat} {v b : Bytes} (e : encS t v = .ok b) : b.length = 2 + v.length := by
  unfold encS at e; split at e <;> cases e; simp; omega

theorem optTlv_len {enc : Nat → Py Bytes} {n : Nat} (henc : ∀ v b, enc v = .ok b → b.length = n)
    {o : Option Nat} {b : Bytes} (e : optTlv enc o = .ok b) : b.length = optLen n o := by
  cases o with
  | none => cases e; rfl
  | some v => exact henc v b e

theorem truthyTlv_len {t : Nat} {o : Option Bytes} {b : Bytes} (e : truthyTlv t o = .ok b) :
    b.length = truthyLen o := by
  cases o with
  | none => cases e; rfl
  | some v =>
    simp only [truthyTlv, truthyLen] at e ⊢
    split at e
    · rename_i hv; cases e; simp [hv]
    · rename_i hv; simp [hv, encS_len e]

theorem encList_sdreq_len {q : List (Nat × Bytes)} {b : Bytes} (e : encList encSdreq q = .ok b) :
    b.length = sumMap (fun r => 3 + r.2.length) q := by
  induction q generalizing b with
  | nil => cases e; rfl
  | cons x xs ih =>
    simp only [encList] at e
    obtain ⟨a, ea, e⟩ := Py.bind_eq_ok.mp e
    obtain ⟨r, er, e⟩ := Py.bind_eq_ok.mp e
    cases e
    have hr := ih er
    unfold encSdreq at ea
    split at ea
    · cases ea
    · split at ea
      · cases ea
      · cases ea; simp [sumMap, hr]; omega

theorem encList_sdres_len {q : List (Nat × Nat)} {b : Bytes} (e : encList encSdres q = .ok b) :
    b.length = q.length * 4 := by
  induction q generalizing b with
  | nil => cases e; rfl
  | cons x xs ih =>
    simp only [encList] at e
    obtain ⟨a, ea, e⟩ := Py.bind_eq_ok.mp e
    obtain ⟨r, er, e⟩ := Py.bind_eq_ok.mp e
    cases e
    have hr := ih er
    unfold encSdres at ea
    split at ea
    · cases ea
    · cases ea; simp [hr]; omega

theorem ite_enc_len {c : Prop} [Decidable c] {x : Py Bytes} {n : Nat} {b : Bytes}
    (hx : ∀ b, x = .ok b → b.length = n) (e : (if c then x else pure []) = .ok b) :
    b.length = if c then n else 0 := by
  split at e
  · rename_i hc; simp [hc, hx b e]
  · rename_i hc; cases e; simp [hc]

theorem lenS_eq {p : SPdu} {b : Bytes} (e : encodeS p = .ok b) : lenS p = b.length := by
  cases p with
  | symm d s =>
    simp only [encodeS] at e
    split at e
    · cases e
    · simp [lenS, encodeHeader_len e]
  | pax d s ver miux wks lto opt =>
    simp only [encodeS] at e
    split at e
    · cases e
    · obtain ⟨h, eh, e⟩ := Py.bind_eq_ok.mp e
      obtain ⟨a, ea, e⟩ := Py.bind_eq_ok.mp e
      obtain ⟨b1, eb, e⟩ := Py.bind_eq_ok.mp e
      obtain ⟨c, ec, e⟩ := Py.bind_eq_ok.mp e
      obtain ⟨f, ef, e⟩ := Py.bind_eq_ok.mp e
      obtain ⟨g, eg, e⟩ := Py.bind_eq_ok.mp e
      cases e
      simp [lenS, encodeHeader_len eh, optTlv_len (fun _ _ => encB_len) ea, optTlv_len (fun _ _ => encH_len) eb,
        optTlv_len (fun _ _ => encH_len) ec, optTlv_len (fun _ _ => encB_len) ef, optTlv_len (fun _ _ => encB_len) eg]
      omega
  | ui d s data =>
    simp only [encodeS] at e
    obtain ⟨h, eh, e⟩ := Py.bind_eq_ok.mp e
    cases e; simp [lenS, encodeHeader_len eh]
  | connect d s miu rw sn =>
    simp only [encodeS] at e
    obtain ⟨h, eh, e⟩ := Py.bind_eq_ok.mp e
    obtain ⟨a, ea, e⟩ := Py.bind_eq_ok.mp e
    obtain ⟨b1, eb, e⟩ := Py.bind_eq_ok.mp e
    obtain ⟨c, ec, e⟩ := Py.bind_eq_ok.mp e
    cases e
    simp [lenS, encodeHeader_len eh, ite_enc_len (fun _ => encH_len) ea, ite_enc_len (fun _ => encB_len) eb,
      truthyTlv_len ec]
    omega
  | disc d s =>
    simp only [encodeS] at e
    simp [lenS, encodeHeader_len e]
  | cc d s miu rw =>
    simp only [encodeS] at e
    obtain ⟨h, eh, e⟩ := Py.bind_eq_ok.mp e
    obtain ⟨a, ea, e⟩ := Py.bind_eq_ok.mp e
    obtain ⟨b1, eb, e⟩ := Py.bind_eq_ok.mp e
    cases e
    simp [lenS, encodeHeader_len eh, ite_enc_len (fun _ => encH_len) ea, ite_enc_len (fun _ => encB_len) eb]
    omega
  | dm d s reason =>
    simp only [encodeS] at e
    obtain ⟨h, eh, e⟩ := Py.bind_eq_ok.mp e
    obtain ⟨r, er, e⟩ := Py.bind_eq_ok.mp e
    cases e
    unfold packB at er
    split at er
    · cases er
    · cases er; simp [lenS, encodeHeader_len eh]
  | frmr d s flags ptype ns nr vs vr vsa vra =>
    simp only [encodeS] at e
    obtain ⟨h, eh, e⟩ := Py.bind_eq_ok.mp e
    split at e
    · cases e
    · cases e; simp [lenS, encodeHeader_len eh]
  | snl d s sdreq sdres =>
    simp only [encodeS] at e
    obtain ⟨h, eh, e⟩ := Py.bind_eq_ok.mp e
    obtain ⟨a, ea, e⟩ := Py.bind_eq_ok.mp e
    obtain ⟨b1, eb, e⟩ := Py.bind_eq_ok.mp e
    cases e
    simp [lenS, encodeHeader_len eh, encList_sdreq_len ea, encList_sdres_len eb]
    omega
  | dps d s ecpk rn =>
    simp only [encodeS] at e
    split at e
    · cases e
    · obtain ⟨h, eh, e⟩ := Py.bind_eq_ok.mp e
      obtain ⟨a, ea, e⟩ := Py.bind_eq_ok.mp e
      obtain ⟨b1, eb, e⟩ := Py.bind_eq_ok.mp e
      cases e
      simp [lenS, encodeHeader_len eh, truthyTlv_len ea, truthyTlv_len eb]
      omega
  | info d s ns nr data =>
    simp only [encodeS] at e
    obtain ⟨h, eh, e⟩ := Py.bind_eq_ok.mp e
    cases e; simp [lenS, encodeHeaderN_len eh]
  | rr d s nr =>
    simp only [encodeS] at e
    simp [lenS, encodeHeaderN_len e]
  | rnr d s nr =>
    simp only [encodeS] at e
    simp [lenS, encodeHeaderN_len e]
  | unknown t d s payload =>
    simp only [encodeS] at e
    obtain ⟨h, eh, e⟩ := Py.bind_eq_ok.mp e
    cases e; simp [lenS, encodeHeader_len eh]

theorem agf_body_len {items : List SPdu} {es : List Bytes} {body : Bytes}
    (e1 : encodeAll items = .ok es) (e2 : agfJoin es = .ok body) :
    body.length = sumMap (fun p => 2 + lenS p) items := by
  induction items generalizing es body with
  | nil => cases e1; cases e2; rfl
  | cons p ps ih =>
    simp only [encodeAll] at e1
    obtain ⟨e, ee, e1⟩ := Py.bind_eq_ok.mp e1
    obtain ⟨es', ees, e1⟩ := Py.bind_eq_ok.mp e1
    cases e1
    simp only [agfJoin] at e2
    obtain ⟨l, el, e2⟩ := Py.bind_eq_ok.mp e2
    obtain ⟨r, er, e2⟩ := Py.bind_eq_ok.mp e2
    cases e2
    have hl : l.length = 2 := by
      split at el
      · cases el
      · cases el; rfl
    simp [sumMap, ih ees er, lenS_eq ee, hl]
    omega

theorem len_eq {p : Pdu} {b : Bytes} (e : encode p = .ok b) : len p = b.length := by
  cases p with
  | simple p => exact lenS_eq e
  | agf d s items =>
    simp only [encode] at e
    split at e
    · cases e
    · obtain ⟨h, eh, e⟩ := Py.bind_eq_ok.mp e
      obtain ⟨es, ees, e⟩ := Py.bind_eq_ok.mp e
      obtain ⟨body, eb, e⟩ := Py.bind_eq_ok.mp e
      cases e
      simp [len, encodeHeader_len eh, agf_body_len ees eb]

end Impl
end NfcVerif.Pdu
