import NfcVerif.Model.Term
/-! proofs for C09 (case analysis over call, scheduling point and the features of the world a call reads) -/
namespace NfcVerif.Term

/-- a call ends well: it returns a value or raises nfc.llcp.Error (ConnectRefused is a subclass) -/
def good : Py Val → Bool
  | .ok _ => true
  | .error (.llcp _) => true
  | .error .connectRefused => true
  | _ => false

def finishesGood : Outcome → Bool
  | .finished r _ => good r
  | _ => false

/-- the waiting points of each call -/
def validWait : Call → Pt → Bool
  | .recv, .wTcoRecv | .accept, .wTcoRecv | .connect, .wTcoRecv | .close, .wTcoRecv => true
  | .send _ _, .wTcoSend | .send false _, .wWindow => true
  | .poll .recv _, .wPollRecv | .poll .send _, .wPollSend | .poll .acks _, .wPollAcks => true
  | .resolve, .wResolve => true
  | _, _ => false

/-- the lock acquisition points of each call -/
def validAcq : Call → Pt → Bool
  | .send _ _, .bindAcq | .connect, .bindAcq | .listen, .bindAcq | .bind, .bindAcq => true
  | .bind, .sockAcq | .resolve, .sockAcq => false
  | _, .sockAcq => true
  | .resolve, .llcAcq | .accept, .llcAcq | .close, .llcAcq => true
  | _, _ => false

def validPt (c : Call) (p : Pt) : Bool := validWait c p || validAcq c p

/-- only a data link connection has send_token / acks_ready waiters -/
def kindOK (w : World) (p : Pt) : Bool :=
  w.s.kind == .dlc || !(p == .wWindow || p == .wPollAcks)

/-- the world a thread that waits at `p` lives in: its socket is in a service access point
    (resp. the service discovery SAP exists) -/
def waiter (w : World) (p : Pt) : Bool :=
  if p == .wResolve then w.sdAlive else w.registered

def quiet : Act → Bool
  | .none | .term | .spurious => true
  | _ => false

/-- the socket of a terminated link (shut down by terminate(), closed, or created afterwards) -/
def After (w : World) : Prop :=
  w.terminated = true ∧ w.registered = false ∧ w.sapAlive = false ∧ w.sdAlive = false ∧
  ((w.s.st = .shutdown ∧ w.s.recvQ = []) ∨
   (w.s.bound = false ∧ (if w.s.kind = .dlc then w.s.st = .closed else w.s.st = .established)))

/-- sockets as the API leaves them: registered and bound, or never bound and fresh / shut down,
    or closed by the application (keeps its address) -/
def WF (w : World) : Prop :=
  (w.registered = true ∧ w.s.bound = true ∧ w.sapAlive = true) ∨
  (w.registered = false ∧
    ((w.s.st = .shutdown ∧ w.s.recvQ = []) ∨
     (w.s.bound = false ∧ (if w.s.kind = .dlc then w.s.st = .closed else w.s.st = .established))))

def allowed (c : Call) (w : World) : Bool := !(c == .connect && w.s.kind == .raw)

theorem terminate_notifies (w : World) (p : Pt) (hw : p.isWait = true) (hreg : waiter w p = true)
    (hk : kindOK w p = true) : (terminate w).2.contains p.cv = true := by
  cases p <;> simp [Pt.isWait] at hw <;> simp [waiter] at hreg <;>
    cases hkind : w.s.kind <;> simp_all [terminate, closeNotifies, Pt.cv, kindOK]

macro "term_simp" : tactic =>
  `(tactic| simp_all (config := { failIfUnchanged := false })
      [run, exec, start, body, bodyRecv, bodySend, bodyAccept, bodyConnect, bodyListen, bodyClose, bodyPoll, takeRecv,
       closeGot, pollRecvNow, terminate, applyAct, closeNotifies, Pt.cv, Pt.isWait, kindOK, finishesGood, good, ret, raise,
       closeFinish, dlcSendLoop, dlcSendTail, Sock.isEst, Sock.estOrCw, resolveLoop, withS, tcoClose, callTimeout,
       List.headD, doBind, recvGot, acceptGot, connectGot, waiter, validWait, quiet, advance,
       EBADF, EAGAIN, EINVAL, EPIPE, EMSGSIZE, EOPNOTSUPP, EISCONN, ENOTCONN, ESHUTDOWN, EALREADY])

macro "term_bash" : tactic =>
  `(tactic| (term_simp <;> (try split) <;> term_simp <;> (try split) <;> term_simp <;> (try split) <;> term_simp))

set_option maxHeartbeats 1600000 in
theorem blocked_return (c : Call) (p : Pt) (w : World) (a2 : Act) (hv : validWait c p = true)
    (hreg : waiter w p = true) (hk : kindOK w p = true) (hq : quiet a2 = true) :
    finishesGood (run c 3 (.at p w) [.term, a2]) = true := by
  rcases c with (⟨dw, len⟩ | _ | _ | _ | _ | _ | _ | ⟨ev, t⟩ | _) <;> (try cases dw) <;> (try cases ev) <;> (try cases t) <;>
  cases p <;> simp [validWait] at hv <;>
  cases a2 <;> simp [quiet] at hq <;>
  cases hkind : w.s.kind <;> cases hvs : w.viaSap <;>
  by_cases hacks : 0 < w.s.acks <;> by_cases hbuf : 0 < w.s.sendBuf <;> term_simp

theorem wf_terminate_after (w : World) (h : WF w) : After (terminate w).1 := by
  rcases h with ⟨h1, h2, h3⟩ | ⟨h1, h2⟩
  · simp [After, terminate, h1, tcoClose]
  · simp [After, terminate, h1]; exact h2

/-- what the thread has established when it stands at a lock acquisition point: connect, listen and
    the datagram sends bind the socket first -/
def acqInv (c : Call) (p : Pt) (w : World) : Bool :=
  if p == .sockAcq then
    (match c with
     | .connect | .listen | .recv | .poll _ _ => w.s.bound
     | .send _ _ => w.s.kind == .dlc || w.s.bound
     | _ => true)
  else true

set_option maxHeartbeats 3200000 in
/-- the link terminates while the thread stands at a lock acquisition point -/
theorem acq_terminate_return (c : Call) (p : Pt) (w : World) (a2 : Act) (hv : validAcq c p = true) (hwf : WF w)
    (hinv : acqInv c p w = true) (hal : allowed c w = true) (hq : quiet a2 = true) :
    finishesGood (run c 4 (.at p w) [.term, a2]) = true := by
  rcases c with (⟨dw, len⟩ | _ | _ | _ | _ | _ | _ | ⟨ev, t⟩ | _) <;> (try cases dw) <;> (try cases ev) <;> (try cases t) <;>
  cases p <;> (try simp [validAcq] at hv) <;>
  cases a2 <;> (try simp [quiet] at hq) <;>
  cases hkind : w.s.kind <;> (try simp [allowed, hkind] at hal) <;> cases hvs : w.viaSap <;>
  rcases hwf with ⟨h1, h2, h3⟩ | ⟨h1, ⟨h2, h3⟩ | ⟨h2, h3⟩⟩ <;> (try simp [acqInv, hkind, h2] at hinv) <;>
  (try simp [hkind] at h3) <;> term_simp

set_option maxHeartbeats 3200000 in
/-- a call issued on a socket of a terminated link -/
theorem later_return (c : Call) (w : World) (a1 a2 : Act) (hw : After w) (hal : allowed c w = true)
    (hq1 : quiet a1 = true) (hq2 : quiet a2 = true) :
    finishesGood (run c 4 (start c w) [a1, a2]) = true := by
  obtain ⟨ht, hr, hs, hd, hst⟩ := hw
  rcases c with (⟨dw, len⟩ | _ | _ | _ | _ | _ | _ | ⟨ev, t⟩ | _) <;> (try cases dw) <;> (try cases ev) <;> (try cases t) <;>
  cases a1 <;> (try simp [quiet] at hq1) <;> cases a2 <;> (try simp [quiet] at hq2) <;>
  cases hkind : w.s.kind <;> (try simp [allowed, hkind] at hal) <;> cases hb : w.s.bound <;>
  rcases hst with ⟨h2, h3⟩ | ⟨h2, h3⟩ <;> (try simp [hkind, hb] at h2 h3) <;> term_simp

/-- every call starts at a lock acquisition point of its own (or ends at once) -/
theorem start_valid (c : Call) (w : World) (p : Pt) (w' : World) (h : start c w = .at p w') :
    validAcq c p = true ∧ acqInv c p w' = true := by
  rcases c with (⟨dw, len⟩ | _ | _ | _ | _ | _ | _ | ⟨ev, t⟩ | _) <;> (try cases ev) <;>
  cases hkind : w.s.kind <;> cases hb : w.s.bound <;> cases hsa : w.sapAlive <;> cases hsd : w.sdAlive <;>
  cases hst : w.s.st <;>
  simp (config := { failIfUnchanged := false }) [start, hkind, hb, hsa, hsd, hst, raise, ret, withS] at h <;>
  (try (rcases h with ⟨rfl, rfl⟩)) <;>
  simp_all (config := { failIfUnchanged := false }) [validAcq, acqInv, withS]

set_option maxHeartbeats 3200000 in
/-- a resumed or continued call stands again at a point of its own -/
theorem exec_valid (c : Call) (p : Pt) (w : World) (p' : Pt) (w' : World) (hv : validPt c p = true)
    (hk : kindOK w p = true) (h : exec c p w = .at p' w') : validPt c p' = true ∧ kindOK w' p' = true := by
  rcases c with (⟨dw, len⟩ | _ | _ | _ | _ | _ | _ | ⟨ev, t⟩ | _) <;> (try cases dw) <;> (try cases ev) <;>
  cases p <;> (try simp [validPt, validWait, validAcq] at hv) <;>
  cases hkind : w.s.kind <;> (try simp [kindOK, hkind] at hk) <;>
  cases hq : w.s.recvQ <;> cases hvs : w.viaSap <;>
  simp (config := { failIfUnchanged := false }) [exec, body, bodyRecv, bodySend, bodyAccept, bodyConnect, bodyListen, bodyClose,
    bodyPoll, takeRecv, closeGot, pollRecvNow, recvGot, acceptGot, connectGot, closeFinish, dlcSendLoop, dlcSendTail,
    resolveLoop, doBind, ret, raise, withS, hkind, hq, hvs] at h <;>
  (repeat' (split at h)) <;>
  simp_all (config := { failIfUnchanged := false }) [validPt, validWait, validAcq, kindOK, withS, tcoClose] <;>
  (try (rcases h with ⟨rfl, rfl⟩)) <;>
  simp_all (config := { failIfUnchanged := false }) [validPt, validWait, validAcq, kindOK, withS, tcoClose]

set_option maxHeartbeats 3200000 in
/-- the service loops end when their socket calls give the results of a terminated link -/
theorem service_exit (srv : Srv) (w : World) (p : SPt) (hw : After w) : serviceRun srv w 3 p = .exited := by
  obtain ⟨ht, hr, hs, hd, hst⟩ := hw
  cases srv <;> cases p <;> cases hkind : w.s.kind <;> cases hb : w.s.bound <;>
  rcases hst with ⟨h2, h3⟩ | ⟨h2, h3⟩ <;> (try simp [hkind, hb] at h2 h3) <;>
  simp_all (config := { failIfUnchanged := false })
    [serviceRun, resultAfter, SPt.call, serviceStep, classify, run, exec, start, body, bodyRecv, bodySend, bodyAccept,
     bodyConnect, bodyListen, bodyClose, bodyPoll, takeRecv, closeGot, pollRecvNow, applyAct, Pt.isWait, ret, raise, doBind,
     closeFinish, dlcSendLoop, dlcSendTail, Sock.isEst, Sock.estOrCw, withS, tcoClose, callTimeout, List.headD,
     EBADF, EINVAL, EPIPE, EMSGSIZE, EOPNOTSUPP, ENOTCONN, ESHUTDOWN]

theorem loop_terminates (r : Role) (pt : LoopPt) (c : Cause) : (loopEnd r pt c).terminateCalled = true := by
  cases c <;> cases pt <;> rfl

theorem connect_returns (r : Role) (pt : LoopPt) (c : Cause)
    (h : c ≠ .ioError ∧ c ≠ .keyAgreementError ∧ c ≠ .decryptionError ∧ c ≠ .encryptionError) :
    connectEnd r pt c = .returns ∨ (c = .otherException ∧ connectEnd r pt c = .reraises) := by
  cases c <;> simp_all [connectEnd, loopEnd, leaveOf]

theorem connect_systemexit : connectEnd .initiator .established .ioError = .raisesSystemExit ∧
    connectEnd .target .dps .decryptionError = .raisesSystemExit := by decide

theorem shut_mem (a : Nat) (ha : a < 64) : ((List.range 64).reverse.map TStep.shut).contains (.shut a) = true := by
  simp only [List.contains_iff_mem, List.mem_map, List.mem_reverse, List.mem_range]
  exact ⟨a, ha, rfl⟩

/-- a socket bound at any moment of terminate() is refused or is shut down by the rest of the loop -/
theorem late_bind_safe (k a : Nat) (ha : a < 64) : lateBind termSteps k a ≠ .leaked := by
  cases k with
  | zero =>
    have h := shut_mem a ha
    simp [lateBind, termSteps, List.contains_cons, h] <;> exact ha
  | succ n => simp [lateBind, termSteps]

theorem late_bind_flag_last_leaks : lateBind termStepsFlagLast 1 63 = .leaked := by decide

end NfcVerif.Term
