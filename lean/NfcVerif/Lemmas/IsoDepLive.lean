import NfcVerif.Lemmas.IsoDep
/-!
# ISO-DEP: termination and absorbed faults

Liveness counterpart of `Lemmas/IsoDep.lean`: against the ISO/IEC 14443-4 card every loop of
`IsoDepInitiator.exchange` ends within a bounded number of blocks (`*_live`, first component), and if the
script contains `k` faults with `2k ≤ n_retry + 1` (none of them a reader protocol error) every retry loop
ends with the block it was waiting for (second component).  The potential `i + 2k (+1 while the retry
block is out)` accounts for the fact that the retransmission after R(ACK) also advances the counter `i`.
-/
namespace NfcVerif.IsoDep
open NfcVerif

/-- number of entries of the script that are not `deliver` -/
def nfaults : List Fault → Nat
  | [] => 0
  | f :: s => (if f = .d then 0 else 1) + nfaults s

/-- S(WTX) requests the card still wants to be answered before it sends its held back block -/
def wl (c : Card) : Nat :=
  match c.pend with
  | some (_, n) => n + 1
  | none => 0

theorem wl_emit (cfg : CardCfg) (c : Card) (B : Bytes) (nw : Nat) : wl (Card.emit cfg c B nw).1 = nw := by
  cases nw <;> simp [Card.emit, wl]

theorem rx_echo_wl (cfg : CardCfg) {k B c} (h : Pending cfg k B c) :
    wl (Card.rx cfg c (wtxBlock cfg)).1 + 1 = wl c := by
  obtain ⟨_, _, n, hp⟩ := h
  have h1 : Card.rx cfg c (wtxBlock cfg) = Card.emit cfg c B n := by simp [Card.rx, wtxBlock, hp]
  rw [h1, wl_emit]; simp [wl, hp]

/-- the two legs of one `clf.exchange` when the card answers `o` -/
theorem xchg_legs {σ} (P : Peer σ) (w : World σ) (out : Bytes) (c' : σ) (o : Bytes)
    (hrx : P.rx w.card out = (c', some o)) :
    (((w.xchg P out).1.card = w.card ∧ (w.xchg P out).2 = .timeout ∧
        nfaults (w.xchg P out).1.script + 1 = nfaults w.script) ∨
     ((w.xchg P out).1.card = c' ∧ (w.xchg P out).2 = .data o ∧
        nfaults (w.xchg P out).1.script = nfaults w.script) ∨
     ((w.xchg P out).1.card = c' ∧
        ((w.xchg P out).2 = .timeout ∨ (w.xchg P out).2 = .transmission ∨ (w.xchg P out).2 = .data [] ∨
          ((w.xchg P out).2 = .protocol ∧ Fault.p ∈ w.script)) ∧
        nfaults (w.xchg P out).1.script + 1 = nfaults w.script)) ∧
    (Fault.p ∉ w.script → Fault.p ∉ (w.xchg P out).1.script) ∧
    (w.xchg P out).1.trace = w.trace ++ [out] := by
  obtain ⟨c, s, t⟩ := w
  simp only at hrx
  cases s with
  | nil => simp [World.xchg, nextFault, hrx, legBack, nfaults]
  | cons f s =>
    cases f with
    | d =>
      cases s with
      | nil => simp [World.xchg, nextFault, hrx, legBack, nfaults]
      | cons f2 s2 => cases f2 <;> simp [World.xchg, nextFault, hrx, legBack, nfaults] <;> omega
    | l => simp [World.xchg, nextFault, nfaults]; omega
    | c => simp [World.xchg, nextFault, nfaults]; omega
    | p => simp [World.xchg, nextFault, nfaults]; omega
    | e => simp [World.xchg, nextFault, nfaults]; omega

structure Round.Live (cfg : CardCfg) (W : Nat) (R : Round) : Prop where
  hwl : ∀ c, R.Pre c → wl (Card.rx cfg c R.req).1 ≤ W
  hdist : R.rty = R.req → R.resend = none
  hexcl : ∀ c, R.Pre c → c.core ≠ R.post

/-- the PCD sends the block of the round or the retry block (not an S(WTX) echo) -/
def First (cfg : CardCfg) (R : Round) (c : Card) (out : Bytes) : Prop :=
  (R.Pre c ∧ (out = R.req ∨ out = R.rty)) ∨ (Em cfg R.post R.B c ∧ out = R.rty)

/-- what the card answers, with the bookkeeping of outstanding S(WTX) requests -/
def CardAns (cfg : CardCfg) (W : Nat) (R : Round) (out : Bytes) (c' : Card) (o : Bytes) : Prop :=
  (Em cfg R.post R.B c' → wl c' ≤ W) ∧
  ((Done R.post R.B c' ∧ o = R.B) ∨ (Pending cfg R.post R.B c' ∧ o = wtxBlock cfg) ∨
   (R.Pre c' ∧ out ≠ R.req ∧ ∃ a, o = [a] ∧ R.resend = some a))

theorem rx_live_first (cfg : CardCfg) (W : Nat) (R : Round) (hR : R.Ok cfg) (hL : R.Live cfg W) (c : Card) (out : Bytes)
    (h : First cfg R c out) (hw : Em cfg R.post R.B c → wl c ≤ W) :
    ∃ c' o, Card.rx cfg c out = (c', some o) ∧ CardAns cfg W R out c' o := by
  have emitted : ∀ (out' : Bytes) (r : Card × Option Bytes), Emitted cfg R.post R.B r → wl r.1 ≤ W →
      ∃ c' o, r = (c', some o) ∧ CardAns cfg W R out' c' o := by
    rintro out' ⟨c', o⟩ (⟨hd, ho⟩ | ⟨hp, ho⟩) hwl
    · simp only at ho; subst ho; exact ⟨c', _, rfl, fun _ => hwl, Or.inl ⟨hd, rfl⟩⟩
    · simp only at ho; subst ho; exact ⟨c', _, rfl, fun _ => hwl, Or.inr (Or.inl ⟨hp, rfl⟩)⟩
  rcases h with ⟨hpre, rfl | rfl⟩ | ⟨hem, rfl⟩
  · exact emitted _ _ (hR.hreq c hpre) (hL.hwl c hpre)
  · rcases hR.hrtyPre with heq | hr
    · rw [heq]; exact emitted _ _ (hR.hreq c hpre) (hL.hwl c hpre)
    · obtain ⟨a, hrx, ha⟩ := hr c hpre
      refine ⟨c, [a], hrx, hw, Or.inr (Or.inr ⟨hpre, ?_, a, rfl, ha⟩)⟩
      intro heq
      rw [hL.hdist heq] at ha; cases ha
  · have hcore : c.core = R.post := by rcases hem with h | h <;> exact h.1
    rw [hR.hrtyPost c hcore]
    rcases hem with h | h
    · exact ⟨c, R.B, by rw [h.2.1], hw, Or.inl ⟨h, rfl⟩⟩
    · exact ⟨c, wtxBlock cfg, by rw [h.2.1], hw, Or.inr (Or.inl ⟨h, rfl⟩)⟩

theorem rx_live_echo (cfg : CardCfg) (R : Round) (c : Card) (h : Pending cfg R.post R.B c) :
    ∃ c' o, Card.rx cfg c (wtxBlock cfg) = (c', some o) ∧ wl c' + 1 = wl c ∧
      ((Done R.post R.B c' ∧ o = R.B) ∨ (Pending cfg R.post R.B c' ∧ o = wtxBlock cfg)) := by
  have hwl := rx_echo_wl cfg h
  have := rx_echo_pending cfg h
  generalize Card.rx cfg c (wtxBlock cfg) = r at this hwl
  obtain ⟨c', o⟩ := r
  rcases this with ⟨hd, ho⟩ | ⟨hp, ho⟩
  · simp only at ho; subst ho; exact ⟨c', _, rfl, hwl, Or.inl ⟨hd, rfl⟩⟩
  · simp only at ho; subst ho; exact ⟨c', _, rfl, hwl, Or.inr ⟨hp, rfl⟩⟩


/-- outcome of `_exchange` with the fault bookkeeping: `k` faults were left in the script, `np` says that none of
them is a reader protocol error -/
def WLive (cfg : CardCfg) (W : Nat) (R : Round) (k : Nat) (np : Prop) (out : Bytes) (w' : World Card) (r : Rx) : Prop :=
  (np → Fault.p ∉ w'.script) ∧ (Em cfg R.post R.B w'.card → wl w'.card ≤ W) ∧
  ((nfaults w'.script ≤ k ∧ ((r = .data R.B ∧ Done R.post R.B w'.card) ∨
       (out ≠ R.req ∧ R.Pre w'.card ∧ ∃ a, r = .data [a] ∧ R.resend = some a))) ∨
   (nfaults w'.script < k ∧ St cfg R w'.card ∧
      (r = .timeout ∨ r = .transmission ∨ r = .data [] ∨ (r = .protocol ∧ ¬ np))))

theorem WLive.mono {cfg W R k1 k} {np1 np : Prop} {out w' r} (h : WLive cfg W R k1 np1 out w' r) (hk : k1 ≤ k)
    (hnp : np → np1) : WLive cfg W R k np out w' r := by
  obtain ⟨h1, h2, h3⟩ := h
  refine ⟨fun h => h1 (hnp h), h2, ?_⟩
  rcases h3 with ⟨ha, hb⟩ | ⟨ha, hb, hc⟩
  · exact Or.inl ⟨by omega, hb⟩
  · refine Or.inr ⟨by omega, hb, ?_⟩
    rcases hc with h | h | h | ⟨h, hn⟩
    · exact Or.inl h
    · exact Or.inr (Or.inl h)
    · exact Or.inr (Or.inr (Or.inl h))
    · exact Or.inr (Or.inr (Or.inr ⟨h, fun hp => hn (hnp hp)⟩))

theorem xchgW_succ {σ} (P : Peer σ) (F : Nat) (w : World σ) (out : Bytes) :
    xchgW P (F + 1) w out =
      match (w.xchg P out).2 with
      | .data d => if isWtx d then xchgW P F (w.xchg P out).1 d else ((w.xchg P out).1, .data d)
      | e => ((w.xchg P out).1, e) := rfl

/-- one step of `_exchange` when the card answers with the block of the round or an S(WTX) request -/
theorem xchgW_step_em (cfg : CardCfg) (W : Nat) (R : Round) (hR : R.Ok cfg) (F : Nat)
    (ihEcho : ∀ (w : World Card) (out0 : Bytes), Pending cfg R.post R.B w.card → wl w.card ≤ W → wl w.card ≤ F →
      WLive cfg W R (nfaults w.script) (Fault.p ∉ w.script) out0
        (xchgW (isoPeer cfg) F w (wtxBlock cfg)).1 (xchgW (isoPeer cfg) F w (wtxBlock cfg)).2)
    (w : World Card) (out : Bytes) (c' : Card) (o : Bytes) (hrx : Card.rx cfg w.card out = (c', some o))
    (hans : (Done R.post R.B c' ∧ o = R.B) ∨ (Pending cfg R.post R.B c' ∧ o = wtxBlock cfg))
    (hwl' : wl c' ≤ W) (hwlF : wl c' ≤ F) (hst : St cfg R w.card) (hw : Em cfg R.post R.B w.card → wl w.card ≤ W)
    (out0 : Bytes) :
    WLive cfg W R (nfaults w.script) (Fault.p ∉ w.script) out0
      (xchgW (isoPeer cfg) (F + 1) w out).1 (xchgW (isoPeer cfg) (F + 1) w out).2 := by
  obtain ⟨hlegs, hnp, _⟩ := xchg_legs (isoPeer cfg) w out c' o hrx
  have hem' : Em cfg R.post R.B c' := by
    rcases hans with h | h
    · exact Or.inl h.1
    · exact Or.inr h.1
  rw [xchgW_succ]
  rcases hlegs with ⟨hc, hr, hk⟩ | ⟨hc, hr, hk⟩ | ⟨hc, hr, hk⟩
  · simp only [hr]
    exact ⟨hnp, by rw [hc]; exact hw, Or.inr ⟨by omega, by rw [hc]; exact hst, Or.inl rfl⟩⟩
  · simp only [hr]
    rcases hans with ⟨hd, rfl⟩ | ⟨hp, rfl⟩
    · obtain ⟨a, t, hB, _, hBw⟩ := hR.hB
      simp only [hBw, Bool.false_eq_true, if_false]
      refine ⟨hnp, fun _ => by rw [hc]; exact hwl', Or.inl ⟨by omega, Or.inl ⟨rfl, by rw [hc]; exact hd⟩⟩⟩
    · simp only [isWtx_wtxBlock, if_true]
      have := ihEcho (w.xchg (isoPeer cfg) out).1 out0 (by rw [hc]; exact hp) (by rw [hc]; exact hwl') (by rw [hc]; exact hwlF)
      exact this.mono (by omega) hnp
  · have hst' : St cfg R (w.xchg (isoPeer cfg) out).1.card := by rw [hc]; exact Or.inr hem'
    have hw' : Em cfg R.post R.B (w.xchg (isoPeer cfg) out).1.card → wl (w.xchg (isoPeer cfg) out).1.card ≤ W := by
      rw [hc]; exact fun _ => hwl'
    rcases hr with hr | hr | hr | ⟨hr, hp⟩
    · simp only [hr]; exact ⟨hnp, hw', Or.inr ⟨by omega, hst', Or.inl rfl⟩⟩
    · simp only [hr]; exact ⟨hnp, hw', Or.inr ⟨by omega, hst', Or.inr (Or.inl rfl)⟩⟩
    · simp only [hr, isWtx, Bool.false_eq_true, if_false]
      exact ⟨hnp, hw', Or.inr ⟨by omega, hst', Or.inr (Or.inr (Or.inl rfl))⟩⟩
    · simp only [hr]; exact ⟨hnp, hw', Or.inr ⟨by omega, hst', Or.inr (Or.inr (Or.inr ⟨rfl, fun h => h hp⟩))⟩⟩

theorem xchgW_live_echo (cfg : CardCfg) (W : Nat) (R : Round) (hR : R.Ok cfg) :
    ∀ (F : Nat) (w : World Card) (out0 : Bytes), Pending cfg R.post R.B w.card → wl w.card ≤ W → wl w.card ≤ F →
      WLive cfg W R (nfaults w.script) (Fault.p ∉ w.script) out0
        (xchgW (isoPeer cfg) F w (wtxBlock cfg)).1 (xchgW (isoPeer cfg) F w (wtxBlock cfg)).2 := by
  intro F
  induction F with
  | zero =>
    intro w out0 hp _ hF
    obtain ⟨_, _, n, hn⟩ := hp
    simp [wl, hn] at hF
  | succ F ih =>
    intro w out0 hp hW hF
    obtain ⟨c', o, hrx, hdec, hans⟩ := rx_live_echo cfg R w.card hp
    exact xchgW_step_em cfg W R hR F ih w (wtxBlock cfg) c' o hrx hans (by omega) (by omega)
      (Or.inr (Or.inr hp)) (fun _ => hW) out0

theorem xchgW_live_first (cfg : CardCfg) (W : Nat) (R : Round) (hR : R.Ok cfg) (hL : R.Live cfg W)
    (F : Nat) (hF : W + 1 ≤ F) (w : World Card) (out : Bytes) (h : First cfg R w.card out)
    (hw : Em cfg R.post R.B w.card → wl w.card ≤ W) :
    WLive cfg W R (nfaults w.script) (Fault.p ∉ w.script) out
      (xchgW (isoPeer cfg) F w out).1 (xchgW (isoPeer cfg) F w out).2 := by
  obtain ⟨F', rfl⟩ : ∃ F', F = F' + 1 := ⟨F - 1, by omega⟩
  have hst : St cfg R w.card := by
    rcases h with ⟨h, _⟩ | ⟨h, _⟩
    · exact Or.inl h
    · exact Or.inr h
  obtain ⟨c', o, hrx, hwl', hans⟩ := rx_live_first cfg W R hR hL w.card out h hw
  rcases hans with hd | hp | ⟨hpre, hne, a, rfl, ha⟩
  · have hwl'' := hwl' (Or.inl hd.1)
    exact xchgW_step_em cfg W R hR F' (xchgW_live_echo cfg W R hR F') w out c' o hrx (Or.inl hd) hwl'' (by omega) hst hw out
  · have hwl'' := hwl' (Or.inr hp.1)
    exact xchgW_step_em cfg W R hR F' (xchgW_live_echo cfg W R hR F') w out c' o hrx (Or.inr hp) hwl'' (by omega) hst hw out
  · -- R(ACK) with the other block number: the card has not seen the block
    obtain ⟨hlegs, hnp, _⟩ := xchg_legs (isoPeer cfg) w out c' [a] hrx
    rw [xchgW_succ]
    rcases hlegs with ⟨hc, hr, hk⟩ | ⟨hc, hr, hk⟩ | ⟨hc, hr, hk⟩
    · simp only [hr]
      exact ⟨hnp, by rw [hc]; exact hw, Or.inr ⟨by omega, by rw [hc]; exact hst, Or.inl rfl⟩⟩
    · simp only [hr, isWtx, Bool.false_eq_true, if_false]
      refine ⟨hnp, by rw [hc]; exact hwl', Or.inl ⟨by omega, Or.inr ⟨hne, by rw [hc]; exact hpre, a, rfl, ha⟩⟩⟩
    · have hst' : St cfg R (w.xchg (isoPeer cfg) out).1.card := by rw [hc]; exact Or.inl hpre
      have hw' : Em cfg R.post R.B (w.xchg (isoPeer cfg) out).1.card → wl (w.xchg (isoPeer cfg) out).1.card ≤ W := by
        rw [hc]; exact hwl'
      rcases hr with hr | hr | hr | ⟨hr, hp⟩
      · simp only [hr]; exact ⟨hnp, hw', Or.inr ⟨by omega, hst', Or.inl rfl⟩⟩
      · simp only [hr]; exact ⟨hnp, hw', Or.inr ⟨by omega, hst', Or.inr (Or.inl rfl)⟩⟩
      · simp only [hr, isWtx, Bool.false_eq_true, if_false]
        exact ⟨hnp, hw', Or.inr ⟨by omega, hst', Or.inr (Or.inr (Or.inl rfl))⟩⟩
      · simp only [hr]; exact ⟨hnp, hw', Or.inr ⟨by omega, hst', Or.inr (Or.inr (Or.inr ⟨rfl, fun h => h hp⟩))⟩⟩


/-- the retry counter `i` leaves room for the `k` faults still in the script (a retransmission after R(ACK)
costs one more count, hence `2k`; while the retry block is out one more step is needed to get back to the block) -/
def Pot (R : Round) (n i k : Nat) (out : Bytes) : Prop :=
  (out = R.req → i + 2 * k ≤ n + 2) ∧ (out ≠ R.req → i + 2 * k + 1 ≤ n + 2)

def IdxOk (R : Round) (n i : Nat) (out : Bytes) : Prop :=
  (out ≠ R.req → i ≤ n + 1) ∧ (out = R.req → i ≤ n + 2)

def FuelOk (R : Round) (n f i : Nat) (out : Bytes) : Prop :=
  (out = R.req → 2 * (n + 2) + 1 ≤ f + 2 * i) ∧ (out ≠ R.req → 2 * (n + 2) + 2 ≤ f + 2 * i)

/-- outcome of a retry loop: it ends, and it ends well if the faults fit the budget -/
def LLive (k : Nat) (np pot : Prop) (w' : World Card) (res : Py Bytes) : Prop :=
  res ≠ .error .outOfFuel ∧
  (np → pot → (∃ d, res = .ok d) ∧ Fault.p ∉ w'.script ∧ nfaults w'.script ≤ k)

theorem blockLoop_live (cfg : CardCfg) (W : Nat) (R : Round) (hR : R.Ok cfg) (hL : R.Live cfg W)
    (F n : Nat) (hF : W + 1 ≤ F) :
    ∀ (f i : Nat) (out : Bytes) (w : World Card), First cfg R w.card out →
      (Em cfg R.post R.B w.card → wl w.card ≤ W) → IdxOk R n i out → FuelOk R n f i out →
      LLive (nfaults w.script) (Fault.p ∉ w.script) (Pot R n i (nfaults w.script) out)
        (blockLoop (isoPeer cfg) F n R.resend R.req R.rty f i out w).1
        (blockLoop (isoPeer cfg) F n R.resend R.req R.rty f i out w).2 := by
  intro f
  induction f with
  | zero =>
    intro i out w _ _ hi hf
    exfalso
    by_cases h : out = R.req
    · have := hi.2 h; have := hf.1 h; omega
    · have := hi.1 h; have := hf.2 h; omega
  | succ f ih =>
    intro i out w hfirst hw hi hf
    have hW := xchgW_live_first cfg W R hR hL F hF w out hfirst hw
    unfold blockLoop
    generalize xchgW (isoPeer cfg) F w out = r1 at hW
    obtain ⟨w1, r⟩ := r1
    obtain ⟨hnp1, hw1, alt⟩ := hW
    simp only at hnp1 hw1 alt ⊢
    -- the retry branch, common to timeout / transmission error / empty frame
    have retry : ∀ (e : Exc), e ≠ .outOfFuel → nfaults w1.script < nfaults w.script → St cfg R w1.card →
        LLive (nfaults w.script) (Fault.p ∉ w.script) (Pot R n i (nfaults w.script) out)
          (if i ≤ n then blockLoop (isoPeer cfg) F n R.resend R.req R.rty f (i + 1) R.rty w1 else (w1, .error e)).1
          (if i ≤ n then blockLoop (isoPeer cfg) F n R.resend R.req R.rty f (i + 1) R.rty w1 else (w1, .error e)).2 := by
      intro e he hk hst
      by_cases hin : i ≤ n
      · rw [if_pos hin]
        have hfirst' : First cfg R w1.card R.rty := by
          rcases hst with h | h
          · exact Or.inl ⟨h, Or.inr rfl⟩
          · exact Or.inr ⟨h, rfl⟩
        have hi' : IdxOk R n (i + 1) R.rty := ⟨fun _ => by omega, fun _ => by omega⟩
        have hf' : FuelOk R n f (i + 1) R.rty := by
          by_cases h : out = R.req
          · have := hf.1 h; exact ⟨fun _ => by omega, fun _ => by omega⟩
          · have := hf.2 h; exact ⟨fun _ => by omega, fun _ => by omega⟩
        obtain ⟨h1, h2⟩ := ih (i + 1) R.rty w1 hfirst' hw1 hi' hf'
        refine ⟨h1, fun hnp hpot => ?_⟩
        have hpot' : Pot R n (i + 1) (nfaults w1.script) R.rty := by
          by_cases h : out = R.req
          · have := hpot.1 h; exact ⟨fun _ => by omega, fun _ => by omega⟩
          · have := hpot.2 h; exact ⟨fun _ => by omega, fun _ => by omega⟩
        obtain ⟨h3, h4, h5⟩ := h2 (hnp1 hnp) hpot'
        exact ⟨h3, h4, by omega⟩
      · rw [if_neg hin]
        refine ⟨by simpa using he, fun _ hpot => ?_⟩
        exfalso
        by_cases h : out = R.req
        · have := hpot.1 h; omega
        · have := hpot.2 h; omega
    rcases alt with ⟨hk, ⟨rfl, hd⟩ | ⟨hne, hpre, a, rfl, ha⟩⟩ | ⟨hk, hst, rfl | rfl | rfl | ⟨rfl, hnnp⟩⟩
    · -- the block of the round arrived
      obtain ⟨a, t, hB, hres, _⟩ := hR.hB
      simp only [hB, if_neg hres]
      exact ⟨by simp, fun hnp _ => ⟨⟨_, rfl⟩, hnp1 hnp, hk⟩⟩
    · -- R(ACK) with the other block number: send the block again
      simp only [if_pos ha]
      have hi' : IdxOk R n (i + 1) R.req := ⟨fun h => absurd rfl h, fun _ => by have := hi.1 hne; omega⟩
      have hf' : FuelOk R n f (i + 1) R.req := ⟨fun _ => by have := hf.2 hne; omega, fun h => absurd rfl h⟩
      obtain ⟨h1, h2⟩ := ih (i + 1) R.req w1 (Or.inl ⟨hpre, Or.inl rfl⟩) hw1 hi' hf'
      refine ⟨h1, fun hnp hpot => ?_⟩
      have hpot' : Pot R n (i + 1) (nfaults w1.script) R.req :=
        ⟨fun _ => by have := hpot.2 hne; omega, fun h => absurd rfl h⟩
      obtain ⟨h3, h4, h5⟩ := h2 (hnp1 hnp) hpot'
      exact ⟨h3, h4, by omega⟩
    · exact retry _ (by simp) hk hst
    · exact retry _ (by simp) hk hst
    · exact retry _ (by simp) hk hst
    · exact ⟨by simp, fun hnp _ => absurd hnp hnnp⟩


theorem core_bn_ne {c : Card} {k : Core} (h : c.bn ≠ k.bn) : c.core ≠ k := by
  intro hc; exact h (by rw [← hc]; rfl)

theorem cmdRoundMore_live (cfg : CardCfg) (W : Nat) (hW : cfg.wtxAck ≤ W) {pni : Nat} (hp : pni < 2) (acc : Bytes)
    (L : List Bytes) (c : Bytes) : (cmdRoundMore pni acc L c).Live cfg W where
  hwl := by
    rintro k _
    simp only
    rw [rx_iblk_more cfg k pni hp c, wl_emit]; exact hW
  hdist := by
    intro h
    rcases bn_cases hp with rfl | rfl <;> simp at h
  hexcl := by
    rintro k ⟨hb, _, _⟩
    exact core_bn_ne (by simp only; rw [hb]; exact tog_ne hp)

theorem cmdRoundLast_live (cfg : CardCfg) (W : Nat) (hW : cfg.wtxI ≤ W) {pni : Nat} (hp : pni < 2) (acc : Bytes)
    (L : List Bytes) (c : Bytes) : (cmdRoundLast cfg pni acc L c).Live cfg W where
  hwl := by
    rintro k _
    simp only
    rw [rx_iblk_last cfg k pni hp c, wl_emit]; exact hW
  hdist := by
    intro h
    rcases bn_cases hp with rfl | rfl <;> simp at h
  hexcl := by
    rintro k ⟨hb, _, _⟩
    exact core_bn_ne (by simp only; rw [hb]; exact tog_ne hp)

theorem ackRound_live (cfg : CardCfg) (W : Nat) (hW : cfg.wtxChain ≤ W) {pni : Nat} (hp : pni < 2) (T : Bytes) (hT : T ≠ [])
    (L : List Bytes) : (ackRound cfg pni T L).Live cfg W where
  hwl := by
    intro k hk
    simp only [Card.core, Core.mk.injEq] at hk
    obtain ⟨hb, _, ht, _⟩ := hk
    simp only
    rw [rx_ack_other cfg k pni hp (by rw [hb]; exact (tog_ne hp).symm) (by rw [ht]; exact hT), wl_emit]; exact hW
  hdist := fun _ => rfl
  hexcl := by
    intro k hk
    have hb : k.bn = (pni + 1) % 2 := by simpa [Card.core] using congrArg Core.bn hk
    exact core_bn_ne (by simp only; rw [hb]; exact tog_ne hp)

theorem pre_not_em {cfg : CardCfg} {W : Nat} {R : Round} (hL : R.Live cfg W) {c : Card} (h : R.Pre c) :
    Em cfg R.post R.B c → wl c ≤ W := by
  intro hem
  exfalso
  rcases hem with h' | h' <;> exact hL.hexcl c h h'.1

theorem sendChunks_live (cfg : CardCfg) (W F nNak : Nat) (hF1 : W + 1 ≤ F) (hF2 : 2 * nNak + 3 ≤ F)
    (hW1 : cfg.wtxAck ≤ W) (hW2 : cfg.wtxI ≤ W) (L : List Bytes) :
    ∀ (cs : List Bytes) (pni : Nat) (acc : Bytes) (w : World Card), cs ≠ [] → pni < 2 →
      w.card.bn = (pni + 1) % 2 → w.card.rxbuf = acc → w.card.log = L →
      LLive (nfaults w.script) (Fault.p ∉ w.script) (2 * nfaults w.script ≤ nNak + 1)
        (sendChunks (isoPeer cfg) F nNak cs pni w).1 (sendChunks (isoPeer cfg) F nNak cs pni w).2.2 := by
  intro cs
  induction cs with
  | nil => intro _ _ _ h; exact absurd rfl h
  | cons c rest ih =>
    intro pni acc w _ hp hb hr hl
    cases rest with
    | nil =>
      have hR := cmdRoundLast_ok cfg hp acc L c
      have hL := cmdRoundLast_live cfg W hW2 hp acc L c
      have hlive := blockLoop_live cfg W (cmdRoundLast cfg pni acc L c) hR hL F nNak hF1 F 1 ((0x02 ||| pni) :: c) w
        (Or.inl ⟨⟨hb, hr, hl⟩, Or.inl rfl⟩) (pre_not_em hL ⟨hb, hr, hl⟩)
        ⟨fun _ => by omega, fun _ => by omega⟩ ⟨fun _ => by omega, fun h => absurd rfl h⟩
      have hpost := blockLoop_post cfg (cmdRoundLast cfg pni acc L c) hR (fun _ => True) ⟨trivial, trivial, trivial⟩
        F nNak F 1 ((0x02 ||| pni) :: c) w (Or.inl ⟨⟨hb, hr, hl⟩, Or.inl rfl⟩) (fun _ _ => trivial)
      unfold sendChunks
      simp only [List.isEmpty_nil, Bool.not_true, Bool.false_eq_true, if_false]
      simp only at hlive hpost
      generalize blockLoop _ _ _ _ _ _ _ _ _ _ = r1 at hlive hpost ⊢
      obtain ⟨w1, res⟩ := r1
      obtain ⟨hl1, _⟩ := hpost
      obtain ⟨hne, hgood⟩ := hlive
      cases res with
      | error e =>
        refine ⟨hne, fun hnp hpot => ?_⟩
        obtain ⟨⟨d, hd⟩, _⟩ := hgood hnp ⟨fun _ => by omega, fun h => absurd rfl h⟩
        cases hd
      | ok d =>
        obtain ⟨_, rfl⟩ := hl1
        simp only [iBlock_cons]
        have h1 := ihead_and1 hp (decide (cfg.chunk < (cfg.app L.length (acc ++ c)).length))
        have h2 := ihead_andEE hp (decide (cfg.chunk < (cfg.app L.length (acc ++ c)).length))
        simp only [h1, h2, ne_eq, not_true_eq_false, if_false, if_true]
        refine ⟨by simp, fun hnp hpot => ?_⟩
        obtain ⟨_, h4, h5⟩ := hgood hnp ⟨fun _ => by omega, fun h => absurd rfl h⟩
        exact ⟨⟨_, rfl⟩, h4, h5⟩
    | cons c2 rest2 =>
      have hR := cmdRoundMore_ok cfg hp acc L c
      have hL := cmdRoundMore_live cfg W hW1 hp acc L c
      have hlive := blockLoop_live cfg W (cmdRoundMore pni acc L c) hR hL F nNak hF1 F 1 ((0x12 ||| pni) :: c) w
        (Or.inl ⟨⟨hb, hr, hl⟩, Or.inl rfl⟩) (pre_not_em hL ⟨hb, hr, hl⟩)
        ⟨fun _ => by omega, fun _ => by omega⟩ ⟨fun _ => by omega, fun h => absurd rfl h⟩
      have hpost := blockLoop_post cfg (cmdRoundMore pni acc L c) hR (fun _ => True) ⟨trivial, trivial, trivial⟩
        F nNak F 1 ((0x12 ||| pni) :: c) w (Or.inl ⟨⟨hb, hr, hl⟩, Or.inl rfl⟩) (fun _ _ => trivial)
      unfold sendChunks
      simp only [List.isEmpty_cons, Bool.not_false, if_true]
      simp only at hlive hpost
      generalize blockLoop _ _ _ _ _ _ _ _ _ _ = r1 at hlive hpost ⊢
      obtain ⟨w1, res⟩ := r1
      obtain ⟨hl1, _⟩ := hpost
      obtain ⟨hne, hgood⟩ := hlive
      cases res with
      | error e =>
        refine ⟨hne, fun hnp hpot => ?_⟩
        obtain ⟨⟨d, hd⟩, _⟩ := hgood hnp ⟨fun _ => by omega, fun h => absurd rfl h⟩
        cases hd
      | ok d =>
        obtain ⟨hd, rfl⟩ := hl1
        simp only [ack_and1 hp, ack_andFE hp, ne_eq, not_true_eq_false, if_false, if_true]
        have hcore := hd.1
        simp only [Card.core, Core.mk.injEq] at hcore
        obtain ⟨hne2, hgood2⟩ := ih ((pni + 1) % 2) (acc ++ c) w1 (by simp) (tog_lt pni)
          (by rw [tog_tog hp]; exact hcore.1) hcore.2.1 hcore.2.2.2
        refine ⟨hne2, fun hnp hpot => ?_⟩
        obtain ⟨_, h4, h5⟩ := hgood hnp ⟨fun _ => by omega, fun h => absurd rfl h⟩
        simp only at h4 h5
        obtain ⟨h6, h7, h8⟩ := hgood2 h4 (by omega)
        exact ⟨h6, h7, by omega⟩


theorem recvChain_live (cfg : CardCfg) (W F nAck : Nat) (hF1 : W + 1 ≤ F) (hF2 : 2 * nAck + 3 ≤ F)
    (hW : cfg.wtxChain ≤ W) (hchunk : 1 ≤ cfg.chunk) (L' : List Bytes) :
    ∀ (f pni : Nat) (data resp : Bytes) (w : World Card) (T : Bytes) (more : Bool) (inf : Bytes),
      pni < 2 → data = iBlock ((pni + 1) % 2) more inf → (more = true ↔ T ≠ []) →
      Done ⟨(pni + 1) % 2, [], T, L'⟩ data w.card → T.length < f →
      LLive (nfaults w.script) (Fault.p ∉ w.script) (2 * nfaults w.script ≤ nAck + 1)
        (recvChain (isoPeer cfg) F nAck f pni data resp w).1 (recvChain (isoPeer cfg) F nAck f pni data resp w).2.2 := by
  intro f
  induction f with
  | zero => intro _ _ _ _ T _ _ _ _ _ _ h; omega
  | succ f ih =>
    intro pni data resp w T more inf hp hdata hmore hd hlen
    subst hdata
    unfold recvChain
    simp only [iBlock_cons]
    cases more with
    | false =>
      have h10 := (ihead_and10 (tog_lt pni) false).mpr rfl
      simp only [Bool.false_eq_true, if_false] at h10 ⊢
      simp only [h10, if_true]
      exact ⟨by simp, fun hnp _ => ⟨⟨_, rfl⟩, hnp, Nat.le_refl _⟩⟩
    | true =>
      have h10 : ¬ (((if true = true then 0x12 else 0x02) ||| ((pni + 1) % 2)) &&& 0x10 = 0) := by
        intro h; exact absurd ((ihead_and10 (tog_lt pni) true).mp h) (by simp)
      simp only [if_true] at h10 ⊢
      simp only [h10, if_false]
      have hT : T ≠ [] := hmore.mp rfl
      have hR := ackRound_ok cfg hp T hT L'
      have hL := ackRound_live cfg W hW hp T hT L'
      have hlive := blockLoop_live cfg W (ackRound cfg pni T L') hR hL F nAck hF1 F 1 [0xA2 ||| pni] w
        (Or.inl ⟨hd.1, Or.inl rfl⟩) (pre_not_em hL hd.1)
        ⟨fun _ => by omega, fun _ => by omega⟩ ⟨fun _ => by omega, fun h => absurd rfl h⟩
      have hpost := blockLoop_post cfg (ackRound cfg pni T L') hR (fun _ => True) ⟨trivial, trivial, trivial⟩
        F nAck F 1 [0xA2 ||| pni] w (Or.inl ⟨hd.1, Or.inl rfl⟩) (fun _ _ => trivial)
      simp only at hlive hpost
      generalize blockLoop _ _ _ _ _ _ _ _ _ _ = r1 at hlive hpost ⊢
      obtain ⟨w1, res⟩ := r1
      obtain ⟨hl1, _⟩ := hpost
      obtain ⟨hne, hgood⟩ := hlive
      cases res with
      | error e =>
        refine ⟨hne, fun hnp hpot => ?_⟩
        obtain ⟨⟨d, hd'⟩, _⟩ := hgood hnp ⟨fun _ => by omega, fun h => absurd rfl h⟩
        cases hd'
      | ok d =>
        obtain ⟨hd1, rfl⟩ := hl1
        simp only [iBlock_cons]
        simp only [ihead_and1 hp, ne_eq, not_true_eq_false, if_false]
        have hTl : 0 < T.length := by
          cases T with
          | nil => exact absurd rfl hT
          | cons _ _ => simp
        obtain ⟨hne2, hgood2⟩ := ih ((pni + 1) % 2)
          (((if decide (cfg.chunk < T.length) = true then 18 else 2) ||| pni) :: T.take cfg.chunk)
          (resp ++ T.take cfg.chunk) w1 (T.drop cfg.chunk) (decide (cfg.chunk < T.length)) (T.take cfg.chunk)
          (tog_lt pni) (by simp [tog_tog hp, iBlock_cons]) (by simp [List.drop_eq_nil_iff])
          (by simpa [tog_tog hp, iBlock_cons] using hd1) (by simp; omega)
        refine ⟨hne2, fun hnp hpot => ?_⟩
        obtain ⟨_, h4, h5⟩ := hgood hnp ⟨fun _ => by omega, fun h => absurd rfl h⟩
        simp only at h4 h5
        obtain ⟨h6, h7, h8⟩ := hgood2 h4 (by omega)
        exact ⟨h6, h7, by omega⟩

/-- `_exchange_command` against the ISO card: it ends, and with few enough faults it succeeds -/
theorem exchangeCmd_live (cfg : CardCfg) (W F : Nat) (pcd : Pcd) (cmd : Bytes) (w : World Card) (m : Nat)
    (hmiu : pcd.miu = (m : Int)) (hm : 1 ≤ m) (hcmd : cmd ≠ []) (hp : pcd.pni < 2) (hs : Sync pcd.pni w.card)
    (hchunk : 1 ≤ cfg.chunk) (hW1 : cfg.wtxAck ≤ W) (hW2 : cfg.wtxI ≤ W) (hW3 : cfg.wtxChain ≤ W)
    (hF1 : W + 1 ≤ F) (hF2 : 2 * pcd.nNak + 3 ≤ F) (hF3 : 2 * pcd.nAck + 3 ≤ F)
    (hF4 : (cfg.app w.card.log.length cmd).length < F) :
    LLive (nfaults w.script) (Fault.p ∉ w.script)
      (2 * nfaults w.script ≤ pcd.nNak + 1 ∧ 2 * nfaults w.script ≤ pcd.nAck + 1)
      (exchangeCmd (isoPeer cfg) F pcd cmd w).1 (exchangeCmd (isoPeer cfg) F pcd cmd w).2.2 := by
  have h0 : ¬ pcd.miu = 0 := by omega
  have h1 : ¬ (pcd.miu < 0 ∨ cmd = []) := by
    intro h; rcases h with h | h
    · omega
    · exact hcmd h
  have ht : pcd.miu.toNat = m := by omega
  obtain ⟨hfl, hne, hlen⟩ := chunks_spec m hm cmd hcmd
  have hsend := sendChunks_post cfg m F pcd.nNak hm w.card.log (fun _ => True) (fun _ _ => trivial)
    (chunks m cmd) pcd.pni [] w hne hp hs.1 hs.2 rfl hlen (fun _ _ => trivial)
  have hslive := sendChunks_live cfg W F pcd.nNak hF1 hF2 hW1 hW2 w.card.log (chunks m cmd) pcd.pni [] w hne hp hs.1 hs.2 rfl
  unfold exchangeCmd
  simp only [h0, h1, if_false, ht]
  rw [hfl, List.nil_append] at hsend
  generalize sendChunks _ _ _ _ _ _ = r1 at hsend hslive ⊢
  obtain ⟨w1, pni1, res⟩ := r1
  obtain ⟨_, hres⟩ := hsend
  obtain ⟨hne1, hgood1⟩ := hslive
  cases res with
  | error e =>
    refine ⟨hne1, fun hnp hpot => ?_⟩
    obtain ⟨⟨d, hd⟩, _⟩ := hgood1 hnp hpot.1
    cases hd
  | ok d =>
    obtain ⟨hp1, hd, hdone⟩ := hres
    simp only at hp1 hd hdone hne1 hgood1 ⊢
    have hrl := recvChain_live cfg W F pcd.nAck hF1 hF3 hW3 hchunk (w.card.log ++ [cmd])
      F pni1 d (d.drop 1) w1 ((cfg.app w.card.log.length cmd).drop cfg.chunk)
      (decide (cfg.chunk < (cfg.app w.card.log.length cmd).length)) ((cfg.app w.card.log.length cmd).take cfg.chunk)
      hp1 hd (by simp [List.drop_eq_nil_iff]) hdone (by simp; omega)
    obtain ⟨hne2, hgood2⟩ := hrl
    refine ⟨hne2, fun hnp hpot => ?_⟩
    obtain ⟨_, h4, h5⟩ := hgood1 hnp hpot.1
    obtain ⟨h6, h7, h8⟩ := hgood2 h4 (by omega)
    exact ⟨h6, h7, by omega⟩

/-- the wrapper `exchange` returns what `_exchange_command` returns (it only records the error) -/
theorem exchange_unfailed {σ} (P : Peer σ) (F : Nat) (pcd : Pcd) (cmd : Bytes) (w : World σ) (h : pcd.failed = none) :
    (exchange P F pcd cmd w).2.2 = (exchangeCmd P F pcd cmd w).2.2 ∧
    (exchange P F pcd cmd w).1 = (exchangeCmd P F pcd cmd w).1 := by
  unfold exchange
  simp only [h]
  generalize exchangeCmd P F pcd cmd w = r
  obtain ⟨w1, p1, res⟩ := r
  cases res with
  | ok x => exact ⟨rfl, rfl⟩
  | error e => cases e <;> exact ⟨rfl, rfl⟩

end NfcVerif.IsoDep
