import NfcVerif.Gen.FnDepPdu
import NfcVerif.Model.NfcDep
import NfcVerif.Model.Activate
import NfcVerif.Model.FnDepPduRef
import NfcVerif.Lemmas.PeerDep
import NfcVerif.Lemmas.FnBridgeBase
import NfcVerif.Lemmas.FnBridgeDep
/-!
Helper lemmas for `Props/FnBridgeDepPdu.lean` (PDU classes and activation arithmetic of `nfc/dep.py`).
-/
namespace NfcVerif.FnBridge.DepPdu
open NfcVerif NfcVerif.PyFn

/-! ## the length reduction table -/

/-- `(64, 128, 192, 254)[k]` for an index below 4 (in the form `py_bits` leaves it) -/
theorem idx_lr (k : Nat) (h : k < 4) :
    idx [((64 : Nat) : Int), ((128 : Nat) : Int), ((192 : Nat) : Int), ((254 : Nat) : Int)] (k : Int)
      = .ok ((NfcDep.lrTable k : Nat) : Int) := by
  match k, h with
  | 0, _ => rfl
  | 1, _ => rfl
  | 2, _ => rfl
  | 3, _ => rfl

theorem lrTable_mod (i : Nat) : NfcDep.lrTable (i % 4) = NfcDep.lrTable i := by
  unfold NfcDep.lrTable; rw [Nat.mod_mod]

/-- both NFC-DEP models use the same table -/
theorem lrTable_eq (i : Nat) : Activate.lrTable i = NfcDep.lrTable i := rfl

theorem lrTable_ge (i : Nat) : 64 ≤ NfcDep.lrTable i := by
  unfold NfcDep.lrTable; split <;> omega

theorem lrTable_le (i : Nat) : NfcDep.lrTable i ≤ 254 := by
  unfold NfcDep.lrTable; split <;> omega

/-- `x & (2^k - 1)` is a natural below `2^k` for every Python int `x` (negative ones included) -/
theorem band_mask_nat (x : Int) (k : Nat) :
    ∃ r : Nat, r < 2 ^ k ∧ band x ((2 ^ k - 1 : Nat) : Int) = (r : Int) := by
  cases x with
  | ofNat m =>
    refine ⟨m % 2 ^ k, Nat.mod_lt _ (Nat.two_pow_pos k), ?_⟩
    show ((m &&& (2 ^ k - 1) : Nat) : Int) = _
    rw [Nat.and_two_pow_sub_one_eq_mod]
  | negSucc n =>
    refine ⟨2 ^ k - 1 - n % 2 ^ k, ?_, ?_⟩
    · have := Nat.two_pow_pos k; omega
    · show Int.ofNat (ldiff (2 ^ k - 1) n) = _
      rw [ldiff_mask]; rfl

/-! ## `bytearray([..])` of naturals -/

/-- `bytearray([a, b, ..])`: the list itself when every element is an octet, else `ValueError` -/
theorem mkBytes_nat (l : List Nat) :
    mkBytes (l.map (fun (n : Nat) => (n : Int))) = if l.all (· < 256) then .ok l else .error .value := by
  induction l with
  | nil => rfl
  | cons a t ih =>
    simp only [List.map_cons, mkBytes, ih, List.all_cons]
    by_cases ha : a < 256
    · have h1 : ¬ ((a : Int) < 0 ∨ (a : Int) > 255) := by omega
      simp only [h1, if_false, ha, decide_true, Bool.true_and, Int.toNat_natCast]
      cases t.all (fun x => decide (x < 256)) <;> simp
    · have h1 : ((a : Int) < 0 ∨ (a : Int) > 255) := by omega
      simp [h1, ha]

theorem mkBytes_ok (l : List Nat) (h : IsBytes l) : mkBytes (l.map (fun (n : Nat) => (n : Int))) = .ok l := by
  rw [mkBytes_nat]
  have : l.all (· < 256) = true := by
    rw [List.all_eq_true]; intro x hx; simpa using h x hx
  rw [this]; rfl

/-! ## slices with natural bounds -/

theorem slice_zero_nat {α} (l : List α) (n : Nat) : slice l 0 (n : Int) = l.take n := by
  unfold slice
  have h0 : clampBound l.length 0 = 0 := by
    unfold clampBound; simp; intro h; omega
  rw [h0, clampBound_ofNat]
  simp only [List.drop_zero, Nat.sub_zero]
  rcases Nat.le_total n l.length with h | h
  · rw [Nat.min_eq_left h]
  · rw [Nat.min_eq_right h, List.take_of_length_le (Nat.le_refl _), List.take_of_length_le h]

theorem slice_nat {α} (l : List α) (a b : Nat) : slice l (a : Int) (b : Int) = (l.drop a).take (b - a) := by
  unfold slice
  simp only [clampBound_ofNat]
  rcases Nat.le_total a l.length with ha | ha
  · rcases Nat.le_total b l.length with hb | hb
    · rw [Nat.min_eq_left ha, Nat.min_eq_left hb]
    · rw [Nat.min_eq_left ha, Nat.min_eq_right hb, List.take_of_length_le (by rw [List.length_drop]; omega),
        List.take_of_length_le (by rw [List.length_drop]; omega)]
  · rw [Nat.min_eq_right ha, List.drop_of_length_le (Nat.le_refl _), List.drop_of_length_le ha]
    simp

theorem delSlice_zero_nat {α} (l : List α) (n : Nat) : delSlice l 0 (n : Int) = l.drop n := by
  unfold delSlice
  have h0 : clampBound l.length 0 = 0 := by
    unfold clampBound; simp; intro h; omega
  rw [h0, clampBound_ofNat]
  simp only [List.take_zero, List.nil_append, Nat.zero_max]
  rcases Nat.le_total n l.length with h | h
  · rw [Nat.min_eq_left h]
  · rw [Nat.min_eq_right h, List.drop_of_length_le (Nat.le_refl _), List.drop_of_length_le h]

/-! ## PDU views -/

/-- the two code octets `PDU_CODE` of a PDU class: `D4 xx` for requests, `D5 xx` for responses -/
def code (req : Bool) (k : Nat) : Bytes := [if req then 0xD4 else 0xD5, if req then k else k + 1]

open NfcVerif.NfcDep in
/-- the tuple of constructor arguments returned by the regenerated `DEP_REQ_RES.decode` as the model's PDU (None:
`decode` did not recognise the code octets, the caller's first attribute access raises) -/
def depOfRec (r : Option ((Int × Bool × Bool × Int) × Option Int × Option Int × Bytes)) : Py Pdu :=
  match r with
  | none => .error .attr
  | some ((fmt, _, _, pni), did, nad, data) =>
    .ok (.dep fmt.toNat pni.toNat (did.map Int.toNat) (nad.map Int.toNat) data)


open NfcVerif.NfcDep in
/-- `return eval(name + "_REQ"|"_RES").decode(frame)` with the regenerated `decode` class methods; hand-written remain
the table lookup (`KeyError` for an unknown code) and `PSL_REQ_RES.decode` (`cls(*data[2:])`, not translatable).
`decode` returning None (code octets of another class) shows up as `AttributeError` at the first use. -/
def genTail (req : Bool) (f2 : Bytes) : Py Pdu :=
  match f2 with
  | _ :: c1 :: d =>
    if req then
      if c1 = 0 then Gen.Fn.dep_atr_req_decode f2 >>= fun r => match r with | none => .error .attr | some _ => .ok (.atr d)
      else if c1 = 4 then (if d.length ≠ 3 then .error .protocol else .ok (.psl d))
      else if c1 = 6 then Gen.Fn.dep_dep_req_decode f2 >>= depOfRec
      else if c1 = 8 then Gen.Fn.dep_dsl_req_decode f2 >>= fun r =>
        match r with | none => .error .attr | some did => .ok (.dsl (did.map Int.toNat))
      else if c1 = 10 then Gen.Fn.dep_rls_req_decode f2 >>= fun r =>
        match r with | none => .error .attr | some did => .ok (.rls (did.map Int.toNat))
      else .error .key
    else
      if c1 = 1 then Gen.Fn.dep_atr_res_decode f2 >>= fun r => match r with | none => .error .attr | some _ => .ok (.atr d)
      else if c1 = 5 then (if d.length ≠ 1 then .error .protocol else .ok (.psl d))
      else if c1 = 7 then Gen.Fn.dep_dep_res_decode f2 >>= depOfRec
      else if c1 = 9 then Gen.Fn.dep_dsl_res_decode f2 >>= fun r =>
        match r with | none => .error .attr | some did => .ok (.dsl (did.map Int.toNat))
      else if c1 = 11 then Gen.Fn.dep_rls_res_decode f2 >>= fun r =>
        match r with | none => .error .attr | some did => .ok (.rls (did.map Int.toNat))
      else .error .key
  | _ => .error .index

end NfcVerif.FnBridge.DepPdu
