import NfcVerif.Model.Retry
/-!
# C16 - proofs about the retry primitives and the command programs
-/
namespace NfcVerif.Retry

/-! ## log bookkeeping -/

@[simp] theorem nextAtt_log (w : World) : (nextAtt w).2.log = w.log := by
  unfold nextAtt; split <;> rfl
@[simp] theorem exec_log (w : World) (c : Cmd) (a : Ans) : (w.exec c a).log = w.log := by
  unfold World.exec World.apply; split <;> rfl
@[simp] theorem push_log (w : World) (c : Cmd) (l) : (w.push c l).log = w.log ++ [⟨c, l⟩] := rfl
@[simp] theorem ite_exec_log (b : Bool) (w : World) (c : Cmd) (a : Ans) :
    (if b = true then w.exec c a else w).log = w.log := by split <;> simp

/-- the attempt was answered by the tag (a cut answer is an answer) -/
def isAnswered : Att × Bool → Bool
  | (.ans, mute) => !mute
  | (.short _, mute) => !mute
  | (.flt _ _, _) => false

/-- attempts of one primitive call: failures, then at most one further attempt -/
def InvOK (bound : Nat) (atts : List (Att × Bool)) : Prop :=
  ∃ fails tail, atts = fails ++ tail ∧ (∀ x ∈ fails, isAnswered x = false) ∧ tail.length ≤ 1
    ∧ fails.length + tail.length ≤ bound

/-- **the retry loop**: it appends exactly one invocation to the log, whose attempts are
the earlier ones (`acc`), then unanswered attempts, then at most one more; no more than `n`
new exchanges. -/
theorem loop_log (cfg : Cfg) (k : PrimKind) (idm : Bool) (c : Cmd) (a : Ans) :
    ∀ (n : Nat) (last : Option Fault) (acc : List (Att × Bool)) (w : World),
    ∃ fails tail, (loop cfg k idm c a n last acc w).2.log = w.log ++ [⟨c, acc ++ fails ++ tail⟩]
      ∧ (∀ x ∈ fails, isAnswered x = false) ∧ tail.length ≤ 1 ∧ fails.length + tail.length ≤ n := by
  intro n
  induction n with
  | zero => intro last acc w; exact ⟨[], [], by simp [loop], by simp, by simp, by simp⟩
  | succ n ih =>
    intro last acc w
    unfold loop
    generalize hp : nextAtt w = p
    obtain ⟨att, w1⟩ := p
    have hl : w1.log = w.log := by have := nextAtt_log w; rw [hp] at this; exact this
    cases att with
    | ans =>
      cases a with
      | ok => exact ⟨[], [(.ans, false)], by simp [hl], by simp, by simp, by simp⟩
      | refuse e => exact ⟨[], [(.ans, false)], by simp [hl], by simp, by simp, by simp⟩
      | mute =>
        obtain ⟨f, t, h1, h2, h3, h4⟩ := ih (some .timeout) (acc ++ [(.ans, true)]) (w1.exec c .mute)
        refine ⟨(.ans, true) :: f, t, ?_, ?_, h3, by simp; omega⟩
        · simp only [h1]; simp [hl]
        · intro x hx; cases hx with
          | head => rfl
          | tail _ h => exact h2 x h
    | flt f r =>
      obtain ⟨fl, t, h1, h2, h3, h4⟩ := ih (some f) (acc ++ [(.flt f r, false)]) (if r then w1.exec c a else w1)
      refine ⟨(.flt f r, false) :: fl, t, ?_, ?_, h3, by simp; omega⟩
      · simp only [h1]; simp [hl]
      · intro x hx; cases hx with
        | head => rfl
        | tail _ h => exact h2 x h
    | short s =>
      cases a with
      | mute =>
        obtain ⟨f, t, h1, h2, h3, h4⟩ := ih (some .timeout) (acc ++ [(.short s, true)]) (w1.exec c .mute)
        refine ⟨(.short s, true) :: f, t, ?_, ?_, h3, by simp; omega⟩
        · simp only [h1]; simp [hl]
        · intro x hx; cases hx with
          | head => rfl
          | tail _ h => exact h2 x h
      | ok =>
        refine ⟨[], [(.short s, false)], ?_, by simp, by simp, by simp⟩
        simp only []; split <;> simp [hl]
      | refuse e =>
        refine ⟨[], [(.short s, false)], ?_, by simp, by simp, by simp⟩
        simp only []; split <;> simp [hl]

/-- a script that starts with `n` failures of class `f` (whether or not the tag got the command) -/
def startsWith (f : Fault) : Nat → List Att → Prop
  | 0, _ => True
  | n+1, .flt g _ :: rest => g = f ∧ startsWith f n rest
  | _+1, _ => False

theorem loop_exhausted (cfg : Cfg) (k : PrimKind) (idm : Bool) (c : Cmd) (a : Ans) (f : Fault) :
    ∀ (n : Nat) (last : Option Fault) (acc : List (Att × Bool)) (w : World),
    startsWith f n w.script → (n = 0 → last = some f) →
    (loop cfg k idm c a n last acc w).1 = .error (exhausted cfg k f) := by
  intro n
  induction n with
  | zero => intro last acc w _ h; simp [loop, h rfl]
  | succ n ih =>
    intro last acc w hs _
    unfold loop
    cases hsc : w.script with
    | nil => rw [hsc] at hs; exact absurd hs (by simp [startsWith])
    | cons x rest =>
      rw [hsc] at hs
      cases x with
      | flt g r =>
        obtain ⟨hg, hrest⟩ := hs
        subst hg
        have : nextAtt w = (.flt g r, { w with script := rest }) := by simp [nextAtt, hsc]
        rw [this]
        simp only []
        apply ih
        · split <;> simp [World.exec, World.apply] <;> (try split) <;> exact hrest
        · intro _; rfl
      | ans => exact absurd hs (by simp [startsWith])
      | short s => exact absurd hs (by simp [startsWith])

end NfcVerif.Retry

namespace NfcVerif.Retry

/-! ## which exceptions a primitive can raise -/

/-- the script only contains the three error classes the tag layer knows -/
def Benign (w : World) : Prop := ∀ f r, Att.flt f r ∈ w.script → f.errno ≠ none

theorem nextAtt_cases (w : World) :
    (w.script = [] ∧ nextAtt w = (.ans, w)) ∨
    (∃ x rest, w.script = x :: rest ∧ nextAtt w = (x, { w with script := rest })) := by
  unfold nextAtt
  cases h : w.script with
  | nil => left; simp
  | cons x rest => right; exact ⟨x, rest, rfl, by simp⟩

theorem benign_next {w w1 : World} {att : Att} (h : nextAtt w = (att, w1)) (hb : Benign w) :
    Benign w1 ∧ (∀ f r, att = .flt f r → f.errno ≠ none) := by
  rcases nextAtt_cases w with ⟨hn, he⟩ | ⟨x, rest, hs, he⟩
  · rw [he] at h; cases h
    exact ⟨hb, by intro f r h; cases h⟩
  · rw [he] at h; cases h
    refine ⟨?_, ?_⟩
    · intro f r hm; exact hb f r (by rw [hs]; exact List.mem_cons_of_mem _ hm)
    · intro f r hx; exact hb f r (by rw [hs, hx]; exact List.mem_cons_self)

theorem benign_exec {w : World} (c : Cmd) (a : Ans) (hb : Benign w) : Benign (w.exec c a) := by
  unfold World.exec World.apply; split <;> exact hb

theorem benign_push {w : World} (c : Cmd) (l) (hb : Benign w) : Benign (w.push c l) := hb

theorem benign_ite {w : World} (b : Bool) (c : Cmd) (a : Ans) (hb : Benign w) :
    Benign (if b = true then w.exec c a else w) := by split; exact benign_exec c a hb; exact hb

theorem shortExc_repaired (idm : Bool) (k : Nat) : ∃ m, shortExc Cfg.repaired idm k = .tagCmd m := by
  unfold shortExc Cfg.repaired; simp only [if_true]; split <;> exact ⟨_, rfl⟩

theorem exhausted_ok (k : PrimKind) (f : Fault) (h : k = .t3 ∨ f.errno ≠ none) :
    ∃ m, exhausted Cfg.repaired k f = .tagCmd m := by
  unfold exhausted
  cases hf : f.errno with
  | some n => exact ⟨n, rfl⟩
  | none =>
    rcases h with h | h
    · subst h; exact ⟨-1, by simp [Cfg.repaired]⟩
    · exact absurd hf h

/-- repaired code: the retry loop raises nothing but TagCommandError (Type 3: for every script;
Type 1/2: as long as `exchange` raises one of the three known classes) and keeps the script benign -/
theorem loop_safe (k : PrimKind) (idm : Bool) (c : Cmd) (a : Ans) :
    ∀ (n : Nat) (last : Option Fault) (acc : List (Att × Bool)) (w : World),
    (n = 0 → ∃ f, last = some f ∧ (k = .t3 ∨ f.errno ≠ none)) →
    (k = .t3 ∨ Benign w) →
    (∀ e, (loop Cfg.repaired k idm c a n last acc w).1 = .error e → ∃ m, e = .tagCmd m)
    ∧ (Benign w → Benign (loop Cfg.repaired k idm c a n last acc w).2) := by
  intro n
  induction n with
  | zero =>
    intro last acc w h0 _
    obtain ⟨f, hf, hk⟩ := h0 rfl
    subst hf
    refine ⟨?_, fun hb => hb⟩
    intro e he
    simp only [loop] at he
    obtain ⟨m, hm⟩ := exhausted_ok k f hk
    rw [hm] at he; cases he; exact ⟨m, rfl⟩
  | succ n ih =>
    intro last acc w _ hk
    unfold loop
    generalize hp : nextAtt w = p
    obtain ⟨att, w1⟩ := p
    have hb1 : Benign w → Benign w1 ∧ (∀ f r, att = .flt f r → f.errno ≠ none) := benign_next hp
    have hk1 : k = .t3 ∨ Benign w1 := by
      rcases hk with h | h
      · exact Or.inl h
      · exact Or.inr (hb1 h).1
    cases att with
    | ans =>
      cases a with
      | ok => exact ⟨(by intro e he; cases he), fun hb => benign_push _ _ (benign_exec _ _ (hb1 hb).1)⟩
      | refuse e0 => exact ⟨(by intro e he; cases he; exact ⟨_, rfl⟩), fun hb => benign_push _ _ (benign_exec _ _ (hb1 hb).1)⟩
      | mute =>
        have := ih (some .timeout) (acc ++ [(.ans, true)]) (w1.exec c .mute)
          (fun _ => ⟨.timeout, rfl, Or.inr (by simp [Fault.errno])⟩)
          (hk1.imp id (benign_exec _ _))
        exact ⟨this.1, fun hb => this.2 (benign_exec _ _ (hb1 hb).1)⟩
    | flt f r =>
      have hf : k = .t3 ∨ f.errno ≠ none := by
        rcases hk with h | h
        · exact Or.inl h
        · exact Or.inr ((hb1 h).2 f r rfl)
      have := ih (some f) (acc ++ [(.flt f r, false)]) (if r then w1.exec c a else w1)
        (fun _ => ⟨f, rfl, hf⟩) (hk1.imp id (benign_ite _ _ _))
      exact ⟨this.1, fun hb => this.2 (benign_ite _ _ _ (hb1 hb).1)⟩
    | short s =>
      cases a with
      | mute =>
        have := ih (some .timeout) (acc ++ [(.short s, true)]) (w1.exec c .mute)
          (fun _ => ⟨.timeout, rfl, Or.inr (by simp [Fault.errno])⟩)
          (hk1.imp id (benign_exec _ _))
        exact ⟨this.1, fun hb => this.2 (benign_exec _ _ (hb1 hb).1)⟩
      | ok =>
        simp only []
        split
        · refine ⟨?_, fun hb => benign_push _ _ (benign_exec _ _ (hb1 hb).1)⟩
          intro e he
          obtain ⟨m, hm⟩ := shortExc_repaired idm s
          simp only [hm] at he; cases he; exact ⟨m, rfl⟩
        · exact ⟨(by intro e he; cases he), fun hb => benign_push _ _ (benign_exec _ _ (hb1 hb).1)⟩
      | refuse e0 =>
        simp only []
        split
        · refine ⟨?_, fun hb => benign_push _ _ (benign_exec _ _ (hb1 hb).1)⟩
          intro e he
          obtain ⟨m, hm⟩ := shortExc_repaired idm s
          simp only [hm] at he; cases he; exact ⟨m, rfl⟩
        · exact ⟨(by intro e he; cases he; exact ⟨_, rfl⟩), fun hb => benign_push _ _ (benign_exec _ _ (hb1 hb).1)⟩

end NfcVerif.Retry

namespace NfcVerif.Retry

/-! ## ISO-DEP exchange -/

theorem depFail_cases (cfg : Cfg) (budget i : Nat) (f : Fault) :
    (depFail cfg budget i f = none ∧ i ≤ budget ∧ (f = .timeout ∨ f = .transmission)) ∨
    (∃ m, depFail cfg budget i f = some (.tagCmd m)) ∨
    (cfg.fixT4 = false ∧ depFail cfg budget i f = some f.exc) := by
  unfold depFail
  cases f with
  | protocol => right; left; exact ⟨_, rfl⟩
  | timeout =>
    by_cases h : i ≤ budget
    · left; simp [h]
    · right; left; simp [h]
  | transmission =>
    by_cases h : i ≤ budget
    · left; simp [h]
    · right; left; simp [h]
  | brokenLink =>
    cases hc : cfg.fixT4
    · right; right; simp
    · right; left; simp
  | base =>
    cases hc : cfg.fixT4
    · right; right; simp
    · right; left; simp

/-- what `depDone` returns -/
theorem depDone_spec (c : Cmd) (a : Ans) (w : World) (acc) :
    (∀ e, (depDone c a w acc).1 = .error e → ∃ m, e = .tagCmd m) ∧ (depDone c a w acc).2 = w.push c acc := by
  unfold depDone; cases a <;> simp

/-- **ISO-DEP exchange**: started with frame number `i` (`acc` holds the `i-1` earlier frames) and
`fuel + i = budget + 4` the loop never runs out of fuel, sends at most `budget + 2` frames in
total, appends one invocation to the log and raises TagCommandError or - as found only - the
unknown CommunicationError itself. -/
theorem dep_spec (cfg : Cfg) (budget : Nat) (c : Cmd) (a : Ans) :
    ∀ (fuel i : Nat) (nak has : Bool) (acc : List (Att × Bool)) (w : World),
    fuel + i = budget + 4 → (nak = true → i ≤ budget + 1) → i ≤ budget + 2 → acc.length + 1 = i →
    (∀ e, (dep cfg budget c a fuel i nak has acc w).1 = .error e →
        (∃ m, e = .tagCmd m) ∨ (cfg.fixT4 = false ∧ ∃ f, e = Fault.exc f))
    ∧ (Benign w → Benign (dep cfg budget c a fuel i nak has acc w).2)
    ∧ ∃ more, (dep cfg budget c a fuel i nak has acc w).2.log = w.log ++ [⟨c, acc ++ more⟩]
        ∧ acc.length + more.length ≤ budget + 2 := by
  intro fuel
  induction fuel with
  | zero => intro i nak has acc w h1 _ h3 _; omega
  | succ fuel ih =>
    intro i nak has acc w h1 h2 h3 h4
    unfold dep
    generalize hp : nextAtt w = p
    obtain ⟨att, w1⟩ := p
    have hl : w1.log = w.log := by have := nextAtt_log w; rw [hp] at this; exact this
    have hb1 : Benign w → Benign w1 := fun hb => (benign_next hp hb).1
    -- the continuation after an error that is answered with R(NAK)
    have cont : ∀ (has' : Bool) (x : Att × Bool) (w2 : World), w2.log = w.log → (Benign w → Benign w2) → i ≤ budget →
        (∀ e, (dep cfg budget c a fuel (i+1) true has' (acc ++ [x]) w2).1 = .error e →
            (∃ m, e = .tagCmd m) ∨ (cfg.fixT4 = false ∧ ∃ f, e = Fault.exc f))
        ∧ (Benign w → Benign (dep cfg budget c a fuel (i+1) true has' (acc ++ [x]) w2).2)
        ∧ ∃ more, (dep cfg budget c a fuel (i+1) true has' (acc ++ [x]) w2).2.log = w.log ++ [⟨c, acc ++ more⟩]
            ∧ acc.length + more.length ≤ budget + 2 := by
      intro has' x w2 hl2 hb2 hi
      obtain ⟨e1, e2, more, e3, e4⟩ := ih (i+1) true has' (acc ++ [x]) w2 (by omega) (by intro _; omega) (by omega) (by simp; omega)
      refine ⟨e1, fun hb => e2 (hb2 hb), x :: more, ?_, ?_⟩
      · rw [e3, hl2]; simp
      · simp at e4 ⊢; omega
    -- the end of the exchange with an exception `e`
    have stop : ∀ (e0 : Exc) (x : Att × Bool) (w2 : World), w2.log = w.log → (Benign w → Benign w2) →
        ((∃ m, e0 = .tagCmd m) ∨ (cfg.fixT4 = false ∧ ∃ f, e0 = Fault.exc f)) →
        (∀ e, ((Except.error e0 : Py Unit), w2.push c (acc ++ [x])).1 = .error e →
            (∃ m, e = .tagCmd m) ∨ (cfg.fixT4 = false ∧ ∃ f, e = Fault.exc f))
        ∧ (Benign w → Benign ((Except.error e0 : Py Unit), w2.push c (acc ++ [x])).2)
        ∧ ∃ more, ((Except.error e0 : Py Unit), w2.push c (acc ++ [x])).2.log = w.log ++ [⟨c, acc ++ more⟩]
            ∧ acc.length + more.length ≤ budget + 2 := by
      intro e0 x w2 hl2 hb2 he0
      refine ⟨by intro e he; cases he; exact he0, fun hb => benign_push _ _ (hb2 hb), [x], by simp [hl2], by simp; omega⟩
    have fin : ∀ (x : Att × Bool) (w2 : World), w2.log = w.log → (Benign w → Benign w2) →
        (∀ e, (depDone c a w2 (acc ++ [x])).1 = .error e →
            (∃ m, e = .tagCmd m) ∨ (cfg.fixT4 = false ∧ ∃ f, e = Fault.exc f))
        ∧ (Benign w → Benign (depDone c a w2 (acc ++ [x])).2)
        ∧ ∃ more, (depDone c a w2 (acc ++ [x])).2.log = w.log ++ [⟨c, acc ++ more⟩]
            ∧ acc.length + more.length ≤ budget + 2 := by
      intro x w2 hl2 hb2
      obtain ⟨d1, d2⟩ := depDone_spec c a w2 (acc ++ [x])
      refine ⟨fun e he => Or.inl (d1 e he), ?_, [x], ?_, by simp; omega⟩
      · intro hb; rw [d2]; exact benign_push _ _ (hb2 hb)
      · rw [d2]; simp [hl2]
    have failcase : ∀ (f : Fault) (has' : Bool) (x : Att × Bool) (w2 : World), w2.log = w.log → (Benign w → Benign w2) →
        (∀ e, (match depFail cfg budget i f with
              | some e => ((Except.error e : Py Unit), w2.push c (acc ++ [x]))
              | none => dep cfg budget c a fuel (i+1) true has' (acc ++ [x]) w2).1 = .error e →
            (∃ m, e = .tagCmd m) ∨ (cfg.fixT4 = false ∧ ∃ f, e = Fault.exc f))
        ∧ (Benign w → Benign (match depFail cfg budget i f with
              | some e => ((Except.error e : Py Unit), w2.push c (acc ++ [x]))
              | none => dep cfg budget c a fuel (i+1) true has' (acc ++ [x]) w2).2)
        ∧ ∃ more, (match depFail cfg budget i f with
              | some e => ((Except.error e : Py Unit), w2.push c (acc ++ [x]))
              | none => dep cfg budget c a fuel (i+1) true has' (acc ++ [x]) w2).2.log = w.log ++ [⟨c, acc ++ more⟩]
            ∧ acc.length + more.length ≤ budget + 2 := by
      intro f has' x w2 hl2 hb2
      rcases depFail_cases cfg budget i f with ⟨h, hi, _⟩ | ⟨m, h⟩ | ⟨hc, h⟩
      · rw [h]; exact cont has' x w2 hl2 hb2 hi
      · rw [h]; exact stop _ x w2 hl2 hb2 (Or.inl ⟨m, rfl⟩)
      · rw [h]; exact stop _ x w2 hl2 hb2 (Or.inr ⟨hc, f, rfl⟩)
    cases att with
    | flt f r =>
      simp only []
      exact failcase f _ _ _ (by split <;> simp [hl]) (fun hb => benign_ite _ _ _ (hb1 hb))
    | ans =>
      simp only []
      split
      · exact failcase .timeout _ _ _ hl hb1
      · split
        · split
          · exact fin _ _ hl hb1
          · rename_i hn _
            obtain ⟨e1, e2, more, e3, e4⟩ := ih (i+1) false has (acc ++ [(.ans, false)]) w1 (by omega)
              (by intro h; cases h) (by have := h2 hn; omega) (by simp; omega)
            refine ⟨e1, fun hb => e2 (hb1 hb), (.ans, false) :: more, ?_, ?_⟩
            · rw [e3, hl]; simp
            · simp at e4 ⊢; omega
        · exact fin _ _ (by simp [hl]) (fun hb => benign_exec _ _ (hb1 hb))
    | short s =>
      simp only []
      split
      · exact failcase .timeout _ _ _ hl hb1
      · split
        · split
          · exact fin _ _ hl hb1
          · rename_i hn _
            obtain ⟨e1, e2, more, e3, e4⟩ := ih (i+1) false has (acc ++ [(.short s, false)]) w1 (by omega)
              (by intro h; cases h) (by have := h2 hn; omega) (by simp; omega)
            refine ⟨e1, fun hb => e2 (hb1 hb), (.short s, false) :: more, ?_, ?_⟩
            · rw [e3, hl]; simp
            · simp at e4 ⊢; omega
        · exact fin _ _ (by simp [hl]) (fun hb => benign_exec _ _ (hb1 hb))

/-- a persisting timeout / transmission error: frames `i .. budget+1` all fail with class `f` -/
theorem dep_exhausted (cfg : Cfg) (budget : Nat) (c : Cmd) (a : Ans) (f : Fault) (e : Int)
    (hf : (f = .timeout ∧ e = 0) ∨ (f = .transmission ∧ e = -1)) :
    ∀ (fuel i : Nat) (nak has : Bool) (acc : List (Att × Bool)) (w : World),
    fuel + i = budget + 4 → i ≤ budget + 1 → startsWith f (budget + 2 - i) w.script →
    (dep cfg budget c a fuel i nak has acc w).1 = .error (.tagCmd e) := by
  intro fuel
  induction fuel with
  | zero => intro i _ _ _ _ h1 h2 _; omega
  | succ fuel ih =>
    intro i nak has acc w h1 h2 hs
    have hn : budget + 2 - i = (budget + 1 - i) + 1 := by omega
    rw [hn] at hs
    unfold dep
    cases hsc : w.script with
    | nil => rw [hsc] at hs; exact absurd hs (by simp [startsWith])
    | cons x rest =>
      rw [hsc] at hs
      cases x with
      | ans => exact absurd hs (by simp [startsWith])
      | short s => exact absurd hs (by simp [startsWith])
      | flt g r =>
        obtain ⟨hg, hrest⟩ := hs
        subst hg
        have : nextAtt w = (.flt g r, { w with script := rest }) := by simp [nextAtt, hsc]
        rw [this]
        simp only []
        by_cases hi : i ≤ budget
        · have hd : depFail cfg budget i g = none := by
            rcases hf with ⟨h, _⟩ | ⟨h, _⟩ <;> subst h <;> simp [depFail, hi]
          rw [hd]
          simp only []
          apply ih (i+1) true _ _ _ (by omega) (by omega)
          have : budget + 2 - (i + 1) = budget + 1 - i := by omega
          rw [this]
          split <;> simp [World.exec, World.apply] <;> (try split) <;> exact hrest
        · have hd : depFail cfg budget i g = some (.tagCmd e) := by
            rcases hf with ⟨h, he⟩ | ⟨h, he⟩ <;> subst h <;> subst he <;> simp [depFail, hi]
          rw [hd]

end NfcVerif.Retry

namespace NfcVerif.Retry

/-! ## command programs -/

/-- outcome allowed by the property: a value or a TagCommandError -/
def Documented : Outcome → Prop
  | .ok _ => True
  | .exc e => ∃ m, e = .tagCmd m

/-- the retry loops of Type 1/2 and Type 3 -/
def LoopKind (k : PrimKind) : Prop := k = .t12 ∨ k = .t3
/-- primitives of the repaired code that cope with every CommunicationError class -/
def Robust (k : PrimKind) : Prop := k = .t3 ∨ k = .t4 ∨ k = .raw

/-- side conditions of a call: retry loops have a budget of 1..3 attempts, the bare exchange
(Type 4 presence check) sits in a `try ... except CommunicationError` -/
def PrimSide (p : Prim) (ct : Catch) : Prop :=
  (LoopKind p.kind → 0 < p.budget ∧ p.budget ≤ 3) ∧ (p.kind = .raw → ct = .commErr)

/-- a program over primitives of kinds `S` that raises nothing but TagCommandError by itself -/
def Clean (S : PrimKind → Prop) : Prog → Prop
  | .ret _ => True
  | .crash e => ∃ m, e = .tagCmd m
  | .reraise => True
  | .caseErr z n p => Clean S (z ()) ∧ Clean S (n ()) ∧ Clean S (p ())
  | .call p _ _ ct ok err => S p.kind ∧ PrimSide p ct ∧ Clean S (ok ()) ∧ Clean S (err ())

def PolClean (S : PrimKind → Prop) : Pol → Prop
  | .goto p => Clean S (p ())
  | _ => True

def Pol.isRaise : Pol → Bool
  | .raise => true
  | _ => false

theorem rawx_safe (c : Cmd) (a : Ans) (w : World) :
    (∀ e, (rawx c a w).1 = .error e → (∃ m, e = .tagCmd m) ∨ ∃ n, Catch.commErr.catches e = some n)
    ∧ (Benign w → Benign (rawx c a w).2) := by
  unfold rawx
  generalize hp : nextAtt w = p
  obtain ⟨att, w1⟩ := p
  have hb1 : Benign w → Benign w1 := fun hb => (benign_next hp hb).1
  cases att with
  | flt f r =>
    refine ⟨?_, fun hb => benign_push _ _ (benign_ite _ _ _ (hb1 hb))⟩
    intro e he
    simp only [] at he
    cases he
    right
    cases f <;> exact ⟨_, rfl⟩
  | ans =>
    cases a with
    | ok => exact ⟨(by intro e he; cases he), fun hb => benign_push _ _ (show Benign (w1.apply c) from hb1 hb)⟩
    | refuse e0 => exact ⟨(by intro e he; cases he; exact Or.inl ⟨_, rfl⟩), fun hb => benign_push _ _ (hb1 hb)⟩
    | mute => exact ⟨(by intro e he; cases he; exact Or.inr ⟨_, rfl⟩), fun hb => benign_push _ _ (hb1 hb)⟩
  | short s =>
    cases a with
    | ok => exact ⟨(by intro e he; cases he), fun hb => benign_push _ _ (show Benign (w1.apply c) from hb1 hb)⟩
    | refuse e0 => exact ⟨(by intro e he; cases he; exact Or.inl ⟨_, rfl⟩), fun hb => benign_push _ _ (hb1 hb)⟩
    | mute => exact ⟨(by intro e he; cases he; exact Or.inr ⟨_, rfl⟩), fun hb => benign_push _ _ (hb1 hb)⟩

/-- repaired code: what a primitive can raise -/
theorem prim_safe (p : Prim) (c : Cmd) (a : Ans) (w : World) (hl : LoopKind p.kind → 0 < p.budget)
    (hs : Robust p.kind ∨ Benign w) :
    (∀ e, (prim Cfg.repaired p c a w).1 = .error e →
        (∃ m, e = .tagCmd m) ∨ (p.kind = .raw ∧ ∃ n, Catch.commErr.catches e = some n))
    ∧ (Benign w → Benign (prim Cfg.repaired p c a w).2) := by
  unfold prim
  cases hk : p.kind with
  | t12 =>
    simp only []
    have hb : Benign w := by
      rcases hs with h | h
      · rw [hk] at h; rcases h with h | h | h <;> cases h
      · exact h
    have := loop_safe .t12 p.idm c a p.budget none [] w
      (fun h0 => by have := hl (by rw [hk]; exact Or.inl rfl); omega) (Or.inr hb)
    exact ⟨fun e he => Or.inl (this.1 e he), this.2⟩
  | t3 =>
    simp only []
    have := loop_safe .t3 p.idm c a p.budget none [] w
      (fun h0 => by have := hl (by rw [hk]; exact Or.inr rfl); omega) (Or.inl rfl)
    exact ⟨fun e he => Or.inl (this.1 e he), this.2⟩
  | t4 =>
    simp only []
    obtain ⟨h1, h2, _⟩ := dep_spec Cfg.repaired p.budget c a (p.budget + 3) 1 false false [] w
      (by omega) (by intro h; cases h) (by omega) (by simp)
    refine ⟨fun e he => ?_, h2⟩
    rcases h1 e he with h | ⟨h, _⟩
    · exact Or.inl h
    · cases h
  | raw =>
    simp only []
    have := rawx_safe c a w
    refine ⟨fun e he => ?_, this.2⟩
    rcases this.1 e he with h | h
    · exact Or.inl h
    · exact Or.inr ⟨trivial, h⟩

/-- **a clean program ends with a value or a TagCommandError**: for every fault script when all
its primitives are robust ones (Type 3, ISO-DEP, presence check), otherwise for every script of
the three known classes -/
theorem run_documented (S : PrimKind → Prop) (robust : Prop) (hR : robust → ∀ k, S k → Robust k) :
    ∀ (P : Prog) (cur : Int) (w : World), Clean S P → (robust ∨ Benign w) →
    Documented (run Cfg.repaired P cur w).1 := by
  intro P
  induction P with
  | ret v => intro cur w _ _; simp [run, Documented]
  | crash e => intro cur w hc _; simp only [run, Documented]; exact hc
  | reraise => intro cur w _ _; simp [run, Documented]
  | caseErr z n p ihz ihn ihp =>
    intro cur w hc hw
    obtain ⟨hz, hn, hp⟩ := hc
    unfold run
    split
    · exact ihz () cur w hz hw
    · split
      · exact ihn () cur w hn hw
      · exact ihp () cur w hp hw
  | call p c a ct ok err ihok iherr =>
    intro cur w hc hw
    obtain ⟨hk, ⟨hl, hraw⟩, hok, herr⟩ := hc
    have hs : Robust p.kind ∨ Benign w := hw.imp (fun h => hR h _ hk) id
    have hps := prim_safe p c a w (fun h => (hl h).1) hs
    have hw' : robust ∨ Benign (prim Cfg.repaired p c a w).2 := hw.imp id hps.2
    unfold run
    generalize hr : prim Cfg.repaired p c a w = r at hps hw'
    obtain ⟨res, w'⟩ := r
    cases res with
    | ok u => exact ihok () cur w' hok hw'
    | error e =>
      simp only []
      rcases hps.1 e rfl with ⟨m, hm⟩ | ⟨hkr, n, hn⟩
      · split
        · rename_i n _; exact iherr () n w' herr hw'
        · simp [Documented, hm]
      · rw [hraw hkr, hn]
        exact iherr () n w' herr hw'

theorem polProg_clean (S) (pol : Pol) (next : Unit → Prog) (hpol : PolClean S pol) (hn : Clean S (next ())) :
    Clean S (polProg pol next ()) := by
  cases pol <;> simp_all [polProg, Clean, PolClean]

theorem chain_clean (S : PrimKind → Prop) (p : Prim) (ct : Catch) (pol : Pol)
    (hp : S p.kind) (hl : LoopKind p.kind → 0 < p.budget ∧ p.budget ≤ 3)
    (hr : p.kind = .raw → ct = .commErr ∧ pol.isRaise = false) (hpol : PolClean S pol) :
    ∀ (ss : List Step) (fin : Unit → Prog), Clean S (fin ()) → Clean S (chain Cfg.repaired p ct pol ss fin) := by
  intro ss
  induction ss with
  | nil => intro fin h; simpa [chain] using h
  | cons s ss ih =>
    intro fin h
    have hn := ih fin h
    unfold chain
    simp only []
    split
    · rename_i hc
      have h12 : S .t12 := by rw [← hc.2]; exact hp
      refine ⟨h12, ⟨fun _ => ⟨by decide, by decide⟩, fun h => by cases h⟩, ?_, ?_⟩
      · cases pol <;> simp_all [polProg, Clean, PolClean]
      · refine ⟨hn, ?_, ?_⟩ <;> simpa [Cfg.repaired] using polProg_clean S pol _ hpol hn
    · refine ⟨hp, ⟨hl, fun h => ?_⟩, hn, polProg_clean S pol _ hpol hn⟩
      obtain ⟨h1, h2⟩ := hr h
      cases pol <;> simp_all [Pol.isRaise]

/-- retry loop -/
theorem chain_clean_loop (S : PrimKind → Prop) (p : Prim) (ct : Catch) (pol : Pol)
    (hk : LoopKind p.kind) (hp : S p.kind) (hb : 0 < p.budget) (hb3 : p.budget ≤ 3) (hpol : PolClean S pol)
    (ss : List Step) (fin : Unit → Prog) (h : Clean S (fin ())) : Clean S (chain Cfg.repaired p ct pol ss fin) :=
  chain_clean S p ct pol hp (fun _ => ⟨hb, hb3⟩)
    (fun h => by rcases hk with h' | h' <;> rw [h'] at h <;> cases h) hpol ss fin h

/-- ISO-DEP exchange, any retry budget -/
theorem chain_clean_t4 (S : PrimKind → Prop) (n : Nat) (b : Bool) (ct : Catch) (pol : Pol)
    (hp : S .t4) (hpol : PolClean S pol)
    (ss : List Step) (fin : Unit → Prog) (h : Clean S (fin ())) :
    Clean S (chain Cfg.repaired ⟨.t4, n, b⟩ ct pol ss fin) :=
  chain_clean S ⟨.t4, n, b⟩ ct pol hp (fun h => by rcases h with h | h <;> cases h) (fun h => by cases h) hpol ss fin h

/-- bare exchange inside `try ... except CommunicationError: return v` -/
theorem chain_clean_raw (S : PrimKind → Prop) (n : Nat) (b : Bool) (v : Val)
    (hp : S .raw) (ss : List Step) (fin : Unit → Prog) (h : Clean S (fin ())) :
    Clean S (chain Cfg.repaired ⟨.raw, n, b⟩ .commErr (.ret v) ss fin) :=
  chain_clean S ⟨.raw, n, b⟩ .commErr (.ret v) hp (fun h => by rcases h with h | h <;> cases h)
    (fun _ => ⟨rfl, rfl⟩) trivial ss fin h

/-! ## log invariant: answered attempts are last -/

def LogOK (log : List Inv) : Prop := ∀ inv ∈ log, InvOK 3 inv.atts

theorem prim_log (cfg : Cfg) (p : Prim) (c : Cmd) (a : Ans) (w : World) (hk : LoopKind p.kind) (hb3 : p.budget ≤ 3)
    (hw : LogOK w.log) : LogOK (prim cfg p c a w).2.log := by
  have key : ∀ k, LogOK (loop cfg k p.idm c a p.budget none [] w).2.log := by
    intro k
    obtain ⟨f, t, h1, h2, h3, h4⟩ := loop_log cfg k p.idm c a p.budget none [] w
    rw [h1]
    intro inv hm
    rcases List.mem_append.mp hm with h | h
    · exact hw inv h
    · simp at h; subst h
      exact ⟨f, t, by simp, h2, h3, by omega⟩
  unfold prim
  rcases hk with h | h <;> rw [h] <;> exact key _

theorem run_log (cfg : Cfg) (S : PrimKind → Prop) (hS : ∀ k, S k → LoopKind k) :
    ∀ (P : Prog) (cur : Int) (w : World), Clean S P → LogOK w.log → LogOK (run cfg P cur w).2.log := by
  intro P
  induction P with
  | ret v => intro cur w _ h; simpa [run] using h
  | crash e => intro cur w _ h; simpa [run] using h
  | reraise => intro cur w _ h; simpa [run] using h
  | caseErr z n p ihz ihn ihp =>
    intro cur w hc hw
    obtain ⟨hz, hn, hp⟩ := hc
    unfold run
    split
    · exact ihz () cur w hz hw
    · split
      · exact ihn () cur w hn hw
      · exact ihp () cur w hp hw
  | call p c a ct ok err ihok iherr =>
    intro cur w hc hw
    obtain ⟨hk, ⟨hl, _⟩, hok, herr⟩ := hc
    have hl' := prim_log cfg p c a w (hS _ hk) (hl (hS _ hk)).2 hw
    unfold run
    generalize hr : prim cfg p c a w = r at hl'
    obtain ⟨res, w'⟩ := r
    cases res with
    | ok u => exact ihok () cur w' hok hl'
    | error e =>
      simp only []
      split
      · rename_i n _; exact iherr () n w' herr hl'
      · exact hl'

/-! ## the programs of the operations are clean -/

theorem fixF17_rep : Cfg.repaired.fixF17 = true := rfl

macro "clean_tac" : tactic => `(tactic| repeat' (first
  | exact trivial
  | exact Or.inl rfl
  | exact Or.inr rfl
  | exact Or.inr (Or.inl rfl)
  | exact Or.inr (Or.inr rfl)
  | exact rfl
  | decide
  | apply chain_clean_t4
  | apply chain_clean_raw
  | apply chain_clean_loop
  | (show Clean _ _; dsimp only [fin])
  ))

/-- every operation of every family -/
theorem prog_clean_all (tlv : Bool) (fam op : String) (l : Phases) (v : Val) (nret : Nat) (P : Prog)
    (h : prog Cfg.repaired tlv fam op l v nret = some P) : Clean (fun _ => True) P := by
  cases tlv <;>
  (unfold prog at h
   simp only [fixF17_rep, if_true, Bool.false_eq_true, if_false] at h
   split at h <;> (cases h; clean_tac))

/-- the Type 1/2/3 families only use the retry loops -/
theorem prog_clean (tlv : Bool) (fam op : String) (l : Phases) (v : Val) (nret : Nat) (P : Prog)
    (h : prog Cfg.repaired tlv fam op l v nret = some P) (h4 : fam ≠ "t4") : Clean LoopKind P := by
  cases tlv <;>
  (unfold prog at h
   simp only [fixF17_rep, if_true, Bool.false_eq_true, if_false] at h
   split at h <;> first
     | exact absurd rfl h4
     | (cases h; clean_tac))

/-- the Type 3 and Type 4 families only use robust primitives -/
theorem prog_clean_robust (tlv : Bool) (fam op : String) (l : Phases) (v : Val) (nret : Nat) (P : Prog)
    (h : prog Cfg.repaired tlv fam op l v nret = some P)
    (hf : fam = "t3" ∨ fam = "t3std" ∨ fam = "lite" ∨ fam = "t4") : Clean Robust P := by
  cases tlv <;>
  (unfold prog at h
   simp only [fixF17_rep, if_true, Bool.false_eq_true, if_false] at h
   split at h <;> first
     | (exfalso; revert hf; decide)
     | (cases h; clean_tac))

theorem side_t3p (b : Bool) (ct : Catch) : PrimSide (t3p b) ct :=
  ⟨fun _ => ⟨(by show 0 < 3; decide), (by show 3 ≤ 3; decide)⟩, fun h => by cases h⟩

end NfcVerif.Retry
namespace NfcVerif.Retry
section t3format
variable (S : PrimKind → Prop) (h3 : S .t3) (cfg : Cfg) (t : T3Tag)
include h3

theorem t3Wipe_clean : ∀ n, Clean S (t3Wipe cfg t n) := by
  intro n
  induction n with
  | zero => exact trivial
  | succ n ih => unfold t3Wipe; exact ⟨h3, side_t3p _ _, ih, trivial⟩

theorem t3Nbw_clean (wipe : Bool) (nmaxb : Nat) : ∀ fuel nbw, Clean S (t3Nbw cfg t wipe nmaxb fuel nbw) := by
  intro fuel
  induction fuel with
  | zero => intro _; exact trivial
  | succ fuel ih =>
    intro nbw
    have hattr : Clean S (.call (t3p true) (wrTok 0 1) .ok .nothing
        (fun _ => if wipe then t3Wipe cfg t nmaxb else .ret .true_) (fun _ => .reraise)) := by
      refine ⟨h3, side_t3p _ _, ?_, trivial⟩
      show Clean S (if wipe = true then _ else _)
      split
      · exact t3Wipe_clean S h3 cfg t nmaxb
      · exact trivial
    unfold t3Nbw
    simp only []
    split
    · exact hattr
    · exact ⟨h3, side_t3p _ _, ih _, hattr⟩

theorem t3Nbr_clean (wipe : Bool) (nmaxb : Nat) : ∀ fuel nbr, Clean S (t3Nbr cfg t wipe nmaxb fuel nbr) := by
  intro fuel
  induction fuel with
  | zero => intro _; exact trivial
  | succ fuel ih =>
    intro nbr
    have hafter : Clean S (.call (t3p true) (rdTok 0 1) .ok .nothing
        (fun _ => t3Nbw cfg t wipe nmaxb 14 1) (fun _ => .reraise)) :=
      ⟨h3, side_t3p _ _, t3Nbw_clean S h3 cfg t wipe nmaxb 14 1, trivial⟩
    unfold t3Nbr
    simp only []
    split
    · exact hafter
    · exact ⟨h3, side_t3p _ _, ih _, hafter⟩

theorem t3Search_clean (wipe : Bool) : ∀ fuel lo hi, Clean S (t3Search cfg t wipe fuel lo hi) := by
  intro fuel
  induction fuel with
  | zero => intro lo _; unfold t3Search; exact t3Nbr_clean S h3 cfg t wipe lo 16 1
  | succ fuel ih =>
    intro lo hi
    unfold t3Search
    split
    · exact ⟨h3, side_t3p _ _, ih _ _, ih _ _⟩
    · exact t3Nbr_clean S h3 cfg t wipe lo 16 1

theorem t3Format_clean (wipe : Bool) : Clean S (t3Format cfg t wipe) :=
  ⟨h3, side_t3p _ _, t3Search_clean S h3 cfg t wipe 17 0 0x10000, trivial⟩
end t3format

end NfcVerif.Retry
